(* Tc.v — model of process/typechecker.go (as repaired by the fix: commits F4, F5, F6/F14, F11, F13).
   One Gallina function per Go typecheckForm method, same order of checks.  Go mutates the context
   map and writes type annotations into the names of the AST; the model threads the context and
   returns the annotated term (the interpreter reads those annotations: forward polarity). *)
Require Import Grits.Base Grits.ModeDefs Grits.Modes Grits.STypes Grits.Forms Grits.Subst Grits.Infer
               Grits.TcDeps Grits.Expand.

(* result of a check: Go returns an error (TErr), panics (TPanic: recovered by the worker into an
   "internal typechecker error" since the fix of F6/F14), or diverges (THang: stack overflow) *)
Inductive tcr (A : Type) : Type :=
| TOk (a : A)
| TErr (why : string)
| TPanic (why : string)
| THang (why : string).
Arguments TOk {A} a.
Arguments TErr {A} why.
Arguments TPanic {A} why.
Arguments THang {A} why.

Definition tbind {A B} (r : tcr A) (f : A -> tcr B) : tcr B :=
  match r with TOk a => f a | TErr w => TErr w | TPanic w => TPanic w | THang w => THang w end.
Notation "'tdo' x <- o ; k" := (tbind o (fun x => k)) (at level 200, x pattern, o at level 100, k at level 200).
Definition lift {A} (o : outcome A) : tcr A :=
  match o with Ok a => TOk a | Panic w => TPanic w | Hang w => THang w end.
Definition guard (b : bool) (why : string) : tcr unit := if b then TOk tt else TErr why.

(* Gamma: Go map[string]NamesType.  The type of an entry can be nil (see the cut rule). *)
Definition ctx := list (string * option sty).
Definition ctx_has (g : ctx) (x : string) : bool := amem x g.

(* FunctionTypesEnv (sigma) *)
Record fsig : Type := { fs_name : string; fs_params : list name; fs_type : option sty }.
Definition sigma := list fsig.
Fixpoint sig_lookup (Sg : sigma) (f : string) : option fsig :=
  match Sg with
  | [] => None
  | s :: r => match sig_lookup r f with Some x => Some x | None => if String.eqb f (fs_name s) then Some s else None end
  end.

Definition is_provider (n : name) (shadow : option name) : bool :=
  is_self n || match shadow with Some s => String.eqb (ident n) (ident s) | None => false end.

(* consumeName *)
Definition consume (n : name) (g : ctx) : tcr (option sty * ctx) :=
  if is_self n then TErr "found self, expected a client"
  else match alookup (ident n) g with
       | Some t => TOk (t, aremove (ident n) g)
       | None => TErr "the requested name is not defined"
       end.
(* consumeNameMaybeSelf *)
Definition consume_maybe_self (n : name) (shadow : option name) (g : ctx) (pty : option sty) : tcr (option sty * ctx) :=
  if is_self n then TOk (pty, g)
  else if match shadow with Some s => String.eqb (ident s) (ident n) | None => false end then TOk (pty, g)
  else match alookup (ident n) g with
       | Some t => TOk (t, aremove (ident n) g)
       | None => TErr "the requested name is not defined"
       end.
(* same, but the Go code looks at the error only later: the lookup result as an option *)
Definition consume_opt (n : name) (g : ctx) : (option (option sty)) * ctx :=
  if is_self n then (None, g)
  else match alookup (ident n) g with
       | Some t => (Some t, aremove (ident n) g)
       | None => (None, g)
       end.
Definition consume_maybe_self_opt (n : name) (shadow : option name) (g : ctx) (pty : option sty) : (option (option sty)) * ctx :=
  if is_self n then (Some pty, g)
  else if match shadow with Some s => String.eqb (ident s) (ident n) | None => false end then (Some pty, g)
  else match alookup (ident n) g with
       | Some t => (Some t, aremove (ident n) g)
       | None => (None, g)
       end.

Definition linear_gamma (g : ctx) : tcr unit :=
  match g with [] => TOk tt | _ => TErr "linearity requires that no names are left behind" end.

(* Unfold on a possibly-nil type *)
Definition unfold_opt (D : tenv) (t : option sty) : tcr (option sty) :=
  match t with None => TOk None | Some t => lift (unfold D t) end.
(* a type that the Go code dereferences (method call / String()) — nil is a panic *)
Definition need {A} (t : option A) (what : string) : tcr A :=
  match t with Some a => TOk a | None => TPanic ("nil dereference: " ^^ what) end.

(* EqualType on possibly-nil interface values *)
Definition equal_opt (D : tenv) (a b : option sty) : tcr bool :=
  match a, b with
  | Some s, Some t => lift (equal_type D s t)
  | None, None => TOk false
  | Some (TName _ _), None | None, Some (TName _ _) => TPanic "EqualType on nil"
  | _, _ => TOk false
  end.

(* Name.ExplicitPolarityValid / checkExplicitPolarityValidity *)
Definition pol_valid (n : name) : tcr bool :=
  match pol n, nty n with
  | Some p, Some t => tdo q <- lift (polarity_of t); TOk (pol_eqb p q)
  | _, _ => TOk true
  end.
Fixpoint check_pols (ns : list name) : tcr unit :=
  match ns with
  | [] => TOk tt
  | n :: r => tdo v <- pol_valid n; if v then check_pols r else TErr "invalid polarities"
  end.

(* declationOfIndependenceOne : left.Type.Modality().CanBeDownshiftedTo(right.Modality()) *)
Definition indep_one (lt : option sty) (rt : option sty) : tcr unit :=
  tdo l <- need lt "declaration of independence (left type)";
  tdo r <- need rt "declaration of independence (right type)";
  tdo ok <- lift (down_o (mode_of l) (mode_of r));
  guard ok "declaration of independence error".
Fixpoint indep_all (ls : list (option sty)) (rt : option sty) : tcr unit :=
  match ls with
  | [] => TOk tt
  | l :: r => tdo _ <- indep_one l rt; indep_all r rt
  end.

(* splitGammaCtx: take the requested names out of gamma; the left context holds them with their
   unfolded types *)
Fixpoint split_gamma (D : tenv) (g : ctx) (ns : list name) (acc : ctx) : tcr (ctx * ctx) :=
  match ns with
  | [] => TOk (acc, g)
  | n :: r =>
    if is_self n then split_gamma D g r acc
    else
      match consume_opt n g with
      | (Some t, g') =>
        tdo t' <- unfold_opt D t;
        split_gamma D g' r (aset (ident n) t' acc)
      | (None, _) => TErr "error when splitting variable context"
      end
  end.

Definition name_in_names (c : name) (l : list name) : bool := existsb (fun x => name_equal c x) l.

Definition as_tensor (t : option sty) := match t with Some (TTensor a b m) => Some (a, b, m) | _ => None end.
Definition as_lolli (t : option sty) := match t with Some (TLolli a b m) => Some (a, b, m) | _ => None end.
Definition as_plus (t : option sty) := match t with Some (TPlus bs m) => Some (bs, m) | _ => None end.
Definition as_with (t : option sty) := match t with Some (TWith bs m) => Some (bs, m) | _ => None end.
Definition as_up (t : option sty) := match t with Some (TUp f to a) => Some (f, to, a) | _ => None end.
Definition as_down (t : option sty) := match t with Some (TDown f to a) => Some (f, to, a) | _ => None end.
Definition is_unit (t : option sty) : bool := match t with Some (TUnit _) => true | _ => false end.

(* error paths that print a possibly-nil type with .String() panic on nil *)
Definition type_mismatch {A} (t : option sty) (why : string) : tcr A :=
  match t with Some _ => TErr why | None => TPanic ("nil dereference while reporting: " ^^ why) end.

Section Check.
Variable D : tenv.
Variable Sg : sigma.

(* arguments of a call against the parameters of the signature *)
Fixpoint tc_args (g : ctx) (args : list name) (params : list name) {struct args} : tcr (list name * ctx) :=
  match args, params with
  | [], _ => TOk ([], g)
  | a :: ar, p :: pr =>
    tdo (ft, g1) <- consume a g;
    tdo e <- equal_opt D ft (nty p);
    tdo _ <- (if e then TOk tt else match ft, nty p with Some _, Some _ => TErr "call: parameter type mismatch" | _, _ => TPanic "nil in message" end);
    tdo ft' <- unfold_opt D ft;
    let a' := set_nty a ft' in
    tdo _ <- check_pols [a'];
    tdo (ar', g2) <- tc_args g1 ar pr;
    TOk (a' :: ar', g2)
  | _ :: _, [] => TPanic "index out of range (parameters)"
  end.

Fixpoint tc_form (g : ctx) (shadow : option name) (pty : option sty) (f : form) {struct f} : tcr form :=
  match f with
  (* ------------------------------------------------------------------ send w<u,v> *)
  | FSend to pay cont =>
    if is_provider to shadow then
      (* MulR *)
      tdo pty' <- unfold_opt D pty;
      match as_tensor pty' with
      | None => type_mismatch pty' "expected a send type"
      | Some (el, er, m) =>
        let '(fl, g1) := consume_opt pay g in
        tdo fl' <- unfold_opt D (match fl with Some t => t | None => None end);
        let '(fr, g2) := consume_opt cont g1 in
        tdo fr' <- unfold_opt D (match fr with Some t => t | None => None end);
        tdo _ <- guard (match fl with Some _ => true | None => false end) "error in send (payload)";
        tdo _ <- guard (match fr with Some _ => true | None => false end) "error in send (continuation)";
        tdo e1 <- equal_opt D (Some el) fl';
        tdo _ <- (if e1 then TOk tt else type_mismatch fl' "payload type mismatch");
        tdo e2 <- equal_opt D (Some er) fr';
        tdo _ <- (if e2 then TOk tt else type_mismatch fr' "continuation type mismatch");
        let to' := set_nty to pty' in
        let pay' := set_nty pay fl' in
        let cont' := set_nty cont fr' in
        tdo _ <- check_pols [to'; pay'; cont'];
        tdo _ <- linear_gamma g2;
        TOk (FSend to' pay' cont')
      end
    else if is_provider cont shadow then
      (* ImpL *)
      tdo (ct, g1) <- consume to g;
      tdo ct' <- unfold_opt D ct;
      match as_lolli ct' with
      | None => type_mismatch ct' "expected a receive type"
      | Some (el, er, m) =>
        let '(fl, g2) := consume_opt pay g1 in
        let '(fr, g3) := consume_maybe_self_opt cont shadow g2 pty in
        tdo el' <- unfold_opt D (Some el);
        tdo er' <- unfold_opt D (Some er);
        tdo fl' <- unfold_opt D (match fl with Some t => t | None => None end);
        tdo fr' <- unfold_opt D (match fr with Some t => t | None => None end);
        tdo _ <- guard (match fl with Some _ => true | None => false end) "error in send (payload)";
        tdo _ <- guard (match fr with Some _ => true | None => false end) "error in send (continuation)";
        tdo e1 <- equal_opt D el' fl';
        tdo _ <- (if e1 then TOk tt else match el', fl' with Some _, Some _ => TErr "payload type mismatch" | _, _ => TPanic "nil in message" end);
        tdo e2 <- equal_opt D er' fr';
        tdo _ <- (if e2 then TOk tt else match er', fr' with Some _, Some _ => TErr "continuation type mismatch" | _, _ => TPanic "nil in message" end);
        let to' := set_nty to ct' in
        let pay' := set_nty pay fl' in
        let cont' := set_nty cont fr' in
        tdo _ <- check_pols [to'; pay'; cont'];
        tdo _ <- linear_gamma g3;
        TOk (FSend to' pay' cont')
      end
    else TErr "send: self not used appropriately"
  (* ------------------------------------------------------------------ <x,y> <- recv w; P *)
  | FRecv pay cont from k =>
    if is_provider from shadow then
      (* ImpR *)
      tdo pty' <- unfold_opt D pty;
      match as_lolli pty' with
      | None => type_mismatch pty' "expected a receive type"
      | Some (l, r, m) =>
        tdo nl <- unfold_opt D (Some l);
        tdo nr <- unfold_opt D (Some r);
        tdo _ <- guard (negb (ctx_has g (ident pay) || ctx_has g (ident cont))) "variable names already defined";
        tdo _ <- guard (negb (name_equal pay cont)) "variable names are the same";
        let g1 := aset (ident pay) nl g in
        let from' := set_nty from pty' in
        let pay' := set_nty pay nl in
        let cont' := set_nty cont nr in
        tdo _ <- check_pols [from'; pay'; cont'];
        tdo k' <- tc_form g1 (Some cont') nr k;
        TOk (FRecv pay' cont' from' k')
      end
    else if is_provider pay shadow || is_provider cont shadow then TErr "you cannot assign self to a new channel"
    else
      (* MulL *)
      tdo (ct, g1) <- consume from g;
      tdo ct' <- unfold_opt D ct;
      match as_tensor ct' with
      | None => type_mismatch ct' "expected a send type"
      | Some (l, r, m) =>
        tdo nl <- unfold_opt D (Some l);
        tdo nr <- unfold_opt D (Some r);
        tdo _ <- guard (negb (ctx_has g1 (ident pay) || ctx_has g1 (ident cont))) "variable names already defined";
        tdo _ <- guard (negb (name_equal pay cont)) "variable names are the same";
        let g2 := aset (ident cont) nr (aset (ident pay) nl g1) in
        let from' := set_nty from ct' in
        let pay' := set_nty pay nl in
        let cont' := set_nty cont nr in
        tdo _ <- check_pols [from'; pay'; cont'];
        tdo k' <- tc_form g2 shadow pty k;
        TOk (FRecv pay' cont' from' k')
      end
  (* ------------------------------------------------------------------ w.l<u> *)
  | FSel to l cont =>
    if is_provider to shadow then
      (* IChoiceR *)
      tdo pty' <- unfold_opt D pty;
      match as_plus pty' with
      | None => type_mismatch pty' "expected a select type"
      | Some (bs, m) =>
        match find_br l bs with
        | None => TErr "could not match label"
        | Some ctype =>
          tdo (fc, g1) <- consume cont g;
          tdo e <- equal_opt D (Some ctype) fc;
          tdo _ <- (if e then TOk tt else match fc with Some _ => TErr "select: continuation type mismatch" | None => TPanic "nil in message" end);
          tdo ctype' <- unfold_opt D (Some ctype);
          let to' := set_nty to pty' in
          let cont' := set_nty cont ctype' in
          tdo _ <- check_pols [to'; cont'];
          tdo _ <- linear_gamma g1;
          TOk (FSel to' l cont')
        end
      end
    else if is_provider cont shadow then
      (* EChoiceL *)
      tdo (ct, g1) <- consume to g;
      tdo ct' <- unfold_opt D ct;
      match as_with ct' with
      | None => type_mismatch ct' "expected a branching type"
      | Some (bs, m) =>
        match find_br l bs with
        | None => TErr "could not match label"
        | Some ctype =>
          tdo (fc, g2) <- consume_maybe_self cont shadow g1 pty;
          tdo e <- equal_opt D (Some ctype) fc;
          tdo _ <- (if e then TOk tt else match fc with Some _ => TErr "select: continuation type mismatch" | None => TPanic "nil in message" end);
          tdo ctype' <- unfold_opt D (Some ctype);
          let to' := set_nty to ct' in
          let cont' := set_nty cont ctype' in
          tdo _ <- check_pols [to'; cont'];
          tdo _ <- linear_gamma g2;
          TOk (FSel to' l cont')
        end
      end
    else TErr "select: neither side is self"
  (* ------------------------------------------------------------------ case w ( ... ) *)
  | FCase from brs =>
    if is_provider from shadow then
      (* EChoiceR *)
      tdo pty' <- unfold_opt D pty;
      match as_with pty' with
      | None => type_mismatch pty' "expected a branching type"
      | Some (bs, m) =>
        tdo (brs', seen) <- tc_branches_provider g bs [] brs;
        tdo _ <- guard (negb (Nat.ltb (length seen) (brs_len bs))) "some labels are not pattern matched";
        let from' := set_nty from pty' in
        tdo _ <- check_pols [from'];
        TOk (FCase from' brs')
      end
    else
      (* IChoiceL *)
      tdo (ct, g1) <- consume from g;
      tdo ct' <- unfold_opt D ct;
      match as_plus ct' with
      | None => type_mismatch ct' "expected a select type"
      | Some (bs, m) =>
        tdo (brs', seen) <- tc_branches_client g1 shadow pty bs [] brs;
        tdo _ <- guard (negb (Nat.ltb (length seen) (brs_len bs))) "some labels are not pattern matched";
        let from' := set_nty from ct' in
        tdo _ <- check_pols [from'];
        TOk (FCase from' brs')
      end
  (* ------------------------------------------------------------------ x <- new (body); P *)
  | FNew x body k =>
    tdo _ <- guard (negb (is_provider x shadow)) "you cannot assign self to a new channel";
    let reused := ctx_has g (ident x) in
    let body_fn := free_names body in
    tdo _ <- guard (negb (negb reused && name_in_names x body_fn)) "cannot use the new name in the spawned process";
    tdo _ <- guard (negb (reused && negb (name_in_names x body_fn))) "name is reassigned before being used";
    tdo _ <- guard (negb (has_continuation body)) "cannot determine variable context splitting";
    match body with
    | FCall fn args _ =>
      tdo (gl, gr0) <- split_gamma D g args [];
      let gr := if reused then aset (ident x) (nty x) gr0 else gr0 in
      match sig_lookup Sg fn with
      | None => TErr "function is undefined"
      | Some sg =>
        tdo fty <- unfold_opt D (fs_type sg);
        tdo _ <- (match nty x with
                  | None => TOk tt
                  | Some xt =>
                    tdo xt1 <- lift (add_missing D xt);
                    tdo _ <- guard (check_wf D xt1) "invalid type for the new name";
                    tdo e <- equal_opt D (Some xt1) fty;
                    if e then TOk tt else match fty with Some _ => TErr "annotation differs from the type the function provides" | None => TPanic "nil in message" end
                  end);
        tdo _ <- indep_all (map snd gl) fty;
        tdo body' <- tc_form gl (Some x) fty body;
        let gr1 := aset (ident x) fty gr in
        tdo k' <- tc_form gr1 shadow pty k;
        let x' := set_nty x fty in
        tdo _ <- indep_one fty pty;
        tdo _ <- check_pols [x'];
        TOk (FNew x' body' k')
      end
    | _ =>
      tdo (gl, gr0) <- split_gamma D g body_fn [];
      let gr := if reused then aset (ident x) (nty x) gr0 else gr0 in
      match nty x with
      | None => TErr "expected an explicit type"
      | Some xt =>
        tdo xt1 <- lift (add_missing D xt);
        tdo _ <- guard (check_wf D xt1) "invalid type for the new name";
        tdo xt2 <- unfold_opt D (Some xt1);
        tdo _ <- indep_all (map snd gl) xt2;
        tdo _ <- indep_one xt2 pty;
        let x1 := set_nty x xt2 in
        tdo body' <- tc_form gl (Some x1) xt2 body;
        tdo xt3 <- unfold_opt D xt2;
        let x2 := set_nty x xt3 in
        let gr1 := aset (ident x) xt3 gr in
        tdo _ <- check_pols [x2];
        tdo k' <- tc_form gr1 shadow pty k;
        TOk (FNew x2 body' k')
      end
    end
  (* ------------------------------------------------------------------ close w *)
  | FClose c =>
    tdo pty' <- unfold_opt D pty;
    if is_provider c shadow then
      if is_unit pty' then
        let c' := set_nty c pty' in
        tdo _ <- check_pols [c'];
        tdo _ <- linear_gamma g;
        TOk (FClose c')
      else type_mismatch pty' "expected a unit type"
    else
      if is_unit pty' then TErr "expected to close on self" else type_mismatch pty' "expected a unit type"
  (* ------------------------------------------------------------------ wait w; P *)
  | FWait c k =>
    if is_provider c shadow then
      tdo pty' <- unfold_opt D pty;
      if is_unit pty' then TErr "wait on self" else type_mismatch pty' "expected a unit type"
    else
      tdo (ct, g1) <- consume c g;
      tdo ct' <- unfold_opt D ct;
      if is_unit ct' then
        let c' := set_nty c ct' in
        tdo _ <- check_pols [c'];
        tdo k' <- tc_form g1 shadow pty k;
        TOk (FWait c' k')
      else type_mismatch ct' "expected a unit type"
  (* ------------------------------------------------------------------ fwd w u *)
  | FFwd to from d =>
    if is_provider from shadow then TErr "forwarding to self is not allowed"
    else if negb (is_provider to shadow) then TErr "not forwarding on self"
    else
      let '(ct, g1) := consume_opt from g in
      tdo ct' <- unfold_opt D (match ct with Some t => t | None => None end);
      tdo _ <- guard (match ct with Some _ => true | None => false end) "error in forward";
      tdo e <- equal_opt D pty ct';
      tdo _ <- (if e then TOk tt else match pty, ct' with Some _, Some _ => TErr "forward: types do not match" | _, _ => TPanic "nil in message" end);
      tdo pty' <- unfold_opt D pty;
      tdo pt <- need pty' "forward provider type";
      tdo ctt <- need ct' "forward client type";
      tdo p1 <- lift (polarity_of ctt);
      tdo p2 <- lift (polarity_of pt);
      tdo _ <- guard (pol_eqb p1 p2) "invalid polarities in forward";
      let to' := set_nty to pty' in
      let from' := set_nty from ct' in
      tdo _ <- check_pols [to'; from'];
      tdo _ <- linear_gamma g1;
      TOk (FFwd to' from' d)
  (* ------------------------------------------------------------------ <x,y> <- split w; P *)
  | FSplit x y from k =>
    if is_provider from shadow then TErr "split on self"
    else
      let '(ft, g1) := consume_opt from g in
      tdo ft' <- unfold_opt D (match ft with Some t => t | None => None end);
      tdo _ <- guard (match ft with Some _ => true | None => false end) "error in split";
      tdo _ <- guard (negb (is_provider x shadow || is_provider y shadow)) "you cannot assign self to a new channel";
      tdo _ <- guard (negb (ctx_has g1 (ident x) || ctx_has g1 (ident y))) "variable names already defined";
      tdo _ <- guard (negb (name_equal x y)) "variable names are the same";
      let g2 := aset (ident y) ft' (aset (ident x) ft' g1) in
      tdo t <- need ft' "split type";
      tdo _ <- guard (contr (mode_of t)) "unable to split";
      let from' := set_nty from ft' in
      let x' := set_nty x ft' in
      let y' := set_nty y ft' in
      tdo _ <- check_pols [from'; x'; y'];
      tdo k' <- tc_form g2 shadow pty k;
      TOk (FSplit x' y' from' k')
  (* ------------------------------------------------------------------ f(...) *)
  | FCall fn args _ =>
    match sig_lookup Sg fn with
    | None => TErr "function is undefined"
    | Some sg =>
      let np := length (fs_params sg) in
      let na := length args in
      if (S np =? na)%nat then
        match args with
        | [] => TErr "unreachable"
        | a0 :: rest =>
          tdo _ <- guard (is_self a0 || match shadow with Some s => String.eqb (ident s) (ident a0) | None => false end)
                         "expected first parameter to be self";
          tdo e <- equal_opt D pty (fs_type sg);
          tdo _ <- (if e then TOk tt else match pty, fs_type sg with Some _, Some _ => TErr "call: provider type mismatch" | _, _ => TPanic "nil in message" end);
          tdo (rest', g1) <- tc_args g rest (fs_params sg);
          tdo _ <- linear_gamma g1;
          TOk (FCall fn (a0 :: rest') (fs_type sg))
        end
      else if (np =? na)%nat then
        tdo e <- equal_opt D pty (fs_type sg);
        tdo _ <- (if e then TOk tt else match pty, fs_type sg with Some _, Some _ => TErr "call: provider type mismatch" | _, _ => TPanic "nil in message" end);
        tdo (args', g1) <- tc_args g args (fs_params sg);
        tdo _ <- linear_gamma g1;
        TOk (FCall fn args' (fs_type sg))
      else TErr "wrong number of parameters"
    end
  (* ------------------------------------------------------------------ cast w<u> *)
  | FCast to cont =>
    if is_provider to shadow then
      (* DnSR *)
      tdo pty' <- unfold_opt D pty;
      match as_down pty' with
      | None => type_mismatch pty' "expected a downshift type"
      | Some (fm, tm, a) =>
        tdo ok <- lift (down_o fm tm);
        tdo _ <- guard ok "improper downshift type";
        tdo ec <- unfold_opt D (Some a);
        let '(fc, g1) := consume_opt cont g in
        tdo fc' <- unfold_opt D (match fc with Some t => t | None => None end);
        tdo _ <- guard (match fc with Some _ => true | None => false end) "error in cast";
        tdo fct <- need fc' "cast continuation type";
        tdo _ <- guard (mode_eqb fm (mode_of fct)) "cast: mode mismatch";
        tdo e <- equal_opt D ec fc';
        tdo _ <- (if e then TOk tt else match ec with Some _ => TErr "cast: continuation type mismatch" | None => TPanic "nil in message" end);
        let to' := set_nty to pty' in
        let cont' := set_nty cont fc' in
        tdo _ <- check_pols [to'; cont'];
        tdo _ <- linear_gamma g1;
        TOk (FCast to' cont')
      end
    else if is_provider cont shadow then
      (* UpSL *)
      tdo (ct, g1) <- consume to g;
      tdo ct' <- unfold_opt D ct;
      match as_up ct' with
      | None => type_mismatch ct' "expected an upshift type"
      | Some (fm, tm, a) =>
        tdo ok <- lift (up_o fm tm);
        tdo _ <- guard ok "improper upshift type";
        let '(fc, g2) := consume_maybe_self_opt cont shadow g1 pty in
        tdo ec <- unfold_opt D (Some a);
        tdo fc' <- unfold_opt D (match fc with Some t => t | None => None end);
        tdo _ <- guard (match fc with Some _ => true | None => false end) "error in cast";
        tdo fct <- need fc' "cast continuation type";
        tdo _ <- guard (mode_eqb fm (mode_of fct)) "cast: mode mismatch";
        tdo e <- equal_opt D ec fc';
        tdo _ <- (if e then TOk tt else match ec with Some _ => TErr "cast: continuation type mismatch" | None => TPanic "nil in message" end);
        let to' := set_nty to ct' in
        let cont' := set_nty cont fc' in
        tdo _ <- check_pols [to'; cont'];
        tdo _ <- linear_gamma g2;
        TOk (FCast to' cont')
      end
    else TErr "cast: self was not used"
  (* ------------------------------------------------------------------ x <- shift w; P *)
  | FShift x from k =>
    if is_provider from shadow then
      (* UpSR *)
      tdo pty' <- unfold_opt D pty;
      match as_up pty' with
      | None => type_mismatch pty' "expected an upshift type"
      | Some (fm, tm, a) =>
        tdo ok <- lift (up_o fm tm);
        tdo _ <- guard ok "improper upshift type";
        tdo ec <- unfold_opt D (Some a);
        tdo _ <- guard (negb (ctx_has g (ident x))) "variable name already defined";
        let from' := set_nty from pty' in
        let x' := set_nty x ec in
        tdo _ <- check_pols [from'; x'];
        tdo k' <- tc_form g (Some x') ec k;
        TOk (FShift x' from' k')
      end
    else if is_provider x shadow then TErr "you cannot assign self to a new channel"
    else
      (* DnSL *)
      tdo (ct, g1) <- consume from g;
      tdo ct' <- unfold_opt D ct;
      match as_down ct' with
      | None => type_mismatch ct' "expected a downshift type"
      | Some (fm, tm, a) =>
        tdo ok <- lift (down_o fm tm);
        tdo _ <- guard ok "improper downshift type";
        tdo nc <- unfold_opt D (Some a);
        tdo _ <- guard (negb (ctx_has g1 (ident x))) "variable name already defined";
        let g2 := aset (ident x) nc g1 in
        let from' := set_nty from ct' in
        let x' := set_nty x nc in
        tdo _ <- check_pols [from'; x'];
        tdo k' <- tc_form g2 shadow pty k;
        TOk (FShift x' from' k')
      end
  (* ------------------------------------------------------------------ drop w; P *)
  | FDrop c k =>
    if negb (is_provider c shadow) then
      tdo (ct, g1) <- consume c g;
      tdo t <- need ct "drop client type";
      if weak (mode_of t) then
        tdo ct' <- unfold_opt D ct;
        let c' := set_nty c ct' in
        tdo _ <- check_pols [c'];
        tdo k' <- tc_form g1 shadow pty k;
        TOk (FDrop c' k')
      else TErr "unable to drop"
    else TErr "drop on self"
  (* ------------------------------------------------------------------ print l; P *)
  | FPrint l k =>
    tdo k' <- tc_form g shadow pty k;
    TOk (FPrint l k')
  end
(* branches of `case self (...)`: every branch is checked in a copy of gamma with the payload as the
   new provider; seen = labelsChecked *)
with tc_branches_provider (g : ctx) (bs : brs) (seen : list string) (b : branches) {struct b}
  : tcr (branches * list string) :=
  match b with
  | BrNil => TOk (BrNil, seen)
  | BrCons l pay k r =>
    tdo _ <- guard (negb (str_mem l seen)) "label is duplicated";
    match find_br l bs with
    | None => TErr "branch does not match the type"
    | Some bt =>
      tdo _ <- guard (negb (ctx_has g (ident pay))) "variable name already defined";
      tdo bt' <- unfold_opt D (Some bt);
      let pay' := set_nty pay bt' in
      tdo _ <- check_pols [pay'];
      tdo k' <- tc_form g (Some pay') (Some bt) k;
      tdo (r', seen') <- tc_branches_provider g bs (l :: seen) r;
      TOk (BrCons l pay' k' r', seen')
    end
  end
(* branches of `case x (...)` on a client *)
with tc_branches_client (g : ctx) (shadow : option name) (pty : option sty) (bs : brs) (seen : list string) (b : branches) {struct b}
  : tcr (branches * list string) :=
  match b with
  | BrNil => TOk (BrNil, seen)
  | BrCons l pay k r =>
    tdo _ <- guard (negb (str_mem l seen)) "label is duplicated";
    match find_br l bs with
    | None => TErr "case does not match the type"
    | Some bt =>
      tdo _ <- guard (negb (is_provider pay shadow)) "you cannot assign self to a new channel";
      tdo _ <- guard (negb (ctx_has g (ident pay))) "variable name already defined";
      let g1 := aset (ident pay) (Some bt) g in
      tdo bt' <- unfold_opt D (Some bt);
      let pay' := set_nty pay bt' in
      tdo _ <- check_pols [pay'];
      tdo k' <- tc_form g1 shadow pty k;
      tdo (r', seen') <- tc_branches_client g shadow pty bs (l :: seen) r;
      TOk (BrCons l pay' k' r', seen')
    end
  end.
End Check.
