(* ModeDefs.v — the mode datatype (types/modality.go: the six Modality implementations). *)
Require Import Grits.Base.

Inductive mode : Type := Rep | Mul | Aff | Lin | Unset | Invalid (s : string).

Definition mode_eqb (a b : mode) : bool :=
  match a, b with
  | Rep, Rep | Mul, Mul | Aff, Aff | Lin, Lin | Unset, Unset => true
  | Invalid _, Invalid _ => true   (* Go: Equals on InvalidMode only compares the dynamic type *)
  | _, _ => false
  end.

(* structural equality (used for model-internal comparisons, not a Go function) *)
Definition mode_same (a b : mode) : bool :=
  match a, b with
  | Rep, Rep | Mul, Mul | Aff, Aff | Lin, Lin | Unset, Unset => true
  | Invalid s, Invalid t => String.eqb s t
  | _, _ => false
  end.

Definition proper (m : mode) : bool :=
  match m with Rep | Mul | Aff | Lin => true | _ => false end.

Definition four_modes : list mode := [Rep; Mul; Aff; Lin].
