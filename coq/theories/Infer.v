(* Infer.v — mode inference (types/modality.go:405-699): inferModality with its usedLabels set,
   commonMode, assignUnsetModalities, SetModalityTypeDef, AddMissingModalities. *)
Require Import Grits.Base Grits.ModeDefs Grits.Modes Grits.STypes.

Fixpoint tsize (t : sty) : nat :=
  match t with
  | TName _ _ | TUnit _ => 1
  | TTensor a b _ | TLolli a b _ => S (tsize a + tsize b)
  | TPlus bs _ | TWith bs _ => S (bsize bs)
  | TUp _ _ a | TDown _ _ a => S (tsize a)
  end
with bsize (b : brs) : nat :=
  match b with BNil => 1 | BCons _ a r => S (tsize a + bsize r) end.

Definition env_size (D : tenv) : nat := fold_right (fun d acc => tsize (td_body d) + acc) 0 D.

Definition is_unset (m : mode) : bool := match m with Unset => true | _ => false end.

(* commonMode: the first mode that is not Unset (Unset if there is none) *)
Definition common2 (a b : mode) : mode := if is_unset a then b else a.

(* inferModality.  used: the usedLabels map (a set of names).  Returns the mode and the
   map as mutated by the call.  Copies: left operand and every branch get a copy, the right
   operand shares the map. fuel bounds the recursion DEPTH; out of fuel = Hang. *)
Fixpoint infer (fuel : nat) (D : tenv) (t : sty) (used : list string) : outcome (mode * list string) :=
  match fuel with
  | O => Hang "inferModality"
  | S f =>
    match t with
    | TName x m =>
      if negb (is_unset m) then Ok (m, used)
      else match tlookup D x with
           | Some d => if negb (str_mem x used) then infer f D (td_body d) (x :: used) else Ok (m, used)
           | None => Ok (m, used)
           end
    | TUnit m => Ok (m, used)
    | TTensor a b m | TLolli a b m =>
      if negb (is_unset m) then Ok (m, used)
      else do (lm, _) <- infer f D a used;
           do (rm, used') <- infer f D b used;
           Ok (common2 lm rm, used')
    | TPlus bs m | TWith bs m =>
      if negb (is_unset m) then Ok (m, used)
      else do r <- infer_brs f D bs used; Ok (r, used)
    | TUp _ to _ | TDown _ to _ => Ok (to, used)
    end
  end
with infer_brs (fuel : nat) (D : tenv) (b : brs) (used : list string) : outcome mode :=
  match fuel with
  | O => Hang "inferModality"
  | S f =>
    match b with
    | BNil => Ok Unset          (* commonMode() of no modes: Go indexes modes[0] and panics; see infer_brs_top *)
    | BCons _ a r =>
      do (m, _) <- infer f D a used;
      do rest <- infer_brs f D r used;
      Ok (common2 m rest)
    end
  end.

(* fuel that always suffices (proofs/InferProofs.v): along one recursion path at most |D| name
   expansions happen (each adds a new name of D to the set), with structural descent in between *)
Definition infer_fuel (D : tenv) (t : sty) : nat := S ((S (length D)) * (S (env_size D + tsize t))).

(* assignUnsetModalities *)
Fixpoint assign (D : tenv) (cur : mode) (t : sty) : sty :=
  match t with
  | TName x m =>
    if negb (is_unset m) then t
    else match tlookup D x with Some d => TName x (td_mode d) | None => TName x cur end
  | TUnit m => if is_unset m then TUnit cur else t
  | TTensor a b m => let c := if is_unset m then cur else m in TTensor (assign D c a) (assign D c b) c
  | TLolli a b m => let c := if is_unset m then cur else m in TLolli (assign D c a) (assign D c b) c
  | TPlus bs m => let c := if is_unset m then cur else m in TPlus (assign_brs D c bs) c
  | TWith bs m => let c := if is_unset m then cur else m in TWith (assign_brs D c bs) c
  | TUp f to a => TUp f to (assign D f a)
  | TDown f to a => TDown f to (assign D f a)
  end
with assign_brs (D : tenv) (cur : mode) (b : brs) : brs :=
  match b with BNil => BNil | BCons l a r => BCons l (assign D cur a) (assign_brs D cur r) end.

Definition or_default (m : mode) : mode := if is_unset m then default_mode else m.

(* AddMissingModalities (on one type) *)
Definition add_missing (D : tenv) (t : sty) : outcome sty :=
  do (m, _) <- infer (infer_fuel D t) D t [];
  Ok (assign D (or_default m) t).

(* SetModalityTypeDef: first every definition gets its general mode (inferred against the
   environment in which all definitions still carry no mode), then the environment is rebuilt
   and the inner modes are assigned *)
Fixpoint infer_defs (D0 : tenv) (l : tenv) : outcome tenv :=
  match l with
  | [] => Ok []
  | d :: r =>
    do (m, _) <- infer (infer_fuel D0 (td_body d)) D0 (td_body d) [];
    do r' <- infer_defs D0 r;
    Ok ({| td_name := td_name d; td_body := td_body d; td_mode := or_default m |} :: r')
  end.

Definition set_modality_typedefs (D0 : tenv) : outcome tenv :=
  do D1 <- infer_defs D0 D0;
  Ok (map (fun d => {| td_name := td_name d; td_body := assign D1 (td_mode d) (td_body d); td_mode := td_mode d |}) D1).
