(* RuntimeFootprint.v — footprints of the choices of the runtime model (Runtime.v), and an
   executable check of the side conditions of the commutation theorems (C03) along a run.
   Definitions only (the facts are in proofs/RuntimeFacts.v, proofs/Diamond.v,
   proofs/RuntimeCheckFacts.v); extracted for the correspondence driver (`compat-<mode>-<seed>`),
   which reports on how many reachable configurations of the tested programs the hypotheses of
   `determinism_partial` were evaluated and how often they failed. *)
From stdpp Require Import gmap strings.
Require Import Grits.Base Grits.ModeDefs Grits.Modes Grits.STypes Grits.Forms Grits.Subst Grits.TcDeps Grits.Expand.
Require Import Grits.Runtime.

Definition is_fwd_body (p : proc) : bool := match pr_body0 p with FFwd _ _ _ => true | _ => false end.
(* the channels a process closes when it receives message m: its providers, on a forward request *)
Definition closes_of (p : proc) (m : msg) : list cid :=
  if rule_eqb (m_rule m) RFWD && negb (is_fwd_body p) then cids_of (pr_provs p) else [].

(* ------------------------------------------------------------------ what a choice reads *)
Definition movers (ch : choice) : list pid :=
  match ch with Run p => [p] | Rendezvous s r => [s; r] | Control f t => [f; t] end.

Definition act_chan (a : action) : list cid :=
  match a with ASend k _ | ARecv k => [k] | _ => [] end.

(* the channel cells the choice looks at *)
Definition reads (md : exec_mode) (D : tenv) (c : config) (ch : choice) : list cid :=
  match ch with
  | Run p => match procs c !! p with Some pp => act_chan (action_of md D pp) | None => [] end
  | Rendezvous s r => match procs c !! s with Some ps => act_chan (action_of md D ps) | None => [] end
  | Control _ _ => []
  end.

(* the channels the choice closes (the receiver's providers, when the message is a forward request) *)
Definition closes (md : exec_mode) (D : tenv) (c : config) (ch : choice) : list cid :=
  match ch with
  | Run p =>
    match procs c !! p with
    | Some pp =>
      match action_of md D pp with
      | ARecv k => match chans c !! k with
                   | Some st => match ch_buf st with Some m => closes_of pp m | None => [] end
                   | None => []
                   end
      | _ => []
      end
    | None => []
    end
  | Rendezvous s r =>
    match procs c !! s, procs c !! r with
    | Some ps, Some pr => match action_of md D ps with ASend _ m => closes_of pr m | _ => [] end
    | _, _ => []
    end
  | Control f t => match procs c !! t with Some pt => cids_of (firstn 1 (pr_provs pt)) | None => [] end
  end.

(* footprint of a choice: the existing channels its step reads or writes (the fresh channels it
   creates are in the acting process's private namespace and are dealt with by `ns_ok`) *)
Definition footprint_ch (md : exec_mode) (D : tenv) (c : config) (ch : choice) : list cid :=
  reads md D c ch ++ closes md D c ch.
Definition footprint (md : exec_mode) (D : tenv) (c : config) (p : pid) : list cid :=
  footprint_ch md D c (Run p).

(* ------------------------------------------------------------------ executable side conditions *)
Definition disj_b (l1 l2 : list (list nat)) : bool :=
  forallb (fun x => negb (existsb (cid_eqb x) l2)) l1.
Definition exists_b (c : config) (k : cid) : bool :=
  match chans c !! k with Some _ => true | None => false end.
Definition live_b (c : config) (p : pid) : bool :=
  match procs c !! p with Some _ => true | None => false end.

(* Diamond.indep *)
Definition indep_b (md : exec_mode) (D : tenv) (c : config) (a b : choice) : bool :=
  disj_b (movers a) (movers b) &&
  disj_b (footprint_ch md D c a) (footprint_ch md D c b) &&
  forallb (exists_b c) (closes md D c a ++ closes md D c b).

(* Diamond.indep_read *)
Definition indep_read_b (md : exec_mode) (D : tenv) (c : config) (a b : choice) : bool :=
  disj_b (movers a) (movers b) &&
  forallb (live_b c) (movers a) &&
  forallb (fun k => exists_b c k && negb (existsb (cid_eqb k) (footprint_ch md D c b))) (reads md D c a).

Definition choice_eqb (a b : choice) : bool :=
  match a, b with
  | Run p, Run q => cid_eqb p q
  | Rendezvous s r, Rendezvous s' r' => cid_eqb s s' && cid_eqb r r'
  | Control f t, Control f' t' => cid_eqb f f' && cid_eqb t t'
  | _, _ => false
  end.

(* the hypotheses I_compat and I_err of Determinism.v, for one ordered pair of choices *)
Definition pair_ok (md : exec_mode) (D : tenv) (F : list fundef) (c : config) (a b : choice) : bool :=
  choice_eqb a b ||
  match step md D F c a, step md D F c b with
  | SStep _, SStep _ => indep_b md D c a b
  | SError _ _, SStep _ => indep_read_b md D c a b
  | _, _ => true
  end.

Definition bad_pairs (md : exec_mode) (D : tenv) (F : list fundef) (c : config) : list (choice * choice) :=
  let en := enabled md D F c in
  filter (fun '(a, b) => negb (pair_ok md D F c a b)) (list_prod en en).

Record check_stats : Type := Stats { ck_configs : nat; ck_pairs : nat; ck_bad : nat }.

(* exec_run, instrumented: the same run, and the statistics of the check at every configuration
   visited (including the last one) *)
Fixpoint exec_check (fuel : nat) (pick : nat -> nat -> nat) (md : exec_mode) (D : tenv) (F : list fundef)
         (c : config) (st : check_stats) : run_res * check_stats :=
  let en := enabled md D F c in
  let st' := Stats (S (ck_configs st)) (ck_pairs st + length en * length en) (ck_bad st + length (bad_pairs md D F c)) in
  match fuel with
  | O => (ROutOfFuel c, st)
  | S f =>
    match en with
    | [] => (RQuiescent c, st')
    | e0 :: es =>
      let n := S (length es) in
      let ch := nth (pick fuel n mod n) (e0 :: es) e0 in
      match step md D F c ch with
      | SStep c' => exec_check f pick md D F c' st'
      | SError who w => (RError c who w, st')
      | SNotEnabled => (RQuiescent c, st')
      end
    end
  end.

(* ------------------------------------------------------------------ the fork-join class (proofs/ForkJoin.v) *)
(* a syntactic class of configurations for which C03 is proved with no hypothesis left: bodies built
   from `close self`, `wait c; k`, `x <- new b; k` with a CLOSED child b, `print l; k` and calls of
   parameterless functions; one provider per process; every channel mentioned by one process. *)
Definition ncid (n : name) : list cid := match chan n with Some c => [c] | None => [] end.
Definition selfn (n : name) : bool := is_self n && negb (initialized n) && String.eqb (ident n) "".
Definition varn (n : name) : bool := negb (is_self n) && negb (initialized n) && negb (String.eqb (ident n) "").
Definition chn (n : name) : bool := negb (is_self n) && initialized n.
Definition nilb {A} (l : list A) : bool := match l with [] => true | _ => false end.

Fixpoint fcids (f : form) : list cid :=
  match f with
  | FWait c k => ncid c ++ fcids k
  | FNew _ b k => fcids b ++ fcids k
  | FPrint _ k => fcids k
  | _ => []
  end.

Fixpoint fv (f : form) : list string :=
  match f with
  | FWait c k => (if initialized c then [] else [ident c]) ++ fv k
  | FNew x b k => fv b ++ List.filter (fun y => negb (String.eqb y (ident x))) (fv k)
  | FPrint _ k => fv k
  | _ => []
  end.

Fixpoint fj (f : form) : bool :=
  match f with
  | FClose c => selfn c
  | FWait c k => (varn c || chn c) && fj k
  | FNew x b k => varn x && fj b && nilb (fv b) && nilb (fcids b) && fj k
  | FPrint _ k => fj k
  | FCall _ args _ => nilb args
  | _ => false
  end.


(* membership of a configuration / a function table in the class, decided *)
Definition proc_ok_b (c : config) (pp : proc) : bool :=
  fj (pr_body0 pp) &&
  match pr_provs pp with
  | [pv] => match chan pv with Some k => exists_b c k | None => false end
  | _ => false
  end &&
  forallb (exists_b c) (fcids (pr_body0 pp)).

Definition pair_ok_b (x y : pid * proc) : bool :=
  cid_eqb x.1 y.1 ||
  (negb (chan_eqb (self_chan x.2) (self_chan y.2)) && disj_b (fcids (pr_body0 x.2)) (fcids (pr_body0 y.2))).

Definition chan_ok_b (st : chan_st) : bool :=
  negb (ch_closed st) && match ch_buf st with None => true | Some m => rule_eqb (m_rule m) RCLS end.

Definition fj_cfg_b (c : config) : bool :=
  let ps := map_to_list (procs c) in
  forallb (fun x => proc_ok_b c x.2) ps &&
  forallb (fun x => forallb (pair_ok_b x) ps) ps &&
  forallb (fun x => chan_ok_b x.2) (map_to_list (chans c)).

Definition fj_funs_b (F : list fundef) : bool :=
  forallb (fun fd => negb (nilb (fn_params fd)) || (fj (fn_body fd) && nilb (fcids (fn_body fd)))) F.

