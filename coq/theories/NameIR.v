(* NameIR.v — a small IR of Name.Initialized / Equal / Substitute of /repo/process/name.go and its
   interpreter over the model's names (Forms.v).  `probe nameops` (harness/formops.go, go/ast)
   translates the current source into gen/NameOps.v on every run; proofs/NameOpsAgree.v proves that
   the interpretation is `Subst.name_equal` / `Subst.name_subst`.
   Abstraction (hand-written, here): the model's `chan : option cid` stands for the Go fields
   Channel (nil = None) together with ControlChannel and ChannelID, which travel with it:
   `name_subst_ok` checks that every block assigning Channel assigns ControlChannel from the same
   name; ChannelID is debugging output only.  No proofs here. *)
Require Import Grits.Base Grits.ModeDefs Grits.STypes Grits.Forms Grits.Subst.

Inductive nref : Type := RSelf | RParam (k : nat).       (* the receiver / the k-th parameter *)

Inductive nbexp : Type :=
| NBInit (r : nref)                 (* r.Initialized() *)
| NBChanNotNil (r : nref)           (* r.Channel != nil *)
| NBChanEq (a b : nref)             (* a.Channel == b.Channel *)
| NBIdentEq (a b : nref)            (* a.Ident == b.Ident *)
| NBIdentNonEmpty (r : nref)        (* r.Ident != "" *)
| NBInitEq (a b : nref)             (* a.Initialized() == b.Initialized() *)
| NBNot (c : nbexp)
| NBAnd (a b : nbexp)
| NBOr (a b : nbexp).

Inductive nstmt : Type :=
| NSet (f : string) (src : nref)    (* n.F = src.F *)
| NIf (c : nbexp) (th el : list nstmt).

Inductive nret : Type :=
| NRet (e : nbexp)                  (* return e *)
| NRIf (c : nbexp) (th rest : nret). (* if c { th } ; rest *)

Record name_table : Type := mkNameTable { nt_init : nbexp; nt_equal : nret; nt_subst : list nstmt }.

Definition expected_name_fields : list (string * string) :=
  [("Ident", "string"); ("Type", "types.SessionType"); ("IsSelf", "bool"); ("ExplicitPolarity", "*types.Polarity");
   ("Channel", "chan Message"); ("ControlChannel", "chan ControlMessage"); ("ChannelID", "uint64")].

Definition nget (self : name) (ps : list name) (r : nref) : name :=
  match r with RSelf => self | RParam k => nth k ps (plain_name "") end.

(* `init` : the meaning of x.Initialized() *)
Fixpoint eval_nb (init : name -> bool) (self : name) (ps : list name) (e : nbexp) : bool :=
  let g := nget self ps in
  match e with
  | NBInit r => init (g r)
  | NBChanNotNil r => match chan (g r) with Some _ => true | None => false end
  | NBChanEq a b => chan_eqb (chan (g a)) (chan (g b))
  | NBIdentEq a b => String.eqb (ident (g a)) (ident (g b))
  | NBIdentNonEmpty r => negb (String.eqb (ident (g r)) "")
  | NBInitEq a b => Bool.eqb (init (g a)) (init (g b))
  | NBNot c => negb (eval_nb init self ps c)
  | NBAnd a b => eval_nb init self ps a && eval_nb init self ps b
  | NBOr a b => eval_nb init self ps a || eval_nb init self ps b
  end.

(* Initialized() may not call itself (`name_init_ok`) *)
Definition ir_initialized (t : name_table) (n : name) : bool := eval_nb (fun _ => false) n [] (nt_init t).

Fixpoint eval_nret (init : name -> bool) (self : name) (ps : list name) (r : nret) : bool :=
  match r with
  | NRet e => eval_nb init self ps e
  | NRIf c th rest => if eval_nb init self ps c then eval_nret init self ps th else eval_nret init self ps rest
  end.

Definition ir_name_equal (t : name_table) (a b : name) : bool := eval_nret (ir_initialized t) a [b] (nt_equal t).

Definition nset (f : string) (src n : name) : name :=
  if String.eqb f "Ident" then mkName (ident src) (is_self n) (pol n) (nty n) (chan n)
  else if String.eqb f "IsSelf" then mkName (ident n) (is_self src) (pol n) (nty n) (chan n)
  else if String.eqb f "ExplicitPolarity" then mkName (ident n) (is_self n) (pol src) (nty n) (chan n)
  else if String.eqb f "Type" then mkName (ident n) (is_self n) (pol n) (nty src) (chan n)
  else if String.eqb f "Channel" then mkName (ident n) (is_self n) (pol n) (nty n) (chan src)
  else n.     (* ControlChannel, ChannelID: carried by `chan` (see the header) *)

Fixpoint exec_n (init : name -> bool) (ps : list name) (s : nstmt) (n : name) {struct s} : name :=
  let seq := fix seq (ss : list nstmt) (n : name) {struct ss} : name :=
    match ss with [] => n | s :: r => seq r (exec_n init ps s n) end in
  match s with
  | NSet f src => nset f (nget n ps src) n
  | NIf c th el => if eval_nb init n ps c then seq th n else seq el n
  end.
Fixpoint exec_ns (init : name -> bool) (ps : list name) (ss : list nstmt) (n : name) : name :=
  match ss with [] => n | s :: r => exec_ns init ps r (exec_n init ps s n) end.

Definition ir_name_subst (t : name_table) (old new n : name) : name := exec_ns (ir_initialized t) [old; new] (nt_subst t) n.

(* side conditions *)
Fixpoint nb_no_init (e : nbexp) : bool :=
  match e with
  | NBInit _ | NBInitEq _ _ => false
  | NBNot c => nb_no_init c
  | NBAnd a b | NBOr a b => nb_no_init a && nb_no_init b
  | _ => true
  end.
Definition name_init_ok (t : name_table) : bool := nb_no_init (nt_init t).

Definition sets (f : string) (src : nref) (ss : list nstmt) : bool :=
  existsb (fun s => match s with
                    | NSet g r => String.eqb f g && match src, r with RSelf, RSelf => true | RParam a, RParam b => Nat.eqb a b | _, _ => false end
                    | _ => false end) ss.
Fixpoint nstmt_ok (s : nstmt) : bool :=
  let block := fix block (all ss : list nstmt) : bool :=
    match ss with
    | [] => true
    | s :: r => match s with NSet f src => negb (String.eqb f "Channel") || sets "ControlChannel" src all | _ => true end
                && nstmt_ok s && block all r
    end in
  match s with
  | NSet _ _ => true
  | NIf _ th el => block th th && block el el
  end.
Definition name_subst_ok (t : name_table) : bool :=
  forallb nstmt_ok (nt_subst t) &&
  forallb (fun s => match s with NSet f src => negb (String.eqb f "Channel") || sets "ControlChannel" src (nt_subst t) | _ => true end) (nt_subst t).
