(* Print.v — the printers of types/types.go (String, StringWithModality, StringWithOuterModality,
   stringifyBranches, stringLeftOperand as repaired) and of process/form.go, name.go (Form.String,
   Name.String with the package constants showPolarities = showChannelNumber = printTypes = false).
   Byte-for-byte: the correspondence harness compares these strings with Go's. No proofs here. *)
Require Import Grits.Base Grits.ModeDefs Grits.Modes Grits.STypes Grits.Forms.

(* stringLeftOperand: a Send/Receive/Up/Down type in left-operand position gets brackets *)
Definition needs_paren (t : sty) : bool :=
  match t with
  | TTensor _ _ _ | TLolli _ _ _ | TUp _ _ _ | TDown _ _ _ => true
  | _ => false
  end.
Definition paren_if (b : bool) (s : string) : string := if b then "(" ^^ s ^^ ")" else s.

(* SessionType.String() *)
Fixpoint print_type (t : sty) : string :=
  match t with
  | TName x _ => x
  | TUnit _ => "1"
  | TTensor a b _ => paren_if (needs_paren a) (print_type a) ^^ " * " ^^ print_type b
  | TLolli a b _ => paren_if (needs_paren a) (print_type a) ^^ " -* " ^^ print_type b
  | TPlus bs _ => "+{" ^^ print_brs bs ^^ "}"
  | TWith bs _ => "&{" ^^ print_brs bs ^^ "}"
  | TUp f t a => mode_short f ^^ "/\" ^^ mode_short t ^^ " " ^^ print_type a
  | TDown f t a => mode_short f ^^ "\/" ^^ mode_short t ^^ " " ^^ print_type a
  end
(* stringifyBranches: `label : type` joined by ", " *)
with print_brs (b : brs) : string :=
  match b with
  | BNil => ""
  | BCons l a r =>
    match r with
    | BNil => l ^^ " : " ^^ print_type a
    | BCons _ _ _ => l ^^ " : " ^^ print_type a ^^ ", " ^^ print_brs r
    end
  end.

(* SessionType.StringWithModality() — note: no brackets at all, the shifts print only their own
   two modes, a choice prints its mode in front of the brace *)
Fixpoint print_with_modality (t : sty) : string :=
  match t with
  | TName x m => "[" ^^ mode_short m ^^ "]" ^^ x
  | TUnit m => "[" ^^ mode_short m ^^ "]1"
  | TTensor a b m => print_with_modality a ^^ " [" ^^ mode_short m ^^ "]* " ^^ print_with_modality b
  | TLolli a b m => print_with_modality a ^^ " [" ^^ mode_short m ^^ "]-* " ^^ print_with_modality b
  | TPlus bs m => mode_short m ^^ "+{" ^^ print_brs_wm bs ^^ "}"
  | TWith bs m => mode_short m ^^ "&{" ^^ print_brs_wm bs ^^ "}"
  | TUp f t a => mode_short f ^^ "/\" ^^ mode_short t ^^ " " ^^ print_with_modality a
  | TDown f t a => mode_short f ^^ "\/" ^^ mode_short t ^^ " " ^^ print_with_modality a
  end
with print_brs_wm (b : brs) : string :=
  match b with
  | BNil => ""
  | BCons l a r =>
    match r with
    | BNil => l ^^ " : " ^^ print_with_modality a
    | BCons _ _ _ => l ^^ " : " ^^ print_with_modality a ^^ ", " ^^ print_brs_wm r
    end
  end.

(* SessionType.StringWithOuterModality(): String() followed by " [mode]", except for the shifts *)
Definition print_outer (t : sty) : string :=
  match t with
  | TUp _ _ _ | TDown _ _ _ => print_type t
  | _ => print_type t ^^ " [" ^^ mode_short (mode_of t) ^^ "]"
  end.

(* ---------- names and forms ---------- *)

(* Name.String() with printTypes = showChannelNumber = showPolarities = false *)
Definition print_name (n : name) : string :=
  if negb (String.eqb (ident n) "") then (if is_self n then ident n ^^ "|self" else ident n)
  else if is_self n then "self" else "*".

(* NamesToString *)
Fixpoint print_names (l : list name) : string :=
  match l with
  | [] => ""
  | [n] => print_name n
  | n :: r => print_name n ^^ ", " ^^ print_names r
  end.

(* Form.String(); StringifyBranches joins with " | " *)
Fixpoint print_form (f : form) : string :=
  match f with
  | FSend a b c => "send " ^^ print_name a ^^ "<" ^^ print_name b ^^ "," ^^ print_name c ^^ ">"
  | FRecv p c fr k => "<" ^^ print_name p ^^ "," ^^ print_name c ^^ "> <- recv " ^^ print_name fr ^^ "; " ^^ print_form k
  | FSel a l c => print_name a ^^ "." ^^ l ^^ "<" ^^ print_name c ^^ ">"
  | FCase fr bs => "case " ^^ print_name fr ^^ " (" ^^ print_branches bs ^^ ")"
  | FNew x b k => print_name x ^^ " <- new (" ^^ print_form b ^^ "); " ^^ print_form k
  | FClose c => "close " ^^ print_name c
  | FWait c k => "wait " ^^ print_name c ^^ "; " ^^ print_form k
  | FFwd a b _ => "fwd " ^^ print_name a ^^ " " ^^ print_name b
  | FSplit x y fr k => "<" ^^ print_name x ^^ "," ^^ print_name y ^^ "> <- split " ^^ print_name fr ^^ "; " ^^ print_form k
  | FCall fn args _ => fn ^^ "(" ^^ print_names args ^^ ")"
  | FCast a c => "cast " ^^ print_name a ^^ "<" ^^ print_name c ^^ ">"
  | FShift x fr k => print_name x ^^ " <- shift " ^^ print_name fr ^^ "; " ^^ print_form k
  | FDrop c k => "drop " ^^ print_name c ^^ "; " ^^ print_form k
  | FPrint l k => "print " ^^ l ^^ "; " ^^ print_form k
  end
with print_branches (b : branches) : string :=
  match b with
  | BrNil => ""
  | BrCons l p k r =>
    match r with
    | BrNil => l ^^ "<" ^^ print_name p ^^ "> => " ^^ print_form k
    | BrCons _ _ _ _ => l ^^ "<" ^^ print_name p ^^ "> => " ^^ print_form k ^^ " | " ^^ print_branches r
    end
  end.
