(* GenModeChecks.v — ties the hand-written Modes.v to the tables dumped from the code. *)
Require Import Grits.Base Grits.ModeDefs Grits.Modes Grits.gen.ModeTables.

Definition agree2 (f : mode -> mode -> bool) (t : list (mode * mode * bool)) : bool :=
  forallb (fun '(a, b, r) => Bool.eqb (f a b) r) t.
Definition agree1b (f : mode -> bool) (t : list (mode * bool)) : bool :=
  forallb (fun '(a, r) => Bool.eqb (f a) r) t.
Definition agree1s (f : mode -> string) (t : list (mode * string)) : bool :=
  forallb (fun '(a, r) => String.eqb (f a) r) t.

(* every pair / every mode occurs in the dumped table (the dump is complete) *)
Definition covers2 (t : list (mode * mode * bool)) : bool :=
  forallb (fun a => forallb (fun b => existsb (fun '(x, y, _) => mode_same x a && mode_same y b) t) four_modes) four_modes.
Definition covers1 {R} (t : list (mode * R)) : bool :=
  forallb (fun a => existsb (fun '(x, _) => mode_same x a) t) four_modes.

Definition tables_agree_b : bool :=
  agree2 down down_tbl && covers2 down_tbl &&
  agree2 up up_tbl && covers2 up_tbl &&
  agree2 mode_eqb equals_tbl && covers2 equals_tbl &&
  agree1b weak weak_tbl && covers1 weak_tbl &&
  agree1b contr contr_tbl && covers1 contr_tbl &&
  agree1s mode_short short_tbl && covers1 short_tbl &&
  agree1s mode_full full_tbl && covers1 full_tbl &&
  forallb (fun '(a, b) => mode_same a b) copy_tbl && covers1 copy_tbl &&
  forallb (fun '(s, _, got) => mode_same (mode_of_string s) got) spelling_tbl &&
  forallb (fun '(s, got) => mode_same (mode_of_string s) got) nonspelling_tbl &&
  mode_same default_mode default_mode_dumped &&
  match mode_method_panics with [] => true | _ => false end.

Lemma tables_agree : tables_agree_b = true.
Proof. vm_compute. reflexivity. Qed.

(* which conjunct fails, for diagnostics when the lemma above breaks *)
Definition tables_disagreements : list string :=
  (if agree2 down down_tbl && covers2 down_tbl then [] else ["CanBeDownshiftedTo"]) ++
  (if agree2 up up_tbl && covers2 up_tbl then [] else ["CanBeUpshiftedTo"]) ++
  (if agree2 mode_eqb equals_tbl && covers2 equals_tbl then [] else ["Equals"]) ++
  (if agree1b weak weak_tbl && covers1 weak_tbl then [] else ["AllowsWeakening"]) ++
  (if agree1b contr contr_tbl && covers1 contr_tbl then [] else ["AllowsContraction"]) ++
  (if agree1s mode_short short_tbl && covers1 short_tbl then [] else ["String"]) ++
  (if agree1s mode_full full_tbl && covers1 full_tbl then [] else ["FullString"]) ++
  (if forallb (fun '(a, b) => mode_same a b) copy_tbl && covers1 copy_tbl then [] else ["Copy"]) ++
  (if forallb (fun '(s, _, got) => mode_same (mode_of_string s) got) spelling_tbl &&
      forallb (fun '(s, got) => mode_same (mode_of_string s) got) nonspelling_tbl then [] else ["StringToMode"]) ++
  (if mode_same default_mode default_mode_dumped then [] else ["DefaultMode"]) ++
  mode_method_panics.
