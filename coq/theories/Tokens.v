(* Tokens.v — the token kinds of parser/parser.y (%token line).  Their numeric codes are
   generated (gen/LRTables.v: tok_code) from parser/parser.y.go. *)
Require Import Grits.Base.

Inductive tk : Type :=
| LABEL | LEFT_ARROW | RIGHT_ARROW | UP_ARROW | DOWN_ARROW | EQUALS | DOT | SEQUENCE | COLON | COMMA
| LPAREN | RPAREN | LSBRACK | RSBRACK | LANGLE | RANGLE | PIPE | SEND | RECEIVE | CASE | CLOSE | WAIT
| CAST | SHIFT | ACCEPT | ACQUIRE | DETACH | RELEASE | DROP | SPLIT | PUSH | NEW | SNEW | TYPE | LET | IN
| END | SPRC | PRC | FORWARD | SELF | PRINT | PLUS | MINUS | TIMES | AMPERSAND | UNIT | LCBRACK | RCBRACK
| LOLLI | PERCENTAGE | ASSUMING | EXEC
| T_EOF        (* end of input: code 0 *)
| T_ILLEGAL.   (* kILLEGAL: also code 0; the lexer records a parse error for it *)

Definition tk_eq_dec (a b : tk) : {a = b} + {a <> b}.
Proof. decide equality. Defined.
Definition tk_eqb (a b : tk) : bool := if tk_eq_dec a b then true else false.

Definition all_tk : list tk :=
  [LABEL; LEFT_ARROW; RIGHT_ARROW; UP_ARROW; DOWN_ARROW; EQUALS; DOT; SEQUENCE; COLON; COMMA;
   LPAREN; RPAREN; LSBRACK; RSBRACK; LANGLE; RANGLE; PIPE; SEND; RECEIVE; CASE; CLOSE; WAIT;
   CAST; SHIFT; ACCEPT; ACQUIRE; DETACH; RELEASE; DROP; SPLIT; PUSH; NEW; SNEW; TYPE; LET; IN;
   END; SPRC; PRC; FORWARD; SELF; PRINT; PLUS; MINUS; TIMES; AMPERSAND; UNIT; LCBRACK; RCBRACK;
   LOLLI; PERCENTAGE; ASSUMING; EXEC; T_EOF; T_ILLEGAL].

Definition tk_name (k : tk) : string :=
  match k with
  | LABEL => "LABEL" | LEFT_ARROW => "LEFT_ARROW" | RIGHT_ARROW => "RIGHT_ARROW" | UP_ARROW => "UP_ARROW"
  | DOWN_ARROW => "DOWN_ARROW" | EQUALS => "EQUALS" | DOT => "DOT" | SEQUENCE => "SEQUENCE" | COLON => "COLON"
  | COMMA => "COMMA" | LPAREN => "LPAREN" | RPAREN => "RPAREN" | LSBRACK => "LSBRACK" | RSBRACK => "RSBRACK"
  | LANGLE => "LANGLE" | RANGLE => "RANGLE" | PIPE => "PIPE" | SEND => "SEND" | RECEIVE => "RECEIVE"
  | CASE => "CASE" | CLOSE => "CLOSE" | WAIT => "WAIT" | CAST => "CAST" | SHIFT => "SHIFT" | ACCEPT => "ACCEPT"
  | ACQUIRE => "ACQUIRE" | DETACH => "DETACH" | RELEASE => "RELEASE" | DROP => "DROP" | SPLIT => "SPLIT"
  | PUSH => "PUSH" | NEW => "NEW" | SNEW => "SNEW" | TYPE => "TYPE" | LET => "LET" | IN => "IN" | END => "END"
  | SPRC => "SPRC" | PRC => "PRC" | FORWARD => "FORWARD" | SELF => "SELF" | PRINT => "PRINT" | PLUS => "PLUS"
  | MINUS => "MINUS" | TIMES => "TIMES" | AMPERSAND => "AMPERSAND" | UNIT => "UNIT" | LCBRACK => "LCBRACK"
  | RCBRACK => "RCBRACK" | LOLLI => "LOLLI" | PERCENTAGE => "PERCENTAGE" | ASSUMING => "ASSUMING" | EXEC => "EXEC"
  | T_EOF => "EOF" | T_ILLEGAL => "ILLEGAL"
  end.
