(* WF.v — the well-formedness checks on types (types/types_sanity_checks.go and
   types/modality.go:701-927): checkTypeLabels, checkTypeModalities, isContractive,
   CheckTypeWellFormedness, SanityChecksTypeDefinitions, SanityChecksType.

   An error is modelled by its CLASS only (the message text is not an observable of any
   property).  `None` = Go's `nil` error.

   Abstractions (stated, not hidden):
   * a Go `Modality` interface value is never `nil` in a type produced by the parser (every
     node gets a mode object from toSessionType, every definition gets one from
     SetModalityTypeDef, which ParseString always runs); the `q.Mode == nil` disjuncts of
     checkTypeModalities are therefore not modelled separately from `Unset`.
   * checkTypeLabels / checkTypeModalities cannot panic: CanBeUpshiftedTo / CanBeDownshiftedTo
     (which panic on Unset/Invalid) are only reached after both modes of the shift were tested
     to be neither unset nor invalid, so the total `Modes.up`/`Modes.down` are used.
   * isContractive recurses through names (not structurally): explicit fuel, `Hang` when it
     runs out (Go: unbounded recursion = stack overflow); `contractive_fuel` is proved
     sufficient in proofs/WFProofs.v.  Looking up an undefined name yields the zero
     LabelledType whose `Type` is nil, and the method call on it panics: `Panic`. *)
Require Import Grits.Base Grits.ModeDefs Grits.Modes Grits.STypes Grits.Infer.

Inductive wf_err : Type :=
| EDupDef           (* "error redefinition of the same type" *)
| EUndefined        (* "type '..' is undefined" / "error calling undefined label type" *)
| EDupLabel         (* "duplicate label '..' found in type" *)
| ENoMode           (* "type '..' has no modality defined" *)
| EUnknownMode      (* "type '..' has an unknown modality" *)
| EModeMismatch     (* "mode of .. does not match the expected mode" *)
| ERefModeMismatch  (* "mode of label '..' does not match the mode" of its definition *)
| EIllegalShift     (* "cannot be upshifted / downshifted to" *)
| ENotContractive   (* "session type definition for .. is not contractive" *)
| EDefModeMismatch. (* "mode of type definition '..' does not match the mode of its body" (fix of F23) *)

Definition is_invalid (m : mode) : bool := match m with Invalid _ => true | _ => false end.

(* first error wins *)
Definition orelse (a : option wf_err) (b : option wf_err) : option wf_err :=
  match a with Some e => Some e | None => b end.

(* LabelledTypedExists *)
Definition tdefined (D : tenv) (x : string) : bool :=
  match tlookup D x with Some _ => true | None => false end.

(* ---------- checkTypeLabels ---------- *)
(* seen: the existingLabels set of the enclosing choice (filled as the loop proceeds) *)
Fixpoint check_labels (D : tenv) (t : sty) : option wf_err :=
  match t with
  | TName x _ => if tdefined D x then None else Some EUndefined
  | TUnit _ => None
  | TTensor a b _ | TLolli a b _ => orelse (check_labels D a) (check_labels D b)
  | TPlus bs _ | TWith bs _ => check_labels_brs D bs []
  | TUp _ _ a | TDown _ _ a => check_labels D a
  end
with check_labels_brs (D : tenv) (b : brs) (seen : list string) : option wf_err :=
  match b with
  | BNil => None
  | BCons l a r =>
    if str_mem l seen then Some EDupLabel
    else orelse (check_labels D a) (check_labels_brs D r (l :: seen))
  end.

(* ---------- checkTypeModalities ---------- *)
(* the two tests every method starts with *)
Definition mode_present (m : mode) : option wf_err :=
  if is_unset m then Some ENoMode
  else if is_invalid m then Some EUnknownMode
  else None.

Fixpoint check_modalities (D : tenv) (cur : mode) (t : sty) : option wf_err :=
  match t with
  | TName x m =>
    orelse (mode_present m)
      (match tlookup D x with
       | None => Some EUndefined
       | Some d =>
         if negb (mode_eqb m cur) then Some EModeMismatch
         else if negb (mode_eqb m (td_mode d)) then Some ERefModeMismatch
         else None
       end)
  | TUnit m =>
    orelse (mode_present m) (if negb (mode_eqb m cur) then Some EModeMismatch else None)
  | TTensor a b m | TLolli a b m =>
    orelse (mode_present m)
      (if negb (mode_eqb m cur) then Some EModeMismatch
       else orelse (check_modalities D cur a) (check_modalities D cur b))
  | TPlus bs m | TWith bs m =>
    orelse (mode_present m)
      (if negb (mode_eqb m cur) then Some EModeMismatch
       else check_modalities_brs D cur bs)
  | TUp f to a =>
    orelse (mode_present f) (orelse (mode_present to)
      (if negb (mode_eqb to cur) then Some EModeMismatch
       else if negb (up f to) then Some EIllegalShift
       else check_modalities D f a))
  | TDown f to a =>
    orelse (mode_present f) (orelse (mode_present to)
      (if negb (mode_eqb to cur) then Some EModeMismatch
       else if negb (down f to) then Some EIllegalShift
       else check_modalities D f a))
  end
with check_modalities_brs (D : tenv) (cur : mode) (b : brs) : option wf_err :=
  match b with
  | BNil => None
  | BCons _ a r => orelse (check_modalities D cur a) (check_modalities_brs D cur r)
  end.

(* ---------- CheckTypeWellFormedness ---------- *)
Definition check_wf (D : tenv) (t : sty) : option wf_err :=
  orelse (check_labels D t) (check_modalities D (mode_of t) t).

(* ---------- isContractive ---------- *)
(* snaps: the snapshots set (names already passed).  Only a name recurses. *)
Fixpoint is_contractive (fuel : nat) (D : tenv) (t : sty) (snaps : list string) : outcome bool :=
  match fuel with
  | O => Hang "isContractive"
  | S f =>
    match t with
    | TName x _ =>
      if str_mem x snaps then Ok false
      else match tlookup D x with
           | Some d => is_contractive f D (td_body d) (x :: snaps)
           | None => Panic "isContractive: nil type of an undefined name"
           end
    | _ => Ok true
    end
  end.

Definition contractive_fuel (D : tenv) : nat := S (length D).

(* ---------- SanityChecksTypeDefinitions ---------- *)
(* first loop: a definition whose name was already seen *)
Fixpoint dup_def (l : tenv) (seen : list string) : bool :=
  match l with
  | [] => false
  | d :: r => if str_mem (td_name d) seen then true else dup_def r (td_name d :: seen)
  end.

(* second loop: well-formedness of the body, then (fix of F23) the mode recorded for the definition
   must be the mode of its body.  `j.Modality != nil` always holds after ParseString (see above). *)
Definition defmode_check (d : tdef) : option wf_err :=
  if negb (mode_eqb (mode_of (td_body d)) (td_mode d)) then Some EDefModeMismatch else None.

Fixpoint wf_all (D : tenv) (l : tenv) : option wf_err :=
  match l with
  | [] => None
  | d :: r => orelse (check_wf D (td_body d)) (orelse (defmode_check d) (wf_all D r))
  end.

(* third loop: contractivity, then well-formedness once more *)
Fixpoint contractive_all (D : tenv) (l : tenv) : outcome (option wf_err) :=
  match l with
  | [] => Ok None
  | d :: r =>
    do c <- is_contractive (contractive_fuel D) D (td_body d) [];
    if negb c then Ok (Some ENotContractive)
    else match check_wf D (td_body d) with
         | Some e => Ok (Some e)
         | None => contractive_all D r
         end
  end.

Definition sanity_typedefs (D : tenv) : outcome (option wf_err) :=
  if dup_def D [] then Ok (Some EDupDef)
  else match wf_all D D with
       | Some e => Ok (Some e)
       | None => contractive_all D D
       end.

(* ---------- SanityChecksType ---------- *)
Fixpoint sanity_types (D : tenv) (ts : list sty) : option wf_err :=
  match ts with
  | [] => None
  | t :: r => orelse (check_wf D t) (sanity_types D r)
  end.
