(* TcDriver.v — the caller/worker protocol of process.Typecheck (process/typechecker.go:9-75, as
   repaired) as a labelled transition system.

     caller:  errorChan := make(chan error, 1); go worker(); err := <-errorChan; return err
     worker:  errorChan <- typecheckFunctionsAndProcesses(...)      (* whose deferred recover turns a
                                                                      panic into an error value *)

   The worker's computation is abstracted to its result `res : tcr A` (Tc.v): TOk = no error,
   TErr = a type error, TPanic = an internal panic (recovered), THang = unbounded recursion, which
   in Go is a fatal stack overflow that no recover catches: the host process dies.
   One step = one scheduling decision; every interleaving of caller and worker is a run. *)
Require Import Grits.Base Grits.Tc.

(* a Go `error` value: None = nil *)
Definition goerr := option string.

Inductive caller : Type :=
| CBefore                       (* before make/go *)
| CWaiting                      (* blocked in <-errorChan *)
| CReturned (r : goerr).        (* Typecheck has returned r *)

Inductive worker : Type :=
| WNotStarted
| WRunning                      (* inside typecheckFunctionsAndProcesses *)
| WHasResult (r : goerr)        (* the function returned (possibly through recover); about to send *)
| WDoneSent                     (* the send completed; the goroutine's function is returning *)
| WFinished.                    (* goroutine gone *)

Record state : Type := mkState {
  cal : caller;
  wrk : worker;
  buf : option goerr;           (* the channel's buffer, capacity 1: None = empty *)
  crashed : bool                (* the host process died (fatal error: stack overflow) *)
}.

Definition init : state := mkState CBefore WNotStarted None false.

(* what the worker's function returns, if it returns: the deferred recover converts a panic into an
   error value; a stack overflow returns nothing (None here = "no return", see SOverflow) *)
Definition returns {A} (res : tcr A) : option goerr :=
  match res with
  | TOk _ => Some None
  | TErr e => Some (Some e)
  | TPanic v => Some (Some ("internal typechecker error: " ^^ v))
  | THang _ => None
  end.

Inductive label : Type := LSpawn | LCompute | LOverflow | LSend | LExit | LRecv.

Section Protocol.
Context {A : Type}.
Variable res : tcr A.

Inductive step : state -> label -> state -> Prop :=
| SSpawn : forall b,
    step (mkState CBefore WNotStarted b false) LSpawn (mkState CWaiting WRunning b false)
| SCompute : forall c b r, returns res = Some r ->
    step (mkState c WRunning b false) LCompute (mkState c (WHasResult r) b false)
| SOverflow : forall c b, returns res = None ->
    step (mkState c WRunning b false) LOverflow (mkState c WRunning b true)
| SSend : forall c r,       (* a send on a buffered channel proceeds iff the buffer has room *)
    step (mkState c (WHasResult r) None false) LSend (mkState c WDoneSent (Some r) false)
| SExit : forall c b,
    step (mkState c WDoneSent b false) LExit (mkState c WFinished b false)
| SRecv : forall w r,
    step (mkState CWaiting w (Some r) false) LRecv (mkState (CReturned r) w None false).

Inductive run : state -> list label -> state -> Prop :=
| run_nil : forall s, run s [] s
| run_cons : forall s l s' tr s'', step s l s' -> run s' tr s'' -> run s (l :: tr) s''.

Definition reachable (s : state) : Prop := exists tr, run init tr s.
Definition stuck (s : state) : Prop := forall l s', ~ step s l s'.
(* the call has returned and nothing of it is left *)
Definition final (s : state) : Prop := exists r, s = mkState (CReturned r) WFinished None false.
End Protocol.

(* ---------------------------------------------------------------------------------------------
   The protocol BEFORE the fix (typechecker.go at e2e8e2e): two unbuffered channels; the worker
   sends each error it finds on errorChan and CONTINUES; a deferred `doneChan <- true` runs when
   the function returns — also while it is panicking.  The caller selects on both channels.
   Abstraction: the worker's computation is `first` (the outcome of the part up to and including the
   first error) and `rest` (what the code after that error does when it goes on). *)
Inductive ocaller : Type := OBefore | OSelecting | OReturned (r : goerr).
Inductive oworker : Type :=
| ONotStarted
| ORunning                      (* up to the first error / the end *)
| OSendingErr (e : string)      (* blocked in errorChan <- err (unbuffered) *)
| ORunningOn                    (* continues after the error was taken *)
| ODeferDone (panicking : bool) (* blocked in the deferred doneChan <- true *)
| OFinished
| OPanicked.                    (* the goroutine's panic reached the top: the process dies *)
Record ostate : Type := mkO { ocal : ocaller; owrk : oworker; ocrashed : bool }.
Definition oinit : ostate := mkO OBefore ONotStarted false.

Section OldProtocol.
Context {A : Type}.
Variable first rest : tcr A.

Inductive ostep : ostate -> ostate -> Prop :=
| OSpawn : ostep (mkO OBefore ONotStarted false) (mkO OSelecting ORunning false)
| OFirstOk : forall c a, first = TOk a -> ostep (mkO c ORunning false) (mkO c (ODeferDone false) false)
| OFirstErr : forall c e, first = TErr e -> ostep (mkO c ORunning false) (mkO c (OSendingErr e) false)
| OFirstPanic : forall c v, first = TPanic v -> ostep (mkO c ORunning false) (mkO c (ODeferDone true) false)
| OFirstHang : forall c v, first = THang v -> ostep (mkO c ORunning false) (mkO c ORunning true)
  (* rendezvous on errorChan: only while the caller is in its select *)
| OErrTaken : forall e, ostep (mkO OSelecting (OSendingErr e) false) (mkO (OReturned (Some e)) ORunningOn false)
| ORestOk : forall c a, rest = TOk a -> ostep (mkO c ORunningOn false) (mkO c (ODeferDone false) false)
| ORestErr : forall c e, rest = TErr e -> ostep (mkO c ORunningOn false) (mkO c (OSendingErr e) false)
| ORestPanic : forall c v, rest = TPanic v -> ostep (mkO c ORunningOn false) (mkO c (ODeferDone true) false)
| ORestHang : forall c v, rest = THang v -> ostep (mkO c ORunningOn false) (mkO c ORunningOn true)
  (* rendezvous on doneChan: the caller returns SUCCESS, whether or not the worker is panicking *)
| ODoneTaken : forall p, ostep (mkO OSelecting (ODeferDone p) false)
                               (mkO (OReturned None) (if p then OPanicked else OFinished) false)
| OPanicTop : forall c, ostep (mkO c OPanicked false) (mkO c OPanicked true).

Inductive oruns : ostate -> ostate -> Prop :=
| oruns_refl : forall s, oruns s s
| oruns_step : forall s s' s'', ostep s s' -> oruns s' s'' -> oruns s s''.
End OldProtocol.
