(* TcDeps.v — the functions of package types that the typechecker calls, in the form Tc.v uses
   them.  (Lead's working versions; the proof-carrying versions live in WF.v / Unfold.v / Equal.v /
   Print.v and are proved equal to these or substituted for them.) *)
Require Import Grits.Base Grits.ModeDefs Grits.Modes Grits.STypes Grits.Infer.

(* ---------- Unfold ---------- *)
Fixpoint unfold_f (fuel : nat) (D : tenv) (t : sty) : outcome (option sty) :=
  match fuel with
  | O => Hang "Unfold"
  | S f =>
    match t with
    | TName x _ => match tlookup D x with
                   | Some d => unfold_f f D (td_body d)
                   | None => Ok None
                   end
    | _ => Ok (Some t)
    end
  end.
Definition unfold (D : tenv) (t : sty) : outcome (option sty) := unfold_f (S (length D)) D t.

(* ---------- String() (with brackets around a binary/shift left operand) ---------- *)
Fixpoint print_type (t : sty) : string :=
  match t with
  | TName x _ => x
  | TUnit _ => "1"
  | TTensor a b _ => print_left a ^^ " * " ^^ print_type b
  | TLolli a b _ => print_left a ^^ " -* " ^^ print_type b
  | TPlus bs _ => "+{" ^^ print_brs bs ^^ "}"
  | TWith bs _ => "&{" ^^ print_brs bs ^^ "}"
  | TUp f t a => mode_short f ^^ "/\" ^^ mode_short t ^^ " " ^^ print_type a
  | TDown f t a => mode_short f ^^ "\/" ^^ mode_short t ^^ " " ^^ print_type a
  end
with print_left (t : sty) : string :=
  match t with
  | TTensor a b _ => "(" ^^ print_left a ^^ " * " ^^ print_type b ^^ ")"
  | TLolli a b _ => "(" ^^ print_left a ^^ " -* " ^^ print_type b ^^ ")"
  | TUp f t a => "(" ^^ mode_short f ^^ "/\" ^^ mode_short t ^^ " " ^^ print_type a ^^ ")"
  | TDown f t a => "(" ^^ mode_short f ^^ "\/" ^^ mode_short t ^^ " " ^^ print_type a ^^ ")"
  | TName x _ => x
  | TUnit _ => "1"
  | TPlus bs _ => "+{" ^^ print_brs bs ^^ "}"
  | TWith bs _ => "&{" ^^ print_brs bs ^^ "}"
  end
with print_brs (b : brs) : string :=
  match b with
  | BNil => ""
  | BCons l a BNil => l ^^ " : " ^^ print_type a
  | BCons l a r => l ^^ " : " ^^ print_type a ^^ ", " ^^ print_brs r
  end.

(* ---------- EqualType ---------- *)
Definition is_name (t : sty) : bool := match t with TName _ _ => true | _ => false end.
Definition same_ctor (s t : sty) : bool :=
  match s, t with
  | TName _ _, TName _ _ | TUnit _, TUnit _ | TTensor _ _ _, TTensor _ _ _ | TLolli _ _ _, TLolli _ _ _
  | TPlus _ _, TPlus _ _ | TWith _ _, TWith _ _ | TUp _ _ _, TUp _ _ _ | TDown _ _ _, TDown _ _ _ => true
  | _, _ => false
  end.
Definition eq_key (s t : sty) : string :=
  print_type s ^^ mode_short (mode_of s) ^^ "|" ^^ print_type t ^^ mode_short (mode_of t).

Definition eres := outcome (bool * list string).

(* innerEqualType.  Two-level fuel: `k` bounds the number of label expansions along one recursion
   path (each expansion adds a NEW key to the memo, and keys are pairs of sub-terms of the
   environment and of the two initial types, so at most (N+1)^2 of them), `n` bounds the structural
   descent between two expansions (it is reset to the size of the expanded pair).  Out of fuel =
   Hang (Go: unbounded recursion). *)
Fixpoint eq_ty (k : nat) (D : tenv) {struct k} : nat -> sty -> sty -> list string -> eres :=
  match k with
  | O => fun _ _ _ _ => Hang "EqualType"
  | S k' =>
    fix go (n : nat) (s t : sty) (memo : list string) {struct n} : eres :=
      match n with
      | O => Hang "EqualType"
      | S n' =>
        if negb (same_ctor s t) && negb (is_name s) && negb (is_name t) then Ok (false, memo)
        else if is_name s || is_name t then
          let key := eq_key s t in
          if str_mem key memo then Ok (true, memo)
          else
            let expand (s' t' : sty) := eq_ty k' D (S (tsize s' + tsize t')) s' t' (key :: memo) in
            match s, t with
            | TName x m, TName y m' =>
              if String.eqb x y then Ok (mode_eqb m m', memo)
              else match tlookup D x, tlookup D y with
                   | Some d1, Some d2 => expand (td_body d1) (td_body d2)
                   | _, _ => Ok (false, memo)
                   end
            | TName x _, _ =>
              match tlookup D x with
              | Some d1 => expand (td_body d1) t
              | None => Ok (false, memo)
              end
            | _, TName y _ =>
              match tlookup D y with
              | Some d2 => expand s (td_body d2)
              | None => Ok (false, memo)
              end
            | _, _ => Ok (false, memo)
            end
        else
          match s, t with
          | TUnit m, TUnit m' => Ok (mode_eqb m m', memo)
          | TTensor a b m, TTensor a' b' m' | TLolli a b m, TLolli a' b' m' =>
            if mode_eqb m m' then
              do (r1, M1) <- go n' a a' memo;
              if r1 then go n' b b' M1 else Ok (false, M1)
            else Ok (false, memo)
          | TPlus bs m, TPlus cs m' | TWith bs m, TWith cs m' =>
            if (brs_len bs =? brs_len cs)%nat then
              if mode_eqb m m' then
                (fix go_brs (bs : brs) (memo : list string) {struct bs} : eres :=
                   match bs with
                   | BNil => Ok (true, memo)
                   | BCons l a r =>
                     match find_br l cs with
                     | None => Ok (false, memo)
                     | Some a' =>
                       do (r1, M1) <- go n' a a' memo;
                       if r1 then go_brs r M1 else Ok (false, M1)
                     end
                   end) bs memo
              else Ok (false, memo)
            else Ok (false, memo)
          | TUp f1 t1 a, TUp f2 t2 a' | TDown f1 t1 a, TDown f2 t2 a' =>
            if mode_eqb t1 t2 && mode_eqb f1 f2 then go n' a a' memo else Ok (false, memo)
          | _, _ => Ok (false, memo)
          end
      end
  end.

(* fuel: number of expansions <= (N+1)^2 with N the number of sub-term occurrences in play *)
Definition eq_fuel (D : tenv) (s t : sty) : nat :=
  let n := S (env_size D + tsize s + tsize t) in S (n * n).
Definition equal_type (D : tenv) (s t : sty) : outcome bool :=
  do (r, _) <- eq_ty (eq_fuel D s t) D (S (tsize s + tsize t)) s t []; Ok r.

(* ---------- well-formedness checks ---------- *)
Fixpoint check_labels (D : tenv) (t : sty) : bool :=
  match t with
  | TName x _ => match tlookup D x with Some _ => true | None => false end
  | TUnit _ => true
  | TTensor a b _ | TLolli a b _ => check_labels D a && check_labels D b
  | TPlus bs _ | TWith bs _ => check_labels_brs D [] bs
  | TUp _ _ a | TDown _ _ a => check_labels D a
  end
with check_labels_brs (D : tenv) (seen : list string) (b : brs) : bool :=
  match b with
  | BNil => true
  | BCons l a r => negb (str_mem l seen) && check_labels D a && check_labels_brs D (l :: seen) r
  end.

Definition mode_ok (m : mode) : bool := proper m.

(* checkTypeModalities: true = no error.  CanBeUp/Downshifted is only reached with proper modes. *)
Fixpoint check_modes (D : tenv) (cur : mode) (t : sty) : bool :=
  match t with
  | TName x m =>
    mode_ok m &&
    match tlookup D x with
    | Some d => mode_eqb m cur && mode_eqb m (td_mode d)
    | None => false
    end
  | TUnit m => mode_ok m && mode_eqb m cur
  | TTensor a b m | TLolli a b m => mode_ok m && mode_eqb m cur && check_modes D cur a && check_modes D cur b
  | TPlus bs m | TWith bs m => mode_ok m && mode_eqb m cur && check_modes_brs D cur bs
  | TUp f to a => mode_ok f && mode_ok to && mode_eqb to cur && up f to && check_modes D f a
  | TDown f to a => mode_ok f && mode_ok to && mode_eqb to cur && down f to && check_modes D f a
  end
with check_modes_brs (D : tenv) (cur : mode) (b : brs) : bool :=
  match b with BNil => true | BCons _ a r => check_modes D cur a && check_modes_brs D cur r end.

(* CheckTypeWellFormedness *)
Definition check_wf (D : tenv) (t : sty) : bool := check_labels D t && check_modes D (mode_of t) t.

(* isContractive: follows bare names; a name seen twice = cycle.  Undefined names cannot occur
   (labels were checked first).  fuel: at most |D| distinct names can be followed. *)
Fixpoint contractive_f (fuel : nat) (D : tenv) (seen : list string) (t : sty) : outcome bool :=
  match fuel with
  | O => Hang "isContractive"
  | S f =>
    match t with
    | TName x _ =>
      if str_mem x seen then Ok false
      else match tlookup D x with
           | Some d => contractive_f f D (x :: seen) (td_body d)
           | None => Panic "isContractive: undefined label"
           end
    | _ => Ok true
    end
  end.
Definition contractive (D : tenv) (t : sty) : outcome bool := contractive_f (S (S (length D))) D [] t.

Fixpoint has_dup (l : list string) : bool :=
  match l with [] => false | x :: r => str_mem x r || has_dup r end.

(* SanityChecksTypeDefinitions : Ok true = no error *)
Definition sanity_typedefs (D : tenv) : outcome bool :=
  if has_dup (map td_name D) then Ok false
  else if negb (forallb (fun d => check_wf D (td_body d) && mode_eqb (mode_of (td_body d)) (td_mode d)) D) then Ok false
  else
    (fix go (l : tenv) : outcome bool :=
       match l with
       | [] => Ok true
       | d :: r => do c <- contractive D (td_body d);
                   if c then (if check_wf D (td_body d) then go r else Ok false) else Ok false
       end) D.

(* SanityChecksType *)
Definition sanity_types (D : tenv) (ts : list sty) : bool := forallb (check_wf D) ts.
