(* RtSafety.v — C01: the run-time typing of configurations is preserved by every step and excludes
   every run-time error, for every form of the language and the two polarized modes (Async, Sync).
     typed_action     : what a typed process does next, and that it stays typed (one lemma per rule;
                        several providers: DUP, or a forward)
     preservation_md  : cfg_typed Δ c -> step md D F c ch = SStep c' -> ∃ Δ' ⊇ Δ, cfg_typed Δ' c'
     no_error_md      : a typed configuration in which nobody uses a closed channel cannot step to SError
     exec_run_safe    : no run reaches RError
   Section hypotheses: `teq_laws D teq` (theorems of spec/TypEq.v) and `funs_typed D F teq` (the
   function table is typed once). *)
From stdpp Require Import gmap strings.
Require Import Grits.Base Grits.ModeDefs Grits.Modes Grits.STypes Grits.Forms Grits.Subst Grits.TcDeps Grits.Expand
               Grits.Runtime Grits.spec.RtTyping Grits.spec.Topo Grits.proofs.RtSubst Grits.proofs.RtEffect Grits.proofs.StepErrors.

(* sequential substitution of the parameters of a function by the arguments of a call (the local
   `sub_all` of Runtime.call_body) *)
Fixpoint sub_all (ps as_ : list name) (b : form) : form :=
  match ps, as_ with
  | p :: pr, a :: ar => sub_all pr ar (subst p a b)
  | _, _ => b
  end.

Lemma call_body_unfold F fn args :
  call_body F fn args =
  match get_function F fn (length args) with
  | None => None
  | Some fd =>
    let body := fn_body fd in
    let np := length (fn_params fd) in
    let na := length args in
    match fn_explicit fd with
    | Some ep =>
      if (na =? np)%nat then Some (sub_all (fn_params fd) args body)
      else if (na =? S np)%nat then
        match args with
        | a0 :: rest => Some (sub_all (fn_params fd) rest (subst ep (if is_self a0 then new_self "" else a0) body))
        | [] => None
        end
      else None
    | None =>
      if (na =? np)%nat then Some (sub_all (fn_params fd) args body)
      else if (na =? S np)%nat then Some (sub_all (fn_params fd) (tl args) body)
      else None
    end
  end.
Proof. reflexivity. Qed.

Lemma get_function_In F f n fd : get_function F f n = Some fd -> In fd F.
Proof.
  induction F as [|d r IH]; simpl; [discriminate|].
  destruct (_ && _); [intros [= <-]; auto | intros H; right; auto].
Qed.

Section RtSafety.
Variable D : tenv.
Variable F : list fundef.
Variable teq : sty -> sty -> Prop.
Hypothesis Hteq : teq_laws D teq.
Hypothesis HF : funs_typed D F teq.

Local Notation typed := (typed D F teq).
Local Notation typed_brs_p := (typed_brs_p D F teq).
Local Notation typed_brs_c := (typed_brs_c D F teq).
Local Notation client_ty := (client_ty teq).
Local Notation chan_ty := (chan_ty teq).
Local Notation prov_ty := (prov_ty teq).
Local Notation args_ok := (args_ok teq).
Local Notation whd := (whd D).
Local Notation proc_typed := (proc_typed D F teq).
Local Notation msg_typed := (msg_typed D teq).
Local Notation cfg_typed := (cfg_typed D F teq).
Local Notation eff_typed := (eff_typed D F teq).
Local Notation is_chan_of := (is_chan_of teq).

Let teq_r := teq_refl D teq Hteq.
Let teq_s := teq_sym D teq Hteq.
Let teq_t := teq_trans D teq Hteq.
Let tsubst := typed_subst D F teq Hteq.
Let tshadow := typed_subst_shadow D F teq Hteq.

(* ------------------------------------------------------------------ closed names *)
Lemma prov_closed rs n : prov_name None rs n -> is_self n = true /\ chan n = None.
Proof. intros [H1 [[H2 _]|[_ H2]]]; [auto|discriminate]. Qed.

Lemma client_closed Δ n t : client_ty Δ ∅ None n t ->
  is_self n = false /\ exists c t', chan n = Some c /\ Δ !! c = Some t' /\ teq t' t.
Proof.
  intros [H1 [_ H2]]. split; auto. destruct (chan n) as [c|].
  - destruct H2 as [t' [H2 H3]]. eauto.
  - destruct H2 as [_ [t' [H2 _]]]. rewrite lookup_empty in H2. discriminate.
Qed.

Lemma client_ann Δ Γ sh n t : client_ty Δ Γ sh n t -> ann_ok teq n t.
Proof. intros [_ [H _]]. exact H. Qed.

Lemma client_ty_conv Δ Γ sh n t t' : client_ty Δ Γ sh n t -> teq t t' -> client_ty Δ Γ sh n t'.
Proof.
  intros [H1 [[t0 [Ha1 [Ha2 Ha3]]] H2]] Ht. split; auto. split; [exists t0; eauto|]. destruct (chan n).
  - destruct H2 as [t1 [H2 H3]]. eauto.
  - destruct H2 as [H2 [t1 [H3 H4]]]. eauto.
Qed.
Lemma prov_ty_conv Δ n t t' : prov_ty Δ n t -> teq t t' -> prov_ty Δ n t'.
Proof. intros [c [t0 [H1 [H2 H3]]]] Ht. exists c, t0. eauto. Qed.

Lemma proc_typed_single Δ n s rs b nx :
  prov_ty Δ n s -> typed Δ ∅ None rs s b -> proc_typed Δ (Proc [n] b nx).
Proof. intros Hp Hb. exists s, rs. simpl. split; [discriminate|]. split; auto. Qed.

Lemma chan_ty_is_chan Δ n A A' : chan_ty Δ n A -> teq A A' -> is_chan_of Δ n A'.
Proof.
  intros H Ht. apply client_closed in H. destruct H as [H1 [c [t' [H2 [H3 H4]]]]].
  split; auto. exists c, t'. eauto.
Qed.

Lemma client_is_chan_ty Δ n t : client_ty Δ ∅ None n t -> chan_ty Δ n t.
Proof. auto. Qed.

(* ------------------------------------------------------------------ heads *)
Lemma head_of T X v u : teq T X -> whd T v -> whd X u -> head_rel teq v u.
Proof.
  intros Ht Hv Hu. destruct (teq_head D teq Hteq T X v Ht Hv) as [u' [Hu' Hr]].
  rewrite (whd_det D _ _ _ Hu Hu'). exact Hr.
Qed.

Lemma head_rel_pol (R : sty -> sty -> Prop) u v : head_rel R u v -> polarity_of u = polarity_of v.
Proof. destruct u, v; simpl; try contradiction; auto. Qed.

Lemma brs_rel_find (R : sty -> sty -> Prop) bs bs' l a :
  brs_rel R bs bs' -> find_br l bs = Some a -> exists a', find_br l bs' = Some a' /\ R a a'.
Proof. intros [H _]. apply H. Qed.

(* ------------------------------------------------------------------ branches *)
Lemma typed_brs_p_find Δ Γ rs bs b l pay k :
  typed_brs_p Δ Γ rs bs b -> find_branch l b = Some (pay, k) ->
  exists A, find_br l bs = Some A /\ pbinder pay /\
            typed Δ (delete (ident pay) Γ) (Some (ident pay)) (rs ∖ ({[ident pay]} ∖ {[""]})) A k.
Proof.
  induction 1 as [|Γ rs bs l' pay' k' r A Hf Hb Hk Hr IH]; simpl; [discriminate|].
  destruct (String.eqb l' l) eqn:E; [|auto].
  apply String.eqb_eq in E. subst l'. intros [= <- <-]. eauto.
Qed.

Lemma typed_brs_c_find Δ Γ sh rs s bs b l pay k :
  typed_brs_c Δ Γ sh rs s bs b -> find_branch l b = Some (pay, k) ->
  exists A, find_br l bs = Some A /\ binder pay /\ sh <> Some (ident pay) /\
            typed Δ (<[ident pay := A]> Γ) sh (rs ∖ {[ident pay]}) s k.
Proof.
  induction 1 as [|Γ sh rs s bs l' pay' k' r A Hf Hb Hs1 Hk Hr IH]; simpl; [discriminate|].
  destruct (String.eqb l' l) eqn:E; [|auto].
  apply String.eqb_eq in E. subst l'. intros [= <- <-]. eauto.
Qed.

(* ------------------------------------------------------------------ calls *)
Lemma params_ctx_cons p ps t : nty p = Some t -> params_ctx (p :: ps) = <[ident p := t]> (params_ctx ps).
Proof. intros H. unfold params_ctx. simpl. rewrite H. reflexivity. Qed.

Lemma params_ctx_None ps x : x ∉ map ident ps -> params_ctx ps !! x = None.
Proof.
  induction ps as [|p ps IH]; simpl; intros Hx; [apply lookup_empty|].
  apply not_elem_of_cons in Hx. destruct Hx as [Hx1 Hx2].
  unfold params_ctx. simpl. destruct (nty p); [|apply IH; auto].
  simpl. rewrite lookup_insert_ne by auto. apply IH; auto.
Qed.

Lemma sub_all_typed Δ rs s ps args b :
  Forall binder ps -> Forall (fun p => ident p ∉ rs) ps ->
  args_ok Δ ∅ None args ps ->
  typed Δ (params_ctx ps) None rs s b -> typed Δ ∅ None rs s (sub_all ps args b).
Proof.
  intros Hb Hrs Ha. revert b Hb Hrs.
  induction Ha as [|a p args ps [t [Hnt Hc]] Ha IH]; intros b Hb Hrs Hty; simpl.
  - exact Hty.
  - inversion Hb as [|? ? Hb1 Hb2]; subst. inversion Hrs as [|? ? Hrs1 Hrs2]; subst.
    apply IH; auto. rewrite (params_ctx_cons _ _ _ Hnt) in Hty.
    eapply typed_subst; eauto; try apply Hb1; try (eapply chan_ty_is_chan; eauto); try discriminate.
Qed.

Lemma params_not_rs ps (e : string) :
  Forall binder ps -> e ∉ map ident ps -> Forall (fun p => ident p ∉ ({[ ""; e ]} : gset string)) ps.
Proof.
  intros Hb He. rewrite Forall_forall. intros p Hpin. rewrite Forall_forall in Hb. destruct (Hb p Hpin) as [_ Hp].
  assert (Hne : ident p <> e).
  { intros E. apply He. rewrite <- E. apply elem_of_list_In. apply in_map. exact Hpin. }
  clear -Hp Hne. set_solver.
Qed.

Lemma call_typed Δ rs s fn args pt :
  typed Δ ∅ None rs s (FCall fn args pt) ->
  exists b s' rs', call_body F fn args = Some b /\ teq s' s /\ typed Δ ∅ None rs' s' b.
Proof.
  intros H. inversion H as [| | | | | | | | | | | | |Γ sh rs0 s0 fn0 args0 pt0 fd tf Hg Hft Ht Hargs| | | | | |]; subst.
  pose proof (get_function_In _ _ _ _ Hg) as Hin.
  pose proof HF as HF'. unfold funs_typed in HF'. rewrite Forall_forall in HF'. specialize (HF' fd Hin).
  destruct HF' as [tf' [Hft' [Hb [Hnd [Hnt Hbody]]]]]. rewrite Hft in Hft'. injection Hft' as <-.
  rewrite call_body_unfold, Hg. cbn zeta.
  assert (Hbne : Forall (fun p => ident p ∉ ({[ "" ]} : gset string)) (fn_params fd)).
  { eapply Forall_impl; [|exact Hb]. intros p [_ Hp]. set_solver. }
  assert (Hw : forall Γ rs1 t b, RtTyping.typed D F teq ∅ Γ None rs1 t b -> typed Δ Γ None rs1 t b).
  { intros. eapply typed_weaken; [apply map_empty_subseteq|eauto]. }
  destruct Hargs as [[Hl Ha]|[a0 [rest [-> [Hl [Hp Ha]]]]]].
  - rewrite Hl, Nat.eqb_refl.
    destruct (fn_explicit fd) as [ep|].
    + destruct Hbody as [Hep1 [Hep2 Hbody]].
      exists (sub_all (fn_params fd) args (fn_body fd)), tf, {[ ""; ident ep ]}. split; [reflexivity|]. split; auto.
      apply sub_all_typed; auto.
      apply (params_not_rs _ _ Hb Hep2).
    + exists (sub_all (fn_params fd) args (fn_body fd)), tf, {[ "" ]}. split; [reflexivity|]. split; auto.
      apply sub_all_typed; auto.
  - simpl length. rewrite Hl.
    assert (E1 : (S (length (fn_params fd)) =? length (fn_params fd))%nat = false) by (apply Nat.eqb_neq; lia).
    rewrite E1, Nat.eqb_refl. apply prov_closed in Hp. destruct Hp as [Hp1 Hp2]. rewrite Hp1.
    destruct (fn_explicit fd) as [ep|].
    + destruct Hbody as [Hep1 [Hep2 Hbody]].
      exists (sub_all (fn_params fd) rest (subst ep (new_self "") (fn_body fd))), tf, ({[ ""; ident ep ]} ∪ {[ "" ]}).
      split; [reflexivity|]. split; auto.
      apply sub_all_typed; auto.
      * eapply Forall_impl; [|apply (params_not_rs _ _ Hb Hep2)]. intros p Hp. simpl in Hp. set_solver.
      * eapply typed_subst_explicit; eauto. apply params_ctx_None; auto.
    + exists (sub_all (fn_params fd) rest (fn_body fd)), tf, {[ "" ]}. split; [reflexivity|]. split; auto.
      apply sub_all_typed; auto.
Qed.

(* the channel identifiers the process may still allocate are unused *)
Definition ns_free (Δ : gmap cid sty) (self : pid) (p : proc) : Prop :=
  forall j, (pr_next p <= j)%nat -> Δ !! (self ++ [j]) = None.

(* ------------------------------------------------------------------ free names (what a GC request propagates to) *)
Lemma in_append_if_not_self n x l :
  In n (append_if_not_self x l) -> In n l \/ (n = x /\ is_self x = false).
Proof.
  unfold append_if_not_self. destruct (is_self x) eqn:E; auto.
  intros H. apply in_app_or in H. destruct H as [H|[<-|[]]]; auto.
Qed.

Lemma in_merge_names n : forall b a, In n (merge_names a b) -> In n a \/ In n b.
Proof.
  induction b as [|x b IH]; intros a; simpl; auto.
  intros H. apply IH in H. destruct H as [H|H]; auto.
  destruct (name_exists a x); auto. apply in_app_or in H. destruct H as [H|[<-|[]]]; auto.
Qed.

Lemma in_remove_bound n l b : In n (remove_bound l b) -> In n l /\ name_equal n b = false.
Proof.
  unfold remove_bound. intros H. apply filter_In in H. destruct H as [H1 H2]. split; auto.
  destruct (name_equal n b); try discriminate; auto.
Qed.

Lemma in_fold_append n : forall args acc,
  In n (fold_left (fun acc x => append_if_not_self x acc) args acc) ->
  In n acc \/ (In n args /\ is_self n = false).
Proof.
  induction args as [|x args IH]; intros acc; simpl; auto.
  intros H. apply IH in H. destruct H as [H|[H1 H2]]; [|auto].
  apply in_append_if_not_self in H. destruct H as [H|[-> H]]; auto.
Qed.

(* a free name is a client occurrence, or the identifier that names the provider *)
Definition free_ok (Δ : gmap cid sty) (Γ : gmap string sty) (sh : option string) (n : name) : Prop :=
  (is_self n = false /\ chan n = None /\ sh = Some (ident n)) \/ exists t, client_ty Δ Γ sh n t.

Lemma free_ok_resh Δ Γ sh sh' n t : client_ty Δ Γ sh' n t -> free_ok Δ Γ sh n.
Proof.
  intros [H1 [Ha H2]]. destruct (chan n) as [c|] eqn:Ec.
  - right. exists t. split; auto. split; auto. rewrite Ec. auto.
  - destruct (decide (sh = Some (ident n))) as [E|E]; [left; auto|].
    right. exists t. split; auto. split; auto. rewrite Ec. destruct H2 as [_ H2]. auto.
Qed.

Lemma prov_free_ok Δ Γ sh rs n : prov_name sh rs n -> is_self n = false -> free_ok Δ Γ sh n.
Proof. intros [H1 [[H2 _]|[_ H2]]] H3; [congruence|]. left. auto. Qed.

Lemma client_unbind Δ Γ sh x A b n t :
  chan b = None -> ident b = x -> name_equal n b = false ->
  client_ty Δ (<[x := A]> Γ) sh n t -> client_ty Δ Γ sh n t.
Proof.
  intros Hb Hx Hne [H1 [Ha H2]]. split; auto. split; auto.
  destruct (chan n) as [c|] eqn:Ec; auto.
  destruct H2 as [H2 [t' [H3 H4]]]. split; auto. exists t'. split; auto.
  rewrite lookup_insert_ne in H3; auto. intros E.
  unfold name_equal, initialized in Hne. rewrite Ec, Hb in Hne. simpl in Hne.
  rewrite <- E, Hx, String.eqb_refl in Hne. discriminate.
Qed.

Lemma free_unbind Δ Γ sh x A b n :
  chan b = None -> ident b = x -> name_equal n b = false ->
  free_ok Δ (<[x := A]> Γ) sh n -> free_ok Δ Γ sh n.
Proof.
  intros Hb Hx Hne [H|[t H]]; [left; auto|]. right. exists t. eapply client_unbind; eauto.
Qed.

Lemma free_undelete Δ Γ sh c n : free_ok Δ (delete c Γ) sh n -> free_ok Δ Γ sh n.
Proof.
  intros [H|[t [H1 [Ha H2]]]]; [left; auto|]. right. exists t. split; auto. split; auto.
  destruct (chan n); auto. destruct H2 as [H2 [t' [H3 H4]]]. split; auto. exists t'. split; auto.
  apply lookup_delete_Some in H3. tauto.
Qed.

(* the provider was named `b` inside: outside, that name is bound *)
Lemma free_unshadow Δ Γ sh b n :
  chan b = None -> name_equal n b = false -> free_ok Δ Γ (Some (ident b)) n -> free_ok Δ Γ sh n.
Proof.
  intros Hb Hne [[H1 [H2 H3]]|[t H]].
  - exfalso. injection H3 as H3. unfold name_equal, initialized in Hne. rewrite H2, Hb in Hne. simpl in Hne.
    rewrite H3, String.eqb_refl in Hne. discriminate.
  - eapply free_ok_resh; eauto.
Qed.

Lemma free_names_typed_mut Δ :
  (forall Γ sh rs s f, typed Δ Γ sh rs s f -> forall n, In n (free_names f) -> free_ok Δ Γ sh n) /\
  (forall Γ rs bs b, typed_brs_p Δ Γ rs bs b ->
     forall sh acc n, In n (free_names_brs acc b) -> In n acc \/ free_ok Δ Γ sh n) /\
  (forall Γ sh rs s bs b, typed_brs_c Δ Γ sh rs s bs b ->
     forall acc n, In n (free_names_brs acc b) -> In n acc \/ free_ok Δ Γ sh n).
Proof.
  assert (Hbc : forall b, binder b -> chan b = None) by (intros b [H _]; exact H).
  apply typed_mutind; intros; simpl in *;
    repeat match goal with
           | H : In _ (merge_names _ _) |- _ => apply in_merge_names in H; destruct H as [H|H]
           | H : In _ (append_if_not_self _ _) |- _ => apply in_append_if_not_self in H; destruct H as [H|[-> H]]
           | H : In _ (remove_bound _ _) |- _ => apply in_remove_bound in H; destruct H as [H ?]
           | H : In _ [] |- _ => destruct H
           end;
    try (eapply prov_free_ok; eauto; fail);
    try (right; eauto; fail);
    try (eapply free_ok_resh; eauto; fail).
  - (* RecvP *)
    match goal with IH : forall n, In n (free_names k) -> _, Hin : In _ (free_names k) |- _ => apply IH in Hin end.
    eapply (free_unshadow _ _ _ cont); eauto.
    eapply (free_undelete _ _ _ (ident cont)). eapply (free_unbind _ _ _ _ _ pay); eauto.
  - (* RecvC *)
    match goal with IH : forall n, In n (free_names k) -> _, Hin : In _ (free_names k) |- _ => apply IH in Hin end.
    eapply (free_unbind _ _ _ _ _ pay); eauto. eapply (free_unbind _ _ _ _ _ cont); eauto.
  - (* CaseP *)
    match goal with IH : forall sh acc n, In n (free_names_brs acc b) -> _, Hin : In _ (free_names_brs _ b) |- _ =>
      apply (IH sh) in Hin; destruct Hin as [Hin|Hin]; auto;
      apply in_append_if_not_self in Hin; destruct Hin as [[]|[-> Hin]]; eapply prov_free_ok; eauto end.
  - (* CaseC *)
    match goal with IH : forall acc n, In n (free_names_brs acc b) -> _, Hin : In _ (free_names_brs _ b) |- _ =>
      apply IH in Hin; destruct Hin as [Hin|Hin]; auto;
      apply in_append_if_not_self in Hin; destruct Hin as [[]|[-> Hin]]; right; eauto end.
  - (* New: body *)
    match goal with IH : forall n, In n (free_names body) -> _, Hin : In _ (free_names body) |- _ => apply IH in Hin end.
    match goal with Hf : free_ok _ _ None _ |- _ => destruct Hf as [[_ [_ E]]|[t Ht]]; [discriminate|] end.
    eapply free_ok_resh; eauto.
  - (* New: continuation *)
    match goal with IH : forall n, In n (free_names k) -> _, Hin : In _ (free_names k) |- _ => apply IH in Hin end.
    eapply (free_unbind _ _ _ _ _ x); eauto.
  - (* Wait *) eauto.
  - (* Drop *) eauto.
  - (* Call *)
    match goal with Hin : In _ (fold_left _ _ _) |- _ =>
      apply in_fold_append in Hin; destruct Hin as [[]|[Hin Hs]]; rename Hin into Hargs_in end.
    match goal with H : _ \/ _ |- _ => destruct H as [[? Ha]|[a0 [rest [-> [? [Hp Ha]]]]]] end.
    + clear -Ha Hargs_in. induction Ha as [|a p args ps [t [H1 H2]] Ha IH]; [destruct Hargs_in|].
      destruct Hargs_in as [<-|Hin]; [right; eauto|auto].
    + destruct Hargs_in as [<-|Hin]; [eapply prov_free_ok; eauto|].
      clear -Ha Hin. induction Ha as [|a p args ps [t [H1 H2]] Ha IH]; [destruct Hin|].
      destruct Hin as [<-|Hin]; [right; eauto|auto].
  - (* ShiftP *)
    match goal with IH : forall n, In n (free_names k) -> _, Hin : In _ (free_names k) |- _ => apply IH in Hin end.
    eapply (free_unshadow _ _ _ x); eauto. eapply free_undelete; eauto.
  - (* ShiftC *)
    match goal with IH : forall n, In n (free_names k) -> _, Hin : In _ (free_names k) |- _ => apply IH in Hin end.
    eapply (free_unbind _ _ _ _ _ x); eauto.
  - (* Split *)
    match goal with IH : forall n, In n (free_names k) -> _, Hin : In _ (free_names k) |- _ => apply IH in Hin end.
    eapply (free_unbind _ _ _ _ _ x); eauto. eapply (free_unbind _ _ _ _ _ y); eauto.
  - (* Print *) eauto.
  - (* brs_p nil *) auto.
  - (* brs_p cons *)
    match goal with IH : forall sh acc n, In n (free_names_brs acc r) -> _, Hin : In _ (free_names_brs _ r) |- _ =>
      apply (IH sh) in Hin; destruct Hin as [Hin|Hin]; auto;
      apply in_merge_names in Hin; destruct Hin as [Hin|Hin]; auto;
      apply in_remove_bound in Hin; destruct Hin as [Hin Hne]; right;
      match goal with IH2 : forall n, In n (free_names k) -> _ |- _ => apply IH2 in Hin end;
      eapply (free_unshadow _ _ _ pay); eauto; eapply free_undelete; eauto end.
  - (* brs_c nil *) auto.
  - (* brs_c cons *)
    match goal with IH : forall acc n, In n (free_names_brs acc r) -> _, Hin : In _ (free_names_brs _ r) |- _ =>
      apply IH in Hin; destruct Hin as [Hin|Hin]; auto;
      apply in_merge_names in Hin; destruct Hin as [Hin|Hin]; auto;
      apply in_remove_bound in Hin; destruct Hin as [Hin Hne]; right;
      match goal with IH2 : forall n, In n (free_names k) -> _ |- _ => apply IH2 in Hin end;
      eapply (free_unbind _ _ _ _ _ pay); eauto end.
Qed.

Lemma free_names_closed Δ rs s f n : typed Δ ∅ None rs s f -> In n (free_names f) -> exists t, chan_ty Δ n t.
Proof.
  intros Hty Hin. destruct (proj1 (free_names_typed_mut Δ) _ _ _ _ _ Hty n Hin) as [[_ [_ E]]|H]; [discriminate|auto].
Qed.

(* ------------------------------------------------------------------ droppable forwards (drop, GC) *)
Lemma droppable_fwds_typed self : forall clients Δ p,
  (forall n, In n clients -> exists t, chan_ty Δ n t) -> ns_free Δ self p ->
  exists Δ' ss cs p', droppable_fwds self p clients = (ss, cs, p') /\
    Δ ⊆ Δ' /\
    (forall k, is_Some (Δ' !! k) -> is_Some (Δ !! k) \/ k ∈ cs) /\
    (forall k, k ∈ cs -> exists j, k = self ++ [j] /\ (pr_next p <= j < pr_next p + length clients)%nat) /\
    length cs = length clients /\
    pr_next p' = (pr_next p + length clients)%nat /\ pr_provs p' = pr_provs p /\ pr_body0 p' = pr_body0 p /\
    Forall (fun s => proc_typed Δ' (Proc (sp_provs s) (sp_body s) 0)) ss.
Proof.
  induction clients as [|cl r IH]; intros Δ p Hcl Hfree; simpl.
  - exists Δ, [], [], p. split; auto. split; auto. split; auto.
    split; [intros k Hk; apply elem_of_nil in Hk; contradiction|]. repeat split; auto; lia.
  - destruct (Hcl cl (or_introl eq_refl)) as [t Ht].
    unfold droppable_fwd, fresh_chan. simpl.
    set (k := self ++ [pr_next p]).
    set (p1 := Proc (pr_provs p) (pr_body0 p) (S (pr_next p))).
    assert (Hk : Δ !! k = None) by (apply Hfree; lia).
    assert (Hsub : Δ ⊆ <[k := t]> Δ) by (apply insert_subseteq; auto).
    destruct (IH (<[k := t]> Δ) p1) as [Δ' [ss [cs [p' [E [Hs' [Hdom [Hnew [Hlen [Hn [Hpv [Hbd Hsp]]]]]]]]]]]].
    + intros n Hn. destruct (Hcl n (or_intror Hn)) as [t' Ht']. exists t'. eapply client_ty_weaken; eauto.
    + intros j Hj. simpl in Hj. rewrite lookup_insert_ne; [apply Hfree; lia|].
      unfold k. intros E. apply app_inv_head in E. injection E as E. lia.
    + rewrite E. eexists Δ', _, _, p'. split; [reflexivity|].
      split; [etrans; eauto|].
      split. { intros k' Hk'. apply Hdom in Hk'. destruct Hk' as [Hk'|Hk']; [|right; set_solver].
               destruct (decide (k = k')) as [<-|Hne]; [right; set_solver|]. rewrite lookup_insert_ne in Hk' by auto. auto. }
      split. { intros k' Hk'. apply elem_of_cons in Hk'. destruct Hk' as [->|Hk'].
               - exists (pr_next p). split; auto. lia.
               - destruct (Hnew k' Hk') as [j [Hj1 Hj2]]. exists j. split; auto. simpl in Hj2. lia. }
      split; [simpl; lia|]. split; [rewrite Hn; simpl; lia|]. split; auto. split; auto.
      constructor; auto. simpl.
      eapply proc_typed_weaken; eauto.
      eapply proc_typed_single.
      * exists k, t. simpl. rewrite lookup_insert. split; auto.
      * eapply (T_Fwd _ _ _ _ _ _ {[ ident cl ]}).
        -- split; auto. left. simpl. split; auto. set_solver.
        -- eapply client_ty_weaken; eauto.
Qed.

(* ------------------------------------------------------------------ effects of the fragment *)
Lemma eff_typed_cont Δ self p p' cl o :
  pr_next p' = pr_next p -> proc_typed Δ p' -> eff_typed Δ Δ self p (Eff (Continue p') [] [] cl o).
Proof.
  intros Hn Hp. unfold eff_typed, eff_base. simpl. split; auto. split; auto.
  split; [intros k Hk; apply elem_of_nil in Hk; contradiction|]. split; [lia|]. split; auto.
Qed.

(* ------------------------------------------------------------------ what a typed process does next *)
(* k is THE provider channel of p (a process that acts on its provider side has exactly one) *)
Definition own_chan (p : proc) (k : cid) : Prop := exists n, pr_provs p = [n] /\ chan n = Some k.

Lemma own_chan_provides p k : own_chan p k -> k ∈ cids_of (pr_provs p).
Proof. intros [n [-> Hk]]. simpl. rewrite Hk. clear. set_solver. Qed.
Lemma own_chan_only p k k' : own_chan p k -> k' ∈ cids_of (pr_provs p) -> k' = k.
Proof. intros [n [-> Hk]]. simpl. rewrite Hk. clear. set_solver. Qed.

(* which side of the channel the process acts on *)
Definition send_side (p : proc) (k : cid) (m : msg) : Prop :=
  (own_chan p k /\ is_pos_rule (m_rule m) = true) \/
  (k ∈ form_chans (pr_body0 p) /\ is_pos_rule (m_rule m) = false).
Definition recv_side (Δ : gmap cid sty) (p : proc) (k : cid) : Prop :=
  exists T, Δ !! k = Some T /\
    ((own_chan p k /\ pol_of_ty D T Neg) \/ (k ∈ form_chans (pr_body0 p) /\ pol_of_ty D T Pos)).

Inductive act_view (Δ : gmap cid sty) (p : proc) : action -> Prop :=
| AV_send k m : msg_typed Δ k m -> send_side p k m -> act_view Δ p (ASend k m)
| AV_recv k :
    is_Some (Δ !! k) -> recv_side Δ p k ->
    (forall self m, ns_free Δ self p -> msg_typed Δ k m ->
       exists e Δ', on_message self p m = EOk e /\ eff_typed Δ Δ' self p e) ->
    act_view Δ p (ARecv k)
| AV_internal :
    (forall self, ns_free Δ self p ->
       exists e Δ', internal_effect Async F self p = EOk e /\ eff_typed Δ Δ' self p e) ->
    act_view Δ p AInternal
| AV_dup :
    (forall self, ns_free Δ self p ->
       exists e Δ', dup_effect self p = EOk e /\ eff_typed Δ Δ' self p e) ->
    act_view Δ p ADup.

Lemma pol_from_head Tk X u pl : teq Tk X -> whd X u -> polarity_of u = Ok pl -> pol_of_ty D Tk pl.
Proof.
  intros Ht Hu Hp. destruct (teq_head D teq Hteq X Tk u (teq_s _ _ Ht) Hu) as [v [Hv Hrel]].
  exists v. split; auto. apply head_rel_pol in Hrel. congruence.
Qed.

Lemma pol_unique T : pol_of_ty D T Pos -> pol_of_ty D T Neg -> False.
Proof.
  intros [u [Hu Hp]] [v [Hv Hn]]. rewrite (whd_det D _ _ _ Hu Hv) in Hp. congruence.
Qed.

Lemma msg_pol Δ k m : msg_typed Δ k m ->
  exists T, Δ !! k = Some T /\ pol_of_ty D T (if is_pos_rule (m_rule m) then Pos else Neg).
Proof.
  intros [T [HT H]]. exists T. split; auto.
  destruct (m_rule m); simpl;
    repeat match goal with
           | H : exists _, _ |- _ => destruct H
           | H : _ /\ _ |- _ => destruct H
           | H : False |- _ => contradiction
           end; auto;
    eexists; (split; [eassumption|reflexivity]).
Qed.

(* the channels a positive message carries *)
Definition payload (m : msg) : list name :=
  (if initialized (m_c1 m) then [m_c1 m] else []) ++ (if initialized (m_c2 m) then [m_c2 m] else []).

Lemma payload_clients Δ k m : msg_typed Δ k m -> is_pos_rule (m_rule m) = true ->
  forall x, In x (payload m) -> exists t, chan_ty Δ x t.
Proof.
  intros [T [HT H]] Hpos x. unfold payload, initialized.
  destruct (m_rule m); simpl in Hpos; try discriminate;
    repeat match goal with
           | H : exists _, _ |- _ => destruct H
           | H : _ /\ _ |- _ => destruct H
           end;
    repeat match goal with
           | H : RtTyping.chan_ty _ _ ?n _ |- _ =>
             let Hc := fresh "Hc" in
             pose proof (client_closed _ _ _ H) as [_ [? [? [Hc _]]]]; rewrite Hc; clear Hc;
             generalize dependent H
           | H : chan ?n = None |- _ => rewrite H; clear H
           end; intros; simpl in *;
    repeat match goal with H : _ \/ _ |- _ => destruct H end; subst; try contradiction; eauto.
Qed.

Lemma on_message_gc self p m : m_rule m = RGC -> body_is_fwd (pr_body0 p) = false ->
  on_message self p m =
  let '(ss, cs, _) := droppable_fwds self p (free_names (pr_body0 p)) in EOk (Eff Finish ss cs [] []).
Proof.
  intros Hr Hb. unfold on_message. rewrite Hr. simpl.
  destruct (pr_body0 p); simpl in *; try reflexivity. discriminate.
Qed.

Section Act.
Variables (Δ : gmap cid sty) (n : name) (k0 : cid) (T0 : sty) (nx : nat).
Hypothesis Hk0 : chan n = Some k0.
Hypothesis HT0 : Δ !! k0 = Some T0.

Local Notation P b := (Proc [n] b nx).

Lemma self_typed s rs b : teq T0 s -> typed Δ ∅ None rs s b -> proc_typed Δ (P b).
Proof. intros Hs Hb. eapply proc_typed_single; eauto. exists k0, T0. auto. Qed.

Lemma self_prov s : teq T0 s -> prov_ty Δ n s.
Proof. intros Hs. exists k0, T0. auto. Qed.

Lemma own_k0 b : own_chan (P b) k0.
Proof. exists n. simpl. auto. Qed.

Ltac in_body :=
  simpl; unfold name_chans;
  repeat match goal with H : chan ?x = _ |- context [chan ?x] => rewrite H end; set_solver.

Ltac compute_action :=
  unfold action_of, send_on, recv_on, internal, multi, self_chan, self_name_of, prov0; simpl;
  repeat match goal with
         | H : is_self ?x = _ |- context [is_self ?x] => rewrite H
         | H : chan ?x = _ |- context [chan ?x] => rewrite H
         end; simpl.

Ltac break :=
  repeat match goal with
         | H : exists _, _ |- _ => destruct H
         | H : _ /\ _ |- _ => destruct H
         | H : False |- _ => contradiction
         end.

(* the listener on k expects the head u of X, where Δ(k) = Tk and Tk ~ X: every message typed on k
   whose kind does not fit u is impossible *)
Ltac msg_cases Hk HX Hu :=
  let Tk' := fresh "Tk'" in let HTk' := fresh "HTk'" in let Hm := fresh "Hm" in
  intros self m Hfree [Tk' [HTk' Hm]];
  rewrite Hk in HTk'; injection HTk' as <-;
  destruct (rule_eqb (m_rule m) RGC) eqn:Egc;
  [apply rule_eqb_eq in Egc; rewrite Egc in Hm | ];
  [ | unfold on_message; simpl;
  destruct (m_rule m) eqn:Er; simpl; try discriminate Egc;
  repeat match goal with
         | H : is_self ?x = _ |- context [is_self ?x] => rewrite H
         end; simpl; break;
  try match goal with
      | Hv : RtTyping.whd D _ ?v |- _ =>
        let Hrel := fresh "Hrel" in
        pose proof (head_of _ _ _ _ HX Hv Hu) as Hrel; simpl in Hrel; try contradiction
      end;
  try match goal with
      | Hp : pol_of_ty D _ Neg |- _ =>
        let v := fresh "v" in let Hv := fresh "Hv" in let Hpol := fresh "Hpol" in
        let Hrel := fresh "Hrel" in
        destruct Hp as [v [Hv Hpol]];
        pose proof (head_of _ _ _ _ HX Hv Hu) as Hrel;
        try (apply head_rel_pol in Hrel; rewrite Hpol in Hrel; simpl in Hrel; discriminate)
      end ].

(* a GC request reaches a provider: it asks everything it depends on to drop itself, and ends *)
Lemma gc_own self s rs b m :
  teq T0 s -> typed Δ ∅ None rs s b -> body_is_fwd b = false -> m_rule m = RGC -> ns_free Δ self (P b) ->
  exists e Δ', on_message self (P b) m = EOk e /\ eff_typed Δ Δ' self (P b) e.
Proof.
  intros Hs Hb Hnf Hr Hfree. rewrite on_message_gc by auto. simpl.
  destruct (droppable_fwds_typed self (free_names b) Δ (P b)) as [Δ' [ss [cs [p' [E [Hsub [Hdom [Hnew [Hlen [Hn [Hpv [Hbd Hsp]]]]]]]]]]]]; auto.
  { intros x Hx. eapply free_names_closed; eauto. }
  rewrite E. exists (Eff Finish ss cs [] []), Δ'. split; auto.
  unfold eff_typed, eff_base. simpl. split; auto. split; auto.
  split. { intros k Hk. destruct (Hnew k Hk) as [j [Hj1 Hj2]]. exists j. split; auto. simpl in Hj2. lia. }
  split; auto.
Qed.

(* the process adopts the providers of a negative forward *)
Lemma fwd_request_ok self s rs b m :
  teq T0 s -> typed Δ ∅ None rs s b -> m_provs m <> [] -> Forall (fun q => prov_ty Δ q T0) (m_provs m) ->
  eff_typed Δ Δ self (P b) (Eff (Continue (set_provs_body (P b) (m_provs m) b)) [] [] (cids_of [n]) []).
Proof.
  intros Hs Hb Hne Hp. apply eff_typed_cont; auto. simpl.
  exists s, rs. simpl. split; auto. split; auto.
  eapply Forall_impl; [|exact Hp]. intros q Hq. simpl in Hq. eapply prov_ty_conv; [exact Hq|exact Hs].
Qed.

Lemma act_SendP s rs to pay cont A B md :
  teq T0 s -> prov_name None rs to -> whd s (TTensor A B md) ->
  client_ty Δ ∅ None pay A -> client_ty Δ ∅ None cont B ->
  act_view Δ (P (FSend to pay cont)) (action_of Async D (P (FSend to pay cont))).
Proof.
  intros Hs Hto Hw Hpay Hcont. apply prov_closed in Hto. destruct Hto as [Hto1 Hto2].
  compute_action. apply AV_send; [|left; split; [apply own_k0|reflexivity]]. exists T0. split; auto. simpl.
  pose proof (teq_head D teq Hteq s T0 _ (teq_s _ _ Hs) Hw) as [v [Hv Hrel]].
  destruct v; simpl in Hrel; try contradiction. destruct Hrel as [Ha Hb].
  do 3 eexists. split; [exact Hv|]. split; eapply client_ty_conv; eauto.
Qed.

Lemma act_SendC s rs to pay cont T A B md :
  teq T0 s -> client_ty Δ ∅ None to T -> whd T (TLolli A B md) ->
  client_ty Δ ∅ None pay A -> prov_name None rs cont -> teq B s ->
  act_view Δ (P (FSend to pay cont)) (action_of Async D (P (FSend to pay cont))).
Proof.
  intros Hs Hto Hw Hpay Hcont HB. apply prov_closed in Hcont. destruct Hcont as [Hc1 Hc2].
  destruct (client_closed _ _ _ Hto) as [Hto1 [c [t [Hto2 [Hto3 Hto4]]]]].
  compute_action. apply AV_send; [|right; split; [in_body|reflexivity]]. exists t. split; auto. simpl.
  pose proof (teq_head D teq Hteq T t _ (teq_s _ _ Hto4) Hw) as [v [Hv Hrel]].
  destruct v; simpl in Hrel; try contradiction. destruct Hrel as [Ha Hb].
  do 3 eexists. split; [exact Hv|]. split; [eapply client_ty_conv; eauto|].
  apply self_prov. eapply teq_t; [exact Hs|]. eapply teq_t; [apply teq_s; exact HB|auto].
Qed.

Lemma act_RecvP s rs pay cont from k A B md :
  teq T0 s -> prov_name None rs from -> whd s (TLolli A B md) ->
  binder pay -> pbinder cont -> ident pay <> ident cont ->
  typed Δ (<[ident pay := A]> ∅) (Some (ident cont)) (rs ∖ {[ident pay]} ∖ ({[ident cont]} ∖ {[""]})) B k ->
  typed Δ ∅ None rs s (FRecv pay cont from k) ->
  act_view Δ (P (FRecv pay cont from k)) (action_of Async D (P (FRecv pay cont from k))).
Proof.
  intros Hs Hfrom Hw Hbp Hbc Hne Hk Hty. apply prov_closed in Hfrom. destruct Hfrom as [Hf1 Hf2].
  compute_action. apply AV_recv; [eauto | exists T0; split; [exact HT0|left; split; [apply own_k0|eapply pol_from_head; eauto; reflexivity]] | ].
  msg_cases HT0 Hs Hw.
  - (* RGC *) eapply gc_own; eauto.
  - (* RRCV *) destruct Hrel as [Ha Hb].
    eexists. exists Δ. split; [reflexivity|]. apply eff_typed_cont; auto. simpl.
    match goal with Hp : RtTyping.prov_ty _ _ (m_c2 m) _ |- _ =>
      destruct (prov_ty_conv _ _ _ _ Hp Hb) as [c2 [t2 [Hc2 [Ht2 Hq2]]]] end.
    apply (proc_typed_single _ (m_c2 m) B (rs ∖ {[ident pay]} ∖ ({[ident cont]} ∖ {[""]}) ∪ {[""]})); [exists c2, t2; auto|].
    apply tshadow; [apply Hbc | apply lookup_empty | ].
    apply (tsubst _ _ _ _ _ _ _ _ A); [apply Hbp | eapply chan_ty_is_chan; eauto | congruence | set_solver | exact Hk].
  - (* RFWD *) eexists. exists Δ. split; [reflexivity|]. eapply fwd_request_ok; eauto.
Qed.

Lemma act_RecvC s rs pay cont from k T A B md :
  teq T0 s -> client_ty Δ ∅ None from T -> whd T (TTensor A B md) ->
  binder pay -> binder cont -> ident pay <> ident cont ->
  typed Δ (<[ident cont := B]> (<[ident pay := A]> ∅)) None (rs ∖ {[ident pay]} ∖ {[ident cont]}) s k ->
  act_view Δ (P (FRecv pay cont from k)) (action_of Async D (P (FRecv pay cont from k))).
Proof.
  intros Hs Hfrom Hw Hbp Hbc Hne Hk.
  destruct (client_closed _ _ _ Hfrom) as [Hf1 [c [t [Hf2 [Hf3 Hf4]]]]].
  compute_action. apply AV_recv; [eauto | eexists; split; [eassumption|right; split; [in_body|eapply pol_from_head; eauto; reflexivity]] | ].
  msg_cases Hf3 Hf4 Hw.
  { exfalso. eapply pol_unique; [eapply pol_from_head; eauto; reflexivity | exact Hm]. }
  (* RSND *) destruct Hrel as [Ha Hb].
  eexists. exists Δ. split; [reflexivity|]. apply eff_typed_cont; auto. simpl.
  apply (self_typed s (rs ∖ {[ident pay]} ∖ {[ident cont]})); [exact Hs|].
  apply (tsubst _ _ _ _ _ _ _ _ B); [apply Hbc | eapply chan_ty_is_chan; eauto | discriminate | set_solver | ].
  apply (tsubst _ _ _ _ _ _ _ _ A); [apply Hbp | eapply chan_ty_is_chan; eauto | discriminate | set_solver | ].
  rewrite (insert_commute _ (ident pay) (ident cont)) by auto. exact Hk.
Qed.

Lemma act_SelP s rs to l cont bs md A :
  teq T0 s -> prov_name None rs to -> whd s (TPlus bs md) -> find_br l bs = Some A ->
  client_ty Δ ∅ None cont A ->
  act_view Δ (P (FSel to l cont)) (action_of Async D (P (FSel to l cont))).
Proof.
  intros Hs Hto Hw Hl Hcont. apply prov_closed in Hto. destruct Hto as [Hto1 Hto2].
  compute_action. apply AV_send; [|left; split; [apply own_k0|reflexivity]]. exists T0. split; auto. simpl.
  pose proof (teq_head D teq Hteq s T0 _ (teq_s _ _ Hs) Hw) as [v [Hv Hrel]].
  destruct v; simpl in Hrel; try contradiction.
  destruct (brs_rel_find _ _ _ _ _ Hrel Hl) as [A' [HA' Hteq']].
  eexists _, _, A'. split; [exact Hv|]. split; [exact HA'|]. split; [eapply client_ty_conv; eauto|reflexivity].
Qed.

Lemma act_SelC s rs to l cont T bs md A :
  teq T0 s -> client_ty Δ ∅ None to T -> whd T (TWith bs md) -> find_br l bs = Some A ->
  prov_name None rs cont -> teq A s ->
  act_view Δ (P (FSel to l cont)) (action_of Async D (P (FSel to l cont))).
Proof.
  intros Hs Hto Hw Hl Hcont HA. apply prov_closed in Hcont. destruct Hcont as [Hc1 Hc2].
  destruct (client_closed _ _ _ Hto) as [Hto1 [c [t [Hto2 [Hto3 Hto4]]]]].
  compute_action. apply AV_send; [|right; split; [in_body|reflexivity]]. exists t. split; auto. simpl.
  pose proof (teq_head D teq Hteq T t _ (teq_s _ _ Hto4) Hw) as [v [Hv Hrel]].
  destruct v; simpl in Hrel; try contradiction.
  destruct (brs_rel_find _ _ _ _ _ Hrel Hl) as [A' [HA' Hteq']].
  eexists _, _, A'. split; [exact Hv|]. split; [exact HA'|].
  apply self_prov. eapply teq_t; [exact Hs|]. eapply teq_t; [apply teq_s; exact HA|auto].
Qed.

Lemma act_CaseP s rs from b bs md :
  teq T0 s -> prov_name None rs from -> whd s (TWith bs md) -> covers bs b ->
  typed_brs_p Δ ∅ rs bs b ->
  typed Δ ∅ None rs s (FCase from b) ->
  act_view Δ (P (FCase from b)) (action_of Async D (P (FCase from b))).
Proof.
  intros Hs Hfrom Hw Hcov Hb Hty. apply prov_closed in Hfrom. destruct Hfrom as [Hf1 Hf2].
  compute_action. apply AV_recv; [eauto | exists T0; split; [exact HT0|left; split; [apply own_k0|eapply pol_from_head; eauto; reflexivity]] | ].
  msg_cases HT0 Hs Hw.
  - (* RGC *) eapply gc_own; eauto.
  - (* RBRA *)
    match goal with Hf : find_br (m_label m) _ = Some _ |- _ =>
      destruct (brs_rel_find _ _ _ _ _ Hrel Hf) as [A' [HA' Hteq']] end.
    destruct (find_branch (m_label m) b) as [[pay k]|] eqn:Efb; [|exfalso; eapply Hcov; eauto].
    destruct (typed_brs_p_find _ _ _ _ _ _ _ _ Hb Efb) as [A2 [HA2 [Hbd Hk]]]. rewrite delete_empty in Hk.
    rewrite HA' in HA2. injection HA2 as <-.
    eexists. exists Δ. split; [reflexivity|]. apply eff_typed_cont; auto. simpl.
    match goal with Hp : RtTyping.prov_ty _ _ (m_c1 m) _ |- _ =>
      destruct (prov_ty_conv _ _ _ _ Hp Hteq') as [c1 [t1 [Hc1 [Ht1 Hq1]]]] end.
    apply (proc_typed_single _ (m_c1 m) A' (rs ∖ ({[ident pay]} ∖ {[""]}) ∪ {[""]})); [exists c1, t1; auto|].
    apply tshadow; [apply Hbd | apply lookup_empty | exact Hk].
  - (* RFWD *) eexists. exists Δ. split; [reflexivity|]. eapply fwd_request_ok; eauto.
Qed.

Lemma act_CaseC s rs from b T bs md :
  teq T0 s -> client_ty Δ ∅ None from T -> whd T (TPlus bs md) -> covers bs b ->
  typed_brs_c Δ ∅ None rs s bs b ->
  act_view Δ (P (FCase from b)) (action_of Async D (P (FCase from b))).
Proof.
  intros Hs Hfrom Hw Hcov Hb.
  destruct (client_closed _ _ _ Hfrom) as [Hf1 [c [t [Hf2 [Hf3 Hf4]]]]].
  compute_action. apply AV_recv; [eauto | eexists; split; [eassumption|right; split; [in_body|eapply pol_from_head; eauto; reflexivity]] | ].
  msg_cases Hf3 Hf4 Hw.
  { exfalso. eapply pol_unique; [eapply pol_from_head; eauto; reflexivity | exact Hm]. }
  (* RSEL *)
  match goal with Hf : find_br (m_label m) _ = Some _ |- _ =>
    destruct (brs_rel_find _ _ _ _ _ Hrel Hf) as [A' [HA' Hteq']] end.
  destruct (find_branch (m_label m) b) as [[pay k]|] eqn:Efb; [|exfalso; eapply Hcov; eauto].
  destruct (typed_brs_c_find _ _ _ _ _ _ _ _ _ _ Hb Efb) as [A2 [HA2 [Hbd [Hsh Hk]]]].
  rewrite HA' in HA2. injection HA2 as <-.
  eexists. exists Δ. split; [reflexivity|]. apply eff_typed_cont; auto. simpl.
  apply (self_typed s (rs ∖ {[ident pay]})); [exact Hs|].
  apply (tsubst _ _ _ _ _ _ _ _ A'); [apply Hbd | eapply chan_ty_is_chan; eauto | exact Hsh | set_solver | exact Hk].
Qed.

Lemma act_New s rs x body k A :
  teq T0 s -> binder x -> typed Δ ∅ None rs A body ->
  typed Δ (<[ident x := A]> ∅) None (rs ∖ {[ident x]}) s k ->
  act_view Δ (P (FNew x body k)) (action_of Async D (P (FNew x body k))).
Proof.
  intros Hs Hbx Hbody Hk.
  compute_action. apply AV_internal. intros self Hfree.
  assert (Hfresh : Δ !! (self ++ [nx]) = None) by (apply Hfree; simpl; lia).
  unfold internal_effect, fresh_chan. simpl.
  set (c := self ++ [nx]). set (cn := mkName (ident x) false (pol x) (nty x) (Some c)).
  exists (Eff (Continue (set_body (Proc [n] (FNew x body k) (S nx)) (subst x cn k))) [Spawn [cn] body] (cids_of [cn]) [] []).
  exists (<[c := A]> Δ). split; [reflexivity|].
  assert (Hsub : Δ ⊆ <[c := A]> Δ) by (apply insert_subseteq; exact Hfresh).
  unfold eff_typed, eff_base. simpl. split; auto.
  split. { intros k' Hk'. destruct (decide (c = k')) as [<-|Hne]; [right; set_solver|]. rewrite lookup_insert_ne in Hk' by auto. auto. }
  split. { intros k' Hk'. apply elem_of_list_singleton in Hk'. subst k'. exists nx. split; auto; simpl; lia. }
  split; [simpl; lia|]. split.
  - apply (proc_typed_single _ n s (rs ∖ {[ident x]})); [eapply prov_ty_weaken; eauto; apply self_prov; auto|].
    apply (tsubst _ _ _ _ _ _ _ _ A);
      [apply Hbx | split; simpl; auto; exists c, A; rewrite lookup_insert; auto | discriminate | set_solver
       | eapply typed_weaken; eauto].
  - constructor; [|constructor]. simpl. apply (proc_typed_single _ cn A rs).
    + exists c, A. simpl. rewrite lookup_insert. auto.
    + eapply typed_weaken; eauto.
Qed.

Lemma act_Close s rs c md :
  teq T0 s -> prov_name None rs c -> whd s (TUnit md) ->
  act_view Δ (P (FClose c)) (action_of Async D (P (FClose c))).
Proof.
  intros Hs Hc Hw. apply prov_closed in Hc. destruct Hc as [Hc1 Hc2].
  compute_action. apply AV_send; [|left; split; [apply own_k0|reflexivity]]. exists T0. split; auto. simpl.
  pose proof (teq_head D teq Hteq s T0 _ (teq_s _ _ Hs) Hw) as [v [Hv Hrel]].
  destruct v; simpl in Hrel; try contradiction. eexists. split; [exact Hv|]. split; reflexivity.
Qed.

Lemma act_Wait s rs c k T md :
  teq T0 s -> client_ty Δ ∅ None c T -> whd T (TUnit md) -> typed Δ ∅ None rs s k ->
  act_view Δ (P (FWait c k)) (action_of Async D (P (FWait c k))).
Proof.
  intros Hs Hc Hw Hk.
  destruct (client_closed _ _ _ Hc) as [Hc1 [c' [t [Hc2 [Hc3 Hc4]]]]].
  compute_action. apply AV_recv; [eauto | eexists; split; [eassumption|right; split; [in_body|eapply pol_from_head; eauto; reflexivity]] | ].
  msg_cases Hc3 Hc4 Hw.
  { exfalso. eapply pol_unique; [eapply pol_from_head; eauto; reflexivity | exact Hm]. }
  eexists. exists Δ. split; [reflexivity|]. apply eff_typed_cont; auto. simpl. eapply self_typed; eauto.
Qed.

Lemma act_Fwd_gen ps nx' s rs to from d :
  ps <> [] -> Forall (fun q => prov_ty Δ q s) ps -> prov_name None rs to -> client_ty Δ ∅ None from s ->
  act_view Δ (Proc ps (FFwd to from d) nx') (action_of Async D (Proc ps (FFwd to from d) nx')).
Proof.
  intros Hps Hprovs Hto Hfrom. pose proof Hto as Hto'. apply prov_closed in Hto. destruct Hto as [Hto1 Hto2].
  assert (Hself : forall b rs', typed Δ ∅ None rs' s b -> proc_typed Δ (Proc ps b nx')).
  { intros b rs' Hb. exists s, rs'. simpl. auto. }
  destruct (client_ann _ _ _ _ _ Hfrom) as [t0 [Hnt [Hnn Ht0]]].
  destruct (client_closed _ _ _ Hfrom) as [Hf1 [c [t [Hf2 [Hf3 Hf4]]]]].
  assert (Hfp : fwd_polarity D from = polarity_of t0).
  { unfold fwd_polarity. rewrite Hnt. destruct t0; try reflexivity. discriminate. }
  assert (Hw0 : whd t0 t0) by (constructor; auto).
  assert (HX : teq t t0) by (eapply teq_t; [exact Hf4|apply teq_s; exact Ht0]).
  unfold action_of. simpl. rewrite Hto1. simpl. rewrite Hfp.
  destruct (polarity_of t0) as [[| |]|w|w] eqn:Epol; try (destruct t0; discriminate).
  - (* positive: relay, or drop what arrives *) rewrite Hf2.
    assert (Hpos : pol_of_ty D t Pos) by (eapply pol_from_head; [exact HX|exact Hw0|exact Epol]).
    apply AV_recv; [eauto | exists t; split; [exact Hf3|right; split; [in_body|exact Hpos]] | ].
    intros self m Hfree Hmsg.
    assert (Hrule : is_pos_rule (m_rule m) = true).
    { destruct (msg_pol _ _ _ Hmsg) as [T' [HT' Hp']]. rewrite Hf3 in HT'. injection HT' as <-.
      destruct (is_pos_rule (m_rule m)); auto. exfalso. eapply pol_unique; eauto. }
    destruct d.
    + (* droppable *)
      unfold on_message. simpl.
      replace (rule_eqb (m_rule m) RFWD && false) with false by (destruct (rule_eqb _ _); reflexivity).
      replace (rule_eqb (m_rule m) RGC && false) with false by (destruct (rule_eqb _ _); reflexivity).
      fold (payload m).
      destruct (droppable_fwds_typed self (payload m) Δ (Proc ps (FFwd to from true) nx'))
        as [Δ' [ss [cs [p' [E [Hsub [Hdom [Hnew [Hlen [Hn [Hpv [Hbd Hsp]]]]]]]]]]]]; auto.
      { eapply payload_clients; eauto. }
      rewrite E. exists (Eff Finish ss cs [] []), Δ'. split; auto.
      unfold eff_typed, eff_base. simpl. split; auto. split; auto.
      split. { intros k Hk. destruct (Hnew k Hk) as [j [Hj1 Hj2]]. exists j. split; auto. simpl in Hj2. lia. }
      split; auto.
    + (* relay *)
      destruct Hmsg as [Tk' [HTk' Hm]]. rewrite Hf3 in HTk'. injection HTk' as <-.
      unfold on_message; simpl.
      destruct (m_rule m) eqn:Er; simpl in *; try discriminate; break;
        match goal with
        | Hv : RtTyping.whd D t ?v |- _ =>
          pose proof (teq_head D teq Hteq t s _ Hf4 Hv) as [u [Hu Hrel2]];
          destruct u; simpl in Hrel2; try contradiction
        end.
      * (* RSND *) destruct Hrel2 as [Ha Hb].
        eexists. exists Δ. split; [reflexivity|]. apply eff_typed_cont; auto. simpl. apply (Hself _ rs).
        eapply T_SendP; eauto; eapply client_ty_conv; eauto.
      * (* RCLS *) eexists. exists Δ. split; [reflexivity|]. apply eff_typed_cont; auto. simpl. apply (Hself _ rs).
        eapply T_Close; eauto.
      * (* RCST *) eexists. exists Δ. split; [reflexivity|]. apply eff_typed_cont; auto. simpl. apply (Hself _ rs).
        eapply T_CastP; eauto; eapply client_ty_conv; eauto.
      * (* RSEL *)
        match goal with Hf : find_br (m_label m) _ = Some _ |- _ =>
          destruct (brs_rel_find _ _ _ _ _ Hrel2 Hf) as [A' [HA' Hteq']] end.
        eexists. exists Δ. split; [reflexivity|]. apply eff_typed_cont; auto. simpl. apply (Hself _ rs).
        eapply T_SelP; eauto; eapply client_ty_conv; eauto.
  - (* negative: FWD request, or GC request *) rewrite Hf2.
    assert (Hneg : pol_of_ty D t Neg) by (eapply pol_from_head; [exact HX|exact Hw0|exact Epol]).
    apply AV_send; [|right; split; [in_body|destruct d; reflexivity]]. exists t. split; auto.
    destruct d; simpl; [exact Hneg|].
    split; [exact Hneg|]. split; [exact Hps|].
    eapply Forall_impl; [|exact Hprovs]. intros q Hq. simpl in Hq. eapply prov_ty_conv; [exact Hq|apply teq_s; exact Hf4].
Qed.

Lemma act_Fwd s rs to from d :
  teq T0 s -> prov_name None rs to -> client_ty Δ ∅ None from s ->
  act_view Δ (P (FFwd to from d)) (action_of Async D (P (FFwd to from d))).
Proof.
  intros Hs Hto Hfrom. apply (act_Fwd_gen [n] nx s rs); auto; try discriminate.
  constructor; [|constructor]. apply self_prov. auto.
Qed.


Lemma act_Drop s rs c k T :
  teq T0 s -> client_ty Δ ∅ None c T -> typed Δ ∅ None rs s k ->
  act_view Δ (P (FDrop c k)) (action_of Async D (P (FDrop c k))).
Proof.
  intros Hs Hc Hk.
  destruct (client_closed _ _ _ Hc) as [Hc1 [c' [t [Hc2 [Hc3 Hc4]]]]].
  compute_action. apply AV_internal. intros self Hfree.
  destruct (droppable_fwds_typed self [c] Δ (P (FDrop c k)))
    as [Δ' [ss [cs [p' [E [Hsub [Hdom [Hnew [Hlen [Hn [Hpv [Hbd Hsp]]]]]]]]]]]]; auto.
  { intros x [<-|[]]. exists T. exact Hc. }
  simpl in E. unfold droppable_fwd, fresh_chan in E. simpl in E. injection E as <- <- <-.
  unfold internal_effect. simpl. unfold droppable_fwd, fresh_chan. simpl.
  eexists. exists Δ'. split; [reflexivity|].
  unfold eff_typed, eff_base. simpl. split; auto. split; auto.
  split. { intros k' Hk'. apply elem_of_list_singleton in Hk'. subst k'. exists nx. split; auto. lia. }
  split; [lia|]. split; auto.
  apply (proc_typed_single _ n s rs); [eapply prov_ty_weaken; eauto; apply self_prov; auto|].
  eapply typed_weaken; eauto.
Qed.

Lemma act_Call s rs fn args pt :
  teq T0 s -> typed Δ ∅ None rs s (FCall fn args pt) ->
  act_view Δ (P (FCall fn args pt)) (action_of Async D (P (FCall fn args pt))).
Proof.
  intros Hs Hty. compute_action. apply AV_internal. intros self _.
  destruct (call_typed _ _ _ _ _ _ Hty) as [b [s' [rs' [Hcb [Hs' Hb]]]]].
  unfold internal_effect. simpl. rewrite Hcb.
  eexists. exists Δ. split; [reflexivity|]. apply eff_typed_cont; auto. simpl.
  eapply self_typed; [|exact Hb]. eapply teq_t; [exact Hs | apply teq_s; exact Hs'].
Qed.

Lemma act_CastP s rs to cont fm tm A :
  teq T0 s -> prov_name None rs to -> whd s (TDown fm tm A) -> client_ty Δ ∅ None cont A ->
  act_view Δ (P (FCast to cont)) (action_of Async D (P (FCast to cont))).
Proof.
  intros Hs Hto Hw Hcont. apply prov_closed in Hto. destruct Hto as [Hto1 Hto2].
  compute_action. apply AV_send; [|left; split; [apply own_k0|reflexivity]]. exists T0. split; auto. simpl.
  pose proof (teq_head D teq Hteq s T0 _ (teq_s _ _ Hs) Hw) as [v [Hv Hrel]].
  destruct v; simpl in Hrel; try contradiction.
  do 3 eexists. split; [exact Hv|]. split; [eapply client_ty_conv; eauto|reflexivity].
Qed.

Lemma act_CastC s rs to cont T fm tm A :
  teq T0 s -> client_ty Δ ∅ None to T -> whd T (TUp fm tm A) -> prov_name None rs cont -> teq A s ->
  act_view Δ (P (FCast to cont)) (action_of Async D (P (FCast to cont))).
Proof.
  intros Hs Hto Hw Hcont HA. apply prov_closed in Hcont. destruct Hcont as [Hc1 Hc2].
  destruct (client_closed _ _ _ Hto) as [Hto1 [c [t [Hto2 [Hto3 Hto4]]]]].
  compute_action. apply AV_send; [|right; split; [in_body|reflexivity]]. exists t. split; auto. simpl.
  pose proof (teq_head D teq Hteq T t _ (teq_s _ _ Hto4) Hw) as [v [Hv Hrel]].
  destruct v; simpl in Hrel; try contradiction.
  do 3 eexists. split; [exact Hv|].
  apply self_prov. eapply teq_t; [exact Hs|]. eapply teq_t; [apply teq_s; exact HA|auto].
Qed.

Lemma act_ShiftP s rs x from k fm tm A :
  teq T0 s -> prov_name None rs from -> whd s (TUp fm tm A) -> pbinder x ->
  typed Δ ∅ (Some (ident x)) (rs ∖ ({[ident x]} ∖ {[""]})) A k ->
  typed Δ ∅ None rs s (FShift x from k) ->
  act_view Δ (P (FShift x from k)) (action_of Async D (P (FShift x from k))).
Proof.
  intros Hs Hfrom Hw Hbx Hk Hty. apply prov_closed in Hfrom. destruct Hfrom as [Hf1 Hf2].
  compute_action. apply AV_recv; [eauto | exists T0; split; [exact HT0|left; split; [apply own_k0|eapply pol_from_head; eauto; reflexivity]] | ].
  msg_cases HT0 Hs Hw.
  - (* RGC *) eapply gc_own; eauto.
  - (* RSHF *)
    eexists. exists Δ. split; [reflexivity|]. apply eff_typed_cont; auto. simpl.
    match goal with Hp : RtTyping.prov_ty _ _ (m_c1 m) _ |- _ =>
      destruct (prov_ty_conv _ _ _ _ Hp Hrel) as [c1 [t1 [Hc1 [Ht1 Hq1]]]] end.
    apply (proc_typed_single _ (m_c1 m) A (rs ∖ ({[ident x]} ∖ {[""]}) ∪ {[""]})); [exists c1, t1; auto|].
    apply tshadow; [apply Hbx | apply lookup_empty | exact Hk].
  - (* RFWD *) eexists. exists Δ. split; [reflexivity|]. eapply fwd_request_ok; eauto.
Qed.

Lemma act_ShiftC s rs x from k T fm tm A :
  teq T0 s -> client_ty Δ ∅ None from T -> whd T (TDown fm tm A) -> binder x ->
  typed Δ (<[ident x := A]> ∅) None (rs ∖ {[ident x]}) s k ->
  act_view Δ (P (FShift x from k)) (action_of Async D (P (FShift x from k))).
Proof.
  intros Hs Hfrom Hw Hbx Hk.
  destruct (client_closed _ _ _ Hfrom) as [Hf1 [c [t [Hf2 [Hf3 Hf4]]]]].
  compute_action. apply AV_recv; [eauto | eexists; split; [eassumption|right; split; [in_body|eapply pol_from_head; eauto; reflexivity]] | ].
  msg_cases Hf3 Hf4 Hw.
  { exfalso. eapply pol_unique; [eapply pol_from_head; eauto; reflexivity | exact Hm]. }
  eexists. exists Δ. split; [reflexivity|]. apply eff_typed_cont; auto. simpl.
  apply (self_typed s (rs ∖ {[ident x]})); [exact Hs|].
  apply (tsubst _ _ _ _ _ _ _ _ A); [apply Hbx | eapply chan_ty_is_chan; eauto | discriminate | set_solver | exact Hk].
Qed.

Lemma act_Split s rs x y from k T :
  teq T0 s -> client_ty Δ ∅ None from T -> binder x -> binder y -> ident x <> ident y ->
  typed Δ (<[ident y := T]> (<[ident x := T]> ∅)) None (rs ∖ {[ident x]} ∖ {[ident y]}) s k ->
  act_view Δ (P (FSplit x y from k)) (action_of Async D (P (FSplit x y from k))).
Proof.
  intros Hs Hfrom Hbx Hby Hne Hk.
  destruct (client_closed _ _ _ Hfrom) as [Hf1 [cf [t [Hf2 [Hf3 Hf4]]]]].
  compute_action. apply AV_internal. intros self Hfree.
  assert (Hfr1 : Δ !! (self ++ [nx]) = None) by (apply Hfree; simpl; lia).
  assert (Hfr2 : Δ !! (self ++ [S nx]) = None) by (apply Hfree; simpl; lia).
  unfold internal_effect, fresh_chan. simpl.
  set (k1 := self ++ [nx]). set (k2 := self ++ [S nx]).
  set (c1 := mkName (ident x) false (pol from) (nty from) (Some k1)).
  set (c2 := mkName (ident y) false (pol from) (nty from) (Some k2)).
  assert (Hk12 : k1 <> k2) by (unfold k1, k2; intros E; apply app_inv_head in E; injection E; lia).
  set (Δ' := <[k2 := T]> (<[k1 := T]> Δ)).
  assert (Hsub : Δ ⊆ Δ').
  { unfold Δ'. etrans; [apply (insert_subseteq Δ k1 T Hfr1)|]. apply insert_subseteq.
    rewrite lookup_insert_ne by auto. exact Hfr2. }
  eexists. exists Δ'. split; [reflexivity|].
  unfold eff_typed, eff_base. simpl. split; auto.
  split. { intros k' Hk'. unfold Δ' in Hk'.
           destruct (decide (k2 = k')) as [<-|N2]; [right; set_solver|]. rewrite lookup_insert_ne in Hk' by auto.
           destruct (decide (k1 = k')) as [<-|N1]; [right; set_solver|]. rewrite lookup_insert_ne in Hk' by auto. auto. }
  split. { intros k' Hk'. apply elem_of_cons in Hk'. destruct Hk' as [->|Hk'].
           - exists nx. split; auto. lia.
           - apply elem_of_list_singleton in Hk'. subst k'. exists (S nx). split; auto. lia. }
  split; [lia|]. split.
  - apply (proc_typed_single _ n s (rs ∖ {[ident x]} ∖ {[ident y]})); [eapply prov_ty_weaken; eauto; apply self_prov; auto|].
    apply (tsubst _ _ _ _ _ _ _ _ T);
      [apply Hby | split; simpl; auto; exists k2, T; unfold Δ'; rewrite lookup_insert; auto | discriminate | set_solver | ].
    apply (tsubst _ _ _ _ _ _ _ _ T);
      [apply Hbx | split; simpl; auto; exists k1, T; unfold Δ'; rewrite lookup_insert_ne by auto; rewrite lookup_insert; auto
       | discriminate | set_solver | ].
    rewrite (insert_commute _ (ident x) (ident y)) by auto. eapply typed_weaken; eauto.
  - constructor; [|constructor]. simpl. exists T, {[ ident from ]}. simpl. split; [discriminate|]. split.
    + constructor; [|constructor; [|constructor]].
      * exists k1, T. simpl. unfold Δ'. rewrite lookup_insert_ne by auto. rewrite lookup_insert. auto.
      * exists k2, T. simpl. unfold Δ'. rewrite lookup_insert. auto.
    + eapply T_Fwd.
      * split; auto. left. simpl. split; auto. set_solver.
      * eapply client_ty_weaken; eauto.
Qed.

Lemma act_Print s rs l k :
  teq T0 s -> typed Δ ∅ None rs s k ->
  act_view Δ (P (FPrint l k)) (action_of Async D (P (FPrint l k))).
Proof.
  intros Hs Hk. compute_action. apply AV_internal. intros self _.
  unfold internal_effect. simpl.
  eexists. exists Δ. split; [reflexivity|]. apply eff_typed_cont; auto. simpl. eapply self_typed; eauto.
Qed.

End Act.


(* ------------------------------------------------------------------ DUP: a process with several providers duplicates itself *)
Definition row_typed (Δ' : gmap cid sty) (t : sty) (row : list name) : Prop :=
  Forall (fun c => is_self c = false /\ exists e, chan c = Some e /\ Δ' !! e = Some t) row.

Lemma row_typed_weaken Δ1 Δ2 t row : Δ1 ⊆ Δ2 -> row_typed Δ1 t row -> row_typed Δ2 t row.
Proof.
  intros Hs H. eapply Forall_impl; [|exact H]. intros c [H1 [e [H2 H3]]]. split; auto.
  exists e. split; auto. eapply lookup_weaken; eauto.
Qed.

Lemma fresh_row_typed self fn t : forall n Δ p,
  ns_free Δ self p ->
  exists Δ' row p', fresh_row self p fn n = (row, p') /\
    Δ ⊆ Δ' /\
    (forall k, is_Some (Δ' !! k) -> is_Some (Δ !! k) \/ k ∈ cids_of row) /\
    (forall k, k ∈ cids_of row -> exists j, k = self ++ [j] /\ (pr_next p <= j < pr_next p + n)%nat) /\
    length row = n /\ length (cids_of row) = n /\
    pr_next p' = (pr_next p + n)%nat /\ ns_free Δ' self p' /\ row_typed Δ' t row.
Proof.
  induction n as [|n IH]; intros Δ p Hfree; simpl.
  - exists Δ, [], p. split; auto. split; auto. split; auto.
    split; [intros k Hk; apply elem_of_nil in Hk; contradiction|].
    repeat split; auto; try lia. replace (pr_next p + 0)%nat with (pr_next p) by lia. auto. constructor.
  - unfold fresh_chan. simpl.
    set (k := self ++ [pr_next p]).
    set (p1 := Proc (pr_provs p) (pr_body0 p) (S (pr_next p))).
    assert (Hk : Δ !! k = None) by (apply Hfree; lia).
    assert (Hsub : Δ ⊆ <[k := t]> Δ) by (apply insert_subseteq; auto).
    destruct (IH (<[k := t]> Δ) p1) as [Δ' [row [p' [E [Hs' [Hdom [Hnew [Hlen [Hlen2 [Hn [Hfr' Hrow]]]]]]]]]]].
    + intros j Hj. simpl in Hj. rewrite lookup_insert_ne; [apply Hfree; lia|].
      unfold k. intros E. apply app_inv_head in E. injection E as E. lia.
    + rewrite E. eexists Δ', _, p'. split; [reflexivity|].
      split; [etrans; eauto|].
      split. { intros k' Hk'. apply Hdom in Hk'. simpl. destruct Hk' as [Hk'|Hk']; [|right; set_solver].
               destruct (decide (k = k')) as [<-|Hne]; [right; set_solver|]. rewrite lookup_insert_ne in Hk' by auto. auto. }
      split. { simpl. intros k' Hk'. apply elem_of_cons in Hk'. destruct Hk' as [->|Hk'].
               - exists (pr_next p). split; auto. lia.
               - destruct (Hnew k' Hk') as [j [Hj1 Hj2]]. exists j. split; auto. simpl in Hj2. lia. }
      split; [simpl; lia|]. split; [simpl; lia|]. split; [rewrite Hn; simpl; lia|]. split; auto.
      constructor; auto. simpl. split; auto. exists k. split; auto.
      eapply lookup_weaken; eauto. apply lookup_insert.
Qed.

Definition matrix_typed (Δ' : gmap cid sty) (n : nat) (fns : list name) (rows : list (list name)) : Prop :=
  Forall2 (fun fn row => length row = n /\ exists t, chan_ty Δ' fn t /\ row_typed Δ' t row) fns rows.

Lemma fresh_matrix_typed self n : forall fns Δ p,
  (forall fn, In fn fns -> exists t, chan_ty Δ fn t) -> ns_free Δ self p ->
  exists Δ' rows p', fresh_matrix self p fns n = (rows, p') /\
    Δ ⊆ Δ' /\
    (forall k, is_Some (Δ' !! k) -> is_Some (Δ !! k) \/ k ∈ flat_map cids_of rows) /\
    (forall k, k ∈ flat_map cids_of rows ->
       exists j, k = self ++ [j] /\ (pr_next p <= j < pr_next p + length (flat_map cids_of rows))%nat) /\
    matrix_typed Δ' n fns rows.
Proof.
  induction fns as [|fn fns IH]; intros Δ p Hfns Hfree; simpl.
  - exists Δ, [], p. split; auto. split; auto. split; auto.
    split; [intros k Hk; apply elem_of_nil in Hk; contradiction|]. constructor.
  - destruct (Hfns fn (or_introl eq_refl)) as [t Ht].
    destruct (fresh_row_typed self fn t n Δ p Hfree) as [Δ1 [row [p1 [E1 [Hs1 [Hd1 [Hn1 [Hl1 [Hl1' [Hp1 [Hfr1 Hr1]]]]]]]]]]].
    destruct (IH Δ1 p1) as [Δ' [rows [p' [E [Hs' [Hdom [Hnew Hm]]]]]]]; auto.
    { intros fn' Hin. destruct (Hfns fn' (or_intror Hin)) as [t' Ht']. exists t'. eapply client_ty_weaken; eauto. }
    rewrite E1, E. eexists Δ', _, p'. split; [reflexivity|].
    split; [etrans; eauto|].
    split. { intros k Hk. simpl. apply Hdom in Hk. destruct Hk as [Hk|Hk]; [|right; set_solver].
             apply Hd1 in Hk. destruct Hk; auto. right. set_solver. }
    split. { simpl. intros k Hk. rewrite app_length, Hl1'. apply elem_of_app in Hk. destruct Hk as [Hk|Hk].
             - destruct (Hn1 k Hk) as [j [Hj1 Hj2]]. exists j. split; auto. lia.
             - destruct (Hnew k Hk) as [j [Hj1 Hj2]]. exists j. split; auto. lia. }
    constructor; auto.
    split; auto. exists t. split; [eapply client_ty_weaken; [|exact Ht]; etrans; eauto|].
    eapply row_typed_weaken; eauto.
Qed.

Lemma subst_col_typed Δ' n rs s i : forall fns rows b,
  matrix_typed Δ' n fns rows -> (i < n)%nat ->
  typed Δ' ∅ None rs s b -> typed Δ' ∅ None rs s (subst_col fns rows i b).
Proof.
  intros fns rows b Hm Hi. revert b. induction Hm as [|fn row fns rows [Hl [t [Hfn Hrow]]] Hm IH]; intros b Hb; simpl; auto.
  destruct (nth_error row i) as [c|] eqn:En; [|exfalso; apply nth_error_None in En; lia].
  apply IH.
  apply nth_error_In in En. unfold row_typed in Hrow. rewrite Forall_forall in Hrow.
  destruct (Hrow c En) as [Hc1 [e [Hc2 Hc3]]].
  destruct (client_closed _ _ _ Hfn) as [_ [d [t0 [Hd1 [Hd2 Hd3]]]]].
  eapply (typed_subst_chan D F teq Hteq Δ' ∅ None rs s b fn c d e); eauto.
  intros T HT. rewrite Hd2 in HT. injection HT as <-. exists t. split; auto.
Qed.

Lemma dup_fwds_typed Δ' n fns rows :
  matrix_typed Δ' n fns rows -> (2 <= n)%nat ->
  Forall (fun sp => proc_typed Δ' (Proc (sp_provs sp) (sp_body sp) 0))
         (map (fun '(fn, row) => Spawn row (FFwd (mkName (ident fn) true None (nty fn) None) fn false)) (combine fns rows)).
Proof.
  intros Hm Hlen. induction Hm as [|fn row fns rows [Hl [t [Hfn Hrow]]] Hm IH]; simpl; [constructor|].
  constructor; auto. simpl. exists t, {[ ident fn ]}. simpl.
  split; [destruct row; simpl in Hl; [lia|discriminate]|]. split.
  - unfold row_typed in Hrow. eapply List.Forall_impl; [|exact Hrow]. intros c [Hc1 [e [Hc2 Hc3]]].
    exists e, t. split; [exact Hc2|]. split; [exact Hc3|]. apply (teq_refl D teq Hteq).
  - eapply T_Fwd; [|exact Hfn]. split; auto. left. simpl. split; auto. set_solver.
Qed.

Lemma dup_typed Δ self p s rs :
  (2 <= length (pr_provs p))%nat -> Forall (fun q => prov_ty Δ q s) (pr_provs p) ->
  typed Δ ∅ None rs s (pr_body0 p) -> ns_free Δ self p ->
  exists e Δ', dup_effect self p = EOk e /\ eff_typed Δ Δ' self p e.
Proof.
  intros Hlen Hprovs Hty Hfree. unfold dup_effect.
  destruct (length (pr_provs p) =? 1)%nat eqn:E1; [apply Nat.eqb_eq in E1; lia|].
  destruct (fresh_matrix_typed self (length (pr_provs p)) (free_names (pr_body0 p)) Δ p)
    as [Δ' [rows [p' [E [Hsub [Hdom [Hnew Hm]]]]]]]; auto.
  { intros fn Hin. eapply free_names_closed; eauto. }
  rewrite E. eexists. exists Δ'. split; [reflexivity|].
  unfold eff_typed, eff_base. simpl. split; auto. split; auto. split; auto. split; auto. split; auto.
  apply Forall_app. split.
  - (* the copies *)
    apply Forall_forall. intros sp Hsp. apply elem_of_list_In in Hsp.
    apply elem_of_lookup_imap in Hsp. destruct Hsp as [i [pr [-> Hi]]]. simpl.
    apply (proc_typed_single _ pr s rs).
    + eapply prov_ty_weaken; eauto. eapply Forall_forall in Hprovs; [exact Hprovs|].
      apply elem_of_list_In. eapply elem_of_list_lookup_2; eauto.
    + eapply subst_col_typed; eauto; [eapply lookup_lt_Some; eauto|]. eapply typed_weaken; eauto.
  - (* the forwards that feed the copies *)
    eapply dup_fwds_typed; eauto.
Qed.

(* with several providers every form but the forward duplicates first *)
Lemma multi_action Δ n1 n2 rest nx s rs b :
  Forall (fun q => prov_ty Δ q s) (n1 :: n2 :: rest) -> typed Δ ∅ None rs s b ->
  body_is_fwd b = false -> action_of Async D (Proc (n1 :: n2 :: rest) b nx) = ADup.
Proof.
  intros Hprovs Hty Hnf.
  assert (Hk : exists k, chan n1 = Some k).
  { inversion Hprovs as [|? ? [k [t [Hk _]]] _]; subst. eauto. }
  destruct Hk as [k1 Hk1].
  inversion Hty; subst; simpl in Hnf; try discriminate;
    repeat match goal with
           | H : prov_name None _ _ |- _ => apply prov_closed in H; destruct H as [? ?]
           | H : RtTyping.client_ty _ _ ∅ None _ _ |- _ =>
             let c := fresh "c" in let t := fresh "t" in
             apply client_closed in H; destruct H as [? [c [t [? [? ?]]]]]
           end;
    unfold action_of, send_on, recv_on, internal, multi, self_chan, self_name_of, prov0; simpl;
    repeat match goal with
           | H : is_self ?x = _ |- context [is_self ?x] => rewrite H
           | H : chan ?x = _ |- context [chan ?x] => rewrite H
           end; simpl; reflexivity.
Qed.

Lemma typed_action Δ p : proc_typed Δ p -> act_view Δ p (action_of Async D p).
Proof.
  intros [s [rs [Hne [Hprovs Hty]]]].
  destruct p as [provs body nx]. simpl in *.
  destruct provs as [|n [|n2 rest]]; [contradiction| |].
  - (* one provider *)
    inversion Hprovs as [|? ? [k0 [T0 [Hk0 [HT0 Hs]]]] _]; subst.
    inversion Hty; subst; rewrite ?delete_empty in *.
    + eapply act_SendP; eauto.
    + eapply act_SendC; eauto.
    + eapply act_RecvP; eauto.
    + eapply act_RecvC; eauto.
    + eapply act_SelP; eauto.
    + eapply act_SelC; eauto.
    + eapply act_CaseP; eauto.
    + eapply act_CaseC; eauto.
    + eapply act_New; eauto.
    + eapply act_Close; eauto.
    + eapply act_Wait; eauto.
    + eapply act_Fwd; eauto.
    + eapply act_Drop; eauto.
    + eapply act_Call; eauto.
    + eapply act_CastP; eauto.
    + eapply act_CastC; eauto.
    + eapply act_ShiftP; eauto.
    + eapply act_ShiftC; eauto.
    + eapply act_Split; eauto.
    + eapply act_Print; eauto.
  - (* several providers *)
    destruct (body_is_fwd body) eqn:Ef.
    + destruct body; try discriminate. inversion Hty; subst.
      inversion Hprovs as [|? ? [k0 [T0 [Hk0 [HT0 _]]]] _]; subst.
      eapply act_Fwd_gen; eauto.
    + rewrite (multi_action Δ n n2 rest nx s rs body Hprovs Hty Ef). apply AV_dup. intros self Hfree.
      eapply (dup_typed Δ self (Proc (n :: n2 :: rest) body nx) s rs); eauto. simpl. lia.
Qed.

(* ------------------------------------------------------------------ preservation and absence of errors, one step
   for the two polarized modes: Async (one-place buffers) and Sync (rendezvous) *)
(* the part of `Topo` that typing cannot give: nobody sends on or listens to a closed channel *)
Definition closed_unused (md : exec_mode) (c : config) : Prop :=
  forall self p k st, procs c !! self = Some p ->
    (action_of md D p = ARecv k \/ exists m, action_of md D p = ASend k m) ->
    chans c !! k = Some st -> ch_closed st = false.

Lemma action_of_polarized md p : is_np md = false -> action_of md D p = action_of Async D p.
Proof. intros H. unfold action_of. destruct (pr_body0 p); auto. rewrite H. reflexivity. Qed.

Lemma internal_effect_polarized md self p : is_np md = false ->
  internal_effect md F self p = internal_effect Async F self p.
Proof. intros H. unfold internal_effect. destruct (pr_body0 p); auto. rewrite H. reflexivity. Qed.

Lemma typed_action_md md Δ p : is_np md = false -> proc_typed Δ p -> act_view Δ p (action_of md D p).
Proof. intros H Hp. rewrite action_of_polarized by auto. apply typed_action; auto. Qed.

(* one step of one process: the possible outcomes under typing *)
Lemma ns_fresh_free Δ c self p : ns_fresh Δ c -> procs c !! self = Some p -> ns_free Δ self p.
Proof. intros Hf Ep j Hj. apply (Hf self p j [] Ep Hj). Qed.

Lemma step_run_typed md Δ c self :
  is_np md = false -> cfg_typed Δ c -> closed_unused md c ->
  step md D F c (Run self) = SNotEnabled \/
  exists c' Δ', step md D F c (Run self) = SStep c' /\ Δ ⊆ Δ' /\ cfg_typed Δ' c'.
Proof.
  intros Hnp Hc Hcl. pose proof Hc as [Hp Hm Hd Hf]. simpl.
  destruct (procs c !! self) as [p|] eqn:Ep; [|left; reflexivity].
  pose proof (typed_action_md md Δ p Hnp (Hp _ _ Ep)) as Hv.
  pose proof (ns_fresh_free Δ c self p Hf Ep) as Hfree.
  remember (action_of md D p) as a eqn:Ea. symmetry in Ea.
  destruct Hv as [k m Hmsg Hside|k Hk Hside Hrecv|Hint|Hdup].
  4: { (* duplicate *)
    destruct (Hdup self Hfree) as [e [Δ' [He Heff]]].
    right. rewrite He. simpl.
    exists (apply_effect c self p e), Δ'. split; auto.
    split; [destruct Heff as [Hsub _]; exact Hsub|].
    eapply apply_effect_typed; eauto. }
  2: { (* receive *)
    destruct (Hd k Hk) as [st Hst]. rewrite Hst.
    destruct (ch_buf st) as [m|] eqn:Eb.
    + destruct (Hrecv self m Hfree (Hm _ _ _ Hst Eb)) as [e [Δ' [He Heff]]].
      right. rewrite He. simpl. exists (apply_effect (put_msg c k st None) self p e), Δ'. split; auto.
      split; [destruct Heff as [Hsub _]; exact Hsub|].
      eapply apply_effect_typed; eauto. eapply put_none_typed; eauto.
    + rewrite (Hcl self p k st Ep (or_introl Ea) Hst). left. reflexivity. }
  2: { (* internal *)
    destruct (Hint self Hfree) as [e [Δ' [He Heff]]].
    right. rewrite internal_effect_polarized by auto. rewrite He. simpl.
    exists (apply_effect c self p e), Δ'. split; auto.
    split; [destruct Heff as [Hsub _]; exact Hsub|].
    eapply apply_effect_typed; eauto. }
  - (* send *)
    destruct Hmsg as [T [HT Hmsg']].
    destruct (Hd k) as [st Hst]; [eauto|]. rewrite Hst.
    rewrite (Hcl self p k st Ep (or_intror (ex_intro _ m Ea)) Hst).
    destruct md; try (left; reflexivity).
    destruct (ch_buf st) eqn:Eb; [left; reflexivity|].
    right. eexists. exists Δ. split; [reflexivity|]. split; [reflexivity|].
    eapply send_typed_cfg; eauto. exists T. auto.
Qed.

(* a sender and a receiver meet (synchronous mode) *)
Lemma step_rendezvous_typed md Δ c s r :
  is_np md = false -> cfg_typed Δ c ->
  step md D F c (Rendezvous s r) = SNotEnabled \/
  exists c' Δ', step md D F c (Rendezvous s r) = SStep c' /\ Δ ⊆ Δ' /\ cfg_typed Δ' c'.
Proof.
  intros Hnp Hc. pose proof Hc as [Hp Hm Hd Hf].
  destruct md; [left; reflexivity| |discriminate]. simpl.
  destruct (bool_decide (s = r)) eqn:Esr; [left; reflexivity|]. apply bool_decide_eq_false in Esr.
  destruct (procs c !! s) as [ps|] eqn:Eps; [|left; reflexivity].
  destruct (procs c !! r) as [pr|] eqn:Epr; [|left; reflexivity].
  pose proof (typed_action_md Sync Δ ps eq_refl (Hp _ _ Eps)) as Hvs.
  pose proof (typed_action_md Sync Δ pr eq_refl (Hp _ _ Epr)) as Hvr.
  destruct Hvs as [k m Hmsg _|k Hk _ _|_|_]; try (left; reflexivity).
  destruct Hvr as [k' m' _ _|k' Hk' _ Hrecv|_|_]; try (left; reflexivity).
  destruct (bool_decide (k = k')) eqn:Ek; [|left; reflexivity]. apply bool_decide_eq_true in Ek. subst k'.
  destruct (chans c !! k) as [st|]; [|left; reflexivity].
  destruct (ch_closed st); [left; reflexivity|].
  destruct (Hrecv r m (ns_fresh_free Δ c r pr Hf Epr) Hmsg) as [e [Δ' [He Heff]]].
  right. rewrite He. simpl. eexists. exists Δ'. split; [reflexivity|].
  split; [destruct Heff as [Hsub _]; exact Hsub|].
  eapply apply_effect_typed; eauto.
  - apply del_proc_typed. exact Hc.
  - unfold del_proc. simpl. rewrite lookup_delete_ne by auto. exact Epr.
Qed.

Lemma step_control_polarized md c f t : is_np md = false -> step md D F c (Control f t) = SNotEnabled.
Proof. intros H. simpl. rewrite H. reflexivity. Qed.

Theorem preservation_md md Δ c ch c' :
  is_np md = false -> cfg_typed Δ c -> closed_unused md c -> step md D F c ch = SStep c' ->
  exists Δ', Δ ⊆ Δ' /\ cfg_typed Δ' c'.
Proof.
  intros Hnp Hc Hcl Hs. destruct ch as [self|s r|f t].
  - destruct (step_run_typed md Δ c self Hnp Hc Hcl) as [H|[c2 [Δ' [H [H1 H2]]]]]; rewrite H in Hs.
    + discriminate.
    + injection Hs as <-. eauto.
  - destruct (step_rendezvous_typed md Δ c s r Hnp Hc) as [H|[c2 [Δ' [H [H1 H2]]]]]; rewrite H in Hs.
    + discriminate.
    + injection Hs as <-. eauto.
  - rewrite step_control_polarized in Hs by auto. discriminate.
Qed.

(* no run-time error of any kind: message kind / label / shape, call instantiation, unknown
   channels (typing), closed channels (`closed_unused`) *)
Theorem no_error_md md Δ c ch who e :
  is_np md = false -> cfg_typed Δ c -> closed_unused md c -> step md D F c ch <> SError who e.
Proof.
  intros Hnp Hc Hcl. destruct ch as [self|s r|f t].
  - destruct (step_run_typed md Δ c self Hnp Hc Hcl) as [H|[c2 [Δ' [H _]]]]; rewrite H; discriminate.
  - destruct (step_rendezvous_typed md Δ c s r Hnp Hc) as [H|[c2 [Δ' [H _]]]]; rewrite H; discriminate.
  - rewrite step_control_polarized by auto. discriminate.
Qed.

(* the asynchronous instances, as the property is usually quoted *)
Theorem preservation Δ c self c' :
  cfg_typed Δ c -> closed_unused Async c -> step Async D F c (Run self) = SStep c' ->
  exists Δ', Δ ⊆ Δ' /\ cfg_typed Δ' c'.
Proof. apply preservation_md. reflexivity. Qed.

Theorem no_error_async Δ c ch who e :
  cfg_typed Δ c -> closed_unused Async c -> step Async D F c ch <> SError who e.
Proof. apply no_error_md. reflexivity. Qed.

Theorem preservation_any Δ c ch c' :
  cfg_typed Δ c -> closed_unused Async c -> step Async D F c ch = SStep c' ->
  exists Δ', Δ ⊆ Δ' /\ cfg_typed Δ' c'.
Proof. apply preservation_md. reflexivity. Qed.

(* ------------------------------------------------------------------ whole runs *)
Inductive reachable (md : exec_mode) (c0 : config) : config -> Prop :=
| reach_refl : reachable md c0 c0
| reach_step c ch c' : reachable md c0 c -> step md D F c ch = SStep c' -> reachable md c0 c'.

Lemma exec_run_S fuel pick md c :
  exec_run (S fuel) pick md D F c =
  match enabled md D F c with
  | [] => RQuiescent c
  | e0 :: es =>
    let n := S (length es) in
    let ch := nth (pick (S fuel) n mod n) (e0 :: es) e0 in
    match step md D F c ch with
    | SStep c' => exec_run fuel pick md D F c'
    | SError who w => RError c who w
    | SNotEnabled => RQuiescent c
    end
  end.
Proof. reflexivity. Qed.

Theorem exec_run_safe md fuel pick : is_np md = false -> forall Δ c,
  cfg_typed Δ c -> (forall c', reachable md c c' -> closed_unused md c') ->
  forall c' who e, exec_run fuel pick md D F c <> RError c' who e.
Proof.
  intros Hnp. induction fuel as [|fuel IH]; intros Δ c Hc Hcl c' who e; [simpl; discriminate|].
  rewrite exec_run_S.
  destruct (enabled md D F c) as [|e0 es]; [discriminate|]. cbv zeta.
  set (ch := nth (pick (S fuel) (S (length es)) mod S (length es)) (e0 :: es) e0).
  destruct (step md D F c ch) as [|c2|who' e'] eqn:Es; [discriminate| |].
  - destruct (preservation_md md Δ c ch c2 Hnp Hc (Hcl c (reach_refl md c)) Es) as [Δ' [_ Hc2]].
    apply (IH Δ' c2 Hc2). intros c3 Hr. apply Hcl.
    clear -Hr Es. induction Hr; [eapply reach_step; [apply reach_refl|eauto] | eapply reach_step; eauto].
  - exfalso. eapply no_error_md; eauto. apply Hcl. apply reach_refl.
Qed.

End RtSafety.
