(* ForkJoin.v — an UNCONDITIONAL determinism theorem (C03) for a syntactic class: fork-join
   configurations.  Process bodies are built from `close self`, `wait c; k`, `x <- new b; k` with a
   CLOSED child b (no free names, no channels), `print l; k` and calls of parameterless functions;
   every process has one provider.  For this class the invariant needed by `determinism_partial`
   (Topo: distinct providers, every channel mentioned by at most one process; only close messages
   in buffers; nothing closed; everything mentioned exists) is proved to be preserved by every
   asynchronous step, to make any two enabled choices independent and to make errors stable —
   no typing, no hypothesis left. *)
From stdpp Require Import gmap strings sorting.
Require Import Grits.Base Grits.ModeDefs Grits.Modes Grits.STypes Grits.Forms Grits.Subst Grits.TcDeps Grits.Expand.
Require Import Grits.Runtime Grits.RuntimeFootprint Grits.proofs.RuntimeFacts Grits.proofs.Diamond Grits.proofs.Determinism Grits.proofs.AsyncSync.

Lemma nilb_nil {A} (l : list A) : nilb l = true -> l = [].
Proof. by destruct l. Qed.

(* ------------------------------------------------------------------ name_subst on the three kinds of names *)
Lemma varn_inv n : varn n = true -> is_self n = false /\ chan n = None /\ ident n ≠ "".
Proof.
  unfold varn, initialized. rewrite !andb_true_iff, !negb_true_iff. intros [[H1 H2] H3].
  split; [done|]. split; [by destruct (chan n)|]. by apply String.eqb_neq.
Qed.
Lemma chn_inv n : chn n = true -> is_self n = false /\ exists k, chan n = Some k.
Proof.
  unfold chn, initialized. rewrite andb_true_iff, negb_true_iff. intros [H1 H2].
  split; [done|]. destruct (chan n); [eauto|done].
Qed.
Lemma selfn_inv n : selfn n = true -> is_self n = true /\ chan n = None /\ ident n = "".
Proof.
  unfold selfn, initialized. rewrite !andb_true_iff, !negb_true_iff. intros [[H1 H2] H3].
  split; [done|]. split; [by destruct (chan n)|]. by apply String.eqb_eq.
Qed.

Lemma name_subst_selfn y c n : selfn n = true -> varn y = true -> name_subst y c n = n.
Proof.
  intros Hn Hy. apply selfn_inv in Hn as (_ & Hc & Hi). apply varn_inv in Hy as (_ & Hcy & Hiy).
  unfold name_subst, initialized. rewrite Hc, Hcy, Hi. cbn.
  destruct (ident y) eqn:E; [done|]. done.
Qed.
Lemma name_subst_chn y c n : chn n = true -> varn y = true -> name_subst y c n = n.
Proof.
  intros Hn Hy. apply chn_inv in Hn as (_ & k & Hc). apply varn_inv in Hy as (_ & Hcy & _).
  unfold name_subst, initialized. rewrite Hc, Hcy. done.
Qed.
Lemma name_subst_varn_ne y c n : varn n = true -> varn y = true -> ident n ≠ ident y -> name_subst y c n = n.
Proof.
  intros Hn Hy Hne. apply varn_inv in Hn as (_ & Hc & _). apply varn_inv in Hy as (_ & Hcy & _).
  unfold name_subst, initialized. rewrite Hc, Hcy. cbn. by rewrite (proj2 (String.eqb_neq _ _) Hne).
Qed.
Lemma name_subst_varn y c n : varn n = true -> varn y = true -> chn c = true ->
  name_subst y c n = n \/ (chn (name_subst y c n) = true /\ ncid (name_subst y c n) = ncid c).
Proof.
  intros Hn Hy Hc. destruct (String.eqb (ident n) (ident y)) eqn:E.
  - right. apply varn_inv in Hn as (_ & Hcn & _). apply varn_inv in Hy as (_ & Hcy & _).
    apply chn_inv in Hc as (Hsc & k & Hck).
    unfold name_subst, initialized. rewrite Hcn, Hcy. cbn. rewrite E. unfold chn, ncid, initialized. cbn. rewrite Hsc, Hck. done.
  - left. apply name_subst_varn_ne; [done|done|]. by apply String.eqb_neq.
Qed.

(* ------------------------------------------------------------------ substitution and the class *)
Lemma filter_notin (y x : string) (l : list string) :
  y ≠ x -> ~ In y (List.filter (fun z => negb (String.eqb z x)) l) -> ~ In y l.
Proof.
  intros Hne Hn Hin. apply Hn. apply filter_In. split; [done|]. by rewrite (proj2 (String.eqb_neq _ _) Hne).
Qed.

(* a variable that does not occur free is not substituted *)
Lemma subst_nofv y c f : varn y = true -> fj f = true -> ~ In (ident y) (fv f) -> subst y c f = f.
Proof.
  intros Hy. induction f; cbn [fj fv subst]; try discriminate.
  - (* FNew *) rewrite !andb_true_iff. intros [[[[Hx Hb] Hfb] Hcb] Hk] Hn.
    rewrite in_app_iff in Hn. rewrite IHf1 by tauto. f_equal.
    destruct (name_equal x y) eqn:E; cbn; [done|]. apply IHf2; [done|].
    assert (ident y ≠ ident x).
    { apply varn_inv in Hx as (_ & Hcx & _). pose proof (varn_inv _ Hy) as (_ & Hcy & _).
      unfold name_equal, initialized in E. rewrite Hcx, Hcy in E. cbn in E. rewrite andb_true_r in E.
      apply String.eqb_neq in E. congruence. }
    eapply filter_notin; [done|]. tauto.
  - (* FClose *) intros Hc _. by rewrite name_subst_selfn.
  - (* FWait *) rewrite andb_true_iff, orb_true_iff. intros [Hc Hk] Hn. rewrite in_app_iff in Hn.
    rewrite IHf by tauto. f_equal. destruct Hc as [Hc|Hc]; [|by apply name_subst_chn].
    apply name_subst_varn_ne; [done|done|]. pose proof (varn_inv _ Hc) as (_ & Hcc & _).
    unfold initialized in Hn. rewrite Hcc in Hn. cbn in Hn. intros E. apply Hn. left. left. done.
  - (* FCall *) intros Ha _. apply nilb_nil in Ha as ->. done.
  - (* FPrint *) intros Hk Hn. by rewrite IHf.
Qed.

(* substituting a channel for a variable stays in the class and adds at most that channel *)
Lemma subst_fj y c f : varn y = true -> chn c = true -> fj f = true ->
  fj (subst y c f) = true /\ (forall k, k ∈ fcids (subst y c f) -> k ∈ fcids f \/ k ∈ ncid c).
Proof.
  intros Hy Hc. induction f; cbn [fj fcids subst]; try discriminate.
  - (* FNew *) rewrite !andb_true_iff. intros [[[[Hx Hb] Hfb] Hcb] Hk].
    assert (Eb : subst y c f1 = f1).
    { apply subst_nofv; [done|done|]. apply nilb_nil in Hfb. rewrite Hfb. by intros []. }
    rewrite Eb. destruct (name_equal x y); cbn.
    + split; [by rewrite Hx, Hb, Hfb, Hcb, Hk|]. intros k Hin. by left.
    + destruct (IHf2 Hk) as [H1 H2]. split; [by rewrite Hx, Hb, Hfb, Hcb, H1|].
      intros k Hin. apply elem_of_app in Hin as [Hin|Hin]; [left; apply elem_of_app; by left|].
      destruct (H2 k Hin); [left; apply elem_of_app; by right|by right].
  - (* FClose *) intros Hs. rewrite name_subst_selfn by done. split; [done|]. intros k Hk. by left.
  - (* FWait *) rewrite andb_true_iff, orb_true_iff. intros [Hn Hk]. destruct (IHf Hk) as [H1 H2].
    assert (Hname : (varn (name_subst y c c0) || chn (name_subst y c c0) = true) /\
                    (forall k, k ∈ ncid (name_subst y c c0) -> k ∈ ncid c0 \/ k ∈ ncid c)).
    { destruct Hn as [Hn|Hn].
      - destruct (name_subst_varn y c c0 Hn Hy Hc) as [->|[Hch Hcid]].
        + split; [by rewrite Hn|]. intros k Hin. by left.
        + split; [by rewrite Hch, orb_true_r|]. intros k Hin. rewrite Hcid in Hin. by right.
      - rewrite name_subst_chn by done. split; [by rewrite Hn, orb_true_r|]. intros k Hin. by left. }
    destruct Hname as [Hn1 Hn2]. split; [by rewrite Hn1, H1|].
    intros k Hin. apply elem_of_app in Hin as [Hin|Hin].
    + destruct (Hn2 k Hin); [left; apply elem_of_app; by left|by right].
    + destruct (H2 k Hin); [left; apply elem_of_app; by right|by right].
  - (* FCall *) intros Ha. apply nilb_nil in Ha as ->. cbn. split; [done|]. intros k Hk. by left.
  - (* FPrint *) intros Hk. destruct (IHf Hk) as [H1 H2]. done.
Qed.

(* ------------------------------------------------------------------ the invariant *)
Definition fj_funs (F : list fundef) : Prop :=
  forall fn b, call_body F fn [] = Some b -> fj b = true /\ fcids b = [].

Definition chan_ok (st : chan_st) : Prop :=
  ch_closed st = false /\ (ch_buf st = None \/ exists m, ch_buf st = Some m /\ m_rule m = RCLS).

Record FJ (c : config) : Prop := {
  fj_ns : ns_ok c;
  fj_proc : forall p pp, procs c !! p = Some pp ->
      fj (pr_body0 pp) = true /\ exists pv k, pr_provs pp = [pv] /\ chan pv = Some k /\ is_Some (chans c !! k);
  fj_prov : forall p q pp qq k, procs c !! p = Some pp -> procs c !! q = Some qq ->
      self_chan pp = Some k -> self_chan qq = Some k -> p = q;
  fj_ment : forall p q pp qq k, procs c !! p = Some pp -> procs c !! q = Some qq ->
      k ∈ fcids (pr_body0 pp) -> k ∈ fcids (pr_body0 qq) -> p = q;
  fj_scoped : forall p pp k, procs c !! p = Some pp -> k ∈ fcids (pr_body0 pp) -> is_Some (chans c !! k);
  fj_chans : forall k st, chans c !! k = Some st -> chan_ok st
}.

Lemma self_chan_provs pp qq : pr_provs qq = pr_provs pp -> self_chan qq = self_chan pp.
Proof. unfold self_chan, prov0. by intros ->. Qed.

(* steps in which the acting process continues with a body that mentions no new channel (or ends),
   nobody is spawned, and channel cells only change content *)
Lemma FJ_shrink c c' p pp b' :
  FJ c -> ns_ok c' -> procs c !! p = Some pp -> fj b' = true ->
  (forall k, k ∈ fcids b' -> k ∈ fcids (pr_body0 pp)) ->
  (forall q qq, procs c' !! q = Some qq ->
     (q = p /\ pr_body0 qq = b' /\ pr_provs qq = pr_provs pp) \/ (q ≠ p /\ procs c !! q = Some qq)) ->
  (forall k, is_Some (chans c !! k) -> is_Some (chans c' !! k)) ->
  (forall k st, chans c' !! k = Some st -> chan_ok st) ->
  FJ c'.
Proof.
  intros HFJ Hns Hp Hb' Hsub Hpre Hmono Hch.
  (* every process of c' has a pre-image in c with the same identifier and providers and at least its mentions *)
  assert (Hpre' : forall q qq, procs c' !! q = Some qq ->
            exists qq0, procs c !! q = Some qq0 /\ pr_provs qq = pr_provs qq0 /\ fj (pr_body0 qq) = true /\
                        forall k, k ∈ fcids (pr_body0 qq) -> k ∈ fcids (pr_body0 qq0)).
  { intros q qq Hq. destruct (Hpre q qq Hq) as [(-> & Hb & Hpv)|(Hne & Hq0)].
    - exists pp. rewrite Hb. done.
    - exists qq. split; [done|]. split; [done|]. split; [|done]. by destruct (fj_proc c HFJ q qq Hq0). }
  split; [done| | | | |done].
  - intros q qq Hq. destruct (Hpre' q qq Hq) as (qq0 & Hq0 & Hpv & Hfj & _). split; [done|].
    destruct (fj_proc c HFJ q qq0 Hq0) as [_ (pv & k & Hpv0 & Hk & Hex)]. exists pv, k. rewrite Hpv. auto.
  - intros q1 q2 qq1 qq2 k H1 H2 Hk1 Hk2.
    destruct (Hpre' q1 qq1 H1) as (a1 & Ha1 & Hpv1 & _). destruct (Hpre' q2 qq2 H2) as (a2 & Ha2 & Hpv2 & _).
    rewrite (self_chan_provs _ _ Hpv1) in Hk1. rewrite (self_chan_provs _ _ Hpv2) in Hk2.
    exact (fj_prov c HFJ q1 q2 a1 a2 k Ha1 Ha2 Hk1 Hk2).
  - intros q1 q2 qq1 qq2 k H1 H2 Hk1 Hk2.
    destruct (Hpre' q1 qq1 H1) as (a1 & Ha1 & _ & _ & Hm1). destruct (Hpre' q2 qq2 H2) as (a2 & Ha2 & _ & _ & Hm2).
    exact (fj_ment c HFJ q1 q2 a1 a2 k Ha1 Ha2 (Hm1 k Hk1) (Hm2 k Hk2)).
  - intros q qq k Hq Hk. destruct (Hpre' q qq Hq) as (a & Ha & _ & _ & Hm).
    apply Hmono. exact (fj_scoped c HFJ q a k Ha (Hm k Hk)).
Qed.

Lemma chan_ok_empty : chan_ok empty_chan.
Proof. split; [done|by left]. Qed.

(* ------------------------------------------------------------------ preservation *)
Lemma fresh_ne {A} (m : gmap cid A) a b : m !! a = None -> is_Some (m !! b) -> a ≠ b.
Proof. intros H1 [x H2] ->. congruence. Qed.

Lemma multi_single pp pv : pr_provs pp = [pv] -> multi pp = false.
Proof. unfold multi. by intros ->. Qed.

Lemma apply_continue c p pp pp' o :
  apply_effect c p pp (Eff (Continue pp') [] [] [] o) =
  Cfg (<[p := Proc (pr_provs pp') (pr_body0 pp') (pr_next pp' + 0)]> (procs c)) (chans c)
      (map (fun l => (p, l)) (rev o) ++ out c).
Proof. reflexivity. Qed.

Theorem FJ_step D F c ch c' : fj_funs F -> FJ c -> step Async D F c ch = SStep c' -> FJ c'.
Proof.
  intros HF HFJ Hstep. pose proof (ns_ok_step _ _ _ _ _ _ (fj_ns c HFJ) Hstep) as Hns'.
  destruct ch as [p|s r|f t]; [|by cbn in Hstep|by cbn in Hstep]. cbn [step] in Hstep.
  destruct (procs c !! p) as [pp|] eqn:Hp; [|done].
  destruct (fj_proc c HFJ p pp Hp) as [Hfj (pv & kp & Hpv & Hkp & Hexp)].
  pose proof (multi_single _ _ Hpv) as Hmulti.
  assert (Hself : self_chan pp = Some kp) by (unfold self_chan, prov0; by rewrite Hpv).
  unfold action_of in Hstep. destruct pp as [provs body nx]. cbn [pr_body0 pr_provs] in *. subst provs.
  destruct body; cbn [fj] in Hfj; try discriminate.
  - (* FNew *)
    rewrite !andb_true_iff in Hfj. destruct Hfj as [[[[Hx Hb] Hfb] Hcb] Hfk].
    apply nilb_nil in Hcb.
    unfold internal in Hstep. rewrite Hmulti in Hstep. cbn [eff_step internal_effect pr_body0 fresh_chan pr_next pr_provs] in Hstep.
    injection Hstep as <-.
    set (kn := p ++ [nx]) in *. set (cn := mkName (ident x) false (pol x) (nty x) (Some kn)) in *.
    set (child := p ++ [(S nx + 1)%nat]) in *.
    match type of Hns' with ns_ok ?X =>
      assert (Ecfg : X = Cfg (<[p := Proc [pv] (subst x cn body2) (S nx + 1 + 1)]>
                                (<[child := mk_spawned (Spawn [cn] body1)]> (procs c)))
                             (<[kn := empty_chan]> (chans c)) (out c)) end.
    { rewrite apply_effect_eq. cbn [e_close e_newch e_spawn e_after e_out cids_of flat_map chan app close_all new_all foldr].
      unfold procs_after, eff_next1, eff_next0, eff_base. cbn [e_after e_newch e_spawn length pr_next set_body pr_provs pr_body0].
      rewrite spawned_cons. unfold spawned. cbn [add_spawns fst]. rewrite (left_id_L ∅ (∪)).
      rewrite <- insert_union_singleton_l. reflexivity. }
    rewrite Ecfg in Hns' |- *. clear Ecfg.
    assert (Hcn : chn cn = true) by done.
    destruct (subst_fj x cn body2 Hx Hcn Hfk) as [Hfj' Hment'].
    assert (Hkn_new : chans c !! kn = None).
    { destruct (chans c !! kn) eqn:E; [|done]. exfalso.
      eapply (ns_ok_not_fresh_cid c p _ kn nx (fj_ns c HFJ) Hp); [by eexists|cbn; lia|done]. }
    assert (Hchild_new : procs c !! child = None).
    { destruct (procs c !! child) eqn:E; [|done]. exfalso.
      eapply (ns_ok_not_fresh_pid c p _ child (S nx + 1) (fj_ns c HFJ) Hp); [by eexists|cbn; lia|done]. }
    assert (Hpc : p ≠ child).
    { intros E. apply (f_equal length) in E. unfold child in E. rewrite app_length in E. cbn in E. lia. }
    split; [exact Hns'| | | | |]; cbn [procs chans].
    + intros q qq Hq. apply lookup_insert_Some in Hq as [[<- <-]|[Hne Hq]]; cbn [pr_body0 pr_provs].
      * split; [done|]. exists pv, kp. split; [done|]. split; [done|].
        rewrite lookup_insert_ne by (eapply fresh_ne; eauto). done.
      * apply lookup_insert_Some in Hq as [[<- <-]|[Hne' Hq]]; cbn [pr_body0 pr_provs mk_spawned sp_provs sp_body].
        -- split; [done|]. exists cn, kn. split; [done|]. split; [done|]. rewrite lookup_insert. by eexists.
        -- destruct (fj_proc c HFJ q qq Hq) as [H1 (pv' & k' & H2 & H3 & H4)]. split; [done|].
           exists pv', k'. split; [done|]. split; [done|].
           rewrite lookup_insert_ne by (eapply fresh_ne; eauto). done.
    + (* distinct providers *)
      assert (Hold : forall q qq k, procs c !! q = Some qq -> self_chan qq = Some k -> k ≠ kn).
      { intros q qq k Hq Hk. destruct (fj_proc c HFJ q qq Hq) as [_ (pv' & k' & H2 & H3 & H4)].
        unfold self_chan, prov0 in Hk. rewrite H2 in Hk. cbn in Hk. rewrite H3 in Hk. injection Hk as ->.
        apply not_eq_sym. eapply fresh_ne; eauto. }
      assert (Hcases : forall q qq k, (<[p := Proc [pv] (subst x cn body2) (S nx + 1 + 1)]> (<[child := mk_spawned (Spawn [cn] body1)]> (procs c))) !! q = Some qq ->
                self_chan qq = Some k -> (q = child /\ k = kn) \/ (q ≠ child /\ k ≠ kn /\ exists qq0, procs c !! q = Some qq0 /\ self_chan qq0 = Some k)).
      { intros q qq k Hq Hk. apply lookup_insert_Some in Hq as [[<- <-]|[Hne Hq]].
        - right. split; [done|]. split; [eapply Hold; eauto|]. exists (Proc [pv] (FNew x body1 body2) nx). done.
        - apply lookup_insert_Some in Hq as [[<- <-]|[Hne' Hq]].
          + left. split; [done|]. cbn in Hk. by injection Hk.
          + right. split; [done|]. split; [eapply Hold; eauto|]. eauto. }
      intros q1 q2 qq1 qq2 k H1 H2 Hk1 Hk2.
      destruct (Hcases _ _ _ H1 Hk1) as [[-> ->]|(Hn1 & Hk1' & a1 & Ha1 & Hs1)],
               (Hcases _ _ _ H2 Hk2) as [[-> E2]|(Hn2 & Hk2' & a2 & Ha2 & Hs2)]; try done.
      exact (fj_prov c HFJ q1 q2 a1 a2 k Ha1 Ha2 Hs1 Hs2).
    + (* every channel mentioned by at most one process *)
      assert (Hcases : forall q qq k, (<[p := Proc [pv] (subst x cn body2) (S nx + 1 + 1)]> (<[child := mk_spawned (Spawn [cn] body1)]> (procs c))) !! q = Some qq ->
                k ∈ fcids (pr_body0 qq) -> q ≠ child /\ ((q = p /\ k = kn) \/ (k ≠ kn /\ exists qq0, procs c !! q = Some qq0 /\ k ∈ fcids (pr_body0 qq0)))).
      { intros q qq k Hq Hk. apply lookup_insert_Some in Hq as [[<- <-]|[Hne Hq]].
        - split; [done|]. cbn [pr_body0] in Hk. destruct (Hment' k Hk) as [Hk'|Hk'].
          + right. split.
            * apply not_eq_sym. eapply fresh_ne; [exact Hkn_new|]. apply (fj_scoped c HFJ p _ k Hp).
              cbn [pr_body0 fcids]. by rewrite Hcb.
            * exists (Proc [pv] (FNew x body1 body2) nx). split; [done|]. cbn [pr_body0 fcids]. by rewrite Hcb.
          + left. split; [done|]. cbn in Hk'. by apply elem_of_list_singleton in Hk'.
        - apply lookup_insert_Some in Hq as [[<- <-]|[Hne' Hq]].
          + cbn [pr_body0 mk_spawned sp_body] in Hk. rewrite Hcb in Hk. by apply elem_of_nil in Hk.
          + split; [done|]. right. split; [|eauto].
            apply not_eq_sym. eapply fresh_ne; [exact Hkn_new|]. exact (fj_scoped c HFJ q qq k Hq Hk). }
      intros q1 q2 qq1 qq2 k H1 H2 Hk1 Hk2.
      destruct (Hcases _ _ _ H1 Hk1) as [Hn1 [[-> ->]|(Hk1' & a1 & Ha1 & Hm1)]],
               (Hcases _ _ _ H2 Hk2) as [Hn2 [[-> E2]|(Hk2' & a2 & Ha2 & Hm2)]]; try done.
      exact (fj_ment c HFJ q1 q2 a1 a2 k Ha1 Ha2 Hm1 Hm2).
    + (* scoped *)
      intros q qq k Hq Hk. destruct (decide (k = kn)) as [->|Hne]; [rewrite lookup_insert; by eexists|].
      rewrite lookup_insert_ne by done.
      apply lookup_insert_Some in Hq as [[<- <-]|[Hne1 Hq]].
      * cbn [pr_body0] in Hk. destruct (Hment' k Hk) as [Hk'|Hk'].
        -- apply (fj_scoped c HFJ p _ k Hp). cbn [pr_body0 fcids]. by rewrite Hcb.
        -- cbn in Hk'. by apply elem_of_list_singleton in Hk'.
      * apply lookup_insert_Some in Hq as [[<- <-]|[Hne' Hq]].
        -- cbn [pr_body0 mk_spawned sp_body] in Hk. rewrite Hcb in Hk. by apply elem_of_nil in Hk.
        -- exact (fj_scoped c HFJ q qq k Hq Hk).
    + intros k st Hk. apply lookup_insert_Some in Hk as [[_ <-]|[_ Hk]]; [apply chan_ok_empty|].
      exact (fj_chans c HFJ k st Hk).
  - (* FClose: send CLS on self *)
    pose proof (selfn_inv _ Hfj) as (Hs & _ & _). rewrite Hs in Hstep. unfold send_on in Hstep. rewrite Hmulti, Hself in Hstep.
    destruct (chans c !! kp) as [[buf cl]|] eqn:Ek; [|done]. cbn [ch_closed ch_buf] in Hstep.
    destruct cl; [done|]. destruct buf; [done|]. injection Hstep as <-.
    eapply (FJ_shrink c _ p _ (FClose c0) HFJ Hns' Hp); cbn [procs chans del_proc put_msg pr_body0].
    + exact Hfj.
    + done.
    + intros q qq Hq. apply lookup_delete_Some in Hq as [Hne Hq]. right. done.
    + intros k Hk. destruct (decide (k = kp)) as [->|Hne]; [rewrite lookup_insert; by eexists|by rewrite lookup_insert_ne].
    + intros k st Hk. apply lookup_insert_Some in Hk as [[_ <-]|[_ Hk]]; [|exact (fj_chans c HFJ k st Hk)].
      split; [done|]. right. eexists. split; [done|done].
  - (* FWait: receive CLS *)
    rewrite andb_true_iff, orb_true_iff in Hfj. destruct Hfj as [Hc0 Hfk].
    assert (Hs : is_self c0 = false).
    { destruct Hc0 as [H|H]; [by apply varn_inv in H as (? & _)|by apply chn_inv in H as (? & _)]. }
    rewrite Hs in Hstep. unfold recv_on in Hstep. destruct (chan c0) as [k|] eqn:Ec0; [|done].
    rewrite Hmulti in Hstep.
    destruct (chans c !! k) as [[buf cl]|] eqn:Ek; [|done]. cbn [ch_buf ch_closed] in Hstep.
    destruct (fj_chans c HFJ k _ Ek) as [Hcl Hbuf]. cbn in Hcl, Hbuf. subst cl.
    destruct Hbuf as [->|(m & -> & Hm)]; [done|].
    unfold on_message in Hstep. cbn [pr_body0] in Hstep. rewrite Hm in Hstep. cbn [rule_eqb andb] in Hstep.
    unfold no_eff, eff_step in Hstep. rewrite apply_continue in Hstep. injection Hstep as <-.
    eapply (FJ_shrink c _ p _ body HFJ Hns' Hp); cbn [procs chans put_msg pr_body0 pr_provs set_body].
    + done.
    + intros k' Hk'. cbn [fcids]. apply elem_of_app. by right.
    + intros q qq Hq. apply lookup_insert_Some in Hq as [[<- <-]|[Hne Hq]]; [left; done|right; done].
    + intros k' Hk'. destruct (decide (k' = k)) as [->|Hne]; [rewrite lookup_insert; by eexists|by rewrite lookup_insert_ne].
    + intros k' st Hk'. apply lookup_insert_Some in Hk' as [[_ <-]|[_ Hk']]; [|exact (fj_chans c HFJ k' st Hk')].
      split; [done|by left].
  - (* FCall of a parameterless function *)
    apply nilb_nil in Hfj as ->. unfold internal in Hstep. rewrite Hmulti in Hstep.
    cbn [internal_effect pr_body0] in Hstep. destruct (call_body F f []) as [b|] eqn:Eb; [|done].
    destruct (HF _ _ Eb) as [Hfb Hcb].
    unfold no_eff, eff_step in Hstep. rewrite apply_continue in Hstep. injection Hstep as <-.
    eapply (FJ_shrink c _ p _ b HFJ Hns' Hp); cbn [procs chans pr_body0 pr_provs set_body].
    + done.
    + intros k' Hk'. rewrite Hcb in Hk'. by apply elem_of_nil in Hk'.
    + intros q qq Hq. apply lookup_insert_Some in Hq as [[<- <-]|[Hne Hq]]; [left; done|right; done].
    + done.
    + exact (fj_chans c HFJ).
  - (* FPrint *)
    unfold internal in Hstep. rewrite Hmulti in Hstep. cbn [internal_effect pr_body0 eff_step] in Hstep.
    rewrite apply_continue in Hstep. injection Hstep as <-.
    eapply (FJ_shrink c _ p _ body HFJ Hns' Hp); cbn [procs chans pr_body0 pr_provs set_body].
    + done.
    + done.
    + intros q qq Hq. apply lookup_insert_Some in Hq as [[<- <-]|[Hne Hq]]; [left; done|right; done].
    + done.
    + exact (fj_chans c HFJ).
Qed.

(* ------------------------------------------------------------------ what a fork-join process does next *)
Lemma fj_action D pp pv kp :
  fj (pr_body0 pp) = true -> pr_provs pp = [pv] -> chan pv = Some kp ->
  match action_of Async D pp with
  | ASend k m => k = kp /\ m_rule m = RCLS
  | ARecv k => k ∈ fcids (pr_body0 pp) /\ exists c0 k0, pr_body0 pp = FWait c0 k0
  | AInternal | AErr _ => True
  | _ => False
  end.
Proof.
  intros Hfj Hpv Hkp. pose proof (multi_single _ _ Hpv) as Hmulti.
  assert (Hself : self_chan pp = Some kp) by (unfold self_chan, prov0; by rewrite Hpv).
  unfold action_of. destruct (pr_body0 pp); cbn [fj] in Hfj; try discriminate.
  - unfold internal. by rewrite Hmulti.
  - apply selfn_inv in Hfj as (Hs & _ & _). rewrite Hs. unfold send_on. rewrite Hmulti, Hself. done.
  - rewrite andb_true_iff, orb_true_iff in Hfj. destruct Hfj as [Hc0 _].
    assert (Hs : is_self c = false).
    { destruct Hc0 as [H|H]; [by apply varn_inv in H as (? & _)|by apply chn_inv in H as (? & _)]. }
    rewrite Hs. unfold recv_on. cbn [fcids]. unfold ncid. destruct (chan c) as [k|]; [|done].
    rewrite Hmulti. split; [|eauto]. apply elem_of_app. left. by apply elem_of_list_singleton.
  - unfold internal. by rewrite Hmulti.
  - unfold internal. by rewrite Hmulti.
Qed.

Lemma FJ_closes D c p : FJ c -> closes Async D c (Run p) = [].
Proof.
  intros HFJ. cbn [closes]. destruct (procs c !! p) as [pp|]; [|done].
  destruct (action_of Async D pp); try done.
  destruct (chans c !! c0) as [st|] eqn:Ek; [|done]. destruct (ch_buf st) as [m|] eqn:Eb; [|done].
  destruct (fj_chans c HFJ _ _ Ek) as [_ [Hn|(m' & Hm' & Hr)]]; [congruence|].
  rewrite Eb in Hm'. injection Hm' as <-. unfold closes_of. by rewrite Hr.
Qed.

(* Topo for the class gives the discipline of Diamond.v ... *)
Theorem FJ_discipline D c : FJ c -> async_discipline D c.
Proof.
  intros HFJ p q pp qq Hpq Hp Hq.
  destruct (fj_proc c HFJ p pp Hp) as [Hfp (pv & kp & Hpv & Hkp & _)].
  destruct (fj_proc c HFJ q qq Hq) as [Hfq (qv & kq & Hqv & Hkq & _)].
  pose proof (fj_action D pp pv kp Hfp Hpv Hkp) as Hap. pose proof (fj_action D qq qv kq Hfq Hqv Hkq) as Haq.
  assert (Hsp : self_chan pp = Some kp) by (unfold self_chan, prov0; by rewrite Hpv).
  assert (Hsq : self_chan qq = Some kq) by (unfold self_chan, prov0; by rewrite Hqv).
  split; [|split; [|split]].
  - intros k [[m1 E1] [m2 E2]]. rewrite E1 in Hap. rewrite E2 in Haq. destruct Hap as [-> _], Haq as [-> _].
    apply Hpq. exact (fj_prov c HFJ p q pp qq kq Hp Hq Hsp Hsq).
  - intros k [E1 E2]. unfold is_recv_on in E1, E2. rewrite E1 in Hap. rewrite E2 in Haq.
    apply Hpq. exact (fj_ment c HFJ p q pp qq k Hp Hq (proj1 Hap) (proj1 Haq)).
  - rewrite (FJ_closes D c p HFJ). intros x Hx. by apply elem_of_nil in Hx.
  - rewrite (FJ_closes D c p HFJ). intros x Hx. by apply elem_of_nil in Hx.
Qed.

(* ... and run-time errors of fork-join processes read no channel, hence are stable *)
Lemma FJ_error_reads D F c p w e :
  FJ c -> step Async D F c (Run p) = SError w e -> reads Async D c (Run p) = [] /\ is_Some (procs c !! p).
Proof.
  intros HFJ. cbn [step reads]. destruct (procs c !! p) as [pp|] eqn:Hp; [|done].
  destruct (fj_proc c HFJ p pp Hp) as [Hfp (pv & kp & Hpv & Hkp & Hex)].
  pose proof (fj_action D pp pv kp Hfp Hpv Hkp) as Hap.
  destruct (action_of Async D pp) as [| |k m|k| |k pvs|w']; try done.
  - destruct Hap as [-> Hm]. destruct Hex as [st Hst]. rewrite Hst.
    destruct (fj_chans c HFJ _ _ Hst) as [Hcl _]. rewrite Hcl. by destruct (ch_buf st).
  - destruct Hap as [Hment (c0 & k0 & Hbody)].
    destruct (fj_scoped c HFJ p pp k Hp Hment) as [st Hst]. rewrite Hst.
    destruct (fj_chans c HFJ _ _ Hst) as [Hcl [Hn|(m & Hm & Hr)]].
    + by rewrite Hn, Hcl.
    + rewrite Hm. unfold on_message. rewrite Hbody, Hr. done.
Qed.

Theorem FJ_error_stable D F c a b w e c' :
  FJ c -> step Async D F c a = SError w e -> step Async D F c b = SStep c' ->
  exists w' e', step Async D F c' a = SError w' e'.
Proof.
  intros HFJ Ha Hb. exists w, e. eapply error_stable; [apply (fj_ns c HFJ)| |exact Ha|exact Hb].
  destruct a as [p|s r|f t]; [|by cbn in Ha|by cbn in Ha]. destruct b as [q|s r|f t]; [|by cbn in Hb|by cbn in Hb].
  destruct (FJ_error_reads D F c p w e HFJ Ha) as [Hr Hex].
  split; [|split].
  - cbn. intros x Hx Hy. apply elem_of_list_singleton in Hx, Hy. subst. congruence.
  - intros x Hx. cbn in Hx. by apply elem_of_list_singleton in Hx as ->.
  - rewrite Hr. intros k Hk. by apply elem_of_nil in Hk.
Qed.

(* ------------------------------------------------------------------ the unconditional theorems *)
(* C03 for fork-join configurations, asynchronous mode: NO hypothesis besides membership in the
   class (FJ c: a structural property of the configuration; fj_funs F: of the function table). *)
Theorem forkjoin_determinism D F c pick1 pick2 f1 f2 t1 :
  fj_funs F -> FJ c -> exec_run f1 pick1 Async D F c = RQuiescent t1 -> (f1 <= f2)%nat ->
  exists t2, exec_run f2 pick2 Async D F c = RQuiescent t2 /\ cfg_equiv t2 t1 /\ labels t2 ≡ₚ labels t1.
Proof.
  intros HF HFJ. apply (determinism_partial Async D F FJ).
  - intros c0 ch c0' H0 Hs. eapply FJ_step; eauto.
  - intros c0 a b c1 c2 H0 Hab Ha Hb. eapply async_discipline_indep; eauto using FJ_discipline.
  - intros c0 a b w e c0' H0. apply FJ_error_stable; done.
  - done.
  - apply (fj_ns c HFJ).
Qed.

Theorem forkjoin_error_excludes_completion D F c pick1 pick2 f1 f2 t1 who e t2 :
  fj_funs F -> FJ c -> exec_run f1 pick1 Async D F c = RError t1 who e ->
  exec_run f2 pick2 Async D F c = RQuiescent t2 -> False.
Proof.
  intros HF HFJ. apply (error_excludes_completion Async D F FJ).
  - intros c0 ch c0' H0 Hs. eapply FJ_step; eauto.
  - intros c0 a b c1 c2 H0 Hab Ha Hb. eapply async_discipline_indep; eauto using FJ_discipline.
  - intros c0 a b w e0 c0' H0. apply FJ_error_stable; done.
  - done.
  - apply (fj_ns c HFJ).
Qed.

(* ... and the synchronous mode prints the same multiset *)
Theorem forkjoin_async_sync D F c pick1 f1 t1 :
  fj_funs F -> FJ c -> bufs_empty c -> exec_run f1 pick1 Sync D F c = RQuiescent t1 ->
  exists n, forall pick2 f2, (n < f2)%nat ->
    exists t2, exec_run f2 pick2 Async D F c = RQuiescent t2 /\ labels t2 ≡ₚ labels t1.
Proof.
  intros HF HFJ Hb. apply (async_sync_agree_partial D F FJ).
  - intros c0 ch c0' H0 Hs. eapply FJ_step; eauto.
  - intros c0 a b c1 c2 H0 Hab Ha Hb'. eapply async_discipline_indep; eauto using FJ_discipline.
  - intros c0 a b w e c0' H0. apply FJ_error_stable; done.
  - done.
  - apply (fj_ns c HFJ).
  - done.
Qed.

(* ------------------------------------------------------------------ membership in the class, decided *)
Lemma disj_b_true l1 l2 : disj_b l1 l2 = true -> forall x, x ∈ l1 -> x ∈ l2 -> False.
Proof.
  unfold disj_b. rewrite forallb_forall. intros H x H1 H2.
  specialize (H x (proj1 (elem_of_list_In _ _) H1)). apply negb_true_iff in H.
  assert (existsb (cid_eqb x) l2 = true); [|congruence].
  apply existsb_exists. exists x. split; [by apply elem_of_list_In|].
  unfold cid_eqb. by destruct (list_eq_dec Nat.eq_dec x x).
Qed.

Lemma cid_eqb_true (a b : list nat) : cid_eqb a b = true -> a = b.
Proof. unfold cid_eqb. by destruct (list_eq_dec Nat.eq_dec a b). Qed.

Lemma exists_b_true c k : exists_b c k = true -> is_Some (chans c !! k).
Proof. unfold exists_b. destruct (chans c !! k); [eauto|done]. Qed.

Theorem fj_cfg_b_sound c : ns_ok c -> fj_cfg_b c = true -> FJ c.
Proof.
  intros Hns. unfold fj_cfg_b. rewrite !andb_true_iff, !forallb_forall. intros [[Hp Hpair] Hch].
  assert (Hp' : forall p pp, procs c !! p = Some pp -> proc_ok_b c pp = true).
  { intros p pp H. apply (Hp (p, pp)). apply elem_of_list_In. by apply elem_of_map_to_list. }
  assert (Hpair' : forall p q pp qq, procs c !! p = Some pp -> procs c !! q = Some qq -> pair_ok_b (p, pp) (q, qq) = true).
  { intros p q pp qq H1 H2. specialize (Hpair (p, pp) (proj1 (elem_of_list_In _ _) (proj2 (elem_of_map_to_list _ _ _) H1))).
    rewrite forallb_forall in Hpair. apply Hpair. apply elem_of_list_In. by apply elem_of_map_to_list. }
  split; [done| | | | |].
  - intros p pp H. specialize (Hp' p pp H). unfold proc_ok_b in Hp'. rewrite !andb_true_iff in Hp'.
    destruct Hp' as [[H1 H2] _]. split; [done|].
    destruct (pr_provs pp) as [|pv [|]]; try done. destruct (chan pv) as [k|] eqn:Ek; [|done].
    exists pv, k. split; [done|]. split; [done|]. by apply exists_b_true.
  - intros p q pp qq k H1 H2 Hk1 Hk2. specialize (Hpair' p q pp qq H1 H2). unfold pair_ok_b in Hpair'. cbn in Hpair'.
    apply orb_true_iff in Hpair' as [E|E]; [by apply cid_eqb_true|].
    apply andb_true_iff in E as [E _]. rewrite Hk1, Hk2 in E. cbn in E. unfold cid_eqb in E.
    by destruct (list_eq_dec Nat.eq_dec k k).
  - intros p q pp qq k H1 H2 Hk1 Hk2. specialize (Hpair' p q pp qq H1 H2). unfold pair_ok_b in Hpair'. cbn in Hpair'.
    apply orb_true_iff in Hpair' as [E|E]; [by apply cid_eqb_true|].
    apply andb_true_iff in E as [_ E]. destruct (disj_b_true _ _ E k Hk1 Hk2).
  - intros p pp k H Hk. specialize (Hp' p pp H). unfold proc_ok_b in Hp'. rewrite !andb_true_iff in Hp'.
    destruct Hp' as [_ H3]. rewrite forallb_forall in H3. apply exists_b_true, H3. by apply elem_of_list_In.
  - intros k st H. specialize (Hch (k, st) (proj1 (elem_of_list_In _ _) (proj2 (elem_of_map_to_list _ _ _) H))).
    unfold chan_ok_b in Hch. cbn in Hch. apply andb_true_iff in Hch as [H1 H2]. apply negb_true_iff in H1.
    split; [done|]. destruct (ch_buf st) as [m|]; [|by left]. right. exists m. split; [done|].
    by destruct (m_rule m).
Qed.

Lemma get_function_in F fn n fd : get_function F fn n = Some fd ->
  In fd F /\ (length (fn_params fd) = n \/ S (length (fn_params fd)) = n).
Proof.
  induction F as [|d r IH]; cbn [get_function]; [done|].
  destruct (String.eqb (fn_name d) fn && _) eqn:E.
  - intros [= <-]. split; [by left|]. apply andb_true_iff in E as [_ E]. apply orb_true_iff in E as [E|E].
    + left. by apply Nat.eqb_eq.
    + right. by apply Nat.eqb_eq.
  - intros H. destruct (IH H). split; [by right|done].
Qed.

Theorem fj_funs_b_sound F : fj_funs_b F = true -> fj_funs F.
Proof.
  unfold fj_funs_b, fj_funs. rewrite forallb_forall. intros H fn b. unfold call_body. cbn [length].
  destruct (get_function F fn 0) as [fd|] eqn:E; [|done].
  apply get_function_in in E as [Hin [Hl|Hl]]; [|done].
  specialize (H fd Hin). destruct (fn_params fd) as [|? ?] eqn:Ep; [|done]. cbn in H.
  apply andb_true_iff in H as [H1 H2]. cbn [length Nat.eqb].
  destruct (fn_explicit fd); intros [= <-]; (split; [done|by apply nilb_nil]).
Qed.

(* for the initial configuration of a program the namespace hygiene comes for free *)
Corollary forkjoin_program_determinism (p : program) pick1 pick2 f1 f2 t1 :
  fj_funs_b (p_funs p) = true -> fj_cfg_b (init_config p) = true ->
  exec_run f1 pick1 Async (p_types p) (p_funs p) (init_config p) = RQuiescent t1 -> (f1 <= f2)%nat ->
  exists t2, exec_run f2 pick2 Async (p_types p) (p_funs p) (init_config p) = RQuiescent t2 /\
             cfg_equiv t2 t1 /\ labels t2 ≡ₚ labels t1.
Proof.
  intros HF Hc. apply forkjoin_determinism; [by apply fj_funs_b_sound|]. apply fj_cfg_b_sound; [apply ns_ok_init|done].
Qed.

Corollary forkjoin_program_async_sync (p : program) pick1 f1 t1 :
  fj_funs_b (p_funs p) = true -> fj_cfg_b (init_config p) = true ->
  exec_run f1 pick1 Sync (p_types p) (p_funs p) (init_config p) = RQuiescent t1 ->
  exists n, forall pick2 f2, (n < f2)%nat ->
    exists t2, exec_run f2 pick2 Async (p_types p) (p_funs p) (init_config p) = RQuiescent t2 /\ labels t2 ≡ₚ labels t1.
Proof.
  intros HF Hc. apply forkjoin_async_sync; [by apply fj_funs_b_sound| |apply bufs_empty_init].
  apply fj_cfg_b_sound; [apply ns_ok_init|done].
Qed.
