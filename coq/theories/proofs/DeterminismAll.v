(* DeterminismAll.v — `topo_runs` as a THEOREM for every accepted closed program (no restriction to the
   core fragment), in the two polarized modes, hence C03 for all of them:
     parse ok, accepted, closed, and a computable test on the SOURCE (no empty case; no droppable
     forward — the parser never produces one)  =>  every reachable configuration is a forest, every
     run that completes prints a permutation of what one run printed, Sync and Async agree.
   The invariant is InvAll.InvX (preserved by every asynchronous step: invx_step_async; a synchronous
   step is one or two asynchronous steps from empty buffers); it holds initially by InitAccept /
   InitForest (affinity from C05, the forest from C07) and the facts below. *)
From stdpp Require Import gmap strings sorting.
Require Import Grits.Base Grits.ModeDefs Grits.Modes Grits.STypes Grits.Forms Grits.Subst Grits.TcDeps Grits.Expand
               Grits.Tc Grits.TcTop Grits.spec.SynOk Grits.Runtime Grits.RuntimeFootprint
               Grits.spec.RtTyping Grits.spec.Topo Grits.proofs.RtSubst Grits.proofs.StepErrors Grits.proofs.RtSafety
               Grits.proofs.RtInit Grits.proofs.RtProgress Grits.proofs.RtTheorems Grits.proofs.RtStaticCheck
               Grits.proofs.RtTcSyn Grits.proofs.RtTcBisim Grits.proofs.ParseSynOk Grits.proofs.ParseRaw Grits.proofs.RtTheoremsTc.
Require Import Grits.proofs.RuntimeFacts Grits.proofs.Diamond Grits.proofs.Determinism Grits.proofs.AsyncSync
               Grits.proofs.DeterminismTyped Grits.proofs.TopoLin Grits.proofs.TopoStep Grits.proofs.TopoReach
               Grits.proofs.DeterminismTc Grits.proofs.TcShape Grits.proofs.TcShapeTop Grits.proofs.LinBridge
               Grits.proofs.InitForest Grits.proofs.InitAccept Grits.proofs.TopoFinish Grits.proofs.InvAll.

(* ------------------------------------------------------------------ the invariant along the runs *)
Section Reach.
Variable D : tenv.
Variable F : list fundef.
Variable teq : sty -> sty -> Prop.
Hypothesis Hteq : teq_laws D teq.
Hypothesis HF : funs_typed D F teq.
Hypothesis HFa : funs_aff F.
Hypothesis HFn : nofd_funs F.
Notation InvX := (InvX D F teq).

Theorem invx_step md c ch c' :
  is_np md = false -> InvX c -> (md = Sync -> bufs_empty c) -> step md D F c ch = SStep c' ->
  InvX c' /\ (md = Sync -> bufs_empty c').
Proof.
  intros Hnp HI Hb Hs. destruct md; [| |done].
  - split; [eapply (invx_step_async D F teq Hteq HF HFa HFn); eauto|discriminate].
  - specialize (Hb eq_refl). split; [|intros _; eapply sync_step_bufs_empty; eauto].
    destruct (sync_step_async D F c ch c' Hb Hs) as [(p & -> & H1)|(s & r & c1 & -> & H1 & H2)].
    + eapply (invx_step_async D F teq Hteq HF HFa HFn); eauto.
    + eapply (invx_step_async D F teq Hteq HF HFa HFn c1); eauto. eapply (invx_step_async D F teq Hteq HF HFa HFn c); eauto.
Qed.

Lemma invx_reachable md c0 c :
  is_np md = false -> InvX c0 -> (md = Sync -> bufs_empty c0) -> reachable D F md c0 c ->
  InvX c /\ (md = Sync -> bufs_empty c).
Proof.
  intros Hnp HI Hb Hr. induction Hr as [|c1 ch c2 Hr IH Hs]; [done|].
  destruct IH as [H1 H2]. eapply invx_step; eauto.
Qed.

Theorem topo_reachable_all md c0 c :
  is_np md = false -> InvX c0 -> (md = Sync -> bufs_empty c0) -> reachable D F md c0 c -> Topo c.
Proof. intros Hnp HI Hb Hr. destruct (invx_reachable md c0 c Hnp HI Hb Hr) as [H _]. apply H. Qed.
End Reach.

(* ------------------------------------------------------------------ the invariant holds initially *)
Lemma nofd_erase_mut :
  (forall f, nofd (erase_form f) = nofd f) /\ (forall b, nofd_brs (erase_brs b) = nofd_brs b).
Proof. apply form_branches_ind; simpl; intros; congruence. Qed.
Lemma nofd_erase_eq f g : erase_form f = erase_form g -> nofd f = nofd g.
Proof. intros E. rewrite <- (proj1 nofd_erase_mut f), E. apply nofd_erase_mut. Qed.

Lemma fold_sub_nofd l : forall b, nofd (fold_sub l b) = nofd b.
Proof.
  induction l as [|[[old new] ot] l IH]; intros b; [reflexivity|].
  change (fold_sub ((old, new, ot) :: l) b) with (fold_sub l (subst old new b)). by rewrite IH, nofd_subst.
Qed.
Lemma init_body_nofd q pr : nofd (init_body q pr) = nofd (pr_body pr).
Proof.
  unfold init_body. rewrite (init_pairs_tops q).
  change (fold_left _ (map _ (tops q)) (pr_body pr)) with (fold_sub (tops q) (pr_body pr)). apply fold_sub_nofd.
Qed.

Lemma cids_row i : forall provs j0,
  cids_of (map snd (row_from i j0 provs)) = map (fun j => [i; j]) (seq j0 (length provs)).
Proof. induction provs as [|n r IH]; intros j0; simpl; [reflexivity|]. f_equal. apply IH. Qed.

Definition nofd_src_b (p : program) : bool :=
  forallb (fun fd => nofd (fn_body fd)) (p_funs p) && forallb (fun pd => nofd (pr_body pd)) (p_procs p).
Definition all_src_b (p : program) : bool := nec_src_b p && nofd_src_b p.

Theorem init_invx p p' :
  typecheck p = Accept p' -> in_fragment p' -> prog_syn_ok p = true -> raw_ok p = true -> all_src_b p = true ->
  funs_aff (p_funs p') /\ nofd_funs (p_funs p') /\
  InvX (p_types p') (p_funs p') (teq_rt (p_types p')) (init_config p').
Proof.
  intros Ha Hf PS RS Hall. unfold all_src_b in Hall. apply andb_true_iff in Hall as [Hnec Hnofd].
  destruct (init_forest_accept p p' Ha Hf PS RS Hnec) as (HFa & Htopo & Hlin).
  pose proof (teq_rt_laws (p_types p')) as Hlaws.
  pose proof (tc_annotations_typed_rt p p' Ha PS RS Hf) as Hst.
  destruct (typecheck_erase p p' Ha) as (Sf & Sp & _).
  unfold nofd_src_b in Hnofd. apply andb_true_iff in Hnofd as [Hnf Hnp]. rewrite forallb_forall in Hnf, Hnp.
  assert (HFn : nofd_funs (p_funs p')).
  { unfold nofd_funs. rewrite Forall_forall. intros fd' Hfd'.
    destruct (TypingSoundTop.Forall2_In_r _ _ _ _ Sf Hfd') as (fd & Hfd & E). rewrite (nofd_erase_eq _ _ E). by apply Hnf. }
  assert (Hbodies : forall q pq, procs (init_config p') !! q = Some pq -> nofd (pr_body0 pq) = true /\
            exists i provs, pr_provs pq = map snd (init_provs i provs)).
  { intros q pq Hq. apply RtInit.init_config_procs in Hq. destruct Hq as (i & pr' & Hi & _ & ->). cbn. split; [|eauto].
    rewrite init_body_nofd. destruct (Forall2_lookup_both _ _ _ _ _ Sp Hi) as (pd & Hpd & E & _).
    rewrite (nofd_erase_eq _ _ E). apply Hnp. apply elem_of_list_In. eapply elem_of_list_lookup_2; eauto. }
  split; [exact HFa|]. split; [exact HFn|]. split.
  - exists (init_delta p'). by apply initial_typed.
  - exact Htopo.
  - exact Hlin.
  - apply ns_ok_init.
  - split.
    + intros q pq Hq. destruct (Hbodies q pq Hq) as [_ (i & provs & ->)]. rewrite init_provs_row, cids_row.
      apply FinFun.Injective_map_NoDup; [|apply seq_NoDup]. by intros a b [= ->].
    + intros k st m Hk Hb. pose proof (bufs_empty_init p' k st Hk). congruence.
  - intros q pq Hq Hdf. destruct (Hbodies q pq Hq) as [Hn _]. rewrite (nofd_not_dfwd _ Hn) in Hdf. discriminate.
  - intros q pq Hq. destruct (Hbodies q pq Hq) as [Hn _]. unfold nofd_top. by rewrite Hn, orb_true_r.
Qed.

(* ------------------------------------------------------------------ Topo along the runs of every accepted closed program *)
Theorem topo_runs_all_tc p p' :
  typecheck p = Accept p' -> in_fragment p' -> prog_syn_ok p = true -> raw_ok p = true -> all_src_b p = true ->
  topo_runs p'.
Proof.
  intros Ha Hf PS RS Hall md c Hnp Hr.
  destruct (init_invx p p' Ha Hf PS RS Hall) as (HFa & HFn & HI).
  pose proof (tc_annotations_typed_rt p p' Ha PS RS Hf) as Hst.
  eapply (topo_reachable_all (p_types p') (p_funs p') (teq_rt (p_types p')) (teq_rt_laws _) (proj1 Hst) HFa HFn md (init_config p')); eauto.
  intros _. apply bufs_empty_init.
Qed.

Theorem topo_runs_all txt p p' :
  parse_string txt = POk p -> typecheck p = Accept p' -> in_fragment p' -> all_src_b p = true -> topo_runs p'.
Proof. intros Hp Ha Hf Hall. exact (topo_runs_all_tc p p' Ha Hf (parse_syn_ok _ _ Hp) (parse_raw_ok _ _ Hp) Hall). Qed.

(* C03 for every parsed, accepted, closed program whose source passes all_src_b: both polarized modes *)
Theorem determinism_all txt p p' md pick1 pick2 f1 f2 t1 :
  parse_string txt = POk p -> typecheck p = Accept p' -> in_fragment p' -> all_src_b p = true -> is_np md = false ->
  exec_run f1 pick1 md (p_types p') (p_funs p') (init_config p') = RQuiescent t1 -> (f1 <= f2)%nat ->
  exists t2, exec_run f2 pick2 md (p_types p') (p_funs p') (init_config p') = RQuiescent t2 /\
             cfg_equiv t2 t1 /\ labels t2 ≡ₚ labels t1.
Proof.
  intros Hp Ha Hf Hall. exact (determinism_parsed txt p p' md pick1 pick2 f1 f2 t1 Hp Ha Hf (topo_runs_all txt p p' Hp Ha Hf Hall)).
Qed.

Theorem async_sync_agree_all txt p p' pick1 f1 t1 :
  parse_string txt = POk p -> typecheck p = Accept p' -> in_fragment p' -> all_src_b p = true ->
  exec_run f1 pick1 Sync (p_types p') (p_funs p') (init_config p') = RQuiescent t1 ->
  exists n, forall pick2 f2, (n < f2)%nat ->
    exists t2, exec_run f2 pick2 Async (p_types p') (p_funs p') (init_config p') = RQuiescent t2 /\ labels t2 ≡ₚ labels t1.
Proof.
  intros Hp Ha Hf Hall.
  exact (async_sync_agree_tc p p' pick1 f1 t1 Ha Hf (parse_syn_ok _ _ Hp) (parse_raw_ok _ _ Hp) (topo_runs_all txt p p' Hp Ha Hf Hall)).
Qed.

(* the premises, decided on a program text *)
Definition all_accept_text (txt : string) : bool :=
  match parse_string txt with
  | POk p => match typecheck p with
             | Accept p' => in_fragment_b p' && all_src_b p
             | _ => false
             end
  | _ => false
  end.

Theorem all_accept_sound txt : all_accept_text txt = true ->
  exists p p', parse_string txt = POk p /\ typecheck p = Accept p' /\ topo_runs p' /\
  forall md pick1 pick2 f1 f2 t1, is_np md = false ->
    exec_run f1 pick1 md (p_types p') (p_funs p') (init_config p') = RQuiescent t1 -> (f1 <= f2)%nat ->
    exists t2, exec_run f2 pick2 md (p_types p') (p_funs p') (init_config p') = RQuiescent t2 /\
               cfg_equiv t2 t1 /\ labels t2 ≡ₚ labels t1.
Proof.
  unfold all_accept_text. destruct (parse_string txt) as [p| | |] eqn:Ep; try discriminate.
  destruct (typecheck p) as [p'| | |] eqn:Et; try discriminate.
  rewrite !andb_true_iff. intros [Hf Hall]. apply in_fragment_b_sound in Hf.
  exists p, p'. split; [done|]. split; [done|]. split; [eapply topo_runs_all; eauto|].
  intros md pick1 pick2 f1 f2 t1 Hnp. eapply determinism_all; eauto.
Qed.

(* ------------------------------------------------------------------ non-vacuity, outside the core fragment *)
(* a9's split example (contraction: the forward, the FWD request, DUP) and a drop example (weakening:
   the droppable forward, the GC request) pass the source test; a9's core example does too *)
Definition example_drop_text : string :=
"prc[a] : rep 1 = print made; close self
prc[b] : rep 1 = drop a; print done; close self".

Example example_all_accept :
  all_accept_text example_split_text = true /\ all_accept_text example_drop_text = true /\ all_accept_text example_text = true.
Proof. vm_compute. auto. Qed.

(* nothing assumed: the split example prints a permutation of {made, done} under EVERY schedule *)
Example example_split_every_schedule :
  exists p p', parse_string example_split_text = POk p /\ typecheck p = Accept p' /\
  forall pick f, (300 <= f)%nat ->
    exists t, exec_run f pick Async (p_types p') (p_funs p') (init_config p') = RQuiescent t /\
              labels t ≡ₚ ["made"; "done"].
Proof.
  destruct (all_accept_sound example_split_text (proj1 example_all_accept)) as (p & p' & Hp & Ht & _ & Hdet).
  exists p, p'. split; [done|]. split; [done|]. intros pick f Hf.
  destruct (exec_run 300 (fun _ _ => 0%nat) Async (p_types p') (p_funs p') (init_config p')) as [t1| |] eqn:Er.
  - destruct (Hdet Async (fun _ _ => 0%nat) pick 300%nat f t1 eq_refl Er Hf) as (t2 & H2 & _ & Hl).
    exists t2. split; [done|]. rewrite Hl. clear Hdet H2 Hl t2.
    vm_compute in Hp. injection Hp as <-. vm_compute in Ht. injection Ht as <-.
    vm_compute in Er. injection Er as <-. vm_compute. reflexivity.
  - exfalso. clear Hdet. vm_compute in Hp. injection Hp as <-. vm_compute in Ht. injection Ht as <-.
    vm_compute in Er. discriminate.
  - exfalso. clear Hdet. vm_compute in Hp. injection Hp as <-. vm_compute in Ht. injection Ht as <-.
    vm_compute in Er. discriminate.
Qed.
