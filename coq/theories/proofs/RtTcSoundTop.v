(* RtTcSoundTop.v — `tc_annotations_typed` at the level of programs: the program the typechecker model
   returns is `static_typed` (proofs/RtInit.v) — every function body and every process body it has
   annotated is typed in the run-time judgement of spec/RtTyping.v — for every type agreement `teq`
   that contains the answers of EqualType on good types, is an equivalence, and relates a good type
   to its unfolding.  Premises on the SOURCE program: prog_syn_ok (spec/SynOk.v, the premise of C07's
   bisimilarity instance) and raw_ok (proofs/RtTcSyn.v, names as the parser + expansion leave
   them); both are THEOREMS for parsed programs (proofs/ParseSynOk.v, proofs/ParseRaw.v).
   What the judgement needs beyond raw_ok is derived from acceptance: parameters are not the keyword
   self and the explicit provider is not a parameter (such a context entry could not be consumed:
   RtTcSound.stuck_all), no provider name of a process is the keyword self (guard providers_not_self, F31). *)
From stdpp Require Import gmap strings.
Require Import Grits.Base Grits.ModeDefs Grits.Modes Grits.STypes Grits.Forms Grits.Subst Grits.Infer
               Grits.TcDeps Grits.Expand Grits.Tc Grits.TcTop Grits.EqualWF Grits.spec.SynOk Grits.spec.Typing
               Grits.proofs.TcLemmas Grits.proofs.TcUnfold Grits.proofs.TypingSound Grits.proofs.TypingSoundTop
               Grits.proofs.TeqMono
               Grits.Runtime Grits.spec.RtTyping Grits.proofs.RtSubst Grits.proofs.RtSafety Grits.proofs.RtInit
               Grits.proofs.RtTcSyn Grits.proofs.RtTcSound.

(* ------------------------------------------------------------------ the structural context of a linear one *)
Fixpoint ctx_map (g : ctx) : gmap string sty :=
  match g with
  | [] => ∅
  | (k, Some t) :: r => <[k := t]> (ctx_map r)
  | (k, None) :: r => delete k (ctx_map r)
  end.

Lemma ctx_map_lookup g x t : ctx_map g !! x = Some t <-> alookup x g = Some (Some t).
Proof.
  induction g as [|[k v] r IH]; simpl.
  - rewrite lookup_empty. split; discriminate.
  - destruct (String.eqb x k) eqn:E.
    + apply String.eqb_eq in E. subst k. destruct v as [t0|].
      * rewrite lookup_insert. split; intros H; congruence.
      * rewrite lookup_delete. split; discriminate.
    + apply String.eqb_neq in E. destruct v as [t0|].
      * rewrite lookup_insert_ne by auto. exact IH.
      * rewrite lookup_delete_ne by auto. exact IH.
Qed.

Lemma alookup_fold_aset {A V} (f : A -> string) (v : A -> V) l : forall acc x w,
  alookup x (fold_left (fun m a => aset (f a) (v a) m) l acc) = Some w ->
  (exists a, In a l /\ f a = x /\ v a = w) \/ alookup x acc = Some w.
Proof.
  induction l as [|a r IH]; intros acc x w H; simpl in H; [auto|].
  destruct (IH _ _ _ H) as [[a' [H1 H2]]|H1]; [left; exists a'; simpl; tauto|].
  rewrite alookup_aset in H1. destruct (String.eqb x (f a)) eqn:E; [|auto].
  apply String.eqb_eq in E. injection H1 as <-. left. exists a. simpl. auto.
Qed.

Lemma params_ctx_lookup ps p t : NoDup (map ident ps) -> Forall (fun q => is_Some (nty q)) ps ->
  In p ps -> nty p = Some t -> params_ctx ps !! ident p = Some t.
Proof.
  induction ps as [|q r IH]; intros ND FS Hin Np; [destruct Hin|].
  simpl in ND. apply NoDup_cons_iff in ND. destruct ND as [Hn ND'].
  inversion FS as [|? ? [tq Nq] FS']; subst.
  rewrite (params_ctx_cons _ _ _ Nq). destruct Hin as [->|Hin].
  - rewrite lookup_insert. congruence.
  - rewrite lookup_insert_ne; [apply IH; auto|]. intros E. apply Hn. rewrite E. apply in_map. exact Hin.
Qed.

Lemma Forall2_In_l {A B} (R : A -> B -> Prop) l1 l2 x : Forall2 R l1 l2 -> In x l1 -> exists y, In y l2 /\ R x y.
Proof.
  induction 1 as [|a b r r' Rab _ IH]; simpl; [tauto|]. intros [<-|H]; [eauto|].
  destruct (IH H) as [y [Hy Ry]]. eauto.
Qed.

(* ------------------------------------------------------------------ the function table *)
Lemma sig_lookup_name Sg fn sg : sig_lookup Sg fn = Some sg -> fs_name sg = fn.
Proof.
  induction Sg as [|e r IH]; simpl; [discriminate|].
  destruct (sig_lookup r fn) eqn:E; [intros H; injection H as <-; auto|].
  destruct (String.eqb fn (fs_name e)) eqn:E2; [|discriminate]. intros H; injection H as <-.
  apply String.eqb_eq in E2. auto.
Qed.

Lemma get_function_unique fs fd n : NoDup (map fn_name fs) -> In fd fs ->
  (n = length (fn_params fd) \/ n = S (length (fn_params fd))) -> get_function fs (fn_name fd) n = Some fd.
Proof.
  induction fs as [|d r IH]; intros ND Hin Hn; [destruct Hin|].
  simpl in ND. apply NoDup_cons_iff in ND. destruct ND as [Hd ND].
  simpl. destruct Hin as [->|Hin].
  - rewrite String.eqb_refl. simpl.
    destruct Hn as [->| ->]; rewrite Nat.eqb_refl; [reflexivity|rewrite orb_true_r; reflexivity].
  - destruct (String.eqb (fn_name d) (fn_name fd)) eqn:E.
    + apply String.eqb_eq in E. exfalso. apply Hd. rewrite E. apply in_map. exact Hin.
    + simpl. apply IH; auto.
Qed.

Definition fun_rel (D : tenv) (Sg : sigma) (f f' : fundef) : Prop :=
  fn_name f' = fn_name f /\ fn_params f' = fn_params f /\ fn_type f' = fn_type f /\
  fn_explicit f' = fn_explicit f /\
  tc_form D Sg (make_ctx (fn_params f)) None (fn_type f) (fn_body f) = TOk (fn_body f').
Lemma tc_funs_rel D Sg : forall fs fs', tc_funs D Sg fs = TOk fs' -> Forall2 (fun_rel D Sg) fs fs'.
Proof.
  induction fs as [|f r IH]; intros fs' H; cbn [tc_funs] in H.
  - injection H as <-. constructor.
  - step H. step H. injection H as <-. constructor; [|apply IH; auto]. red. simpl. auto 10.
Qed.
Lemma fun_rel_names D Sg fs fs' : Forall2 (fun_rel D Sg) fs fs' -> map fn_name fs' = map fn_name fs.
Proof. induction 1 as [|f f' r r' [E _] _ IH]; simpl; auto. rewrite E, IH. reflexivity. Qed.

Definition proc_rel (D : tenv) (Sg : sigma) (all : list procdef) (assumed : list name) (q q' : procdef) : Prop :=
  pr_providers q' = pr_providers q /\ pr_type q' = pr_type q /\
  tc_form D Sg (make_ctx (free_name_types q all assumed)) None (pr_type q) (pr_body q) = TOk (pr_body q').
Lemma tc_procs_rel D Sg all assumed : forall ps ps', tc_procs D Sg all assumed ps = TOk ps' ->
  Forall2 (proc_rel D Sg all assumed) ps ps'.
Proof.
  induction ps as [|q r IH]; intros ps' H; cbn [tc_procs] in H.
  - injection H as <-. constructor.
  - step H. step H. injection H as <-. constructor; [|apply IH; auto]. red. simpl. auto.
Qed.

(* ------------------------------------------------------------------ the syntactic premises survive elaboration *)
Lemma elab_names_bd D ns ns' : Forall2 (elab_name D) ns ns' -> forallb bd_ok ns' = forallb bd_ok ns.
Proof.
  induction 1 as [|n n' r r' [t [t' [_ [_ ->]]]] _ IH]; simpl; auto. rewrite IH. reflexivity.
Qed.
Lemma elab_fun_rtsyn D f f' : elab_fun D f f' -> fun_raw f = true -> fun_raw f' = true.
Proof.
  intros [t [t' [ps' [_ [_ [EN ->]]]]]] H. unfold fun_raw, fun_rs in *. simpl.
  rewrite (elab_names_bd _ _ _ EN). exact H.
Qed.
Lemma elab_proc_rtsyn D q q' : elab_proc D q q' -> proc_raw q = true -> proc_raw q' = true.
Proof. intros [t [t' [_ [_ ->]]]] H. exact H. Qed.

(* every parameter is a key of the context of the body *)
Lemma make_ctx_has ns n : In n ns -> ctx_has (make_ctx ns) (ident n) = true.
Proof.
  unfold make_ctx. assert (G : forall l acc, (In n l \/ ctx_has acc (ident n) = true) ->
    ctx_has (fold_left (fun g m => aset (ident m) (nty m) g) l acc) (ident n) = true).
  { induction l as [|m r IH]; simpl; intros acc H.
    - destruct H as [[]|H]; exact H.
    - apply IH. destruct H as [[->|H]|H]; [right|left; exact H|right; apply keep_aset; exact H].
      unfold ctx_has. apply amem_true. rewrite alookup_aset, String.eqb_refl. eauto. }
  intros H. apply G. auto.
Qed.

Lemma forallb_Forall2 {A} (P : A -> bool) (R : A -> A -> Prop) l l' :
  (forall a b, R a b -> P a = true -> P b = true) -> Forall2 R l l' -> forallb P l = true -> Forall (fun b => P b = true) l'.
Proof.
  intros HR. induction 1 as [|a b r r' Rab _ IH]; simpl; intros H; [constructor|].
  apply andb_true_iff in H. destruct H. constructor; eauto.
Qed.

Lemma all_providers_eq ps : map ident (concat (map pr_providers ps)) = Typing.all_providers ps.
Proof.
  unfold Typing.all_providers. induction ps as [|q r IH]; simpl; auto. rewrite map_app, IH. reflexivity.
Qed.

Section Top.
Variable teq : tenv -> sty -> sty -> Prop.
Hypothesis Heq : forall D, sanity_typedefs D = Ok true -> env_syn D = true -> forall s t, good D s -> good D t -> equal_type D s t = Ok true -> teq D s t.
Hypothesis Hrefl : forall D t, teq D t t.
Hypothesis Hsym : forall D s t, teq D s t -> teq D t s.
Hypothesis Htrans : forall D s t u, teq D s t -> teq D t u -> teq D s u.
Hypothesis Hunf : forall D, sanity_typedefs D = Ok true -> env_syn D = true -> forall t h, good D t -> Typing.head D t h -> teq D h t.

Section Decls.
Variable D : tenv.
Variable Sg : sigma.
Variable F : list fundef.
Hypothesis SD : sanity_typedefs D = Ok true.
Hypothesis SE : env_syn D = true.
Let HD : genv D := genv_intro _ SD SE.
Hypothesis HSg : gsigma D Sg.
Hypothesis HSgw : wf_sigma D Sg.
Hypothesis HF : forall fn sg, sig_lookup Sg fn = Some sg ->
  forall n, (n = length (fs_params sg) \/ n = S (length (fs_params sg))) ->
  exists fd tf h, get_function F fn n = Some fd /\ fn_params fd = fs_params sg /\
                  fn_type fd = Some tf /\ good D tf /\ fs_type sg = Some h /\ Typing.head D tf h.

Lemma form_static g A f f' rs :
  gctx D g -> good D A -> tc_form D Sg g None (Some A) f = TOk f' ->
  syn_form rs f = true -> form_syn f = true ->
  typed D F (teq D) ∅ (ctx_map g) None rs A f'.
Proof.
  intros Gg GA H S1 S2.
  apply (tc_form_rt teq D Sg F HD (Heq D SD SE) (Hrefl D) (Hsym D) (Htrans D) (Hunf D SD SE) HSg HSgw HF
                    g None A f f' (ctx_map g) rs Gg GA); auto.
  - intros s E. discriminate E.
  - intros x t L. exists t. split; [apply ctx_map_lookup; exact L|apply Hrefl].
Qed.

Lemma names_good ns : Forall (typed_name_ok D) ns -> forallb name_syn ns = true ->
  Forall (fun n => exists t, nty n = Some t /\ good D t) ns.
Proof.
  intros TP SN. apply Forall_forall. intros n Hn. rewrite Forall_forall in TP. rewrite forallb_forall in SN.
  apply gname_intro; auto.
Qed.

Lemma fun_static f f' :
  fun_sig_ok D f -> fun_syn f = true -> fun_raw f = true -> fun_rel D Sg f f' -> fun_ok D F (teq D) f'.
Proof.
  intros [ND [TP [t [Ft [Wt _]]]]] SF RS [En [Ep [Et [Ee Eb]]]].
  unfold fun_syn in SF. apply andb_true_iff in SF. destruct SF as [SF Sb]. apply andb_true_iff in SF. destruct SF as [St Sp].
  unfold fun_raw in RS. apply andb_true_iff in RS. destruct RS as [RS Rb]. apply andb_true_iff in RS. destruct RS as [Rp Re].
  rewrite Ft in St, Eb. simpl in St.
  assert (Gt : good D t) by (split; auto).
  pose proof (names_good _ TP Sp) as Gps.
  assert (FS : Forall (fun p => is_Some (nty p)) (fn_params f)).
  { eapply Forall_impl; [|exact TP]. intros a [ta [Na _]]. exists ta. exact Na. }
  pose proof (ctx_of_names_good _ _ Gps : gctx D (make_ctx (fn_params f))) as Gg.
  assert (HT' : typed D F (teq D) ∅ (params_ctx (fn_params f)) None (fun_rs f) t (fn_body f')).
  { apply (tc_form_rt teq D Sg F HD (Heq D SD SE) (Hrefl D) (Hsym D) (Htrans D) (Hunf D SD SE) HSg HSgw HF
                      (make_ctx (fn_params f)) None t (fn_body f) (fn_body f') (params_ctx (fn_params f)) (fun_rs f));
      auto.
    - intros s E. discriminate E.
    - intros x t0 L. unfold make_ctx in L. apply alookup_fold_aset in L.
      destruct L as [[p [Hp [Hi Hn]]]|L]; [|discriminate L].
      exists t0. split; [|apply Hrefl]. rewrite <- Hi. apply params_ctx_lookup; auto. }
  exists t. rewrite Et, Ep, Ee. split; [exact Ft|]. split.
  { (* a parameter is not the keyword self: the entry "" could not be consumed *)
    apply Forall_forall. intros p Hp. rewrite forallb_forall in Rp. apply bd_ok_binder; auto.
    destruct (is_self p) eqn:S; auto. exfalso.
    pose proof (bd_ok_self _ (Rp _ Hp) S) as E.
    pose proof (no_empty_key D Sg HD HSg HSgw _ _ _ _ _ _ Gg Gt Rb Sb Eb) as K.
    rewrite <- E, (make_ctx_has _ _ Hp) in K. discriminate K. }
  split; [exact ND|]. split; [exact FS|].
  unfold fun_rs in HT'. destruct (fn_explicit f) as [ep|] eqn:Eep; [|exact HT'].
  apply andb_true_iff in Re. destruct Re as [Rc Rn].
  split; [destruct (chan ep); [discriminate Rc|reflexivity]|]. split; [|exact HT'].
  (* the explicit provider is not a parameter: the body cannot name that entry *)
  rewrite elem_of_list_In. intros Hin. apply in_map_iff in Hin. destruct Hin as [p [Hid Hp]].
  eapply (proj1 (stuck_all D Sg HD HSg HSgw (ident ep)) (fn_body f)); eauto.
  rewrite <- Hid. apply make_ctx_has; auto.
Qed.
End Decls.

(* ------------------------------------------------------------------ programs *)
Theorem tc_program_static p p' :
  tc_program p = TOk p' -> prog_syn_ok p = true -> raw_ok p = true -> p_assumed p' = [] ->
  static_typed (teq (p_types p')) p'.
Proof.
  unfold tc_program. intros H PS RS NA.
  step H. step H. subst a. rename E into SD. pose proof (sanity_wf_env _ SD) as HDw.
  step H. rename a into fs. step H. destruct a as [ps assumed]. step H. rename a into Sg.
  step H. rename a into fs'. step H. rename a into ps'. inversion H; subst p'. clear H.
  simpl in NA. subst assumed. simpl.
  destruct (prelim_funs_sound _ _ _ _ E) as [EF [FS [NF _]]].
  destruct (prelim_procs_sound _ _ _ _ _ E0) as [EP [EA PP]].
  pose proof (make_sigma_sound _ HDw _ _ FS E1) as SO.
  pose proof (sigma_wf _ HDw _ _ FS SO) as WS.
  set (D := p_types p) in *.
  set (pe := {| p_procs := ps; p_assumed := []; p_funs := fs; p_types := D |}).
  assert (EL : elab_program p pe) by (repeat split; auto).
  pose proof (elab_syn _ _ EL PS) as PSe.
  unfold prog_syn_ok in PSe. simpl in PSe. rewrite andb_true_r in PSe.
  apply andb_true_iff in PSe. destruct PSe as [PSe SP]. apply andb_true_iff in PSe. destruct PSe as [SE SF].
  pose proof (genv_intro _ SD SE) as HD.
  unfold raw_ok in RS. apply andb_true_iff in RS. destruct RS as [RF RP].
  pose proof (forallb_Forall2 _ _ _ _ (elab_fun_rtsyn D) EF RF) as RF'.
  pose proof (forallb_Forall2 _ _ _ _ (elab_proc_rtsyn D) EP RP) as RP'.
  pose proof (tc_funs_rel _ _ _ _ E2) as FR. pose proof (tc_procs_rel _ _ _ _ _ _ E3) as PR.
  rewrite Forall_forall in FS, RF', RP'. rewrite forallb_forall in SF, SP.
  (* the signatures are good *)
  assert (GS : gsigma D Sg).
  { intros fn sg SL. apply sig_lookup_In in SL.
    destruct (Forall2_In_r _ _ _ _ SO SL) as [f [Hf [_ [Ep [t [h [Ft [Hh Es]]]]]]]].
    destruct (FS _ Hf) as [_ [TP [t0 [Ft0 [Wt _]]]]]. rewrite Ft in Ft0. injection Ft0 as <-.
    pose proof (SF _ Hf) as Sf. unfold fun_syn in Sf.
    apply andb_true_iff in Sf. destruct Sf as [Sf _]. apply andb_true_iff in Sf. destruct Sf as [St Sp].
    rewrite Ft in St. simpl in St. split.
    - intros ft Eft. rewrite Es in Eft. injection Eft as <-. eapply good_head; eauto. split; auto.
    - rewrite Ep. eapply Forall_impl; [|exact (names_good D _ TP Sp)].
      intros a [ta [Na Ga]] tp Ntp. rewrite Na in Ntp. injection Ntp as <-. exact Ga. }
  (* the interpreter finds the function the checker looked at *)
  assert (HF : forall fn sg, sig_lookup Sg fn = Some sg ->
    forall n, (n = length (fs_params sg) \/ n = S (length (fs_params sg))) ->
    exists fd tf h, get_function fs' fn n = Some fd /\ fn_params fd = fs_params sg /\
                    fn_type fd = Some tf /\ good D tf /\ fs_type sg = Some h /\ Typing.head D tf h).
  { intros fn sg SL n Hn. pose proof (sig_lookup_name _ _ _ SL) as Efn. apply sig_lookup_In in SL.
    destruct (Forall2_In_r _ _ _ _ SO SL) as [f [Hf [En [Ep [t [h [Ft [Hh Es]]]]]]]].
    destruct (Forall2_In_l _ _ _ _ FR Hf) as [f' [Hf' [En' [Ep' [Et' [Ee' Eb']]]]]].
    destruct (FS _ Hf) as [_ [TP [t0 [Ft0 [Wt _]]]]]. rewrite Ft in Ft0. injection Ft0 as <-.
    pose proof (SF _ Hf) as Sf. unfold fun_syn in Sf.
    apply andb_true_iff in Sf. destruct Sf as [Sf _]. apply andb_true_iff in Sf. destruct Sf as [St _].
    rewrite Ft in St. simpl in St.
    exists f', t, h. split.
    - rewrite <- Efn, En, <- En'. apply get_function_unique; auto.
      + rewrite (fun_rel_names _ _ _ _ FR), (elab_funs_names _ _ _ EF). exact NF.
      + rewrite Ep', <- Ep. exact Hn.
    - split; [congruence|]. split; [congruence|]. split; [split; auto|]. split; auto. }
  split; [|split].
  - (* functions *)
    apply Forall_forall. intros f' Hf'.
    destruct (Forall2_In_r _ _ _ _ FR Hf') as [f [Hf Rf]].
    eapply (fun_static D Sg fs' SD SE GS WS HF f f'); eauto.
  - (* provider names *)
    unfold RtInit.all_providers. simpl.
    assert (EPs : map pr_providers ps' = map pr_providers ps).
    { clear -PR. induction PR as [|q q' r r' [Eq _] _ IH]; simpl; auto. rewrite Eq, IH. reflexivity. }
    rewrite EPs, all_providers_eq. apply (pp_providers_unique _ _ _ PP).
  - (* processes *)
    apply Forall_forall. intros q' Hq'.
    destruct (Forall2_In_r _ _ _ _ PR Hq') as [q [Hq [Eq [Et Eb]]]].
    pose proof (pp_named _ _ _ PP) as PNm. destruct PP as [PSig _ _ _ _ _ _ _ _ _]. rewrite Forall_forall in PSig.
    destruct (PSig _ Hq) as [t [Pt [Wt _]]].
    pose proof (SP _ Hq) as Sq. unfold proc_syn in Sq.
    apply andb_true_iff in Sq. destruct Sq as [Sq Sb]. apply andb_true_iff in Sq. destruct Sq as [St _].
    rewrite Pt in St, Eb. simpl in St.
    pose proof (RP' _ Hq) as Rq. unfold proc_raw in Rq.
    apply andb_true_iff in Rq. destruct Rq as [Rq Rb]. apply andb_true_iff in Rq. destruct Rq as [Rne Rbd].
    assert (Gt : good D t) by (split; auto).
    assert (Gall : Forall (fun kv => gname D (snd kv)) (top_names ps [])).
    { apply top_names_good; [|constructor]. apply Forall_forall. intros q0 Hq0 n Hn.
      destruct (PSig _ Hq0) as [t0 [Pt0 [Wt0 _]]]. exists t0. split; [simpl; exact Pt0|].
      split; auto. pose proof (SP _ Hq0) as Sq0. unfold proc_syn in Sq0.
      apply andb_true_iff in Sq0. destruct Sq0 as [Sq0 _]. apply andb_true_iff in Sq0. destruct Sq0 as [St0 _].
      rewrite Pt0 in St0. exact St0. }
    pose proof (proc_ctx_good D HD ps [] q Gall) as Gg.
    exists t, (ctx_map (make_ctx (free_name_types q ps []))).
    split; [congruence|]. rewrite Eq. split; [destruct (pr_providers q); [discriminate Rne|discriminate]|].
    split.
    { (* a provider name is not the keyword self: guard providers_not_self (F31) *)
      apply Forall_forall. intros n Hn. rewrite forallb_forall in Rbd. specialize (Rbd _ Hn).
      unfold pv_ok in Rbd. unfold binder. destruct (chan n); [discriminate Rbd|]. split; auto.
      intros Ei. apply (PNm q n Hq Hn). split; auto.
      destruct (is_self n); auto. simpl in Rbd. rewrite Ei in Rbd. discriminate Rbd. }
    split.
    + (* the context mentions providers of processes only, at the type of their process *)
      intros x A HA. apply ctx_map_lookup in HA. unfold make_ctx in HA. apply alookup_fold_aset in HA.
      destruct HA as [[n [Hn [Hi Ht]]]|HA]; [|discriminate HA].
      unfold free_name_types in Hn. apply in_flat_map in Hn. destruct Hn as [fn [_ Hn]].
      destruct (alookup (ident fn) (available_names ps [])) as [m|] eqn:Eav; [|destruct Hn].
      destruct Hn as [->|[]]. unfold available_names in Eav. simpl in Eav.
      apply alookup_fold_aset in Eav. destruct Eav as [[kv [Hkv [_ Hm]]]|Eav]; [|discriminate Eav].
      apply in_flat_map in Hkv. destruct Hkv as [q0 [Hq0 Hkv]]. apply in_map_iff in Hkv.
      destruct Hkv as [n0 [<- Hn0]]. simpl in Hm. subst n. simpl in Hi, Ht.
      destruct (Forall2_In_l _ _ _ _ PR Hq0) as [q0' [Hq0' [Eq0 [Et0 _]]]].
      exists q0', n0. simpl. rewrite Eq0, Et0. auto.
    + apply (form_static D Sg fs' SD SE GS WS HF _ t (pr_body q) (pr_body q') {[ "" ]} Gg Gt Eb Rb Sb).
Qed.

Theorem tc_annotations_typed_thm p p' :
  typecheck p = Accept p' -> prog_syn_ok p = true -> raw_ok p = true -> p_assumed p' = [] ->
  static_typed (teq (p_types p')) p'.
Proof.
  unfold typecheck. destruct (tc_program p) eqn:E; try discriminate. intros H. injection H as <-.
  apply tc_program_static; auto.
Qed.
End Top.
