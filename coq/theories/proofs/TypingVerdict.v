(* proofs/TypingVerdict.v — C07: the verdict of the checker model coincides with derivability in the
   declarative system, for every type-equality relation that the equality algorithm decides on
   well-formed types; and the closed instance where type agreement is what EqualType answers. *)
Require Import Grits.Base Grits.ModeDefs Grits.Modes Grits.STypes Grits.Forms Grits.Subst Grits.Infer
               Grits.TcDeps Grits.Expand Grits.Tc Grits.TcTop Grits.spec.Typing Grits.proofs.TcLemmas
               Grits.proofs.TypingSound Grits.proofs.TypingSoundTop Grits.proofs.TypingComplete
               Grits.proofs.TypingCompleteTop.

(* what the link needs of the type-equality relation: on an accepted environment and well-formed
   types it is exactly what EqualType decides (C08 proves this of bisimilarity) *)
Definition teq_decided (teq : tenv -> sty -> sty -> Prop) : Prop :=
  forall D, sanity_typedefs D = Ok true -> forall s t, check_wf D s = true -> check_wf D t = true ->
    (equal_type D s t = Ok true <-> teq D s t).

Definition accepts (p : program) : Prop := exists p', typecheck p = Accept p'.

Theorem tc_verdict teq : teq_decided teq -> forall p, accepts p <-> ProgOK teq p.
Proof.
  intros H p. split.
  - intros [p' E]. eapply tc_sound; eauto. intros D SD s t Ws Wt. apply (H D SD s t Ws Wt).
  - apply tc_complete. intros D SD s t Ws Wt. apply (H D SD s t Ws Wt).
Qed.

(* the closed instance: type agreement = the answer of the equality algorithm *)
Definition teq_alg (D : tenv) (s t : sty) : Prop := equal_type D s t = Ok true.

Theorem tc_verdict_alg p : accepts p <-> ProgOK teq_alg p.
Proof. apply tc_verdict. intros D _ s t _ _. reflexivity. Qed.

(* well-typed programs are not rejected, and never fail internally or diverge *)
Corollary well_typed_not_rejected teq : teq_decided teq -> forall p, ProgOK teq p ->
  typecheck p <> Reject /\ (forall w, typecheck p <> RejectInternal w) /\ (forall w, typecheck p <> Diverge w).
Proof.
  intros H p OK. destruct (proj2 (tc_verdict teq H p) OK) as [p' E]. rewrite E.
  repeat split; intros; discriminate.
Qed.
