(* ReaderProofs.v — the reference reader inverts the token-level printer `ptoks` on every type
   whose non-shift nodes carry the mode pushed down to them (C15, token half). *)
Require Import Grits.Base Grits.ModeDefs Grits.Modes Grits.STypes Grits.Infer Grits.Print Grits.Scan Grits.EqualWF
               Grits.spec.TypeReader Grits.proofs.EqualWFFacts.

Definition pleft (a : sty) (ts : list ttok) : list ttok := if needs_paren a then KLP :: ts ++ [KRP] else ts.

Fixpoint ptoks (t : sty) : list ttok :=
  match t with
  | TName x _ => [KLab x]
  | TUnit _ => [KUnit]
  | TTensor a b _ => pleft a (ptoks a) ++ KTimes :: ptoks b
  | TLolli a b _ => pleft a (ptoks a) ++ KLolli :: ptoks b
  | TPlus bs _ => KPlus :: KLC :: ptoks_brs bs ++ [KRC]
  | TWith bs _ => KAmp :: KLC :: ptoks_brs bs ++ [KRC]
  | TUp f t a => KLab (mode_short f) :: KUp :: KLab (mode_short t) :: ptoks a
  | TDown f t a => KLab (mode_short f) :: KDown :: KLab (mode_short t) :: ptoks a
  end
with ptoks_brs (b : brs) : list ttok :=
  match b with
  | BNil => []
  | BCons l a r =>
    match r with
    | BNil => KLab l :: KColon :: ptoks a
    | BCons _ _ _ => KLab l :: KColon :: ptoks a ++ KComma :: ptoks_brs r
    end
  end.

(* what the reader reconstructs: every node up to the next shift carries the mode pushed down;
   the target mode of a shift is whatever is written *)
Fixpoint runiform (m : mode) (t : sty) : bool :=
  match t with
  | TName _ m' | TUnit m' => mode_same m m'
  | TTensor a b m' | TLolli a b m' => mode_same m m' && runiform m a && runiform m b
  | TPlus bs m' | TWith bs m' => mode_same m m' && runiform_brs m bs
  | TUp f _ a | TDown f _ a => runiform f a
  end
with runiform_brs (m : mode) (b : brs) : bool :=
  match b with BNil => true | BCons _ a r => runiform m a && runiform_brs m r end.

Lemma uniform_runiform : (forall t m, uniform m t = true -> runiform m t = true) /\
                         (forall b m, uniform_brs m b = true -> runiform_brs m b = true).
Proof.
  apply sty_brs_ind; cbn; intros; rewrite ?andb_true_iff in *; intuition.
Qed.

Definition stop (rest : list ttok) : Prop :=
  match rest with KTimes :: _ | KLolli :: _ | KUp :: _ | KDown :: _ => False | _ => True end.
Definition stopb (rest : list ttok) : Prop :=
  stop rest /\ match rest with KComma :: _ => False | _ => True end.

Lemma mode_of_short m : proper m = true -> mode_of_string (mode_short m) = m.
Proof. destruct m; cbn; try discriminate; intros _; reflexivity. Qed.

Lemma rd_from_atom n m ts a rest :
  shift_hd ts = None -> rd_atom n m ts = Some (a, rest) -> stop rest -> rd (S n) m ts = Some (a, rest).
Proof.
  intros Hs Ha Hst. cbn [rd]. rewrite Hs, Ha. destruct rest as [|[] r]; cbn in Hst; try contradiction; reflexivity.
Qed.

Lemma shift_hd_left a ts k : k = KTimes \/ k = KLolli -> shift_hd (pleft a (ptoks a) ++ k :: ts) = None.
Proof.
  intros Hk. destruct a; cbn; try reflexivity. destruct Hk; subst; reflexivity.
Qed.

Definition P (t : sty) : Prop :=
  (forall m n rest, runiform m t = true -> syn_ok t = true -> modes_wf t = true -> 3 * tsize t <= n -> stop rest ->
     rd n m (ptoks t ++ rest) = Some (t, rest)) /\
  (forall m n rest, runiform m t = true -> syn_ok t = true -> modes_wf t = true -> needs_paren t = false -> 3 * tsize t <= n + 1 ->
     rd_atom n m (ptoks t ++ rest) = Some (t, rest)).
Definition Pb (b : brs) : Prop :=
  forall m n rest, runiform_brs m b = true -> syn_ok_brs b = true -> modes_wf_brs b = true -> brs_len b <> 0 ->
    3 * bsize b <= n -> stopb rest -> rd_brs n m (ptoks_brs b ++ rest) = Some (b, rest).

Lemma left_read a : P a -> forall m n rest, runiform m a = true -> syn_ok a = true -> modes_wf a = true ->
  3 * tsize a + 1 <= n -> rd_atom n m (pleft a (ptoks a) ++ rest) = Some (a, rest).
Proof.
  intros [P1 P2] m n rest Hu Hs Hm Hn. unfold pleft. destruct (needs_paren a) eqn:Enp.
  - destruct n as [|n']; [lia|]. cbn [app]. rewrite <- app_assoc. cbn [app rd_atom].
    rewrite (P1 m n' (KRP :: rest)); auto; [lia | exact I].
  - apply P2; auto. lia.
Qed.

Lemma binary_read (ctor : sty -> sty -> mode -> sty) (k : ttok) a b m0 :
  (k = KTimes /\ ctor = TTensor) \/ (k = KLolli /\ ctor = TLolli) ->
  P a -> P b ->
  forall m n rest, mode_same m m0 = true -> runiform m a = true -> runiform m b = true ->
    syn_ok a = true -> syn_ok b = true -> modes_wf a = true -> modes_wf b = true ->
    3 * S (tsize a + tsize b) <= n -> stop rest ->
    rd n m ((pleft a (ptoks a) ++ k :: ptoks b) ++ rest) = Some (ctor a b m0, rest).
Proof.
  intros Hk Pa Pb0 m n rest Hm Hua Hub Hsa Hsb Hma Hmb Hn Hst.
  apply mode_same_eq in Hm. subst m0.
  destruct n as [|n']; [lia|]. rewrite <- app_assoc. cbn [app]. cbn [rd].
  rewrite shift_hd_left by (destruct Hk as [[-> _]|[-> _]]; auto).
  rewrite (left_read a Pa m n' (k :: ptoks b ++ rest)) by (auto; lia).
  destruct Pb0 as [Pb1 _].
  destruct Hk as [[-> ->]|[-> ->]]; rewrite (Pb1 m n' rest) by (auto; lia); reflexivity.
Qed.

Lemma choice_read (ctor : brs -> mode -> sty) (k : ttok) bs m0 :
  (k = KPlus /\ ctor = TPlus) \/ (k = KAmp /\ ctor = TWith) ->
  Pb bs ->
  forall m n rest, mode_same m m0 = true -> runiform_brs m bs = true -> syn_ok_brs bs = true -> modes_wf_brs bs = true ->
    brs_len bs <> 0 -> 3 * S (bsize bs) <= n + 1 ->
    rd_atom n m ((k :: KLC :: ptoks_brs bs ++ [KRC]) ++ rest) = Some (ctor bs m0, rest).
Proof.
  intros Hk Hb m n rest Hm Hu Hs Hmw Hl Hn. apply mode_same_eq in Hm. subst m0.
  destruct n as [|n']; [lia|]. cbn [app]. rewrite <- app_assoc. cbn [app].
  destruct Hk as [[-> ->]|[-> ->]]; cbn [rd_atom];
    rewrite (Hb m n' (KRC :: rest)) by (auto; try lia; repeat split; exact I); reflexivity.
Qed.

Theorem reader_inverts_ptoks : (forall t, P t) /\ (forall b, Pb b).
Proof.
  apply sty_brs_ind.
  - (* name *)
    intros x m0. assert (Hat : forall m n rest, runiform m (TName x m0) = true -> 1 <= n ->
                                 rd_atom n m (ptoks (TName x m0) ++ rest) = Some (TName x m0, rest)).
    { intros m n rest Hu Hn. cbn in Hu. apply mode_same_eq in Hu. subst. destruct n; [lia|]. reflexivity. }
    split.
    + intros m n rest Hu _ _ Hn Hst. destruct n as [|n']; [cbn in Hn; lia|].
      apply rd_from_atom; [| apply Hat; auto; cbn in Hn; lia | exact Hst].
      cbn. destruct rest as [|[] r]; cbn in Hst; try contradiction; reflexivity.
    + intros m n rest Hu _ _ _ Hn. apply Hat; auto. cbn in Hn. lia.
  - (* unit *)
    intros m0. assert (Hat : forall m n rest, runiform m (TUnit m0) = true -> 1 <= n ->
                               rd_atom n m (ptoks (TUnit m0) ++ rest) = Some (TUnit m0, rest)).
    { intros m n rest Hu Hn. cbn in Hu. apply mode_same_eq in Hu. subst. destruct n; [lia|]. reflexivity. }
    split.
    + intros m n rest Hu _ _ Hn Hst. destruct n as [|n']; [cbn in Hn; lia|].
      apply rd_from_atom; [reflexivity | apply Hat; auto; cbn in Hn; lia | exact Hst].
    + intros m n rest Hu _ _ _ Hn. apply Hat; auto. cbn in Hn. lia.
  - (* tensor *)
    intros a Pa b Pb0 m0. split; [|intros; cbn in *; discriminate].
    intros m n rest Hu Hs Hm Hn Hst. cbn in Hu, Hs, Hm, Hn. rewrite ?andb_true_iff in *.
    apply (binary_read TTensor KTimes); auto; try tauto; try (cbn [tsize] in Hn; lia).
  - intros a Pa b Pb0 m0. split; [|intros; cbn in *; discriminate].
    intros m n rest Hu Hs Hm Hn Hst. cbn in Hu, Hs, Hm, Hn. rewrite ?andb_true_iff in *.
    apply (binary_read TLolli KLolli); auto; try tauto; try (cbn [tsize] in Hn; lia).
  - (* plus *)
    intros bs Hb m0.
    assert (Hat : forall m n rest, runiform m (TPlus bs m0) = true -> syn_ok (TPlus bs m0) = true -> modes_wf (TPlus bs m0) = true ->
              3 * tsize (TPlus bs m0) <= n + 1 -> rd_atom n m (ptoks (TPlus bs m0) ++ rest) = Some (TPlus bs m0, rest)).
    { intros m n rest Hu Hs Hm Hn. cbn in Hu, Hs, Hm. rewrite ?andb_true_iff, ?negb_true_iff, ?Nat.eqb_neq in *.
      apply (choice_read TPlus KPlus); auto; try tauto. }
    split.
    + intros m n rest Hu Hs Hm Hn Hst. destruct n as [|n']; [cbn in Hn; lia|].
      apply rd_from_atom; [reflexivity | apply Hat; auto; lia | exact Hst].
    + intros m n rest Hu Hs Hm _ Hn. apply Hat; auto.
  - intros bs Hb m0.
    assert (Hat : forall m n rest, runiform m (TWith bs m0) = true -> syn_ok (TWith bs m0) = true -> modes_wf (TWith bs m0) = true ->
              3 * tsize (TWith bs m0) <= n + 1 -> rd_atom n m (ptoks (TWith bs m0) ++ rest) = Some (TWith bs m0, rest)).
    { intros m n rest Hu Hs Hm Hn. cbn in Hu, Hs, Hm. rewrite ?andb_true_iff, ?negb_true_iff, ?Nat.eqb_neq in *.
      apply (choice_read TWith KAmp); auto; try tauto. }
    split.
    + intros m n rest Hu Hs Hm Hn Hst. destruct n as [|n']; [cbn in Hn; lia|].
      apply rd_from_atom; [reflexivity | apply Hat; auto; lia | exact Hst].
    + intros m n rest Hu Hs Hm _ Hn. apply Hat; auto.
  - (* up *)
    intros f t a [Pa _]. split; [|intros; cbn in *; discriminate].
    intros m n rest Hu Hs Hm Hn Hst. cbn in Hu, Hs, Hm. rewrite ?andb_true_iff in *.
    destruct Hm as [[Hpf Hpt] Hma]. destruct n as [|n']; [cbn in Hn; lia|].
    cbn [ptoks app rd shift_hd]. rewrite (mode_of_short f Hpf), (mode_of_short t Hpt).
    rewrite (Pa f n' rest); auto. cbn [tsize] in Hn. lia.
  - intros f t a [Pa _]. split; [|intros; cbn in *; discriminate].
    intros m n rest Hu Hs Hm Hn Hst. cbn in Hu, Hs, Hm. rewrite ?andb_true_iff in *.
    destruct Hm as [[Hpf Hpt] Hma]. destruct n as [|n']; [cbn in Hn; lia|].
    cbn [ptoks app rd shift_hd]. rewrite (mode_of_short f Hpf), (mode_of_short t Hpt).
    rewrite (Pa f n' rest); auto. cbn [tsize] in Hn. lia.
  - (* no branch *)
    intros m n rest _ _ _ Hl. cbn in Hl. contradiction.
  - (* a branch *)
    intros l a [Pa _] r Hr m n rest Hu Hs Hm _ Hn [Hst Hcm].
    cbn in Hu, Hs, Hm. rewrite ?andb_true_iff in *. cbn [bsize] in Hn.
    destruct n as [|n']; [lia|]. destruct r as [|l2 a2 r2].
    + cbn [ptoks_brs app rd_brs]. rewrite (Pa m n' rest) by (auto; try tauto; lia).
      destruct rest as [|[] rr]; cbn in Hcm; try contradiction; reflexivity.
    + change (ptoks_brs (BCons l a (BCons l2 a2 r2))) with (KLab l :: KColon :: ptoks a ++ KComma :: ptoks_brs (BCons l2 a2 r2)).
      cbn [app rd_brs]. rewrite <- app_assoc. cbn [app].
      rewrite (Pa m n' (KComma :: ptoks_brs (BCons l2 a2 r2) ++ rest)) by (auto; try tauto; try lia; exact I).
      rewrite (Hr m n' rest); auto; try tauto; try (cbn; discriminate).
      * cbn [bsize]. cbn [bsize] in Hn. lia.
      * split; assumption.
Qed.
