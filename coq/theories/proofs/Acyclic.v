(* proofs/Acyclic.v — the acyclicity test of the process declarations (spec/Typing.deps_acyclic, the
   marking iteration the checker runs) against its declarative reading: the dependency relation is
   well founded (every process is Grounded).
   1. plain graphs given as adjacency lists: the iteration marks every node iff every node is
      well-founded (G);
   2. indices versus process declarations: G on the dependency lists <-> Grounded;
   3. hence the test is invariant under permutation of the declarations. *)
Require Import Grits.Base Grits.ModeDefs Grits.STypes Grits.Forms Grits.Subst Grits.Tc Grits.spec.Typing
               Grits.proofs.TcLemmas.
Require Import Coq.Sorting.Permutation.

Lemma nat_mem_In i l : nat_mem i l = true <-> In i l.
Proof.
  unfold nat_mem. rewrite existsb_exists. split.
  - intros [x [Hx E]]. apply Nat.eqb_eq in E. now subst.
  - intros H. exists i. split; auto. apply Nat.eqb_refl.
Qed.
Lemma nat_mem_false i l : nat_mem i l = false <-> ~ In i l.
Proof. rewrite <- nat_mem_In. destruct (nat_mem i l); split; congruence. Qed.

Lemma forallb_false_exists {A} (f : A -> bool) l : forallb f l = false -> exists x, In x l /\ f x = false.
Proof.
  induction l as [|a l IH]; cbn; [discriminate|]. destruct (f a) eqn:E; cbn.
  - intros H. destruct (IH H) as [x [Hx Fx]]. eauto.
  - intros _. eauto.
Qed.
Lemma nodup_app2 {A} (l1 l2 : list A) : NoDup l1 -> NoDup l2 -> (forall x, In x l2 -> ~ In x l1) -> NoDup (l1 ++ l2).
Proof.
  induction l1 as [|a r IH]; cbn; intros N1 N2 Dj; auto. inversion N1; subst. constructor.
  - rewrite in_app_iff. intros [H|H]; [tauto|]. apply (Dj a H). now left.
  - apply IH; auto. intros x Hx Hr. apply (Dj x Hx). now right.
Qed.

(* ---------------------------------------------------------------- 1. graphs *)
Section Graph.
Variable deps : list (list nat).
Notation n := (length deps).
Notation D i := (nth i deps []).

Inductive G : nat -> Prop :=
| G_intro i : i < n -> (forall j, In j (D i) -> G j) -> G i.

Definition ready (done : list nat) (i : nat) : bool :=
  negb (nat_mem i done) && forallb (fun j => nat_mem j done) (D i).
Definition step (done : list nat) : list nat := done ++ filter (ready done) (seq 0 n).

Lemma mark_rounds_step k done : mark_rounds (S k) deps done = mark_rounds k deps (step done).
Proof. reflexivity. Qed.

Lemma ready_spec done i : ready done i = true <-> ~ In i done /\ forall j, In j (D i) -> In j done.
Proof.
  unfold ready. rewrite andb_true_iff, negb_true_iff, nat_mem_false, forallb_forall.
  split; intros [A B]; split; auto; intros j Hj; apply nat_mem_In; auto.
Qed.

Definition Inv (done : list nat) : Prop := NoDup done /\ forall i, In i done -> i < n /\ G i.

Lemma Inv_nil : Inv [].
Proof. split; [constructor|intros i []]. Qed.

Lemma Inv_step done : Inv done -> Inv (step done).
Proof.
  intros [N H]. unfold step. split.
  - apply nodup_app2; auto.
    + apply NoDup_filter, seq_NoDup.
    + intros x Hx. apply filter_In in Hx. destruct Hx as [_ R]. apply ready_spec in R. tauto.
  - intros i Hi. apply in_app_iff in Hi. destruct Hi as [Hi|Hi]; auto.
    apply filter_In in Hi. destruct Hi as [Hs R]. apply in_seq in Hs. apply ready_spec in R. destruct R as [_ R].
    assert (L : i < n) by lia. split; auto. constructor; auto. intros j Hj. apply (H j). auto.
Qed.
Lemma Inv_rounds : forall k done, Inv done -> Inv (mark_rounds k deps done).
Proof. induction k as [|k IH]; intros done I; auto. rewrite mark_rounds_step. apply IH. now apply Inv_step. Qed.

Lemma Inv_incl done : Inv done -> incl done (seq 0 n).
Proof. intros [_ H] i Hi. apply in_seq. destruct (H i Hi). lia. Qed.
Lemma Inv_length done : Inv done -> length done <= n.
Proof.
  intros I. pose proof (NoDup_incl_length (proj1 I) (Inv_incl _ I)) as L. now rewrite seq_length in L.
Qed.

Theorem marks_all_sound : length (mark_rounds n deps []) = n -> forall i, i < n -> G i.
Proof.
  intros L i Hi. pose proof (Inv_rounds n [] Inv_nil) as I.
  assert (Hin : In i (mark_rounds n deps [])).
  { refine (@NoDup_length_incl nat (mark_rounds n deps []) (seq 0 n) (proj1 I) _ _ i _).
    - rewrite seq_length. lia.
    - apply Inv_incl, I.
    - apply in_seq. lia. }
  apply (proj2 I i Hin).
Qed.

Lemma progress done i : G i -> ~ In i done -> exists i', i' < n /\ ready done i' = true.
Proof.
  induction 1 as [i Hi Hd IH]. intros Ni.
  destruct (forallb (fun j => nat_mem j done) (D i)) eqn:F.
  - exists i. split; auto. unfold ready. rewrite F. apply nat_mem_false in Ni. now rewrite Ni.
  - apply forallb_false_exists in F. destruct F as [j [Hj Fj]]. apply nat_mem_false in Fj. eauto.
Qed.
Lemma step_len_ge done : length done <= length (step done).
Proof. unfold step. rewrite app_length. lia. Qed.
Lemma step_grows done i' : i' < n -> ready done i' = true -> S (length done) <= length (step done).
Proof.
  intros Hi R. unfold step. rewrite app_length.
  assert (Hin : In i' (filter (ready done) (seq 0 n))) by (apply filter_In; split; auto; apply in_seq; lia).
  destruct (filter (ready done) (seq 0 n)); [destruct Hin|cbn; lia].
Qed.

Theorem marks_all_complete : (forall i, i < n -> G i) -> length (mark_rounds n deps []) = n.
Proof.
  intros HG.
  assert (M : forall k done, Inv done -> n <= length done + k -> length (mark_rounds k deps done) = n).
  { induction k as [|k IH]; intros done I L.
    - cbn. pose proof (Inv_length _ I). lia.
    - rewrite mark_rounds_step. apply IH; [now apply Inv_step|].
      destruct (filter (fun i => negb (nat_mem i done)) (seq 0 n)) as [|i u] eqn:U.
      + assert (Hall : incl (seq 0 n) done).
        { intros i Hi. destruct (nat_mem i done) eqn:E; [now apply nat_mem_In|].
          assert (Hf : In i (filter (fun i => negb (nat_mem i done)) (seq 0 n))) by (apply filter_In; rewrite E; auto).
          rewrite U in Hf. destruct Hf. }
        pose proof (NoDup_incl_length (seq_NoDup n 0) Hall) as L2. rewrite seq_length in L2.
        pose proof (step_len_ge done). lia.
      + assert (Hf : In i (filter (fun i => negb (nat_mem i done)) (seq 0 n))) by (rewrite U; now left).
        apply filter_In in Hf. destruct Hf as [Hs Ni]. apply in_seq in Hs. apply negb_true_iff, nat_mem_false in Ni.
        destruct (progress done i (HG i ltac:(lia)) Ni) as [i' [Hi' R]].
        pose proof (step_grows done i' Hi' R). lia. }
  apply M; [apply Inv_nil|cbn; lia].
Qed.

Theorem marks_all_iff : (length (mark_rounds n deps []) =? n)%nat = true <-> forall i, i < n -> G i.
Proof. rewrite Nat.eqb_eq. split; [apply marks_all_sound|apply marks_all_complete]. Qed.
End Graph.

(* ---------------------------------------------------------------- 2. indices and declarations *)
Fixpoint pgo (x : string) (l : list procdef) (i : nat) (acc : option nat) : option nat :=
  match l with
  | [] => acc
  | q :: r => pgo x r (S i) (if str_mem x (map ident (pr_providers q)) then Some i else acc)
  end.
Lemma provider_index_pgo ps x : provider_index ps x = pgo x ps 0 None.
Proof. unfold provider_index. generalize 0 (@None nat). induction ps as [|q r IH]; intros i acc; cbn; auto. Qed.

Lemma pgo_some x : forall l i acc j, pgo x l i acc = Some j ->
  acc = Some j \/ exists q, nth_error l (j - i) = Some q /\ i <= j /\ In x (map ident (pr_providers q)).
Proof.
  induction l as [|q r IH]; cbn [pgo]; intros i acc j H; auto.
  destruct (IH _ _ _ H) as [E|[q' [N [L X]]]].
  - destruct (str_mem x (map ident (pr_providers q))) eqn:M; auto.
    inversion E; subst. right. exists q. rewrite Nat.sub_diag. cbn. repeat split; auto. now apply str_mem_In.
  - right. exists q'. replace (j - i) with (S (j - S i)) by lia. cbn. repeat split; auto. lia.
Qed.
Lemma provider_index_some ps x j : provider_index ps x = Some j ->
  exists q, nth_error ps j = Some q /\ In x (map ident (pr_providers q)).
Proof.
  rewrite provider_index_pgo. intros H. destruct (pgo_some _ _ _ _ _ H) as [E|[q [N [_ X]]]]; [discriminate|].
  rewrite Nat.sub_0_r in N. eauto.
Qed.

Lemma pgo_notin x : forall l i acc, (forall q, In q l -> ~ In x (map ident (pr_providers q))) -> pgo x l i acc = acc.
Proof.
  induction l as [|q r IH]; cbn [pgo]; intros i acc H; auto.
  assert (M : str_mem x (map ident (pr_providers q)) = false) by (apply str_mem_false, H; now left).
  rewrite M. apply IH. intros q' Hq'. apply H. now right.
Qed.
Lemma pgo_nodup x : forall l i acc k q, NoDup (all_providers l) -> nth_error l k = Some q ->
  In x (map ident (pr_providers q)) -> pgo x l i acc = Some (i + k).
Proof.
  induction l as [|p r IH]; intros i acc k q N E X; [destruct k; discriminate|].
  unfold all_providers in N. cbn [flat_map] in N. fold (all_providers r) in N.
  assert (N1 : NoDup (all_providers r) /\ forall y, In y (map ident (pr_providers p)) -> ~ In y (all_providers r)).
  { clear - N. induction (map ident (pr_providers p)) as [|a l IHl]; cbn in N; [split; auto|].
    inversion N; subst. destruct (IHl H2) as [A B]. split; auto. intros y [<-|Hy]; auto.
    intros Hin. apply H1. apply in_app_iff. now right. }
  destruct N1 as [Nr Dj]. cbn [pgo]. destruct k as [|k]; cbn in E.
  - inversion E; subst p. assert (M : str_mem x (map ident (pr_providers q)) = true) by now apply str_mem_In.
    rewrite M, Nat.add_0_r. apply pgo_notin. intros q' Hq' Hx. apply (Dj x X).
    unfold all_providers. apply in_flat_map. eauto.
  - assert (M : str_mem x (map ident (pr_providers p)) = false).
    { apply str_mem_false. intros Hx. apply (Dj x Hx). unfold all_providers. apply in_flat_map.
      exists q. split; auto. eapply nth_error_In; eauto. }
    rewrite M. rewrite (IH (S i) acc k q Nr E X). f_equal. lia.
Qed.
Lemma provider_index_nodup ps x j q : NoDup (all_providers ps) -> nth_error ps j = Some q ->
  In x (map ident (pr_providers q)) -> provider_index ps x = Some j.
Proof. intros N E X. rewrite provider_index_pgo. now rewrite (pgo_nodup x ps 0 None j q N E X). Qed.

Lemma in_proc_deps ps p j : In j (proc_deps ps p) <->
  exists fn, In fn (proc_uses p) /\ provider_index ps (ident fn) = Some j.
Proof.
  unfold proc_deps. rewrite in_flat_map. split; intros [fn [Hfn H]]; exists fn; split; auto.
  - destruct (provider_index ps (ident fn)); [destruct H as [<-|[]]; auto|destruct H].
  - rewrite H. now left.
Qed.
Lemma deps_nth ps i p : nth_error ps i = Some p -> nth i (map (proc_deps ps) ps) [] = proc_deps ps p.
Proof.
  intros E. generalize (proc_deps ps). intros f. revert i E. induction ps as [|a r IH]; intros [|i] E; try discriminate; cbn in *.
  - now inversion E.
  - auto.
Qed.

Section Procs.
Variable ps : list procdef.
Notation deps := (map (proc_deps ps) ps).

Lemma G_grounded : NoDup (all_providers ps) -> forall i, G deps i -> forall p, nth_error ps i = Some p -> Grounded ps p.
Proof.
  intros ND. induction 1 as [i Hi Hd IH]. intros p Ep. constructor. intros fn q Hfn Hq Hx.
  destruct (In_nth_error _ _ Hq) as [j Ej].
  apply (IH j); auto. rewrite (deps_nth _ _ _ Ep). apply in_proc_deps. exists fn. split; auto.
  eapply provider_index_nodup; eauto.
Qed.
Lemma grounded_G : forall p, Grounded ps p -> forall i, nth_error ps i = Some p -> G deps i.
Proof.
  induction 1 as [p Hp IH]. intros i Ep. constructor.
  - rewrite map_length. apply nth_error_Some. congruence.
  - intros j Hj. rewrite (deps_nth _ _ _ Ep) in Hj. apply in_proc_deps in Hj. destruct Hj as [fn [Hfn PI]].
    destruct (provider_index_some _ _ _ PI) as [q [Eq Hx]].
    apply (IH fn q); auto. eapply nth_error_In; eauto.
Qed.

Theorem procs_grounded_iff : NoDup (all_providers ps) -> (deps_acyclic ps = true <-> ProcsGrounded ps).
Proof.
  intros ND. unfold deps_acyclic. rewrite <- (map_length (proc_deps ps) ps).
  rewrite marks_all_iff, map_length. split.
  - intros H p Hp. destruct (In_nth_error _ _ Hp) as [i Ei]. apply (G_grounded ND i); auto.
    apply H. apply nth_error_Some. congruence.
  - intros H i Hi. destruct (nth_error ps i) as [p|] eqn:Ei; [|apply nth_error_None in Ei; lia].
    apply (grounded_G p); auto. apply H. eapply nth_error_In; eauto.
Qed.
End Procs.

(* ---------------------------------------------------------------- 3. permutation *)
Lemma grounded_perm ps ps' : Permutation ps ps' -> forall p, Grounded ps p -> Grounded ps' p.
Proof.
  intros P. induction 1 as [p Hp IH]. constructor. intros fn q Hfn Hq Hx. apply (IH fn q); auto.
  eapply Permutation_in; [apply Permutation_sym; exact P|exact Hq].
Qed.
Lemma procs_grounded_perm ps ps' : Permutation ps ps' -> ProcsGrounded ps -> ProcsGrounded ps'.
Proof.
  intros P H p Hp. apply (grounded_perm ps ps' P). apply H.
  eapply Permutation_in; [apply Permutation_sym; exact P|exact Hp].
Qed.

Theorem deps_acyclic_perm ps ps' : NoDup (all_providers ps) -> Permutation ps ps' -> deps_acyclic ps' = deps_acyclic ps.
Proof.
  intros ND P.
  assert (ND' : NoDup (all_providers ps')).
  { eapply Permutation_NoDup; [|exact ND]. unfold all_providers. now apply Permutation_flat_map. }
  destruct (deps_acyclic ps) eqn:A, (deps_acyclic ps') eqn:A'; auto.
  - apply (procs_grounded_iff ps ND) in A. apply (procs_grounded_perm _ _ P) in A.
    apply (procs_grounded_iff ps' ND') in A. congruence.
  - apply (procs_grounded_iff ps' ND') in A'. apply (procs_grounded_perm _ _ (Permutation_sym P)) in A'.
    apply (procs_grounded_iff ps ND) in A'. congruence.
Qed.
