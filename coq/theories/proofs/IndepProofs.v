(* proofs/IndepProofs.v — C06 for one body: every sequent of the derivation of an accepted body is
   accepted by the checker, keeps the invariant (well-formed types everywhere, independence when the
   root is independent or the sequent is the root of a spawned process), and its cast/shift/drop/
   split side conditions hold.  Section hypotheses: the two facts about the type environment and
   the well-formedness of signature types; IndepTop.v discharges them. *)
Require Import Grits.Base Grits.ModeDefs Grits.Modes Grits.STypes Grits.Forms Grits.Subst Grits.Infer
               Grits.TcDeps Grits.Expand Grits.Tc Grits.spec.Linear Grits.spec.Sequents
               Grits.proofs.TcInv Grits.proofs.LinearProofs Grits.proofs.WfFacts.

Lemma as_tensor_some t l r m : as_tensor t = Some (l, r, m) -> t = Some (TTensor l r m).
Proof. destruct t as [[]|]; cbn; intros H; inversion H; auto. Qed.
Lemma as_lolli_some t l r m : as_lolli t = Some (l, r, m) -> t = Some (TLolli l r m).
Proof. destruct t as [[]|]; cbn; intros H; inversion H; auto. Qed.
Lemma as_plus_some t bs m : as_plus t = Some (bs, m) -> t = Some (TPlus bs m).
Proof. destruct t as [[]|]; cbn; intros H; inversion H; auto. Qed.
Lemma as_with_some t bs m : as_with t = Some (bs, m) -> t = Some (TWith bs m).
Proof. destruct t as [[]|]; cbn; intros H; inversion H; auto. Qed.
Lemma as_up_some t f to a : as_up t = Some (f, to, a) -> t = Some (TUp f to a).
Proof. destruct t as [[]|]; cbn; intros H; inversion H; auto. Qed.
Lemma as_down_some t f to a : as_down t = Some (f, to, a) -> t = Some (TDown f to a).
Proof. destruct t as [[]|]; cbn; intros H; inversion H; auto. Qed.

Lemma split_gamma_nonself D ns : forall g acc, split_gamma D g ns acc = split_gamma D g (nonself ns) acc.
Proof.
  induction ns as [|n r IH]; intros g acc; cbn; auto.
  destruct (is_self n) eqn:E; cbn; auto. rewrite E.
  destruct (consume_opt n g) as [[t|] g']; auto. destruct (unfold_opt D t); cbn; auto.
Qed.

Lemma alookup_in_snd {V} x (g : list (string * V)) v : alookup x g = Some v -> In v (map snd g).
Proof.
  induction g as [|[k w] r IH]; cbn; try discriminate. destruct (String.eqb x k).
  - intros H; inversion H; auto.
  - intros H; right; auto.
Qed.

Section Indep.
Variable D : tenv.
Variable Sg : sigma.
Hypothesis env_wf : forall x d, tlookup D x = Some d -> check_wf D (td_body d) = true.
Hypothesis env_moded : forall x d, tlookup D x = Some d -> mode_of (td_body d) = td_mode d.
Hypothesis sig_wf : forall fn sg, sig_lookup Sg fn = Some sg -> wf_ty D (fs_type sg).

Definition wf_ctx (g : ctx) : Prop := forall x tx, alookup x g = Some tx -> wf_ty D tx.
Definition indep_ctx (g : ctx) (pty : option sty) : Prop :=
  forall x tx, alookup x g = Some tx -> down (omode tx) (omode pty) = true.
Definition Inv (ind : bool) (g : ctx) (pty : option sty) : Prop :=
  wf_ctx g /\ wf_ty D pty /\ (ind = true -> indep_ctx g pty).

Lemma uo t t' : unfold_opt D t = TOk t' -> unf D t = t'.
Proof.
  unfold unfold_opt, unf, lift. destruct t as [t0|]; [|intros H; inversion H; auto].
  destruct (unfold D t0); intros H; inversion H; auto.
Qed.
Lemma uo_wf t t' : wf_ty D t -> unfold_opt D t = TOk t' -> wf_ty D t' /\ omode t' = omode t.
Proof.
  intros Hw H. apply (unfold_wf D env_wf env_moded t t' Hw).
  destruct Hw as (t0 & -> & _). cbn in H. now apply lift_ok in H.
Qed.

Lemma wf_some t : check_wf D t = true -> wf_ty D (Some t).
Proof. intros; exists t; auto. Qed.
Lemma wf_inv t : wf_ty D (Some t) -> check_wf D t = true.
Proof. intros (t0 & E & H). inversion E; subst; auto. Qed.

Lemma wf_ctx_nil : wf_ctx [].
Proof. intros x tx H. discriminate H. Qed.
Lemma wf_ctx_aremove g y : wf_ctx g -> wf_ctx (aremove y g).
Proof. intros H x tx. rewrite alookup_aremove. destruct (String.eqb x y); [discriminate|apply H]. Qed.
Lemma wf_ctx_aset g y t : wf_ctx g -> wf_ty D t -> wf_ctx (aset y t g).
Proof. intros H Ht x tx. rewrite alookup_aset. destruct (String.eqb x y); [intros E; inversion E; subst; auto|apply H]. Qed.
Lemma indep_aremove g y p : indep_ctx g p -> indep_ctx (aremove y g) p.
Proof. intros H x tx. rewrite alookup_aremove. destruct (String.eqb x y); [discriminate|apply H]. Qed.
Lemma indep_aset g y t p : indep_ctx g p -> down (omode t) (omode p) = true -> indep_ctx (aset y t g) p.
Proof. intros H Ht x tx. rewrite alookup_aset. destruct (String.eqb x y); [intros E; inversion E; subst; auto|apply H]. Qed.
Lemma indep_mode g p p' : indep_ctx g p -> omode p' = omode p -> indep_ctx g p'.
Proof. intros H E x tx Hx. rewrite E. eauto. Qed.

Lemma Inv_aremove ind g y p : Inv ind g p -> Inv ind (aremove y g) p.
Proof. intros (A & B & C). repeat split; auto using wf_ctx_aremove. intros; apply indep_aremove; auto. Qed.
Lemma Inv_aset ind g y t p : Inv ind g p -> wf_ty D t -> (ind = true -> down (omode t) (omode p) = true) -> Inv ind (aset y t g) p.
Proof. intros (A & B & C) Ht Hd. repeat split; auto using wf_ctx_aset. intros; apply indep_aset; auto. Qed.
Lemma Inv_ty ind g p p' : Inv ind g p -> wf_ty D p' -> omode p' = omode p -> Inv ind g p'.
Proof. intros (A & B & C) Hw E. repeat split; auto. intros; eapply indep_mode; eauto. Qed.
Lemma Inv_lookup ind g p x tx : Inv ind g p -> alookup x g = Some tx -> wf_ty D tx /\ (ind = true -> down (omode tx) (omode p) = true).
Proof. intros (A & B & C) H. split; eauto. intros; eapply C; eauto. Qed.
Lemma wf_omode_proper t : wf_ty D t -> proper (omode t) = true.
Proof. intros (t0 & -> & H). cbn. eapply wf_proper; eauto. Qed.

Definition Acc (s : sequent) : Prop :=
  exists sh' f', shid sh' = sq_sh s /\ tc_form D Sg (sq_ctx s) sh' (sq_ty s) (sq_form s) = TOk f'.
Definition Good (ind : bool) (s : sequent) : Prop :=
  Inv (ind || sq_spawned s) (sq_ctx s) (sq_ty s) /\ Acc s.

Lemma consume_lookup n g t g1 : consume n g = TOk (t, g1) -> alookup (ident n) g = Some t /\ g1 = aremove (ident n) g.
Proof. intros H. apply consume_ok in H. tauto. Qed.

Lemma indep_one_ok a b : indep_one a b = TOk tt -> down (omode a) (omode b) = true.
Proof.
  unfold indep_one. intros H. tinv H.
  repeat match goal with E : need _ _ = TOk _ |- _ => apply need_ok in E; subst end.
  match goal with E : lift (down_o _ _) = TOk _ |- _ => apply lift_ok in E; unfold down_o in E end.
  match goal with E : (if ?c then _ else _) = Ok _ |- _ => destruct c; inversion E; subst end.
  match goal with G : guard _ _ = TOk _ |- _ => apply guard_ok in G end. cbn. auto.
Qed.
Lemma indep_all_ok ls b : indep_all ls b = TOk tt -> forall a, In a ls -> down (omode a) (omode b) = true.
Proof.
  induction ls as [|l r IH]; cbn; intros H a Hin; [contradiction|].
  tinv H. repeat match goal with u : unit |- _ => destruct u end. destruct Hin as [<-|Hin].
  - now apply indep_one_ok.
  - apply IH; auto.
Qed.

Lemma split_gamma_wf ns : forall g acc gl gr, wf_ctx g -> wf_ctx acc -> split_gamma D g ns acc = TOk (gl, gr) ->
  wf_ctx gl /\ (forall x tx, alookup x gr = Some tx -> alookup x g = Some tx).
Proof.
  induction ns as [|n r IH]; intros g acc gl gr Hg Ha H; cbn in H.
  - inversion H; subst. auto.
  - destruct (is_self n); [eapply IH; eauto|].
    destruct (consume_opt n g) as [[t|] g'] eqn:Hc; try discriminate.
    apply tbind_ok in H. destruct H as (t' & Hu & H).
    apply consume_opt_some in Hc. destruct Hc as (_ & Hl & ->).
    destruct (uo_wf _ _ (Hg _ _ Hl) Hu) as (Hw & _).
    destruct (IH _ _ _ _ (wf_ctx_aremove _ _ Hg) (wf_ctx_aset _ _ _ Ha Hw) H) as (I1 & I2).
    split; auto. intros x tx Hx. apply I2 in Hx. rewrite alookup_aremove in Hx.
    destruct (String.eqb x (ident n)); [discriminate|auto].
Qed.

Ltac uo_rw := repeat match goal with E : unfold_opt _ ?t = TOk ?a |- context [unf _ ?t] => rewrite (uo _ _ E) end.
Ltac good_here HI1 shx kx :=
  split; [cbn [sq_spawned sq_ctx sq_ty]; rewrite ?orb_false_r; exact HI1 | exists shx, kx; cbn; auto].

Lemma indep_main :
  (forall f ind g sh pty f', tc_form D Sg g sh pty f = TOk f' -> Inv ind g pty ->
      Forall (Good ind) (subseq D Sg g (shid sh) pty f)) /\
  (forall bs,
     (forall ind g tbs seen r m, tc_branches_provider D Sg g tbs seen bs = TOk r -> wf_ctx g ->
        (forall l bt, find_br l tbs = Some bt -> check_wf D bt = true /\ mode_of bt = m) ->
        (ind = true -> forall x tx, alookup x g = Some tx -> down (omode tx) m = true) ->
        Forall (Good ind) (subseq_bp D Sg g tbs bs)) /\
     (forall ind g sh pty tbs seen r m, tc_branches_client D Sg g sh pty tbs seen bs = TOk r -> Inv ind g pty ->
        (forall l bt, find_br l tbs = Some bt -> check_wf D bt = true /\ mode_of bt = m) ->
        (ind = true -> down m (omode pty) = true) ->
        Forall (Good ind) (subseq_bc D Sg g (shid sh) pty tbs bs))).
Proof.
  apply form_branches_ind; try (intros; cbn [subseq]; constructor; fail).
  - (* FRecv *)
    intros pay cont from k IHk ind g sh pty f' H HI. prep H. tinv H; norm; cbn [subseq].
    + (* ImpR *)
      match goal with Hq : prov_ref _ from = true |- _ => rewrite Hq end.
      match goal with Ha : as_lolli _ = Some _ |- _ => apply as_lolli_some in Ha; subst end.
      uo_rw.
      destruct HI as (A & B & C).
      match goal with E : unfold_opt D pty = TOk _ |- _ => destruct (uo_wf _ _ B E) as (Wp & Mp) end.
      apply wf_inv, (comp_lolli D) in Wp. destruct Wp as (Wl & Wr & Ml & Mr).
      match goal with E : unfold_opt D (Some ?l) = TOk ?nl, E' : unfold_opt D (Some ?r) = TOk ?nr,
                      Hk : tc_form D Sg (aset _ ?nl g) ?s1 ?nr k = TOk ?k' |- _ =>
        destruct (uo_wf _ _ (wf_some _ Wl) E) as (Wnl & Mnl); destruct (uo_wf _ _ (wf_some _ Wr) E') as (Wnr & Mnr);
        assert (HI1 : Inv ind (aset (ident pay) nl g) nr);
        [ apply Inv_aset; auto;
          [ apply Inv_ty with pty; [repeat split; auto| auto | cbn in *; congruence]
          | intros _; rewrite Mnl, Mnr; cbn; rewrite Ml, Mr; apply down_refl; rewrite <- Mr; now apply (wf_proper D) ]
        | constructor; [good_here HI1 s1 k' | exact (IHk _ _ _ _ _ Hk HI1)] ]
      end.
    + (* MulL *)
      match goal with Hq : prov_ref _ from = false |- _ => rewrite Hq end.
      match goal with Hc : consume from g = TOk _ |- _ => apply consume_lookup in Hc; destruct Hc as (Hl & ->) end.
      rewrite Hl.
      match goal with Ha : as_tensor _ = Some _ |- _ => apply as_tensor_some in Ha; subst end.
      uo_rw.
      destruct (Inv_lookup _ _ _ _ _ HI Hl) as (Wc & Dc).
      match goal with E : unfold_opt D _ = TOk (Some (TTensor _ _ _)) |- _ => destruct (uo_wf _ _ Wc E) as (Wp & Mp) end.
      apply wf_inv, (comp_tensor D) in Wp. destruct Wp as (Wl & Wr & Ml & Mr).
      match goal with E : unfold_opt D (Some ?l) = TOk ?nl, E' : unfold_opt D (Some ?r) = TOk ?nr,
                      Hk : tc_form D Sg (aset _ ?nr (aset _ ?nl _)) sh pty k = TOk ?k' |- _ =>
        destruct (uo_wf _ _ (wf_some _ Wl) E) as (Wnl & Mnl); destruct (uo_wf _ _ (wf_some _ Wr) E') as (Wnr & Mnr);
        assert (HI1 : Inv ind (aset (ident cont) nr (aset (ident pay) nl (aremove (ident from) g))) pty);
        [ apply Inv_aset; auto; [apply Inv_aset; auto; [now apply Inv_aremove|]|];
          intros Hi; specialize (Dc Hi); cbn in *; congruence
        | constructor; [good_here HI1 sh k' | exact (IHk _ _ _ _ _ Hk HI1)] ]
      end.
  - (* FCase *)
    intros from bs [IHp IHc] ind g sh pty f' H HI.
    rewrite tc_form_case_eq, ?is_provider_prov in H. tinv H; norm; cbn [subseq].
    + match goal with Hq : prov_ref _ from = true |- _ => rewrite Hq end.
      match goal with Ha : as_with _ = Some _ |- _ => apply as_with_some in Ha; subst end.
      uo_rw. destruct HI as (A & B & C).
      match goal with E : unfold_opt D pty = TOk _ |- _ => destruct (uo_wf _ _ B E) as (Wp & Mp) end.
      apply wf_inv in Wp.
      match goal with Hb : tc_branches_provider _ _ _ _ _ bs = TOk _ |- _ => eapply (IHp _ _ _ _ _ _ Hb A) end.
      * intros l0 bt0 Hf0. eapply comp_with; eauto.
      * intros Hi x tx Hx. specialize (C Hi x tx Hx). cbn in *. congruence.
    + match goal with Hq : prov_ref _ from = false |- _ => rewrite Hq end.
      match goal with Hc : consume from g = TOk _ |- _ => apply consume_lookup in Hc; destruct Hc as (Hl & ->) end.
      rewrite Hl.
      match goal with Ha : as_plus _ = Some _ |- _ => apply as_plus_some in Ha; subst end.
      uo_rw.
      destruct (Inv_lookup _ _ _ _ _ HI Hl) as (Wc & Dc).
      match goal with E : unfold_opt D _ = TOk (Some (TPlus _ _)) |- _ => destruct (uo_wf _ _ Wc E) as (Wp & Mp) end.
      apply wf_inv in Wp.
      match goal with Hb : tc_branches_client _ _ _ _ _ _ _ bs = TOk _ |- _ => eapply (IHc _ _ _ _ _ _ _ _ Hb (Inv_aremove _ _ _ _ HI)) end.
      * intros l0 bt0 Hf0. eapply comp_plus; eauto.
      * intros Hi. specialize (Dc Hi). cbn in *. congruence.
  - (* FNew *)
    intros y body _ k IHk ind g sh pty f' H HI.
    apply tc_new_inv in H.
    destruct H as (Hp & Hc & Hr & ns & gl & gr0 & bt & xs & tk & gr & b' & k' & Hs & Hns & Hia & Hio & Hxs & Hb & Hgr & _ & Hk & Hty).
    cbn [subseq]. rewrite <- Hns, <- split_gamma_nonself, Hs.
    destruct HI as (A & B & C).
    destruct (split_gamma_wf _ _ _ _ _ A wf_ctx_nil Hs) as (Wgl & Sub).
    assert (Hct : cut_type D Sg y body = bt /\ cut_cont_type D body bt = tk /\ wf_ty D bt /\ wf_ty D tk /\ omode tk = omode bt).
    { destruct body; try discriminate Hc; cbn [cut_type cut_cont_type];
        try (destruct Hty as (xt & xt1 & E1 & E2 & E3 & E4 & E5); rewrite E1, E2; uo_rw;
             destruct (uo_wf _ _ (wf_some _ E3) E4) as (W1 & M1); destruct (uo_wf _ _ W1 E5) as (W2 & M2); auto; fail).
      destruct Hty as (sg & E1 & E2 & ->). rewrite E1. uo_rw.
      destruct (uo_wf _ _ (sig_wf _ _ E1) E2) as (W1 & M1). auto. }
    destruct Hct as (-> & -> & Wbt & Wtk & Mtk).
    assert (Hgk : aset (ident y) tk gr = aset (ident y) tk gr0).
    { destruct Hgr as [->|(t & ->)]; auto. apply aset_aset. }
    rewrite Hgk in Hk.
    assert (HIb : Inv (ind || true) gl bt).
    { rewrite orb_true_r. repeat split; auto. intros _ x tx Hx.
      apply (indep_all_ok _ _ Hia). eapply alookup_in_snd; eauto. }
    assert (HIk : Inv ind (aset (ident y) tk gr0) pty).
    { apply Inv_aset; auto.
      - repeat split; auto.
        + intros x tx Hx. apply Sub in Hx. eauto.
        + intros Hi x tx Hx. apply Sub in Hx. eapply C; eauto.
      - intros _. rewrite Mtk. now apply indep_one_ok. }
    constructor; [|constructor].
    + split; [exact HIb|]. exists (Some xs), b'. cbn. rewrite Hxs. auto.
    + good_here HIk sh k'.
    + exact (IHk _ _ _ _ _ Hk HIk).
  - (* FWait *)
    intros c k IHk ind g sh pty f' H HI. prep H. tinv H; norm; cbn [subseq].
    match goal with Hc : consume c g = TOk _ |- _ => apply consume_lookup in Hc; destruct Hc as (Hl & ->) end.
    rewrite Hl.
    match goal with Hk : tc_form D Sg _ sh pty k = TOk ?k' |- _ =>
      pose proof (Inv_aremove _ _ (ident c) _ HI) as HI1;
      constructor; [good_here HI1 sh k' | exact (IHk _ _ _ _ _ Hk HI1)] end.
  - (* FSplit *)
    intros a b from k IHk ind g sh pty f' H HI. prep H. tinv H; norm; cbn [subseq].
    match goal with Hc : consume_opt from g = (Some _, _) |- _ => apply consume_opt_some in Hc; destruct Hc as (_ & Hl & ->) end.
    rewrite Hl. uo_rw.
    destruct (Inv_lookup _ _ _ _ _ HI Hl) as (Wc & Dc).
    match goal with E : unfold_opt D _ = TOk ?ft', Hk : tc_form D Sg _ sh pty k = TOk ?k' |- _ =>
      destruct (uo_wf _ _ Wc E) as (Wp & Mp);
      assert (HI1 : Inv ind (aset (ident b) ft' (aset (ident a) ft' (aremove (ident from) g))) pty);
      [ apply Inv_aset; auto; [apply Inv_aset; auto; [now apply Inv_aremove|]|];
        intros Hi; specialize (Dc Hi); cbn in *; congruence
      | constructor; [good_here HI1 sh k' | exact (IHk _ _ _ _ _ Hk HI1)] ]
    end.
  - (* FShift *)
    intros y from k IHk ind g sh pty f' H HI. prep H. tinv H; norm; cbn [subseq].
    + (* UpSR *)
      match goal with Hq : prov_ref _ from = true |- _ => rewrite Hq end.
      match goal with Ha : as_up _ = Some _ |- _ => apply as_up_some in Ha; subst end.
      uo_rw. destruct HI as (A & B & C).
      match goal with E : unfold_opt D pty = TOk _ |- _ => destruct (uo_wf _ _ B E) as (Wp & Mp) end.
      apply wf_inv, (comp_up D) in Wp. destruct Wp as (Wa & Ma & Hup).
      match goal with E : unfold_opt D (Some ?a) = TOk ?ec, Hk : tc_form D Sg g ?s1 ?ec k = TOk ?k' |- _ =>
        destruct (uo_wf _ _ (wf_some _ Wa) E) as (Wec & Mec);
        assert (HI1 : Inv ind g ec);
        [ repeat split; auto; intros Hi x tx Hx; specialize (C Hi x tx Hx);
          rewrite Mec; cbn in *; rewrite Ma; eapply down_up; eauto; congruence
        | constructor; [good_here HI1 s1 k' | exact (IHk _ _ _ _ _ Hk HI1)] ]
      end.
    + (* DnSL *)
      match goal with Hq : prov_ref _ from = false |- _ => rewrite Hq end.
      match goal with Hc : consume from g = TOk _ |- _ => apply consume_lookup in Hc; destruct Hc as (Hl & ->) end.
      rewrite Hl.
      match goal with Ha : as_down _ = Some _ |- _ => apply as_down_some in Ha; subst end.
      uo_rw.
      destruct (Inv_lookup _ _ _ _ _ HI Hl) as (Wc & Dc).
      match goal with E : unfold_opt D _ = TOk (Some (TDown _ _ _)) |- _ => destruct (uo_wf _ _ Wc E) as (Wp & Mp) end.
      apply wf_inv, (comp_down D) in Wp. destruct Wp as (Wa & Ma & Hdn).
      match goal with E : unfold_opt D (Some ?a) = TOk ?nc, Hk : tc_form D Sg (aset _ ?nc _) sh pty k = TOk ?k' |- _ =>
        destruct (uo_wf _ _ (wf_some _ Wa) E) as (Wnc & Mnc);
        assert (HI1 : Inv ind (aset (ident y) nc (aremove (ident from) g)) pty);
        [ apply Inv_aset; auto; [now apply Inv_aremove|];
          intros Hi; specialize (Dc Hi); rewrite Mnc; cbn in *; rewrite Ma; eapply down_trans; eauto; congruence
        | constructor; [good_here HI1 sh k' | exact (IHk _ _ _ _ _ Hk HI1)] ]
      end.
  - (* FDrop *)
    intros c k IHk ind g sh pty f' H HI. prep H. tinv H; norm; cbn [subseq].
    match goal with Hc : consume c g = TOk _ |- _ => apply consume_lookup in Hc; destruct Hc as (Hl & ->) end.
    rewrite Hl.
    match goal with Hk : tc_form D Sg _ sh pty k = TOk ?k' |- _ =>
      pose proof (Inv_aremove _ _ (ident c) _ HI) as HI1;
      constructor; [good_here HI1 sh k' | exact (IHk _ _ _ _ _ Hk HI1)] end.
  - (* FPrint *)
    intros l k IHk ind g sh pty f' H HI. prep H. tinv H; norm; cbn [subseq].
    match goal with Hk : tc_form D Sg _ sh pty k = TOk ?k' |- _ =>
      constructor; [good_here HI sh k' | exact (IHk _ _ _ _ _ Hk HI)] end.
  - (* BrNil *)
    split; intros; constructor.
  - (* BrCons *)
    intros l pay k IHk r [IHp IHc]. split.
    + intros ind g tbs seen res m H A Hbs Hd.
      rewrite tc_branches_provider_cons in H. tinv H; norm. cbn [subseq_bp].
      match goal with Hf : find_br l tbs = Some ?bt |- _ => rewrite Hf; destruct (Hbs _ _ Hf) as (Wb & Mb) end.
      apply Forall_app. split.
      * match goal with Hk : tc_form D Sg g ?s1 (Some ?bt) k = TOk ?k' |- _ =>
          assert (HI1 : Inv ind g (Some bt)) by (repeat split; auto using wf_some; intros Hi x tx Hx; cbn; rewrite Mb; eauto);
          constructor; [good_here HI1 s1 k' | exact (IHk _ _ _ _ _ Hk HI1)] end.
      * match goal with Hr : tc_branches_provider _ _ _ _ _ r = TOk _ |- _ => eapply (IHp _ _ _ _ _ _ Hr); eauto end.
    + intros ind g sh pty tbs seen res m H HI Hbs Hd.
      rewrite tc_branches_client_cons, ?is_provider_prov in H. tinv H; norm. cbn [subseq_bc].
      match goal with Hf : find_br l tbs = Some ?bt |- _ => rewrite Hf; destruct (Hbs _ _ Hf) as (Wb & Mb) end.
      apply Forall_app. split.
      * match goal with Hk : tc_form D Sg (aset _ (Some ?bt) g) sh pty k = TOk ?k' |- _ =>
          assert (HI1 : Inv ind (aset (ident pay) (Some bt) g) pty) by (apply Inv_aset; auto using wf_some; intros Hi; cbn; rewrite Mb; auto);
          constructor; [good_here HI1 sh k' | exact (IHk _ _ _ _ _ Hk HI1)] end.
      * match goal with Hr : tc_branches_client _ _ _ _ _ _ _ r = TOk _ |- _ => eapply (IHc _ _ _ _ _ _ _ _ Hr); eauto end.
Qed.

Lemma down_o_ok a b ok : lift (down_o a b) = TOk ok -> ok = down a b.
Proof. unfold down_o. destruct (proper a && proper b); cbn; intros H; inversion H; auto. Qed.
Lemma up_o_ok a b ok : lift (up_o a b) = TOk ok -> ok = up a b.
Proof. unfold up_o. destruct (proper a && proper b); cbn; intros H; inversion H; auto. Qed.

Lemma acc_shift_legal s : Acc s -> shift_legal D s.
Proof.
  destruct s as [sp g s0 pty f]. unfold Acc, shift_legal. cbn. intros (sh & f' & <- & H).
  destruct f; auto.
  - (* FCast *)
    prep H. tinv H; norm.
    + try match goal with Hq : prov_ref _ to = true |- _ => rewrite Hq end.
      match goal with Ha : as_down _ = Some _ |- _ => apply as_down_some in Ha; subst end. uo_rw.
      match goal with E : lift (down_o _ _) = TOk _ |- _ => apply down_o_ok in E; subst end. auto.
    + try match goal with Hq : prov_ref _ to = false |- _ => rewrite Hq end.
      match goal with Hc : consume to g = TOk _ |- _ => apply consume_lookup in Hc; destruct Hc as (Hl & ->) end.
      rewrite Hl.
      match goal with Ha : as_up _ = Some _ |- _ => apply as_up_some in Ha; subst end. uo_rw.
      match goal with E : lift (up_o _ _) = TOk _ |- _ => apply up_o_ok in E; subst end. auto.
  - (* FShift *)
    prep H. tinv H; norm.
    + try match goal with Hq : prov_ref _ from = true |- _ => rewrite Hq end.
      match goal with Ha : as_up _ = Some _ |- _ => apply as_up_some in Ha; subst end. uo_rw.
      match goal with E : lift (up_o _ _) = TOk _ |- _ => apply up_o_ok in E; subst end. auto.
    + try match goal with Hq : prov_ref _ from = false |- _ => rewrite Hq end.
      match goal with Hc : consume from g = TOk _ |- _ => apply consume_lookup in Hc; destruct Hc as (Hl & ->) end.
      rewrite Hl.
      match goal with Ha : as_down _ = Some _ |- _ => apply as_down_some in Ha; subst end. uo_rw.
      match goal with E : lift (down_o _ _) = TOk _ |- _ => apply down_o_ok in E; subst end. auto.
Qed.

Lemma good_drop_split ind s : Good ind s -> drop_split_legal s.
Proof.
  destruct s as [sp g s0 pty f]. unfold Good, Acc, drop_split_legal. cbn. intros (HI & sh & f' & <- & H).
  destruct f; auto.
  - (* FSplit *)
    prep H. tinv H; norm.
    match goal with Hc : consume_opt from g = (Some _, _) |- _ => apply consume_opt_some in Hc; destruct Hc as (_ & Hl & ->) end.
    destruct (Inv_lookup _ _ _ _ _ HI Hl) as (Wc & _).
    match goal with E : unfold_opt D _ = TOk _ |- _ => destruct (uo_wf _ _ Wc E) as (Wp & Mp) end.
    match goal with E : need _ _ = TOk _ |- _ => apply need_ok in E; subst end.
    destruct Wc as (t0 & -> & _). exists t0. split; auto. cbn in Mp. now rewrite <- Mp.
  - (* FDrop *)
    prep H. tinv H; norm.
    match goal with Hc : consume c g = TOk _ |- _ => apply consume_lookup in Hc; destruct Hc as (Hl & ->) end.
    match goal with E : need _ _ = TOk _ |- _ => apply need_ok in E; subst end.
    eexists; split; eauto.
Qed.

Lemma Inv_independent g sh pty f sp : Inv true g pty -> independent (mkSeq sp g sh pty f).
Proof.
  intros (A & (t & -> & _) & C). exists t. split; auto. cbn. intros x tx Hx.
  destruct (A _ _ Hx) as (t' & -> & _). exists t'. split; auto. exact (C eq_refl _ _ Hx).
Qed.

Definition legal (s : sequent) : Prop := shift_legal D s /\ drop_split_legal s.

Theorem tc_form_sequents ind g sh pty f f' :
  tc_form D Sg g sh pty f = TOk f' -> Inv ind g pty ->
  Forall (fun s => ((ind || sq_spawned s) = true -> independent s) /\ legal s) (sequents D Sg g (shid sh) pty f).
Proof.
  intros H HI.
  assert (HG : Forall (Good ind) (sequents D Sg g (shid sh) pty f)).
  { constructor; [|exact (proj1 indep_main _ _ _ _ _ _ H HI)].
    split; [cbn; now rewrite orb_false_r|]. exists sh, f'. cbn. auto. }
  eapply Forall_impl; [|exact HG]. intros s (HIs & Ha). split; [|split].
  - intros E. rewrite E in HIs. destruct s; now apply Inv_independent.
  - now apply acc_shift_legal.
  - eapply good_drop_split. split; eauto.
Qed.
End Indep.
