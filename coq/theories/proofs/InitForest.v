(* InitForest.v — `init_linear p'` (TopoReach.v) derived from acceptance by the checker:
     typecheck p = Accept p'  +  a decidable syntactic test on the SOURCE p (core fragment: no drop,
     no split, no droppable forward, one provider name per process; no empty case)  +  raw_ok p
     =>  init_linear p'.
   Ingredients: the output of the checker is its input up to annotations (TcShape, TcShapeTop), affinity of the
   bodies from C05 (LinBridge), the initial substitution renames path keys (TopoLin.pnames_subst),
   each declared name is used by at most one process and the uses are acyclic (C07's ProgOK:
   pk_uses_once, pk_acyclic; rank from the marking order of the acyclicity test). *)
From stdpp Require Import gmap strings sorting.
Require Import Grits.Base Grits.ModeDefs Grits.Modes Grits.STypes Grits.Forms Grits.Subst Grits.TcDeps Grits.Expand
               Grits.Tc Grits.TcTop Grits.Runtime Grits.RuntimeFootprint
               Grits.spec.RtTyping Grits.spec.Topo Grits.spec.Linear Grits.proofs.RtSubst Grits.proofs.RtSafety
               Grits.proofs.RtInit Grits.proofs.RtTheorems.
Require Import Grits.proofs.RuntimeFacts Grits.proofs.AsyncSync Grits.proofs.TopoLin Grits.proofs.TopoStep
               Grits.proofs.TopoReach Grits.proofs.TcShape Grits.proofs.LinBridge.

(* ------------------------------------------------------------------ renamed paths *)
Lemma in_map_ren_KC x kc l k : In (KC k) (map (ren x kc) l) -> In (KC k) l \/ (k = kc /\ In (KV x) l).
Proof.
  intros H. apply in_map_iff in H as (q & E & Hq). destruct q as [k'|y]; simpl in E.
  - injection E as ->. by left.
  - destruct (String.eqb y x) eqn:Ey; [|discriminate]. apply String.eqb_eq in Ey as ->. injection E as ->. right. done.
Qed.
Lemma in_map_ren_KV x kc l z : In (KV z) (map (ren x kc) l) -> In (KV z) l.
Proof.
  intros H. apply in_map_iff in H as (q & E & Hq). destruct q as [k'|y]; simpl in E; [discriminate|].
  destruct (String.eqb y x); [discriminate|]. by injection E as ->.
Qed.

Section Fold.
Variable D : tenv.
Variable F : list fundef.
Variable teq : sty -> sty -> Prop.

Definition tri := (name * name * option sty)%type.
Definition t_old (x : tri) : name := fst (fst x).
Definition t_new (x : tri) : name := snd (fst x).
Definition fold_sub (l : list tri) (b : form) : form :=
  fold_left (fun b '(old, new) => subst old new b) (map (fun x : tri => (t_old x, t_new x)) l) b.
Definition new_chans (l : list tri) : list cid := flat_map (fun x => name_chans (t_new x)) l.

(* where the channels on the paths of the substituted body come from *)
Definition prov_of (l : list tri) (b B : form) : Prop :=
  forall pi' k, In pi' (pnames None B) -> In (KC k) pi' ->
    exists pi, In pi (pnames None b) /\
      (In (KC k) pi \/ exists x, In x l /\ chan (t_new x) = Some k /\ In (KV (ident (t_old x))) pi).

Lemma fold_subst_lin Δ rs s : forall (l : list tri) Γ b,
  teq_laws D teq ->
  NoDup (map (fun x => ident (t_old x)) l) ->
  Forall (fun x : tri => binder (t_old x) /\ ident (t_old x) ∉ rs /\
                         forall t, snd x = Some t -> is_chan_of teq Δ (t_new x) t) l ->
  (forall x A, Γ !! x = Some A -> exists old new, In (old, new, Some A) l /\ ident old = x) ->
  typed D F teq Δ Γ None rs s b ->
  NoDup (new_chans l) ->
  (forall k, In k (form_chans b) -> ~ In k (new_chans l)) ->
  affr None b ->
  affr None (fold_sub l b) /\ prov_of l b (fold_sub l b).
Proof.
  intros l Γ b Hlaws. revert Γ b. induction l as [|[[old new] ot] l IH]; intros Γ b Hnd Hall HP Hty Hnc Hfr Haff.
  - split; [exact Haff|]. intros pi' k Hpi Hk. exists pi'. auto.
  - inversion Hall as [|? ? [Hb [Hrs Hc]] Hall']; subst. unfold t_old, t_new in Hb, Hrs, Hc. simpl in Hb, Hrs, Hc.
    inversion Hnd as [|? ? Hnin Hnd']; subst.
    unfold new_chans in Hnc. simpl in Hnc. fold (new_chans l) in Hnc.
    apply NoDup_app_inv in Hnc as (Hnc1 & Hnc2 & Hnc3).
    change (fold_sub ((old, new, ot) :: l) b) with (fold_sub l (subst old new b)).
    destruct (Γ !! ident old) as [A|] eqn:E.
    + assert (Hot : ot = Some A).
      { destruct (HP _ _ E) as [o [nw [[Heq|Hin] Hid]]]; [congruence|].
        exfalso. apply Hnin. apply in_map_iff. exists (o, nw, Some A). auto. }
      destruct (Hc A Hot) as (Hns & kc & T & Hkc & HT & HTA).
      assert (Hty1 : typed D F teq Δ (delete (ident old) Γ) None rs s (subst old new b)).
      { eapply (typed_subst D F teq Hlaws Δ _ None rs s b old new A); [apply Hb|exact (Hc A Hot)|discriminate|exact Hrs|].
        rewrite insert_delete; auto. }
      assert (Hty0 : typed D F teq Δ (<[ident old := A]> (delete (ident old) Γ)) None rs s b) by (rewrite insert_delete; auto).
      assert (Hkcb : ~ In kc (form_chans b)).
      { intros Hin. apply (Hfr kc Hin). unfold new_chans. simpl. apply in_app_iff. left. unfold t_new, name_chans. simpl. rewrite Hkc. by left. }
      destruct (IH (delete (ident old) Γ) (subst old new b)) as [IH1 IH2]; auto.
      * intros x A' Hx. apply lookup_delete_Some in Hx. destruct Hx as [Hne Hx].
        destruct (HP x A' Hx) as [o [nw [[Heq|Hin] Hid]]]; [injection Heq as -> -> ->; contradiction|eauto].
      * intros k Hk Hk'. apply form_chans_subst in Hk as [Hk|Hk].
        -- apply (Hfr k Hk). unfold new_chans. simpl. apply in_app_iff. by right.
        -- apply (Hnc3 k); auto.
      * eapply (affr_subst D F teq Hlaws Δ (delete (ident old) Γ) None rs s b old new kc A); auto; try apply Hb; discriminate.
      * split; [exact IH1|]. intros pi' k Hpi Hk. destruct (IH2 pi' k Hpi Hk) as (pi1 & Hpi1 & Hcase).
        rewrite (pnames_subst D F teq Hlaws Δ (delete (ident old) Γ) None rs s b old new kc A) in Hpi1;
          try apply Hb; try discriminate; auto.
        apply in_map_iff in Hpi1 as (pi & <- & Hpi0). exists pi. split; [done|].
        destruct Hcase as [Hk1|(x & Hx & Hxk & Hxv)].
        -- apply in_map_ren_KC in Hk1 as [Hk1|[-> Hk1]]; [by left|]. right. exists (old, new, ot). split; [by left|]. done.
        -- apply in_map_ren_KV in Hxv. right. exists x. split; [by right|]. done.
    + rewrite (subst_not_free D F teq Hlaws Δ Γ None rs s b old new); auto; try apply Hb; try discriminate.
      destruct (IH Γ b) as [IH1 IH2]; auto.
      * intros x A' Hx. destruct (HP x A' Hx) as [o [nw [[Heq|Hin] Hid]]]; [|eauto].
        injection Heq as -> -> ->. congruence.
      * intros k Hk Hk'. apply (Hfr k Hk). unfold new_chans. simpl. apply in_app_iff. by right.
      * split; [exact IH1|]. intros pi' k Hpi Hk. destruct (IH2 pi' k Hpi Hk) as (pi & Hpi0 & Hcase).
        exists pi. split; [done|]. destruct Hcase as [?|(x & Hx & ?)]; [by left|]. right. exists x. split; [by right|done].
Qed.

Lemma fold_sub_core l : forall b, core_form (fold_sub l b) = core_form b.
Proof.
  induction l as [|[[old new] ot] l IH]; intros b; [reflexivity|].
  change (fold_sub ((old, new, ot) :: l) b) with (fold_sub l (subst old new b)). by rewrite IH, core_subst.
Qed.
End Fold.

(* ------------------------------------------------------------------ the parts of init_config, once more *)
Lemma NoDup_app_intro {A} (l1 l2 : list A) : NoDup l1 -> NoDup l2 -> (forall x, In x l1 -> In x l2 -> False) -> NoDup (l1 ++ l2).
Proof.
  induction l1 as [|a r IH]; simpl; intros N1 N2 Dj; auto. inversion N1; subst. constructor.
  - rewrite in_app_iff. intros [H|H]; [tauto|]. apply (Dj a); auto.
  - apply IH; auto. intros x Hx Hr. apply (Dj x); auto.
Qed.

Lemma new_chans_app l1 l2 : new_chans (l1 ++ l2) = new_chans l1 ++ new_chans l2.
Proof. unfold new_chans. apply flat_map_app. Qed.

Lemma new_chans_row i t : forall provs j0,
  new_chans (map (fun x : name * name => (fst x, snd x, t)) (row_from i j0 provs)) = map (fun j => [i; j]) (seq j0 (length provs)).
Proof. induction provs as [|n r IH]; intros j0; simpl; [reflexivity|]. f_equal. apply IH. Qed.

Lemma new_chans_tops_elem k0 l k : In k (new_chans (tops_from k0 l)) ->
  exists i pr j n, l !! i = Some pr /\ pr_providers pr !! j = Some n /\ k = [(k0 + i)%nat; j].
Proof.
  unfold new_chans. intros H. apply in_flat_map in H as (x & Hx & Hk). apply tops_from_elem in Hx.
  destruct Hx as (i & pr & j & n & Hi & Hj & ->). unfold t_new, name_chans in Hk. simpl in Hk.
  destruct Hk as [<-|[]]. eauto 8.
Qed.

Lemma new_chans_tops_nodup : forall l k0, NoDup (new_chans (tops_from k0 l)).
Proof.
  induction l as [|pr l IH]; intros k0; simpl; [constructor|].
  rewrite new_chans_app, new_chans_row. apply NoDup_app_intro; auto.
  - apply FinFun.Injective_map_NoDup; [|apply seq_NoDup]. by intros a b [= ->].
  - intros k Hk Hk'. apply in_map_iff in Hk as (j & <- & _).
    apply new_chans_tops_elem in Hk' as (i & pr' & j' & n & _ & _ & E). injection E as E _. lia.
Qed.

Lemma fold_left_insert_keep {X} (h : gmap pid proc -> X -> gmap pid proc) (f : X -> pid) (g : X -> proc) l :
  (forall m x, h m x = <[f x := g x]> m) ->
  forall m0 q, ~ In q (map f l) -> fold_left h l m0 !! q = m0 !! q.
Proof.
  intros Hh. induction l as [|a l IH]; intros m0 q Hq; simpl; [reflexivity|].
  simpl in Hq. rewrite IH by tauto. rewrite Hh, lookup_insert_ne; [reflexivity|]. intros E. apply Hq. by left.
Qed.
Lemma fold_left_insert_get {X} (h : gmap pid proc -> X -> gmap pid proc) (f : X -> pid) (g : X -> proc) l :
  (forall m x, h m x = <[f x := g x]> m) -> NoDup (map f l) ->
  forall m0 x, In x l -> fold_left h l m0 !! f x = Some (g x).
Proof.
  intros Hh. induction l as [|a l IH]; intros Hnd m0 x Hx; simpl; [destruct Hx|].
  simpl in Hnd. inversion Hnd as [|? ? Hnin Hnd']; subst. destruct Hx as [->|Hx].
  - rewrite (fold_left_insert_keep h f g l Hh) by done. by rewrite Hh, lookup_insert.
  - by apply IH.
Qed.

Lemma combine_lookup {A B} (l1 : list A) (l2 : list B) i a b :
  l1 !! i = Some a -> l2 !! i = Some b -> combine l1 l2 !! i = Some (a, b).
Proof.
  revert i l2. induction l1 as [|x l1 IH]; intros i l2 H1 H2; destruct l2 as [|y l2]; try (destruct i; discriminate).
  destruct i as [|i]; simpl in *; [by injection H1 as ->; injection H2 as ->|]. by apply IH.
Qed.

Lemma init_config_procs_2 p i pr : p_procs p !! i = Some pr ->
  procs (init_config p) !! [i] =
    Some (Proc (map snd (init_provs i (pr_providers pr))) (init_body p pr) (length (init_provs i (pr_providers pr)))).
Proof.
  intros Hi. unfold init_config. cbn [procs].
  set (inits := imap (fun i pr => init_provs i (pr_providers pr)) (p_procs p)).
  set (L := imap (fun i x => (i, x)) (combine (p_procs p) inits)).
  assert (Hin : In (i, (pr, init_provs i (pr_providers pr))) L).
  { apply elem_of_list_In. apply elem_of_lookup_imap. exists i, (pr, init_provs i (pr_providers pr)). split; [done|].
    assert (Hl : inits !! i = Some (init_provs i (pr_providers pr))) by (unfold inits; by rewrite list_lookup_imap, Hi).
    by apply combine_lookup. }
  refine (fold_left_insert_get _ (fun x : nat * (procdef * list (name * name)) => [fst x])
           (fun x => Proc (map snd (snd (snd x))) (init_body p (fst (snd x))) (length (snd (snd x)))) L _ _ ∅ _ Hin).
  - intros m [i0 [pr0 ini]]. reflexivity.
  - unfold L. generalize (combine (p_procs p) inits). intros C.
    match goal with |- NoDup ?l => assert (E : l = (fun j : nat => ([j] : pid)) <$> seq 0 (length C)) end.
    { rewrite <- imap_seq_0.
      etransitivity; [apply (fmap_imap (fun (i0 : nat) (x : procdef * list (name * name)) => (i0, x)) (fun x => ([x.1] : pid)))|reflexivity]. }
    rewrite E. apply NoDup_ListNoDup. apply NoDup_fmap_2; [by intros a b [= ->]|apply NoDup_ListNoDup, seq_NoDup].
Qed.

Lemma cids_of_init_provs i provs k :
  k ∈ cids_of (map snd (init_provs i provs)) <-> exists j n, provs !! j = Some n /\ k = [i; j].
Proof.
  rewrite init_provs_row. unfold cids_of. rewrite elem_In, in_flat_map. split.
  - intros (n' & Hn' & Hk). apply in_map_iff in Hn' as ([a b] & <- & Hab). apply row_from_elem in Hab as (j & n & Hj & [= -> ->]).
    simpl in Hk. destruct Hk as [<-|[]]. eauto.
  - intros (j & n & Hj & ->). exists (chname i j n). split; [|simpl; by left].
    apply in_map_iff. exists (n, chname i j n). split; [done|]. apply elem_In. eapply elem_of_list_lookup_2.
    apply (row_from_lookup i 0 provs j n Hj).
Qed.

Lemma init_obj p o : obj_in (init_config p) o ->
  exists i pr, p_procs p !! i = Some pr /\
    o = OProc [i] (Proc (map snd (init_provs i (pr_providers pr))) (init_body p pr) (length (init_provs i (pr_providers pr)))).
Proof.
  destruct o as [q pq|k m]; simpl.
  - intros H. apply RtInit.init_config_procs in H. destruct H as (i & pr & Hi & Hq & Hpq). subst q pq. exists i, pr. split; [exact Hi|reflexivity].
  - intros (st & Hst & Hb). pose proof (bufs_empty_init p k st Hst). congruence.
Qed.

(* ------------------------------------------------------------------ the initial configuration is a forest *)
Section InitTopo.
Variable q : program.
Variable teq : sty -> sty -> Prop.
Hypothesis Hlaws : teq_laws (p_types q) teq.
Hypothesis Hst : static_typed teq q.
Hypothesis Haff : forall pr, In pr (p_procs q) -> affr None (pr_body pr).
(* us i: the declared names that process i may mention *)
Variable us : nat -> list string.
Hypothesis Hus : forall i pr pi x, p_procs q !! i = Some pr -> In pi (pnames None (pr_body pr)) -> In (KV x) pi -> In x (us i).
Hypothesis Hdisj : forall i i' x, In x (us i) -> In x (us i') -> i = i'.
Variable pos : nat -> nat.
Variable M : nat.
Hypothesis Hpos : forall i i' pr' n, In (ident n) (us i) -> p_procs q !! i' = Some pr' -> In n (pr_providers pr') ->
  (pos i' < pos i)%nat /\ (pos i <= M)%nat.

Notation D := (p_types q).
Notation F := (p_funs q).

Lemma init_body_lin i pr : p_procs q !! i = Some pr ->
  affr None (init_body q pr) /\
  forall k, In k (form_chans (init_body q pr)) ->
    exists i' pr' j n, p_procs q !! i' = Some pr' /\ pr_providers pr' !! j = Some n /\ k = [i'; j] /\ In (ident n) (us i).
Proof.
  intros Hi. destruct Hst as [HF [Hnd Hprocs]]. rewrite Forall_forall in Hprocs.
  assert (Hat : forall i pr, p_procs q !! i = Some pr ->
             exists t Γ, pr_type pr = Some t /\ pr_providers pr <> [] /\ Forall binder (pr_providers pr) /\
               top_sub Γ q /\ typed D F teq ∅ Γ None {[ "" ]} t (pr_body pr)).
  { intros i0 pr0 Hi0. apply Hprocs. apply elem_of_list_In. eapply elem_of_list_lookup_2; eauto. }
  destruct (Hat i pr Hi) as [t [Γ [Ht [Hne [Hb [Hsub Hty]]]]]].
  assert (Hnoch : forall k, ~ In k (form_chans (pr_body pr))).
  { intros k Hk. destruct (form_chans_typed D F teq ∅ Γ None {[""]} t (pr_body pr) k Hty Hk) as [? H0].
    rewrite lookup_empty in H0. discriminate. }
  assert (Hin : In pr (p_procs q)) by (apply elem_of_list_In; eapply elem_of_list_lookup_2; eauto).
  unfold init_body. rewrite (init_pairs_tops q).
  change (fold_left _ (map _ (tops q)) (pr_body pr)) with (fold_sub (tops q) (pr_body pr)).
  destruct (fold_subst_lin D F teq (init_delta q) {[""]} t (tops q) Γ (pr_body pr)) as [H1 H2]; auto.
  - unfold tops, t_old. rewrite tops_from_idents. exact Hnd.
  - rewrite Forall_forall. intros x Hx. apply tops_from_elem in Hx.
    destruct Hx as [i' [pr' [j [n [Hi' [Hj ->]]]]]]. unfold t_old, t_new. simpl.
    destruct (Hat i' pr' Hi') as [t' [Γ' [Ht' [_ [Hb' _]]]]].
    rewrite Forall_forall in Hb'.
    assert (Hbn : binder n) by (apply Hb'; apply elem_of_list_In; eapply elem_of_list_lookup_2; eauto).
    split; auto. split; [destruct Hbn as [_ Hbn]; set_solver|].
    intros t'' Ht''. rewrite Ht' in Ht''. injection Ht'' as <-.
    split; auto. exists [i'; j], t'. split; auto.
    split; [eapply init_delta_lookup; eauto|apply (teq_refl _ _ Hlaws)].
  - intros x A Hx. destruct (Hsub x A Hx) as [pr' [n [Hin' [Hn [Hid HA]]]]].
    apply elem_of_list_In in Hin'. apply elem_of_list_lookup_1 in Hin'. destruct Hin' as [i' Hi'].
    apply elem_of_list_In in Hn. apply elem_of_list_lookup_1 in Hn. destruct Hn as [j Hj].
    exists n, (chname i' j n). split; auto.
    rewrite <- HA. apply (tops_from_elem_2 0 (p_procs q) i' pr' j n Hi' Hj).
  - eapply typed_weaken; [apply map_empty_subseteq|exact Hty].
  - apply new_chans_tops_nodup.
  - intros k Hk. destruct (Hnoch k Hk).
  - split; [exact H1|]. intros k Hk.
    destruct (proj1 chans_path_mut _ None k Hk) as (pi' & Hpi' & Hk').
    destruct (H2 pi' k Hpi' Hk') as (pi & Hpi & [Hkc|(x & Hx & Hxk & Hxv)]).
    + destruct (Hnoch k). eapply (proj1 path_chans_mut); eauto.
    + apply tops_from_elem in Hx. destruct Hx as [i' [pr' [j [n [Hi' [Hj ->]]]]]].
      unfold t_new, t_old in *. simpl in *. injection Hxk as <-.
      exists i', pr', j, n. repeat split; auto. eapply Hus; eauto.
Qed.

Theorem init_topo : Topo (init_config q).
Proof.
  assert (Hprov : forall i pr k, k ∈ provides (OProc [i] (Proc (map snd (init_provs i (pr_providers pr))) (init_body q pr)
                      (length (init_provs i (pr_providers pr))))) -> exists j n, pr_providers pr !! j = Some n /\ k = [i; j]).
  { intros i pr k Hk. simpl in Hk. by apply cids_of_init_provs in Hk. }
  split.
  - intros o1 o2 k H1 H2 Hk1 Hk2. apply init_obj in H1 as (i1 & pr1 & Hi1 & ->). apply init_obj in H2 as (i2 & pr2 & Hi2 & ->).
    apply Hprov in Hk1 as (j1 & n1 & _ & ->). apply Hprov in Hk2 as (j2 & n2 & _ & E). injection E as -> _.
    rewrite Hi1 in Hi2. by injection Hi2 as ->.
  - intros o1 o2 k H1 H2 Hk1 Hk2. apply init_obj in H1 as (i1 & pr1 & Hi1 & ->). apply init_obj in H2 as (i2 & pr2 & Hi2 & ->).
    simpl in Hk1, Hk2. apply elem_In in Hk1, Hk2.
    apply (proj2 (init_body_lin i1 pr1 Hi1)) in Hk1 as (a1 & q1 & j1 & n1 & Ha1 & Hj1 & -> & Hu1).
    apply (proj2 (init_body_lin i2 pr2 Hi2)) in Hk2 as (a2 & q2 & j2 & n2 & Ha2 & Hj2 & E & Hu2).
    injection E as -> ->. rewrite Ha1 in Ha2. injection Ha2 as ->. rewrite Hj1 in Hj2. injection Hj2 as ->.
    pose proof (Hdisj _ _ _ Hu1 Hu2) as ->. rewrite Hi1 in Hi2. by injection Hi2 as ->.
  - intros o k H1 Hk. apply init_obj in H1 as (i1 & pr1 & Hi1 & ->). simpl in Hk. apply elem_In in Hk.
    apply (proj2 (init_body_lin i1 pr1 Hi1)) in Hk as (a1 & q1 & j1 & n1 & Ha1 & Hj1 & -> & Hu1).
    eexists (OProc [a1] _). split; [simpl; apply (init_config_procs_2 q a1 q1 Ha1)|].
    simpl. apply cids_of_init_provs. eauto.
  - intros k st Hk Hcl. exfalso. rewrite RtInit.init_config_chans in Hk. apply RtInit.fold_chan_lookup in Hk.
    destruct Hk as [->|Hk]; [discriminate|rewrite lookup_empty in Hk; discriminate].
  - exists (fun k => match k with i :: _ => M - pos i | [] => 0 end)%nat, M. split.
    + intros [|i r] _; lia.
    + intros o k j H1 Hk Hj. apply init_obj in H1 as (i1 & pr1 & Hi1 & ->).
      apply Hprov in Hk as (j1 & n1 & _ & ->). simpl in Hj. apply elem_In in Hj.
      apply (proj2 (init_body_lin i1 pr1 Hi1)) in Hj as (a1 & q1 & j2 & n2 & Ha1 & Hj2 & -> & Hu1).
      assert (Hn2 : In n2 (pr_providers q1)) by (apply elem_In; eapply elem_of_list_lookup_2; eauto).
      destruct (Hpos i1 a1 q1 n2 Hu1 Ha1 Hn2). lia.
Qed.

Lemma init_lincfg : LinCfg (init_config q).
Proof.
  split.
  - intros p pp H. apply RtInit.init_config_procs in H. destruct H as (i & pr & Hi & _ & ->). simpl.
    apply (init_body_lin i pr Hi).
  - intros k st m Hk Hb. pose proof (bufs_empty_init q k st Hk). congruence.
Qed.

Lemma init_corecfg :
  (forall pr, In pr (p_procs q) -> core_form (pr_body pr) = true /\ exists n, pr_providers pr = [n]) ->
  CoreCfg (init_config q).
Proof.
  intros Hc. split.
  - intros p pp H. apply RtInit.init_config_procs in H. destruct H as (i & pr & Hi & _ & ->). simpl.
    assert (Hin : In pr (p_procs q)) by (apply elem_of_list_In; eapply elem_of_list_lookup_2; eauto).
    destruct (Hc pr Hin) as [Hcf [n Hn]]. split.
    + unfold init_body. rewrite (init_pairs_tops q).
      change (fold_left _ (map _ (tops q)) (pr_body pr)) with (fold_sub (tops q) (pr_body pr)). by rewrite fold_sub_core.
    + rewrite Hn. simpl. eauto.
  - intros k st m Hk Hb. pose proof (bufs_empty_init q k st Hk). congruence.
Qed.
End InitTopo.
