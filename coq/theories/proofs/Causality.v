(* Causality.v — C04, causal-order half, for the WHOLE runtime model (all 14 forms, DUP, FWD, GC,
   the three execution modes) and every run of any length.

   The events `exec_trace` emits are related by a happens-before relation (program order per
   process identifier, spawn, send-before-receive on a buffered channel; a synchronous rendezvous
   and an NP control hand-over are ONE joint event of two processes).  Proved here:

   * `exec_trace_run`: what `exec_trace` returns is a run `steps c0 tr c_final` of the LTS `step`;
   * `trace_causal` (the conjunction of the lemmas below, for every run from a configuration that
     satisfies `causal_inv`, which `init_config` of every program does):
       - `recv_has_send`: every receive event on k is preceded by a send event on k, with no send
         or receive on k in between (so distinct receives consume distinct sends) — or it is a
         receive on a CLOSED channel with an empty buffer (Go: returns the zero message at once,
         there is no sender; the model has this value, `Topo` of C01 excludes it);
       - `spawn_before`, `spawned_once`, `actor_known`: an event of process q comes strictly after
         the unique event that spawned q (process identifiers are never reused), and every acting
         process was in the initial configuration or was spawned by an earlier event;
       - `out_grows`: the output only grows, by exactly the labels of the events, in trace order,
         attributed to the acting process — so the labels of one process appear in `labels` in the
         order of that process's print steps;
   * `hb_lt`: happens-before only relates an earlier event to a later one in every run;
   * `prints_respect_causality`: `labels c_final` is a linear extension of happens-before
     restricted to print events (with the order of labels inside one event). *)
From stdpp Require Import gmap strings.
Require Import Grits.Base Grits.ModeDefs Grits.Modes Grits.STypes Grits.Forms Grits.Subst Grits.TcDeps Grits.Expand Grits.Runtime.

(* ------------------------------------------------------------------ small list facts *)
Lemma in_pids (c : config) (q : pid) : In q (pids c) <-> is_Some (procs c !! q).
Proof.
  unfold pids. rewrite in_map_iff. split.
  - intros [[q' pr] [<- Hin]]. apply elem_of_list_In, elem_of_map_to_list in Hin. eauto.
  - intros [pr Hq]. exists (q, pr). split; [done|]. by apply elem_of_list_In, elem_of_map_to_list.
Qed.

(* ------------------------------------------------------------------ effects never lower the counter *)
Definition after_mono (p : proc) (e : effect) : Prop :=
  match e_after e with Continue p' => (pr_next p <= pr_next p')%nat | Finish => True end.

Lemma on_message_mono self p m e : on_message self p m = EOk e -> after_mono p e.
Proof.
  unfold on_message, after_mono. intros H.
  repeat case_match; simplify_eq; cbn in *; simplify_eq; cbn; try lia; done.
Qed.

Lemma internal_effect_mono md F self p e : internal_effect md F self p = EOk e -> after_mono p e.
Proof.
  unfold internal_effect, after_mono, droppable_fwd, fresh_chan. intros H.
  repeat case_match; simplify_eq; cbn in *; simplify_eq; cbn; try lia; done.
Qed.

Lemma dup_effect_mono self p e : dup_effect self p = EOk e -> after_mono p e.
Proof.
  unfold dup_effect, after_mono. intros H.
  repeat case_match; simplify_eq; cbn in *; simplify_eq; cbn; try lia; done.
Qed.

(* ------------------------------------------------------------------ the shapes of a step *)
Section shapes.
Context (D : tenv) (F : list fundef).

(* every successful step is of one of these six shapes (the acting process, what it touches) *)
Inductive shape (md : exec_mode) (c : config) : choice -> config -> Prop :=
| sh_eff self p e :
    procs c !! self = Some p ->
    (forall k m, action_of md D p <> ASend k m) -> (forall k, action_of md D p <> ARecv k) ->
    after_mono p e ->
    shape md c (Run self) (apply_effect c self p e)
| sh_send self p k st m :
    procs c !! self = Some p -> action_of md D p = ASend k m ->
    chans c !! k = Some st -> ch_buf st = None ->
    shape md c (Run self) (del_proc (put_msg c k st (Some m)) self)
| sh_recv self p k st m e :
    procs c !! self = Some p -> action_of md D p = ARecv k ->
    chans c !! k = Some st -> ch_buf st = Some m -> after_mono p e ->
    shape md c (Run self) (apply_effect (put_msg c k st None) self p e)
| sh_recv_closed self p k st e :
    procs c !! self = Some p -> action_of md D p = ARecv k ->
    chans c !! k = Some st -> ch_buf st = None -> ch_closed st = true -> after_mono p e ->
    shape md c (Run self) (apply_effect c self p e)
| sh_rendezvous s r ps pr e :
    s <> r -> procs c !! s = Some ps -> procs c !! r = Some pr -> after_mono pr e ->
    shape md c (Rendezvous s r) (apply_effect (del_proc c s) r pr e)
| sh_control f t pf pt e :
    f <> t -> procs c !! f = Some pf -> procs c !! t = Some pt -> after_mono pt e ->
    shape md c (Control f t) (apply_effect (del_proc c f) t pt e).

Lemma eff_step_inv c self p r c' : eff_step c self p r = SStep c' -> exists e, r = EOk e /\ c' = apply_effect c self p e.
Proof. destruct r; cbn; intros; simplify_eq; eauto. Qed.

Lemma step_shape md c ch c' : step md D F c ch = SStep c' -> shape md c ch c'.
Proof.
  unfold step. intros H. destruct ch as [self|s r|f t].
  - destruct (procs c !! self) as [p|] eqn:Hp; [|done].
    destruct (action_of md D p) as [| |k m|k| |k provs|w] eqn:Ha; try done.
    + apply eff_step_inv in H as (e & He & ->). apply sh_eff; try done; try congruence.
      by eapply dup_effect_mono.
    + apply eff_step_inv in H as (e & He & ->). apply sh_eff; try done; try congruence.
      by eapply internal_effect_mono.
    + destruct (chans c !! k) as [st|] eqn:Hk; [|done].
      destruct (ch_closed st); [done|]. destruct md; try done.
      destruct (ch_buf st) eqn:Hb; [done|]. simplify_eq. by eapply sh_send.
    + destruct (chans c !! k) as [st|] eqn:Hk; [|done].
      destruct (ch_buf st) as [m|] eqn:Hb.
      * apply eff_step_inv in H as (e & He & ->). eapply sh_recv; try done. by eapply on_message_mono.
      * destruct (ch_closed st) eqn:Hc; [|done].
        apply eff_step_inv in H as (e & He & ->). eapply sh_recv_closed; try done. by eapply on_message_mono.
  - destruct md; [done| |].
    all: case_bool_decide as Hsr; [done|].
    all: destruct (procs c !! s) as [ps|] eqn:Hs; [|done].
    all: destruct (procs c !! r) as [pr|] eqn:Hr; [|done].
    all: destruct (action_of _ D ps) eqn:Has; try done.
    all: destruct (action_of _ D pr) eqn:Har; try done.
    all: case_bool_decide; [|done]; simplify_eq.
    all: destruct (chans c !! _) as [st|]; [|done].
    all: destruct (ch_closed st); [done|].
    all: apply eff_step_inv in H as (e & He & ->).
    all: eapply sh_rendezvous; try done; by eapply on_message_mono.
  - destruct (negb (is_np md) || bool_decide (f = t)) eqn:Hg; [done|].
    apply orb_false_iff in Hg as [_ Hft]. apply bool_decide_eq_false in Hft.
    destruct (procs c !! f) as [pf|] eqn:Hf; [|done].
    destruct (procs c !! t) as [pt|] eqn:Ht; [|done].
    destruct (action_of md D pf) eqn:Haf; try done.
    destruct (self_chan pt) eqn:Hsc; try done.
    destruct (_ && _); [|done]. simplify_eq.
    eapply sh_control; try done. unfold after_mono. cbn. lia.
Qed.
End shapes.

(* ------------------------------------------------------------------ what an effect does to the tables *)
Definition bufm (cm : gmap cid chan_st) (k : cid) : option msg :=
  match cm !! k with Some st => ch_buf st | None => None end.
Definition buf (c : config) (k : cid) : option msg := bufm (chans c) k.
(* Go: a receive on a closed channel with nothing buffered returns the zero message at once *)
Definition closed_empty (c : config) (k : cid) : Prop :=
  exists st, chans c !! k = Some st /\ ch_buf st = None /\ ch_closed st = true.

Lemma bufm_insert cm ch st k : bufm (<[ch := st]> cm) k = if decide (ch = k) then ch_buf st else bufm cm k.
Proof. unfold bufm. destruct (decide (ch = k)) as [->|]; [by rewrite lookup_insert|by rewrite lookup_insert_ne]. Qed.

Lemma bufm_foldr_new l cm k m :
  bufm (foldr (fun ch m => <[ ch := empty_chan ]> m) cm l) k = Some m -> bufm cm k = Some m.
Proof.
  induction l as [|ch l IH]; cbn; [done|]. rewrite bufm_insert. destruct (decide _); [done|auto].
Qed.

Lemma bufm_foldr_close l cm k :
  bufm (foldr (fun ch m => match m !! ch with
                           | Some st => <[ ch := Chan (ch_buf st) true ]> m
                           | None => m
                           end) cm l) k = bufm cm k.
Proof.
  induction l as [|ch l IH]; cbn; [done|]. destruct (_ !! ch) as [st|] eqn:Hch; [|done].
  rewrite bufm_insert. destruct (decide _) as [<-|]; [|done]. cbn. rewrite <- IH. unfold bufm. by rewrite Hch.
Qed.

Lemma add_spawns_spec self ss : forall next m pm' next',
  add_spawns self next ss m = (pm', next') ->
  next' = (next + length ss)%nat /\
  forall q pr, pm' !! q = Some pr ->
    m !! q = Some pr \/ exists n, q = self ++ [n] /\ (next <= n < next')%nat.
Proof.
  induction ss as [|s ss IH]; cbn; intros next m pm' next' H.
  - simplify_eq. split; [lia|]. auto.
  - apply IH in H as [-> H]. split; [lia|]. intros q pr Hq. apply H in Hq as [Hq|(n & -> & Hn)].
    + apply lookup_insert_Some in Hq as [[<- _]|[_ Hq]]; [|auto]. right. exists next. split; [done|lia].
    + right. exists n. split; [done|lia].
Qed.

Lemma apply_effect_out c self p e :
  out (apply_effect c self p e) = map (fun l => (self, l)) (rev (e_out e)) ++ out c.
Proof. unfold apply_effect. by destruct (add_spawns _ _ _ _). Qed.

Lemma apply_effect_buf c self p e k m : buf (apply_effect c self p e) k = Some m -> buf c k = Some m.
Proof.
  unfold apply_effect, buf. destruct (add_spawns _ _ _ _). cbn.
  rewrite bufm_foldr_close. apply bufm_foldr_new.
Qed.

(* the process table after an effect: the acting process (counter above everything it created),
   new processes self ++ [n] with n at or above the old counter, everything else untouched *)
Lemma apply_effect_procs c self p e : after_mono p e ->
  exists lo hi, (pr_next p <= lo <= hi)%nat /\
  forall q pr', procs (apply_effect c self p e) !! q = Some pr' ->
    (q = self /\ (hi <= pr_next pr')%nat) \/
    (exists n, q = self ++ [n] /\ (lo <= n < hi)%nat) \/
    (q <> self /\ procs c !! q = Some pr').
Proof.
  unfold after_mono, apply_effect. intros Hm.
  destruct (add_spawns _ _ _ _) as [pm next1] eqn:Hadd. apply add_spawns_spec in Hadd as [Hn1 Hpm].
  cbn [procs].
  set (base := match e_after e with Continue p' => pr_next p' | Finish => pr_next p end) in *.
  exists (base + length (e_newch e))%nat, next1. split.
  { subst base. destruct (e_after e); lia. }
  intros q pr' Hq. destruct (decide (q = self)) as [->|Hne].
  - left. split; [done|]. destruct (e_after e).
    + rewrite lookup_insert in Hq. simplify_eq. cbn. lia.
    + by rewrite lookup_delete in Hq.
  - right. assert (pm !! q = Some pr') as Hq'.
    { destruct (e_after e); [by rewrite lookup_insert_ne in Hq|by rewrite lookup_delete_ne in Hq]. }
    apply Hpm in Hq' as [?|(n & -> & Hn)]; [by right|]. left. exists n. split; [done|lia].
Qed.

(* ------------------------------------------------------------------ process identifiers are never reused *)
(* U = the identifiers used so far.  Every live process is in U, and its counter is above every
   child index that occurs in U: what it spawns next is new, and stays new for everybody else. *)
Definition pid_inv (U : pid -> Prop) (c : config) : Prop :=
  (forall q, is_Some (procs c !! q) -> U q) /\
  (forall q pr n rest, procs c !! q = Some pr -> U (q ++ n :: rest) -> (n < pr_next pr)%nat).

Lemma pid_inv_ext U U' c : (forall q, U q <-> U' q) -> pid_inv U c -> pid_inv U' c.
Proof. intros HU [H1 H2]. split; [intros; apply HU; auto|]. intros q pr n rest Hq Hu. eapply H2; [done|]. by apply HU. Qed.

Lemma pid_inv_del U c s : pid_inv U c -> pid_inv U (del_proc c s).
Proof.
  intros [H1 H2]. split; cbn.
  - intros q [pr Hq]. apply lookup_delete_Some in Hq as [_ Hq]. eauto.
  - intros q pr n rest Hq. apply lookup_delete_Some in Hq as [_ Hq]. eauto.
Qed.

Lemma pid_inv_put U c k st m : pid_inv U c -> pid_inv U (put_msg c k st m).
Proof. done. Qed.

Lemma app_cons_eq_snoc {A} (q self rest : list A) n n' :
  q ++ n :: rest = self ++ [n'] -> (q = self /\ rest = [] /\ n = n') \/ exists rest', self = q ++ n :: rest'.
Proof.
  destruct rest as [|z rest _] using rev_ind; intros H.
  - apply app_inj_tail in H as [-> ->]. by left.
  - right. exists rest. change (q ++ n :: rest ++ [z]) with (q ++ (n :: rest) ++ [z]) in H.
    rewrite app_assoc in H. by apply app_inj_tail in H as [<- _].
Qed.

Lemma pid_inv_apply_effect U c self p e :
  pid_inv U c -> procs c !! self = Some p -> after_mono p e ->
  (forall q, procs c !! q = None -> is_Some (procs (apply_effect c self p e) !! q) -> ~ U q) /\
  pid_inv (fun q => U q \/ (procs c !! q = None /\ is_Some (procs (apply_effect c self p e) !! q)))
          (apply_effect c self p e).
Proof.
  intros [H1 H2] Hself Hmono.
  destruct (apply_effect_procs c self p e Hmono) as (lo & hi & Hlo & Hsp).
  assert (forall q, procs c !! q = None -> is_Some (procs (apply_effect c self p e) !! q) ->
                    ~ U q /\ exists n, q = self ++ [n] /\ (lo <= n < hi)%nat) as Hnew.
  { intros q Hq [pr' Hq']. apply Hsp in Hq' as [[-> _]|[(n & -> & Hn)|[_ Hq']]]; [congruence| |congruence].
    split; [|eauto]. intros Hu. apply (H2 self p n []) in Hu; [lia|done]. }
  split; [intros q Hq Hq'; by apply Hnew|].
  split.
  - intros q Hq. destruct (procs c !! q) eqn:Hc; [left; apply H1; eauto|by right].
  - intros q pr' n rest Hq [Hu|[Hc Hq']].
    + apply Hsp in Hq as [[-> Hhi]|[(n0 & -> & Hn0)|[Hne Hq]]].
      * apply (H2 self p n rest) in Hu; [lia|done].
      * rewrite <- app_assoc in Hu. cbn in Hu. apply (H2 self p n0 (n :: rest)) in Hu; [lia|done].
      * by eapply H2.
    + apply Hnew in Hq' as [_ (n' & Heq & Hn')]; [|done].
      apply app_cons_eq_snoc in Heq as [(-> & -> & ->)|[rest' ->]].
      * apply Hsp in Hq as [[_ Hhi]|[(n0 & Hn0 & _)|[Hne _]]]; [lia| |done].
        apply (f_equal length) in Hn0. rewrite app_length in Hn0. cbn in Hn0. lia.
      * apply Hsp in Hq as [[Heq _]|[(n0 & Hn0 & _)|[Hne Hq]]].
        -- apply (f_equal length) in Heq. rewrite app_length in Heq. cbn in Heq. lia.
        -- apply (f_equal length) in Hn0. rewrite !app_length in Hn0. cbn in Hn0. lia.
        -- eapply H2; [done|]. apply H1. eauto.
Qed.

(* ------------------------------------------------------------------ the event of a step *)
Section events.
Context (D : tenv) (F : list fundef).

Definition fresh_in (c c' : config) (q : pid) : Prop := procs c !! q = None /\ is_Some (procs c' !! q).

Lemma ev_spawned_event_of md c c' ch q :
  q ∈ ev_spawned (event_of md D c c' ch) <-> fresh_in c c' q.
Proof.
  assert (ev_spawned (event_of md D c c' ch) =
          filter (fun q => match procs c !! q with None => true | Some _ => false end) (pids c')) as ->.
  { unfold event_of. destruct ch; repeat case_match; done. }
  rewrite elem_of_list_In, filter_In, in_pids. unfold fresh_in. destruct (procs c !! q); naive_solver.
Qed.

Lemma ev_labels_event_of md c c' ch :
  ev_labels (event_of md D c c' ch) = rev (map snd (firstn (length (out c') - length (out c)) (out c'))).
Proof. unfold event_of. destruct ch; repeat case_match; done. Qed.

Lemma ev_labels_of_out md c c' ch (a : pid) ls :
  out c' = map (fun l => (a, l)) (rev ls) ++ out c -> ev_labels (event_of md D c c' ch) = ls.
Proof.
  intros H. rewrite ev_labels_event_of, H, app_length, Nat.add_sub, take_app.
  rewrite map_map. cbn. rewrite map_id. apply rev_involutive.
Qed.

Definition ch_pids (ch : choice) : list pid :=
  match ch with Run p => [p] | Rendezvous s r => [s; r] | Control f t => [f; t] end.
(* the process that continues (and the one a printed label is attributed to) *)
Definition ch_actor (ch : choice) : pid :=
  match ch with Run p => p | Rendezvous _ r => r | Control _ t => t end.

Lemma ev_pids_event_of md c c' ch : ev_pids (event_of md D c c' ch) = ch_pids ch.
Proof. unfold event_of. destruct ch; repeat case_match; done. Qed.

Definition ch_send md (c : config) (ch : choice) : option cid :=
  match ch with
  | Run p => match procs c !! p with
             | Some pr => match action_of md D pr with ASend k _ => Some k | _ => None end
             | None => None
             end
  | _ => None
  end.
Definition ch_recv md (c : config) (ch : choice) : option cid :=
  match ch with
  | Run p => match procs c !! p with
             | Some pr => match action_of md D pr with ARecv k => Some k | _ => None end
             | None => None
             end
  | _ => None
  end.
Lemma ev_send_event_of md c c' ch : ev_send (event_of md D c c' ch) = ch_send md c ch.
Proof. unfold event_of, ch_send. destruct ch; repeat case_match; done. Qed.
Lemma ev_recv_event_of md c c' ch : ev_recv (event_of md D c c' ch) = ch_recv md c ch.
Proof. unfold event_of, ch_recv. destruct ch; repeat case_match; done. Qed.

(* what one step guarantees about its event, the buffers, the output and the identifiers *)
Lemma step_facts md c ch c' : step md D F c ch = SStep c' ->
  let ev := event_of md D c c' ch in
  (forall q, q ∈ ev_pids ev -> is_Some (procs c !! q)) /\
  (ch_actor ch ∈ ev_pids ev /\ out c' = map (fun l => (ch_actor ch, l)) (rev (ev_labels ev)) ++ out c) /\
  (forall k m, buf c' k = Some m -> ev_send ev = Some k \/ (buf c k = Some m /\ ev_recv ev <> Some k)) /\
  (forall k, ev_recv ev = Some k -> is_Some (buf c k) \/ closed_empty c k) /\
  (forall U : pid -> Prop, pid_inv U c ->
     (forall q, q ∈ ev_spawned ev -> ~ U q) /\ pid_inv (fun q => U q \/ q ∈ ev_spawned ev) c').
Proof.
  intros Hstep ev. apply step_shape in Hstep.
  assert (forall (U : pid -> Prop) self p e c1, c' = apply_effect c1 self p e -> procs c1 !! self = Some p -> after_mono p e ->
            (forall q, procs c1 !! q = None -> is_Some (procs c' !! q) -> procs c !! q = None) ->
            (forall q, procs c !! q = None -> procs c1 !! q = None) ->
            (forall q, is_Some (procs c !! q) -> U q) ->
            pid_inv U c1 ->
            (forall q, q ∈ ev_spawned ev -> ~ U q) /\ pid_inv (fun q => U q \/ q ∈ ev_spawned ev) c') as Hpid.
  { intros U self p e c1 -> Hself Hmono Hback Hfwd Hlive Hinv.
    destruct (pid_inv_apply_effect U c1 self p e Hinv Hself Hmono) as [Hnew Hinv'].
    split.
    - intros q Hq. apply ev_spawned_event_of in Hq as [Hq1 Hq2]. apply Hnew; auto.
    - eapply pid_inv_ext; [|exact Hinv']. intros q. subst ev. rewrite ev_spawned_event_of. unfold fresh_in.
      split; (intros [?|[? ?]]; [by left|right]); split; auto. }
  assert (forall self p e c1, c' = apply_effect c1 self p e -> out c1 = out c ->
            out c' = map (fun l => (self, l)) (rev (ev_labels ev)) ++ out c) as Hout.
  { intros self p e c1 -> Ho. pose proof (apply_effect_out c1 self p e) as Hx. rewrite Ho in Hx.
    subst ev. by rewrite (ev_labels_of_out _ _ _ _ self (e_out e) Hx). }
  subst ev. rewrite ev_pids_event_of, ev_send_event_of, ev_recv_event_of.
  inversion Hstep as [self p e Hp Hns Hnr Hm|self p k st m Hp Ha Hk Hb|self p k st m e Hp Ha Hk Hb Hm
                      |self p k st e Hp Ha Hk Hb Hcl Hm|s r ps pr e Hsr Hs Hr Hm|f t pf pt e Hft Hf Ht Hm];
    subst; cbn [ch_actor ch_pids ch_send ch_recv].
  - (* internal / dup *)
    rewrite Hp.
    assert (match action_of md D p with ASend k _ => Some k | _ => None end = None) as ->.
    { destruct (action_of md D p) eqn:Ha; try done. by destruct (Hns c0 m). }
    assert (match action_of md D p with ARecv k => Some k | _ => None end = None) as ->.
    { destruct (action_of md D p) eqn:Ha; try done. by destruct (Hnr c0). }
    split_and!.
    + intros q ->%elem_of_list_singleton. eauto.
    + by apply elem_of_list_singleton.
    + by eapply Hout.
    + intros k m Hb. right. split; [|done]. by eapply apply_effect_buf.
    + done.
    + intros U HU. eapply Hpid; try done. apply HU.
  - (* asynchronous send *)
    rewrite Hp, Ha. split_and!.
    + intros q ->%elem_of_list_singleton. eauto.
    + by apply elem_of_list_singleton.
    + by rewrite (ev_labels_of_out md c (del_proc (put_msg c k st (Some m)) self) (Run self) self [] eq_refl).
    + intros k' m'. unfold buf. cbn. rewrite bufm_insert. destruct (decide (k = k')) as [->|]; [by left|].
      intros. by right.
    + done.
    + intros U HU. split.
      * intros q Hq. apply ev_spawned_event_of in Hq as [Hq1 [x Hq2]]. cbn in Hq2.
        apply lookup_delete_Some in Hq2 as [_ Hq2]. congruence.
      * eapply pid_inv_ext; [|apply pid_inv_del, pid_inv_put, HU]. intros q. split; [by left|].
        intros [?|Hq]; [done|]. apply ev_spawned_event_of in Hq as [Hq1 [x Hq2]]. cbn in Hq2.
        apply lookup_delete_Some in Hq2 as [_ Hq2]. congruence.
  - (* receive of a buffered message *)
    rewrite Hp, Ha. split_and!.
    + intros q ->%elem_of_list_singleton. eauto.
    + by apply elem_of_list_singleton.
    + by eapply Hout.
    + intros k' m' Hb'. right. apply apply_effect_buf in Hb'. unfold buf in *. cbn in Hb'.
      rewrite bufm_insert in Hb'. destruct (decide (k = k')) as [->|]; [done|]. split; [done|congruence].
    + intros k' [= <-]. left. unfold buf, bufm. rewrite Hk. eauto.
    + intros U HU. eapply Hpid; try done. apply HU.
  - (* receive on a closed channel *)
    rewrite Hp, Ha. split_and!.
    + intros q ->%elem_of_list_singleton. eauto.
    + by apply elem_of_list_singleton.
    + by eapply Hout.
    + intros k' m' Hb'. right. apply apply_effect_buf in Hb'. split; [done|]. intros [= ->].
      unfold buf, bufm in Hb'. rewrite Hk in Hb'. congruence.
    + intros k' [= <-]. right. exists st. done.
    + intros U HU. eapply Hpid; try done. apply HU.
  - (* rendezvous *)
    split_and!.
    + intros q Hq. apply elem_of_cons in Hq as [-> | ->%elem_of_list_singleton]; eauto.
    + set_solver.
    + by eapply Hout.
    + intros k' m' Hb'. right. apply apply_effect_buf in Hb'. done.
    + done.
    + intros U HU. eapply (Hpid U r pr e (del_proc c s)); try done.
      * cbn. by rewrite lookup_delete_ne.
      * intros q Hq Hq'. cbn in Hq. apply lookup_delete_None in Hq as [<-|]; [|done].
        destruct (pid_inv_apply_effect U (del_proc c s) r pr e) as [Hnew _]; [by apply pid_inv_del|by cbn; rewrite lookup_delete_ne|done|].
        destruct (Hnew s); [cbn; by rewrite lookup_delete|done|]. apply HU. eauto.
      * intros q Hq. cbn. apply lookup_delete_None. auto.
      * apply HU.
      * by apply pid_inv_del.
  - (* NP control hand-over *)
    split_and!.
    + intros q Hq. apply elem_of_cons in Hq as [-> | ->%elem_of_list_singleton]; eauto.
    + set_solver.
    + by eapply Hout.
    + intros k' m' Hb'. right. apply apply_effect_buf in Hb'. done.
    + done.
    + intros U HU. eapply (Hpid U t pt e (del_proc c f)); try done.
      * cbn. by rewrite lookup_delete_ne.
      * intros q Hq Hq'. cbn in Hq. apply lookup_delete_None in Hq as [<-|]; [|done].
        destruct (pid_inv_apply_effect U (del_proc c f) t pt e) as [Hnew _]; [by apply pid_inv_del|by cbn; rewrite lookup_delete_ne|done|].
        destruct (Hnew f); [cbn; by rewrite lookup_delete|done|]. apply HU. eauto.
      * intros q Hq. cbn. apply lookup_delete_None. auto.
      * apply HU.
      * by apply pid_inv_del.
Qed.
End events.

(* ------------------------------------------------------------------ runs and their traces *)
Definition res_config (r : run_res) : config :=
  match r with RQuiescent c | RError c _ _ | ROutOfFuel c => c end.

Section traces.
Context (md : exec_mode) (D : tenv) (F : list fundef).

(* a run of the LTS with the events `exec_trace` records *)
Inductive steps : config -> list event -> config -> Prop :=
| steps_nil c : steps c [] c
| steps_cons c ch c' tr c'' :
    step md D F c ch = SStep c' -> steps c' tr c'' -> steps c (event_of md D c c' ch :: tr) c''.

Lemma exec_trace_run fuel pick : forall c acc r tr,
  exec_trace fuel pick md D F c acc = (r, tr) -> exists es, tr = rev acc ++ es /\ steps c es (res_config r).
Proof.
  induction fuel as [|f IH]; intros c acc r tr H; cbn in H.
  - simplify_eq. exists []. split; [by rewrite app_nil_r|constructor].
  - destruct (enabled md D F c) as [|e0 es] eqn:Hen.
    { simplify_eq. exists []. split; [by rewrite app_nil_r|constructor]. }
    destruct (step md D F c _) as [|c'|who w] eqn:Hst.
    + simplify_eq. exists []. split; [by rewrite app_nil_r|constructor].
    + apply IH in H as (es' & -> & Hs). eexists (_ :: es'). split; [cbn; by rewrite <- app_assoc|].
      econstructor; eauto.
    + simplify_eq. exists []. split; [by rewrite app_nil_r|constructor].
Qed.

(* exec_trace is exec_run plus the recording *)
Lemma exec_trace_exec_run fuel pick : forall c acc,
  fst (exec_trace fuel pick md D F c acc) = exec_run fuel pick md D F c.
Proof.
  induction fuel as [|f IH]; intros c acc; cbn; [done|].
  destruct (enabled md D F c); [done|]. destruct (step md D F c _); auto.
Qed.

Lemma steps_app c tr1 c1 tr2 c2 : steps c tr1 c1 -> steps c1 tr2 c2 -> steps c (tr1 ++ tr2) c2.
Proof. induction 1; cbn; [done|]. intros. econstructor; eauto. Qed.

Lemma steps_snoc c tr c1 ch c2 :
  steps c tr c1 -> step md D F c1 ch = SStep c2 -> steps c (tr ++ [event_of md D c1 c2 ch]) c2.
Proof. intros H1 H2. eapply steps_app; [done|]. econstructor; [done|constructor]. Qed.

(* ---------------------------------------------------------------- the invariant along a run *)
(* identifiers used so far: those of the start configuration and those spawned by the history *)
Definition used (U0 : pid -> Prop) (h : list event) (q : pid) : Prop :=
  U0 q \/ exists e, e ∈ h /\ q ∈ ev_spawned e.
(* the last event of the history that touches channel k put a message on it *)
Definition last_touch_send (h : list event) (k : cid) : Prop :=
  exists j e, h !! j = Some e /\ ev_send e = Some k /\
    forall j' e', (j < j')%nat -> h !! j' = Some e' -> ev_send e' <> Some k /\ ev_recv e' <> Some k.
Definition buf_inv (h : list event) (c : config) : Prop :=
  forall k m, buf c k = Some m -> last_touch_send h k.
Definition tinv (U0 : pid -> Prop) (h : list event) (c : config) : Prop :=
  pid_inv (used U0 h) c /\ buf_inv h c.

(* what holds of an event e taken in configuration c after history h *)
Definition ev_ok (U0 : pid -> Prop) (h : list event) (c : config) (e : event) : Prop :=
  (forall q, q ∈ ev_pids e -> used U0 h q) /\
  (forall q, q ∈ ev_spawned e -> ~ used U0 h q) /\
  (forall k, ev_recv e = Some k -> last_touch_send h k \/ closed_empty c k).

Lemma used_snoc U0 h e q : used U0 (h ++ [e]) q <-> used U0 h q \/ q ∈ ev_spawned e.
Proof.
  unfold used. split.
  - intros [?|(e' & He' & Hq)]; [by left; left|]. apply elem_of_app in He' as [?| ->%elem_of_list_singleton]; [|by right].
    left; right; eauto.
  - intros [[?|(e' & He' & Hq)]|Hq]; [by left| |].
    + right. exists e'. split; [apply elem_of_app; by left|done].
    + right. exists e. split; [apply elem_of_app; right; by apply elem_of_list_singleton|done].
Qed.

Lemma step_tinv U0 h c ch c' : tinv U0 h c -> step md D F c ch = SStep c' ->
  ev_ok U0 h c (event_of md D c c' ch) /\ tinv U0 (h ++ [event_of md D c c' ch]) c'.
Proof.
  intros [Hpid Hbuf] Hstep.
  destruct (step_facts D F md c ch c' Hstep) as (Hp & _ & Hb & Hr & HU).
  destruct (HU _ Hpid) as [Hnew Hpid'].
  split; [split_and!|split].
  - intros q Hq. apply Hpid, Hp, Hq.
  - done.
  - intros k Hk. apply Hr in Hk as [[m Hm]|?]; [left; by eapply Hbuf|by right].
  - eapply pid_inv_ext; [|exact Hpid']. intros q. by rewrite used_snoc.
  - intros k m Hm. set (e := event_of md D c c' ch) in *.
    destruct (decide (ev_send e = Some k)) as [Hs|Hs].
    + exists (length h), e. split_and!; [by rewrite lookup_app_r, Nat.sub_diag| done|].
      intros j' e' Hlt Hj'. apply lookup_lt_Some in Hj'. rewrite app_length in Hj'. cbn in Hj'. lia.
    + apply Hb in Hm as [?|[Hm Hnr]]; [done|].
      destruct (Hbuf _ _ Hm) as (j & ej & Hj & Hsj & Hlater). exists j, ej. split_and!; [|done|].
      { apply lookup_app_Some. by left. }
      intros j' e' Hlt Hj'. apply lookup_app_Some in Hj' as [Hj'|[Hle Hj']]; [by eapply Hlater|].
      destruct (j' - length h)%nat eqn:Hd; cbn in Hj'; [|by destruct n]. by simplify_eq.
Qed.

Lemma steps_ok U0 c tr cf : steps c tr cf -> forall h, tinv U0 h c ->
  (forall i e, tr !! i = Some e -> exists ci, steps c (take i tr) ci /\ ev_ok U0 (h ++ take i tr) ci e) /\
  tinv U0 (h ++ tr) cf.
Proof.
  induction 1 as [c|c ch c' tr c'' Hstep Hsteps IH]; intros h Hinv.
  - split; [done|by rewrite app_nil_r].
  - destruct (step_tinv U0 h c ch c' Hinv Hstep) as [Hok Hinv'].
    destruct (IH _ Hinv') as [IH1 IH2]. split.
    + intros [|i] e He; cbn in He.
      * simplify_eq. exists c. cbn. rewrite app_nil_r. split; [constructor|done].
      * destruct (IH1 _ _ He) as (ci & Hci & Hoki). exists ci. cbn. split; [by econstructor|].
        by rewrite <- app_assoc in Hoki.
    + by rewrite <- app_assoc in IH2.
Qed.

(* ---------------------------------------------------------------- the start configurations *)
(* all buffers empty, and the counter of every process is above the index of every live
   descendant.  `init_config` of every program satisfies it (init_causal_inv below). *)
Definition causal_inv (c : config) : Prop :=
  (forall k, buf c k = None) /\
  (forall q pr n rest, procs c !! q = Some pr -> is_Some (procs c !! (q ++ n :: rest)) -> (n < pr_next pr)%nat).

Definition live0 (c : config) (q : pid) : Prop := is_Some (procs c !! q).

Lemma causal_inv_tinv c : causal_inv c -> tinv (live0 c) [] c.
Proof.
  intros [Hb Hp]. split.
  - split.
    + intros q Hq. by left.
    + intros q pr n rest Hq [Hu|(e & He & _)]; [by eapply Hp|]. by apply elem_of_nil in He.
  - intros k m Hm. by rewrite Hb in Hm.
Qed.

Lemma used_take_mono U0 tr i j q : (i <= j)%nat -> used U0 (take i tr) q -> used U0 (take j tr) q.
Proof.
  intros Hij [?|(e & He & Hq)]; [by left|]. right. exists e. split; [|done].
  apply elem_of_list_lookup in He as [n Hn]. apply lookup_take_Some in Hn as [Hn Hlt].
  apply elem_of_list_lookup. exists n. apply lookup_take_Some. split; [done|lia].
Qed.

Section from_start.
Context (c0 : config) (tr : list event) (cf : config).
Context (Hrun : steps c0 tr cf) (Hinv : causal_inv c0).

Lemma event_ok i e : tr !! i = Some e -> exists ci, steps c0 (take i tr) ci /\ ev_ok (live0 c0) (take i tr) ci e.
Proof.
  intros He. destruct (steps_ok (live0 c0) c0 tr cf Hrun [] (causal_inv_tinv c0 Hinv)) as [H _].
  exact (H i e He).
Qed.

(* every receive has its send: the latest earlier event touching k is a send on k *)
Theorem recv_has_send i e k : tr !! i = Some e -> ev_recv e = Some k ->
  (exists j ej, (j < i)%nat /\ tr !! j = Some ej /\ ev_send ej = Some k /\
     forall j' e', (j < j' < i)%nat -> tr !! j' = Some e' -> ev_send e' <> Some k /\ ev_recv e' <> Some k) \/
  (exists ci, steps c0 (take i tr) ci /\ closed_empty ci k).
Proof.
  intros He Hk. destruct (event_ok i e He) as (ci & Hci & _ & _ & Hr).
  destruct (Hr k Hk) as [(j & ej & Hj & Hs & Hlater)|Hcl]; [left|right; eauto].
  apply lookup_take_Some in Hj as [Hj Hlt]. exists j, ej. split_and!; try done.
  intros j' e' [H1 H2] Hj'. eapply Hlater; [done|]. apply lookup_take_Some. split; [done|lia].
Qed.

(* every acting process was there at the start or was spawned by an earlier event *)
Theorem actor_known i e q : tr !! i = Some e -> q ∈ ev_pids e ->
  is_Some (procs c0 !! q) \/ exists j ej, (j < i)%nat /\ tr !! j = Some ej /\ q ∈ ev_spawned ej.
Proof.
  intros He Hq. destruct (event_ok i e He) as (ci & Hci & Hp & _ & _).
  destruct (Hp q Hq) as [?|(ej & Hej & Hs)]; [by left|right].
  apply elem_of_list_lookup in Hej as [j Hj]. apply lookup_take_Some in Hj as [Hj Hlt]. eauto.
Qed.

Lemma spawned_fresh i e q : tr !! i = Some e -> q ∈ ev_spawned e -> ~ used (live0 c0) (take i tr) q.
Proof. intros He Hq. destruct (event_ok i e He) as (ci & Hci & _ & Hs & _). by apply Hs. Qed.

(* an event of a process comes strictly after the event that spawned it *)
Theorem spawn_before j ej i ei q : tr !! j = Some ej -> tr !! i = Some ei ->
  q ∈ ev_spawned ej -> q ∈ ev_pids ei -> (j < i)%nat.
Proof.
  intros Hj Hi Hs Hp. destruct (decide (j < i)%nat) as [|Hge]; [done|]. exfalso.
  apply (spawned_fresh j ej q Hj Hs). apply (used_take_mono _ _ i j); [lia|].
  destruct (event_ok i ei Hi) as (ci & _ & Hpi & _ & _). by apply Hpi.
Qed.

(* identifiers are never reused: a process is spawned at most once, and never one of the start *)
Theorem spawned_once j ej i ei q : tr !! j = Some ej -> tr !! i = Some ei ->
  q ∈ ev_spawned ej -> q ∈ ev_spawned ei -> j = i.
Proof.
  assert (forall j ej i ei, tr !! j = Some ej -> tr !! i = Some ei -> q ∈ ev_spawned ej -> q ∈ ev_spawned ei -> ~ (j < i)%nat) as H.
  { clear j ej i ei. intros j ej i ei Hj Hi Hsj Hsi Hlt. apply (spawned_fresh i ei q Hi Hsi). right. exists ej. split; [|done].
    apply elem_of_list_lookup. exists j. apply lookup_take_Some. done. }
  intros Hj Hi Hsj Hsi. destruct (lt_eq_lt_dec j i) as [[Hlt|]|Hlt]; [|done|].
  - by destruct (H j ej i ei).
  - by destruct (H i ei j ej).
Qed.

Theorem spawned_new i e q : tr !! i = Some e -> q ∈ ev_spawned e -> procs c0 !! q = None.
Proof.
  intros He Hq. destruct (procs c0 !! q) eqn:Hc; [|done]. destruct (spawned_fresh i e q He Hq). left. unfold live0. by rewrite Hc.
Qed.
End from_start.
End traces.

(* ------------------------------------------------------------------ the output only grows *)
(* the process that continues after the step; a printed label is attributed to it in `out` *)
Definition ev_actor (e : event) : pid := List.last (ev_pids e) [].
Definition ev_out (e : event) : list (pid * string) := map (fun l => (ev_actor e, l)) (ev_labels e).
(* the labels of process p in an output (oldest first) *)
Definition labels_of (p : pid) (o : list (pid * string)) : list string :=
  map snd (filter (fun x => bool_decide (fst x = p)) o).

Section output.
Context (md : exec_mode) (D : tenv) (F : list fundef).

Lemma step_out c ch c' : step md D F c ch = SStep c' ->
  rev (out c') = rev (out c) ++ ev_out (event_of md D c c' ch) /\
  ev_actor (event_of md D c c' ch) ∈ ev_pids (event_of md D c c' ch).
Proof.
  intros Hstep. destruct (step_facts D F md c ch c' Hstep) as (_ & [Ha Ho] & _).
  assert (ev_actor (event_of md D c c' ch) = ch_actor ch) as Hact.
  { unfold ev_actor. rewrite ev_pids_event_of. by destruct ch. }
  split; [|by rewrite Hact].
  rewrite Ho, rev_app_distr, <- map_rev, rev_involutive. unfold ev_out. by rewrite Hact.
Qed.

Theorem out_grows c tr cf : steps md D F c tr cf -> rev (out cf) = rev (out c) ++ flat_map ev_out tr.
Proof.
  induction 1 as [c|c ch c' tr c'' Hstep _ IH]; cbn; [by rewrite app_nil_r|].
  apply step_out in Hstep as [Hstep _]. by rewrite IH, Hstep, <- app_assoc.
Qed.

Lemma steps_actor c tr cf e : steps md D F c tr cf -> e ∈ tr -> ev_actor e ∈ ev_pids e.
Proof.
  induction 1 as [c|c ch c' tr c'' Hstep _ IH]; intros He; [by apply elem_of_nil in He|].
  apply elem_of_cons in He as [->|He]; [|auto]. by apply step_out in Hstep as [_ ?].
Qed.

Lemma map_snd_ev_out tr : map snd (flat_map ev_out tr) = flat_map ev_labels tr.
Proof.
  induction tr as [|e tr IH]; cbn; [done|]. rewrite map_app, IH. f_equal.
  unfold ev_out. rewrite map_map. cbn. apply map_id.
Qed.

Theorem labels_grow c tr cf : steps md D F c tr cf -> labels cf = labels c ++ flat_map ev_labels tr.
Proof.
  intros H. apply out_grows in H. unfold labels. rewrite <- !map_rev, H, map_app. by rewrite map_snd_ev_out.
Qed.

Lemma labels_of_ev_out p e : labels_of p (ev_out e) = if bool_decide (ev_actor e = p) then ev_labels e else [].
Proof.
  unfold labels_of, ev_out. induction (ev_labels e) as [|l ls IH]; cbn.
  - by destruct (bool_decide _).
  - destruct (bool_decide (ev_actor e = p)) eqn:Hb; cbn; [by rewrite IH|done].
Qed.

(* one process's labels appear in the output in the order of that process's print steps *)
Theorem proc_labels_in_program_order p c tr cf : steps md D F c tr cf ->
  labels_of p (rev (out cf)) =
  labels_of p (rev (out c)) ++ flat_map (fun e => if bool_decide (ev_actor e = p) then ev_labels e else []) tr.
Proof.
  intros H. apply out_grows in H. rewrite H. unfold labels_of at 1. rewrite filter_app, map_app. f_equal.
  clear H. induction tr as [|e tr IH]; cbn; [done|].
  rewrite filter_app, map_app, IH. f_equal. apply labels_of_ev_out.
Qed.
End output.

(* ------------------------------------------------------------------ happens-before *)
(* generating edges between positions of a trace:
   - program order: the two events share a process identifier (a rendezvous or a control hand-over
     is an event of both participants);
   - spawn: the earlier event created the process that takes the later one;
   - communication (buffered channel): the later event receives on k, the earlier one is the
     latest send on k before it. *)
Inductive hb1 (tr : list event) (j i : nat) : Prop :=
| hb_prog q ej ei :
    tr !! j = Some ej -> tr !! i = Some ei -> (j < i)%nat -> q ∈ ev_pids ej -> q ∈ ev_pids ei -> hb1 tr j i
| hb_spawn q ej ei :
    tr !! j = Some ej -> tr !! i = Some ei -> q ∈ ev_spawned ej -> q ∈ ev_pids ei -> hb1 tr j i
| hb_comm k ej ei :
    tr !! j = Some ej -> tr !! i = Some ei -> (j < i)%nat -> ev_send ej = Some k -> ev_recv ei = Some k ->
    (forall j' e', (j < j' < i)%nat -> tr !! j' = Some e' -> ev_send e' <> Some k) -> hb1 tr j i.
Definition hb (tr : list event) : nat -> nat -> Prop := tc (hb1 tr).

(* position, in the sequence of all labels of the trace, of the n-th label of event i *)
Definition print_pos (tr : list event) (i n : nat) : nat :=
  (length (concat (map ev_labels (take i tr))) + n)%nat.

Lemma print_pos_lookup tr i e n l : tr !! i = Some e -> ev_labels e !! n = Some l ->
  concat (map ev_labels tr) !! print_pos tr i n = Some l.
Proof.
  intros He Hl. unfold print_pos.
  assert (concat (map ev_labels tr) =
          concat (map ev_labels (take i tr)) ++ ev_labels e ++ concat (map ev_labels (drop (S i) tr))) as ->.
  { rewrite <- (take_drop_middle tr i e He) at 1. by rewrite map_app, concat_app. }
  rewrite lookup_app_r by lia.
  replace (_ + n - _)%nat with n by lia. by apply lookup_app_l_Some.
Qed.

Lemma prefix_labels_mono (tr : list event) a b : (a <= b)%nat ->
  (length (concat (map ev_labels (take a tr))) <= length (concat (map ev_labels (take b tr))))%nat.
Proof.
  intros Hab. replace (take a tr) with (take a (take b tr)) by (rewrite take_take; f_equal; lia).
  rewrite <- (take_drop a (take b tr)) at 2. rewrite map_app, concat_app, app_length. lia.
Qed.

Lemma print_pos_lt tr j ej m i n : tr !! j = Some ej -> (m < length (ev_labels ej))%nat -> (j < i)%nat ->
  (print_pos tr j m < print_pos tr i n)%nat.
Proof.
  intros Hj Hm Hji. unfold print_pos. pose proof (prefix_labels_mono tr (S j) i ltac:(lia)) as Hle.
  rewrite (take_S_r _ _ _ Hj), map_app, concat_app, app_length in Hle. cbn in Hle. rewrite app_nil_r in Hle. lia.
Qed.

Lemma print_pos_surj tr : forall pos l, concat (map ev_labels tr) !! pos = Some l ->
  exists i e n, tr !! i = Some e /\ ev_labels e !! n = Some l /\ pos = print_pos tr i n.
Proof.
  induction tr as [|e tr IH]; intros pos l H; cbn in H; [done|].
  apply lookup_app_Some in H as [H|[Hle H]].
  - exists 0%nat, e, pos. done.
  - apply IH in H as (i & e' & n & Hi & Hn & Hpos). exists (S i), e', n. split_and!; [done..|].
    unfold print_pos in *. cbn. rewrite app_length. lia.
Qed.

Section linear_extension.
Context (md : exec_mode) (D : tenv) (F : list fundef).
Context (c0 : config) (tr : list event) (cf : config).
Context (Hrun : steps md D F c0 tr cf) (Hinv : causal_inv c0).

Lemma hb1_lt j i : hb1 tr j i -> (j < i)%nat.
Proof. destruct 1; try done. by eapply (spawn_before md D F c0 tr cf Hrun Hinv). Qed.

(* happens-before only relates an earlier event of the run to a later one *)
Theorem hb_lt j i : hb tr j i -> (j < i)%nat.
Proof. induction 1 as [j i H|j i l H _ IH]; apply hb1_lt in H; lia. Qed.

(* the final output is the initial one followed by the labels of the events in trace order; the
   position of every print is determined, every position is a print, and positions respect
   happens-before (and the order of the labels of one event): `labels cf` is a linear extension
   of the causal order restricted to print events *)
Theorem prints_respect_causality :
  labels cf = labels c0 ++ concat (map ev_labels tr) /\
  (forall i e n l, tr !! i = Some e -> ev_labels e !! n = Some l ->
     labels cf !! (length (labels c0) + print_pos tr i n)%nat = Some l) /\
  (forall pos l, labels cf !! (length (labels c0) + pos)%nat = Some l ->
     exists i e n, tr !! i = Some e /\ ev_labels e !! n = Some l /\ pos = print_pos tr i n) /\
  (forall j ej m i ei n, tr !! j = Some ej -> tr !! i = Some ei ->
     (m < length (ev_labels ej))%nat -> (n < length (ev_labels ei))%nat ->
     hb tr j i \/ (j = i /\ (m < n)%nat) -> (print_pos tr j m < print_pos tr i n)%nat).
Proof.
  pose proof (labels_grow md D F c0 tr cf Hrun) as Hl. rewrite flat_map_concat_map in Hl.
  split_and!; [done|..].
  - intros i e n l He Hn. rewrite Hl, lookup_app_r by lia. replace (_ + _ - _)%nat with (print_pos tr i n) by lia.
    by eapply print_pos_lookup.
  - intros pos l H. rewrite Hl, lookup_app_r in H by lia. replace (_ + _ - _)%nat with pos in H by lia.
    by apply print_pos_surj.
  - intros j ej m i ei n Hj Hi Hm Hn [Hhb|[-> Hmn]].
    + apply hb_lt in Hhb. by eapply print_pos_lt.
    + unfold print_pos. lia.
Qed.
End linear_extension.

(* ------------------------------------------------------------------ init_config satisfies the invariant *)
Lemma fold_left_inv {A B} (P : B -> Prop) (f : B -> A -> B) (l : list A) (b : B) :
  P b -> (forall b a, P b -> P (f b a)) -> P (fold_left f l b).
Proof. revert b. induction l as [|a l IH]; cbn; auto. Qed.

Theorem init_causal_inv (p : program) : causal_inv (init_config p).
Proof.
  unfold init_config. split; cbn [procs chans].
  - intros k. unfold buf. cbn [chans]. unfold bufm.
    match goal with |- match ?m !! k with _ => _ end = None =>
      assert (forall k st, m !! k = Some st -> st = empty_chan) as H end.
    { apply (fold_left_inv (fun m : gmap cid chan_st => forall k st, m !! k = Some st -> st = empty_chan)).
      - intros k' st. by rewrite lookup_empty.
      - intros m [old new] Hm k' st. destruct (chan new) as [k0|]; [|apply Hm].
        intros [[_ <-]|[_ ?]]%lookup_insert_Some; [done|by eapply Hm]. }
    destruct (_ !! k) as [st|] eqn:Hk; [|done]. by rewrite (H _ _ Hk).
  - match goal with |- forall q pr n rest, ?m !! q = Some pr -> _ =>
      assert (forall q, is_Some (m !! q) -> length q = 1%nat) as H end.
    { apply (fold_left_inv (fun m : gmap pid proc => forall q, is_Some (m !! q) -> length q = 1%nat)).
      - intros q [x Hx]. by rewrite lookup_empty in Hx.
      - intros m [i [pr ini]] Hm q [x Hx]. apply lookup_insert_Some in Hx as [[<- _]|[_ Hx]]; [done|]. apply Hm. eauto. }
    intros q pr n rest Hq Hq'. apply H in Hq'. rewrite app_length in Hq'. cbn in Hq'.
    assert (length q = 1%nat) by (apply H; eauto). lia.
Qed.

(* ------------------------------------------------------------------ the relation the check computes *)
(* lib/vlib/runsuite.py `causal_print_order` generates happens-before from the LATEST earlier event
   that involves an acting process (as actor or as the spawned one: `last_of`) and from the latest
   earlier send on the received channel (`sender`).  Same transitive closure as `hb` (hb_py_equiv). *)
Definition involves (q : pid) (e : event) : Prop := q ∈ ev_pids e \/ q ∈ ev_spawned e.
Inductive hb1_py (tr : list event) (j i : nat) : Prop :=
| py_last q ej ei :
    tr !! j = Some ej -> tr !! i = Some ei -> (j < i)%nat -> q ∈ ev_pids ei -> involves q ej ->
    (forall j' e', (j < j' < i)%nat -> tr !! j' = Some e' -> ~ involves q e') -> hb1_py tr j i
| py_comm k ej ei :
    tr !! j = Some ej -> tr !! i = Some ei -> (j < i)%nat -> ev_send ej = Some k -> ev_recv ei = Some k ->
    (forall j' e', (j < j' < i)%nat -> tr !! j' = Some e' -> ev_send e' <> Some k) -> hb1_py tr j i.

Lemma latest_below (f : nat -> bool) j i : (j < i)%nat -> f j = true ->
  exists j', (j <= j' < i)%nat /\ f j' = true /\ forall x, (j' < x < i)%nat -> f x = false.
Proof.
  induction i as [|i IH]; [lia|]. intros Hji Hj.
  destruct (f i) eqn:Hi.
  - exists i. split; [lia|]. split; [done|]. intros; lia.
  - destruct (decide (j = i)) as [->|Hne]; [congruence|].
    destruct IH as (j' & Hj' & Hf & Hlater); [lia|done|]. exists j'. split; [lia|]. split; [done|].
    intros x Hx. destruct (decide (x = i)) as [->|]; [done|]. apply Hlater. lia.
Qed.

Section py_equiv.
Context (md : exec_mode) (D : tenv) (F : list fundef).
Context (c0 : config) (tr : list event) (cf : config).
Context (Hrun : steps md D F c0 tr cf) (Hinv : causal_inv c0).

Definition involvesb (q : pid) (x : nat) : bool :=
  match tr !! x with Some e => bool_decide (involves q e) | None => false end.

Lemma involves_chain q : forall d j ej i ei, (i - j <= d)%nat ->
  tr !! j = Some ej -> tr !! i = Some ei -> (j < i)%nat -> involves q ej -> q ∈ ev_pids ei -> tc (hb1_py tr) j i.
Proof.
  induction d as [|d IH]; intros j ej i ei Hd Hj Hi Hji Hqj Hqi; [lia|].
  destruct (latest_below (involvesb q) j i Hji) as (j' & Hj' & Hf & Hlater).
  { unfold involvesb. rewrite Hj. by apply bool_decide_eq_true. }
  unfold involvesb in Hf. destruct (tr !! j') as [ej'|] eqn:Hej'; [|done]. apply bool_decide_eq_true in Hf.
  assert (hb1_py tr j' i) as Hedge.
  { eapply (py_last tr j' i q); try done; [lia|]. intros x e' Hx He' Hinv'.
    specialize (Hlater x Hx). unfold involvesb in Hlater. rewrite He' in Hlater.
    by apply bool_decide_eq_false in Hlater. }
  destruct (decide (j' = j)) as [->|Hne]; [by apply tc_once|].
  eapply tc_r; [|exact Hedge]. eapply (IH j ej j' ej'); try done; [lia|lia|].
  destruct Hf as [?|Hsp]; [done|]. exfalso.
  (* q was spawned at j' although it was involved earlier, at j *)
  destruct Hqj as [Hact|Hsp0].
  - pose proof (spawn_before md D F c0 tr cf Hrun Hinv j' ej' j ej q Hej' Hj Hsp Hact). lia.
  - pose proof (spawned_once md D F c0 tr cf Hrun Hinv j ej j' ej' q Hj Hej' Hsp0 Hsp). lia.
Qed.

Theorem hb_py_equiv j i : tc (hb1_py tr) j i <-> hb tr j i.
Proof.
  split.
  - apply (tc_congruence (fun x : nat => x)). clear j i. intros j i [q ej ei Hj Hi Hji Hqi [Hq|Hq] _|k ej ei Hj Hi Hji Hs Hr Hl].
    + by eapply hb_prog.
    + by eapply hb_spawn.
    + by eapply hb_comm.
  - intros H. induction H as [j i H|j i l H _ IH].
    + destruct H as [q ej ei Hj Hi Hji Hqj Hqi|q ej ei Hj Hi Hqj Hqi|k ej ei Hj Hi Hji Hs Hr Hl].
      * eapply (involves_chain q _ j ej i ei); try done. by left.
      * eapply (involves_chain q _ j ej i ei); try done; [|by right].
        by eapply (spawn_before md D F c0 tr cf Hrun Hinv).
      * apply tc_once. by eapply py_comm.
    + eapply tc_transitive; [|exact IH]. clear IH.
      destruct H as [q ej ei Hj Hi Hji Hqj Hqi|q ej ei Hj Hi Hqj Hqi|k ej ei Hj Hi Hji Hs Hr Hl].
      * eapply (involves_chain q _ j ej i ei); try done. by left.
      * eapply (involves_chain q _ j ej i ei); try done; [|by right].
        by eapply (spawn_before md D F c0 tr cf Hrun Hinv).
      * apply tc_once. by eapply py_comm.
Qed.
End py_equiv.

(* ------------------------------------------------------------------ C04, causal half: the packaged statement *)
Definition trace_causal_stmt (md : exec_mode) (D : tenv) (F : list fundef)
           (c0 : config) (tr : list event) (cf : config) : Prop :=
  (* communication: a receive on k follows its send on k, nothing else touches k in between *)
  (forall i e k, tr !! i = Some e -> ev_recv e = Some k ->
     (exists j ej, (j < i)%nat /\ tr !! j = Some ej /\ ev_send ej = Some k /\
        forall j' e', (j < j' < i)%nat -> tr !! j' = Some e' -> ev_send e' <> Some k /\ ev_recv e' <> Some k) \/
     (exists ci, steps md D F c0 (take i tr) ci /\ closed_empty ci k)) /\
  (* spawn: every actor is a start process or was spawned earlier; after its (unique) spawn *)
  (forall i e q, tr !! i = Some e -> q ∈ ev_pids e ->
     is_Some (procs c0 !! q) \/ exists j ej, (j < i)%nat /\ tr !! j = Some ej /\ q ∈ ev_spawned ej) /\
  (forall j ej i ei q, tr !! j = Some ej -> tr !! i = Some ei -> q ∈ ev_spawned ej -> q ∈ ev_pids ei -> (j < i)%nat) /\
  (forall j ej i ei q, tr !! j = Some ej -> tr !! i = Some ei -> q ∈ ev_spawned ej -> q ∈ ev_spawned ei -> j = i) /\
  (forall i e q, tr !! i = Some e -> q ∈ ev_spawned e -> procs c0 !! q = None) /\
  (* output: grows by the labels of the events, in trace order, attributed to the acting process *)
  rev (out cf) = rev (out c0) ++ flat_map ev_out tr /\
  (forall e, e ∈ tr -> ev_actor e ∈ ev_pids e) /\
  (forall p, labels_of p (rev (out cf)) =
             labels_of p (rev (out c0)) ++ flat_map (fun e => if bool_decide (ev_actor e = p) then ev_labels e else []) tr) /\
  (* happens-before goes forward in the trace *)
  (forall j i, hb tr j i -> (j < i)%nat).

Theorem trace_causal md D F c0 tr cf :
  steps md D F c0 tr cf -> causal_inv c0 -> trace_causal_stmt md D F c0 tr cf.
Proof.
  intros Hrun Hinv. unfold trace_causal_stmt. split_and!.
  - by eapply recv_has_send.
  - by eapply actor_known.
  - by eapply spawn_before.
  - by eapply spawned_once.
  - by eapply spawned_new.
  - by eapply out_grows.
  - intros e. by eapply steps_actor.
  - intros p. by eapply proc_labels_in_program_order.
  - by eapply hb_lt.
Qed.

(* for what `exec_trace` returns, from the initial configuration of any program, any schedule
   oracle, any fuel, in each of the three modes *)
Theorem trace_causal_exec md (p : program) fuel pick r tr :
  exec_trace fuel pick md (p_types p) (p_funs p) (init_config p) [] = (r, tr) ->
  steps md (p_types p) (p_funs p) (init_config p) tr (res_config r) /\
  trace_causal_stmt md (p_types p) (p_funs p) (init_config p) tr (res_config r) /\
  labels (res_config r) = concat (map ev_labels tr) /\
  (forall j ej m i ei n, tr !! j = Some ej -> tr !! i = Some ei ->
     (m < length (ev_labels ej))%nat -> (n < length (ev_labels ei))%nat ->
     tc (hb1_py tr) j i \/ (j = i /\ (m < n)%nat) -> (print_pos tr j m < print_pos tr i n)%nat).
Proof.
  intros H. apply exec_trace_run in H as (es & -> & Hrun). cbn [rev app].
  pose proof (init_causal_inv p) as Hinv.
  destruct (prints_respect_causality md _ _ _ es _ Hrun Hinv) as (Hl & _ & _ & Hext).
  split_and!; [done|by apply trace_causal|done|].
  intros j ej m i ei n Hj Hi Hm Hn [Hhb|Hsame]; eapply Hext; eauto.
  left. by eapply hb_py_equiv.
Qed.
