(* ScanLocal.v — C12: what one call of Scan does depends on the text behind the bytes it consumes
   only through the next byte.  Hence inserting a character outside the alphabet at a token boundary
   of a text P does not change how the part of P in front of the insertion point is scanned, a call of
   Scan starts at the inserted character, and the text is rejected (insert_illegal_rejected). *)
Require Import Grits.Base Grits.ModeDefs Grits.Modes Grits.STypes Grits.Forms Grits.Tokens Grits.Scan
               Grits.LR Grits.Actions Grits.Expand Grits.spec.ScanSpec
               Grits.proofs.ScanProofs Grits.proofs.ScanCover Grits.proofs.IllegalReject.

Local Notation slen := String.length.

Definition set_rest (r : scan_res) (x : string) : scan_res :=
  match r with Tok k lx _ => Tok k lx x | Skip _ => Skip x end.

(* x may replace rest behind a span: same next byte, or next byte outside the alphabet *)
Definition compat (rest x : string) : Prop :=
  peek x = peek rest \/ exists c, peek x = Some c /\ illegal_char c = true.

(* a comment that is closed inside the text (not by the end of the input) *)
Definition closed_comment (body : string) : Prop :=
  (exists b0, no_nl b0 = true /\ body = "//" ^^ b0 ^^ String (ascii_of_nat 10) "") \/
  (exists b, body = "/*" ^^ b /\ closes_at_end false b = true).

Lemma illegal_tests c : illegal_char c = true ->
  single_char c = None /\ is_special c = false /\ is_lab c = false /\ is_ws c = false /\
  (code c =? 47)%nat = false /\ (code c =? 42)%nat = false /\ (code c =? 62)%nat = false /\
  (code c =? 45)%nat = false /\ (code c =? 111)%nat = false /\ (code c =? 92)%nat = false.
Proof.
  unfold illegal_char. rewrite !andb_true_iff, !negb_true_iff. intros [[[H1 H2] H3] H4].
  destruct (single_char c) eqn:Esc; [discriminate|].
  assert (Hsp := H2). unfold is_special in Hsp. rewrite !orb_false_iff in Hsp.
  assert (H42 : (code c =? 42)%nat = false).
  { destruct (code c =? 42)%nat eqn:E; [|reflexivity]. apply code_eq in E. subst c. discriminate Esc. }
  assert (H62 : (code c =? 62)%nat = false).
  { destruct (code c =? 62)%nat eqn:E; [|reflexivity]. apply code_eq in E. subst c. discriminate Esc. }
  assert (H111 : (code c =? 111)%nat = false).
  { destruct (code c =? 111)%nat eqn:E; [|reflexivity]. apply code_eq in E. subst c. discriminate H3. }
  tauto.
Qed.

Lemma skip_eol_nl b0 x : no_nl b0 = true -> skip_eol (b0 ^^ String (ascii_of_nat 10) x) = x.
Proof.
  induction b0 as [|c b0 IH]; cbn; [reflexivity|]. intros H. apply andb_true_iff in H. destruct H as [H1 H2].
  apply negb_true_iff in H1. rewrite H1. apply IH. exact H2.
Qed.
Lemma skip_comment_closed b : forall ps x, closes_at_end ps b = true -> skip_comment ps (b ^^ x) = x.
Proof.
  induction b as [|c b IH]; intros ps x H; cbn in H; [discriminate|].
  cbn [String.append skip_comment]. destruct (ps && (code c =? 47)%nat).
  - destruct b; [reflexivity | discriminate].
  - apply IH. exact H.
Qed.
Lemma take_label_app l x : all_lab l = true -> (match peek x with Some c => is_lab c = false | None => True end) ->
  take_label (l ^^ x) = (l, x).
Proof.
  induction l as [|c l IH]; intros Hl Hx.
  - cbn [String.append]. destruct x as [|e x']; [reflexivity|]. cbn in Hx. cbn. rewrite Hx. reflexivity.
  - cbn in Hl. apply andb_true_iff in Hl. destruct Hl as [H1 H2]. cbn [String.append take_label]. rewrite H1.
    rewrite (IH H2 Hx). reflexivity.
Qed.
Lemma take_label_stop s : match peek (snd (take_label s)) with Some c => is_lab c = false | None => True end.
Proof.
  induction s as [|c r IH]; cbn; [exact I|]. destruct (is_lab c) eqn:E.
  - destruct (take_label r) as [l rest]. cbn [snd] in *. exact IH.
  - cbn. exact E.
Qed.

Ltac use_tests :=
  repeat match goal with
         | H : ?t = false |- context [?t] => rewrite H
         | H : ?t = true |- context [?t] => rewrite H
         end.

(* the next byte of x fails every test that the next byte of rest failed *)
Lemma compat_cases rest x : compat rest x ->
  (x = "" /\ rest = "") \/
  (exists e x', x = String e x' /\ ((exists r', rest = String e r') \/ illegal_char e = true)).
Proof.
  intros [H | [c [H Hc]]].
  - destruct x as [|e x'], rest as [|d r']; cbn in H; try discriminate; [left; auto|].
    inversion H; subst. right. exists d, x'. split; [reflexivity|]. left. eauto.
  - destruct x as [|e x']; cbn in H; [discriminate|]. inversion H; subst. right. exists c, x'. split; [reflexivity|]. right. exact Hc.
Qed.

Ltac local_goal Esc :=
  unfold scan1_body; cbn [String.append]; rewrite Esc, special_match; cbn [peek is_char take_label];
  use_tests; rewrite ?andb_false_r, ?andb_false_l; use_tests; try reflexivity.

Lemma scan1_body_local c r x res :
  scan1_body (String c r) = res ->
  compat (res_rest res) x ->
  (forall k lx rest, res = Tok k lx rest -> code0 k = false) ->
  (forall rest body, res = Skip rest -> String c r = body ^^ rest -> closed_comment body) ->
  exists body, String c r = body ^^ res_rest res /\ scan1_body (body ^^ x) = set_rest res x.
Proof.
  intros Hres Hcompat Hreal Hclosed.
  unfold scan1_body in Hres. destruct (single_char c) as [k|] eqn:Esc.
  { subst res. exists (String c ""). split; [reflexivity|]. unfold scan1_body. cbn [String.append]. rewrite Esc. reflexivity. }
  rewrite special_match in Hres.
  destruct r as [|d r']; cbn [peek is_char] in Hres.
  - (* the span is the last byte of the text *)
    rewrite !andb_false_r in Hres. cbn [take_label] in Hres.
    destruct (is_special c) eqn:Esp.
    + destruct (code c =? 61)%nat eqn:E61; [|destruct (code c =? 60)%nat eqn:E60; [|destruct (code c =? 45)%nat eqn:E45;
        [|destruct (code c =? 49)%nat eqn:E49; [|destruct (code c =? 92)%nat eqn:E92]]]];
        subst res; cbn [res_rest set_rest] in *;
        try (exfalso; specialize (Hreal _ _ _ eq_refl); discriminate Hreal);
        (exists (String c ""); split; [reflexivity|]);
        (destruct (compat_cases _ _ Hcompat) as [[-> _] | [e [x' [-> [[r' Hr] | Hill]]]]]; [| discriminate Hr |]);
        try (local_goal Esc; fail);
        (destruct (illegal_tests e Hill) as [T1 [T2 [T3 [T4 [T5 [T6 [T7 [T8 [T9 T10]]]]]]]]]; local_goal Esc).
    + destruct (is_lab c) eqn:El; subst res; cbn [res_rest set_rest] in *;
        [| exfalso; specialize (Hreal _ _ _ eq_refl); discriminate Hreal].
      exists (String c ""). split; [reflexivity|].
      destruct (compat_cases _ _ Hcompat) as [[-> _] | [e [x' [-> [[r' Hr] | Hill]]]]]; [| discriminate Hr |].
      * local_goal Esc.
      * destruct (illegal_tests e Hill) as [T1 [T2 [T3 [T4 [T5 [T6 [T7 [T8 [T9 T10]]]]]]]]]. local_goal Esc.
  - (* at least two bytes *)
    pose proof (take_label_spec (String d r')) as [Hl1 Hl2]. pose proof (take_label_stop (String d r')) as Hl3.
    (* the next byte e of x behaves like d (or is outside the alphabet) *)
    assert (Hnext : compat (String d r') x -> exists e x', x = String e x' /\ (e = d \/ illegal_char e = true)).
    { intros Hc. destruct (compat_cases _ _ Hc) as [[_ Hd] | [e [x' [-> [[r'' Hr] | Hill]]]]]; [discriminate Hd | |].
      - inversion Hr; subst. eauto.
      - eauto. }
    destruct (code c =? 47)%nat eqn:E47; cbn [andb] in Hres.
    + (* c = '/' *)
      assert (Hc47 : code c = 47%nat) by (apply Nat.eqb_eq; exact E47).
      assert (Esp : is_special c = true) by (unfold is_special; rewrite E47; rewrite !orb_true_r; reflexivity).
      assert (E61 : (code c =? 61)%nat = false) by (apply Nat.eqb_neq; lia).
      assert (E60 : (code c =? 60)%nat = false) by (apply Nat.eqb_neq; lia).
      assert (E45 : (code c =? 45)%nat = false) by (apply Nat.eqb_neq; lia).
      assert (E49 : (code c =? 49)%nat = false) by (apply Nat.eqb_neq; lia).
      assert (E92 : (code c =? 92)%nat = false) by (apply Nat.eqb_neq; lia).
      rewrite Esp, E61, E60, E45, E49, E92 in Hres.
      destruct (code d =? 47)%nat eqn:D47.
      { (* line comment *)
        subst res. cbn [res_rest set_rest] in *.
        destruct (skip_eol_spec r') as [b [Hb1 _]].
        assert (Hcl := Hclosed _ (String c (String d b)) eq_refl ltac:(cbn [String.append]; rewrite <- Hb1; reflexivity)).
        apply code_eq in E47, D47. subst c d.
        destruct Hcl as [[b0 [Hn Hb]] | [b1 [Hb _]]]; [|discriminate Hb].
        exists ("//" ^^ b0 ^^ String (ascii_of_nat 10) ""). split.
        - rewrite <- Hb. cbn [String.append]. rewrite <- Hb1. reflexivity.
        - rewrite !append_assoc. cbn [String.append]. unfold scan1_body.
          change (single_char "/"%char) with (@None tk). rewrite special_match. cbn [peek is_char].
          change ((code "/" =? 47)%nat) with true. cbn [andb]. rewrite skip_eol_nl by exact Hn. reflexivity. }
      destruct (code d =? 42)%nat eqn:D42.
      { (* block comment *)
        subst res. cbn [res_rest set_rest] in *.
        destruct (skip_comment_spec r' false) as [b [Hb1 _]].
        assert (Hcl := Hclosed _ (String c (String d b)) eq_refl ltac:(cbn [String.append]; rewrite <- Hb1; reflexivity)).
        apply code_eq in E47, D42. subst c d.
        destruct Hcl as [[b0 [Hn Hb]] | [b1 [Hb Hcb]]]; [discriminate Hb|].
        exists ("/*" ^^ b1). split.
        - rewrite <- Hb. cbn [String.append]. rewrite <- Hb1. reflexivity.
        - rewrite !append_assoc. cbn [String.append]. unfold scan1_body.
          change (single_char "/"%char) with (@None tk). rewrite special_match. cbn [peek is_char].
          change ((code "/" =? 47)%nat) with true. change ((code "*" =? 47)%nat) with false. change ((code "*" =? 42)%nat) with true.
          cbn [andb]. rewrite skip_comment_closed by exact Hcb. reflexivity. }
      destruct (code d =? 92)%nat eqn:D92; subst res; cbn [res_rest set_rest] in *;
        [| exfalso; specialize (Hreal _ _ _ eq_refl); discriminate Hreal].
      exists (String c (String d "")). split; [reflexivity|]. local_goal Esc.
    + (* c is not '/' *)
      destruct (is_special c) eqn:Esp.
      * destruct (code c =? 61)%nat eqn:E61.
        { destruct (code d =? 62)%nat eqn:D; subst res; cbn [res_rest set_rest] in *.
          - exists (String c (String d "")). split; [reflexivity|]. local_goal Esc.
          - exists (String c ""). split; [reflexivity|].
            destruct (Hnext Hcompat) as [e [x' [-> [-> | Hill]]]]; [local_goal Esc|].
            destruct (illegal_tests e Hill) as [T1 [T2 [T3 [T4 [T5 [T6 [T7 [T8 [T9 T10]]]]]]]]]. local_goal Esc. }
        destruct (code c =? 60)%nat eqn:E60.
        { destruct (code d =? 45)%nat eqn:D; subst res; cbn [res_rest set_rest] in *.
          - exists (String c (String d "")). split; [reflexivity|]. local_goal Esc.
          - exists (String c ""). split; [reflexivity|].
            destruct (Hnext Hcompat) as [e [x' [-> [-> | Hill]]]]; [local_goal Esc|].
            destruct (illegal_tests e Hill) as [T1 [T2 [T3 [T4 [T5 [T6 [T7 [T8 [T9 T10]]]]]]]]]. local_goal Esc. }
        destruct (code c =? 45)%nat eqn:E45.
        { destruct (code d =? 42)%nat eqn:D; [|destruct (code d =? 111)%nat eqn:D2]; subst res; cbn [res_rest set_rest] in *.
          - exists (String c (String d "")). split; [reflexivity|]. local_goal Esc.
          - exists (String c (String d "")). split; [reflexivity|]. local_goal Esc.
          - exists (String c ""). split; [reflexivity|].
            destruct (Hnext Hcompat) as [e [x' [-> [-> | Hill]]]]; [local_goal Esc|].
            destruct (illegal_tests e Hill) as [T1 [T2 [T3 [T4 [T5 [T6 [T7 [T8 [T9 T10]]]]]]]]]. local_goal Esc. }
        destruct (code c =? 49)%nat eqn:E49.
        { destruct (is_lab d) eqn:Dl.
          - destruct (take_label (String d r')) as [l rest] eqn:Etl. cbn [fst snd] in *. subst res. cbn [res_rest set_rest] in *.
            exists (String c l). split; [cbn [String.append]; rewrite <- Hl1; reflexivity|].
            assert (Hl : exists l', l = String d l').
            { cbn [take_label] in Etl. rewrite Dl in Etl. destruct (take_label r') as [l0 rest0]. inversion Etl; subst. eauto. }
            destruct Hl as [l' ->].
            assert (Hx : match peek x with Some c0 => is_lab c0 = false | None => True end).
            { destruct (compat_cases _ _ Hcompat) as [[-> _] | [e [x' [-> [[r'' Hr] | Hill]]]]]; [exact I | |].
              - subst rest. cbn in Hl3 |- *. exact Hl3.
              - cbn. exact (proj1 (proj2 (proj2 (illegal_tests e Hill)))). }
            unfold scan1_body. cbn [String.append]. rewrite Esc, special_match. cbn [peek is_char]. use_tests. cbn [andb]. use_tests.
            change (String d (l' ^^ x)) with (String d l' ^^ x). rewrite (take_label_app _ _ Hl2 Hx). reflexivity.
          - subst res. cbn [res_rest set_rest] in *. exists (String c ""). split; [reflexivity|].
            destruct (Hnext Hcompat) as [e [x' [-> [-> | Hill]]]]; [local_goal Esc|].
            destruct (illegal_tests e Hill) as [T1 [T2 [T3 [T4 [T5 [T6 [T7 [T8 [T9 T10]]]]]]]]]. local_goal Esc. }
        destruct (code c =? 92)%nat eqn:E92.
        { destruct (code d =? 47)%nat eqn:D; subst res; cbn [res_rest set_rest] in *;
            [| exfalso; specialize (Hreal _ _ _ eq_refl); discriminate Hreal].
          exists (String c (String d "")). split; [reflexivity|]. local_goal Esc. }
        exfalso. unfold is_special in Esp. rewrite E61, E60, E45, E49, E47, E92 in Esp. discriminate Esp.
      * destruct (is_lab c) eqn:El.
        -- destruct (take_label (String d r')) as [l rest] eqn:Etl. cbn [fst snd] in *. subst res. cbn [res_rest set_rest] in *.
           exists (String c l). split; [cbn [String.append]; rewrite <- Hl1; reflexivity|].
           assert (Hx : match peek x with Some c0 => is_lab c0 = false | None => True end).
           { destruct (compat_cases _ _ Hcompat) as [[-> _] | [e [x' [-> [[r'' Hr] | Hill]]]]]; [exact I | |].
             - subst rest. cbn in Hl3 |- *. exact Hl3.
             - cbn. exact (proj1 (proj2 (proj2 (illegal_tests e Hill)))). }
           unfold scan1_body. cbn [String.append]. rewrite Esc, special_match.
           assert (Hnc : forall y, ((code c =? 47)%nat && is_char 47 (peek y)) = false) by (intros; rewrite E47; reflexivity).
           assert (Hnc2 : forall y, ((code c =? 47)%nat && is_char 42 (peek y)) = false) by (intros; rewrite E47; reflexivity).
           rewrite Hnc, Hnc2, Esp, El. rewrite (take_label_app _ _ Hl2 Hx). reflexivity.
        -- subst res. exfalso. specialize (Hreal _ _ _ eq_refl). discriminate Hreal.
Qed.

(* ---- one whole call of Scan (leading whitespace included) ---- *)
Lemma skip_ws_head s : match skip_ws s with String c _ => is_ws c = false | EmptyString => True end.
Proof. induction s as [|c r IH]; cbn; [exact I|]. destruct (is_ws c) eqn:E; [exact IH | cbn; exact E]. Qed.

Lemma skip_ws_id c r : is_ws c = false -> skip_ws (String c r) = String c r.
Proof. intros H. cbn. rewrite H. reflexivity. Qed.

Lemma scan1_local s x res :
  scan1 s = res ->
  compat (res_rest res) x ->
  (forall k lx rest, res = Tok k lx rest -> code0 k = false) ->
  (forall rest sp, res = Skip rest -> s = sp ^^ rest -> exists ws body, sp = ws ^^ body /\ all_ws ws = true /\ closed_comment body) ->
  exists sp, s = sp ^^ res_rest res /\ scan1 (sp ^^ x) = set_rest res x.
Proof.
  intros Hres Hcompat Hreal Hclosed.
  rewrite scan1_unfold, strip_ws_skip in Hres.
  destruct (skip_ws_spec s) as [ws [Hs Hws]].
  pose proof (skip_ws_head s) as Hhead.
  destruct (skip_ws s) as [|c r] eqn:Esk.
  { (* only whitespace left: the end-of-input token, excluded *)
    cbn in Hres. subst res. exfalso. specialize (Hreal _ _ _ eq_refl). discriminate Hreal. }
  assert (Hcl : forall rest body, res = Skip rest -> String c r = body ^^ rest -> closed_comment body).
  { intros rest body Hr Hb.
    destruct (Hclosed rest (ws ^^ body) Hr) as [ws' [body' [Hsp [Hws' Hcc]]]].
    { rewrite append_assoc, <- Hb. exact Hs. }
    (* both decompositions strip the same whitespace: the body starts with a non-blank byte *)
    assert (Hb1 : exists c1 b1, body = String c1 b1 /\ is_ws c1 = false).
    { destruct body as [|c1 b1].
      - cbn in Hb. exfalso. subst rest.
        unfold scan1_body in Hres. rewrite Hr in Hres.
        assert (Hlen : (slen (res_rest (scan1_body (String c r))) < slen (String c r))%nat) by exact (scan1_body_progress (String c r)).
        unfold scan1_body in Hlen. rewrite Hres in Hlen. cbn in Hlen. lia.
      - cbn in Hb. inversion Hb; subst. eauto. }
    destruct Hb1 as [c1 [b1 [-> Hc1]]].
    assert (Hb2 : exists c2 b2, body' = String c2 b2 /\ is_ws c2 = false).
    { destruct Hcc as [[b0 [_ ->]] | [b [-> _]]]; eexists _, _; (split; [reflexivity | vm_compute; reflexivity]). }
    destruct Hb2 as [c2 [b2 [-> Hc2]]].
    assert (Heq : forall w1 w2 y1 y2 a1 a2, all_ws w1 = true -> all_ws w2 = true -> is_ws a1 = false -> is_ws a2 = false ->
                  w1 ^^ String a1 y1 = w2 ^^ String a2 y2 -> String a1 y1 = String a2 y2).
    { clear. induction w1 as [|p w1 IH]; intros w2 y1 y2 a1 a2 H1 H2 Ha1 Ha2 He.
      - destruct w2 as [|q w2]; [exact He|]. cbn in He. inversion He; subst. cbn in H2. rewrite Ha1 in H2. discriminate.
      - destruct w2 as [|q w2]; cbn in He.
        + inversion He; subst. cbn in H1. rewrite Ha2 in H1. discriminate.
        + inversion He; subst. cbn in H1, H2. apply andb_true_iff in H1, H2. eapply IH; try eassumption; tauto. }
    rewrite (Heq _ _ _ _ _ _ Hws Hws' Hc1 Hc2 Hsp). exact Hcc. }
  destruct (scan1_body_local c r x res Hres Hcompat Hreal Hcl) as [body [Hb Hloc]].
  exists (ws ^^ body). split; [rewrite append_assoc, <- Hb; exact Hs|].
  rewrite scan1_unfold, strip_ws_skip, append_assoc, skip_ws_app by exact Hws.
  destruct body as [|c1 b1].
  - cbn in Hb. exfalso.
    assert (Hlen : (slen (res_rest (scan1_body (String c r))) < slen (String c r))%nat) by exact (scan1_body_progress (String c r)).
    rewrite Hres, <- Hb in Hlen. cbn in Hlen. lia.
  - cbn in Hb. inversion Hb; subst c1. cbn [String.append]. rewrite skip_ws_id by exact Hhead. exact Hloc.
Qed.

(* ---- token boundaries of a text P, with the prefix consumed in front of them ---- *)
Definition closed_span (sp : string) : Prop :=
  exists ws body, sp = ws ^^ body /\ all_ws ws = true /\ closed_comment body.

(* cboundary P a b: P = a ^^ b, and scanning P a call of Scan starts at b after real tokens and
   comments CLOSED INSIDE the text (a position behind an unterminated comment is inside it) *)
Inductive cboundary : string -> string -> string -> Prop :=
| CB_here s : cboundary s "" s
| CB_tok s k lx rest sp a u : scan1 s = Tok k lx rest -> code0 k = false -> s = sp ^^ rest ->
    cboundary rest a u -> cboundary s (sp ^^ a) u
| CB_skip s rest sp a u : scan1 s = Skip rest -> s = sp ^^ rest -> closed_span sp ->
    cboundary rest a u -> cboundary s (sp ^^ a) u.

Lemma cboundary_text s a u : cboundary s a u -> s = a ^^ u.
Proof. induction 1; [reflexivity | |]; subst; rewrite append_assoc; congruence. Qed.

Lemma append_cancel_r p q rest : p ^^ rest = q ^^ rest -> p = q.
Proof. intros H. rewrite <- (span_of_app p rest), <- (span_of_app q rest), H. reflexivity. Qed.

Lemma compat_insert a u c : illegal_char c = true -> compat (a ^^ u) (a ^^ String c u).
Proof.
  intros Hc. destruct a as [|p a']; cbn [String.append].
  - right. exists c. split; [reflexivity | exact Hc].
  - left. reflexivity.
Qed.

Lemma cboundary_insert s a u : cboundary s a u -> forall c, illegal_char c = true ->
  boundary (a ^^ String c u) (String c u).
Proof.
  induction 1 as [s | s k lx rest sp a u Hs Hk Hsp Hb IH | s rest sp a u Hs Hsp Hcl Hb IH]; intros c Hc.
  - apply B_here.
  - pose proof (cboundary_text _ _ _ Hb) as Hrest.
    assert (Hcompat : compat (res_rest (Tok k lx rest)) (a ^^ String c u)) by (cbn [res_rest]; rewrite Hrest; apply compat_insert; exact Hc).
    destruct (scan1_local s (a ^^ String c u) (Tok k lx rest) Hs Hcompat) as [sp' [Hsp' Hloc]].
    + intros k0 lx0 rest0 Heq. inversion Heq; subst. exact Hk.
    + intros rest0 sp0 Heq. discriminate Heq.
    + cbn [res_rest set_rest] in *. assert (sp' = sp) by (apply (append_cancel_r _ _ rest); congruence). subst sp'.
      rewrite append_assoc. eapply B_tok; [exact Hloc | exact Hk | apply IH; exact Hc].
  - pose proof (cboundary_text _ _ _ Hb) as Hrest.
    assert (Hcompat : compat (res_rest (Skip rest)) (a ^^ String c u)) by (cbn [res_rest]; rewrite Hrest; apply compat_insert; exact Hc).
    destruct (scan1_local s (a ^^ String c u) (Skip rest) Hs Hcompat) as [sp' [Hsp' Hloc]].
    + intros k0 lx0 rest0 Heq. discriminate Heq.
    + intros rest0 sp0 Heq Hs0. inversion Heq; subst rest0.
      assert (sp0 = sp) by (apply (append_cancel_r _ _ rest); congruence). subst sp0. exact Hcl.
    + cbn [res_rest set_rest] in *. assert (sp' = sp) by (apply (append_cancel_r _ _ rest); congruence). subst sp'.
      rewrite append_assoc. eapply B_skip; [exact Hloc | apply IH; exact Hc].
Qed.

(* C12, the quantifier of the property: for every text P and every token boundary of P (outside
   comments), inserting a character outside the alphabet there yields a text that is rejected *)
Theorem insert_illegal_rejected : forall P a b c,
  cboundary P a b -> illegal_char c = true -> forall l, parse_statements (a ^^ String c b) <> POk l.
Proof.
  intros P a b c Hb Hc l.
  apply (illegal_at_boundary_rejected (a ^^ String c b) "" c b); [|reflexivity | exact Hc].
  exact (cboundary_insert P a b Hb c Hc).
Qed.

(* non-vacuity: e.g. the boundaries of `prc[a] : 1 = close self` include the position behind `prc` *)
Example cboundary_example : cboundary "prc[a] : 1 = close self" "prc" "[a] : 1 = close self".
Proof.
  replace "prc" with ("prc" ^^ "") by reflexivity.
  eapply (CB_tok _ PRC "prc" "[a] : 1 = close self" "prc"); [vm_compute; reflexivity | reflexivity | reflexivity | apply CB_here].
Qed.
