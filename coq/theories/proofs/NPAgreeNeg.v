(* NPAgreeNeg.v — the last clause of C03 ("the same multiset of printed labels in all three modes") for
   contraction-free programs WITH forwards, all at negative types, and without drop (NPNegFwd.nfw):
   if a run of the non-polarized mode completes, every run of the synchronous polarized mode with at
   least that fuel completes and prints a permutation of its labels; so does every long enough run of
   the asynchronous mode.
   Proof: every synchronous step is a non-polarized step to the same configuration (sync_step_np_exact),
   so synchronous runs are NP runs and are bounded by the length n of the complete NP run
   (NPDeterminism.np_uniform); no errors (C01), so the synchronous run ends quiescent in some S after
   m <= n steps; the NP run c ->^m S extends by n - m steps to a configuration equivalent to the end
   of the given run, and those steps print nothing (NPFlush.flush_run). *)
From stdpp Require Import gmap strings sorting.
Require Import Grits.Base Grits.ModeDefs Grits.Modes Grits.STypes Grits.Forms Grits.Subst Grits.TcDeps Grits.Expand
               Grits.Tc Grits.TcTop Grits.spec.SynOk Grits.Runtime Grits.RuntimeFootprint
               Grits.spec.RtTyping Grits.spec.Topo Grits.proofs.RtSafety Grits.proofs.RtInit Grits.proofs.RtTheorems
               Grits.proofs.RtTcSyn Grits.proofs.RtTcBisim Grits.proofs.ParseSynOk Grits.proofs.ParseRaw Grits.proofs.RtTheoremsTc Grits.proofs.SrcAll.
Require Import Grits.proofs.RuntimeFacts Grits.proofs.Diamond Grits.proofs.Determinism Grits.proofs.AsyncSync
               Grits.proofs.TopoStep Grits.proofs.InvAll Grits.proofs.InvNP Grits.proofs.DeterminismAll Grits.proofs.NPCfree Grits.proofs.Balanced
               Grits.proofs.NPJoinA Grits.proofs.NPDeterminism Grits.proofs.NPFlush Grits.proofs.NPNegFwd.

Section Agree.
Variable D : tenv.
Variable F : list fundef.
Variable teq : sty -> sty -> Prop.
Hypothesis Hteq : teq_laws D teq.
Hypothesis HF : funs_typed D F teq.
Hypothesis HFa : funs_aff F.
Hypothesis HFn : nofd_funs F.
Hypothesis HFw : nfw_funs D F.
Notation JN := (JN D F teq).
Notation stpN := (stp NP D F).
Notation runN := (bsteps stpN).

Let HFc : cfree_funs F := nfw_funs_cfree D F HFw.

(* a synchronous run of the interpreter from a configuration whose NP runs are bounded *)
Lemma sync_exec_bounded pick : forall fuel N c, JN c -> NF D c ->
  (forall m c', runN m c c' -> (m <= N)%nat) -> (N < fuel)%nat ->
  exists S m, exec_run fuel pick Sync D F c = RQuiescent S /\ runN m c S /\ quiescent Sync D F S /\ JN S.
Proof.
  induction fuel as [|f IH]; intros N c HJ Hnf Hbd Hlt; [lia|]. cbn [exec_run].
  destruct (enabled Sync D F c) as [|e0 es] eqn:E.
  - exists c, 0%nat. split; [done|]. split; [apply bs_O|]. split; [by apply enabled_nil_quiescent|done].
  - set (ch := nth _ _ _).
    assert (Hin : In ch (enabled Sync D F c)).
    { rewrite E. apply nth_In. cbn [length]. apply Nat.mod_upper_bound. lia. }
    apply enabled_spec in Hin. destruct (step Sync D F c ch) as [|c'|who e] eqn:Es; [done| |].
    + destruct (sync_step_np_exact D F teq Hteq HF c ch c' HJ Hnf Es) as [ch' Hs'].
      pose proof HJ as (_ & Hbe & _).
      assert (HJ' : JN c') by (eapply (JN_step D F teq Hteq HF HFa HFn HFc); eauto).
      assert (Hnf' : NF D c') by (eapply nf_step_np; eauto).
      assert (Hst : stpN c ch' = Some c') by (by apply stp_Some).
      assert (H1 : (1 <= N)%nat) by (apply (Hbd 1%nat c'); eapply bs_S; [exact Hst|apply bs_O]).
      destruct (IH (N - 1)%nat c' HJ' Hnf') as (S & m & Hr & Hm & Hq & HJS); [|lia|].
      { intros m c'' Hm. assert (S m <= N)%nat by (apply (Hbd (S m) c''); eapply bs_S; eauto). lia. }
      exists S, (Datatypes.S m). split; [done|]. split; [eapply bs_S; eauto|done].
    + exfalso. destruct HJ as (HI & _). destruct HI as [[Δ Hc] Ht _ _ _ _ _].
      eapply (no_error_md D F teq Hteq HF Sync Δ c ch who e eq_refl Hc); [|exact Es].
      exact (topo_closed_unused Sync D c eq_refl Ht).
Qed.

Theorem np_sync_agree_neg_cfg c pick1 f1 t1 : JN c -> NF D c ->
  exec_run f1 pick1 NP D F c = RQuiescent t1 ->
  forall pick2 f2, (f1 <= f2)%nat ->
    exists t2, exec_run f2 pick2 Sync D F c = RQuiescent t2 /\ labels t2 ≡ₚ labels t1.
Proof.
  intros HJ Hnf H1 pick2 f2 Hle. apply exec_run_sound in H1 as (n & Hn & Hr & Hq).
  apply (nsteps_bsteps D F) in Hr.
  assert (Ht : bterminal stpN t1) by (intros a; unfold stp; by rewrite Hq).
  pose proof (np_uniform D F teq Hteq HF HFa HFn HFc n c t1 HJ Hr Ht) as Hu.
  destruct (sync_exec_bounded pick2 f2 n c HJ Hnf) as (S & m & Hrun & Hm & HqS & HJS); [intros m c' Hm; by apply (Hu m c' Hm)|lia|].
  exists S. split; [done|]. destruct (Hu m S Hm) as [_ (t' & Ht' & He)].
  destruct (flush_run D F teq Hteq HF (n - m) S t' HFa HFn HFc HJS HqS Ht') as [_ Ho].
  rewrite <- (cfg_equiv_labels t' t1 He). unfold labels. by rewrite Ho.
Qed.
End Agree.

(* ------------------------------------------------------------------ programs *)
(* the test on the CHECKED program (the annotations of the checker carry the polarity of a forward):
   no split, no drop, every forward at a negative type, one provider name per process *)
Definition negfwd_prog_b (p' : program) : bool :=
  forallb (fun fd => nfw (p_types p') (fn_body fd)) (p_funs p') &&
  forallb (fun pd => nfw (p_types p') (pr_body pd) && match pr_providers pd with [_] => true | _ => false end) (p_procs p').

Lemma fold_subst_nfw D (l : list (name * name)) : forall b,
  nfw D (fold_left (fun b '(old, new) => subst old new b) l b) = nfw D b.
Proof. induction l as [|[old new] l IH]; intros b; [reflexivity|]. cbn [fold_left]. by rewrite IH, nfw_subst. Qed.

Lemma init_nf p' : negfwd_prog_b p' = true -> nfw_funs (p_types p') (p_funs p') /\ NF (p_types p') (init_config p').
Proof.
  intros Hpl. unfold negfwd_prog_b in Hpl. apply andb_true_iff in Hpl as [Hpf Hpp]. rewrite forallb_forall in Hpf, Hpp. split.
  - unfold nfw_funs. rewrite Forall_forall. exact Hpf.
  - intros q pq Hq. apply RtInit.init_config_procs in Hq. destruct Hq as (i & pd & Hi & _ & ->). cbn.
    assert (Hin : In pd (p_procs p')) by (apply elem_of_list_In; eapply elem_of_list_lookup_2; eauto).
    specialize (Hpp pd Hin). apply andb_true_iff in Hpp as [H1 H2]. split.
    + unfold init_body. by rewrite fold_subst_nfw.
    + destruct (pr_providers pd) as [|n [|]]; try discriminate. simpl. eauto.
Qed.

Theorem np_polarized_agree_negfwd txt p p' pick1 f1 t1 :
  parse_string txt = POk p -> typecheck p = Accept p' -> in_fragment p' -> negfwd_prog_b p' = true ->
  exec_run f1 pick1 NP (p_types p') (p_funs p') (init_config p') = RQuiescent t1 ->
  (forall pick2 f2, (f1 <= f2)%nat ->
     exists t2, exec_run f2 pick2 Sync (p_types p') (p_funs p') (init_config p') = RQuiescent t2 /\ labels t2 ≡ₚ labels t1) /\
  exists n, forall pick2 f2, (n < f2)%nat ->
    exists t2, exec_run f2 pick2 Async (p_types p') (p_funs p') (init_config p') = RQuiescent t2 /\ labels t2 ≡ₚ labels t1.
Proof.
  intros Hp Ha Hf Hcf Hr.
  pose proof (parse_syn_ok _ _ Hp) as PS. pose proof (parse_raw_ok _ _ Hp) as RS.
  pose proof (all_src_parsed txt p p' Hp Ha) as Hall.
  destruct (init_invx p p' Ha Hf PS RS Hall) as (HFa & HFn & HI).
  destruct (init_nf p' Hcf) as [HFw Hnf].
  pose proof (tc_annotations_typed_rt p p' Ha PS RS Hf) as Hst.
  assert (HJ : JN (p_types p') (p_funs p') (teq_rt (p_types p')) (init_config p')).
  { split; [exact HI|]. split; [apply bufs_empty_init|by apply NF_CF in Hnf]. }
  pose proof (np_sync_agree_neg_cfg (p_types p') (p_funs p') (teq_rt (p_types p')) (teq_rt_laws _) (proj1 Hst) HFa HFn HFw
                (init_config p') pick1 f1 t1 HJ Hnf Hr) as Hs.
  split; [exact Hs|].
  destruct (Hs pick1 f1 (le_n _)) as (t2 & H2 & Hl2).
  destruct (async_sync_agree_all txt p p' pick1 f1 t2 Hp Ha Hf Hall H2) as (n & Hn).
  exists n. intros pick2 f2 Hlt. destruct (Hn pick2 f2 Hlt) as (t3 & H3 & Hl3). exists t3. split; [done|]. by rewrite Hl3.
Qed.

(* ------------------------------------------------------------------ non-vacuity *)
Definition negfwd_text (txt : string) : bool :=
  match parse_string txt with
  | POk p => match typecheck p with
             | Accept p' => RtStaticCheck.in_fragment_b p' && negfwd_prog_b p'
             | _ => false
             end
  | _ => false
  end.

(* a proxy that forwards to a server at the negative type 1 -* 1: the client's request goes through the forward *)
Definition example_negfwd_text : string :=
"type A = lin 1 -* 1
let srv() : A = <x, y> <- recv self; wait x; print served; close y
let prx() : A = s : A <- new srv(); fwd self s
prc[a] : lin 1 = p : A <- new prx(); u : lin 1 <- new close self; r : lin 1 <- new send p<u, self>; wait r; print done; close self".

Example example_negfwd_accept : negfwd_text example_negfwd_text = true.
Proof. vm_compute. reflexivity. Qed.

(* the three modes on it (first enabled choice at every step) *)
Example example_negfwd_runs :
  run_text example_negfwd_text NP (fun _ _ => 0%nat) = Some (1%nat, ["served"; "done"], true) /\
  run_text example_negfwd_text Sync (fun _ _ => 0%nat) = Some (1%nat, ["served"; "done"], true) /\
  run_text example_negfwd_text Async (fun _ _ => 0%nat) = Some (0%nat, ["served"; "done"], true).
Proof. vm_compute. auto. Qed.
