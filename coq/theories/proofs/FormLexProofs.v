(* FormLexProofs.v — the reference tokenizer reads a printed self-style term back as its
   token-level print; parse_print_form (C15, term half). *)
Require Import Grits.Base Grits.ModeDefs Grits.STypes Grits.Forms Grits.Tokens Grits.Scan Grits.Print Grits.EqualWF
               Grits.spec.FormReader Grits.proofs.StrLemmas Grits.proofs.LexProofs Grits.proofs.FormReaderProofs.

Lemma fflush_nil : fflush "" = [].
Proof. reflexivity. Qed.

Lemma flex_label x : forall acc rest, all_chars is_lab x = true -> nolab_start rest ->
  flex_go acc (x ^^ rest) = fflush (acc ^^ x) ++ flex_go "" rest.
Proof.
  induction x as [|c x IH]; intros acc rest Hx Hr.
  - cbn [append]. rewrite app_nil_r_s. destruct rest as [|c r]; cbn [flex_go].
    + rewrite fflush_nil, app_nil_r. reflexivity.
    + cbn in Hr. rewrite Hr. rewrite fflush_nil. reflexivity.
  - cbn [all_chars] in Hx. apply andb_true_iff in Hx. destruct Hx as [Hc Hx].
    cbn [append flex_go]. rewrite Hc. rewrite IH by assumption. rewrite app_assoc_s. reflexivity.
Qed.

Lemma word_ok_parts x : word_ok x = true -> all_chars is_lab x = true /\ fflush x = [FLab x].
Proof.
  unfold word_ok, ident_ok, fflush, word_tok, tk_eqb. rewrite !andb_true_iff, !negb_true_iff.
  intros [[[H1 H2] H3] H4]. rewrite H1, H3. destruct (tk_eq_dec (keyword x) LABEL) as [E|E]; [|discriminate].
  rewrite E. auto.
Qed.

Lemma lex_word x rest : word_ok x = true -> nolab_start rest -> flex_go "" (x ^^ rest) = FLab x :: flex_go "" rest.
Proof.
  intros Hx Hr. destruct (word_ok_parts x Hx) as [Hc Hf]. rewrite flex_label by assumption.
  rewrite app_nil_l_s, Hf. reflexivity.
Qed.

Lemma lex_name a rest : name_ok a = true -> nolab_start rest -> flex_go "" (print_name a ^^ rest) = nt a :: flex_go "" rest.
Proof.
  intros Ha Hr. destruct (name_ok_inv a Ha) as [-> | [x [-> Hx]]].
  - change (print_name self_name) with "self". rewrite flex_label by (auto; reflexivity). reflexivity.
  - assert (Hne : String.eqb x "" = false).
    { unfold word_ok, ident_ok in Hx. rewrite !andb_true_iff, !negb_true_iff in Hx. tauto. }
    unfold print_name, nt. cbn [ident is_self plain_name]. rewrite Hne. cbn [negb]. apply lex_word; assumption.
Qed.

Definition nodash_start (s : string) : Prop :=
  match s with EmptyString => True | String c _ => (code c =? 45)%nat = false end.

Lemma lab_nodash c : is_lab c = true -> (code c =? 45)%nat = false.
Proof.
  intros H. destruct (code c =? 45)%nat eqn:E; [|reflexivity]. apply Nat.eqb_eq in E.
  assert (c = "-"%char).
  { unfold code in E. rewrite <- (ascii_nat_embedding c), E. reflexivity. }
  subst. vm_compute in H. discriminate.
Qed.
Lemma name_nodash a rest : name_ok a = true -> nodash_start (print_name a ^^ rest).
Proof.
  intros Ha. destruct (name_ok_inv a Ha) as [-> | [x [-> Hx]]]; [reflexivity|].
  unfold word_ok, ident_ok in Hx. rewrite !andb_true_iff, !negb_true_iff in Hx. destruct Hx as [[[H1 H2] _] _].
  unfold print_name. cbn [ident is_self plain_name]. rewrite H1. cbn [negb].
  destruct x as [|c x]; [discriminate|]. cbn in H2 |- *. apply andb_true_iff in H2. apply lab_nodash. tauto.
Qed.

Lemma lex_lt r : nodash_start r -> flex_go "" ("<" ^^ r) = FLt :: flex_go "" r.
Proof. intros H. destruct r as [|c r]; [reflexivity|]. cbn in H. cbn [append flex_go]. cbn. rewrite H. reflexivity. Qed.

(* literals, by computation *)
Lemma l_send r : flex_go "" ("send " ^^ r) = FSendK :: flex_go "" r. Proof. reflexivity. Qed.
Lemma l_comma r : flex_go "" ("," ^^ r) = FComma :: flex_go "" r. Proof. reflexivity. Qed.
Lemma l_gt r : flex_go "" (">" ^^ r) = FGt :: flex_go "" r. Proof. reflexivity. Qed.
Lemma l_recv r : flex_go "" ("> <- recv " ^^ r) = FGt :: FArrow :: FRecvK :: flex_go "" r. Proof. reflexivity. Qed.
Lemma l_split r : flex_go "" ("> <- split " ^^ r) = FGt :: FArrow :: FSplitK :: flex_go "" r. Proof. reflexivity. Qed.
Lemma l_semi r : flex_go "" ("; " ^^ r) = FSemi :: flex_go "" r. Proof. reflexivity. Qed.
Lemma l_dot r : flex_go "" ("." ^^ r) = FDot :: flex_go "" r. Proof. reflexivity. Qed.
Lemma l_case r : flex_go "" ("case " ^^ r) = FCaseK :: flex_go "" r. Proof. reflexivity. Qed.
Lemma l_splp r : flex_go "" (" (" ^^ r) = FLP :: flex_go "" r. Proof. reflexivity. Qed.
Lemma l_lp r : flex_go "" ("(" ^^ r) = FLP :: flex_go "" r. Proof. reflexivity. Qed.
Lemma l_rp r : flex_go "" (")" ^^ r) = FRP :: flex_go "" r. Proof. reflexivity. Qed.
Lemma l_new r : flex_go "" (" <- new (" ^^ r) = FArrow :: FNewK :: FLP :: flex_go "" r. Proof. reflexivity. Qed.
Lemma l_rpsemi r : flex_go "" ("); " ^^ r) = FRP :: FSemi :: flex_go "" r. Proof. reflexivity. Qed.
Lemma l_close r : flex_go "" ("close " ^^ r) = FCloseK :: flex_go "" r. Proof. reflexivity. Qed.
Lemma l_wait r : flex_go "" ("wait " ^^ r) = FWaitK :: flex_go "" r. Proof. reflexivity. Qed.
Lemma l_fwd r : flex_go "" ("fwd " ^^ r) = FFwdK :: flex_go "" r. Proof. reflexivity. Qed.
Lemma l_sp r : flex_go "" (" " ^^ r) = flex_go "" r. Proof. reflexivity. Qed.
Lemma l_cast r : flex_go "" ("cast " ^^ r) = FCastK :: flex_go "" r. Proof. reflexivity. Qed.
Lemma l_shift r : flex_go "" (" <- shift " ^^ r) = FArrow :: FShiftK :: flex_go "" r. Proof. reflexivity. Qed.
Lemma l_drop r : flex_go "" ("drop " ^^ r) = FDropK :: flex_go "" r. Proof. reflexivity. Qed.
Lemma l_print r : flex_go "" ("print " ^^ r) = FPrintK :: flex_go "" r. Proof. reflexivity. Qed.
Lemma l_darrow r : flex_go "" ("> => " ^^ r) = FGt :: FDArrow :: flex_go "" r. Proof. reflexivity. Qed.
Lemma l_pipe r : flex_go "" (" | " ^^ r) = FPipe :: flex_go "" r. Proof. reflexivity. Qed.
Lemma l_commasp r : flex_go "" (", " ^^ r) = FComma :: flex_go "" r. Proof. reflexivity. Qed.

Lemma lex_names : forall args rest, forallb name_ok args = true -> nolab_start rest ->
  flex_go "" (print_names args ^^ rest) = nstoks args ++ flex_go "" rest.
Proof.
  induction args as [|a r IH]; intros rest Hok Hr; [reflexivity|].
  cbn [forallb] in Hok. apply andb_true_iff in Hok. destruct Hok as [Ha Hrr]. destruct r as [|b r'].
  - cbn [print_names nstoks app]. apply lex_name; assumption.
  - change (print_names (a :: b :: r')) with (print_name a ^^ ", " ^^ print_names (b :: r')).
    change (nstoks (a :: b :: r')) with (nt a :: FComma :: nstoks (b :: r')).
    rewrite !app_assoc_s, lex_name by (auto; reflexivity). rewrite l_commasp, IH by assumption. reflexivity.
Qed.

Definition LF (f : form) : Prop := forall rest, self_style f = true -> nolab_start rest ->
  flex_go "" (print_form f ^^ rest) = ftoks f ++ flex_go "" rest.
Definition LB (b : branches) : Prop := forall rest, self_style_brs b = true -> nolab_start rest ->
  flex_go "" (print_branches b ^^ rest) = btoks b ++ flex_go "" rest.

Ltac nm := rewrite lex_name by (first [assumption | reflexivity]).
Ltac wd := rewrite lex_word by (first [assumption | reflexivity]).
Ltac ltn := rewrite lex_lt by (apply name_nodash; assumption).

Theorem flex_print : (forall f, LF f) /\ (forall b, LB b).
Proof.
  apply form_branches_ind.
  - intros a b c rest H Hr. names_split H. cbn [print_form ftoks]. rewrite !app_assoc_s.
    rewrite l_send. nm. ltn. nm. rewrite l_comma. nm. rewrite l_gt. reflexivity.
  - intros p c fr k IH rest H Hr. names_split H. cbn [print_form ftoks]. rewrite !app_assoc_s.
    ltn. nm. rewrite l_comma. nm. rewrite l_recv. nm. rewrite l_semi, IH by assumption. reflexivity.
  - intros a l c rest H Hr. names_split H. cbn [print_form ftoks]. rewrite !app_assoc_s.
    nm. rewrite l_dot. wd. ltn. nm. rewrite l_gt. reflexivity.
  - intros fr bs IH rest H Hr. names_split H. cbn [print_form ftoks]. rewrite !app_assoc_s.
    rewrite l_case. nm. rewrite l_splp, IH by (first [assumption | reflexivity]). rewrite l_rp.
    cbn [app]. rewrite <- app_assoc. reflexivity.
  - intros x b IHb k IHk rest H Hr. names_split H. cbn [print_form ftoks]. rewrite !app_assoc_s.
    nm. rewrite l_new, IHb by (first [assumption | reflexivity]). rewrite l_rpsemi, IHk by assumption.
    cbn [app]. rewrite <- app_assoc. reflexivity.
  - intros c rest H Hr. names_split H. cbn [print_form ftoks]. rewrite !app_assoc_s. rewrite l_close. nm. reflexivity.
  - intros c k IH rest H Hr. names_split H. cbn [print_form ftoks]. rewrite !app_assoc_s.
    rewrite l_wait. nm. rewrite l_semi, IH by assumption. reflexivity.
  - intros a b d rest H Hr. names_split H. cbn [print_form ftoks]. rewrite !app_assoc_s.
    rewrite l_fwd. nm. rewrite l_sp. nm. reflexivity.
  - intros x y fr k IH rest H Hr. names_split H. cbn [print_form ftoks]. rewrite !app_assoc_s.
    ltn. nm. rewrite l_comma. nm. rewrite l_split. nm. rewrite l_semi, IH by assumption. reflexivity.
  - intros fn args pt rest H Hr. cbn [self_style] in H. rewrite !andb_true_iff in H. destruct H as [[Hf Ha] _].
    cbn [print_form ftoks]. rewrite !app_assoc_s. wd. rewrite l_lp, lex_names by (first [assumption | reflexivity]).
    rewrite l_rp. cbn [app]. rewrite <- app_assoc. reflexivity.
  - intros a c rest H Hr. names_split H. cbn [print_form ftoks]. rewrite !app_assoc_s.
    rewrite l_cast. nm. ltn. nm. rewrite l_gt. reflexivity.
  - intros x fr k IH rest H Hr. names_split H. cbn [print_form ftoks]. rewrite !app_assoc_s.
    nm. rewrite l_shift. nm. rewrite l_semi, IH by assumption. reflexivity.
  - intros c k IH rest H Hr. names_split H. cbn [print_form ftoks]. rewrite !app_assoc_s.
    rewrite l_drop. nm. rewrite l_semi, IH by assumption. reflexivity.
  - intros l k IH rest H Hr. names_split H. cbn [print_form ftoks]. rewrite !app_assoc_s.
    rewrite l_print. wd. rewrite l_semi, IH by assumption. reflexivity.
  - intros rest _ _. reflexivity.
  - intros l p k IHk r IHr rest H Hr. names_split H. destruct r as [|l2 p2 k2 r2].
    + cbn [print_branches btoks]. rewrite !app_assoc_s. wd. ltn. nm. rewrite l_darrow, IHk by assumption. reflexivity.
    + change (print_branches (BrCons l p k (BrCons l2 p2 k2 r2))) with
        (l ^^ "<" ^^ print_name p ^^ "> => " ^^ print_form k ^^ " | " ^^ print_branches (BrCons l2 p2 k2 r2)).
      change (btoks (BrCons l p k (BrCons l2 p2 k2 r2))) with
        (FLab l :: FLt :: nt p :: FGt :: FDArrow :: ftoks k ++ FPipe :: btoks (BrCons l2 p2 k2 r2)).
      rewrite !app_assoc_s. wd. ltn. nm. rewrite l_darrow, IHk by (first [assumption | reflexivity]).
      rewrite l_pipe, IHr by assumption. cbn [app]. rewrite <- app_assoc. reflexivity.
Qed.

Lemma ftoks_size : (forall f, fsize f <= length (ftoks f)) /\ (forall b, brsize b <= length (btoks b)).
Proof.
  apply form_branches_ind; intros; cbn [fsize brsize ftoks btoks length]; rewrite ?app_length; cbn [length]; try lia.
  - assert (length args <= length (nstoks args)).
    { clear. induction args as [|a [|b r] IH]; cbn [nstoks length] in *; lia. }
    lia.
  - destruct rest; cbn [length brsize] in *; rewrite ?app_length; cbn [length]; lia.
Qed.

(* C15, terms: a self-style term prints to text that reads back as the same term *)
Theorem parse_print_form q : self_style q = true -> rd_form_all (lex_form (print_form q)) = Some q.
Proof.
  intros H. unfold lex_form, rd_form_all. rewrite <- (app_nil_r_s (print_form q)).
  rewrite (proj1 flex_print q "" H I). cbn [flex_go fflush String.eqb app]. rewrite app_nil_r.
  rewrite <- (app_nil_r (ftoks q)) at 2.
  rewrite (proj1 reader_inverts_ftoks q _ [] H); [reflexivity|].
  pose proof (proj1 ftoks_size q). lia.
Qed.

Corollary print_form_injective p q : self_style p = true -> self_style q = true -> print_form p = print_form q -> p = q.
Proof.
  intros Hp Hq E. pose proof (parse_print_form p Hp) as E1. rewrite E, (parse_print_form q Hq) in E1. congruence.
Qed.
