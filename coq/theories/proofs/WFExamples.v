(* proofs/WFExamples.v — the hypotheses of the C10 theorems are satisfiable; witnesses of the
   recorded findings on the model. *)
Require Import Grits.Base Grits.ModeDefs Grits.Modes Grits.STypes Grits.Infer Grits.WF Grits.Unfold.
Require Import Grits.Expand Grits.Forms Grits.WFObs.
Require Import Grits.spec.WFSpec Grits.proofs.WFProofs.

(* a non-trivial environment: recursion, mutual reference, an alias chain, shifts, three modes,
   names used before their definition, annotations present and omitted *)
Definition ex_text : string :=
  "type a2 = alias
   type alias = listNat
   type nat = lin +{zero : 1, succ : nat}
   type listNat = lin +{cons : nat * listNat, nil : 1}
   type mapType = lin /\ rep (nat -* nat)
   type srv = &{get : rep \/ aff (1 * 1), stop : lin /\ aff nat}".

Definition ex_env : tenv :=
  match parse_string ex_text with POk p => p_types p | _ => [] end.

Example ex_env_parsed : map td_name ex_env = ["a2"; "alias"; "nat"; "listNat"; "mapType"; "srv"].
Proof. vm_compute. reflexivity. Qed.

Example ex_env_modes : map td_mode ex_env = [Lin; Lin; Lin; Lin; Rep; Aff].
Proof. vm_compute. reflexivity. Qed.

Example ex_env_accepted : sanity_typedefs ex_env = Ok None.
Proof. vm_compute. reflexivity. Qed.

Example ex_env_wellformed : WellFormed ex_env.
Proof. apply wf_sound_proof. exact ex_env_accepted. Qed.

Example ex_env_unfold :
  unfold (unfold_fuel ex_env) ex_env (TName "a2" Lin) =
  Ok (Some (TPlus (BCons "cons" (TTensor (TName "nat" Lin) (TName "listNat" Lin) Lin) (BCons "nil" (TUnit Lin) BNil)) Lin)).
Proof. vm_compute. reflexivity. Qed.

(* rejected environments, one per error class *)
Example ex_reject_cycle : sanity_typedefs
  [ {| td_name := "A"; td_body := TName "B" Rep; td_mode := Rep |};
    {| td_name := "B"; td_body := TName "A" Rep; td_mode := Rep |} ] = Ok (Some ENotContractive).
Proof. reflexivity. Qed.

Example ex_reject_dup_label : sanity_typedefs
  [ {| td_name := "A"; td_body := TPlus (BCons "a" (TUnit Rep) (BCons "a" (TLolli (TUnit Rep) (TUnit Rep) Rep) BNil)) Rep;
       td_mode := Rep |} ] = Ok (Some EDupLabel).
Proof. reflexivity. Qed.

(* F23 (fixed in /repo a7c3d63; found by the proof of infer_annotation_stable): two structural
   definitions of different modes tied into one cycle by two aliases.  Inference records `u` as lin
   although its body `v` is affine; the repaired check rejects the environment. *)
Definition f23_text : string :=
  "type w = +{l : u, r : lin /\ lin 1}
   type u = v
   type v = +{l : x, r : aff /\ aff 1}
   type x = w".

Example F23_rejected :
  wf_obs f23_text =
  "REJECT:def-mode-mismatch" ^^ tab ^^
  "type w lin (+ lin (l (N u lin)) (r (up lin lin (1 lin)))) ;; type u lin (N v aff) ;; " ^^
  "type v aff (+ aff (l (N x aff)) (r (up aff aff (1 aff)))) ;; type x aff (N w lin)".
Proof. vm_compute. reflexivity. Qed.

(* F15 (known finding): the head annotation `aff` on a shift to `mul` does not survive conversion;
   the converted environment is well-formed although the source violates HeadOK *)
Example F15_head_annotation_dropped :
  let t := IUp Mul Mul IUnit in
  ~ HeadOK (Some "aff") t /\
  sanity_typedefs [ {| td_name := "A"; td_body := convert (Some "aff") t; td_mode := Mul |} ] = Ok None.
Proof.
  split.
  - cbn. intros [_ H]. discriminate.
  - reflexivity.
Qed.

Example F15_from_text :
  wf_obs "type A = aff (mul /\ mul 1)" =
  "OK" ^^ tab ^^ "type A mul (up mul mul (1 mul))" ^^ tab ^^ "A=(up mul mul (1 mul))".
Proof. vm_compute. reflexivity. Qed.

Lemma F23_rejected_class : exists l, wf_obs f23_text = "REJECT:def-mode-mismatch" ^^ l.
Proof. eexists. exact F23_rejected. Qed.
