(* RtSafetyNP.v — C01 for the NON-POLARIZED mode (Runtime.NP, the CLI's --sync): preservation and absence
   of run-time errors for the same configuration typing as the polarized modes (spec/RtTyping.v), all
   forms (drop, split and DUP included).
   What is different in this mode (Runtime.v): (1) messages are exchanged by rendezvous only (nothing
   is buffered); (2) no type is read at run time: a forward does not look up the polarity of its
   annotation, it offers its providers on the CONTROL channel of its client channel (`ACtrl`), and
   the provider of that channel, when it next polls its control channel, closes that provider
   channel and continues with the forward's providers in its place (`Control f t`); there are no
   FWD / GC data messages; (3) `drop c; k` continues with k and reclaims nothing.
   Invariant: `cfg_typed` as it is.  The new step: the forward f : fwd self from provides s_f on its
   providers and uses from : T with T ≈ s_f; the process t whose first provider entry is the channel
   of `from` provides s_t with T ≈ s_t; so the providers handed over have type ≈ s_t, and t, with
   them in place of its first entry, is `proc_typed`.  The channel that is closed keeps its type in
   Δ; that nobody uses it afterwards is, as in the polarized modes, the part `closed_unused` of Topo.
   The annotations (`ann_ok`) are not used by any step of this mode. *)
From stdpp Require Import gmap strings.
Require Import Grits.Base Grits.ModeDefs Grits.Modes Grits.STypes Grits.Forms Grits.Subst Grits.TcDeps Grits.Expand
               Grits.Tc Grits.TcTop
               Grits.Runtime Grits.spec.RtTyping Grits.spec.Topo Grits.proofs.RtSubst Grits.proofs.RtEffect
               Grits.proofs.StepErrors Grits.proofs.RtSafety.

Section NP.
Variable D : tenv.
Variable F : list fundef.
Variable teq : sty -> sty -> Prop.
Hypothesis Hteq : teq_laws D teq.
Hypothesis HF : funs_typed D F teq.

Local Notation typed := (typed D F teq).
Local Notation proc_typed := (proc_typed D F teq).
Local Notation cfg_typed := (cfg_typed D F teq).
Local Notation msg_typed := (msg_typed D teq).
Local Notation prov_ty := (prov_ty teq).
Local Notation eff_typed := (eff_typed D F teq).
Local Notation act_view := (act_view D F teq).
Local Notation closed_unused := (closed_unused D).
Local Notation reachable := (reachable D F).

Let teq_s := teq_sym D teq Hteq.
Let teq_t := teq_trans D teq Hteq.

(* ------------------------------------------------------------------ the mode differs at forwards and at drop *)
Lemma action_np_nonfwd p : body_is_fwd (pr_body0 p) = false -> action_of NP D p = action_of Async D p.
Proof. unfold action_of. destruct (pr_body0 p); auto. discriminate. Qed.

Definition is_drop (f : form) : bool := match f with FDrop _ _ => true | _ => false end.
Lemma internal_np_nondrop self p : is_drop (pr_body0 p) = false ->
  internal_effect NP F self p = internal_effect Async F self p.
Proof. unfold internal_effect. destruct (pr_body0 p); auto. discriminate. Qed.

(* what a typed process does next in the non-polarized mode *)
Definition np_view (Δ : gmap cid sty) (p : proc) (a : action) : Prop :=
  match a with
  | ASend k m => msg_typed Δ k m
  | ARecv k =>
    is_Some (Δ !! k) /\
    forall self m, ns_free Δ self p -> msg_typed Δ k m ->
      exists e Δ', on_message self p m = EOk e /\ eff_typed Δ Δ' self p e
  | AInternal =>
    forall self, ns_free Δ self p ->
      exists e Δ', internal_effect NP F self p = EOk e /\ eff_typed Δ Δ' self p e
  | ADup =>
    forall self, ns_free Δ self p ->
      exists e Δ', dup_effect self p = EOk e /\ eff_typed Δ Δ' self p e
  | ACtrl k provs =>
    provs = pr_provs p /\ provs <> [] /\
    exists s T, Forall (fun n => prov_ty Δ n s) provs /\ Δ !! k = Some T /\ teq T s
  | ANever | AErr _ => False
  end.

Lemma typed_action_np Δ p : proc_typed Δ p -> np_view Δ p (action_of NP D p).
Proof.
  intros Hp. destruct (body_is_fwd (pr_body0 p)) eqn:Ef.
  - (* a forward offers its providers on the control channel of its client *)
    destruct Hp as [s [rs [Hne [Hprovs Hty]]]].
    destruct p as [provs body nx]. simpl in *. destruct body; try discriminate Ef.
    inversion Hty; subst.
    match goal with H : RtTyping.prov_name _ _ to |- _ => apply prov_closed in H; destruct H as [Hs _] end.
    match goal with H : RtTyping.client_ty _ _ _ _ from _ |- _ =>
      destruct (client_closed teq _ _ _ H) as [_ [c [t' [Hc [Ht' Hq]]]]] end.
    unfold action_of. simpl. rewrite Hs, Hc. simpl.
    split; auto. split; auto. exists s, t'. auto.
  - rewrite (action_np_nonfwd p Ef).
    pose proof (typed_action D F teq Hteq HF Δ p Hp) as Hv.
    destruct Hv as [k m Hmsg _|k Hk _ Hrecv|Hint|Hdup]; simpl; auto.
    destruct (is_drop (pr_body0 p)) eqn:Ed.
    + (* drop: continue, nothing is reclaimed *)
      intros self Hfree. destruct Hp as [s [rs [Hne [Hprovs Hty]]]].
      destruct p as [provs body nx]. simpl in *. destruct body; try discriminate Ed.
      inversion Hty; subst.
      eexists. exists Δ. split; [reflexivity|].
      apply (eff_typed_cont D F teq); auto. exists s, rs. simpl. auto.
    + intros self Hfree. rewrite (internal_np_nondrop self p Ed). auto.
Qed.

(* ------------------------------------------------------------------ one step *)
Lemma step_run_np Δ c self :
  cfg_typed Δ c -> closed_unused NP c ->
  step NP D F c (Run self) = SNotEnabled \/
  exists c' Δ', step NP D F c (Run self) = SStep c' /\ Δ ⊆ Δ' /\ cfg_typed Δ' c'.
Proof.
  intros Hc Hcl. pose proof Hc as [Hp Hm Hd Hf]. simpl.
  destruct (procs c !! self) as [p|] eqn:Ep; [|left; reflexivity].
  pose proof (typed_action_np Δ p (Hp _ _ Ep)) as Hv.
  pose proof (ns_fresh_free Δ c self p Hf Ep) as Hfree.
  destruct (action_of NP D p) as [| |k m|k| |k provs|w] eqn:Ea; simpl in Hv; try contradiction.
  - (* duplicate *)
    destruct (Hv self Hfree) as [e [Δ' [He Heff]]]. right. rewrite He. simpl.
    exists (apply_effect c self p e), Δ'. split; auto. split; [destruct Heff as [Hsub _]; exact Hsub|].
    eapply apply_effect_typed; eauto.
  - (* internal *)
    destruct (Hv self Hfree) as [e [Δ' [He Heff]]]. right. rewrite He. simpl.
    exists (apply_effect c self p e), Δ'. split; auto. split; [destruct Heff as [Hsub _]; exact Hsub|].
    eapply apply_effect_typed; eauto.
  - (* send: only by rendezvous *)
    destruct Hv as [T [HT _]]. destruct (Hd k) as [st Hst]; [eauto|]. rewrite Hst.
    rewrite (Hcl self p k st Ep (or_intror (ex_intro _ m Ea)) Hst). left. reflexivity.
  - (* receive *)
    destruct Hv as [Hk Hrecv]. destruct (Hd k Hk) as [st Hst]. rewrite Hst.
    destruct (ch_buf st) as [m|] eqn:Eb.
    + destruct (Hrecv self m Hfree (Hm _ _ _ Hst Eb)) as [e [Δ' [He Heff]]].
      right. rewrite He. simpl. exists (apply_effect (put_msg c k st None) self p e), Δ'. split; auto.
      split; [destruct Heff as [Hsub _]; exact Hsub|].
      eapply apply_effect_typed; eauto. eapply put_none_typed; eauto.
    + rewrite (Hcl self p k st Ep (or_introl Ea) Hst). left. reflexivity.
  - left. reflexivity.
Qed.

Lemma step_rendezvous_np Δ c s r :
  cfg_typed Δ c ->
  step NP D F c (Rendezvous s r) = SNotEnabled \/
  exists c' Δ', step NP D F c (Rendezvous s r) = SStep c' /\ Δ ⊆ Δ' /\ cfg_typed Δ' c'.
Proof.
  intros Hc. pose proof Hc as [Hp Hm Hd Hf]. simpl.
  destruct (bool_decide (s = r)) eqn:Esr; [left; reflexivity|]. apply bool_decide_eq_false in Esr.
  destruct (procs c !! s) as [ps|] eqn:Eps; [|left; reflexivity].
  destruct (procs c !! r) as [pr|] eqn:Epr; [|left; reflexivity].
  pose proof (typed_action_np Δ ps (Hp _ _ Eps)) as Hvs.
  pose proof (typed_action_np Δ pr (Hp _ _ Epr)) as Hvr.
  destruct (action_of NP D ps) as [| |k m|k| |k provs|w]; try (left; reflexivity).
  destruct (action_of NP D pr) as [| |k' m'|k'| |k' provs'|w']; try (left; reflexivity).
  simpl in Hvs, Hvr. destruct Hvr as [_ Hrecv].
  destruct (bool_decide (k = k')) eqn:Ek; [|left; reflexivity]. apply bool_decide_eq_true in Ek. subst k'.
  destruct (chans c !! k) as [st|]; [|left; reflexivity].
  destruct (ch_closed st); [left; reflexivity|].
  destruct (Hrecv r m (ns_fresh_free Δ c r pr Hf Epr) Hvs) as [e [Δ' [He Heff]]].
  right. rewrite He. simpl. eexists. exists Δ'. split; [reflexivity|].
  split; [destruct Heff as [Hsub _]; exact Hsub|].
  eapply apply_effect_typed; eauto.
  - apply del_proc_typed. exact Hc.
  - unfold del_proc. simpl. rewrite lookup_delete_ne by auto. exact Epr.
Qed.

(* the control message of a forward: its providers replace the provider entry it was sent to *)
Lemma step_control_np Δ c f t :
  cfg_typed Δ c ->
  step NP D F c (Control f t) = SNotEnabled \/
  exists c', step NP D F c (Control f t) = SStep c' /\ cfg_typed Δ c'.
Proof.
  intros Hc. pose proof Hc as [Hp Hm Hd Hf]. simpl.
  destruct (bool_decide (f = t)) eqn:Eft; [left; reflexivity|]. apply bool_decide_eq_false in Eft.
  destruct (procs c !! f) as [pf|] eqn:Epf; [|left; reflexivity].
  destruct (procs c !! t) as [pt|] eqn:Ept; [|left; reflexivity].
  pose proof (typed_action_np Δ pf (Hp _ _ Epf)) as Hvf.
  destruct (action_of NP D pf) as [| |k m|k| |k provs|w]; try (left; reflexivity).
  destruct (self_chan pt) as [k'|] eqn:Esc; [|left; reflexivity].
  destruct (bool_decide (k = k')) eqn:Ek; [|left; reflexivity]. apply bool_decide_eq_true in Ek. subst k'.
  destruct (polls_control NP D pt); [|left; reflexivity]. simpl.
  right. eexists. split; [reflexivity|].
  simpl in Hvf. destruct Hvf as [-> [Hne [sf [T [Hpf [HT HTs]]]]]].
  destruct (Hp _ _ Ept) as [st [rs [Hnet [Hpt Hty]]]].
  (* the provider entry the request was sent to has the type of the forward's client *)
  assert (Hst : teq sf st).
  { unfold self_chan, prov0 in Esc. destruct (pr_provs pt) as [|n0 rest]; [discriminate Esc|]. simpl in Esc.
    inversion Hpt as [|? ? [c0 [t0 [Hc0 [Ht0 Hq0]]]] _]; subst.
    rewrite Esc in Hc0. injection Hc0 as <-. rewrite HT in Ht0. injection Ht0 as <-.
    eapply teq_t; [apply teq_s; exact HTs|exact Hq0]. }
  eapply apply_effect_typed.
  - apply del_proc_typed. exact Hc.
  - unfold del_proc. simpl. rewrite lookup_delete_ne by auto. exact Ept.
  - apply (eff_typed_cont D F teq); [reflexivity|].
    exists st, rs. simpl. split; [|split; [|exact Hty]].
    + destruct (pr_provs pf); [contradiction|discriminate].
    + apply Forall_app. split.
      * eapply Forall_impl; [|exact Hpf]. intros n Hn. simpl in Hn. eapply prov_ty_conv; eauto.
      * destruct (pr_provs pt); [constructor|]. inversion Hpt; auto.
Qed.

Theorem preservation_np Δ c ch c' :
  cfg_typed Δ c -> closed_unused NP c -> step NP D F c ch = SStep c' ->
  exists Δ', Δ ⊆ Δ' /\ cfg_typed Δ' c'.
Proof.
  intros Hc Hcl Hs. destruct ch as [self|s r|f t].
  - destruct (step_run_np Δ c self Hc Hcl) as [H|[c2 [Δ' [H [H1 H2]]]]]; rewrite H in Hs; [discriminate|].
    injection Hs as <-. eauto.
  - destruct (step_rendezvous_np Δ c s r Hc) as [H|[c2 [Δ' [H [H1 H2]]]]]; rewrite H in Hs; [discriminate|].
    injection Hs as <-. eauto.
  - destruct (step_control_np Δ c f t Hc) as [H|[c2 [H H2]]]; rewrite H in Hs; [discriminate|].
    injection Hs as <-. exists Δ. split; auto.
Qed.

Theorem no_error_np Δ c ch who e :
  cfg_typed Δ c -> closed_unused NP c -> step NP D F c ch <> SError who e.
Proof.
  intros Hc Hcl. destruct ch as [self|s r|f t].
  - destruct (step_run_np Δ c self Hc Hcl) as [H|[c2 [Δ' [H _]]]]; rewrite H; discriminate.
  - destruct (step_rendezvous_np Δ c s r Hc) as [H|[c2 [Δ' [H _]]]]; rewrite H; discriminate.
  - destruct (step_control_np Δ c f t Hc) as [H|[c2 [H _]]]; rewrite H; discriminate.
Qed.

Theorem exec_run_safe_np fuel pick : forall Δ c,
  cfg_typed Δ c -> (forall c', reachable NP c c' -> closed_unused NP c') ->
  forall c' who e, exec_run fuel pick NP D F c <> RError c' who e.
Proof.
  induction fuel as [|fuel IH]; intros Δ c Hc Hcl c' who e; [simpl; discriminate|].
  rewrite (exec_run_S D F).
  destruct (enabled NP D F c) as [|e0 es]; [discriminate|]. cbv zeta.
  set (ch := nth (pick (S fuel) (S (length es)) mod S (length es)) (e0 :: es) e0).
  destruct (step NP D F c ch) as [|c2|who' e'] eqn:Es; [discriminate| |].
  - destruct (preservation_np Δ c ch c2 Hc (Hcl c (reach_refl D F NP c)) Es) as [Δ' [_ Hc2]].
    apply (IH Δ' c2 Hc2). intros c3 Hr. apply Hcl.
    clear -Hr Es. induction Hr; [eapply reach_step; [apply reach_refl|eauto] | eapply reach_step; eauto].
  - exfalso. eapply no_error_np; eauto. apply Hcl. apply reach_refl.
Qed.

(* every reachable configuration is typed *)
Theorem reachable_typed_np Δ c c' :
  cfg_typed Δ c -> (forall c1, reachable NP c c1 -> closed_unused NP c1) -> reachable NP c c' ->
  exists Δ', Δ ⊆ Δ' /\ cfg_typed Δ' c'.
Proof.
  intros Hc Hcl Hr. induction Hr as [|c1 ch c2 Hr IH Hs]; [exists Δ; auto|].
  destruct IH as [Δ1 [Hsub Hc1]].
  destruct (preservation_np Δ1 c1 ch c2 Hc1 (Hcl c1 Hr) Hs) as [Δ2 [Hsub2 Hc2]].
  exists Δ2. split; auto. etrans; eauto.
Qed.
End NP.

(* ------------------------------------------------------------------ Topo gives `closed_unused` in this mode too *)
Lemma action_chan_own_np D p k :
  (action_of NP D p = ARecv k \/ exists m, action_of NP D p = ASend k m) ->
  k ∈ cids_of (pr_provs p) \/ k ∈ form_chans (pr_body0 p).
Proof.
  intros H. destruct (body_is_fwd (pr_body0 p)) eqn:Ef.
  - exfalso. unfold action_of in H. destruct (pr_body0 p); try discriminate Ef. simpl in H.
    destruct (negb (is_self to)); [destruct H as [H|[m H]]; discriminate|].
    destruct (chan from); destruct H as [H|[m H]]; discriminate.
  - rewrite (action_np_nonfwd D p Ef) in H. apply (action_chan_own Async D p k eq_refl H).
Qed.

Lemma topo_closed_unused_np D c : Topo c -> closed_unused D NP c.
Proof.
  intros Ht self p k st Hp Ha Hk. destruct (ch_closed st) eqn:Ecl; auto. exfalso.
  destruct (topo_closed c Ht k st Hk Ecl) as [_ Hno].
  destruct (Hno (OProc self p) Hp) as [H1 H2].
  destruct (action_chan_own_np D p k Ha); auto.
Qed.
