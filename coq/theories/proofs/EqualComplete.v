(* EqualComplete.v — completeness: on bisimilar well-formed types the algorithm never answers
   false (whatever the memo contains: a memo hit answers true). *)
Require Import Grits.Base Grits.ModeDefs Grits.Modes Grits.STypes Grits.Infer Grits.Print Grits.Equal Grits.EqualWF
               Grits.spec.TypEq Grits.proofs.TypEqFacts Grits.proofs.EqualWFFacts Grits.proofs.EqualSound.

Inductive brs_rel (R : sty -> sty -> Prop) (cs : brs) : brs -> Prop :=
| br_nil : brs_rel R cs BNil
| br_cons l a a' r : find_br l cs = Some a' -> R a a' -> brs_rel R cs r -> brs_rel R cs (BCons l a r).

Fixpoint In_entry (l : string) (a : sty) (b : brs) : Prop :=
  match b with BNil => False | BCons l' a' r => (l = l' /\ a = a') \/ In_entry l a r end.

Lemma In_entry_label l a b : In_entry l a b -> In l (brs_labels b).
Proof. induction b; cbn; [tauto|]. intros [[-> _] | H]; auto. Qed.

Lemma nodup_find l a b : nodup_str (brs_labels b) = true -> In_entry l a b -> find_br l b = Some a.
Proof.
  induction b as [|l' a' r IH]; cbn; [tauto|]. rewrite andb_true_iff, negb_true_iff. intros [Hn1 Hn2] [[-> ->] | H].
  - rewrite String.eqb_refl. reflexivity.
  - destruct (String.eqb l l') eqn:E.
    + apply String.eqb_eq in E. subst. apply In_entry_label in H. apply str_mem_In in H. congruence.
    + auto.
Qed.

Lemma entries_rel (R : sty -> sty -> Prop) cs : forall bs,
  (forall l a, In_entry l a bs -> exists a', find_br l cs = Some a' /\ R a a') -> brs_rel R cs bs.
Proof.
  induction bs as [|l a r IH]; intros H; [constructor|].
  destruct (H l a) as [a' [E Hr]]; [cbn; auto|]. econstructor; eauto. apply IH. intros l0 a0 H0. apply H. cbn. auto.
Qed.

Lemma sim_rel (R : sty -> sty -> Prop) bs cs :
  nodup_str (brs_labels bs) = true -> brs_sim R bs cs -> brs_rel R cs bs.
Proof.
  intros Hn [H1 H2]. apply entries_rel. intros l a He. pose proof (nodup_find _ _ _ Hn He) as Ef.
  destruct (find_br l cs) as [a'|] eqn:Ec.
  - exists a'. split; [reflexivity | eauto].
  - apply H1 in Ec. congruence.
Qed.

Lemma sim_len (R : sty -> sty -> Prop) bs cs :
  nodup_str (brs_labels bs) = true -> nodup_str (brs_labels cs) = true -> brs_sim R bs cs -> brs_len bs = brs_len cs.
Proof.
  intros Hb Hc [H1 _]. rewrite !brs_len_labels. apply Nat.le_antisymm.
  - apply NoDup_incl_length; [apply nodup_str_NoDup; exact Hb|].
    intros l Hl. destruct (in_dec string_dec l (brs_labels cs)) as [Hi|Hi]; [exact Hi|].
    apply find_br_None in Hi. apply H1 in Hi. apply find_br_None in Hi. contradiction.
  - apply NoDup_incl_length; [apply nodup_str_NoDup; exact Hc|].
    intros l Hl. destruct (in_dec string_dec l (brs_labels bs)) as [Hi|Hi]; [exact Hi|].
    apply find_br_None in Hi. apply H1 in Hi. apply find_br_None in Hi. contradiction.
Qed.

Section B.
Variable D : tenv.
Hypothesis HD : wf_env D = true.

Lemma head_expand s s' h : expand1 D s = Some s' -> head D s h -> head D s' h.
Proof.
  intros He Hh. destruct Hh as [t Ht | x m d h Hl Hh].
  - assert (s' = t) by (destruct t; cbn in *; try discriminate; congruence). subst.
    constructor. assumption.
  - cbn in He. rewrite Hl in He. inversion He; subst. assumption.
Qed.

Lemma Bisim_expand s t s' t' :
  Bisim D s t -> expand1 D s = Some s' -> expand1 D t = Some t' -> Bisim D s' t'.
Proof.
  intros Hb E1 E2. destruct (Bisim_inv _ _ _ Hb) as [h1 [h2 [H1 [H2 Hs]]]].
  eapply Bisim_intro; eauto using head_expand.
Qed.

Lemma Bisim_struct s t : is_name s = false -> is_name t = false -> Bisim D s t -> same_head (Bisim D) s t.
Proof.
  intros Hs Ht Hb. destruct (Bisim_inv _ _ _ Hb) as [h1 [h2 [H1 [H2 Hsh]]]].
  rewrite (head_of_nonname D s Hs _ H1) in Hsh. rewrite (head_of_nonname D t Ht _ H2) in Hsh. exact Hsh.
Qed.

Section Rec.
Variable rec : sty -> sty -> list string -> res.
Hypothesis Hrec : forall s t M b M', WT D s -> WT D t -> Bisim D s t -> rec s t M = Ok (b, M') -> b = true.

Lemma both_complete a a' b b' M r M' :
  WT D a -> WT D a' -> WT D b -> WT D b' ->
  Bisim D a a' -> Bisim D b b' -> both rec a a' b b' M = Ok (r, M') -> r = true.
Proof.
  intros Wa Wa' Wb Wb' Ha Hb. unfold both. destruct (rec a a' M) as [[[|] M1]| |] eqn:E1; intros E2.
  - exact (Hrec _ _ _ _ _ Wb Wb' Hb E2).
  - inversion E2; subst. exact (Hrec _ _ _ _ _ Wa Wa' Ha E1).
  - discriminate.
  - discriminate.
Qed.

Lemma branches_complete cs : (forall c, In_br c cs -> WT D c) -> forall bs M r M',
  (forall c, In_br c bs -> WT D c) ->
  brs_rel (Bisim D) cs bs -> branches rec bs cs M = Ok (r, M') -> r = true.
Proof.
  intros Wcs. induction bs as [|l a rest IH]; intros M r M' Wbs Hr H; cbn [branches] in H.
  - inversion H; auto.
  - inversion Hr as [| l0 a0 a' r0 Hf Hb Hrest]; subst. rewrite Hf in H.
    assert (Wa : WT D a) by (apply Wbs; cbn; auto).
    assert (Wa' : WT D a') by (apply Wcs; eapply find_br_In; eauto).
    destruct (rec a a' M) as [[[|] M1]| |] eqn:E1.
    + apply (IH _ _ _ (fun c Hc => Wbs c (or_intror Hc)) Hrest H).
    + inversion H; subst. exact (Hrec _ _ _ _ _ Wa Wa' Hb E1).
    + discriminate.
    + discriminate.
Qed.
End Rec.

Section Step.
Variables rs re : sty -> sty -> list string -> res.
Hypothesis Hrs : forall s t M b M', WT D s -> WT D t -> Bisim D s t -> rs s t M = Ok (b, M') -> b = true.
Hypothesis Hre : forall s t M b M', WT D s -> WT D t -> Bisim D s t -> re s t M = Ok (b, M') -> b = true.

Lemma step_complete s t M b M' :
  WT D s -> WT D t -> Bisim D s t -> step rs re D s t M = Ok (b, M') -> b = true.
Proof.
  intros Ws Wt Hb H. unfold step in H.
  destruct (is_name s || is_name t) eqn:En.
  - replace (negb (same_ctor s t) && negb (is_name s) && negb (is_name t)) with false in H
      by (destruct (is_name s), (is_name t); cbn in *; try discriminate; rewrite ?andb_false_r; reflexivity).
    cbv zeta in H. destruct (str_mem (memo_key s t) M); [inversion H; auto|].
    destruct (same_label s t) eqn:Es.
    + destruct (same_label_inv _ _ Es) as (x & m & m' & -> & ->).
      destruct (WT_name_defined D x m Ws) as [d [Hl ->]]. destruct (WT_name_defined D x m' Wt) as [d' [Hl' ->]].
      rewrite Hl in Hl'. inversion Hl'; subst. cbn in H. rewrite mode_eqb_refl in H. inversion H; auto.
    + unfold expand_both in H.
      destruct (WT_expand D HD _ Ws) as [s' [E1 Ws']]. destruct (WT_expand D HD _ Wt) as [t' [E2 Wt']].
      rewrite E1, E2 in H. eapply Hre; [exact Ws' | exact Wt' | | exact H]. eapply Bisim_expand; eauto.
  - apply orb_false_iff in En. destruct En as [Ens Ent].
    pose proof (Bisim_struct _ _ Ens Ent Hb) as Hs.
    destruct (WT_parts _ _ Ws) as (_ & _ & _ & _ & Hls & _). destruct (WT_parts _ _ Wt) as (_ & _ & _ & _ & Hlt & _).
    inversion Hs; subst; cbn in H; rewrite ?mode_eqb_refl in H; cbn in H.
    + inversion H; auto.
    + refine (both_complete rs Hrs _ _ _ _ _ _ _ _ _ _ _ _ _ H); try assumption; wtc.
    + refine (both_complete rs Hrs _ _ _ _ _ _ _ _ _ _ _ _ _ H); try assumption; wtc.
    + cbn in Hls, Hlt. apply andb_true_iff in Hls, Hlt. destruct Hls as [Hn1 _]. destruct Hlt as [Hn2 _].
      rewrite (sim_len _ _ _ Hn1 Hn2 H0), Nat.eqb_refl in H.
      refine (branches_complete rs Hrs _ _ _ _ _ _ _ _ H); try (intros c Hc; wtc). apply sim_rel; assumption.
    + cbn in Hls, Hlt. apply andb_true_iff in Hls, Hlt. destruct Hls as [Hn1 _]. destruct Hlt as [Hn2 _].
      rewrite (sim_len _ _ _ Hn1 Hn2 H0), Nat.eqb_refl in H.
      refine (branches_complete rs Hrs _ _ _ _ _ _ _ _ H); try (intros c Hc; wtc). apply sim_rel; assumption.
    + eapply Hrs; [| | exact H0 | exact H]; wtc.
    + eapply Hrs; [| | exact H0 | exact H]; wtc.
Qed.
End Step.

Lemma eq_in_complete re
  (Hre : forall s t M b M', WT D s -> WT D t -> Bisim D s t -> re s t M = Ok (b, M') -> b = true) :
  forall n s t M b M', WT D s -> WT D t -> Bisim D s t -> eq_in re D n s t M = Ok (b, M') -> b = true.
Proof.
  induction n as [|n IH]; intros s t M b M' Ws Wt Hb H; [discriminate|].
  cbn [eq_in] in H. exact (step_complete (eq_in re D n) re IH Hre s t M b M' Ws Wt Hb H).
Qed.

Theorem eq_ty_complete :
  forall k n s t M b M', WT D s -> WT D t -> Bisim D s t -> eq_ty k D n s t M = Ok (b, M') -> b = true.
Proof.
  induction k as [|k IH]; intros n s t M b M' Ws Wt Hb H; [discriminate|].
  cbn [eq_ty] in H. refine (eq_in_complete _ _ n s t M b M' Ws Wt Hb H).
  intros s' t' M0 b0 M1 Ws' Wt' Hb' H'. exact (IH _ _ _ _ _ _ Ws' Wt' Hb' H').
Qed.
End B.
