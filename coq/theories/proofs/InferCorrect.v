(* proofs/InferCorrect.v — C16, the declarative assignment: the mode SetModalityTypeDef records
   for a definition is the mode a component of its body fixes, and replicable exactly when no
   component fixes any (completeness of the depth-first search of inferModality under its
   used-labels cut-off: a fixing component that can be reached at all can be reached along a path
   that expands no name twice). *)
Require Import Grits.Base Grits.ModeDefs Grits.Modes Grits.STypes Grits.Infer Grits.WF.
Require Import Grits.spec.WFSpec Grits.spec.ModeSpec Grits.proofs.WFProofs Grits.proofs.InferProofs.

(* Reach D t p k : a component fixing k is reached from t by expanding exactly the names p, in order *)
Inductive Reach (D : tenv) : sty -> list string -> mode -> Prop :=
| R_NameAnn x m : m <> Unset -> Reach D (TName x m) [] m
| R_NameRef x d p m : tlookup D x = Some d -> Reach D (td_body d) p m -> Reach D (TName x Unset) (x :: p) m
| R_Unit m : m <> Unset -> Reach D (TUnit m) [] m
| R_TensorAnn a b m : m <> Unset -> Reach D (TTensor a b m) [] m
| R_TensorL a b p m : Reach D a p m -> Reach D (TTensor a b Unset) p m
| R_TensorR a b p m : Reach D b p m -> Reach D (TTensor a b Unset) p m
| R_LolliAnn a b m : m <> Unset -> Reach D (TLolli a b m) [] m
| R_LolliL a b p m : Reach D a p m -> Reach D (TLolli a b Unset) p m
| R_LolliR a b p m : Reach D b p m -> Reach D (TLolli a b Unset) p m
| R_PlusAnn bs m : m <> Unset -> Reach D (TPlus bs m) [] m
| R_PlusBr bs p m : ReachBrs D bs p m -> Reach D (TPlus bs Unset) p m
| R_WithAnn bs m : m <> Unset -> Reach D (TWith bs m) [] m
| R_WithBr bs p m : ReachBrs D bs p m -> Reach D (TWith bs Unset) p m
| R_Up f t a : t <> Unset -> Reach D (TUp f t a) [] t
| R_Down f t a : t <> Unset -> Reach D (TDown f t a) [] t
with ReachBrs (D : tenv) : brs -> list string -> mode -> Prop :=
| RB_Here l a r p m : Reach D a p m -> ReachBrs D (BCons l a r) p m
| RB_There l a r p m : ReachBrs D r p m -> ReachBrs D (BCons l a r) p m.

Scheme Reach_ind2 := Induction for Reach Sort Prop
with ReachBrs_ind2 := Induction for ReachBrs Sort Prop.
Combined Scheme Reach_mut from Reach_ind2, ReachBrs_ind2.

Lemma fixes_reach D :
  (forall t m, Fixes D t m -> exists p, Reach D t p m) /\
  (forall b m, FixesBrs D b m -> exists p, ReachBrs D b p m).
Proof.
  apply Fixes_mut; intros.
  - exists []. apply R_NameAnn; auto.
  - destruct H as [p Hp]. exists (x :: p). eapply R_NameRef; eauto.
  - exists []. apply R_Unit; auto.
  - exists []. apply R_TensorAnn; auto.
  - destruct H as [p Hp]. exists p. apply R_TensorL; auto.
  - destruct H as [p Hp]. exists p. apply R_TensorR; auto.
  - exists []. apply R_LolliAnn; auto.
  - destruct H as [p Hp]. exists p. apply R_LolliL; auto.
  - destruct H as [p Hp]. exists p. apply R_LolliR; auto.
  - exists []. apply R_PlusAnn; auto.
  - destruct H as [p Hp]. exists p. apply R_PlusBr; auto.
  - exists []. apply R_WithAnn; auto.
  - destruct H as [p Hp]. exists p. apply R_WithBr; auto.
  - exists []. apply R_Up; auto.
  - exists []. apply R_Down; auto.
  - destruct H as [p Hp]. exists p. apply RB_Here; auto.
  - destruct H as [p Hp]. exists p. apply RB_There; auto.
Qed.

Lemma reach_set D :
  (forall t p m, Reach D t p m -> m <> Unset) /\ (forall b p m, ReachBrs D b p m -> m <> Unset).
Proof. apply Reach_mut; intros; auto. Qed.

(* the first expanded name: what follows it can be replaced *)
Lemma reach_head D :
  (forall t p m, Reach D t p m -> forall x q, p = x :: q ->
     exists d, tlookup D x = Some d /\ Reach D (td_body d) q m /\
               (forall q', Reach D (td_body d) q' m -> Reach D t (x :: q') m)) /\
  (forall b p m, ReachBrs D b p m -> forall x q, p = x :: q ->
     exists d, tlookup D x = Some d /\ Reach D (td_body d) q m /\
               (forall q', Reach D (td_body d) q' m -> ReachBrs D b (x :: q') m)).
Proof.
  apply Reach_mut; intros; try discriminate.
  - inversion H0; subst. exists d. repeat split; auto. intros q' Hq. econstructor; eauto.
  - destruct (H _ _ H0) as (d & El & Hr & Hrep). exists d. repeat split; auto. intros; apply R_TensorL; auto.
  - destruct (H _ _ H0) as (d & El & Hr & Hrep). exists d. repeat split; auto. intros; apply R_TensorR; auto.
  - destruct (H _ _ H0) as (d & El & Hr & Hrep). exists d. repeat split; auto. intros; apply R_LolliL; auto.
  - destruct (H _ _ H0) as (d & El & Hr & Hrep). exists d. repeat split; auto. intros; apply R_LolliR; auto.
  - destruct (H _ _ H0) as (d & El & Hr & Hrep). exists d. repeat split; auto. intros; apply R_PlusBr; auto.
  - destruct (H _ _ H0) as (d & El & Hr & Hrep). exists d. repeat split; auto. intros; apply R_WithBr; auto.
  - destruct (H _ _ H0) as (d & El & Hr & Hrep). exists d. repeat split; auto. intros; apply RB_Here; auto.
  - destruct (H _ _ H0) as (d & El & Hr & Hrep). exists d. repeat split; auto. intros; apply RB_There; auto.
Qed.

(* the part of a path after an occurrence of x starts from the body of x *)
Lemma reach_suffix D : forall q1 t x q2 m, Reach D t (q1 ++ x :: q2) m ->
  exists d, tlookup D x = Some d /\ Reach D (td_body d) q2 m.
Proof.
  induction q1 as [|y q1 IH]; intros t x q2 m H; cbn in H.
  - destruct (proj1 (reach_head D) _ _ _ H _ _ eq_refl) as (d & El & Hr & _). eauto.
  - destruct (proj1 (reach_head D) _ _ _ H _ _ eq_refl) as (d & El & Hr & _). eapply IH; eauto.
Qed.

Lemma in_split_str (x : string) l : In x l -> exists l1 l2, l = l1 ++ x :: l2.
Proof. apply in_split. Qed.

Lemma nodup_app_r {A} (l1 l2 : list A) : NoDup (l1 ++ l2) -> NoDup l2.
Proof. induction l1; cbn; auto. intros H; inversion H; auto. Qed.

Lemma nodup_mid_notin {A} (l1 l2 : list A) x : NoDup (l1 ++ x :: l2) -> ~ In x l2.
Proof. intros H. apply nodup_app_r in H. inversion H; auto. Qed.

(* loop cutting: a reachable fixing component is reachable without expanding a name twice *)
Lemma reach_nodup D : forall p t m, Reach D t p m -> exists p', Reach D t p' m /\ NoDup p'.
Proof.
  induction p as [|x q IH]; intros t m H.
  - exists []. split; [auto | constructor].
  - destruct (proj1 (reach_head D) _ _ _ H _ _ eq_refl) as (d & El & Hr & Hrep).
    destruct (IH _ _ Hr) as (q' & Hq' & Hnd).
    destruct (in_dec string_dec x q') as [Hin|Hnin].
    + destruct (in_split_str _ _ Hin) as (q1 & q2 & ->).
      destruct (reach_suffix D _ _ _ _ _ Hq') as (d' & El' & Hr').
      rewrite El in El'. inversion El'; subst d'.
      exists (x :: q2). split; [apply Hrep; auto|].
      constructor; [eapply nodup_mid_notin; eauto | eapply nodup_app_r in Hnd; inversion Hnd; auto].
    + exists (x :: q'). split; [apply Hrep; auto | constructor; auto].
Qed.

(* the depth-first search finds a component that is reachable without repetition and outside the
   used set *)
Lemma dfs_complete D :
  (forall t p m, Reach D t p m -> forall f U, NoDup p -> (forall x, In x p -> ~ In x U) ->
     tsize t + avail D U * S (env_size D) <= f ->
     exists k u, infer f D t U = Ok (k, u) /\ k <> Unset) /\
  (forall b p m, ReachBrs D b p m -> forall f U, NoDup p -> (forall x, In x p -> ~ In x U) ->
     bsize b + avail D U * S (env_size D) <= f ->
     exists k, infer_brs f D b U = Ok k /\ k <> Unset).
Proof.
  apply Reach_mut; intros.
  - destruct f as [|f]; [cbn in H1; lia|]. cbn [infer]. rewrite (proj2 (is_unset_false m) n). cbn. eauto.
  - destruct f as [|f]; [cbn in H2; lia|]. cbn [infer is_unset negb]. rewrite e.
    assert (Hx : ~ In x U) by (apply H1; left; reflexivity).
    rewrite (proj2 (str_mem_false x U) Hx). cbn [negb].
    inversion H0; subst.
    apply H; auto.
    + intros y Hy [<-|HyU]; [auto|]. apply (H1 y); [right; auto | auto].
    + pose proof (avail_step _ _ _ _ e (proj2 (str_mem_false x U) Hx)).
      destruct (tlookup_some _ _ _ e) as [Hin _]. pose proof (body_size_le _ _ Hin). cbn [tsize] in H2. nia.
  - destruct f as [|f]; [cbn in H1; lia|]. cbn [infer]. eauto.
  - destruct f as [|f]; [cbn in H1; lia|]. cbn [infer]. rewrite (proj2 (is_unset_false m) n). cbn. eauto.
  - destruct f as [|f]; [cbn in H2; lia|]. cbn [infer is_unset negb]. cbn [tsize] in H2.
    destruct (H f U H0 H1 ltac:(lia)) as (k & u & E & Hk). rewrite E. cbn [obind].
    destruct (proj1 (infer_ok D f) b U ltac:(lia)) as (rm & u2 & E2). rewrite E2. cbn [obind].
    unfold common2. rewrite (proj2 (is_unset_false k) Hk). eauto.
  - destruct f as [|f]; [cbn in H2; lia|]. cbn [infer is_unset negb]. cbn [tsize] in H2.
    destruct (proj1 (infer_ok D f) a U ltac:(lia)) as (lm & u1 & E1). rewrite E1. cbn [obind].
    destruct (H f U H0 H1 ltac:(lia)) as (k & u & E & Hk). rewrite E. cbn [obind].
    unfold common2. destruct (is_unset lm) eqn:El; [eauto|]. apply is_unset_false in El. eauto.
  - destruct f as [|f]; [cbn in H1; lia|]. cbn [infer]. rewrite (proj2 (is_unset_false m) n). cbn. eauto.
  - destruct f as [|f]; [cbn in H2; lia|]. cbn [infer is_unset negb]. cbn [tsize] in H2.
    destruct (H f U H0 H1 ltac:(lia)) as (k & u & E & Hk). rewrite E. cbn [obind].
    destruct (proj1 (infer_ok D f) b U ltac:(lia)) as (rm & u2 & E2). rewrite E2. cbn [obind].
    unfold common2. rewrite (proj2 (is_unset_false k) Hk). eauto.
  - destruct f as [|f]; [cbn in H2; lia|]. cbn [infer is_unset negb]. cbn [tsize] in H2.
    destruct (proj1 (infer_ok D f) a U ltac:(lia)) as (lm & u1 & E1). rewrite E1. cbn [obind].
    destruct (H f U H0 H1 ltac:(lia)) as (k & u & E & Hk). rewrite E. cbn [obind].
    unfold common2. destruct (is_unset lm) eqn:El; [eauto|]. apply is_unset_false in El. eauto.
  - destruct f as [|f]; [cbn in H1; lia|]. cbn [infer]. rewrite (proj2 (is_unset_false m) n). cbn. eauto.
  - destruct f as [|f]; [cbn in H2; lia|]. cbn [infer is_unset negb]. cbn [tsize] in H2.
    destruct (H f U H0 H1 ltac:(lia)) as (k & E & Hk). rewrite E. cbn [obind]. eauto.
  - destruct f as [|f]; [cbn in H1; lia|]. cbn [infer]. rewrite (proj2 (is_unset_false m) n). cbn. eauto.
  - destruct f as [|f]; [cbn in H2; lia|]. cbn [infer is_unset negb]. cbn [tsize] in H2.
    destruct (H f U H0 H1 ltac:(lia)) as (k & E & Hk). rewrite E. cbn [obind]. eauto.
  - destruct f0 as [|f0]; [cbn in H1; lia|]. cbn [infer]. eauto.
  - destruct f0 as [|f0]; [cbn in H1; lia|]. cbn [infer]. eauto.
  - destruct f as [|f]; [cbn in H2; lia|]. cbn [infer_brs]. cbn [bsize] in H2.
    destruct (H f U H0 H1 ltac:(lia)) as (k & u & E & Hk). rewrite E. cbn [obind].
    destruct (proj2 (infer_ok D f) r U ltac:(lia)) as (rm & E2). rewrite E2. cbn [obind].
    unfold common2. rewrite (proj2 (is_unset_false k) Hk). eauto.
  - destruct f as [|f]; [cbn in H2; lia|]. cbn [infer_brs]. cbn [bsize] in H2.
    destruct (proj1 (infer_ok D f) a U ltac:(lia)) as (lm & u1 & E1). rewrite E1. cbn [obind].
    destruct (H f U H0 H1 ltac:(lia)) as (k & E & Hk). rewrite E. cbn [obind].
    unfold common2. destruct (is_unset lm) eqn:El; [eauto|]. apply is_unset_false in El. eauto.
Qed.

(* completeness: if inferModality answers Unset at top level, no component fixes any mode *)
Theorem infer_complete_proof D t : infer_mode D t = Unset -> forall k, ~ Fixes D t k.
Proof.
  intros H k Hf. destruct (proj1 (fixes_reach D) _ _ Hf) as (p & Hp).
  destruct (reach_nodup D _ _ _ Hp) as (p' & Hp' & Hnd).
  destruct (proj1 (dfs_complete D) _ _ _ Hp' (infer_fuel D t) [] Hnd (fun _ _ H => H) (infer_fuel_bound D t))
    as (m & u & E & Hm).
  unfold infer_mode in H. rewrite E in H. auto.
Qed.

(* the declarative assignment, in full: the recorded mode of every definition is its HasMode *)
Theorem infer_correct_proof : infer_correct_stmt.
Proof.
  intros D0 d _. destruct (infer_correct_partial_proof D0 d) as [H1 H2].
  unfold HasMode. destruct (is_unset (infer_mode D0 (td_body d))) eqn:E.
  - apply is_unset_true in E. right. split; [auto|]. apply infer_complete_proof; auto.
  - apply is_unset_false in E. left. auto.
Qed.

(* the same for an annotation type *)
Theorem infer_correct_ann_proof D t t' :
  add_missing D t = Ok t' -> exists m, HasMode D t m /\ t' = assign D m t.
Proof.
  rewrite add_missing_eq. intros H. inversion H. exists (or_default (infer_mode D t)). split; [|reflexivity].
  unfold HasMode. destruct (is_unset (infer_mode D t)) eqn:E.
  - apply is_unset_true in E. right. rewrite E. split; [reflexivity|]. apply infer_complete_proof; auto.
  - apply is_unset_false in E. left. rewrite (or_default_id _ E). unfold infer_mode in *.
    destruct (infer_top_ok D t) as (m & u & Ei). rewrite Ei in *. eapply (proj1 (infer_sound_fix D _)); eauto.
Qed.

Lemma Forall2_map_r {A B} (P : A -> B -> Prop) (g : A -> B) l :
  (forall x, In x l -> P x (g x)) -> Forall2 P l (map g l).
Proof.
  induction l as [|x r IH]; cbn; intros H; constructor; auto.
Qed.

(* stated on what SetModalityTypeDef returns: definition by definition, same name, and the recorded
   mode is the declarative mode of the source body *)
Theorem infer_correct_result_proof D0 R : set_modality_typedefs D0 = Ok R ->
  Forall2 (fun d0 d => td_name d = td_name d0 /\ HasMode D0 (td_body d0) (td_mode d)) D0 R.
Proof.
  rewrite set_modality_map. intros H. inversion H. rewrite map_map.
  apply Forall2_map_r. intros d Hin. cbn. split; [reflexivity|]. apply infer_correct_proof; auto.
Qed.
