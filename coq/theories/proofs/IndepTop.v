(* proofs/IndepTop.v — C06 (and the mode side conditions of C05) for programs: discharges the section
   hypotheses of IndepProofs.v from the preliminary checks of tc_program. *)
Require Import Grits.Base Grits.ModeDefs Grits.Modes Grits.STypes Grits.Forms Grits.Subst Grits.Infer
               Grits.TcDeps Grits.Expand Grits.Tc Grits.TcTop Grits.spec.Linear Grits.spec.Sequents Grits.spec.Indep
               Grits.proofs.TcInv Grits.proofs.LinearProofs Grits.proofs.LinearTop Grits.proofs.WfFacts Grits.proofs.IndepProofs.

Lemma tlookup_in D x d : tlookup D x = Some d -> In d D.
Proof.
  induction D as [|e r IH]; cbn; try discriminate.
  destruct (tlookup r x) eqn:E.
  - intros H; inversion H; subst. right; auto.
  - destruct (String.eqb x (td_name e)); intros H; inversion H; subst. now left.
Qed.

Lemma sanity_env_both D : sanity_typedefs D = Ok true ->
  forall x d, tlookup D x = Some d -> check_wf D (td_body d) = true /\ mode_of (td_body d) = td_mode d.
Proof.
  unfold sanity_typedefs. destruct (has_dup (map td_name D)); try discriminate.
  destruct (forallb (fun d => check_wf D (td_body d) && mode_eqb (mode_of (td_body d)) (td_mode d)) D) eqn:E; cbn; try discriminate.
  intros _ x d H. rewrite forallb_forall in E. specialize (E d (tlookup_in _ _ _ H)).
  apply andb_prop in E. destruct E as (Hw & Hm). split; auto.
  apply mode_eqb_proper; auto.
  unfold check_wf in Hw. apply andb_prop in Hw. destruct Hw as (_ & Hw).
  (* the head mode of a type that passes checkTypeModalities is a proper mode: a local copy of
     WfFacts.check_modes_head, which lives in a section with the environment hypotheses *)
  clear -Hw. destruct (td_body d); cbn in *; unfold mode_ok in *;
    repeat match goal with H : _ && _ = true |- _ => apply andb_prop in H; destruct H end; auto.
Qed.
Lemma sanity_env_wf D : sanity_typedefs D = Ok true ->
  forall x d, tlookup D x = Some d -> check_wf D (td_body d) = true.
Proof. intros H x d Hl. exact (proj1 (sanity_env_both D H x d Hl)). Qed.
Lemma sanity_env_moded D : sanity_typedefs D = Ok true ->
  forall x d, tlookup D x = Some d -> mode_of (td_body d) = td_mode d.
Proof. intros H x d Hl. exact (proj2 (sanity_env_both D H x d Hl)). Qed.

Lemma mode_same_eq a b : mode_same a b = true -> a = b.
Proof. destruct a, b; cbn; try discriminate; auto. intros H. apply String.eqb_eq in H. now subst. Qed.

Lemma env_moded_ok D : env_moded_b D = true -> forall x d, tlookup D x = Some d -> mode_of (td_body d) = td_mode d.
Proof.
  unfold env_moded_b. intros E x d H. rewrite forallb_forall in E. apply mode_same_eq, E. eapply tlookup_in; eauto.
Qed.

Lemma add_missing_opt_some D t0 r : add_missing_opt D (Some t0) = TOk r -> exists t1, r = Some t1.
Proof. cbn. intros H. tinv H. inversion H; eauto. Qed.

Lemma add_missing_names_some D ns : forall ns', add_missing_names D ns = TOk ns' ->
  forallb (fun n => match nty n with Some _ => true | None => false end) ns = true ->
  Forall (fun n => exists t, nty n = Some t) ns'.
Proof.
  induction ns as [|n r IH]; intros ns' H Hs; cbn in H.
  - inversion H; constructor.
  - cbn in Hs. apply andb_prop in Hs. destruct Hs as (Hn & Hr). tinv H. inversion H; subst. constructor; eauto.
    destruct (nty n) eqn:Ety; try discriminate.
    match goal with Ha : add_missing_opt D _ = TOk _ |- _ => apply add_missing_opt_some in Ha; destruct Ha as (t1 & ->) end.
    cbn. eauto.
Qed.

Lemma types_of_in ns n t : In n ns -> nty n = Some t -> In t (types_of ns).
Proof. intros Hin E. unfold types_of. apply in_flat_map. exists n. split; auto. rewrite E. now left. Qed.

Lemma names_wf D ns : Forall (fun n => exists t, nty n = Some t) ns -> forallb (check_wf D) (types_of ns) = true ->
  Forall (fun n => wf_ty D (nty n)) ns.
Proof.
  intros Hs Hw. rewrite forallb_forall in Hw. rewrite Forall_forall in *. intros n Hin.
  destruct (Hs n Hin) as (t & E). exists t. split; auto. apply Hw. eapply types_of_in; eauto.
Qed.

Definition fun_ok D (f : fundef) : Prop :=
  wf_ty D (fn_type f) /\ Forall (fun n => wf_ty D (nty n)) (fn_params f) /\
  indep_all (map nty (fn_params f)) (fn_type f) = TOk tt.

Lemma prelim_funs_ok D l : forall seen fs, prelim_funs D l seen = TOk fs -> Forall (fun_ok D) fs.
Proof.
  induction l as [|f r IH]; intros seen fs H; cbn [prelim_funs] in H.
  - inversion H; constructor.
  - tinv H. inversion H; subst. constructor; eauto.
    repeat match goal with G : guard _ _ = TOk _ |- _ => apply guard_ok in G end.
    repeat match goal with u : unit |- _ => destruct u end.
    unfold fun_ok. cbn [fn_type fn_params].
    match goal with G : sanity_types D _ = true |- _ => unfold sanity_types in G; rewrite forallb_app in G; apply andb_prop in G; destruct G as (G1 & G2) end.
    destruct (fn_type f) as [t0|] eqn:Et; try discriminate.
    match goal with Ha : add_missing_opt D (Some t0) = TOk _ |- _ => destruct (add_missing_opt_some _ _ _ Ha) as (t1 & ->) end.
    cbn in G1. rewrite andb_true_r in G1.
    repeat split; auto.
    + exists t1; auto.
    + apply names_wf; auto. eapply add_missing_names_some; eauto.
Qed.

Lemma make_sigma_eq D fs : forall Sg, make_sigma D fs = TOk Sg ->
  Sg = map (fun f => {| fs_name := fn_name f; fs_params := fn_params f; fs_type := unf D (fn_type f) |}) fs.
Proof.
  induction fs as [|f r IH]; intros Sg H; cbn in H.
  - inversion H; auto.
  - tinv H. inversion H; subst. cbn. f_equal; auto. f_equal.
    match goal with E : unfold_opt D _ = TOk _ |- _ => symmetry; unfold unfold_opt, unf, lift in *; destruct (fn_type f); [|inversion E; auto];
      destruct (unfold D s); inversion E; auto end.
Qed.

Lemma sig_lookup_in Sg fn sg : sig_lookup Sg fn = Some sg -> In sg Sg.
Proof.
  induction Sg as [|e r IH]; cbn; try discriminate.
  destruct (sig_lookup r fn) eqn:E.
  - intros H; inversion H; subst. right; auto.
  - destruct (String.eqb fn (fs_name e)); intros H; inversion H; subst. now left.
Qed.

Lemma make_ctx_val ns x tx : alookup x (make_ctx ns) = Some tx -> exists n, In n ns /\ tx = nty n.
Proof.
  unfold make_ctx. apply (fold_aset_val ident nty (fun k v => exists n, In n ns /\ v = nty n)).
  - intros a Ha. eauto.
  - cbn. discriminate.
Qed.

Lemma tc_funs_rel D Sg fs : forall fs', tc_funs D Sg fs = TOk fs' ->
  Forall2 (fun f f' => fn_params f' = fn_params f /\ fn_type f' = fn_type f /\ fn_name f' = fn_name f) fs fs'.
Proof.
  induction fs as [|f r IH]; intros fs' H; cbn in H.
  - inversion H; constructor.
  - tinv H. inversion H; subst. constructor; auto.
Qed.
Lemma tc_procs_rel D Sg all assumed ps : forall ps', tc_procs D Sg all assumed ps = TOk ps' ->
  Forall2 (fun q q' => pr_providers q' = pr_providers q /\ pr_type q' = pr_type q) ps ps'.
Proof.
  induction ps as [|q r IH]; intros ps' H; cbn in H.
  - inversion H; constructor.
  - tinv H. inversion H; subst. constructor; auto.
Qed.

Lemma Forall2_length {A B} (R : A -> B -> Prop) l l' : Forall2 R l l' -> length l = length l'.
Proof. induction 1; cbn; auto. Qed.
Lemma Forall2_combine {A B} (R : A -> B -> Prop) l l' a b : Forall2 R l l' -> In (a, b) (combine l l') -> R a b.
Proof. induction 1; cbn; intros Hin; [contradiction|]. destruct Hin as [E|Hin]; [inversion E; subst; auto|auto]. Qed.
Lemma Forall2_trans3 {A B C} (R : A -> B -> Prop) (S : B -> C -> Prop) l1 l2 l3 a c :
  Forall2 R l1 l2 -> Forall2 S l2 l3 -> In (a, c) (combine l1 l3) -> exists b, In b l2 /\ R a b /\ S b c.
Proof.
  intros H; revert l3. induction H as [|x y l l' Hxy Hll IH]; intros l3 H2 Hin.
  - inversion H2; subst. cbn in Hin. contradiction.
  - inversion H2 as [|y' z l2' l3' Hyz Hrest]; subst. cbn in Hin. destruct Hin as [E|Hin].
    + inversion E; subst. eexists; split; [now left|auto].
    + destruct (IH _ Hrest Hin) as (b & Hb & HR). exists b; split; [now right|auto].
Qed.

Lemma prelim_procs_types_wf D l : forall a b l' a', prelim_procs_types D l a b = TOk (l', a') ->
  Forall (fun q => wf_ty D (pr_type q)) l'.
Proof.
  induction l as [|q r IH]; intros a b l' a' H; cbn [prelim_procs_types] in H.
  - inversion H; constructor.
  - tinv H. inversion H; subst. constructor; eauto. cbn.
    repeat match goal with G : guard _ _ = TOk _ |- _ => apply guard_ok in G end.
    destruct (pr_type q) as [t0|]; try discriminate.
    match goal with Ha : add_missing_opt D (Some t0) = TOk _ |- _ => destruct (add_missing_opt_some _ _ _ Ha) as (t1 & ->) end.
    match goal with G : sanity_types D _ = true |- _ => unfold sanity_types in G; cbn in G; rewrite andb_true_r in G end.
    exists t1; auto.
Qed.

Lemma prelim_procs_wf D procs assumed ps assumed' : prelim_procs D procs assumed = TOk (ps, assumed') ->
  Forall (fun q => wf_ty D (pr_type q)) ps /\ Forall (fun n => wf_ty D (nty n)) assumed'.
Proof.
  unfold prelim_procs. intros H. tinv H. inversion H; subst.
  repeat match goal with G : guard _ _ = TOk _ |- _ => apply guard_ok in G end.
  split.
  - eapply prelim_procs_types_wf; eauto.
  - apply names_wf; auto. eapply add_missing_names_some; eauto.
Qed.

Lemma available_names_wf D ps assumed :
  Forall (fun q => wf_ty D (pr_type q)) ps -> Forall (fun n => wf_ty D (nty n)) assumed ->
  forall k v, alookup k (available_names ps assumed) = Some v -> wf_ty D (nty v).
Proof.
  intros Hp Ha. unfold available_names. rewrite Forall_forall in *.
  apply (fold_aset_val ident (fun a => a) (fun k v => wf_ty D (nty v))); auto.
  apply (fold_aset_val fst snd (fun k v => wf_ty D (nty v))).
  - intros [k' v'] Hin. cbn. apply in_flat_map in Hin. destruct Hin as (q & Hq & Hin).
    apply in_map_iff in Hin. destruct Hin as (n & E & _). inversion E; subst. cbn. auto.
  - cbn. discriminate.
Qed.

Lemma available_names_rel ps ps' assumed :
  Forall2 (fun q q' => pr_providers q' = pr_providers q /\ pr_type q' = pr_type q) ps ps' ->
  available_names ps' assumed = available_names ps assumed.
Proof.
  intros H. unfold available_names. f_equal. f_equal.
  induction H as [|q q' l l' (E1 & E2) _ IH]; cbn; auto. now rewrite E1, E2, IH.
Qed.

Lemma proc_ctx_wf D pd ps assumed :
  Forall (fun q => wf_ty D (pr_type q)) ps -> Forall (fun n => wf_ty D (nty n)) assumed ->
  wf_ctx D (make_ctx (free_name_types pd ps assumed)).
Proof.
  intros Hp Ha x tx Hx. apply make_ctx_val in Hx. destruct Hx as (n & Hin & ->).
  unfold free_name_types in Hin. apply in_flat_map in Hin. destruct Hin as (fn & _ & Hin).
  destruct (alookup (ident fn) (available_names ps assumed)) eqn:E; cbn in Hin; [|contradiction].
  destruct Hin as [<-|[]]. eapply available_names_wf; eauto.
Qed.

Lemma make_sigma_wf D (env_wf : forall x d, tlookup D x = Some d -> check_wf D (td_body d) = true)
      (env_moded : forall x d, tlookup D x = Some d -> mode_of (td_body d) = td_mode d) fs :
  forall Sg, make_sigma D fs = TOk Sg -> Forall (fun f => wf_ty D (fn_type f)) fs ->
  Forall (fun sg => wf_ty D (fs_type sg)) Sg.
Proof.
  induction fs as [|f r IH]; intros Sg H Hw; cbn in H.
  - inversion H; constructor.
  - tinv H. inversion H; subst. inversion Hw; subst. constructor; auto. cbn.
    match goal with E : unfold_opt D _ = TOk _ |- _ => eapply (uo_wf D env_wf env_moded); eauto end.
Qed.

Lemma prog_sigma_eq D fs fs' :
  Forall2 (fun f f' => fn_params f' = fn_params f /\ fn_type f' = fn_type f /\ fn_name f' = fn_name f) fs fs' ->
  map (fun f => {| fs_name := fn_name f; fs_params := fn_params f; fs_type := unf D (fn_type f) |}) fs' =
  map (fun f => {| fs_name := fn_name f; fs_params := fn_params f; fs_type := unf D (fn_type f) |}) fs.
Proof. induction 1 as [|f f' l l' (E1 & E2 & E3) _ IH]; cbn; auto. now rewrite E1, E2, E3, IH. Qed.

Lemma fun_root_inv D f : fun_ok D f -> Inv D true (make_ctx (fn_params f)) (fn_type f).
Proof.
  intros (Wt & Wp & Hi). rewrite Forall_forall in Wp. repeat split; auto.
  - intros x tx Hx. apply make_ctx_val in Hx. destruct Hx as (n & Hin & ->). auto.
  - intros _ x tx Hx. apply make_ctx_val in Hx. destruct Hx as (n & Hin & ->).
    apply (indep_all_ok _ _ Hi). apply in_map. exact Hin.
Qed.

Theorem tc_independent p p' :
  typecheck p = Accept p' ->
  IndepProgram p p' /\ DropSplitProgram p p'.
Proof.
  unfold typecheck. intros H. destruct (tc_program p) as [q| | |] eqn:Hp; try discriminate.
  inversion H; subst q; clear H.
  unfold tc_program in Hp. tinv Hp. inversion Hp; subst p'; clear Hp.
  set (D := p_types p) in *.
  match goal with E : lift (sanity_typedefs D) = TOk _, G : guard _ _ = TOk _ |- _ =>
    apply lift_ok in E; apply guard_ok in G; subst; pose proof (sanity_env_wf _ E) as env_wf; pose proof (sanity_env_moded _ E) as env_moded end.
  match goal with Hf : prelim_funs _ _ _ = TOk ?fs |- _ =>
    pose proof (prelim_funs_shape _ _ _ _ Hf) as Sf; pose proof (prelim_funs_ok _ _ _ _ Hf) as Of; set (fs1 := fs) in * end.
  match goal with Hf : prelim_procs _ _ _ = TOk (?ps, ?as') |- _ =>
    destruct (prelim_procs_shape _ _ _ _ _ Hf) as (Sp & _ & _); destruct (prelim_procs_wf _ _ _ _ _ Hf) as (Wps & Was);
    set (ps1 := ps) in *; set (as1 := as') in * end.
  match goal with Hf : make_sigma _ _ = TOk ?S |- _ =>
    pose proof (make_sigma_eq _ _ _ Hf) as ESg;
    assert (sig_wf : forall fn sg, sig_lookup S fn = Some sg -> wf_ty D (fs_type sg));
    [ intros fn sg Hl; apply sig_lookup_in in Hl;
      assert (Hall : Forall (fun sg => wf_ty D (fs_type sg)) S)
        by (eapply (make_sigma_wf D env_wf env_moded); eauto; eapply Forall_impl; [|exact Of]; intros ? (? & _); auto);
      rewrite Forall_forall in Hall; auto
    | set (Sg := S) in * ] end.
  match goal with Hf : tc_funs _ _ _ = TOk ?r |- _ =>
    pose proof (tc_funs_all _ _ _ _ Hf) as Af; pose proof (tc_funs_rel _ _ _ _ Hf) as Rf; set (fs2 := r) in * end.
  match goal with Hf : tc_procs _ _ _ _ _ = TOk ?r |- _ =>
    pose proof (tc_procs_all _ _ _ _ _ _ Hf) as Ap; pose proof (tc_procs_rel _ _ _ _ _ _ Hf) as Rp; set (ps2 := r) in * end.
  assert (ESg' : prog_sigma D {| p_procs := ps2; p_assumed := as1; p_funs := fs2; p_types := D |} = Sg).
  { unfold prog_sigma. cbn [p_funs]. rewrite ESg. now apply prog_sigma_eq. }
  rewrite Forall_forall in Af, Ap, Of.
  (* per function *)
  assert (HF : forall f f', In (f, f') (combine (p_funs p) fs2) ->
     Forall (fun s => ((true || sq_spawned s) = true -> independent s) /\ legal D s)
            (sequents D Sg (make_ctx (fn_params f')) None (fn_type f') (fn_body f))).
  { intros f f' Hin. destruct (Forall2_trans3 _ _ _ _ _ _ _ Sf Rf Hin) as (f1 & Hin1 & (Qb & _) & (Qe1 & Qe2 & _)).
    destruct (Af _ Hin1) as (bb & Hb').
    rewrite Qe1, Qe2, <- Qb.
    exact (tc_form_sequents D Sg env_wf env_moded sig_wf true _ None _ _ _ Hb' (fun_root_inv _ _ (Of _ Hin1))). }
  (* per process *)
  assert (HP : forall pd pd', In (pd, pd') (combine (p_procs p) ps2) ->
     forall ind, Inv D ind (make_ctx (free_name_types (with_body pd' (pr_body pd)) ps2 as1)) (pr_type pd') ->
     Forall (fun s => ((ind || sq_spawned s) = true -> independent s) /\ legal D s)
            (sequents D Sg (make_ctx (free_name_types (with_body pd' (pr_body pd)) ps2 as1)) None (pr_type pd') (pr_body pd))).
  { intros pd pd' Hin ind HI. destruct (Forall2_trans3 _ _ _ _ _ _ _ Sp Rp Hin) as (q & Hinq & (Qb & Qpr) & (Qe1 & Qe2)).
    destruct (Ap _ Hinq) as (bb & Hb').
    assert (Ectx : free_name_types (with_body pd' (pr_body pd)) ps2 as1 = free_name_types q ps1 as1).
    { unfold free_name_types. cbn [with_body pr_body pr_providers]. rewrite (available_names_rel _ _ _ Rp), Qe1, Qb. reflexivity. }
    rewrite Ectx in *. rewrite Qe2 in *. rewrite <- Qb.
    exact (tc_form_sequents D Sg env_wf env_moded sig_wf ind _ None _ _ _ Hb' HI). }
  assert (WP : forall pd pd', In (pd, pd') (combine (p_procs p) ps2) ->
     Inv D false (make_ctx (free_name_types (with_body pd' (pr_body pd)) ps2 as1)) (pr_type pd')).
  { intros pd pd' Hin. destruct (Forall2_trans3 _ _ _ _ _ _ _ Sp Rp Hin) as (q & Hinq & (Qb & Qpr) & (Qe1 & Qe2)).
    repeat split; try discriminate.
    - assert (Ectx : free_name_types (with_body pd' (pr_body pd)) ps2 as1 = free_name_types (with_body pd' (pr_body pd)) ps1 as1).
      { unfold free_name_types. now rewrite (available_names_rel _ _ _ Rp). }
      rewrite Ectx. now apply proc_ctx_wf.
    - rewrite Qe2. rewrite Forall_forall in Wps. auto. }
  split.
  - unfold IndepProgram. cbn [p_funs p_procs p_types p_assumed]. fold D.
    split; [rewrite <- (Forall2_length _ _ _ Rf), <- (Forall2_length _ _ _ Sf); reflexivity|].
    split; [rewrite <- (Forall2_length _ _ _ Rp), <- (Forall2_length _ _ _ Sp); reflexivity|].
    split.
    + intros f f' Hin. unfold fun_sequents. cbn [p_types]. fold D. rewrite ESg'.
      eapply Forall_impl; [|exact (HF _ _ Hin)]. intros s (A & B & _). split; auto.
    + intros pd pd' Hin. unfold proc_sequents, proc_root, proc_ctx. cbn [p_types p_procs p_assumed]. fold D. rewrite ESg'. split.
      * eapply Forall_impl; [|exact (HP _ _ Hin false (WP _ _ Hin))]. intros s (A & B & _). split; auto.
      * intros (t & Et & Hroot). cbn in Et, Hroot.
        assert (HI : Inv D true (make_ctx (free_name_types (with_body pd' (pr_body pd)) ps2 as1)) (pr_type pd')).
        { destruct (WP _ _ Hin) as (A & B & _). repeat split; auto. intros _ x tx Hx.
          destruct (Hroot _ _ Hx) as (t' & -> & Hd). rewrite Et. exact Hd. }
        eapply Forall_impl; [|exact (HP _ _ Hin true HI)]. intros s (A & _). auto.
  - unfold DropSplitProgram. cbn [p_funs p_procs p_types p_assumed]. split.
    + intros f f' Hin. unfold fun_sequents. cbn [p_types]. fold D. rewrite ESg'.
      eapply Forall_impl; [|exact (HF _ _ Hin)]. intros s (_ & _ & C). auto.
    + intros pd pd' Hin. unfold proc_sequents, proc_ctx. cbn [p_types p_procs p_assumed]. fold D. rewrite ESg'.
      eapply Forall_impl; [|exact (HP _ _ Hin false (WP _ _ Hin))]. intros s (_ & _ & C). auto.
Qed.

Corollary tc_indep_program p p' : typecheck p = Accept p' -> IndepProgram p p'.
Proof. intros H. exact (proj1 (tc_independent p p' H)). Qed.
Corollary tc_drop_split_program p p' : typecheck p = Accept p' -> DropSplitProgram p p'.
Proof. intros H. exact (proj2 (tc_independent p p' H)). Qed.
