(* NPPosFwd.v — the step at which the non-polarized and the polarized modes part for a POSITIVE forward
   f = `fwd self x` (one provider nf) whose client channel k is provided by t, when t sends m on k:
     polarized     Rendezvous t f : t ends, f becomes the process that re-sends m on its own channel;
     non-polarized Control f t    : f ends, t takes f's provider and sends m on it itself; k is closed.
   pos_handover_steps: both steps are enabled, and they lead to configurations that differ ONLY in
   the identifier (f versus t), body and counter of one blocked sender of the SAME message m on the SAME
   channel (chan nf), and in the closed flag of k.  (Groundwork for the agreement with positive
   forwards, which is not proved: see NPAgreeNegConv.np_polarized_agree_cfree_statement.) *)
From stdpp Require Import gmap strings sorting.
Require Import Grits.Base Grits.ModeDefs Grits.Modes Grits.STypes Grits.Forms Grits.Subst Grits.TcDeps Grits.Expand
               Grits.Runtime Grits.RuntimeFootprint.
Require Import Grits.proofs.StepErrors Grits.proofs.RuntimeFacts Grits.proofs.AsyncSync Grits.proofs.RtSafetyNP Grits.proofs.InvNP.

(* the rules of the messages a provider sends on its own channel at a positive type *)
Definition pos_rule (r : rule) : bool := match r with RSND | RCLS | RSEL | RCST => true | _ => false end.

Section Pos.
Variable D : tenv.
Variable F : list fundef.

(* t sends m on its own channel: with another provider it sends the same m there; the positive forward
   that receives m becomes a process that sends the same m on its own channel *)
Lemma pos_handover a b B nx nx' ka kb to from nxf self m :
  chan a = Some ka -> chan b = Some kb -> is_self to = true ->
  action_of Async D (Proc [a] B nx) = ASend ka m -> pos_rule (m_rule m) = true ->
  body_is_fwd B = false /\
  action_of Async D (Proc [b] B nx') = ASend kb m /\
  exists B', on_message self (Proc [b] (FFwd to from false) nxf) m = EOk (no_eff (Continue (Proc [b] B' nxf))) /\
             action_of Async D (Proc [b] B' nxf) = ASend kb m.
Proof.
  intros Ha Hb Hto. unfold action_of at 1 2, send_on, recv_on, internal, self_chan, prov0, multi.
  cbn [pr_body0 pr_provs head length Nat.ltb Nat.leb is_np]. rewrite Ha, Hb.
  destruct B; cbn;
    repeat match goal with
           | |- context [if ?x then _ else _] => destruct x eqn:?; cbn
           | |- context [match chan ?x with _ => _ end] => destruct (chan x) eqn:?; cbn
           | |- context [match fwd_polarity ?d ?x with _ => _ end] => destruct (fwd_polarity d x) as [[]| |]; cbn
           end; try discriminate; intros Heq Hr; inversion Heq; subst; cbn in Hr; try discriminate Hr;
    (split; [reflexivity|]); (split; [reflexivity|]); eexists; (split; [reflexivity|]);
    unfold action_of, send_on, self_chan, prov0, multi; cbn; rewrite Hto; cbn; rewrite Hb; reflexivity.
Qed.

Lemma action_of_next md provs body n n' : action_of md D (Proc provs body n) = action_of md D (Proc provs body n').
Proof. destruct body; reflexivity. Qed.

Theorem pos_handover_steps c f t to from nf nxf n0 B nx k kf st m :
  f <> t ->
  procs c !! f = Some (Proc [nf] (FFwd to from false) nxf) -> is_self to = true -> chan from = Some k ->
  fwd_polarity D from = Ok Pos -> chan nf = Some kf ->
  procs c !! t = Some (Proc [n0] B nx) -> chan n0 = Some k ->
  action_of Async D (Proc [n0] B nx) = ASend k m -> pos_rule (m_rule m) = true ->
  chans c !! k = Some st -> ch_closed st = false ->
  exists B',
    step Sync D F c (Rendezvous t f) =
      SStep (Cfg (<[f := Proc [nf] B' (nxf + 0)]> (delete t (procs c))) (chans c) (out c)) /\
    step NP D F c (Control f t) =
      SStep (Cfg (<[t := Proc [nf] B (nx + 0)]> (delete f (procs c))) (close_all [k] (chans c)) (out c)) /\
    action_of Async D (Proc [nf] B' (nxf + 0)) = ASend kf m /\
    action_of Async D (Proc [nf] B (nx + 0)) = ASend kf m.
Proof.
  intros Hft Hf Hto Hfrom Hpol Hnf Ht Hn0 Eat Hr Hk Hcl.
  destruct (pos_handover n0 nf B nx (nx + 0) k kf to from nxf f m Hn0 Hnf Hto Eat Hr) as (Hnfw & Eat' & B' & Hom & EaB').
  exists B'.
  assert (Eaf : action_of Async D (Proc [nf] (FFwd to from false) nxf) = ARecv k).
  { unfold action_of. cbn [pr_body0 is_np]. rewrite Hto. cbn [negb]. by rewrite Hpol, Hfrom. }
  assert (EafN : action_of NP D (Proc [nf] (FFwd to from false) nxf) = ACtrl k [nf]).
  { unfold action_of. cbn [pr_body0 is_np pr_provs]. rewrite Hto. cbn [negb]. by rewrite Hfrom. }
  assert (EatN : action_of NP D (Proc [n0] B nx) = ASend k m) by (by rewrite (action_np_nonfwd D (Proc [n0] B nx) Hnfw)).
  split; [|split; [|split]].
  - cbn [step]. rewrite bool_decide_eq_false_2 by done. rewrite Ht, Hf, !action_of_sync, Eat, Eaf.
    rewrite bool_decide_eq_true_2 by done. rewrite Hk, Hcl. rewrite Hom. cbn [eff_step]. reflexivity.
  - cbn [step negb is_np orb]. rewrite bool_decide_eq_false_2 by done. rewrite Hf, Ht, EafN.
    assert (Hsc : self_chan (Proc [n0] B nx) = Some k) by (unfold self_chan, prov0; cbn; exact Hn0).
    rewrite Hsc. rewrite bool_decide_eq_true_2 by done.
    assert (Hpoll : polls_control NP D (Proc [n0] B nx) = true) by (unfold polls_control; by rewrite EatN).
    rewrite Hpoll. cbn [andb]. f_equal. rewrite apply_control_effect. cbn [pr_provs tl app firstn cids_of flat_map pr_body0 pr_next del_proc procs chans out].
    rewrite Hn0. reflexivity.
  - by rewrite (action_of_next Async [nf] B' (nxf + 0) nxf).
  - exact Eat'.
Qed.
End Pos.
