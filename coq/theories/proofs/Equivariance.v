(* proofs/Equivariance.v — C14 (verdict half) on the DECLARATIVE judgement of spec/Typing.v:
   derivability is invariant under injective renaming of channel identifiers (bound and free alike,
   applied consistently to the whole program) and under permutation of the function, process and
   assumed-name declarations.  Through C07 (tc_verdict) this is invariance of the checker's verdict.

   Admissibility of a channel renaming r at the level of the AST: r is INJECTIVE and keeps the
   identifier "" (the bare keyword `self`, which F31 forbids as the name of a process).  Nothing else
   is needed there: the provider is recognised by the is_self mark or by equality of identifiers with
   the bound provider name, both preserved by an injective r; `execN` / `root` are ordinary
   identifiers of the AST; keywords do not exist at this level.  (At the level of TEXTS the
   renaming must in addition avoid keywords and the generated names execN, which the parser
   produces itself — that side condition belongs to the front end, not to the type system.) *)
Require Import Grits.Base Grits.ModeDefs Grits.Modes Grits.STypes Grits.Forms Grits.Subst Grits.Infer
               Grits.TcDeps Grits.Expand Grits.Tc Grits.spec.Typing Grits.proofs.TcLemmas.
Require Import Coq.Sorting.Permutation.

(* ---------------------------------------------------------------- renaming of channel identifiers *)
Definition ren_name (r : string -> string) (n : name) : name :=
  mkName (r (ident n)) (is_self n) (pol n) (nty n) (chan n).

Fixpoint ren_form (r rf : string -> string) (f : form) : form :=
  let rn := ren_name r in
  match f with
  | FSend a b c => FSend (rn a) (rn b) (rn c)
  | FRecv p c fr k => FRecv (rn p) (rn c) (rn fr) (ren_form r rf k)
  | FSel a l c => FSel (rn a) l (rn c)
  | FCase fr bs => FCase (rn fr) (ren_branches r rf bs)
  | FNew x b k => FNew (rn x) (ren_form r rf b) (ren_form r rf k)
  | FClose c => FClose (rn c)
  | FWait c k => FWait (rn c) (ren_form r rf k)
  | FFwd a b d => FFwd (rn a) (rn b) d
  | FSplit x y fr k => FSplit (rn x) (rn y) (rn fr) (ren_form r rf k)
  | FCall fn args pt => FCall (rf fn) (map rn args) pt
  | FCast a c => FCast (rn a) (rn c)
  | FShift x fr k => FShift (rn x) (rn fr) (ren_form r rf k)
  | FDrop c k => FDrop (rn c) (ren_form r rf k)
  | FPrint l k => FPrint l (ren_form r rf k)
  end
with ren_branches (r rf : string -> string) (b : branches) : branches :=
  match b with
  | BrNil => BrNil
  | BrCons l p k rest => BrCons l (ren_name r p) (ren_form r rf k) (ren_branches r rf rest)
  end.

Definition ren_al {V W} (fv : V -> W) (r : string -> string) (m : list (string * V)) : list (string * W) :=
  map (fun kv => (r (fst kv), fv (snd kv))) m.
Definition ren_ctx (r : string -> string) (g : ctx) : ctx := ren_al (fun t => t) r g.

Definition ren_fun (r rf : string -> string) (f : fundef) : fundef :=
  {| fn_name := rf (fn_name f); fn_params := map (ren_name r) (fn_params f); fn_body := ren_form r rf (fn_body f);
     fn_type := fn_type f; fn_explicit := option_map (ren_name r) (fn_explicit f) |}.
Definition ren_proc (r rf : string -> string) (p : procdef) : procdef :=
  {| pr_body := ren_form r rf (pr_body p); pr_providers := map (ren_name r) (pr_providers p); pr_type := pr_type p |}.
Definition ren_program (r rf : string -> string) (p : program) : program :=
  {| p_procs := map (ren_proc r rf) (p_procs p); p_assumed := map (ren_name r) (p_assumed p);
     p_funs := map (ren_fun r rf) (p_funs p); p_types := p_types p |}.
Definition ren_sig (r rf : string -> string) (s : fsig) : fsig :=
  {| fs_name := rf (fs_name s); fs_params := map (ren_name r) (fs_params s); fs_type := fs_type s |}.

Section Renaming.
Variables r rf : string -> string.
Hypothesis r_inj : forall a b, r a = r b -> a = b.
Hypothesis rf_inj : forall a b, rf a = rf b -> a = b.
(* the identifier "" (the bare keyword self) is kept: F31 distinguishes it *)
Hypothesis r_empty : r "" = "".

Notation rn := (ren_name r).
Notation rc := (ren_ctx r).
Notation ro := (option_map (ren_name r)).

Lemma eqb_ren a b : String.eqb (r a) (r b) = String.eqb a b.
Proof.
  destruct (String.eqb a b) eqn:E.
  - apply String.eqb_eq in E. subst. apply String.eqb_refl.
  - apply String.eqb_neq. intros H. apply r_inj in H. apply String.eqb_neq in E. contradiction.
Qed.

Lemma eqb_renf a b : String.eqb (rf a) (rf b) = String.eqb a b.
Proof.
  destruct (String.eqb a b) eqn:E.
  - apply String.eqb_eq in E. subst. apply String.eqb_refl.
  - apply String.eqb_neq. intros H. apply rf_inj in H. apply String.eqb_neq in E. contradiction.
Qed.

Lemma alookup_ren {V W} (fv : V -> W) x m : alookup (r x) (ren_al fv r m) = option_map fv (alookup x m).
Proof. unfold ren_al. induction m as [|[k v] m IH]; cbn; auto. rewrite eqb_ren. destruct (String.eqb x k); auto. Qed.
Lemma aremove_ren {V W} (fv : V -> W) x m : aremove (r x) (ren_al fv r m) = ren_al fv r (aremove x m).
Proof. unfold ren_al. induction m as [|[k v] m IH]; cbn; auto. rewrite eqb_ren. destruct (String.eqb x k); cbn; now rewrite IH. Qed.
Lemma aset_ren {V W} (fv : V -> W) x v m : aset (r x) (fv v) (ren_al fv r m) = ren_al fv r (aset x v m).
Proof.
  unfold aset. change (ren_al fv r ((x, v) :: aremove x m)) with ((r x, fv v) :: ren_al fv r (aremove x m)).
  now rewrite aremove_ren.
Qed.

Lemma str_mem_ren x l : str_mem (r x) (map r l) = str_mem x l.
Proof. induction l as [|y l IH]; cbn; auto. now rewrite eqb_ren, IH. Qed.
Lemma In_ren x l : In (r x) (map r l) <-> In x l.
Proof. rewrite <- !str_mem_In. now rewrite str_mem_ren. Qed.
Lemma NoDup_ren l : NoDup l -> NoDup (map r l).
Proof.
  induction 1 as [|x l Hx N IH]; cbn; constructor; auto. now rewrite In_ren.
Qed.

Lemma NoDup_renf l : NoDup l -> NoDup (map rf l).
Proof.
  induction 1 as [|x l Hx N IH]; cbn; constructor; auto.
  intros Hin. apply in_map_iff in Hin. destruct Hin as [y [E Hy]]. apply rf_inj in E. now subst.
Qed.

(* names *)
Lemma name_equal_ren a b : name_equal (rn a) (rn b) = name_equal a b.
Proof. unfold name_equal, initialized. cbn. now rewrite eqb_ren. Qed.
Lemma is_provider_ren n sh : is_provider (rn n) (ro sh) = is_provider n sh.
Proof. unfold is_provider. destruct sh as [s|]; cbn; auto. now rewrite eqb_ren. Qed.
Lemma is_provider_ren_eq n sh b : is_provider n sh = b -> is_provider (rn n) (ro sh) = b.
Proof. now rewrite is_provider_ren. Qed.
Lemma name_equal_ren_eq a b c : name_equal a b = c -> name_equal (rn a) (rn b) = c.
Proof. now rewrite name_equal_ren. Qed.

(* contexts *)
Lemma has_ren g n t : has g n t -> has (rc g) (rn n) t.
Proof. intros [S L]. split; auto. cbn. unfold ren_ctx. rewrite alookup_ren, L. reflexivity. Qed.
Lemma fresh_ren g n : fresh g n -> fresh (rc g) (rn n).
Proof. unfold fresh, ctx_has, amem, ren_ctx. cbn. rewrite alookup_ren. destruct (alookup (ident n) g); auto. Qed.
Lemma ctx_has_ren g x : ctx_has (rc g) (r x) = ctx_has g x.
Proof. unfold ctx_has, amem, ren_ctx. rewrite alookup_ren. destruct (alookup x g); auto. Qed.
Lemma without_ren g n : without (rc g) (rn n) = rc (without g n).
Proof. unfold without, ren_ctx. cbn. apply aremove_ren. Qed.
Lemma bind_ren g n t : bind (rc g) (rn n) t = rc (bind g n t).
Proof. unfold bind, ren_ctx. cbn. apply (aset_ren (fun t : option sty => t)). Qed.
Lemma rc_nil g : g = [] -> rc g = [].
Proof. now intros ->. Qed.
Lemma as_provider_ren n t : as_provider (rn n) t = ro (as_provider n t).
Proof. reflexivity. Qed.
Lemma pol_ok_ren n h : pol_ok n h -> pol_ok (rn n) h.
Proof. auto. Qed.
Lemma ctx_ge_ren g m : ctx_ge g m -> ctx_ge (rc g) m.
Proof.
  intros G x t Hin. unfold ren_ctx, ren_al in Hin. apply in_map_iff in Hin. destruct Hin as [[k v] [E Hin]].
  cbn in E. inversion E; subst. eapply G; eauto.
Qed.

(* free names *)
Lemma append_ren n l : append_if_not_self (rn n) (map rn l) = map rn (append_if_not_self n l).
Proof. unfold append_if_not_self. cbn. destruct (is_self n); auto. now rewrite map_app. Qed.
Lemma remove_bound_ren l b : remove_bound (map rn l) (rn b) = map rn (remove_bound l b).
Proof.
  unfold remove_bound. induction l as [|x l IH]; cbn; auto.
  rewrite name_equal_ren. destruct (name_equal x b); cbn; now rewrite IH.
Qed.
Lemma name_exists_ren l c : name_exists (map rn l) (rn c) = name_exists l c.
Proof. unfold name_exists. induction l as [|x l IH]; cbn; auto. now rewrite name_equal_ren, IH. Qed.
Lemma merge_ren : forall b a, merge_names (map rn a) (map rn b) = map rn (merge_names a b).
Proof.
  induction b as [|n b IH]; intros a; cbn; auto.
  rewrite name_exists_ren. destruct (name_exists a n); [apply IH|].
  rewrite <- IH. now rewrite map_app.
Qed.
Lemma fold_append_ren : forall args acc,
  fold_left (fun acc n => append_if_not_self n acc) (map rn args) (map rn acc) =
  map rn (fold_left (fun acc n => append_if_not_self n acc) args acc).
Proof. induction args as [|a args IH]; intros acc; cbn; auto. rewrite append_ren. apply IH. Qed.

Lemma free_names_ren_all :
  (forall f, free_names (ren_form r rf f) = map rn (free_names f)) /\
  (forall b acc, free_names_brs (map rn acc) (ren_branches r rf b) = map rn (free_names_brs acc b)).
Proof.
  apply form_branches_ind; intros; cbn [ren_form ren_branches free_names free_names_brs].
  - change (@nil name) with (map rn []). now rewrite !append_ren.
  - rewrite H, !remove_bound_ren. change (@nil name) with (map rn []) at 1. now rewrite append_ren, merge_ren.
  - change (@nil name) with (map rn []). now rewrite !append_ren.
  - change (@nil name) with (map rn []) at 1. rewrite append_ren. apply H.
  - rewrite H, H0, remove_bound_ren. change (@nil name) with (map rn []) at 1. now rewrite !merge_ren.
  - change (@nil name) with (map rn []). now rewrite !append_ren.
  - rewrite H. change (@nil name) with (map rn []) at 1. now rewrite append_ren, merge_ren.
  - change (@nil name) with (map rn []). now rewrite !append_ren.
  - rewrite H, !remove_bound_ren. change (@nil name) with (map rn []) at 1. now rewrite append_ren, merge_ren.
  - change (@nil name) with (map rn []) at 1. apply fold_append_ren.
  - change (@nil name) with (map rn []). now rewrite !append_ren.
  - rewrite H, remove_bound_ren. change (@nil name) with (map rn []) at 1. now rewrite append_ren, merge_ren.
  - rewrite H. change (@nil name) with (map rn []) at 1. now rewrite append_ren, merge_ren.
  - apply H.
  - reflexivity.
  - rewrite H, remove_bound_ren, merge_ren. apply H0.
Qed.
Lemma free_names_ren f : free_names (ren_form r rf f) = map rn (free_names f).
Proof. apply free_names_ren_all. Qed.

Lemma name_in_names_ren x l : name_in_names (rn x) (map rn l) = name_in_names x l.
Proof. unfold name_in_names. induction l as [|y l IH]; cbn; auto. now rewrite name_equal_ren, IH. Qed.
Lemma has_continuation_ren f : has_continuation (ren_form r rf f) = has_continuation f.
Proof. destruct f; reflexivity. Qed.
Lemma not_call_ren f : (forall fn args o, f <> FCall fn args o) -> forall fn args o, ren_form r rf f <> FCall fn args o.
Proof. intros N fn args o. destruct f; cbn; try discriminate. exfalso. eapply N; eauto. Qed.
Lemma br_labels_ren b : br_labels (ren_branches r rf b) = br_labels b.
Proof. induction b; cbn; auto. now rewrite IHb. Qed.

Section Judgement.
Variable teq : tenv -> sty -> sty -> Prop.
Variable D : tenv.
Variable Sg : sigma.
Notation Sg' := (map (ren_sig r rf) Sg).

Lemma sig_lookup_ren fn : sig_lookup Sg' (rf fn) = option_map (ren_sig r rf) (sig_lookup Sg fn).
Proof.
  induction Sg as [|s S IH]; cbn; auto. rewrite IH. destruct (sig_lookup S fn); cbn; auto.
  rewrite eqb_renf. destruct (String.eqb fn (fs_name s)); auto.
Qed.

Lemma split_ctx_ren g ns acc gl gr : split_ctx D g ns acc gl gr ->
  split_ctx D (rc g) (map rn ns) (rc acc) (rc gl) (rc gr).
Proof.
  induction 1 as [g acc|g n ns acc gl gr S SP IH|g n ns acc gl gr t h Ha Hh SP IH]; cbn [map].
  - constructor.
  - apply split_self; auto.
  - eapply split_take; eauto using has_ren. now rewrite without_ren, bind_ren.
Qed.

Lemma typed_args_ren g args params g' : TypedArgs teq D g args params g' ->
  TypedArgs teq D (rc g) (map rn args) (map rn params) (rc g').
Proof.
  induction 1; cbn [map]; [constructor|].
  econstructor; eauto using has_ren, pol_ok_ren. now rewrite without_ren.
Qed.

Hint Resolve has_ren fresh_ren is_provider_ren_eq name_equal_ren_eq pol_ok_ren rc_nil ctx_ge_ren : ren.

Ltac sl := rewrite sig_lookup_ren; match goal with H : sig_lookup Sg _ = Some _ |- _ => now rewrite H end.
Ltac rw_ren := rewrite ?without_ren, ?bind_ren, ?as_provider_ren, ?br_labels_ren.

Theorem typed_ren_all :
  (forall g sh A f, Typed teq D Sg g sh A f -> Typed teq D Sg' (rc g) (ro sh) A (ren_form r rf f)) /\
  (forall g bs b, TypedBrsR teq D Sg g bs b -> TypedBrsR teq D Sg' (rc g) bs (ren_branches r rf b)) /\
  (forall g sh A bs b, TypedBrsL teq D Sg g sh A bs b -> TypedBrsL teq D Sg' (rc g) (ro sh) A bs (ren_branches r rf b)).
Proof.
  apply Typed_mutind; intros; cbn [ren_form ren_branches].
  - eapply T_TensorR; rw_ren; eauto with ren.
  - eapply T_TensorL; rw_ren; eauto with ren.
  - eapply T_LolliR; rw_ren; eauto with ren.
  - eapply T_LolliL; rw_ren; eauto with ren.
  - eapply T_PlusR; rw_ren; eauto with ren.
  - eapply T_PlusL; rw_ren; eauto with ren.
  - eapply T_WithR; rw_ren; eauto with ren.
  - eapply T_WithL; rw_ren; eauto with ren.
  - change (@nil (string * option sty)) with (rc []). eapply T_OneR; eauto with ren.
  - eapply T_OneL; rw_ren; eauto with ren.
  - eapply T_DownR; rw_ren; eauto with ren.
  - eapply T_DownL; rw_ren; eauto with ren.
  - eapply T_UpR; rw_ren; eauto with ren.
  - eapply T_UpL; rw_ren; eauto with ren.
  - eapply T_Id; rw_ren; eauto with ren.
  - eapply T_CutCall with (gl := rc gl) (gr := rc gr) (sg := ren_sig r rf sg); rw_ren; eauto with ren.
    + cbn [ident ren_name]. rewrite ctx_has_ren. change (FCall (rf fn) (map rn args) o) with (ren_form r rf (FCall fn args o)).
      rewrite free_names_ren, name_in_names_ren. assumption.
    + change (@nil (string * option sty)) with (rc []). now apply split_ctx_ren.
    + sl.
  - eapply T_CutAx with (gl := rc gl) (gr := rc gr); rw_ren; eauto with ren.
    + now rewrite has_continuation_ren.
    + now apply not_call_ren.
    + cbn [ident ren_name]. rewrite ctx_has_ren, free_names_ren, name_in_names_ren. assumption.
    + rewrite free_names_ren. change (@nil (string * option sty)) with (rc []). now apply split_ctx_ren.
  - eapply T_Call with (sg := ren_sig r rf sg); eauto with ren;
      try sl; try (cbn; rewrite !map_length; assumption);
      try (cbn; change (@nil (string * option sty)) with (rc []); now apply typed_args_ren).
  - cbn [map]. eapply T_CallSelf with (sg := ren_sig r rf sg); eauto with ren;
      try sl; try (cbn; rewrite !map_length; assumption);
      try (cbn; change (@nil (string * option sty)) with (rc []); now apply typed_args_ren).
  - eapply T_Drop; rw_ren; eauto with ren.
  - eapply T_Split; rw_ren; eauto with ren.
  - eapply T_Print; eauto.
  - constructor.
  - econstructor; rw_ren; eauto with ren.
  - constructor.
  - econstructor; rw_ren; eauto with ren.
Qed.
End Judgement.

(* ---------------------------------------------------------------- programs *)
Lemma elab_name_ren D n n' : elab_name D n n' -> elab_name D (rn n) (rn n').
Proof. intros [t [t' [E1 [E2 ->]]]]. exists t, t'. auto. Qed.
Lemma Forall2_map {A B} (R : A -> A -> Prop) (S : B -> B -> Prop) (f : A -> B) l l' :
  (forall a a', R a a' -> S (f a) (f a')) -> Forall2 R l l' -> Forall2 S (map f l) (map f l').
Proof. intros H. induction 1; cbn; constructor; auto. Qed.
Lemma elab_fun_ren D f f' : elab_fun D f f' -> elab_fun D (ren_fun r rf f) (ren_fun r rf f').
Proof.
  intros [t [t' [ps' [E1 [E2 [E3 ->]]]]]]. exists t, t', (map rn ps'). repeat split; auto.
  eapply Forall2_map; eauto using elab_name_ren.
Qed.
Lemma elab_proc_ren D p p' : elab_proc D p p' -> elab_proc D (ren_proc r rf p) (ren_proc r rf p').
Proof. intros [t [t' [E1 [E2 ->]]]]. exists t, t'. auto. Qed.

Lemma ctx_of_names_ren ns : ctx_of_names (map rn ns) = rc (ctx_of_names ns).
Proof.
  unfold ctx_of_names. change (@nil (string * option sty)) with (rc []) at 1. generalize (@nil (string * option sty)).
  induction ns as [|n ns IH]; intros acc; cbn [map fold_left]; auto.
  cbn [ident nty ren_name]. unfold ren_ctx. rewrite (aset_ren (fun t : option sty => t)). apply IH.
Qed.

Lemma idents_ren (l : list name) : map ident (map rn l) = map r (map ident l).
Proof. rewrite !map_map. reflexivity. Qed.

Lemma proc_uses_ren p : proc_uses (ren_proc r rf p) = map rn (proc_uses p).
Proof.
  unfold proc_uses. cbn [pr_body pr_providers ren_proc]. rewrite free_names_ren, idents_ren.
  induction (free_names (pr_body p)) as [|n l IH]; cbn [map filter]; auto.
  cbn [ident ren_name]. rewrite str_mem_ren. destruct (str_mem (ident n) (map ident (pr_providers p))); cbn; now rewrite IH.
Qed.
Lemma all_providers_ren ps : all_providers (map (ren_proc r rf) ps) = map r (all_providers ps).
Proof.
  unfold all_providers. induction ps as [|p ps IH]; cbn [map flat_map]; auto.
  rewrite IH, map_app. cbn [pr_providers ren_proc]. now rewrite idents_ren.
Qed.
Lemma uses_ren ps : flat_map (fun p => map ident (proc_uses p)) (map (ren_proc r rf) ps) =
                    map r (flat_map (fun p => map ident (proc_uses p)) ps).
Proof.
  induction ps as [|p ps IH]; cbn [map flat_map]; auto.
  rewrite IH, map_app, proc_uses_ren. now rewrite idents_ren.
Qed.

Lemma provider_index_ren ps x : provider_index (map (ren_proc r rf) ps) (r x) = provider_index ps x.
Proof.
  unfold provider_index. generalize 0 (@None nat). induction ps as [|q ps IH]; intros n o; cbn [map]; auto.
  cbn [pr_providers ren_proc]. rewrite idents_ren, str_mem_ren. apply IH.
Qed.
Lemma proc_deps_ren ps p : proc_deps (map (ren_proc r rf) ps) (ren_proc r rf p) = proc_deps ps p.
Proof.
  unfold proc_deps. rewrite proc_uses_ren. induction (proc_uses p) as [|fn l IH]; cbn [map flat_map]; auto.
  cbn [ident ren_name]. now rewrite provider_index_ren, IH.
Qed.
Lemma deps_acyclic_ren ps : deps_acyclic (map (ren_proc r rf) ps) = deps_acyclic ps.
Proof.
  unfold deps_acyclic. rewrite map_length, map_map.
  assert (E : map (fun x => proc_deps (map (ren_proc r rf) ps) (ren_proc r rf x)) ps = map (proc_deps ps) ps)
    by (apply map_ext; intros; apply proc_deps_ren).
  now rewrite E.
Qed.

Lemma top_names_ren ps assumed : top_names (map (ren_proc r rf) ps) (map rn assumed) = ren_al rn r (top_names ps assumed).
Proof.
  unfold top_names.
  assert (P : flat_map (fun p => map (fun n => (ident n, set_nty n (pr_type p))) (pr_providers p)) (map (ren_proc r rf) ps)
            = ren_al rn r (flat_map (fun p => map (fun n => (ident n, set_nty n (pr_type p))) (pr_providers p)) ps)).
  { unfold ren_al. induction ps as [|p ps IH]; cbn [map flat_map]; auto. rewrite IH, map_app.
    cbn [pr_providers pr_type ren_proc]. rewrite !map_map. reflexivity. }
  rewrite P. clear P.
  assert (F1 : forall (l : list (string * name)) acc,
            fold_left (fun m kv => aset (fst kv) (snd kv) m) (ren_al rn r l) (ren_al rn r acc) =
            ren_al rn r (fold_left (fun m kv => aset (fst kv) (snd kv) m) l acc)).
  { induction l as [|[k v] l IH]; intros acc; cbn [fold_left]; auto.
    change (ren_al rn r ((k, v) :: l)) with ((r k, rn v) :: ren_al rn r l). cbn [fold_left fst snd].
    rewrite (aset_ren rn). apply IH. }
  assert (F2 : forall (l : list name) acc,
            fold_left (fun m a => aset (ident a) a m) (map rn l) (ren_al rn r acc) =
            ren_al rn r (fold_left (fun m a => aset (ident a) a m) l acc)).
  { induction l as [|a l IH]; intros acc; cbn [map fold_left]; auto.
    cbn [ident ren_name]. change (mkName (r (ident a)) (is_self a) (pol a) (nty a) (chan a)) with (rn a).
    rewrite (aset_ren rn). apply IH. }
  change (@nil (string * name)) with (ren_al rn r (@nil (string * name))) at 1.
  rewrite F1. apply F2.
Qed.

Lemma proc_ctx_ren ps assumed p :
  proc_ctx (map (ren_proc r rf) ps) (map rn assumed) (ren_proc r rf p) = rc (proc_ctx ps assumed p).
Proof.
  unfold proc_ctx. rewrite proc_uses_ren, top_names_ren, <- ctx_of_names_ren. f_equal.
  induction (proc_uses p) as [|fn l IH]; cbn [map flat_map]; auto.
  cbn [ident ren_name]. rewrite alookup_ren, IH. destruct (alookup (ident fn) (top_names ps assumed)); reflexivity.
Qed.

Lemma typed_name_ok_ren D n : typed_name_ok D n -> typed_name_ok D (rn n).
Proof. auto. Qed.

Lemma sig_of_ren D f s : sig_of D f s -> sig_of D (ren_fun r rf f) (ren_sig r rf s).
Proof. intros [E1 [E2 E3]]. split; [|split]; cbn; [now rewrite E1|now rewrite E2|exact E3]. Qed.

Section Prog.
Variable teq : tenv -> sty -> sty -> Prop.

Lemma FunOK_ren D Sg f : FunOK teq D Sg f -> FunOK teq D (map (ren_sig r rf) Sg) (ren_fun r rf f).
Proof.
  intros [N T [t [Ft [Wt [I Ty]]]]]. constructor; cbn [fn_params fn_type fn_body ren_fun].
  - rewrite idents_ren. now apply NoDup_ren.
  - rewrite Forall_forall in *. intros n Hn. apply in_map_iff in Hn. destruct Hn as [m [<- Hm]]. apply typed_name_ok_ren; auto.
  - exists t. repeat split; auto.
    + intros p tp Hp Np. apply in_map_iff in Hp. destruct Hp as [m [<- Hm]]. eapply I; eauto.
    + rewrite ctx_of_names_ren. apply (proj1 (typed_ren_all teq D Sg) _ None _ _ Ty).
Qed.

Lemma ProcOK_ren D Sg all assumed p : ProcOK teq D Sg all assumed p ->
  ProcOK teq D (map (ren_sig r rf) Sg) (map (ren_proc r rf) all) (map rn assumed) (ren_proc r rf p).
Proof.
  intros [[t [Pt [Wt [C Ty]]]]]. constructor. exists t. repeat split; auto.
  - cbn [pr_providers ren_proc]. now rewrite map_length.
  - rewrite proc_ctx_ren. apply (proj1 (typed_ren_all teq D Sg) _ None _ _ Ty).
Qed.

Lemma Forall_map_intro {A B} (P : A -> Prop) (Q : B -> Prop) (f : A -> B) l :
  (forall a, P a -> Q (f a)) -> Forall P l -> Forall Q (map f l).
Proof. intros H. induction 1; cbn; constructor; auto. Qed.

Theorem typing_equivariant_chan p : ProgOK teq p -> ProgOK teq (ren_program r rf p).
Proof.
  intros [pe [[ET [EF [EP EA]]] [SD NF [Sg [SO [FO PO]]] NA TA NP DJ U1 U2 U3 AC PN]]].
  exists (ren_program r rf pe). split.
  - repeat split; cbn [p_types p_funs p_procs p_assumed ren_program]; auto.
    + eapply Forall2_map; eauto using elab_fun_ren.
    + eapply Forall2_map; eauto using elab_proc_ren.
    + eapply Forall2_map; eauto using elab_name_ren.
  - constructor; cbn [p_types p_funs p_procs p_assumed ren_program]; auto.
    + rewrite map_map. cbn [fn_name ren_fun]. rewrite <- (map_map fn_name rf). now apply NoDup_renf.
    + exists (map (ren_sig r rf) Sg). repeat split.
      * clear - SO. induction SO; cbn; constructor; auto using sig_of_ren.
      * eapply Forall_map_intro; eauto using FunOK_ren.
      * eapply Forall_map_intro; eauto using ProcOK_ren.
    + rewrite idents_ren. now apply NoDup_ren.
    + eapply Forall_map_intro; eauto using typed_name_ok_ren.
    + rewrite all_providers_ren. now apply NoDup_ren.
    + rewrite all_providers_ren, idents_ren. intros x Hx Ha. apply in_map_iff in Hx. destruct Hx as [y [<- Hy]].
      apply (proj1 (In_ren _ _)) in Ha. exact (DJ _ Hy Ha).
    + rewrite uses_ren. now apply NoDup_ren.
    + rewrite uses_ren, all_providers_ren, idents_ren. intros x Hx. apply in_map_iff in Hx. destruct Hx as [y [<- Hy]].
      rewrite !In_ren. auto.
    + rewrite uses_ren, idents_ren. intros x Hx. apply in_map_iff in Hx. destruct Hx as [y [<- Hy]].
      rewrite In_ren. auto.
    + now rewrite deps_acyclic_ren.
    + intros q n Hq Hn [S E]. apply in_map_iff in Hq. destruct Hq as [q0 [<- Hq0]].
      cbn [pr_providers ren_proc] in Hn. apply in_map_iff in Hn. destruct Hn as [n0 [<- Hn0]].
      cbn in S, E. rewrite <- r_empty in E. apply r_inj in E. exact (PN q0 n0 Hq0 Hn0 (conj S E)).
Qed.
End Prog.
End Renaming.

(* ---------------------------------------------------------------- the converse, for bijective renamings *)
Section Inverse.
Variables r r' rf rf' : string -> string.
Hypothesis r'_r : forall x, r' (r x) = x.
Hypothesis rf'_rf : forall x, rf' (rf x) = x.

Lemma ren_name_inv n : ren_name r' (ren_name r n) = n.
Proof. destruct n. unfold ren_name. cbn. now rewrite r'_r. Qed.
Lemma map_ren_name_inv l : map (ren_name r') (map (ren_name r) l) = l.
Proof. rewrite map_map. rewrite <- (map_id l) at 2. apply map_ext. apply ren_name_inv. Qed.

Lemma ren_form_inv_all :
  (forall f, ren_form r' rf' (ren_form r rf f) = f) /\ (forall b, ren_branches r' rf' (ren_branches r rf b) = b).
Proof.
  apply form_branches_ind; intros; cbn [ren_form ren_branches];
    rewrite ?ren_name_inv, ?map_ren_name_inv, ?rf'_rf; congruence.
Qed.

Lemma ren_program_inv p : ren_program r' rf' (ren_program r rf p) = p.
Proof.
  destruct p as [ps asm fs ts]. unfold ren_program. cbn. f_equal.
  - rewrite map_map. rewrite <- (map_id ps) at 2. apply map_ext. intros [b pr t]. unfold ren_proc. cbn.
    now rewrite (proj1 ren_form_inv_all), map_ren_name_inv.
  - apply map_ren_name_inv.
  - rewrite map_map. rewrite <- (map_id fs) at 2. apply map_ext. intros [n ps' b t e]. unfold ren_fun. cbn.
    rewrite (proj1 ren_form_inv_all), map_ren_name_inv, rf'_rf. f_equal. destruct e; cbn; auto. now rewrite ren_name_inv.
Qed.
End Inverse.

(* a bijection on identifiers, given with its inverse *)
Definition bijection (r r' : string -> string) : Prop := (forall x, r' (r x) = x) /\ (forall x, r (r' x) = x).

Lemma bijection_inj (r r' : string -> string) : (forall x, r' (r x) = x) -> forall a b, r a = r b -> a = b.
Proof. intros H a b E. rewrite <- (H a), <- (H b). now rewrite E. Qed.

(* C14, verdict half, on the declarative judgement: channel identifiers by r, function names by rf *)
Theorem typing_equivariant teq r r' rf rf' p : bijection r r' -> bijection rf rf' -> r "" = "" ->
  (ProgOK teq p <-> ProgOK teq (ren_program r rf p)).
Proof.
  intros [H1 H2] [F1 F2] E0.
  assert (E0' : r' "" = "") by (rewrite <- E0 at 1; apply H1).
  split.
  - apply typing_equivariant_chan; auto; eapply bijection_inj; eauto.
  - intros OK. rewrite <- (ren_program_inv r r' rf rf' H1 F1 p).
    apply typing_equivariant_chan; auto; eapply bijection_inj; eauto.
Qed.
