(* SrcAll.v — the source test `all_src_b` of proofs/DeterminismAll.v (no empty case, no droppable
   forward form) holds of every parsed, accepted program:
     * `typed_nec_all` / `accepted_nonempty_cases`: an accepted program has no empty case — choice types
       are non-empty (prog_syn_ok) and the checker demands a branch for every label of the unfolded
       choice type (side condition of the case rules of spec/Typing.v, to which the checker is sound);
     * `parse_nofd`: the parser never produces a droppable forward (semantic action 24 builds
       `FFwd a b false`; the generic LR invariant of proofs/LRInvariant.v, as in proofs/ParseRaw.v). *)
From stdpp Require Import gmap strings sorting.
Require Import Grits.Base Grits.ModeDefs Grits.Modes Grits.STypes Grits.Forms Grits.Subst Grits.Infer
               Grits.Tokens Grits.Scan Grits.gen.LRTables Grits.gen.LRCert Grits.LR Grits.Actions Grits.Expand
               Grits.TcDeps Grits.Tc Grits.TcTop Grits.EqualWF Grits.spec.SynOk Grits.spec.Typing
               Grits.proofs.TcLemmas Grits.proofs.TypingSound Grits.proofs.TypingSoundTop Grits.proofs.TeqMono
               Grits.proofs.ScanProofs Grits.proofs.ScanLabels
               Grits.proofs.LRCheck Grits.proofs.LRProof Grits.proofs.LRCertInst
               Grits.proofs.LRSound Grits.proofs.LRSoundInst Grits.proofs.LRInvariant Grits.proofs.ActionsTyped
               Grits.proofs.ParseSynOk Grits.proofs.ParseRaw
               Grits.proofs.LinBridge Grits.proofs.InvAll Grits.proofs.InitAccept Grits.proofs.DeterminismAll.

(* ------------------------------------------------------------------ no empty case in a derivable body *)
Lemma nec_leaf f : has_continuation f = false -> nec f = true.
Proof. destruct f; simpl; intros H; try discriminate H; reflexivity. Qed.

Lemma labels_nonempty bs (b : Forms.branches) : brs_len bs <> 0%nat -> incl (brs_labels bs) (br_labels b) -> b <> BrNil.
Proof.
  intros Hn Hi ->. destruct bs as [|l a r]; [apply Hn; reflexivity|]. simpl in Hi. apply (Hi l). left. reflexivity.
Qed.
Lemma good_len D bs m : (good D (TPlus bs m) \/ good D (TWith bs m)) -> brs_len bs <> 0%nat.
Proof.
  intros [[_ S]|[_ S]]; simpl in S; apply andb_true_iff in S; destruct S as [S _];
    apply negb_true_iff, Nat.eqb_neq in S; exact S.
Qed.
Lemma nec_case fr b : b <> BrNil -> nec_brs b = true -> nec (FCase fr b) = true.
Proof. intros Hb H. simpl. destruct b; [contradiction|exact H]. Qed.

Section Nec.
Variable teq : tenv -> sty -> sty -> Prop.
Variable D : tenv.
Variable Sg : sigma.
Hypothesis HD : genv D.
Hypothesis HSg : gsigma D Sg.

Ltac gsat := repeat match goal with
  | Wg : gctx D ?g, H : has ?g ?n ?t |- _ => note (gctx_has D _ _ _ Wg H)
  | Wg : gctx D ?g, H : has ?g ?n ?t |- _ => note (gctx_without D _ n Wg)
  | W : good D ?t, H : head D ?t ?h |- _ => note (good_head D HD _ _ H W)
  | W : good D (TTensor _ _ _) |- _ => note (proj1 (good_tensor D _ _ _ W))
  | W : good D (TTensor _ _ _) |- _ => note (proj2 (good_tensor D _ _ _ W))
  | W : good D (TLolli _ _ _) |- _ => note (proj1 (good_lolli D _ _ _ W))
  | W : good D (TLolli _ _ _) |- _ => note (proj2 (good_lolli D _ _ _ W))
  | W : good D (TUp _ _ _) |- _ => note (good_up D _ _ _ W)
  | W : good D (TDown _ _ _) |- _ => note (good_down D _ _ _ W)
  | W : good D (TPlus ?bs _), F : find_br _ ?bs = Some _ |- _ => note (good_plus D _ _ _ _ W F)
  | W : good D (TWith ?bs _), F : find_br _ ?bs = Some _ |- _ => note (good_with D _ _ _ _ W F)
  | W : gbrs D ?bs, F : find_br _ ?bs = Some _ |- _ => note (W _ _ F)
  end.
Ltac prep := cbn [form_syn branches_syn] in *; andbs; gsat.
Ltac fin := eauto 6 using gctx_bind, gctx_without, gctx_nil.
Ltac ih := match goal with IH : _ |- nec ?k = true => apply IH; fin | IH : _ |- nec_brs ?k = true => apply IH; fin end.

Theorem typed_nec_all :
  (forall g sh A f, Typed teq D Sg g sh A f ->
     gctx D g -> good D A -> form_syn f = true -> nec f = true) /\
  (forall g bs b, TypedBrsR teq D Sg g bs b ->
     gctx D g -> gbrs D bs -> branches_syn b = true -> nec_brs b = true) /\
  (forall g sh A bs b, TypedBrsL teq D Sg g sh A bs b ->
     gctx D g -> good D A -> gbrs D bs -> branches_syn b = true -> nec_brs b = true).
Proof.
  apply Typed_mutind; intros; prep; try reflexivity.
  - (* TensorL *) simpl. ih.
  - (* LolliR *) simpl. ih.
  - (* PlusL *)
    apply nec_case; [eapply labels_nonempty; [eapply good_len; left; eauto|eauto]|].
    match goal with IH : _ -> _ -> _ -> _ -> nec_brs _ = true |- _ => apply IH; fin end.
    intros l a F. eapply good_plus; eauto.
  - (* WithR *)
    apply nec_case; [eapply labels_nonempty; [eapply good_len; right; eauto|eauto]|].
    match goal with IH : _ -> _ -> _ -> nec_brs _ = true |- _ => apply IH; fin end.
    intros l a F. eapply good_with; eauto.
  - (* OneL *) simpl. ih.
  - (* DownL *) simpl. ih.
  - (* UpR *) simpl. ih.
  - (* cut, call body *)
    match goal with SL : sig_lookup Sg _ = Some ?sg, Ft : fs_type ?sg = Some ?ft |- _ =>
      pose proof (proj1 (HSg _ _ SL) _ Ft) as Gft end. gsat.
    match goal with SP : split_ctx D _ _ _ _ _ |- _ =>
      destruct (split_ctx_good D HD _ _ _ _ _ SP ltac:(assumption) (gctx_nil D)) as [Ggl Ggr] end.
    simpl. ih.
  - (* cut, axiom body *)
    match goal with SP : split_ctx D _ _ _ _ _ |- _ =>
      destruct (split_ctx_good D HD _ _ _ _ _ SP ltac:(assumption) (gctx_nil D)) as [Ggl Ggr] end.
    assert (Gx1 : good D xt1).
    { split; auto. eapply add_missing_syn; eauto.
      match goal with S : name_syn x = true, Nx : nty x = Some _ |- _ => unfold name_syn in S; rewrite Nx in S; exact S end. }
    gsat. cbn [nec]. rewrite (nec_leaf body) by assumption. simpl. ih.
  - (* drop *) simpl. ih.
  - (* split *) simpl. ih.
  - (* print *) simpl. ih.
  - (* brsR cons *) simpl. apply andb_true_iff. split; ih.
  - (* brsL cons *) simpl. apply andb_true_iff. split; ih.
Qed.
End Nec.

(* ------------------------------------------------------------------ programs *)
Lemma Forall2_In_l' {A B} (R : A -> B -> Prop) l1 l2 x : Forall2 R l1 l2 -> In x l1 -> exists y, In y l2 /\ R x y.
Proof.
  induction 1 as [|a b r r' Rab _ IH]; simpl; [tauto|]. intros [<-|H]; [eauto|].
  destruct (IH H) as [y [Hy Ry]]. eauto.
Qed.

Theorem accepted_nonempty_cases p p' :
  typecheck p = Accept p' -> prog_syn_ok p = true -> nec_src_b p = true.
Proof.
  intros Ha PS.
  destruct (tc_sound (fun _ _ _ => True) (fun _ _ _ _ _ _ _ => I) p p' Ha) as (pe & EL & OK).
  pose proof (elab_syn _ _ EL PS) as S.
  destruct EL as (ET & EF & EP & EA).
  destruct OK as [SD NF [Sg [SO [FO PO]]] NA TA NP DJ U1 U2 U3 AC PN].
  unfold prog_syn_ok in S.
  apply andb_true_iff in S. destruct S as [S SA]. apply andb_true_iff in S. destruct S as [S SP].
  apply andb_true_iff in S. destruct S as [SE SF].
  pose proof (genv_intro _ SD SE) as HD.
  rewrite forallb_forall in SF, SP, SA. rewrite Forall_forall in FO, PO, TA.
  assert (GF : forall f, In f (p_funs pe) ->
            (forall t, fn_type f = Some t -> good (p_types pe) t) /\ Forall (gname (p_types pe)) (fn_params f) /\
            form_syn (fn_body f) = true).
  { intros f Hf. destruct (FO _ Hf) as [N T [t [Ft [Wt _]]]]. specialize (SF _ Hf). unfold fun_syn in SF.
    apply andb_true_iff in SF. destruct SF as [SF Sb]. apply andb_true_iff in SF. destruct SF as [St Sp].
    rewrite Ft in St. cbn in St. split; [|split]; auto.
    - intros t1 E. rewrite Ft in E. inversion E; subst. split; auto.
    - rewrite forallb_forall in Sp. rewrite Forall_forall in T. apply Forall_forall. intros n Hn. apply gname_intro; auto. }
  assert (GS : gsigma (p_types pe) Sg).
  { intros fn sg SL. apply sig_lookup_In in SL.
    destruct (Forall2_In_r _ _ _ _ SO SL) as [f [Hf [_ [Ep [t [h [Ft [Hh Es]]]]]]]].
    destruct (GF _ Hf) as [G1 [G2 _]]. split.
    - intros ft E. rewrite Es in E. inversion E; subst. eapply good_head; eauto.
    - rewrite Ep. eapply Forall_impl; [|exact G2]. intros n [t0 [Nt Gt]] tp E. rewrite Nt in E. inversion E; subst. exact Gt. }
  assert (GA : Forall (gname (p_types pe)) (p_assumed pe)).
  { apply Forall_forall. intros n Hn. apply gname_intro; auto. }
  assert (GP : Forall (fun q => forall n, In n (pr_providers q) -> gname (p_types pe) (set_nty n (pr_type q))) (p_procs pe)).
  { apply Forall_forall. intros q Hq n _. destruct (PO _ Hq) as [[t [Pt [Wt _]]]]. specialize (SP _ Hq).
    unfold proc_syn in SP. andbs. exists t. rewrite Pt in *. cbn. repeat split; auto. }
  pose proof (top_names_good _ _ _ GP GA) as GT.
  (* bodies of the elaborated program *)
  assert (NFe : forall f, In f (p_funs pe) -> nec (fn_body f) = true).
  { intros f Hf. destruct (FO _ Hf) as [N T [t [Ft [Wt [I Ty]]]]]. destruct (GF _ Hf) as [G1 [G2 G3]].
    eapply (proj1 (typed_nec_all _ _ Sg HD GS)); eauto. apply ctx_of_names_good; auto. }
  assert (NPe : forall q, In q (p_procs pe) -> nec (pr_body q) = true).
  { intros q Hq. destruct (PO _ Hq) as [[t [Pt [Wt [C Ty]]]]]. specialize (SP _ Hq). unfold proc_syn in SP. andbs.
    eapply (proj1 (typed_nec_all _ _ Sg HD GS)); eauto.
    - now apply proc_ctx_good.
    - rewrite Pt in *. split; auto. }
  (* elaboration keeps the bodies *)
  unfold nec_src_b. apply andb_true_iff. split; apply forallb_forall.
  - intros f Hf. destruct (Forall2_In_l' _ _ _ _ EF Hf) as [f' [Hf' [t [t' [ps' [_ [_ [_ ->]]]]]]]].
    apply (NFe _ Hf').
  - intros q Hq. destruct (Forall2_In_l' _ _ _ _ EP Hq) as [q' [Hq' [t [t' [_ [_ ->]]]]]].
    apply (NPe _ Hq').
Qed.

(* ------------------------------------------------------------------ the parser never produces a droppable forward *)
Local Open Scope Z_scope.
Definition stmt_nofd (s : stmt) : bool :=
  match s with
  | SProc _ _ body => nofd body
  | SFun f => nofd (fn_body f)
  | _ => true
  end.

Definition nofdv (v : sval) : bool :=
  match v with
  | VStmts l => forallb stmt_nofd l
  | VStmt s => stmt_nofd s
  | VForm f => nofd f
  | VBranches b => nofd_brs b
  | _ => true
  end.

Definition GN (sym : Z) (v : sval) : Prop := shape_of v = sym_shape sym /\ nofdv v = true.

Fixpoint nofds (vals : list sval) : bool :=
  match vals with [] => true | v :: vs => nofdv v && nofds vs end.

Lemma Forall2_GN syms vals : Forall2 GN syms vals ->
  map shape_of vals = map sym_shape syms /\ nofds vals = true.
Proof.
  induction 1 as [|s v ss vs [Hs Hg] _ [IH1 IH2]]; [split; reflexivity|].
  cbn. rewrite Hs, IH1, Hg, IH2. split; reflexivity.
Qed.

Lemma nofd_brs_snoc bs l n k : nofd_brs (br_snoc bs l n k) = nofd_brs bs && nofd k.
Proof.
  induction bs as [|l' p' k' r IH]; cbn [br_snoc nofd_brs].
  - rewrite andb_true_r. reflexivity.
  - rewrite IH. rewrite !andb_assoc. reflexivity.
Qed.

Lemma reduce_nofd : forall p vals, 0 < p < 76 ->
  map shape_of vals = map sym_shape (g_rhs p) -> nofds vals = true ->
  forall nv, reduce_action p vals = Some nv -> nofdv nv = true.
Proof.
  intros p vals Hp Hs Hg nv Hnv. apply prod_range in Hp. cbn [seq map Z.of_nat Pos.of_succ_nat Pos.succ] in Hp.
  repeat (destruct Hp as [<- | Hp];
          [ match type of Hs with _ = map sym_shape (g_rhs ?q) =>
              let r := eval vm_compute in (map sym_shape (g_rhs q)) in
              change (map sym_shape (g_rhs q)) with r in Hs
            end;
            peel Hs; cbn [nofds nofdv] in Hg; andbs;
            cbn in Hnv; inversion Hnv; subst nv; clear Hnv;
            cbn [nofdv stmt_nofd nofd nofd_brs forallb fn_body negb];
            rewrite ?nofd_brs_snoc;
            repeat match goal with
                   | H : ?x = true |- context [?x] => rewrite H
                   end;
            cbn [andb negb]; try reflexivity; try assumption
          | ]).
  contradiction.
Qed.

Lemma GN_reduce : forall p vals nv, 0 < p < lenZ tR2 -> Forall2 GN (grhs p) vals ->
  reduce_action p vals = Some nv -> GN (lhs p) nv.
Proof.
  intros p vals nv Hp HF Hra. rewrite tR2_len in Hp.
  destruct (Forall2_GN _ _ HF) as [Hs Hg]. change (grhs p) with (g_rhs p) in Hs.
  destruct (reduce_typed p vals Hp Hs) as [nv' [Hra' [Hsh _]]].
  rewrite Hra in Hra'. inversion Hra'; subst nv'. split; [exact Hsh|].
  exact (reduce_nofd p vals Hp Hs Hg nv Hra).
Qed.

Lemma GN_token : forall tv, GN (tokz tv) (tok_val tv).
Proof. intros [k lx]. unfold GN, tokz, tok_val. cbn [fst snd shape_of nofdv]. split; [destruct k; reflexivity|reflexivity]. Qed.

Theorem parse_statements_nofd : forall s l, parse_statements s = POk l -> forallb stmt_nofd l = true.
Proof.
  intros s l H. unfold parse_statements in H.
  destruct (scan_all s) as [toks|] eqn:Hs; [|discriminate].
  unfold parse_tokens in H.
  destruct (run sval tok_val reduce_action (lr_fuel (length toks)) [(0, VUnit)] toks) as [v | | p |] eqn:Hrun; try discriminate.
  destruct (has_illegal toks); [discriminate|].
  destruct v; try discriminate. inversion H; subst l0.
  assert (Hin : input_ok sval tok_val GN toks).
  { unfold input_ok. apply Forall_forall. intros tv _. apply GN_token. }
  destruct (parse_inv sval tok_val reduce_action GN GN_reduce _ _ _ _ Hin Hrun) as [_ Hg].
  exact Hg.
Qed.
Local Close Scope Z_scope.

Lemma expand1_nofd : forall l procs assumed funs tys procs' assumed' funs' tys',
  forallb stmt_nofd l = true -> forallb (fun pd => nofd (pr_body pd)) procs = true ->
  forallb (fun fd => nofd (fn_body fd)) funs = true ->
  Expand.expand1 l procs assumed funs tys = POk (procs', assumed', funs', tys') ->
  forallb (fun pd => nofd (pr_body pd)) procs' = true /\ forallb (fun fd => nofd (fn_body fd)) funs' = true.
Proof.
  induction l as [|s r IH]; intros procs assumed funs tys procs' assumed' funs' tys' Hl Hp Hf H.
  - cbn in H. inversion H; subst. auto.
  - cbn [forallb] in Hl. apply andb_true_iff in Hl. destruct Hl as [Hs Hr]. cbn [Expand.expand1] in H.
    destruct s as [provs ty body | f | x t | ns | fname].
    + cbn [stmt_nofd] in Hs.
      assert (Hgo : forall pd, nofd (pr_body pd) = true ->
                Expand.expand1 r (procs ++ [pd]) assumed funs tys = POk (procs', assumed', funs', tys') ->
                forallb (fun pd => nofd (pr_body pd)) procs' = true /\ forallb (fun fd => nofd (fn_body fd)) funs' = true).
      { intros pd Hpd Hq. eapply IH; [exact Hr | | exact Hf | exact Hq]. rewrite forallb_snoc', Hp, Hpd. reflexivity. }
      destruct provs as [|p [|q ps]].
      * (match type of H with context [if ?c then _ else _] => destruct c; [discriminate|] | _ => idtac end).
        eapply Hgo; [|exact H]. exact Hs.
      * eapply Hgo; [|exact H]. cbn [pr_body]. rewrite nofd_subst. exact Hs.
      * (match type of H with context [if ?c then _ else _] => destruct c; [discriminate|] | _ => idtac end).
        eapply Hgo; [|exact H]. exact Hs.
    + eapply IH; [exact Hr | exact Hp | | exact H]. rewrite forallb_snoc', Hf. cbn [stmt_nofd] in Hs.
      unfold expand_fun. destruct (fn_explicit f); cbn [fn_body]; rewrite ?nofd_subst, Hs; reflexivity.
    + eapply IH; [exact Hr | exact Hp | exact Hf | exact H].
    + eapply IH; [exact Hr | exact Hp | exact Hf | exact H].
    + eapply IH; [exact Hr | exact Hp | exact Hf | exact H].
Qed.

Lemma expand_exec_nofd : forall l funs count procs procs',
  forallb (fun pd => nofd (pr_body pd)) procs = true -> expand_exec l funs count procs = POk procs' ->
  forallb (fun pd => nofd (pr_body pd)) procs' = true.
Proof.
  induction l as [|s r IH]; intros funs count procs procs' Hp H.
  - cbn in H. inversion H; subst. exact Hp.
  - cbn [expand_exec] in H. destruct s as [provs ty body | f | x t | ns | fname];
      try (eapply IH; [exact Hp | exact H]).
    destruct (get_function funs fname 0) as [fd|] eqn:Eg; [|discriminate].
    eapply IH; [|exact H]. rewrite forallb_snoc', Hp. reflexivity.
Qed.

Theorem parse_nofd : forall s p, parse_string s = POk p -> nofd_src_b p = true.
Proof.
  intros s p H. unfold parse_string in H.
  destruct (parse_statements s) as [l| | |] eqn:Hp; try discriminate.
  pose proof (parse_statements_nofd s l Hp) as Hl. unfold expand in H.
  destruct (Expand.expand1 l [] [] [] []) as [[[[procs assumed] funs] tys]| | |] eqn:E1; try discriminate.
  destruct (expand_exec l funs 0 procs) as [procs'| | |] eqn:E2; try discriminate.
  destruct (set_modality_typedefs tys) as [tys'| |] eqn:E3; try discriminate.
  inversion H; subst p.
  destruct (expand1_nofd l [] [] [] [] _ _ _ _ Hl eq_refl eq_refl E1) as [Hpr Hf].
  pose proof (expand_exec_nofd _ _ _ _ _ Hpr E2) as Hp'.
  unfold nofd_src_b. cbn [p_funs p_procs]. rewrite Hf, Hp'. reflexivity.
Qed.

(* ------------------------------------------------------------------ the source test is a theorem *)
Theorem all_src_parsed txt p p' :
  parse_string txt = POk p -> typecheck p = Accept p' -> all_src_b p = true.
Proof.
  intros Hp Ha. unfold all_src_b.
  rewrite (accepted_nonempty_cases p p' Ha (parse_syn_ok _ _ Hp)), (parse_nofd _ _ Hp). reflexivity.
Qed.
