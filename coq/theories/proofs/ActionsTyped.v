(* ActionsTyped.v — the value stack of the driver is well-shaped: every semantic value has the
   shape that the grammar symbol of its state dictates (the %type declarations of parser.y).
   Consequences:
   - C11: the hand-written semantic actions (Actions.reduce_action, a partial function on a sum
     type) never meet a value of the wrong shape: LRActionError is unreachable, and the accepted
     value is a list of statements: parse_statements returns POk or PErr, never PPanic.
   - C12: the length of the statement list is the number of reductions by the productions that
     introduce a declaration (2: a bare expression as whole program; 4-13: statements). *)
Require Import Grits.Base Grits.ModeDefs Grits.Modes Grits.STypes Grits.Forms Grits.Tokens Grits.Scan
               Grits.gen.LRTables Grits.gen.LRCert Grits.LR Grits.Actions Grits.Expand
               Grits.proofs.ScanProofs Grits.proofs.LRCheck Grits.proofs.LRProof Grits.proofs.LRCertInst
               Grits.proofs.LRSound Grits.proofs.LRSoundInst Grits.proofs.ParseTotal.
Local Open Scope Z_scope.

Inductive shape : Type :=
| ShTok | ShStmts | ShStmt | ShForm | ShName | ShNames | ShBranches | ShSty | ShIty | ShIopts | ShPol | ShUnit.

Definition shape_of (v : sval) : shape :=
  match v with
  | VTok _ => ShTok | VStmts _ => ShStmts | VStmt _ => ShStmt | VForm _ => ShForm | VName _ => ShName
  | VNames _ => ShNames | VBranches _ => ShBranches | VSty _ => ShSty | VIty _ => ShIty | VIopts _ => ShIopts
  | VPol _ => ShPol | VUnit => ShUnit
  end.

(* shape of the value of a nonterminal (goyacc's numbering: gen/LRCert.tNtNames lists the names) *)
Definition nt_shape (n : Z) : shape :=
  match n with
  | 1 => ShStmts | 2 | 3 | 4 | 5 | 6 => ShStmt | 7 => ShForm | 8 | 9 => ShName
  | 10 | 11 | 12 | 13 | 14 => ShNames | 15 => ShTok | 16 => ShBranches | 17 => ShSty | 18 => ShIopts
  | 19 => ShIty | 20 => ShPol | 21 | 22 => ShStmts
  | _ => ShUnit
  end.
Definition sym_shape (x : Z) : shape := if 0 <? x then ShTok else nt_shape (- x).

Definition g_rhs (p : Z) : list Z := rhs tRhs p.

(* size of a value = number of declarations it carries *)
Definition vsize (v : sval) : nat := match v with VStmts l => length l | _ => O end.
Definition decl_prod (p : Z) : nat :=
  if (p =? 2) || ((4 <=? p) && (p <=? 13)) then 1%nat else 0%nat.
Definition vsum (l : list sval) : nat := fold_right (fun v acc => vsize v + acc)%nat O l.

Ltac peel Hs :=
  lazymatch type of Hs with
  | map shape_of ?vs = [] => destruct vs; [clear Hs | discriminate Hs]
  | map shape_of ?vs = _ :: _ =>
    let v := fresh "v" in let vs' := fresh "vs" in
    destruct vs as [|v vs']; [discriminate Hs|]; cbn [map] in Hs;
    let H1 := fresh "Hv" in let H2 := fresh "Hs" in
    injection Hs as H1 H2; destruct v; try discriminate H1; clear H1; peel H2
  end.

Lemma prod_range p : 0 < p < 76 -> In p (map Z.of_nat (seq 1 75)).
Proof. intros H. apply in_map_iff. exists (Z.to_nat p). split; [lia|]. apply in_seq. lia. Qed.

(* every semantic action is defined on values of the shapes of its right-hand side, returns a value
   of the shape of its left-hand side, and adds exactly decl_prod p declarations *)
Lemma reduce_typed : forall p vals, 0 < p < 76 ->
  map shape_of vals = map sym_shape (g_rhs p) ->
  exists nv, reduce_action p vals = Some nv /\ shape_of nv = sym_shape (lhs p) /\
             vsize nv = (vsum vals + decl_prod p)%nat.
Proof.
  intros p vals Hp Hs. apply prod_range in Hp. cbn [seq map Z.of_nat Pos.of_succ_nat Pos.succ] in Hp.
  repeat (destruct Hp as [<- | Hp];
          [ match type of Hs with _ = map sym_shape (g_rhs ?q) =>
              let r := eval vm_compute in (map sym_shape (g_rhs q)) in
              change (map sym_shape (g_rhs q)) with r in Hs end;
            peel Hs; eexists; split; [reflexivity|]; split; [reflexivity | cbn; lia]
          | ]).
  contradiction.
Qed.

(* ---- the invariant ---- *)
Definition entry_typed (sv : Z * sval) : Prop := shape_of (snd sv) = sym_shape (chk (fst sv)).
(* the stack is a bottom entry (state 0, dummy value) under well-shaped entries *)
Definition stack_typed (stk : list (Z * sval)) : Prop :=
  exists upper, stk = upper ++ [(0, VUnit)] /\ Forall entry_typed upper.

Local Notation step := (step sval tok_val reduce_action).
Local Notation run := (run sval tok_val reduce_action).
Local Notation path stk := (is_path tE (map fst stk)).

Lemma tR2_len : lenZ tR2 = 76.
Proof. reflexivity. Qed.

Lemma Forall_firstn {A} (P : A -> Prop) l k : Forall P l -> Forall P (firstn k l).
Proof. revert l; induction k; intros l H; cbn; [constructor|]. destruct l; [constructor|]. inversion H; subst. constructor; auto. Qed.
Lemma Forall_skipn {A} (P : A -> Prop) l k : Forall P l -> Forall P (skipn k l).
Proof. revert l; induction k; intros l H; cbn; [exact H|]. destruct l; [constructor|]. inversion H; subst. auto. Qed.

Lemma typed_shapes l : Forall entry_typed l ->
  map shape_of (rev (map snd l)) = map sym_shape (map chk (rev (map fst l))).
Proof.
  intros H. rewrite <- !map_rev. rewrite !map_map. apply map_ext_in. intros sv Hin.
  apply in_rev in Hin. rewrite Forall_forall in H. exact (H sv Hin).
Qed.

(* what one step does to a well-shaped stack *)
Lemma step_typed stk inp :
  path stk -> stack_typed stk ->
  match step stk inp with
  | StCont _ stk' inp' => stack_typed stk' /\
      (vsum (map snd stk') = vsum (map snd stk) +
         match stk with
         | (st, _) :: _ => match action st (lookahead inp) with AReduce p => decl_prod p | _ => 0%nat end
         | [] => 0%nat
         end)%nat
  | StBadAction _ _ => False
  | StAccept _ v => exists l, map snd stk = [VStmts l; VUnit] /\ v = VStmts l
  | StReject _ => True
  end.
Proof.
  intros Hp [upper [Hstk Hty]]. unfold LR.step.
  destruct stk as [|[st v] rest]; [exact I|].
  assert (Hst : in_states st = true) by (eapply (is_path_top_in_states tE wIn wTop certC cert_ok); exact Hp).
  destruct (sound_at tE tRhs sound_ok st (lookahead inp) Hst (lookahead_in inp)) as [Hpos Hs].
  destruct (check_state_at tE wIn wTop certC cert_ok st (lookahead inp) Hst (lookahead_in inp)) as [_ Hck].
  destruct (action st (lookahead inp)) as [t | p | | ] eqn:Hact.
  - (* shift *)
    destruct inp as [|a inp0]; [exact I|]. split.
    + exists ((t, tok_val a) :: upper). split; [rewrite Hstk; reflexivity|].
      constructor; [|exact Hty]. unfold entry_typed. cbn [fst snd]. rewrite Hs. unfold sym_shape.
      apply Z.ltb_lt in Hpos. rewrite Hpos. reflexivity.
    + cbn [map snd vsum fold_right]. unfold tok_val. cbn [vsize]. lia.
  - (* reduce *)
    destruct Hs as [Hppos Hs]. destruct Hck as [Hrl _].
    assert (Hprange : 0 < p < 76).
    { unfold rlen_ok in Hrl. destruct (nth_c tR2 p) as [k0|] eqn:En; [|discriminate].
      apply nth_c_Some in En. rewrite tR2_len in En. lia. }
    set (k := rlen p) in *.
    destruct (skipn k ((st, v) :: rest)) as [|[s0 w0] below] eqn:Hsk; [exact I|].
    assert (HskZ : skipn k (map fst ((st, v) :: rest)) = s0 :: map fst below) by (rewrite skipn_map, Hsk; reflexivity).
    assert (Hlen : (k < length (map fst ((st, v) :: rest)))%nat).
    { assert (Hl : (length (s0 :: map fst below) = length (map fst ((st, v) :: rest)) - k)%nat) by (rewrite <- HskZ; apply skipn_length).
      cbn [length] in *. lia. }
    pose proof (bpaths_complete tE k st (map fst rest) Hp Hlen) as Hin.
    destruct (Hs _ Hin) as [Hrhs Hgoto].
    change (st :: map fst rest) with (map fst ((st, v) :: rest)) in Hrhs, Hgoto.
    assert (Hpth : firstn (S k) (map fst ((st, v) :: rest)) = firstn k (map fst ((st, v) :: rest)) ++ [s0])
      by (eapply firstn_snoc; exact HskZ).
    rewrite Hpth in Hgoto. rewrite rev_app_distr in Hgoto. cbn [rev app] in Hgoto.
    unfold syms_of in Hrhs. rewrite firstn_firstn in Hrhs. replace (Nat.min k (S k)) with k in Hrhs by lia.
    (* the k topmost entries are in the typed part *)
    assert (Hku : (k <= length upper)%nat).
    { rewrite map_length in Hlen. rewrite Hstk, app_length in Hlen. cbn in Hlen. lia. }
    assert (Hf : firstn k ((st, v) :: rest) = firstn k upper).
    { rewrite Hstk. rewrite firstn_app. replace (k - length upper)%nat with 0%nat by lia. cbn. apply app_nil_r. }
    assert (Hs2 : skipn k ((st, v) :: rest) = skipn k upper ++ [(0, VUnit)]).
    { rewrite Hstk. rewrite skipn_app. replace (k - length upper)%nat with 0%nat by lia. reflexivity. }
    pose proof (typed_shapes (firstn k upper) (Forall_firstn _ _ k Hty)) as Hsh.
    rewrite <- Hf in Hsh. rewrite <- (firstn_map fst) in Hsh. rewrite Hrhs in Hsh.
    destruct (reduce_typed p (rev (map snd (firstn k ((st, v) :: rest)))) Hprange Hsh) as [nv [Hra [Hnv Hsz]]].
    rewrite Hra. split.
    + rewrite Hsk in Hs2.
      exists ((goto s0 p, nv) :: skipn k upper). split; [cbn [app]; rewrite <- Hs2; reflexivity|].
      constructor; [|apply Forall_skipn; exact Hty].
      unfold entry_typed. cbn [fst snd]. rewrite Hnv, Hgoto. reflexivity.
    + (* declarations: the values below are untouched, the k topmost are replaced by nv *)
      assert (Hsplit : map snd ((st, v) :: rest) = map snd (firstn k ((st, v) :: rest)) ++ map snd ((s0, w0) :: below)).
      { rewrite <- Hsk, <- map_app, firstn_skipn. reflexivity. }
      assert (Hvs : forall a b, vsum (a ++ b) = (vsum a + vsum b)%nat).
      { unfold vsum. induction a as [|x a IH]; intros b0; cbn [app fold_right]; [reflexivity|]. rewrite IH. lia. }
      assert (Hvr : forall a, vsum (rev a) = vsum a).
      { induction a as [|x a IH]; cbn [rev]; [reflexivity|]. rewrite Hvs, IH. unfold vsum. cbn [fold_right]. lia. }
      rewrite Hsplit, Hvs. cbn [map snd] in *. unfold vsum at 1. cbn [fold_right]. fold (vsum (map snd below)). rewrite Hsz, Hvr.
      unfold vsum at 4. cbn [fold_right]. fold (vsum (map snd below)). lia.
  - exact I.
  - (* accept *)
    destruct Hs as [Hchk Hpaths].
    destruct rest as [|[s w] rest'].
    + exfalso. cbn in Hp. subst st. exact (chk0 tE tRhs sound_ok Hchk).
    + assert (Hlen : (1 < length (map fst ((st, v) :: (s, w) :: rest')))%nat) by (cbn; lia).
      pose proof (bpaths_complete tE 1 st (map fst ((s, w) :: rest')) Hp Hlen) as Hin.
      destruct (Hpaths _ Hin) as [a Ha]. cbn in Ha. inversion Ha; subst a s.
      destruct rest' as [|[s2 w2] rest''].
      * (* stack = [(st, v); (0, w)] *)
        destruct upper as [|u1 [|u2 upper']]; cbn in Hstk.
        -- discriminate Hstk.
        -- inversion Hstk; subst. inversion Hty as [|? ? Hu _]; subst. unfold entry_typed in Hu. cbn [fst snd] in Hu.
           rewrite Hchk in Hu. destruct v; try discriminate Hu. cbn [map snd]. eauto.
        -- exfalso. injection Hstk as _ _ H3. destruct upper'; discriminate H3.
      * exfalso. cbn in Hp. destruct Hp as [_ [Hbad _]]. exact (no_edge_into_0 tE tRhs sound_ok _ Hbad).
Qed.

Lemma stack_typed_init : stack_typed [(0, VUnit)].
Proof. exists []. split; [reflexivity | constructor]. Qed.

(* C11: the semantic actions never meet a value of the wrong shape *)
Theorem run_no_action_error : forall fuel stk inp p,
  path stk -> stack_typed stk -> run fuel stk inp <> LRActionError p.
Proof.
  induction fuel as [|f IH]; intros stk inp p Hp Hty; [discriminate|].
  cbn [LR.run]. pose proof (step_typed stk inp Hp Hty) as Hs.
  destruct (step stk inp) as [v | | q | stk' inp'] eqn:Hstep; try discriminate; [contradiction|].
  apply IH; [exact (step_path tE wIn wTop certC cert_ok sval tok_val reduce_action _ _ _ _ Hp Hstep) | exact (proj1 Hs)].
Qed.

Theorem run_accepts_statements : forall fuel stk inp v,
  path stk -> stack_typed stk -> run fuel stk inp = LRAccept v -> exists l, v = VStmts l.
Proof.
  induction fuel as [|f IH]; intros stk inp v Hp Hty Hrun; [discriminate|].
  cbn [LR.run] in Hrun. pose proof (step_typed stk inp Hp Hty) as Hs.
  destruct (step stk inp) as [v1 | | q | stk' inp'] eqn:Hstep; try discriminate.
  - inversion Hrun; subst. destruct Hs as [l [_ Hv]]. eauto.
  - eapply IH; [| exact (proj1 Hs) | exact Hrun].
    exact (step_path tE wIn wTop certC cert_ok sval tok_val reduce_action _ _ _ _ Hp Hstep).
Qed.

(* C11: scanning + parsing never panics in the model: statements or an error *)
Theorem parse_statements_result : forall s, (exists l, parse_statements s = POk l) \/ (exists w, parse_statements s = PErr w).
Proof.
  intros s. unfold parse_statements.
  destruct (scan_all s) as [toks|] eqn:Hs; [|exfalso; exact (scan_total s Hs)].
  unfold parse_tokens.
  destruct (run (lr_fuel (length toks)) [(0, VUnit)] toks) as [v | | p |] eqn:Hrun.
  - destruct (has_illegal toks); [right; eauto|].
    destruct (run_accepts_statements _ _ _ _ (eq_refl : path [(0, VUnit)]) stack_typed_init Hrun) as [l ->].
    left. eauto.
  - right. eauto.
  - exfalso. exact (run_no_action_error _ _ _ _ (eq_refl : path [(0, VUnit)]) stack_typed_init Hrun).
  - exfalso. pose proof (lr_fuel_enough toks) as Hf. unfold parse_tokens in Hf. exact (Hf Hrun).
Qed.

(* ---- C12: counting the reductions that introduce a declaration ---- *)
Definition step_decls (stk : list (Z * sval)) (inp : list (tk * string)) : nat :=
  match stk with
  | (st, _) :: _ => match action st (lookahead inp) with AReduce p => decl_prod p | _ => 0%nat end
  | [] => 0%nat
  end.
(* the driver, instrumented with the number of declaration-introducing reductions performed *)
Fixpoint run_count (fuel : nat) (stk : list (Z * sval)) (inp : list (tk * string)) (n : nat) : lr_res sval * nat :=
  match fuel with
  | O => (LROutOfFuel, n)
  | S f => match step stk inp with
           | StAccept _ v => (LRAccept v, n)
           | StReject _ => (LRSyntaxError, n)
           | StBadAction _ p => (LRActionError p, n)
           | StCont _ s i => run_count f s i (n + step_decls stk inp)
           end
  end.

Lemma run_count_fst : forall fuel stk inp n, fst (run_count fuel stk inp n) = run fuel stk inp.
Proof.
  induction fuel as [|f IH]; intros stk inp n; [reflexivity|].
  cbn [run_count LR.run]. destruct (step stk inp); try reflexivity. apply IH.
Qed.

Theorem decl_reductions_counted : forall fuel stk inp n l m,
  path stk -> stack_typed stk -> run_count fuel stk inp n = (LRAccept (VStmts l), m) ->
  (length l + n = m + vsum (map snd stk))%nat.
Proof.
  induction fuel as [|f IH]; intros stk inp n l m Hp Hty Hrun; [discriminate|].
  cbn [run_count] in Hrun. pose proof (step_typed stk inp Hp Hty) as Hs.
  destruct (step stk inp) as [v1 | | q | stk' inp'] eqn:Hstep; try discriminate.
  - inversion Hrun; subst. destruct Hs as [l0 [Hstk Hv]]. inversion Hv; subst l0.
    rewrite Hstk. cbn. lia.
  - destruct Hs as [Hty' Hsum].
    pose proof (step_path tE wIn wTop certC cert_ok sval tok_val reduce_action _ _ _ _ Hp Hstep) as Hp'.
    specialize (IH _ _ _ _ _ Hp' Hty' Hrun). unfold step_decls in IH. destruct stk as [|[st v] rest]; lia.
Qed.

(* the statement list has one entry per declaration-introducing reduction of the parse *)
Corollary statements_are_the_reductions : forall fuel toks l m,
  run_count fuel [(0, VUnit)] toks 0 = (LRAccept (VStmts l), m) -> length l = m.
Proof.
  intros fuel toks l m H.
  pose proof (decl_reductions_counted fuel _ _ _ _ _ (eq_refl : path [(0, VUnit)]) stack_typed_init H) as Hc.
  cbn in Hc. lia.
Qed.
