(* proofs/TypingComplete.v — C07, completeness: whatever is derivable in the declarative system of
   spec/Typing.v is accepted by the checker model (no error, no internal panic, no fuel exhaustion). *)
Require Import Grits.Base Grits.ModeDefs Grits.Modes Grits.STypes Grits.Forms Grits.Subst Grits.Infer
               Grits.TcDeps Grits.Expand Grits.Tc Grits.TcTop Grits.spec.Typing Grits.proofs.TcLemmas
               Grits.proofs.TcUnfold Grits.proofs.UseMap Grits.proofs.TypingSound.

Lemma has_consume g n t : has g n t -> consume n g = TOk (Some t, without g n).
Proof. intros [S L]. unfold consume. now rewrite S, L. Qed.
Lemma has_consume_opt g n t : has g n t -> consume_opt n g = (Some (Some t), without g n).
Proof. intros [S L]. unfold consume_opt. now rewrite S, L. Qed.

Lemma check_pols1i a ha : pol_ok a ha -> check_pols [set_nty a (Some ha)] = TOk tt.
Proof. apply check_pols1. Qed.
Lemma check_pols2i a ha b hb : pol_ok a ha -> pol_ok b hb -> check_pols [set_nty a (Some ha); set_nty b (Some hb)] = TOk tt.
Proof. intros. apply check_pols2. auto. Qed.
Lemma check_pols3i a ha b hb c hc : pol_ok a ha -> pol_ok b hb -> pol_ok c hc ->
  check_pols [set_nty a (Some ha); set_nty b (Some hb); set_nty c (Some hc)] = TOk tt.
Proof. intros. apply check_pols3. auto. Qed.

Ltac note pf := let T := type of pf in lazymatch goal with | _ : T |- _ => fail | _ => pose proof pf end.

Section Complete.
Variable teq : tenv -> sty -> sty -> Prop.
Variable D : tenv.
Variable Sg : sigma.
Hypothesis HD : wf_env D.
Hypothesis equal_complete : forall s t, check_wf D s = true -> check_wf D t = true ->
  teq D s t -> equal_type D s t = Ok true.
Hypothesis HSg : wf_sigma D Sg.

Notation Typed := (Typed teq D Sg).

Definition CompleteAt (f : form) : Prop := forall g sh A,
  Typed g sh A f -> wf_ctx D g -> check_wf D A = true -> exists f', tc_form D Sg g sh (Some A) f = TOk f'.

Lemma has_wf g n t : wf_ctx D g -> has g n t -> check_wf D t = true.
Proof. intros W [_ L]. destruct (wf_ctx_lookup _ _ _ _ W L) as [s [E Ws]]. inversion E; subst. auto. Qed.
Lemma wf_without g n : wf_ctx D g -> wf_ctx D (without g n).
Proof. apply wf_ctx_remove. Qed.
Lemma wf_bind g n t : wf_ctx D g -> check_wf D t = true -> wf_ctx D (bind g n t).
Proof. apply wf_ctx_set. Qed.
Lemma teq_equal a b : check_wf D a = true -> check_wf D b = true -> teq D a b -> equal_opt D (Some a) (Some b) = TOk true.
Proof. intros Wa Wb T. rewrite equal_opt_some, (equal_complete _ _ Wa Wb T). reflexivity. Qed.
Lemma head_unfold t h : head D t h -> unfold D t = Ok (Some h).
Proof. apply unfold_spec. Qed.

(* saturate the context with the facts the computation needs *)
Ltac sat := repeat match goal with
  | Wg : wf_ctx D ?g, H : has ?g ?n ?t |- _ => note (has_wf _ _ _ Wg H)
  | Wg : wf_ctx D ?g, H : has ?g ?n ?t |- _ => note (wf_without _ n Wg)
  | W : check_wf D ?t = true, H : head D ?t ?h |- _ => note (head_wf _ _ _ HD H W)
  | H : head D ?t ?h |- _ => note (head_unfold _ _ H)
  | H : has ?g ?n ?t |- _ => note (has_consume _ _ _ H)
  | H : has ?g ?n ?t |- _ => note (has_consume_opt _ _ _ H)
  | W : check_wf D (TTensor ?a ?b ?m) = true |- _ => note (proj1 (wf_tensor _ _ _ _ W))
  | W : check_wf D (TTensor ?a ?b ?m) = true |- _ => note (proj2 (wf_tensor _ _ _ _ W))
  | W : check_wf D (TLolli ?a ?b ?m) = true |- _ => note (proj1 (wf_lolli _ _ _ _ W))
  | W : check_wf D (TLolli ?a ?b ?m) = true |- _ => note (proj2 (wf_lolli _ _ _ _ W))
  | W : check_wf D (TUp _ _ _) = true |- _ => note (wf_up _ _ _ _ W)
  | W : check_wf D (TDown _ _ _) = true |- _ => note (wf_down _ _ _ _ W)
  | W : check_wf D (TPlus ?bs ?m) = true, F : find_br ?l ?bs = Some ?a |- _ => note (wf_plus _ _ _ _ _ W F)
  | W : check_wf D (TWith ?bs ?m) = true, F : find_br ?l ?bs = Some ?a |- _ => note (wf_with _ _ _ _ _ W F)
  | T : teq D ?a ?b, Wa : check_wf D ?a = true, Wb : check_wf D ?b = true |- _ => note (teq_equal _ _ Wa Wb T)
  end.

Ltac rw := repeat (
  cbn [tbind lift guard unfold_opt need as_tensor as_lolli as_plus as_with as_up as_down is_unit negb orb andb linear_gamma];
  match goal with
  | H : ?l = _ |- context [?l] => rewrite H
  | P : is_provider ?n ?sh = true |- context [consume_maybe_self_opt ?n ?sh ?g ?pty] =>
      rewrite (consume_maybe_self_opt_prov n sh g pty P)
  | P : is_provider ?n ?sh = true |- context [consume_maybe_self ?n ?sh ?g ?pty] =>
      rewrite (consume_maybe_self_prov n sh g pty P)
  | |- context [check_pols [_; _; _]] => rewrite check_pols3i by assumption
  | |- context [check_pols [_; _]] => rewrite check_pols2i by assumption
  | |- context [check_pols [_]] => rewrite check_pols1i by assumption
  end).

Ltac useIH IH k :=
  match goal with T : Typed ?g' ?sh' ?A' k |- _ =>
    let k' := fresh "k'" in let Ek := fresh "Ek" in
    destruct (IH _ _ _ T) as [k' Ek]; [ repeat (apply wf_bind || apply wf_without); auto | auto | ]
  end.
Ltac fin := eexists; cbn [tc_form]; unfold bind, as_provider, without, fresh in *; rw; reflexivity.

Lemma complete_send to pay cont : CompleteAt (FSend to pay cont).
Proof.
  intros g sh A T Wg WA. inversion T; subst; sat.
  - fin.
  - fin.
Qed.

Lemma complete_recv pay cont from k : CompleteAt k -> CompleteAt (FRecv pay cont from k).
Proof.
  intros IH g sh A T Wg WA. inversion T; subst; sat; useIH IH k; fin.
Qed.
Lemma complete_sel to l cont : CompleteAt (FSel to l cont).
Proof.
  intros g sh A T Wg WA. inversion T; subst; sat; fin.
Qed.
Lemma complete_close c : CompleteAt (FClose c).
Proof.
  intros g sh A T Wg WA. inversion T; subst; sat; fin.
Qed.
Lemma complete_wait c k : CompleteAt k -> CompleteAt (FWait c k).
Proof.
  intros IH g sh A T Wg WA. inversion T; subst; sat; useIH IH k; fin.
Qed.
Lemma complete_fwd to from d : CompleteAt (FFwd to from d).
Proof.
  intros g sh A T Wg WA. inversion T; subst; sat.
  assert (pol_eqb p p = true) by (destruct p; reflexivity). fin.
Qed.
Lemma complete_split x y from k : CompleteAt k -> CompleteAt (FSplit x y from k).
Proof.
  intros IH g sh A T Wg WA. inversion T; subst; sat; useIH IH k; fin.
Qed.
Lemma complete_drop c k : CompleteAt k -> CompleteAt (FDrop c k).
Proof.
  intros IH g sh A T Wg WA. inversion T; subst; sat; useIH IH k; fin.
Qed.
Lemma complete_print l k : CompleteAt k -> CompleteAt (FPrint l k).
Proof.
  intros IH g sh A T Wg WA. inversion T; subst; sat; useIH IH k; fin.
Qed.
Lemma complete_cast to cont : CompleteAt (FCast to cont).
Proof.
  intros g sh A T Wg WA. inversion T; subst; sat.
  - assert (down_o fm tm = Ok true) by now apply down_o_true. fin.
  - assert (up_o fm tm = Ok true) by now apply up_o_true. fin.
Qed.
Lemma complete_shift x from k : CompleteAt k -> CompleteAt (FShift x from k).
Proof.
  intros IH g sh A T Wg WA. inversion T; subst; sat; useIH IH k.
  - assert (down_o fm tm = Ok true) by now apply down_o_true. fin.
  - assert (up_o fm tm = Ok true) by now apply up_o_true. fin.
Qed.

(* ---------------------------------------------------------------- call *)
Lemma complete_args g args params g' : TypedArgs teq D g args params g' ->
  wf_ctx D g -> Forall (typed_name_ok D) params -> exists args', tc_args D g args params = TOk (args', g').
Proof.
  induction 1 as [g|g a ar p pr g' ta tp ha Ha Np Te Hh Po TA IH]; intros Wg Wp.
  - eexists. reflexivity.
  - inversion Wp as [|p0 pr0 [tp0 [Np0 Wtp]] Wpr]; subst. rewrite Np in Np0. inversion Np0; subst tp0.
    sat. destruct (IH (wf_without _ a Wg) Wpr) as [ar' Ear].
    eexists. cbn [tc_args]. unfold without in *. rw. reflexivity.
Qed.

Lemma complete_call fn args o : CompleteAt (FCall fn args o).
Proof.
  intros g sh A T Wg WA. inversion T; subst;
    match goal with SL : sig_lookup Sg fn = Some ?sg, Ft : fs_type ?sg = Some ?ft, TA : TypedArgs _ _ _ _ _ _ |- _ =>
      destruct (HSg _ _ SL) as [[ft0 [Eft Wft]] Wps]; rewrite Ft in Eft; inversion Eft; subst ft0;
      destruct (complete_args _ _ _ _ TA Wg Wps) as [args' Ea] end; sat.
  - assert (N1 : (S (length (fs_params sg)) =? length args)%nat = false) by (apply Nat.eqb_neq; lia).
    assert (N2 : (length (fs_params sg) =? length args)%nat = true) by (apply Nat.eqb_eq; lia).
    fin.
  - assert (N1 : (S (length (fs_params sg)) =? length (a0 :: args0))%nat = true) by (apply Nat.eqb_eq; cbn; lia).
    match goal with P : is_provider a0 sh = true |- _ => pose proof (is_provider_sym a0 sh) as PS; rewrite P in PS end.
    fin.
Qed.

(* ---------------------------------------------------------------- case *)
Definition CompleteBrs (b : branches) : Prop :=
  (forall g bs seen, TypedBrsR teq D Sg g bs b -> wf_ctx D g -> wf_brs D bs ->
     NoDup (br_labels b) -> (forall l, In l (br_labels b) -> ~ In l seen) ->
     exists b', tc_branches_provider D Sg g bs seen b = TOk (b', rev (br_labels b) ++ seen)) /\
  (forall g sh A bs seen, TypedBrsL teq D Sg g sh A bs b -> wf_ctx D g -> check_wf D A = true -> wf_brs D bs ->
     NoDup (br_labels b) -> (forall l, In l (br_labels b) -> ~ In l seen) ->
     exists b', tc_branches_client D Sg g sh (Some A) bs seen b = TOk (b', rev (br_labels b) ++ seen)).

Lemma complete_brs_nil : CompleteBrs BrNil.
Proof. split; intros; eexists; reflexivity. Qed.

Lemma complete_brs_cons l pay k r : CompleteAt k -> CompleteBrs r -> CompleteBrs (BrCons l pay k r).
Proof.
  intros IHk [IHR IHL]. split.
  - intros g bs seen T Wg Wbs N Dj.
    inversion T as [|g0 bs0 l0 pay0 k0 r0 bt hbt F Hh Po Fr Tk Tr]; subst.
    cbn [br_labels] in N, Dj. inversion N as [|l1 r1 Nl Nr]; subst.
    pose proof (Wbs _ _ F) as Wbt. sat. useIH IHk k.
    assert (M : str_mem l seen = false) by (apply str_mem_false, Dj; now left).
    destruct (IHR g bs (l :: seen) Tr Wg Wbs Nr) as [r' Er].
    { intros l' Hl' [<-|Hs]; [tauto|]. apply (Dj l'); auto. now right. }
    eexists. rewrite tc_brsR_cons. cbn [br_labels rev]. rewrite <- app_assoc. cbn [app].
    unfold as_provider, fresh in *. cbv zeta. rw. reflexivity.
  - intros g sh A bs seen T Wg WA Wbs N Dj.
    inversion T as [|g0 sh0 A0 bs0 l0 pay0 k0 r0 bt hbt F Hh Po Pp Fr Tk Tr]; subst.
    cbn [br_labels] in N, Dj. inversion N as [|l1 r1 Nl Nr]; subst.
    pose proof (Wbs _ _ F) as Wbt. sat. useIH IHk k.
    assert (M : str_mem l seen = false) by (apply str_mem_false, Dj; now left).
    destruct (IHL g sh A bs (l :: seen) Tr Wg WA Wbs Nr) as [r' Er].
    { intros l' Hl' [<-|Hs]; [tauto|]. apply (Dj l'); auto. now right. }
    eexists. rewrite tc_brsL_cons. cbn [br_labels rev]. rewrite <- app_assoc. cbn [app].
    unfold bind, fresh in *. cbv zeta. rw. reflexivity.
Qed.

Lemma cover_guard (bl : list string) bs : NoDup (brs_labels bs) -> incl (brs_labels bs) bl ->
  negb (length (rev bl ++ []) <? brs_len bs)%nat = true.
Proof.
  intros N I. apply negb_true_iff, Nat.ltb_ge. rewrite app_nil_r, rev_length, brs_len_labels.
  now apply NoDup_incl_length.
Qed.

Lemma complete_case from b : CompleteBrs b -> CompleteAt (FCase from b).
Proof.
  intros [IHR IHL] g sh A T Wg WA. inversion T; subst; sat.
  - match goal with W : check_wf D (TPlus ?bs ?m) = true |- _ =>
      pose proof (wf_plus_nodup _ _ _ W) as NB; pose proof (fun l a => wf_plus _ _ _ l a W) as Wbs end.
    match goal with TB : TypedBrsL _ _ _ _ _ _ _ _, I : incl _ _ |- _ =>
      destruct (IHL _ _ _ _ [] TB) as [b' Eb]; auto; pose proof (cover_guard _ _ NB I) as CG end.
    eexists. rewrite tc_case_eq. unfold without in *. cbv zeta. rw. reflexivity.
  - match goal with W : check_wf D (TWith ?bs ?m) = true |- _ =>
      pose proof (wf_with_nodup _ _ _ W) as NB; pose proof (fun l a => wf_with _ _ _ l a W) as Wbs end.
    match goal with TB : TypedBrsR _ _ _ _ _ _, I : incl _ _ |- _ =>
      destruct (IHR _ _ [] TB) as [b' Eb]; auto; pose proof (cover_guard _ _ NB I) as CG end.
    eexists. rewrite tc_case_eq. cbv zeta. rw. reflexivity.
Qed.

(* ---------------------------------------------------------------- cut *)
Lemma split_gamma_complete g ns acc gl gr : split_ctx D g ns acc gl gr -> wf_ctx D g -> wf_ctx D acc ->
  split_gamma D g ns acc = TOk (gl, gr) /\ wf_ctx D gl /\ wf_ctx D gr.
Proof.
  induction 1 as [g acc|g n r acc gl gr S SP IH|g n r acc gl gr t h Ha Hh SP IH]; intros Wg Wa.
  - auto.
  - cbn [split_gamma]. rewrite S. auto.
  - sat. destruct IH as [E [W1 W2]]; [now apply wf_without|now apply wf_bind|].
    repeat split; auto. cbn [split_gamma]. destruct Ha as [S L]. rewrite S.
    unfold consume_opt. rewrite S, L. unfold bind, without in *. rw. reflexivity.
Qed.

Lemma indep_all_complete gl h : wf_ctx D gl -> ctx_ge gl (mode_of h) -> indep_all (map snd gl) (Some h) = TOk tt.
Proof.
  induction gl as [|[x t] r IH]; intros W G; cbn [map snd indep_all]; auto.
  inversion W as [|kv r0 [s [Es Ws]] Wr]; subst. cbn in Es. subst t.
  assert (E1 : indep_one (Some s) (Some h) = TOk tt) by (apply indep_one_sound, (G x); now left).
  rewrite E1. cbn [tbind]. apply IH; auto. intros y u Hin. apply (G y). now right.
Qed.

Lemma cut_ctx_eq (b : bool) x (v v' : option sty) gr : aset x v (if b then aset x v' gr else gr) = aset x v gr.
Proof. destruct b; [apply aset_aset|reflexivity]. Qed.
Lemma reuse_guards_inv (a b : bool) : a = b -> negb (negb a && b) = true /\ negb (a && negb b) = true.
Proof. intros ->. destruct b; auto. Qed.

Lemma complete_new x body k : CompleteAt body -> CompleteAt k -> CompleteAt (FNew x body k).
Proof.
  intros IHb IHk g sh A T Wg WA.
  inversion T as [| | | | | | | | | | | | | | |
     g0 sh0 A0 x0 fn args o k0 gl gr sg ft hft PX RU SP SL Ft Hh AN CG DN Tb Po Tk
   | g0 sh0 A0 x0 body0 k0 gl gr xt xt1 h PX HC NC RU SP Nx AM Wx Hh CG DN Tb Po Tk | | | | | ]; subst.
  - destruct (HSg _ _ SL) as [[ft0 [Eft Wft]] Wps]. rewrite Ft in Eft. inversion Eft; subst ft0.
    destruct (split_gamma_complete _ _ _ _ _ SP Wg (Forall_nil _)) as [ES [Wgl Wgr]].
    sat. destruct (reuse_guards_inv _ _ RU) as [G1 G2].
    pose proof (indep_all_complete _ _ Wgl CG) as IA.
    pose proof (proj2 (indep_one_sound _ _) DN) as IO.
    destruct (IHb _ _ _ Tb Wgl) as [b' Eb]; auto.
    destruct (IHk _ _ _ Tk) as [k' Ek]; [now apply wf_bind|auto|].
    destruct (nty x) as [xt|] eqn:Nx.
    + destruct (AN _ eq_refl) as [xt1 [AM [Wx Te]]].
      match goal with W : check_wf D hft = true |- _ => pose proof (teq_equal _ _ Wx W Te) as EQa end.
      eexists. rewrite tc_new_call_eq. unfold tc_new_call. cbv zeta.
      rewrite PX, G1, G2, Nx. cbn [has_continuation]. unfold bind in *. rw. rewrite cut_ctx_eq. rw. reflexivity.
    + eexists. rewrite tc_new_call_eq. unfold tc_new_call. cbv zeta.
      rewrite PX, G1, G2, Nx. cbn [has_continuation]. unfold bind in *. rw. rewrite cut_ctx_eq. rw. reflexivity.
  - destruct (split_gamma_complete _ _ _ _ _ SP Wg (Forall_nil _)) as [ES [Wgl Wgr]].
    sat. destruct (reuse_guards_inv _ _ RU) as [G1 G2].
    pose proof (indep_all_complete _ _ Wgl CG) as IA.
    pose proof (proj2 (indep_one_sound _ _) DN) as IO.
    destruct (IHb _ _ _ Tb Wgl) as [b' Eb]; auto.
    destruct (IHk _ _ _ Tk) as [k' Ek]; [now apply wf_bind|auto|].
    pose proof (unfold_nonname D _ (head_nonname _ _ _ Hh)) as UH.
    eexists. rewrite (tc_new_ax_eq _ _ _ _ _ _ _ _ NC). unfold tc_new_ax. cbv zeta.
    rewrite PX, G1, G2, HC. unfold bind, as_provider in *. rw. rewrite cut_ctx_eq. rw. reflexivity.
Qed.

(* ---------------------------------------------------------------- all forms *)
Theorem tc_form_complete_all : (forall f, CompleteAt f) /\ (forall b, CompleteBrs b).
Proof.
  apply form_branches_ind; intros.
  - apply complete_send.
  - now apply complete_recv.
  - apply complete_sel.
  - now apply complete_case.
  - now apply complete_new.
  - apply complete_close.
  - now apply complete_wait.
  - apply complete_fwd.
  - now apply complete_split.
  - apply complete_call.
  - apply complete_cast.
  - now apply complete_shift.
  - now apply complete_drop.
  - now apply complete_print.
  - apply complete_brs_nil.
  - now apply complete_brs_cons.
Qed.

Theorem tc_form_complete g sh A f :
  Typed g sh A f -> wf_ctx D g -> check_wf D A = true -> exists f', tc_form D Sg g sh (Some A) f = TOk f'.
Proof. intros. eapply (proj1 tc_form_complete_all); eauto. Qed.

End Complete.
