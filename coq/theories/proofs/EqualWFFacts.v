(* EqualWFFacts.v — consequences of the boolean well-formedness predicates of EqualWF.v:
   closure under components and expansion, existence of heads. *)
Require Import Grits.Base Grits.ModeDefs Grits.Modes Grits.STypes Grits.Equal Grits.EqualWF
               Grits.spec.TypEq Grits.proofs.TypEqFacts.

Lemma mode_same_eq a b : mode_same a b = true <-> a = b.
Proof.
  destruct a, b; cbn; split; try congruence; try discriminate.
  - intros H. apply String.eqb_eq in H. congruence.
  - intros H. inversion H. apply String.eqb_refl.
Qed.
Lemma mode_same_refl a : mode_same a a = true.
Proof. apply mode_same_eq. reflexivity. Qed.
Lemma mode_eqb_refl a : mode_eqb a a = true.
Proof. destruct a; reflexivity. Qed.
Lemma mode_eqb_proper a b : proper a = true -> mode_eqb a b = true -> a = b.
Proof. destruct a, b; cbn; congruence. Qed.

Lemma str_mem_In k l : str_mem k l = true <-> In k l.
Proof.
  induction l as [|x r IH]; cbn; [split; [discriminate | tauto]|].
  rewrite orb_true_iff, IH, String.eqb_eq. split; intros [H|H]; auto.
Qed.
Lemma str_mem_notIn k l : str_mem k l = false <-> ~ In k l.
Proof. rewrite <- str_mem_In. destruct (str_mem k l); split; congruence. Qed.

Lemma tlookup_In D x d : tlookup D x = Some d -> In d D /\ td_name d = x.
Proof.
  induction D as [|d0 r IH]; cbn; [discriminate|].
  destruct (tlookup r x) as [d'|] eqn:E.
  - intros H; inversion H; subst. destruct (IH eq_refl). auto.
  - destruct (String.eqb x (td_name d0)) eqn:Ex; [|discriminate].
    intros H; inversion H; subst. apply String.eqb_eq in Ex. auto.
Qed.

(* ---------- closure of each predicate under components ---------- *)
Ltac brs_child X :=
  let b := fresh "b" in let IH := fresh "IH" in
  intros b; induction b as [|? ? ? IH]; cbn; intros c H Hin; [contradiction|];
  rewrite ?andb_true_iff in H; destruct Hin as [-> | Hin]; [tauto | apply IH; tauto].

Lemma syn_ok_brs_in : forall b c, syn_ok_brs b = true -> In_br c b -> syn_ok c = true.
Proof. brs_child syn_ok. Qed.
Lemma modes_wf_brs_in : forall b c, modes_wf_brs b = true -> In_br c b -> modes_wf c = true.
Proof. brs_child modes_wf. Qed.
Lemma labels_ok_brs_in : forall b c, labels_ok_brs b = true -> In_br c b -> labels_ok c = true.
Proof. brs_child labels_ok. Qed.
Lemma names_ok_brs_in D : forall b c, names_ok_brs D b = true -> In_br c b -> names_ok D c = true.
Proof. brs_child names_ok. Qed.
Lemma uniform_brs_in m : forall b c, uniform_brs m b = true -> In_br c b -> uniform m c = true.
Proof. brs_child uniform. Qed.

Lemma uniform_mode_of m t : uniform m t = true -> mode_of t = m.
Proof.
  destruct t; cbn; rewrite ?andb_true_iff; intros H; symmetry; apply mode_same_eq; tauto.
Qed.

Definition WT (D : tenv) (t : sty) : Prop := wf_ty D t = true.

Lemma WT_parts D t : WT D t ->
  syn_ok t = true /\ modes_wf t = true /\ proper (mode_of t) = true /\ uniform (mode_of t) t = true /\
  labels_ok t = true /\ names_ok D t = true.
Proof. unfold WT, wf_ty. rewrite !andb_true_iff. tauto. Qed.
Lemma WT_intro D t :
  syn_ok t = true -> modes_wf t = true -> proper (mode_of t) = true -> uniform (mode_of t) t = true ->
  labels_ok t = true -> names_ok D t = true -> WT D t.
Proof. unfold WT, wf_ty. intros. rewrite !andb_true_iff. tauto. Qed.

Lemma WT_child D t c : WT D t -> child t c -> WT D c.
Proof.
  intros H Hc. destruct (WT_parts _ _ H) as (Hs & Hm & Hp & Hu & Hl & Hn).
  destruct t as [x m|m|a b m|a b m|bs m|bs m|f g a|f g a]; cbn in Hc; try contradiction; cbn in Hs, Hm, Hp, Hu, Hl, Hn; rewrite ?andb_true_iff in *.
  - (* tensor *)
    assert (Hc' : uniform m c = true) by (destruct Hc as [-> | ->]; tauto).
    apply WT_intro; rewrite ?(uniform_mode_of _ _ Hc'); try assumption; destruct Hc as [-> | ->]; tauto.
  - assert (Hc' : uniform m c = true) by (destruct Hc as [-> | ->]; tauto).
    apply WT_intro; rewrite ?(uniform_mode_of _ _ Hc'); try assumption; destruct Hc as [-> | ->]; tauto.
  - assert (Hc' : uniform m c = true) by (eapply uniform_brs_in; [|exact Hc]; tauto).
    apply WT_intro; rewrite ?(uniform_mode_of _ _ Hc'); try assumption; try tauto.
    + eapply syn_ok_brs_in; [|exact Hc]; tauto.
    + eapply modes_wf_brs_in; [|exact Hc]; tauto.
    + eapply labels_ok_brs_in; [|exact Hc]; tauto.
    + eapply names_ok_brs_in; [|exact Hc]; tauto.
  - assert (Hc' : uniform m c = true) by (eapply uniform_brs_in; [|exact Hc]; tauto).
    apply WT_intro; rewrite ?(uniform_mode_of _ _ Hc'); try assumption; try tauto.
    + eapply syn_ok_brs_in; [|exact Hc]; tauto.
    + eapply modes_wf_brs_in; [|exact Hc]; tauto.
    + eapply labels_ok_brs_in; [|exact Hc]; tauto.
    + eapply names_ok_brs_in; [|exact Hc]; tauto.
  - subst c. assert (Hc' : uniform f a = true) by tauto.
    apply WT_intro; rewrite ?(uniform_mode_of _ _ Hc'); tauto.
  - subst c. assert (Hc' : uniform f a = true) by tauto.
    apply WT_intro; rewrite ?(uniform_mode_of _ _ Hc'); tauto.
Qed.

Section Env.
Variable D : tenv.
Hypothesis HD : wf_env D = true.

Lemma wf_env_body d : In d D -> WT D (td_body d).
Proof.
  intros Hin. unfold wf_env in HD. apply andb_true_iff in HD. destruct HD as [H _].
  rewrite forallb_forall in H. apply H. exact Hin.
Qed.
Lemma WT_lookup x d : tlookup D x = Some d -> WT D (td_body d).
Proof. intros H. apply wf_env_body. apply (tlookup_In _ _ _ H). Qed.

Lemma WT_name_defined x m : WT D (TName x m) -> exists d, tlookup D x = Some d /\ m = td_mode d.
Proof.
  intros H. destruct (WT_parts _ _ H) as (_ & _ & _ & _ & _ & Hn). cbn in Hn.
  destruct (tlookup D x) as [d|]; [|discriminate]. exists d. split; [reflexivity | apply mode_same_eq; exact Hn].
Qed.

Lemma WT_expand t : WT D t -> exists t', expand1 D t = Some t' /\ WT D t'.
Proof.
  intros H. destruct t; cbn [expand1]; eauto.
  destruct (WT_name_defined _ _ H) as [d [Hl _]]. rewrite Hl. eauto using WT_lookup.
Qed.
Lemma WT_expand1 t t' : WT D t -> expand1 D t = Some t' -> WT D t'.
Proof. intros H E. destruct (WT_expand _ H) as [t2 [E2 H2]]. congruence. Qed.

(* heads, with the number of unfoldings *)
Inductive head_n : nat -> sty -> sty -> Prop :=
| hn_struct t : is_name t = false -> head_n 0 t t
| hn_name n x m d h : tlookup D x = Some d -> head_n n (td_body d) h -> head_n (S n) (TName x m) h.

Lemma head_n_head n t h : head_n n t h -> head D t h.
Proof. induction 1; econstructor; eauto. Qed.
Lemma head_n_nonname n t h : head_n n t h -> is_name h = false.
Proof. induction 1; auto. Qed.
Lemma head_n_det n t h : head_n n t h -> forall n' h', head_n n' t h' -> n = n' /\ h = h'.
Proof.
  induction 1 as [t Ht | n x m d h Hl Hh IH]; intros n' h' H'; inversion H' as [t' Ht' | n2 x2 m2 d2 h2 Hl2 Hh2]; subst;
    cbn in *; try discriminate; auto.
  rewrite Hl in Hl2. inversion Hl2; subst. destruct (IH _ _ Hh2). subst. auto.
Qed.
Lemma head_n_WT n t h : head_n n t h -> WT D t -> WT D h.
Proof. induction 1; intros; auto. apply IHhead_n. eapply WT_lookup; eauto. Qed.

Lemma unfold_head_n k : forall t h, unfold_head k D t = Some h -> exists n, head_n n t h.
Proof.
  induction k as [|k IH]; intros t h; cbn.
  - destruct t; try discriminate; intros H; inversion H; subst; exists 0; constructor; reflexivity.
  - destruct t; try (intros H; inversion H; subst; exists 0; constructor; reflexivity).
    destruct (tlookup D x) as [d|] eqn:El; [|discriminate]. intros H.
    destruct (IH _ _ H) as [n Hn]. exists (S n). econstructor; eauto.
Qed.

Lemma WT_head t : WT D t -> exists n h, head_n n t h.
Proof.
  intros H. destruct (is_name t) eqn:En.
  - destruct t; try discriminate. destruct (WT_name_defined _ _ H) as [d [Hl _]].
    pose proof HD as HD'. unfold wf_env in HD'. apply andb_true_iff in HD'. destruct HD' as [_ Hc].
    unfold contractive_b in Hc. rewrite forallb_forall in Hc.
    specialize (Hc d (proj1 (tlookup_In _ _ _ Hl))).
    destruct (unfold_head (length D) D (td_body d)) as [h|] eqn:Eh; [|discriminate].
    destruct (unfold_head_n _ _ _ Eh) as [n Hn]. exists (S n), h. econstructor; eauto.
  - exists 0, t. constructor. exact En.
Qed.

Lemma WT_productive : Productive D (WT D).
Proof.
  intros t Ht. destruct (WT_head _ Ht) as [n [h Hh]]. exists h. split; [eapply head_n_head; eauto|].
  intros c Hc. eapply WT_child; [|exact Hc]. eapply head_n_WT; eauto.
Qed.
End Env.
