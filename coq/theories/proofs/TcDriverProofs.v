(* proofs/TcDriverProofs.v — C09, second half: the caller/worker protocol of process.Typecheck.
   For every schedule: no deadlock, every run is finite (at most 6 steps), the caller returns exactly
   what the worker's function returned (nil iff the computation succeeded; a recovered panic is a
   non-nil error), the worker's single send never blocks (capacity 1), and once Typecheck has
   returned the only thing left of it is a goroutine that can do nothing but finish.
   Then the NEGATIVE facts about the protocol before the fix (regression guard). *)
Require Import Grits.Base Grits.Tc Grits.TcDriver.

Section New.
Context {A : Type}.
Variable res : tcr A.
Variable r0 : goerr.
Hypothesis Hres : returns res = Some r0.          (* the computation returns: no stack overflow *)

(* the reachable states, written out *)
Inductive inv : state -> Prop :=
| I0 : inv (mkState CBefore WNotStarted None false)
| I1 : inv (mkState CWaiting WRunning None false)
| I2 : inv (mkState CWaiting (WHasResult r0) None false)
| I3 : inv (mkState CWaiting WDoneSent (Some r0) false)
| I4 : inv (mkState CWaiting WFinished (Some r0) false)
| I5 : inv (mkState (CReturned r0) WDoneSent None false)
| I6 : inv (mkState (CReturned r0) WFinished None false).

Lemma inv_step : forall s l s', inv s -> step res s l s' -> inv s'.
Proof.
  intros s l s' Hi Hs. inversion Hs; subst; inversion Hi; subst; try constructor;
    try (match goal with H : returns res = _ |- _ => rewrite Hres in H; inversion H; subst end; constructor).
Qed.

Lemma inv_run : forall s tr s', run res s tr s' -> inv s -> inv s'.
Proof. induction 1; intros; auto. apply IHrun. eapply inv_step; eauto. Qed.

Lemma reachable_inv : forall s, reachable res s -> inv s.
Proof. intros s [tr H]. eapply inv_run; eauto. constructor. Qed.

(* every step strictly decreases this measure: all runs are finite *)
Definition cal_rank (c : caller) : nat := match c with CBefore => 2 | CWaiting => 1 | CReturned _ => 0 end.
Definition wrk_rank (w : worker) : nat :=
  match w with WNotStarted => 4 | WRunning => 3 | WHasResult _ => 2 | WDoneSent => 1 | WFinished => 0 end.
Definition rank (s : state) : nat := cal_rank (cal s) + wrk_rank (wrk s).

Lemma step_decreases : forall s l s', inv s -> step res s l s' -> (rank s' < rank s)%nat.
Proof.
  intros s l s' Hi Hs. inversion Hs; subst; unfold rank; cbn; try lia.
  (* overflow is impossible *) match goal with H : returns res = None |- _ => rewrite Hres in H; discriminate end.
Qed.

Lemma run_length : forall s tr s', run res s tr s' -> inv s -> (length tr + rank s' <= rank s)%nat.
Proof.
  induction 1 as [|s l s' tr s'' Hs Hr IH]; intros Hi; cbn; [lia|].
  pose proof (step_decreases _ _ _ Hi Hs). pose proof (IH (inv_step _ _ _ Hi Hs)). lia.
Qed.

(* no deadlock: a reachable state that is not final can move *)
Lemma progress : forall s, inv s -> final s \/ exists l s', step res s l s'.
Proof.
  intros s Hi. inversion Hi; subst.
  - right. eexists _, _. apply SSpawn.
  - right. eexists _, _. apply SCompute. exact Hres.
  - right. eexists _, _. apply SSend.
  - right. eexists _, _. apply SExit.
  - right. eexists _, _. apply SRecv.
  - right. eexists _, _. apply SExit.
  - left. eexists. reflexivity.
Qed.

Theorem tc_protocol_core : forall tr s, run res init tr s ->
  (* 1. every run is finite *)                (length tr <= 6)%nat /\
  (* 2. the host never dies *)                crashed s = false /\
  (* 3. no deadlock *)                        (final s \/ exists l s', step res s l s') /\
  (* 4. a maximal run ends with the call returned, the worker gone, the channel empty *)
                                              (stuck res s -> s = mkState (CReturned r0) WFinished None false) /\
  (* 5. what is returned is what the worker's function returned *)
                                              (forall r, cal s = CReturned r -> r = r0) /\
  (* 6. the worker's send never blocks *)     (forall r, wrk s = WHasResult r -> buf s = None /\ exists s', step res s LSend s') /\
  (* 7. after the send the worker can only finish, and can always do so *)
      (wrk s = WDoneSent -> (exists s', step res s LExit s') /\
                            forall l s', step res s l s' -> l = LExit \/ (l = LRecv /\ wrk s' = WDoneSent)) /\
  (* 8. once Typecheck has returned, all that is left of it is a worker past its send *)
      (forall r, cal s = CReturned r -> (wrk s = WDoneSent \/ wrk s = WFinished) /\ buf s = None).
Proof.
  intros tr s Hr. assert (Hi0 : inv init) by constructor.
  pose proof (inv_run _ _ _ Hr Hi0) as Hi. pose proof (run_length _ _ _ Hr Hi0) as Hl. cbn in Hl.
  split; [lia|]. split; [inversion Hi; reflexivity|]. split; [apply progress; auto|].
  split.
  { intros Hst. destruct (progress _ Hi) as [[r E]|(l & s' & Hs)]; [|exfalso; eapply Hst; eauto].
    subst. inversion Hi; subst. reflexivity. }
  split; [intros r E; inversion Hi; subst; cbn in E; try discriminate; inversion E; auto|].
  split.
  { intros r E. inversion Hi; subst; cbn in E; try discriminate. split; [reflexivity|]. eexists. apply SSend. }
  split.
  { intros E. inversion Hi; subst; cbn in E; try discriminate.
    - split; [eexists; apply SExit|]. intros l s' Hs. inversion Hs; subst; auto.
    - split; [eexists; apply SExit|]. intros l s' Hs. inversion Hs; subst; auto. }
  intros r E. inversion Hi; subst; cbn in E; try discriminate; cbn; auto.
Qed.
End New.

(* what `returns` says about the verdict *)
Lemma returns_nil_iff_ok : forall {A} (res : tcr A) r, returns res = Some r -> (r = None <-> exists a, res = TOk a).
Proof.
  intros A res r H. destruct res; cbn in H; inversion H; subst; split; intros E; try discriminate; eauto;
    destruct E as [? E]; discriminate.
Qed.
Lemma returns_panic_nonnil : forall {A} (res : tcr A) v, res = TPanic v ->
  returns res = Some (Some ("internal typechecker error: " ^^ v)).
Proof. intros; subst; reflexivity. Qed.
Lemma returns_unless_hang : forall {A} (res : tcr A), (forall w, res <> THang w) -> exists r, returns res = Some r.
Proof. intros A res H. destruct res; cbn; eauto. exfalso. eapply H; eauto. Qed.

(* the theorem as DESIGN.md states it: for every schedule of the caller and the worker *)
Theorem tc_protocol : forall {A} (res : tcr A), (forall w, res <> THang w) ->
  exists r0,
    returns res = Some r0 /\
    (r0 = None <-> exists a, res = TOk a) /\
    (forall v, res = TPanic v -> r0 <> None) /\
    forall tr s, run res init tr s ->
      (length tr <= 6)%nat /\ crashed s = false /\
      (final s \/ exists l s', step res s l s') /\
      (stuck res s -> s = mkState (CReturned r0) WFinished None false) /\
      (forall r, cal s = CReturned r -> r = r0 /\ (wrk s = WDoneSent \/ wrk s = WFinished) /\ buf s = None) /\
      (forall r, wrk s = WHasResult r -> buf s = None /\ exists s', step res s LSend s') /\
      (wrk s = WDoneSent -> (exists s', step res s LExit s') /\
                            forall l s', step res s l s' -> l = LExit \/ (l = LRecv /\ wrk s' = WDoneSent)).
Proof.
  intros A res Hnh. destruct (returns_unless_hang res Hnh) as [r0 Hr0]. exists r0.
  split; [exact Hr0|]. split; [apply returns_nil_iff_ok; auto|].
  split. { intros v E. rewrite (returns_panic_nonnil res v E) in Hr0. inversion Hr0. discriminate. }
  intros tr s Hrun. destruct (tc_protocol_core res r0 Hr0 tr s Hrun) as (H1 & H2 & H3 & H4 & H5 & H6 & H7 & H8).
  split; [exact H1|]. split; [exact H2|]. split; [exact H3|]. split; [exact H4|].
  split; [intros r E; split; [eapply H5; eauto | apply (H8 r E)]|].
  split; [exact H6 | exact H7].
Qed.

(* without the hypothesis: a diverging computation (Go: stack overflow) kills the host — which is why
   tc_total is needed for the property *)
Theorem tc_protocol_overflow_crashes : forall {A} (res : tcr A) w, res = THang w ->
  exists tr s, run res init tr s /\ crashed s = true /\ forall r, cal s <> CReturned r.
Proof.
  intros A res w E. exists [LSpawn; LOverflow], (mkState CWaiting WRunning None true).
  split; [|split; [reflexivity | intros r H; discriminate]].
  eapply run_cons; [apply SSpawn|]. eapply run_cons; [apply SOverflow; subst; reflexivity|]. apply run_nil.
Qed.

(* ---------- the protocol before the fix ---------- *)
Section Old.
Context {A : Type}.

(* F6: a panicking worker lets the caller return SUCCESS, then the process dies *)
Theorem old_success_then_crash : forall (rest : tcr A) v,
  oruns (TPanic v) rest oinit (mkO (OReturned None) OPanicked true).
Proof.
  intros rest v.
  eapply oruns_step; [apply OSpawn|].
  eapply oruns_step; [eapply OFirstPanic; reflexivity|].
  eapply oruns_step; [apply (ODoneTaken _ _ true)|].
  eapply oruns_step; [apply OPanicTop|]. apply oruns_refl.
Qed.

(* F14: after its (correct) error was returned the worker goes on; if what follows overflows the
   stack, the host dies after Typecheck has returned *)
Theorem old_crash_after_return : forall e w,
  oruns (TErr e : tcr A) (THang w) oinit (mkO (OReturned (Some e)) ORunningOn true).
Proof.
  intros e w.
  eapply oruns_step; [apply OSpawn|].
  eapply oruns_step; [eapply OFirstErr; reflexivity|].
  eapply oruns_step; [apply OErrTaken|].
  eapply oruns_step; [eapply ORestHang; reflexivity|]. apply oruns_refl.
Qed.

(* F14, otherwise: the worker is left blocked forever on an unbuffered channel nobody reads *)
Definition oblocked (s : ostate) : Prop :=
  (exists e, owrk s = OSendingErr e) \/ (exists p, owrk s = ODeferDone p).
Theorem old_worker_leaks : forall e (rest : tcr A), (forall w, rest <> THang w) ->
  exists s, oruns (TErr e) rest oinit s /\ ocal s = OReturned (Some e) /\ oblocked s /\
            forall s', ~ ostep (TErr e) rest s s'.
Proof.
  intros e rest Hnh. destruct rest as [a|e'|v|w] eqn:Er.
  - exists (mkO (OReturned (Some e)) (ODeferDone false) false). split; [|split; [reflexivity | split; [right; eexists; reflexivity|]]].
    + eapply oruns_step; [apply OSpawn|]. eapply oruns_step; [eapply OFirstErr; reflexivity|].
      eapply oruns_step; [apply OErrTaken|]. eapply oruns_step; [eapply ORestOk; reflexivity|]. apply oruns_refl.
    + intros s' Hs. inversion Hs.
  - exists (mkO (OReturned (Some e)) (OSendingErr e') false). split; [|split; [reflexivity | split; [left; eexists; reflexivity|]]].
    + eapply oruns_step; [apply OSpawn|]. eapply oruns_step; [eapply OFirstErr; reflexivity|].
      eapply oruns_step; [apply OErrTaken|]. eapply oruns_step; [eapply ORestErr; reflexivity|]. apply oruns_refl.
    + intros s' Hs. inversion Hs.
  - exists (mkO (OReturned (Some e)) (ODeferDone true) false). split; [|split; [reflexivity | split; [right; eexists; reflexivity|]]].
    + eapply oruns_step; [apply OSpawn|]. eapply oruns_step; [eapply OFirstErr; reflexivity|].
      eapply oruns_step; [apply OErrTaken|]. eapply oruns_step; [eapply ORestPanic; reflexivity|]. apply oruns_refl.
    + intros s' Hs. inversion Hs.
  - exfalso. eapply Hnh; reflexivity.
Qed.
End Old.
