(* proofs/RenameSimT.v — C14 (b), complete: for TYPED configurations (spec/RtTyping.v: every reachable
   configuration of an accepted closed program) one step of the interpreter does not depend on the
   identifiers carried by initialised names NOR on the identifiers of `self` names — in particular not
   on the identifier that drop / split / DUP / a GC request give to the `self` name of the forwarding
   process they create (the client's identifier).
   `nn'` erases the identifier of every name that carries a channel or is a `self` name; binders are
   left alone.  `cfgT_sim c c'` := equal after erasure.  `stepT_sim`: related typed configurations take
   related steps under every choice in every mode.
   What typing provides (and what RenameSim.v had to assume or could not cover):
     * binders carry no channel and a non-empty identifier;
     * inside the scope of a binder x no `self` name carries the identifier x (the set `rs` of the
       typing judgement: F24 / F25) — so an identifier-based substitution of x never hits a self name;
     * free names of a running body are channels (free_names_closed). *)
From stdpp Require Import pmap gmap strings.
Require Import Grits.Base Grits.ModeDefs Grits.Modes Grits.STypes Grits.Forms Grits.Subst Grits.TcDeps Grits.Expand.
Require Import Grits.Runtime Grits.spec.RtTyping Grits.proofs.RtSubst Grits.proofs.RtSafety Grits.proofs.RenameRun.

(* ---------------------------------------------------------------- erasure *)
Definition uself (n : name) : bool := negb (initialized n) && is_self n.
Definition nn' (n : name) : name :=
  if initialized n || is_self n then mkName "" (is_self n) (pol n) (nty n) (chan n) else n.

Fixpoint nf' (f : form) : form :=
  match f with
  | FSend a b c => FSend (nn' a) (nn' b) (nn' c)
  | FRecv p c fr k => FRecv p c (nn' fr) (nf' k)
  | FSel a l c => FSel (nn' a) l (nn' c)
  | FCase fr bs => FCase (nn' fr) (nbs' bs)
  | FNew x b k => FNew x (nf' b) (nf' k)
  | FClose c => FClose (nn' c)
  | FWait c k => FWait (nn' c) (nf' k)
  | FFwd a b d => FFwd (nn' a) (nn' b) d
  | FSplit x y fr k => FSplit x y (nn' fr) (nf' k)
  | FCall fn args pt => FCall fn (map nn' args) pt
  | FCast a c => FCast (nn' a) (nn' c)
  | FShift x fr k => FShift x (nn' fr) (nf' k)
  | FDrop c k => FDrop (nn' c) (nf' k)
  | FPrint l k => FPrint l (nf' k)
  end
with nbs' (b : branches) : branches :=
  match b with
  | BrNil => BrNil
  | BrCons l p k rest => BrCons l p (nf' k) (nbs' rest)
  end.

(* no `self` name without a channel, at a non-binder position, carries the identifier x *)
Definition nsn (x : string) (n : name) : Prop := uself n = true -> ident n <> x.
Fixpoint nos (x : string) (f : form) : Prop :=
  match f with
  | FSend a b c => nsn x a /\ nsn x b /\ nsn x c
  | FRecv _ _ fr k => nsn x fr /\ nos x k
  | FSel a _ c => nsn x a /\ nsn x c
  | FCase fr bs => nsn x fr /\ nosb x bs
  | FNew _ b k => nos x b /\ nos x k
  | FClose c => nsn x c
  | FWait c k | FDrop c k => nsn x c /\ nos x k
  | FFwd a b _ | FCast a b => nsn x a /\ nsn x b
  | FSplit _ _ fr k => nsn x fr /\ nos x k
  | FCall _ args _ => Forall (nsn x) args
  | FShift _ fr k => nsn x fr /\ nos x k
  | FPrint _ k => nos x k
  end
with nosb (x : string) (b : branches) : Prop :=
  match b with BrNil => True | BrCons _ _ k rest => nos x k /\ nosb x rest end.

Lemma nn'_initialized n : initialized (nn' n) = initialized n.
Proof. unfold nn'. destruct (initialized n || is_self n) eqn:E; [|reflexivity]. reflexivity. Qed.
Lemma nn'_chan n : chan (nn' n) = chan n.
Proof. unfold nn'. destruct (initialized n || is_self n); reflexivity. Qed.
Lemma nn'_is_self n : is_self (nn' n) = is_self n.
Proof. unfold nn'. destruct (initialized n || is_self n); reflexivity. Qed.
Lemma nn'_pol n : pol (nn' n) = pol n.
Proof. unfold nn'. destruct (initialized n || is_self n); reflexivity. Qed.
Lemma nn'_nty n : nty (nn' n) = nty n.
Proof. unfold nn'. destruct (initialized n || is_self n); reflexivity. Qed.
Lemma nn'_idem n : nn' (nn' n) = nn' n.
Proof.
  unfold nn' at 1. rewrite nn'_initialized, nn'_is_self. destruct (initialized n || is_self n) eqn:E; [|unfold nn'; now rewrite E].
  unfold nn'. rewrite E. reflexivity.
Qed.
Lemma nn'_var n : initialized n = false -> is_self n = false -> nn' n = n.
Proof. unfold nn'. intros -> ->. reflexivity. Qed.

(* ---------------------------------------------------------------- Name.Substitute *)
(* (A) replacing a channel by a channel *)
Lemma name_subst_A old new n : initialized old = true -> initialized new = true ->
  nn' (name_subst (nn' old) (nn' new) (nn' n)) = nn' (name_subst old new n).
Proof.
  destruct old as [oi os op ot [oc|]], new as [wi ws wp wt [wc|]], n as [ni ns np nt [nc|]]; try discriminate; intros _ _;
    unfold name_subst, nn', initialized; cbn [chan ident is_self pol nty andb orb negb chan_eqb];
    repeat match goal with
    | |- context [if ?c then _ else _] => let E := fresh "E" in destruct c eqn:E; cbn [chan ident is_self pol nty andb orb negb chan_eqb] in *
    end; try reflexivity; try discriminate.
Qed.
(* (B) instantiating a binder x (no channel, identifier not ""), in a scope where no self name carries x *)
Lemma name_subst_B old new n : initialized old = false -> ident old <> "" -> nsn (ident old) n ->
  nn' (name_subst old (nn' new) (nn' n)) = nn' (name_subst old new n).
Proof.
  destruct old as [oi os op ot [oc|]], new as [wi ws wp wt wc], n as [ni ns np nt nc]; try discriminate; intros _ Hne Hn.
  unfold nsn, uself, initialized in Hn. cbn [chan ident is_self] in *.
  destruct wc as [wc|], nc as [nc|], ns, ws; unfold name_subst, nn', initialized;
    cbn [chan ident is_self pol nty andb orb negb chan_eqb] in *;
    repeat match goal with
    | |- context [if ?c then _ else _] => let E := fresh "E" in destruct c eqn:E; cbn [chan ident is_self pol nty andb orb negb chan_eqb] in *
    end; try reflexivity; try discriminate;
    repeat match goal with E : String.eqb _ _ = true |- _ => apply String.eqb_eq in E end; subst;
    try contradiction; try (exfalso; apply Hn; reflexivity).
Qed.
(* (C) re-binding the provider: the binder is replaced by a fresh `self` *)
Lemma name_subst_C old n : initialized old = false ->
  nn' (name_subst old (new_self "") (nn' n)) = nn' (name_subst old (new_self "") n).
Proof.
  destruct old as [oi os op ot [oc|]], n as [ni ns np nt nc]; try discriminate; intros _.
  destruct nc as [nc|], ns; unfold name_subst, nn', initialized, new_self;
    cbn [chan ident is_self pol nty andb orb negb chan_eqb] in *;
    repeat match goal with
    | |- context [if ?c then _ else _] => let E := fresh "E" in destruct c eqn:E; cbn [chan ident is_self pol nty andb orb negb chan_eqb] in *
    end; try reflexivity; try discriminate.
Qed.
(* (D) only the replacement is erased *)
Lemma name_subst_D old new n : nn' (name_subst old (nn' new) n) = nn' (name_subst old new n).
Proof.
  destruct old as [oi os op ot oc], new as [wi ws wp wt wc], n as [ni ns np nt nc].
  destruct oc as [oc|], wc as [wc|], nc as [nc|], ws; unfold name_subst, nn', initialized;
    cbn [chan ident is_self pol nty andb orb negb chan_eqb] in *;
    repeat match goal with
    | |- context [if ?c then _ else _] => let E := fresh "E" in destruct c eqn:E; cbn [chan ident is_self pol nty andb orb negb chan_eqb] in *
    end; try reflexivity; try discriminate.
Qed.

(* ---------------------------------------------------------------- Form.Substitute *)
Lemma nf'_idem : (forall f, nf' (nf' f) = nf' f) /\ (forall b, nbs' (nbs' b) = nbs' b).
Proof.
  apply form_branches_ind; intros; cbn [nf' nbs']; rewrite ?nn'_idem, ?H, ?H0; try reflexivity.
  f_equal. rewrite map_map. apply map_ext. intros; apply nn'_idem.
Qed.

Lemma name_equal_nn'_init p old : initialized old = true -> name_equal p (nn' old) = name_equal p old.
Proof. intros H. unfold name_equal. rewrite nn'_initialized, nn'_chan, H. destruct (initialized p); cbn; [reflexivity|]. now rewrite !andb_false_r. Qed.

Ltac subst_tac L :=
  apply form_branches_ind; intros; cbn [subst subst_brs nf' nbs' nos nosb] in *;
    repeat match goal with H : _ /\ _ |- _ => destruct H end;
    rewrite ?L by assumption;
    repeat match goal with |- context [if ?c then _ else _] => destruct c end;
    repeat match goal with IH : _ -> _ = _ |- _ => rewrite IH by assumption end;
    repeat match goal with IH : _ = _ |- _ => rewrite IH end;
    rewrite ?(proj1 nf'_idem), ?(proj2 nf'_idem); try reflexivity.

Lemma subst_D old new :
  (forall f, nf' (subst old (nn' new) f) = nf' (subst old new f)) /\
  (forall b, nbs' (subst_brs old (nn' new) b) = nbs' (subst_brs old new b)).
Proof.
  subst_tac (name_subst_D old new).
  f_equal. rewrite !map_map. apply map_ext. intros a. apply name_subst_D.
Qed.

Lemma subst_C old : initialized old = false ->
  (forall f, nf' (subst old (new_self "") (nf' f)) = nf' (subst old (new_self "") f)) /\
  (forall b, nbs' (subst_brs old (new_self "") (nbs' b)) = nbs' (subst_brs old (new_self "") b)).
Proof.
  intros Ho. subst_tac (name_subst_C old).
  f_equal. rewrite !map_map. apply map_ext. intros a. now apply name_subst_C.
Qed.

Lemma subst_B old new : initialized old = false -> ident old <> "" ->
  (forall f, nos (ident old) f -> nf' (subst old (nn' new) (nf' f)) = nf' (subst old new f)) /\
  (forall b, nosb (ident old) b -> nbs' (subst_brs old (nn' new) (nbs' b)) = nbs' (subst_brs old new b)).
Proof.
  intros Ho Hne.
  apply form_branches_ind; intros; cbn [subst subst_brs nf' nbs' nos nosb] in *;
    repeat match goal with H : _ /\ _ |- _ => destruct H end;
    rewrite ?(name_subst_B old new) by assumption;
    repeat match goal with |- context [if ?c then _ else _] => destruct c end;
    repeat match goal with IH : _ -> _ = _ |- _ => rewrite IH by assumption end;
    rewrite ?(proj1 nf'_idem), ?(proj2 nf'_idem); try reflexivity.
  f_equal. rewrite !map_map. apply map_ext_in. intros a Ha. apply name_subst_B; auto.
  rewrite List.Forall_forall in H. apply H. exact Ha.
Qed.

Lemma subst_A old new : initialized old = true -> initialized new = true ->
  (forall f, nf' (subst (nn' old) (nn' new) (nf' f)) = nf' (subst old new f)) /\
  (forall b, nbs' (subst_brs (nn' old) (nn' new) (nbs' b)) = nbs' (subst_brs old new b)).
Proof.
  intros Ho Hn.
  apply form_branches_ind; intros; cbn [subst subst_brs nf' nbs'];
    rewrite ?(name_subst_A old new) by assumption; rewrite ?(name_equal_nn'_init _ old Ho);
    repeat match goal with |- context [if ?c then _ else _] => destruct c end;
    rewrite ?H, ?H0, ?(proj1 nf'_idem), ?(proj2 nf'_idem); try reflexivity.
  f_equal. rewrite !map_map. apply map_ext. intros a. now apply name_subst_A.
Qed.

(* ---------------------------------------------------------------- what typing gives *)
Section Typed.
Variable D : tenv.
Variable F : list fundef.
Variable teq : sty -> sty -> Prop.
Local Notation typed := (typed D F teq).
Local Notation typed_brs_p := (typed_brs_p D F teq).
Local Notation typed_brs_c := (typed_brs_c D F teq).
Local Notation client_ty := (client_ty teq).
Local Notation args_ok := (args_ok teq).

Lemma nsn_prov sh rs n x : prov_name sh rs n -> x ∉ rs -> nsn x n.
Proof.
  intros [Hc [[Hs Hi]|[Hs _]]] Hx Hu E.
  - subst. contradiction.
  - unfold uself in Hu. rewrite Hs, andb_false_r in Hu. discriminate.
Qed.
Lemma nsn_client Δ Γ sh n t x : client_ty Δ Γ sh n t -> nsn x n.
Proof. intros [Hs _] Hu. unfold uself in Hu. rewrite Hs, andb_false_r in Hu. discriminate. Qed.
Lemma nsn_args Δ Γ sh args ps x : args_ok Δ Γ sh args ps -> Forall (nsn x) args.
Proof. induction 1 as [|a p l l' (t & _ & H) _ IH]; constructor; eauto using nsn_client. Qed.

Lemma typed_nos_mut Δ :
  (forall Γ sh rs s f, typed Δ Γ sh rs s f -> forall x, x ∉ rs -> nos x f) /\
  (forall Γ rs bs b, typed_brs_p Δ Γ rs bs b -> forall x, x ∉ rs -> nosb x b) /\
  (forall Γ sh rs s bs b, typed_brs_c Δ Γ sh rs s bs b -> forall x, x ∉ rs -> nosb x b).
Proof.
  apply typed_mutind; intros; cbn [nos nosb];
    repeat match goal with
    | |- _ /\ _ => split
    | |- nsn _ _ => first [eapply nsn_prov; eassumption | eapply nsn_client; eassumption]
    | IH : forall x, x ∉ _ -> nos x ?k |- nos _ ?k => apply IH; set_solver
    | IH : forall x, x ∉ _ -> nosb x ?k |- nosb _ ?k => apply IH; set_solver
    | |- True => exact I
    end.
  match goal with H : _ \/ _ |- _ => destruct H as [[? ?]|[a0 [rest [-> [? [? ?]]]]]] end.
  - eapply nsn_args; eauto.
  - constructor; [eapply nsn_prov; eauto | eapply nsn_args; eauto].
Qed.
Lemma typed_nos Δ Γ sh rs s f x : typed Δ Γ sh rs s f -> x ∉ rs -> nos x f.
Proof. intros H. apply (proj1 (typed_nos_mut Δ) _ _ _ _ _ H). Qed.
End Typed.

(* ---------------------------------------------------------------- more on nos / congruences *)
Lemma nsn_nn' x n : x <> "" -> nsn x (nn' n).
Proof.
  intros Hx Hu E. unfold uself in Hu. rewrite nn'_initialized, nn'_is_self in Hu.
  apply andb_prop in Hu. destruct Hu as [H1 H2]. unfold nn' in E. rewrite H2, orb_true_r in E. cbn in E. congruence.
Qed.
Lemma nos_nf' x : x <> "" -> (forall f, nos x (nf' f)) /\ (forall b, nosb x (nbs' b)).
Proof.
  intros Hx. apply form_branches_ind; intros; cbn [nf' nbs' nos nosb]; repeat split; auto using nsn_nn'.
  apply List.Forall_forall. intros a Ha. apply in_map_iff in Ha. destruct Ha as (b & <- & _). now apply nsn_nn'.
Qed.
Lemma nsn_not_uself x n : uself n = false -> nsn x n.
Proof. intros H Hu. congruence. Qed.
Lemma uself_nn' n : uself (nn' n) = uself n.
Proof. unfold uself. now rewrite nn'_initialized, nn'_is_self. Qed.
Lemma nsn_name_subst x old new n : uself new = false -> nsn x n -> nsn x (name_subst old new n).
Proof.
  intros Hw Hn. unfold name_subst.
  destruct (initialized n && chan_eqb (chan n) (chan old)); [intros Hu; unfold uself, initialized in *; cbn in Hu; congruence|].
  destruct (negb (initialized n) && negb (initialized old) && String.eqb (ident n) (ident old)); [|exact Hn].
  intros Hu; unfold uself, initialized in *; cbn in Hu; congruence.
Qed.
Lemma nos_subst x old new : uself new = false ->
  (forall f, nos x f -> nos x (subst old new f)) /\ (forall b, nosb x b -> nosb x (subst_brs old new b)).
Proof.
  intros Hw. apply form_branches_ind; intros; cbn [subst subst_brs nos nosb] in *;
    repeat match goal with H : _ /\ _ |- _ => destruct H end;
    repeat match goal with |- context [if ?c then _ else _] => destruct c end;
    repeat split; auto using nsn_name_subst.
  apply List.Forall_forall. intros a Ha. apply in_map_iff in Ha. destruct Ha as (b & <- & Hb).
  apply nsn_name_subst; auto. rewrite List.Forall_forall in H. auto.
Qed.

(* congruences: what matters of the body is its erasure *)
Lemma subst_B_congr old new new' X X' : initialized old = false -> ident old <> "" ->
  nos (ident old) X -> nos (ident old) X' -> nn' new' = nn' new -> nf' X = nf' X' ->
  nf' (subst old new' X) = nf' (subst old new X').
Proof.
  intros Ho Hne H1 H2 En EX.
  rewrite <- (proj1 (subst_B old new Ho Hne) X' H2), <- (proj1 (subst_B old new' Ho Hne) X H1). now rewrite En, EX.
Qed.
Lemma subst_C_congr old X X' : initialized old = false -> nf' X = nf' X' ->
  nf' (subst old (new_self "") X) = nf' (subst old (new_self "") X').
Proof. intros Ho EX. rewrite <- (proj1 (subst_C old Ho) X), <- (proj1 (subst_C old Ho) X'). now rewrite EX. Qed.

(* ---------------------------------------------------------------- configurations up to erasure *)
Definition nm' (m : msg) : msg := Msg (m_rule m) (nn' (m_c1 m)) (nn' (m_c2 m)) (map nn' (m_provs m)) (m_label m).
Definition np' (p : proc) : proc := Proc (map nn' (pr_provs p)) (nf' (pr_body0 p)) (pr_next p).
Definition nch' (st : chan_st) : chan_st := Chan (option_map nm' (ch_buf st)) (ch_closed st).
Definition ncfg' (c : config) : config := Cfg (np' <$> procs c) (nch' <$> chans c) (out c).
Definition nspawn' (s : spawn) : spawn := Spawn (map nn' (sp_provs s)) (nf' (sp_body s)).
Definition nafter' (a : after) : after := match a with Continue p => Continue (np' p) | Finish => Finish end.
Definition neff' (e : effect) : effect := Eff (nafter' (e_after e)) (map nspawn' (e_spawn e)) (e_newch e) (e_close e) (e_out e).
Definition neres' (x : Runtime.eres) : Runtime.eres := match x with EOk e => EOk (neff' e) | EErr w => EErr w end.
Definition naction' (a : action) : action :=
  match a with ASend c m => ASend c (nm' m) | ACtrl c provs => ACtrl c (map nn' provs) | other => other end.
Definition nsres' (s : sres) : sres := match s with SStep c => SStep (ncfg' c) | other => other end.

Definition cfgT_sim (c c' : config) : Prop := ncfg' c = ncfg' c'.

(* the names a message carries are not `self` names (message typing) *)
Definition mok (m : msg) : Prop :=
  match m_rule m with
  | RSND | RRCV => uself (m_c1 m) = false /\ uself (m_c2 m) = false
  | RSEL | RBRA | RCST | RSHF => uself (m_c1 m) = false
  | _ => True
  end.

Lemma np'_idem p : np' (np' p) = np' p.
Proof. unfold np'. cbn. rewrite (proj1 nf'_idem), map_map. f_equal. apply map_ext. intros; apply nn'_idem. Qed.
Lemma map_nn'_idem l : map nn' (map nn' l) = map nn' l.
Proof. rewrite map_map. apply map_ext. intros; apply nn'_idem. Qed.
Lemma cids_of_nn' l : cids_of (map nn' l) = cids_of l.
Proof. unfold cids_of. induction l as [|n l IH]; cbn [map flat_map]; [reflexivity|]. now rewrite nn'_chan, IH. Qed.
Lemma nn'_new_self : nn' (new_self "") = new_self "".
Proof. reflexivity. Qed.
Lemma nn'_zero : nn' zero_name = zero_name.
Proof. reflexivity. Qed.
Lemma uself_init n : initialized n = true -> uself n = false.
Proof. unfold uself. intros ->. reflexivity. Qed.
Lemma uself_nonself n : is_self n = false -> uself n = false.
Proof. unfold uself. intros ->. apply andb_false_r. Qed.

Lemma find_branch_nf' l b : find_branch l (nbs' b) = option_map (fun x => (fst x, nf' (snd x))) (find_branch l b).
Proof. induction b as [|l' pay k b IH]; cbn [nbs' find_branch]; [reflexivity|]. destruct (String.eqb l' l); [reflexivity | apply IH]. Qed.

(* ---------------------------------------------------------------- what typing says about the head of a running body *)
Section Heads.
Variable D : tenv.
Variable F : list fundef.
Variable teq : sty -> sty -> Prop.
Local Notation typed := (typed D F teq).

Lemma prov_none rs n : prov_name None rs n -> is_self n = true.
Proof. intros [_ [[H _]|[_ H]]]; [exact H | discriminate]. Qed.
Lemma client_nonself Δ Γ sh n t : client_ty teq Δ Γ sh n t -> is_self n = false.
Proof. intros [H _]. exact H. Qed.
Lemma binder_facts x : binder x -> initialized x = false /\ ident x <> "".
Proof. intros [H1 H2]. unfold initialized. now rewrite H1. Qed.
Lemma pbinder_facts x : pbinder x -> initialized x = false.
Proof. intros H. red in H. unfold initialized. now rewrite H. Qed.

Ltac head_tac :=
  repeat match goal with
  | Hb : binder _ |- _ => apply binder_facts in Hb; destruct Hb
  | Hp : pbinder _ |- _ => apply pbinder_facts in Hp
  end;
  repeat split; auto;
  try (match goal with Hp : prov_name None _ ?f, E : is_self ?f = false |- _ => rewrite (prov_none _ _ Hp) in E; discriminate end);
  try (eapply typed_nos; [eassumption|]; set_solver).

Lemma head_recv Δ Γ rs s pay cont from k : typed Δ Γ None rs s (FRecv pay cont from k) ->
  initialized pay = false /\ ident pay <> "" /\ nos (ident pay) k /\ initialized cont = false /\
  (is_self from = false -> ident cont <> "" /\ nos (ident cont) k).
Proof. intros H. inversion H; subst; head_tac. Qed.

Lemma head_new Δ Γ rs s x body k : typed Δ Γ None rs s (FNew x body k) ->
  initialized x = false /\ ident x <> "" /\ nos (ident x) k.
Proof. intros H. inversion H; subst; head_tac. Qed.

Lemma head_split Δ Γ rs s x y from k : typed Δ Γ None rs s (FSplit x y from k) ->
  initialized x = false /\ ident x <> "" /\ nos (ident x) k /\ initialized y = false /\ ident y <> "" /\ nos (ident y) k.
Proof. intros H. inversion H; subst; head_tac. Qed.

Lemma head_shift Δ Γ rs s x from k : typed Δ Γ None rs s (FShift x from k) ->
  initialized x = false /\ (is_self from = false -> ident x <> "" /\ nos (ident x) k).
Proof. intros H. inversion H; subst; head_tac. Qed.

Lemma brs_p_find Δ Γ rs bs b l pay k : typed_brs_p D F teq Δ Γ rs bs b -> find_branch l b = Some (pay, k) -> initialized pay = false.
Proof.
  induction 1 as [|? ? ? l' pay' k' r A Hf Hp Ht _ IH]; cbn [find_branch]; [discriminate|].
  destruct (String.eqb l' l); [intros E; inversion E; subst; auto using pbinder_facts | exact IH].
Qed.
Lemma brs_c_find Δ Γ sh rs s bs b l pay k : typed_brs_c D F teq Δ Γ sh rs s bs b -> find_branch l b = Some (pay, k) ->
  initialized pay = false /\ ident pay <> "" /\ nos (ident pay) k.
Proof.
  induction 1 as [|? ? ? ? ? l' pay' k' r A Hf Hp Hs Ht _ IH]; cbn [find_branch]; [discriminate|].
  destruct (String.eqb l' l); [|exact IH]. intros E; inversion E; subst. destruct (binder_facts _ Hp) as [B1 B2].
  repeat split; auto. eapply typed_nos; [eassumption|]. set_solver.
Qed.
Lemma head_case Δ Γ rs s from b l pay k : typed Δ Γ None rs s (FCase from b) -> find_branch l b = Some (pay, k) ->
  initialized pay = false /\ (is_self from = false -> ident pay <> "" /\ nos (ident pay) k).
Proof.
  intros H Hf. inversion H; subst.
  - split; [eapply brs_p_find; eauto|]. intros E.
    match goal with Hp : prov_name None _ _ |- _ => rewrite (prov_none _ _ Hp) in E; discriminate end.
  - match goal with Hb : typed_brs_c _ _ _ _ _ _ _ _ _ _ |- _ => destruct (brs_c_find _ _ _ _ _ _ _ _ _ _ Hb Hf) as (B1 & B2 & B3) end. auto.
Qed.
End Heads.

(* ---------------------------------------------------------------- free names *)
Definition nsl (l : list name) : Prop := Forall (fun n => is_self n = false) l.
Lemma name_equal_nn'_l n b : is_self n = false -> name_equal (nn' n) b = name_equal n b.
Proof.
  intros Hs. unfold name_equal. rewrite nn'_initialized, nn'_chan. destruct (initialized n) eqn:En.
  - destruct (initialized b); cbn; [reflexivity|]. now rewrite !andb_false_r.
  - now rewrite (nn'_var n En Hs).
Qed.
Lemma name_equal_nn'_both a b : is_self a = false -> is_self b = false -> name_equal (nn' a) (nn' b) = name_equal a b.
Proof.
  intros Ha Hb. rewrite (name_equal_nn'_l a _ Ha). unfold name_equal. rewrite nn'_initialized, nn'_chan.
  destruct (initialized b) eqn:Eb.
  - destruct (initialized a); cbn; [reflexivity|]. now rewrite !andb_false_r.
  - now rewrite (nn'_var b Eb Hb).
Qed.
Lemma nsl_app a b : nsl a -> nsl b -> nsl (a ++ b). Proof. apply Forall_app_2. Qed.
Lemma nsl_append n l : nsl l -> nsl (append_if_not_self n l).
Proof. unfold append_if_not_self. destruct (is_self n) eqn:E; [auto|]. intros H. apply nsl_app; [exact H|]. constructor; [exact E | constructor]. Qed.
Lemma nsl_remove l b : nsl l -> nsl (remove_bound l b).
Proof. unfold remove_bound, nsl. rewrite !List.Forall_forall. intros H n Hn. apply filter_In in Hn. apply H, Hn. Qed.
Lemma nsl_merge : forall b a, nsl a -> nsl b -> nsl (merge_names a b).
Proof.
  induction b as [|n b IH]; intros a Ha Hb; cbn [merge_names]; [exact Ha|]. inversion Hb; subst.
  apply IH; [|assumption]. destruct (name_exists a n); [exact Ha|]. apply nsl_app; [exact Ha|]. constructor; [assumption | constructor].
Qed.
Lemma nsl_free : (forall f, nsl (free_names f)) /\ (forall b acc, nsl acc -> nsl (free_names_brs acc b)).
Proof.
  apply form_branches_ind; intros; cbn [free_names free_names_brs];
    repeat first [apply nsl_merge | apply nsl_append | apply nsl_remove | apply Forall_nil | assumption | apply H | apply H0]; auto.
  - generalize (@nil name) (Forall_nil (fun n : name => is_self n = false)). induction args as [|a args IH]; intros acc Ha; cbn [fold_left]; [exact Ha|].
    apply IH. now apply nsl_append.
Qed.

Lemma append_nn' n l : append_if_not_self (nn' n) (map nn' l) = map nn' (append_if_not_self n l).
Proof. unfold append_if_not_self. rewrite nn'_is_self. destruct (is_self n); [reflexivity|]. now rewrite map_app. Qed.
Lemma remove_nn' l b : nsl l -> remove_bound (map nn' l) b = map nn' (remove_bound l b).
Proof.
  unfold remove_bound. induction 1 as [|n l Hn _ IH]; cbn [map filter]; [reflexivity|].
  rewrite (name_equal_nn'_l n b Hn). destruct (negb (name_equal n b)); cbn [map]; now rewrite IH.
Qed.
Lemma exists_nn' l c : nsl l -> is_self c = false -> name_exists (map nn' l) (nn' c) = name_exists l c.
Proof.
  intros Hl Hc. unfold name_exists. induction Hl as [|n l Hn _ IH]; cbn [map existsb]; [reflexivity|].
  now rewrite (name_equal_nn'_both n c Hn Hc), IH.
Qed.
Lemma merge_nn' : forall b a, nsl a -> nsl b -> merge_names (map nn' a) (map nn' b) = map nn' (merge_names a b).
Proof.
  induction b as [|n b IH]; intros a Ha Hb; cbn [map merge_names]; [reflexivity|]. inversion Hb; subst.
  rewrite exists_nn' by assumption. destruct (name_exists a n); [apply IH; assumption|].
  rewrite <- IH; [now rewrite map_app | | assumption]. apply nsl_app; [exact Ha|]. constructor; [assumption | constructor].
Qed.

Lemma free_names_nf' :
  (forall f, free_names (nf' f) = map nn' (free_names f)) /\
  (forall b acc, nsl acc -> free_names_brs (map nn' acc) (nbs' b) = map nn' (free_names_brs acc b)).
Proof.
  pose proof (proj1 nsl_free) as NF.
  apply form_branches_ind; intros; cbn [free_names free_names_brs nf' nbs'];
    rewrite ?H, ?H0; change (@nil name) with (map nn' []);
    rewrite ?append_nn';
    repeat (rewrite ?remove_nn', ?merge_nn', ?append_nn' by
              (repeat first [apply nsl_merge | apply nsl_append | apply nsl_remove | apply Forall_nil | apply NF])); try reflexivity.
  - apply H. repeat first [apply nsl_append | apply Forall_nil].
  - change (map nn' (@nil name)) with (@nil name).
    enough (G : forall acc, fold_left (fun acc n => append_if_not_self n acc) (map nn' args) (map nn' acc) =
                            map nn' (fold_left (fun acc n => append_if_not_self n acc) args acc)) by apply (G []).
    induction args as [|a args IH]; intros acc; cbn [map fold_left]; [reflexivity|]. rewrite append_nn'. apply IH.
  - rewrite merge_nn' by (first [assumption | apply nsl_remove, NF]).
    apply H0. apply nsl_merge; [assumption|]. apply nsl_remove, NF.
Qed.

(* ---------------------------------------------------------------- effects *)
(* the forwards that reclaim the clients of a dropped / GC'd process, explicitly *)
Definition dfw (self : pid) (n : nat) (cl : name) : spawn :=
  Spawn [mkName (ident cl) false (pol cl) (nty cl) (Some (self ++ [n]))]
        (FFwd (mkName (ident cl) true (pol cl) (nty cl) None) cl true).
Fixpoint dfws (self : pid) (n : nat) (cls : list name) : list spawn * list cid :=
  match cls with
  | [] => ([], [])
  | cl :: r => (dfw self n cl :: fst (dfws self (S n) r), (self ++ [n]) :: snd (dfws self (S n) r))
  end.
Lemma droppable_fwds_spec self : forall cls p,
  droppable_fwds self p cls =
  (fst (dfws self (pr_next p) cls), snd (dfws self (pr_next p) cls), Proc (pr_provs p) (pr_body0 p) (pr_next p + length cls)).
Proof.
  induction cls as [|cl cls IH]; intros p; cbn [droppable_fwds dfws fst snd length].
  - rewrite Nat.add_0_r. destruct p; reflexivity.
  - unfold droppable_fwd, fresh_chan. cbn [chan]. rewrite IH. cbn [pr_next pr_provs pr_body0]. unfold dfw.
    replace (S (pr_next p) + length cls)%nat with (pr_next p + S (length cls))%nat by lia. reflexivity.
Qed.
Lemma dfw_T self n cl : nspawn' (dfw self n (nn' cl)) = nspawn' (dfw self n cl).
Proof. unfold dfw, nspawn'. cbn [sp_provs sp_body nf' map]. rewrite nn'_nty, nn'_pol, nn'_idem. reflexivity. Qed.
Lemma dfws_T self : forall cls n,
  map nspawn' (fst (dfws self n (map nn' cls))) = map nspawn' (fst (dfws self n cls)) /\
  snd (dfws self n (map nn' cls)) = snd (dfws self n cls).
Proof.
  induction cls as [|cl cls IH]; intros n; cbn [map dfws fst snd]; [auto|].
  destruct (IH (S n)) as [E1 E2]. now rewrite dfw_T, E1, E2.
Qed.

Section Trans.
Variable D : tenv.
Variable F : list fundef.
Variable teq : sty -> sty -> Prop.
Local Notation typed := (typed D F teq).

Ltac eff_eq :=
  unfold neres', neff', nafter', no_eff, np', set_body, set_provs_body;
  cbn [e_after e_spawn e_newch e_close e_out pr_provs pr_body0 pr_next map];
  rewrite ?map_nn'_idem, ?nn'_idem, ?(proj1 nf'_idem), ?cids_of_nn'.

Lemma on_message_T Δ rs s self p m : typed Δ ∅ None rs s (pr_body0 p) -> mok m ->
  neres' (on_message self (np' p) (nm' m)) = neres' (on_message self p m).
Proof.
  intros Hty Hm. unfold on_message. cbn [np' pr_body0 pr_provs nm' m_rule m_c1 m_c2 m_provs m_label].
  assert (Efwd : match nf' (pr_body0 p) with FFwd _ _ _ => true | _ => false end =
                 match pr_body0 p with FFwd _ _ _ => true | _ => false end) by (destruct (pr_body0 p); reflexivity).
  rewrite Efwd. clear Efwd.
  destruct (rule_eqb (m_rule m) RFWD && negb match pr_body0 p with FFwd _ _ _ => true | _ => false end).
  { eff_eq. reflexivity. }
  destruct (rule_eqb (m_rule m) RGC && negb match pr_body0 p with FFwd _ _ _ => true | _ => false end).
  { rewrite (proj1 free_names_nf'). fold (np' p). rewrite !droppable_fwds_spec.
    destruct (dfws_T self (free_names (pr_body0 p)) (pr_next (np' p))) as [E1 E2]. cbn [np' pr_next] in *.
    unfold neres', neff'. cbn [e_after e_spawn e_newch e_close e_out nafter']. now rewrite E1, E2. }
  destruct (pr_body0 p) eqn:Eb; cbn [nf']; try reflexivity; rewrite ?nn'_is_self.
  - (* recv *) destruct (head_recv D F teq _ _ _ _ _ _ _ _ Hty) as (Hp & Hpn & Hpk & Hc & Hcc).
    unfold mok in Hm. destruct (is_self from) eqn:Es.
    + destruct (rule_eqb (m_rule m) RRCV) eqn:Er; [|reflexivity]. destruct (m_rule m); try discriminate Er. destruct Hm as [M1 M2].
      eff_eq. do 4 f_equal. apply (subst_C_congr cont _ _ Hc).
      apply subst_B_congr; auto using nn'_idem.
      * apply nos_nf'; auto.
      * apply nf'_idem.
    + destruct (Hcc eq_refl) as [Hcn Hck].
      destruct (rule_eqb (m_rule m) RSND) eqn:Er; [|reflexivity]. destruct (m_rule m); try discriminate Er. destruct Hm as [M1 M2].
      eff_eq. do 4 f_equal.
      apply subst_B_congr; auto using nn'_idem.
      * apply nos_subst; [now rewrite uself_nn' | apply nos_nf'; auto].
      * apply nos_subst; auto.
      * apply subst_B_congr; auto using nn'_idem; [apply nos_nf'; auto | apply nf'_idem].
  - (* case *) unfold mok in Hm. destruct (is_self from) eqn:Es.
    + destruct (rule_eqb (m_rule m) RBRA) eqn:Er; [|reflexivity]. rewrite find_branch_nf'.
      destruct (find_branch (m_label m) bs) as [[pay k]|] eqn:Ef; cbn [option_map fst snd]; [|reflexivity].
      destruct (head_case D F teq _ _ _ _ _ _ _ _ _ Hty Ef) as [Hp _].
      eff_eq. do 4 f_equal. apply (subst_C_congr pay _ _ Hp). apply nf'_idem.
    + destruct (rule_eqb (m_rule m) RSEL) eqn:Er; [|reflexivity]. destruct (m_rule m); try discriminate Er.
      rewrite find_branch_nf'.
      destruct (find_branch (m_label m) bs) as [[pay k]|] eqn:Ef; cbn [option_map fst snd]; [|reflexivity].
      destruct (head_case D F teq _ _ _ _ _ _ _ _ _ Hty Ef) as [Hp Hq]. destruct (Hq Es) as [Hpn Hpk].
      eff_eq. do 4 f_equal. apply subst_B_congr; auto using nn'_idem; [apply nos_nf'; auto | apply nf'_idem].
  - (* wait *) destruct (rule_eqb (m_rule m) RCLS); [|reflexivity]. eff_eq. reflexivity.
  - (* fwd *) destruct droppable.
    + rewrite !nn'_initialized.
      assert (E : (if initialized (m_c1 m) then [nn' (m_c1 m)] else []) ++ (if initialized (m_c2 m) then [nn' (m_c2 m)] else []) =
                  map nn' ((if initialized (m_c1 m) then [m_c1 m] else []) ++ (if initialized (m_c2 m) then [m_c2 m] else [])))
        by (destruct (initialized (m_c1 m)), (initialized (m_c2 m)); reflexivity).
      rewrite E. fold (np' p). rewrite !droppable_fwds_spec.
      match goal with |- context [dfws self _ (map nn' ?l)] => destruct (dfws_T self l (pr_next (np' p))) as [E1 E2] end.
      cbn [np' pr_next] in *. unfold neres', neff'. cbn [e_after e_spawn e_newch e_close e_out nafter']. now rewrite E1, E2.
    + destruct (m_rule m); try reflexivity; try (eff_eq; cbn [nf']; rewrite ?nn'_idem; reflexivity).
      destruct (m_provs m) as [|q l]; cbn [map]; [reflexivity|]. eff_eq. cbn [map nf']. rewrite ?nn'_idem, ?map_nn'_idem. reflexivity.
  - (* shift *) destruct (head_shift D F teq _ _ _ _ _ _ _ Hty) as [Hx Hq]. unfold mok in Hm. destruct (is_self from) eqn:Es.
    + destruct (rule_eqb (m_rule m) RSHF); [|reflexivity]. eff_eq. do 4 f_equal. apply (subst_C_congr x _ _ Hx). apply nf'_idem.
    + destruct (Hq eq_refl) as [Hxn Hxk].
      destruct (rule_eqb (m_rule m) RCST) eqn:Er; [|reflexivity]. destruct (m_rule m); try discriminate Er.
      eff_eq. do 4 f_equal. apply subst_B_congr; auto using nn'_idem; [apply nos_nf'; auto | apply nf'_idem].
Qed.

(* ---------- calls ---------- *)
Hypothesis HF : funs_typed D F teq.

Lemma nsn_name_subst_var x old new n : initialized old = false -> nsn x new -> nsn x n -> nsn x (name_subst old new n).
Proof.
  intros Ho Hw Hn. unfold name_subst.
  assert (E : chan_eqb (chan n) (chan old) && initialized n = false).
  { unfold initialized in *. destruct (chan old); [discriminate|]. destruct (chan n); reflexivity. }
  rewrite andb_comm, E.
  destruct (negb (initialized n) && negb (initialized old) && String.eqb (ident n) (ident old)); [|exact Hn].
  intros Hu Ei. unfold uself, initialized in *. cbn [chan is_self ident] in *. apply Hw; auto.
Qed.
Lemma nos_subst_var x old new : initialized old = false -> nsn x new ->
  (forall f, nos x f -> nos x (subst old new f)) /\ (forall b, nosb x b -> nosb x (subst_brs old new b)).
Proof.
  intros Ho Hw. apply form_branches_ind; intros; cbn [subst subst_brs nos nosb] in *;
    repeat match goal with H : _ /\ _ |- _ => destruct H end;
    repeat match goal with |- context [if ?c then _ else _] => destruct c end;
    repeat split; auto using nsn_name_subst_var.
  apply List.Forall_forall. intros a Ha. apply in_map_iff in Ha. destruct Ha as (b & <- & Hb).
  apply nsn_name_subst_var; auto. rewrite List.Forall_forall in H. auto.
Qed.

(* parameters are instantiated one after the other; every argument is a client name of the caller *)
Lemma sub_all_T : forall ps as_ b b',
  Forall (fun p => initialized p = false /\ ident p <> "") ps ->
  Forall (fun a => uself a = false) as_ ->
  Forall (fun p => nos (ident p) b /\ nos (ident p) b') ps ->
  nf' b = nf' b' -> nf' (sub_all ps (map nn' as_) b) = nf' (sub_all ps as_ b').
Proof.
  induction ps as [|p ps IH]; intros as_ b b' Hps Has Hn E; [exact E|].
  destruct as_ as [|a as_]; [exact E|]. cbn [map sub_all].
  inversion Hps as [|? ? [Hp1 Hp2] Hps']; subst. inversion Has as [|? ? Ha Has']; subst. inversion Hn as [|? ? [Hn1 Hn2] Hn']; subst.
  apply IH; auto.
  - rewrite List.Forall_forall in *. intros q Hq. destruct (Hn' q Hq). split; apply nos_subst; auto. now rewrite uself_nn'.
  - apply subst_B_congr; auto using nn'_idem.
Qed.

Lemma get_function_in : forall (l : list fundef) fn n fd, get_function l fn n = Some fd -> In fd l.
Proof.
  induction l as [|d l IH]; intros fn n fd; cbn [get_function]; [discriminate|].
  destruct (String.eqb (fn_name d) fn && _); [intros E; inversion E; subst; left; reflexivity | intros E; right; eauto].
Qed.

Lemma args_nonself Δ Γ sh l ps : args_ok teq Δ Γ sh l ps -> Forall (fun a => uself a = false) l.
Proof.
  induction 1 as [|a p l l' (t & _ & Hc) _ IHl]; [constructor|]. constructor; [|exact IHl].
  apply uself_nonself. eapply client_nonself; eauto.
Qed.

(* the core: any table G in which the callee fd is found, fd typed (in any table F0), the client
   arguments not `self` names *)
Definition call_shape (fd : fundef) (args : list name) : Prop :=
  (length args = length (fn_params fd) /\ Forall (fun a => uself a = false) args) \/
  (exists a0 rest, args = a0 :: rest /\ length rest = length (fn_params fd) /\ Forall (fun a => uself a = false) rest).

Lemma call_body_T0 (G F0 : list fundef) fn args fd :
  get_function G fn (length args) = Some fd -> fun_ok D F0 teq fd -> call_shape fd args ->
  option_map nf' (call_body G fn (map nn' args)) = option_map nf' (call_body G fn args).
Proof.
  intros Eg Hfd Hargs. unfold call_body. rewrite map_length, Eg.
  destruct Hfd as (tf & Etf & Hbind & Hnd & Hty' & Hbody).
  assert (Hps : Forall (fun p => initialized p = false /\ ident p <> "") (fn_params fd)).
  { rewrite List.Forall_forall in *. intros p Hp. apply binder_facts, Hbind, Hp. }
  fold sub_all.
  assert (Hcl : forall l : list name, Forall (fun a => uself a = false) l -> Forall (fun a => uself a = false) l) by auto.
  destruct (fn_explicit fd) as [ep|] eqn:Eep.
  - destruct Hbody as (Hepc & Hepn & Hb).
    assert (Hnos : Forall (fun p => nos (ident p) (fn_body fd)) (fn_params fd)).
    { rewrite List.Forall_forall in *. intros p Hp. eapply typed_nos; [exact Hb|].
      destruct (Hps p Hp) as [_ Hne]. intro Hin. apply elem_of_union in Hin. destruct Hin as [Hin|Hin]; apply elem_of_singleton in Hin.
      - congruence.
      - apply Hepn. rewrite <- Hin. apply elem_of_list_In, in_map, Hp. }
    destruct Hargs as [[Hl Ha]|(a0 & rest & -> & Hl & Ha)].
    + rewrite Hl, Nat.eqb_refl. cbn [option_map]. f_equal. apply sub_all_T; auto.
      rewrite List.Forall_forall in *. auto.
    + cbn [length]. rewrite Hl. destruct (S (length (fn_params fd)) =? length (fn_params fd))%nat eqn:En; [apply Nat.eqb_eq in En; lia|].
      rewrite Nat.eqb_refl. cbn [map option_map]. f_equal. rewrite nn'_is_self.
      replace (if is_self a0 then new_self "" else nn' a0) with (nn' (if is_self a0 then new_self "" else a0))
        by (destruct (is_self a0); reflexivity).
      set (new := if is_self a0 then new_self "" else a0).
      assert (Hepi : initialized ep = false) by (unfold initialized; now rewrite Hepc).
      assert (Hnew : forall x, x <> "" -> nsn x new).
      { intros x Hx. unfold new. destruct (is_self a0) eqn:Ea; [|apply nsn_not_uself, uself_nonself, Ea].
        intros _ E. cbn in E. congruence. }
      apply sub_all_T; auto.
      * rewrite List.Forall_forall in *. intros p Hp. destruct (Hps p Hp) as [_ Hne].
        split; apply nos_subst_var; auto. apply nsn_nn'; auto.
      * apply (proj1 (subst_D ep new)).
  - assert (Hnos : Forall (fun p => nos (ident p) (fn_body fd)) (fn_params fd)).
    { rewrite List.Forall_forall in *. intros p Hp. eapply typed_nos; [exact Hbody|].
      destruct (Hps p Hp) as [_ Hne]. intro Hin. apply elem_of_singleton in Hin. congruence. }
    destruct Hargs as [[Hl Ha]|(a0 & rest & -> & Hl & Ha)].
    + rewrite Hl, Nat.eqb_refl. cbn [option_map]. f_equal. apply sub_all_T; auto.
      rewrite List.Forall_forall in *. auto.
    + cbn [length]. rewrite Hl. destruct (S (length (fn_params fd)) =? length (fn_params fd))%nat eqn:En; [apply Nat.eqb_eq in En; lia|].
      rewrite Nat.eqb_refl. cbn [map tl option_map]. f_equal. apply sub_all_T; auto.
      rewrite List.Forall_forall in *. auto.
Qed.

Lemma typed_call_shape Δ Γ sh rs s fn args pt : typed Δ Γ sh rs s (FCall fn args pt) ->
  exists fd, get_function F fn (length args) = Some fd /\ call_shape fd args.
Proof.
  intros Hty. inversion Hty as [| | | | | | | | | | | | | ? ? ? ? ? ? ? fd tf0 Eg Etf0 Hteq0 Hargs | | | | | |]; subst.
  exists fd. split; [exact Eg|]. destruct Hargs as [[Hl Ha]|(a0 & rest & -> & Hl & Hp0 & Ha)].
  - left. split; [exact Hl|]. eapply args_nonself; eauto.
  - right. exists a0, rest. repeat split; auto. eapply args_nonself; eauto.
Qed.
Lemma funs_typed_in fd : In fd F -> fun_ok D F teq fd.
Proof. unfold funs_typed in HF. rewrite List.Forall_forall in HF. apply HF. Qed.
Lemma call_body_T Δ Γ sh rs s fn args pt : typed Δ Γ sh rs s (FCall fn args pt) ->
  option_map nf' (call_body F fn (map nn' args)) = option_map nf' (call_body F fn args).
Proof.
  intros Hty. destruct (typed_call_shape _ _ _ _ _ _ _ _ Hty) as (fd & Eg & Hs).
  eapply call_body_T0; eauto. apply funs_typed_in. eapply get_function_in; eauto.
Qed.

(* ---------- internal transitions: cut, call, drop, split, print ---------- *)
Lemma internal_effect_T md Δ rs s self p : typed Δ ∅ None rs s (pr_body0 p) ->
  neres' (internal_effect md F self (np' p)) = neres' (internal_effect md F self p).
Proof.
  intros Hty. unfold internal_effect. cbn [np' pr_body0].
  destruct (pr_body0 p) eqn:Eb; cbn [nf']; try reflexivity.
  - (* new *) destruct (head_new D F teq _ _ _ _ _ _ _ Hty) as (Hx & Hxn & Hxk).
    unfold fresh_chan. cbn [pr_provs pr_body0 pr_next]. eff_eq. cbn [map].
    unfold nspawn'. cbn [sp_provs sp_body map]. rewrite (proj1 nf'_idem). do 4 f_equal.
    apply subst_B_congr; auto; [apply nos_nf'; auto | apply nf'_idem].
  - (* split *) destruct (head_split D F teq _ _ _ _ _ _ _ _ Hty) as (Hx & Hxn & Hxk & Hy & Hyn & Hyk).
    unfold fresh_chan. cbn [pr_provs pr_body0 pr_next]. rewrite nn'_nty, nn'_pol. eff_eq. cbn [map].
    unfold nspawn'. cbn [sp_provs sp_body map nf']. rewrite !nn'_idem. do 4 f_equal.
    set (c1 := mkName (ident x) false (pol from) (nty from) (Some (self ++ [pr_next p]))).
    set (c2 := mkName (ident y) false (pol from) (nty from) (Some (self ++ [S (pr_next p)]))).
    apply subst_B_congr; auto.
    + apply nos_subst; [reflexivity | apply nos_nf'; auto].
    + apply nos_subst; [reflexivity | auto].
    + apply subst_B_congr; auto; [apply nos_nf'; auto | apply nf'_idem].
  - (* call *) pose proof (call_body_T _ _ _ _ _ _ _ _ Hty) as E.
    destruct (call_body F f (map nn' args)) as [b|], (call_body F f args) as [b'|]; cbn [option_map] in E; try discriminate; [|reflexivity].
    inversion E as [E']. eff_eq. now rewrite E'.
  - (* drop *) destruct (is_np md); [eff_eq; reflexivity|].
    unfold droppable_fwd, fresh_chan. cbn [pr_provs pr_body0 pr_next chan]. rewrite nn'_nty, nn'_pol. eff_eq. cbn [map].
    unfold nspawn'. cbn [sp_provs sp_body map nf']. rewrite !nn'_idem. reflexivity.
  - (* print *) eff_eq. reflexivity.
Qed.

(* ---------- what a process does next ---------- *)
Lemma action_of_T md p : action_of md D (np' p) = naction' (action_of md D p).
Proof.
  assert (Es : self_chan (np' p) = self_chan p) by (unfold self_chan, prov0, np'; cbn; destruct (pr_provs p); cbn; [reflexivity | apply nn'_chan]).
  assert (Em : multi (np' p) = multi p) by (unfold multi, np'; cbn; now rewrite map_length).
  assert (En : self_name_of (np' p) = nn' (self_name_of p)) by (unfold self_name_of, prov0, np'; cbn; destruct (pr_provs p); reflexivity).
  assert (Ef : forall n, fwd_polarity D (nn' n) = fwd_polarity D n) by (intros n; unfold fwd_polarity; now rewrite nn'_nty).
  unfold action_of, send_on, recv_on, internal. cbn [np' pr_body0]. fold (np' p). rewrite ?Em, ?Es.
  destruct (pr_body0 p); cbn [nf']; rewrite ?nn'_is_self, ?nn'_chan, ?Ef, ?En;
    repeat match goal with
    | |- context [if ?b then _ else _] => destruct b
    | |- context [match ?x with _ => _ end] => destruct x
    end; reflexivity.
Qed.

(* ---------- duplication ---------- *)
Definition frow (self : pid) (base : nat) (fn : name) (n : nat) : list name :=
  map (fun i => mkName (ident fn) false (pol fn) (nty fn) (Some (self ++ [base + i]))) (seq 0 n).
Fixpoint fmat (self : pid) (base : nat) (fns : list name) (n : nat) : list (list name) :=
  match fns with [] => [] | fn :: r => frow self base fn n :: fmat self (base + n) r n end.

Lemma fresh_row_spec self fn : forall n p,
  fresh_row self p fn n = (frow self (pr_next p) fn n, Proc (pr_provs p) (pr_body0 p) (pr_next p + n)).
Proof.
  induction n as [|n IH]; intros p; cbn [fresh_row].
  - unfold frow. cbn. rewrite Nat.add_0_r. destruct p; reflexivity.
  - unfold fresh_chan. rewrite IH. cbn [pr_next pr_provs pr_body0]. unfold frow. cbn [seq map]. rewrite Nat.add_0_r.
    rewrite <- seq_shift, map_map.
    replace (S (pr_next p) + n)%nat with (pr_next p + S n)%nat by lia. f_equal. f_equal.
    apply map_ext. intros i. replace (S (pr_next p) + i)%nat with (pr_next p + S i)%nat by lia. reflexivity.
Qed.
Lemma fresh_matrix_spec self n : forall fns p,
  fresh_matrix self p fns n = (fmat self (pr_next p) fns n, Proc (pr_provs p) (pr_body0 p) (pr_next p + length fns * n)).
Proof.
  induction fns as [|fn fns IH]; intros p; cbn [fresh_matrix fmat length].
  - cbn. rewrite Nat.add_0_r. destruct p; reflexivity.
  - rewrite fresh_row_spec, IH. cbn [pr_next pr_provs pr_body0].
    replace (pr_next p + n + length fns * n)%nat with (pr_next p + (n + length fns * n))%nat by lia. reflexivity.
Qed.

Lemma frow_T self base fn n : map nn' (frow self base (nn' fn) n) = map nn' (frow self base fn n).
Proof. unfold frow. rewrite !map_map. apply map_ext. intros i. rewrite nn'_pol, nn'_nty. reflexivity. Qed.
Lemma frow_init self base fn n : Forall (fun c => initialized c = true) (frow self base fn n).
Proof. unfold frow. apply List.Forall_forall. intros c Hc. apply in_map_iff in Hc. destruct Hc as (i & <- & _). reflexivity. Qed.
Lemma frow_cids self base fn n : cids_of (frow self base (nn' fn) n) = cids_of (frow self base fn n).
Proof. unfold frow, cids_of. rewrite !flat_map_concat_map, !map_map. reflexivity. Qed.

Lemma subst_A_congr fn c c' X X' : initialized fn = true -> initialized c = true -> initialized c' = true ->
  nn' c' = nn' c -> nf' X = nf' X' -> nf' (subst (nn' fn) c' X) = nf' (subst fn c X').
Proof.
  intros Hf Hc Hc' Ec EX.
  rewrite <- (proj1 (subst_A fn c Hf Hc) X').
  assert (Hf' : initialized (nn' fn) = true) by now rewrite nn'_initialized.
  rewrite <- (proj1 (subst_A (nn' fn) c' Hf' Hc') X). now rewrite nn'_idem, Ec, EX.
Qed.

Lemma nth_error_seq' : forall n st i, nth_error (seq st n) i = if (i <? n)%nat then Some (st + i)%nat else None.
Proof.
  induction n as [|n IH]; intros st i; cbn [seq]; [destruct i; reflexivity|].
  destruct i as [|i]; cbn [nth_error]; [now rewrite Nat.add_0_r|]. rewrite IH.
  change (S i <? S n)%nat with (i <? n)%nat. destruct (i <? n)%nat; [f_equal; lia | reflexivity].
Qed.
Lemma nth_frow self base fn n i : nth_error (frow self base fn n) i =
  if (i <? n)%nat then Some (mkName (ident fn) false (pol fn) (nty fn) (Some (self ++ [base + i]))) else None.
Proof. unfold frow. rewrite nth_error_map, nth_error_seq'. destruct (i <? n)%nat; reflexivity. Qed.

Lemma subst_col_T self n i : forall fns base b b', Forall (fun fn => initialized fn = true) fns -> nf' b = nf' b' ->
  nf' (subst_col (map nn' fns) (fmat self base (map nn' fns) n) i b) = nf' (subst_col fns (fmat self base fns n) i b').
Proof.
  induction fns as [|fn fns IH]; intros base b b' Hf E; [exact E|]. inversion Hf; subst.
  cbn [map fmat subst_col]. apply IH; [assumption|]. rewrite !nth_frow.
  destruct (i <? n)%nat; [|exact E]. apply subst_A_congr; auto. now rewrite nn'_pol, nn'_nty.
Qed.

Lemma fmat_cids self n : forall fns base, flat_map cids_of (fmat self base (map nn' fns) n) = flat_map cids_of (fmat self base fns n).
Proof. induction fns as [|fn fns IH]; intros base; cbn [map fmat flat_map]; [reflexivity|]. now rewrite frow_cids, IH. Qed.

Lemma dup_effect_T Δ rs s self p : typed Δ ∅ None rs s (pr_body0 p) ->
  neres' (dup_effect self (np' p)) = neres' (dup_effect self p).
Proof.
  intros Hty. unfold dup_effect. cbn [np' pr_provs pr_body0]. rewrite map_length.
  destruct (length (pr_provs p) =? 1)%nat; [reflexivity|].
  rewrite (proj1 free_names_nf'). fold (np' p). rewrite !fresh_matrix_spec. cbn [np' pr_next].
  assert (Hfn : Forall (fun fn => initialized fn = true) (free_names (pr_body0 p))).
  { apply List.Forall_forall. intros fn Hin. destruct (free_names_closed D F teq _ _ _ _ _ Hty Hin) as (t & Hs & _ & Hc).
    unfold initialized. destruct (chan fn); [reflexivity|]. destruct Hc as [_ (t' & Hl & _)]. rewrite lookup_empty in Hl. discriminate. }
  set (fns := free_names (pr_body0 p)) in *. set (n := length (pr_provs p)).
  unfold neres', neff'. cbn [e_after e_spawn e_newch e_close e_out nafter']. f_equal. f_equal.
  - rewrite !map_app. f_equal.
    + change (map nn' (pr_provs p)) with (nn' <$> pr_provs p). rewrite imap_fmap.
      change (map nspawn' ?l) with (nspawn' <$> l). rewrite !fmap_imap. apply imap_ext. intros i pr _. cbn.
      unfold nspawn'. cbn [sp_provs sp_body map]. rewrite nn'_idem. f_equal.
      apply (subst_col_T self n i fns (pr_next p)); [exact Hfn | apply nf'_idem].
    + generalize (pr_next p). clear Hfn. induction fns as [|fn fns IH]; intros base; cbn [map fmat combine]; [reflexivity|].
      rewrite IH. f_equal. unfold nspawn'. cbn [sp_provs sp_body nf']. rewrite nn'_nty, !nn'_idem, frow_T. reflexivity.
  - apply fmat_cids.
Qed.

(* ---------- messages ---------- *)
Lemma chan_ty_uself Δ n t : chan_ty teq Δ n t -> uself n = false.
Proof. intros H. apply uself_nonself. eapply client_nonself; eauto. Qed.
Lemma prov_ty_uself Δ n t : prov_ty teq Δ n t -> uself n = false.
Proof. intros (c & t' & Hc & _). apply uself_init. unfold initialized. now rewrite Hc. Qed.

Lemma msg_typed_mok Δ k m : msg_typed D teq Δ k m -> mok m.
Proof.
  intros (T & _ & H). unfold mok. destruct (m_rule m); try exact I;
    repeat match goal with H : exists _, _ |- _ => destruct H | H : _ /\ _ |- _ => destruct H end;
    repeat split; eauto using chan_ty_uself, prov_ty_uself.
Qed.
Lemma mok_zero : mok zero_msg. Proof. split; reflexivity. Qed.
Lemma nm'_idem m : nm' (nm' m) = nm' m.
Proof. unfold nm'. cbn. now rewrite !nn'_idem, map_nn'_idem. Qed.
Lemma mok_nm' m : mok (nm' m) <-> mok m.
Proof. unfold mok, nm'. cbn [m_rule m_c1 m_c2]. rewrite !uself_nn'. reflexivity. Qed.

Ltac selfs :=
  repeat match goal with
  | H : prov_name None _ ?n |- context [is_self ?n] => rewrite (prov_none _ _ H)
  | H : client_ty _ _ _ _ ?n _ |- context [is_self ?n] => rewrite (client_nonself _ _ _ _ _ _ H)
  end; cbn [negb].

(* the message a typed process sends *)
Lemma action_mok md Δ rs s p k m : typed Δ ∅ None rs s (pr_body0 p) ->
  Forall (fun n => initialized n = true) (pr_provs p) ->
  action_of md D p = ASend k m -> mok m.
Proof.
  intros Hty Hpr. assert (Hs : uself (self_name_of p) = false).
  { unfold self_name_of, prov0. destruct (pr_provs p) as [|n l]; cbn; [reflexivity|]. inversion Hpr; subst. now apply uself_init. }
  unfold action_of, send_on, recv_on, internal. destruct (pr_body0 p) eqn:Eb;
    inversion Hty; subst; selfs;
    repeat match goal with
    | |- context [if ?b then _ else _] => destruct b
    | |- context [match ?x with _ => _ end] => destruct x
    end; intros E; try discriminate E; inversion E; subst; unfold mok; cbn [m_rule m_c1 m_c2];
    repeat split; eauto using uself_nonself, client_nonself.
Qed.

(* ---------- applying an effect ---------- *)
Lemma add_spawns_T self : forall ss next m,
  add_spawns self next (map nspawn' ss) (np' <$> m) =
  (np' <$> fst (add_spawns self next ss m), snd (add_spawns self next ss m)).
Proof.
  induction ss as [|s0 ss IH]; intros next m; cbn [map add_spawns]; [reflexivity|].
  change (Proc (sp_provs (nspawn' s0)) (sp_body (nspawn' s0)) 0) with (np' (Proc (sp_provs s0) (sp_body s0) 0)).
  rewrite <- fmap_insert. apply IH.
Qed.
Lemma apply_effect_T c self p e :
  apply_effect (ncfg' c) self (np' p) (neff' e) = ncfg' (apply_effect c self p e).
Proof.
  unfold apply_effect. cbn [ncfg' procs chans out neff' e_after e_spawn e_newch e_close e_out].
  assert (Eb : match nafter' (e_after e) with Continue p' => pr_next p' | Finish => pr_next (np' p) end =
               match e_after e with Continue p' => pr_next p' | Finish => pr_next p end)
    by (destruct (e_after e); reflexivity).
  rewrite Eb. clear Eb. rewrite add_spawns_T.
  destruct (add_spawns self _ (e_spawn e) (procs c)) as [pm next1]. cbn [fst snd].
  unfold ncfg'. cbn [procs chans out]. f_equal.
  - destruct (e_after e) as [p'|]; cbn [nafter'].
    + rewrite fmap_insert. reflexivity.
    + now rewrite fmap_delete.
  - assert (E1 : forall l, foldr (fun ch m => <[ch := empty_chan]> m) (nch' <$> chans c) l =
                           nch' <$> foldr (fun ch m => <[ch := empty_chan]> m) (chans c) l).
    { induction l as [|ch l IH]; cbn [foldr]; [reflexivity|]. rewrite IH, fmap_insert. reflexivity. }
    rewrite E1. generalize (foldr (fun ch m => <[ch := empty_chan]> m) (chans c) (e_newch e)) as cm. intros cm.
    induction (e_close e) as [|ch l IH]; cbn [foldr]; [reflexivity|]. rewrite IH, lookup_fmap.
    destruct (foldr _ cm l !! ch) as [st|]; cbn [fmap option_fmap option_map]; [|reflexivity].
    now rewrite fmap_insert.
Qed.
Lemma ncfg'_idem c : ncfg' (ncfg' c) = ncfg' c.
Proof.
  unfold ncfg'. cbn [procs chans out]. f_equal.
  - rewrite <- map_fmap_compose. apply map_fmap_ext. intros i x _. apply np'_idem.
  - rewrite <- map_fmap_compose. apply map_fmap_ext. intros i [b cl] _. unfold nch'. cbn. f_equal. destruct b; cbn; [now rewrite nm'_idem | reflexivity].
Qed.
Lemma neff'_idem e : neff' (neff' e) = neff' e.
Proof.
  unfold neff'. cbn. f_equal.
  - destruct (e_after e); cbn; [now rewrite np'_idem | reflexivity].
  - rewrite map_map. apply map_ext. intros s0. unfold nspawn'. cbn. now rewrite map_nn'_idem, (proj1 nf'_idem).
Qed.

Lemma eff_step_T c self p x x' : neres' x' = neres' x ->
  nsres' (eff_step (ncfg' c) self (np' p) x') = nsres' (eff_step c self p x).
Proof.
  intros E. destruct x' as [e'|w'], x as [e|w]; cbn [neres'] in E; try discriminate; cbn [eff_step nsres']; [|congruence].
  assert (E' : neff' e' = neff' e) by congruence. f_equal. rewrite <- !apply_effect_T. now rewrite ncfg'_idem, np'_idem, E'.
Qed.

Lemma put_msg_T c ch st m : put_msg (ncfg' c) ch (nch' st) (option_map nm' m) = ncfg' (put_msg c ch st m).
Proof. unfold put_msg, ncfg'. cbn [procs chans out]. rewrite fmap_insert. reflexivity. Qed.
Lemma del_proc_T c p : del_proc (ncfg' c) p = ncfg' (del_proc c p).
Proof. unfold del_proc, ncfg'. cbn [procs chans out]. now rewrite fmap_delete. Qed.

(* ---------------------------------------------------------------- one step *)
Lemma polls_control_T md p : polls_control md D (np' p) = polls_control md D p.
Proof.
  unfold polls_control. rewrite action_of_T. destruct (action_of md D p); cbn [naction']; try reflexivity.
  cbn [np' pr_body0]. destruct (pr_body0 p); reflexivity.
Qed.
Lemma self_chan_T p : self_chan (np' p) = self_chan p.
Proof. unfold self_chan, prov0, np'. cbn. destruct (pr_provs p); cbn; [reflexivity | apply nn'_chan]. Qed.

Lemma proc_facts Δ p : proc_typed D F teq Δ p ->
  (exists rs s, typed Δ ∅ None rs s (pr_body0 p)) /\ Forall (fun n => initialized n = true) (pr_provs p).
Proof.
  intros (s & rs & _ & Hpr & Hty). split; [eauto|].
  eapply List.Forall_impl; [|exact Hpr]. intros n (c & t & Hc & _). unfold initialized. now rewrite Hc.
Qed.

Theorem stepT_erase md Δ c ch : cfg_typed D F teq Δ c ->
  nsres' (Runtime.step md D F (ncfg' c) ch) = nsres' (Runtime.step md D F c ch).
Proof.
  intros [Hprocs Hmsgs _ _]. unfold Runtime.step. destruct ch as [self|s0 r0|f0 t0].
  - cbn [ncfg' procs chans]. rewrite lookup_fmap. destruct (procs c !! self) as [p|] eqn:Ep; cbn [fmap option_fmap option_map]; [|reflexivity].
    destruct (proc_facts Δ p (Hprocs _ _ Ep)) as [(rs & s & Hty) Hpr].
    rewrite action_of_T. destruct (action_of md D p) as [| |k m|k| |k provs|w] eqn:Ea; cbn [naction']; try reflexivity.
    + fold (ncfg' c). apply eff_step_T. eapply dup_effect_T; eauto.
    + fold (ncfg' c). apply eff_step_T. eapply internal_effect_T; eauto.
    + rewrite lookup_fmap. destruct (chans c !! k) as [st|]; cbn [fmap option_fmap option_map]; [|reflexivity].
      cbn [nch' ch_closed ch_buf]. destruct (ch_closed st); [reflexivity|].
      destruct md; try (destruct (ch_buf st); reflexivity).
      destruct (ch_buf st); cbn [option_map]; [reflexivity|].
      cbn [nsres']. f_equal. fold (nch' st). change (Some (nm' m)) with (option_map nm' (Some m)).
      fold (ncfg' c). rewrite put_msg_T, del_proc_T. apply ncfg'_idem.
    + rewrite lookup_fmap. destruct (chans c !! k) as [st|] eqn:Ek; cbn [fmap option_fmap option_map]; [|reflexivity].
      cbn [nch' ch_closed ch_buf]. destruct (ch_buf st) as [m|] eqn:Eb; cbn [option_map].
      * fold (nch' st). change (@None msg) with (option_map nm' None). fold (ncfg' c). rewrite put_msg_T.
        apply eff_step_T. eapply on_message_T; eauto. eapply msg_typed_mok. eapply Hmsgs; eauto.
      * destruct (ch_closed st); [|reflexivity]. fold (ncfg' c). apply eff_step_T.
        change zero_msg with (nm' zero_msg) at 1. eapply on_message_T; eauto. apply mok_zero.
  - destruct md; [reflexivity| |].
    all: destruct (bool_decide (s0 = r0)); [reflexivity|];
      cbn [ncfg' procs chans]; rewrite !lookup_fmap;
      destruct (procs c !! s0) as [ps|] eqn:Es; cbn [fmap option_fmap option_map]; [|reflexivity];
      destruct (procs c !! r0) as [pr|] eqn:Er; cbn [fmap option_fmap option_map]; [|reflexivity];
      destruct (proc_facts Δ ps (Hprocs _ _ Es)) as [(rs1 & s1 & Hty1) Hpr1];
      destruct (proc_facts Δ pr (Hprocs _ _ Er)) as [(rs2 & s2 & Hty2) Hpr2];
      rewrite !action_of_T;
      destruct (action_of _ D ps) as [| |k m|k| |k provs|w] eqn:Ea; cbn [naction']; try reflexivity;
      destruct (action_of _ D pr) as [| |k' m'|k'| |k' provs'|w']; cbn [naction']; try reflexivity;
      destruct (bool_decide (k = k')); [|reflexivity];
      rewrite lookup_fmap; destruct (chans c !! k) as [st|]; cbn [fmap option_fmap option_map]; [|reflexivity];
      cbn [nch' ch_closed]; destruct (ch_closed st); [reflexivity|];
      fold (ncfg' c); rewrite del_proc_T; apply eff_step_T; eapply on_message_T; [exact Hty2|];
      exact (action_mok _ _ _ _ ps k m Hty1 Hpr1 Ea).
  - destruct (negb (is_np md) || bool_decide (f0 = t0)); [reflexivity|].
    cbn [ncfg' procs chans]. rewrite !lookup_fmap.
    destruct (procs c !! f0) as [pf|]; cbn [fmap option_fmap option_map]; [|reflexivity].
    destruct (procs c !! t0) as [pt|]; cbn [fmap option_fmap option_map]; [|reflexivity].
    rewrite action_of_T, self_chan_T, polls_control_T.
    destruct (action_of md D pf) as [| |k m|k| |k provs|w]; cbn [naction']; try reflexivity.
    destruct (self_chan pt) as [k'|]; [|reflexivity].
    destruct (bool_decide (k = k') && polls_control md D pt); [|reflexivity].
    cbn [nsres']. f_equal. fold (ncfg' c). rewrite del_proc_T.
    rewrite <- !apply_effect_T. rewrite ncfg'_idem, np'_idem. f_equal.
    unfold neff'. cbn [e_after e_spawn e_newch e_close e_out nafter' map]. f_equal.
    + f_equal. unfold set_provs_body, np'. cbn [pr_provs pr_body0 pr_next]. rewrite (proj1 nf'_idem). f_equal.
      rewrite !map_app, map_nn'_idem. f_equal. destruct (pr_provs pt); cbn [tl map]; [reflexivity | now rewrite map_nn'_idem].
    + cbn [np' pr_provs]. destruct (pr_provs pt) as [|n l]; cbn; [reflexivity | now rewrite nn'_chan].
Qed.

(* two typed configurations that differ only in identifiers of initialised / self names take the same
   step up to such identifiers *)
Corollary stepT_sim md Δ Δ' c c' ch : cfg_typed D F teq Δ c -> cfg_typed D F teq Δ' c' -> cfgT_sim c c' ->
  nsres' (Runtime.step md D F c ch) = nsres' (Runtime.step md D F c' ch).
Proof. intros H1 H2 E. rewrite <- (stepT_erase md Δ c ch H1), <- (stepT_erase md Δ' c' ch H2). unfold cfgT_sim in E. now rewrite E. Qed.
End Trans.
