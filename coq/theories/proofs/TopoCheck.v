(* TopoCheck.v — an executable test of the invariant `Topo` (spec/Topo.v) along runs of the model.
   NOT a proof: `topo_reachable` stays a premise of the C01 / C02 theorems.  The check module runs
   `run_topo` on every accepted program of the fragment under several schedules, so that the
   premise is at least validated on everything the correspondence suite executes (and a mistake in
   the definition of Topo that would make the theorems vacuous shows up). *)
From stdpp Require Import gmap strings.
Require Import Grits.Base Grits.ModeDefs Grits.Modes Grits.STypes Grits.Forms Grits.Subst Grits.TcDeps Grits.Expand
               Grits.Tc Grits.TcTop Grits.Runtime Grits.spec.Topo Grits.proofs.RtTheorems Grits.proofs.RtStaticCheck.

Definition all_objs (c : config) : list obj :=
  map (fun sp : pid * proc => OProc (fst sp) (snd sp)) (map_to_list (procs c)) ++
  omap (fun ks : cid * chan_st => match ch_buf (snd ks) with Some m => Some (OMsg (fst ks) m) | None => None end)
       (map_to_list (chans c)).

Definition set_of (l : list cid) : gset cid := list_to_set l.

(* pairwise disjoint, and the union *)
Fixpoint disjoint_union (ls : list (gset cid)) : option (gset cid) :=
  match ls with
  | [] => Some ∅
  | s :: r => match disjoint_union r with
              | Some u => if bool_decide (s ∩ u = ∅) then Some (s ∪ u) else None
              | None => None
              end
  end.

(* ranks by relaxation: a referred channel is deeper than the channel its object provides *)
Definition relax (objs : list obj) (rk : gmap cid nat) : gmap cid nat :=
  fold_left (fun acc o =>
               let base := fold_left (fun m k => Nat.max m (S (default 0%nat (rk !! k)))) (provides o) 0%nat in
               fold_left (fun acc j => if (default 0%nat (acc !! j) <? base)%nat then <[j := base]> acc else acc) (refs o) acc)
            objs rk.

Fixpoint relax_n (n : nat) (objs : list obj) (rk : gmap cid nat) : gmap cid nat :=
  match n with O => rk | S k => relax_n k objs (relax objs rk) end.

Definition rank_ok (objs : list obj) (rk : gmap cid nat) : bool :=
  forallb (fun o => forallb (fun k => forallb (fun j => (default 0%nat (rk !! k) <? default 0%nat (rk !! j))%nat) (refs o)) (provides o)) objs.

(* which part of Topo fails: 0 = none *)
Definition topo_code (c : config) : nat :=
  let objs := all_objs c in
  match disjoint_union (map (fun o => set_of (provides o)) objs) with
  | None => 1%nat
  | Some provs =>
    match disjoint_union (map (fun o => set_of (refs o)) objs) with
    | None => 2%nat
    | Some rfs =>
      if negb (bool_decide (rfs ⊆ provs)) then 3%nat
      else if negb (forallb (fun ks : cid * chan_st =>
                               negb (ch_closed (snd ks)) ||
                               (match ch_buf (snd ks) with None => true | Some _ => false end &&
                                negb (bool_decide (fst ks ∈ provs)) && negb (bool_decide (fst ks ∈ rfs))))
                            (map_to_list (chans c))) then 4%nat
      else if negb (rank_ok objs (relax_n (S (length objs)) objs ∅)) then 5%nat
      else 0%nat
    end
  end.

Inductive topo_run : Type :=
| TR_ok (configs : nat)                       (* every configuration of the run satisfies the test *)
| TR_bad (step : nat) (code : nat)            (* first configuration that fails, and which part *)
| TR_error (step : nat).

Fixpoint run_topo (fuel : nat) (pick : nat -> nat -> nat) (md : exec_mode) (D : tenv) (F : list fundef)
         (c : config) (n : nat) : topo_run :=
  match topo_code c with
  | S k => TR_bad n (S k)
  | O =>
    match fuel with
    | O => TR_ok n
    | S f =>
      match enabled md D F c with
      | [] => TR_ok (S n)
      | e0 :: es =>
        let m := S (length es) in
        let ch := nth (pick fuel m mod m) (e0 :: es) e0 in
        match step md D F c ch with
        | SStep c' => run_topo f pick md D F c' (S n)
        | SError _ _ => TR_error n
        | SNotEnabled => TR_ok (S n)
        end
      end
    end
  end.

(* for an accepted program of the fragment, given as text *)
Definition topo_check_text (txt : string) (md : exec_mode) (pick : nat -> nat -> nat) : option topo_run :=
  match parse_string txt with
  | POk p =>
    match typecheck p with
    | Accept p' => if in_fragment_b p' then Some (run_topo 3000 pick md (p_types p') (p_funs p') (init_config p') 0) else None
    | _ => None
    end
  | _ => None
  end.

Example topo_check_examples :
  topo_check_text example_text Async (fun _ _ => 0%nat) = Some (TR_ok 17) /\
  topo_check_text example_drop_text Async (fun _ n => pred n) = Some (TR_ok 15) /\
  topo_check_text example_text Sync (fun _ _ => 0%nat) = Some (TR_ok 12) /\
  topo_check_text example_drop_text Sync (fun _ _ => 0%nat) = Some (TR_ok 11).
Proof. repeat split; vm_compute; reflexivity. Qed.
