(* proofs/C14Examples.v — C14 on concrete programs, computed inside Coq with the model of the real
   pipeline (parse_string, typecheck, init_config, exec_run): the F24 reproducer (after the fix) and
   a renamed version — same verdict, prints related by the label map, in lock step; the hypotheses of
   the theorems (admissibility, key faithfulness) are satisfiable. *)
From stdpp Require Import gmap strings.
Require Import Grits.Base Grits.STypes Grits.Forms Grits.Expand Grits.TcDeps Grits.TcTop Grits.Runtime.
Require Import Grits.spec.Rename Grits.proofs.RenameRun Grits.proofs.C14Main.

Definition ex_text : string := "type B = lin &{two : 1}
let srv() : B = case self ( two<c> => e : lin 1 <- new close self; wait e; close c )
prc[z] : lin 1 = s <- new srv(); e : lin 1 <- new s.two<self>; print before; wait e; print after; close self".

(* the same program with every class of names renamed: type B -> Ty, label two -> snd, function
   srv -> server, channels c -> e1, e -> c (a swap-like collision), s -> e, z -> top, prints renamed *)
Definition ex_text_renamed : string := "type Ty = lin &{snd : 1}
let server() : Ty = case self ( snd<e1> => c : lin 1 <- new close self; wait c; close e1 )
prc[top] : lin 1 = e <- new server(); c : lin 1 <- new e.snd<self>; print avant; wait c; print apres; close self".

Definition swap (l : list (string * string)) (x : string) : string :=
  match alookup x l with Some y => y | None => x end.
Definition ex_ren : renaming :=
  Ren (swap [("c", "e1"); ("e", "c"); ("s", "e"); ("z", "top")])
      (swap [("srv", "server")]) (swap [("B", "Ty")]) (swap [("two", "snd")])
      (swap [("before", "avant"); ("after", "apres")]).

Definition parsed (s : string) : option program := match parse_string s with POk p => Some p | _ => None end.

(* renaming the AST of the first text gives the AST of the second text *)
Example ex_rename_parse : option_map (rn_program ex_ren) (parsed ex_text) = parsed ex_text_renamed.
Proof. vm_compute. reflexivity. Qed.

Example ex_verdicts :
  option_map (fun p => verdict_class (typecheck p)) (parsed ex_text) = Some "ACCEPT" /\
  option_map (fun p => verdict_class (typecheck p)) (parsed ex_text_renamed) = Some "ACCEPT".
Proof. split; vm_compute; reflexivity. Qed.

Definition run_text (md : exec_mode) (pick : nat -> nat -> nat) (s : string) : option (run_kind * list string) :=
  match parsed s with
  | Some p => match typecheck p with
              | Accept p' => let R := run_program 200 pick md p' in Some (kind_of R, labels (final_cfg R))
              | _ => None
              end
  | None => None
  end.
Definition pick_first : nat -> nat -> nat := fun _ _ => 0%nat.
Definition pick_last : nat -> nat -> nat := fun _ n => (n - 1)%nat.

Example ex_run_async : run_text Async pick_first ex_text = Some (KQuiescent, ["before"; "after"]) /\
                       run_text Async pick_first ex_text_renamed = Some (KQuiescent, ["avant"; "apres"]).
Proof. split; vm_compute; reflexivity. Qed.
Example ex_run_sync : run_text Sync pick_last ex_text = Some (KQuiescent, ["before"; "after"]) /\
                      run_text Sync pick_last ex_text_renamed = Some (KQuiescent, ["avant"; "apres"]).
Proof. split; vm_compute; reflexivity. Qed.
Example ex_run_np : run_text NP pick_first ex_text = Some (KQuiescent, ["before"; "after"]) /\
                    run_text NP pick_first ex_text_renamed = Some (KQuiescent, ["avant"; "apres"]).
Proof. split; vm_compute; reflexivity. Qed.

(* the renaming is admissible for the program *)
Lemma inj_on_dec l f : (forallb (fun x => forallb (fun y => negb (String.eqb (f x) (f y)) || String.eqb x y) l) l = true) -> inj_on l f.
Proof.
  intros H x y Hx Hy E. rewrite forallb_forall in H. specialize (H x Hx). rewrite forallb_forall in H. specialize (H y Hy).
  apply String.eqb_eq in E. rewrite E in H. cbn in H. apply String.eqb_eq. exact H.
Qed.
Example ex_admissible : forall p, parsed ex_text = Some p -> admissible ex_ren p.
Proof.
  intros p E. vm_compute in E. injection E as <-. unfold admissible. cbv zeta.
  split; [apply inj_on_dec; vm_compute; reflexivity|]. split; [reflexivity|].
  split; [apply inj_on_dec; vm_compute; reflexivity|].
  split; apply inj_on_dec; vm_compute; reflexivity.
Qed.
