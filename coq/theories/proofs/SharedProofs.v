(* SharedProofs.v — C13, the part that is a theorem: the access table regenerated from the code
   satisfies the discipline, and what the discipline gives pairwise. *)
Require Import Grits.Base Grits.SharedDefs Grits.gen.SharedAccess Grits.SharedDiscipline.

Lemma discipline_holds : discipline_ok = true.
Proof. vm_compute. reflexivity. Qed.

Lemma all_ok a : In a accesses -> access_ok a = true.
Proof.
  pose proof discipline_holds as H. unfold discipline_ok in H. apply andb_true_iff in H. destruct H as [_ H].
  rewrite forallb_forall in H. exact (H a).
Qed.

(* two accesses to the same counter field that can both happen while goroutines run are both atomic *)
Theorem atomic_fields_disciplined a b :
  In a accesses -> In b accesses ->
  a_struct a = a_struct b -> a_field a = a_field b ->
  discipline_of (a_struct a) (a_field a) = Some DAtomic ->
  is_init a = false -> is_init b = false ->
  is_atomic (a_kind a) = true /\ is_atomic (a_kind b) = true.
Proof.
  intros Ha Hb Hs Hf Hd Hia Hib.
  pose proof (all_ok a Ha) as Oa. pose proof (all_ok b Hb) as Ob.
  unfold access_ok in Oa, Ob. rewrite <- Hs, <- Hf in Ob. rewrite Hd in Oa, Ob.
  rewrite Hia in Oa. rewrite Hib in Ob. rewrite orb_false_r in Oa, Ob. auto.
Qed.

(* a field with the init-only discipline is never written once goroutines exist *)
Theorem init_only_fields_never_written a :
  In a accesses -> discipline_of (a_struct a) (a_field a) = Some DInitOnly ->
  is_init a = false -> a_kind a = KRead.
Proof.
  intros Ha Hd Hi. pose proof (all_ok a Ha) as O. unfold access_ok in O. rewrite Hd in O.
  destruct (a_kind a); try reflexivity; rewrite Hi in O; discriminate.
Qed.

(* an owned field is touched, after initialisation, only by its owner goroutine or by a listed
   reader that runs outside every goroutine of the run (after the handshake) *)
Theorem owned_fields_single_goroutine a g readers :
  In a accesses -> discipline_of (a_struct a) (a_field a) = Some (DOwned g readers) ->
  is_init a = false ->
  only_owner g a = true \/ (a_kind a = KRead /\ str_mem (a_fn a) readers = true /\ in_goroutine a = false).
Proof.
  intros Ha Hd Hi. pose proof (all_ok a Ha) as O. unfold access_ok in O. rewrite Hd, Hi in O.
  rewrite orb_false_r in O. apply orb_true_iff in O. destruct O as [O|O]; [left; exact O|right].
  destruct (a_kind a); try discriminate. apply andb_true_iff in O. destruct O as [O1 O2].
  apply negb_true_iff in O2. auto.
Qed.

Theorem every_field_classified : all_fields_classified = true.
Proof. vm_compute. reflexivity. Qed.
