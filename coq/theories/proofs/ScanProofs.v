(* ScanProofs.v — termination and step bounds of the scanner model (C11).
   Every call of scan1 either consumes at least one byte or yields the end-of-input token, hence
   scan_all's fuel (S (length s)) is never exhausted and the number of Scan calls is <= length s + 1. *)
Require Import Grits.Base Grits.Tokens Grits.gen.ScanTables Grits.Scan.

Local Notation slen := String.length.

(* the `match code c with 61 | 60 | 45 | 49 | 92 | _` of scanSpecialSymbol as a chain of tests *)
Lemma special_match {A} (n : nat) (a61 a60 a45 a49 a92 d : A) :
  match n with 61 => a61 | 60 => a60 | 45 => a45 | 49 => a49 | 92 => a92 | _ => d end =
  if (n =? 61)%nat then a61 else if (n =? 60)%nat then a60 else if (n =? 45)%nat then a45
  else if (n =? 49)%nat then a49 else if (n =? 92)%nat then a92 else d.
Proof. do 93 (destruct n as [|n]; [reflexivity|]). reflexivity. Qed.

Lemma skip_ws_len s : (slen (skip_ws s) <= slen s)%nat.
Proof. induction s as [|c r IH]; cbn; [lia|]. destruct (is_ws c); cbn; lia. Qed.
Lemma skip_eol_len s : (slen (skip_eol s) <= slen s)%nat.
Proof. induction s as [|c r IH]; cbn; [lia|]. destruct (code c =? 10)%nat; cbn; lia. Qed.
Lemma skip_comment_len s : forall b, (slen (skip_comment b s) <= slen s)%nat.
Proof.
  induction s as [|c r IH]; intros b; cbn; [lia|].
  destruct (b && (code c =? 47)%nat); [lia|]. specialize (IH (code c =? 42)%nat). lia.
Qed.
Lemma take_label_len s : (slen (snd (take_label s)) <= slen s)%nat.
Proof.
  induction s as [|c r IH]; cbn; [lia|].
  destruct (is_lab c); cbn; [|lia]. destruct (take_label r) as [l rest]. cbn in *. lia.
Qed.

Lemma tl_len r : (slen (match r with String _ r' => r' | EmptyString => r end) <= slen r)%nat.
Proof. destruct r; cbn; lia. Qed.

(* the part of scan1 after the optional whitespace run *)
Definition scan1_body (s : string) : scan_res :=
  match s with
  | EmptyString => Tok T_EOF "" EmptyString
  | String c r =>
    match single_char c with
    | Some k => Tok k (String c "") r
    | None =>
      if (code c =? 47)%nat && is_char 47 (peek r) then Skip (skip_eol (match r with String _ r' => r' | _ => r end))
      else if (code c =? 47)%nat && is_char 42 (peek r) then Skip (skip_comment false (match r with String _ r' => r' | _ => r end))
      else if is_special c then
        match code c with
        | 61 => if is_char 62 (peek r) then Tok RIGHT_ARROW "=>" (match r with String _ r' => r' | _ => r end) else Tok EQUALS "=" r
        | 60 => if is_char 45 (peek r) then Tok LEFT_ARROW "<-" (match r with String _ r' => r' | _ => r end) else Tok LANGLE "<" r
        | 45 => if is_char 42 (peek r) then Tok LOLLI "-*" (match r with String _ r' => r' | _ => r end)
                else if is_char 111 (peek r) then Tok LOLLI "-o" (match r with String _ r' => r' | _ => r end)
                else Tok MINUS "-" r
        | 49 => match peek r with
                | Some c2 => if is_lab c2 then let '(l, rest) := take_label r in Tok (keyword (String c l)) (String c l) rest
                             else Tok UNIT "1" r
                | None => Tok UNIT "1" r
                end
        | 92 => if is_char 47 (peek r) then Tok DOWN_ARROW "\/" (match r with String _ r' => r' | _ => r end)
                else Tok T_ILLEGAL (String c "") (match r with String _ r' => r' | _ => r end)
        | _ (* 47 *) => if is_char 92 (peek r) then Tok UP_ARROW "\/" (match r with String _ r' => r' | _ => r end)
                else Tok T_ILLEGAL (String c "") (match r with String _ r' => r' | _ => r end)
        end
      else if is_lab c then let '(l, rest) := take_label r in Tok (keyword (String c l)) (String c l) rest
      else Tok T_ILLEGAL (String c "") r
    end
  end.

Definition strip_ws (s0 : string) : string :=
  match s0 with String c r => if is_ws c then skip_ws r else s0 | EmptyString => s0 end.

Lemma scan1_unfold s0 : scan1 s0 = scan1_body (strip_ws s0).
Proof. reflexivity. Qed.

Lemma strip_ws_len s : (slen (strip_ws s) <= slen s)%nat.
Proof. destruct s as [|c r]; cbn; [lia|]. destruct (is_ws c); cbn; [|lia]. pose proof (skip_ws_len r). lia. Qed.

(* the remaining input after one step *)
Definition res_rest (r : scan_res) : string := match r with Tok _ _ rest => rest | Skip rest => rest end.
Definition res_is_eof (r : scan_res) : bool := match r with Tok T_EOF _ _ => true | _ => false end.

Lemma scan1_body_progress s :
  match s with
  | EmptyString => scan1_body s = Tok T_EOF "" EmptyString
  | String _ _ => (slen (res_rest (scan1_body s)) < slen s)%nat
  end.
Proof.
  destruct s as [|c r]; [reflexivity|].
  unfold scan1_body. rewrite special_match.
  pose proof (tl_len r) as Htl.
  pose proof (skip_eol_len (match r with String _ r' => r' | EmptyString => r end)) as He.
  pose proof (skip_comment_len (match r with String _ r' => r' | EmptyString => r end) false) as Hc.
  pose proof (take_label_len r) as Hl.
  cbn [slen].
  destruct (single_char c); [cbn; lia|].
  repeat match goal with
         | |- context [if ?b then _ else _] => destruct b
         | |- context [match peek r with _ => _ end] => destruct (peek r)
         | |- context [let '(_, _) := take_label r in _] => destruct (take_label r)
         end; cbn [res_rest snd] in *; lia.
Qed.

Lemma scan1_progress s :
  (exists lx, scan1 s = Tok T_EOF lx EmptyString) \/ (slen (res_rest (scan1 s)) < slen s)%nat.
Proof.
  rewrite scan1_unfold. pose proof (strip_ws_len s) as Hs. pose proof (scan1_body_progress (strip_ws s)) as Hb.
  destruct (strip_ws s) as [|c r] eqn:E.
  - left. exists "". exact Hb.
  - right. lia.
Qed.

(* ---------------------------------------------------------------------------------------- *)
(* termination *)

Lemma scan_all_f_enough : forall fuel s, (slen s < fuel)%nat -> scan_all_f fuel s <> ScanHang.
Proof.
  induction fuel as [|f IH]; intros s Hlt; [lia|].
  cbn [scan_all_f].
  destruct (scan1_progress s) as [[lx He] | Hp].
  - rewrite He. discriminate.
  - destruct (scan1 s) as [k lx rest | rest]; cbn [res_rest] in Hp.
    + assert (Hr : scan_all_f f rest <> ScanHang) by (apply IH; lia).
      destruct k; try discriminate; destruct (scan_all_f f rest); try discriminate; congruence.
    + apply IH. lia.
Qed.

Theorem scan_total : forall s, scan_all s <> ScanHang.
Proof. intros s. unfold scan_all. apply scan_all_f_enough. lia. Qed.

Corollary scan_total_tokens : forall s, exists l, scan_all s = Tokens l.
Proof. intros s. pose proof (scan_total s). destruct (scan_all s); [eauto | congruence]. Qed.

(* more fuel does not change the result *)
Lemma scan_all_f_mono : forall fuel s l, scan_all_f fuel s = Tokens l -> forall fuel', (fuel <= fuel')%nat -> scan_all_f fuel' s = Tokens l.
Proof.
  induction fuel as [|f IH]; intros s l H fuel' Hle; [discriminate|].
  destruct fuel' as [|f']; [lia|]. cbn [scan_all_f] in *.
  destruct (scan1 s) as [k lx rest | rest].
  - destruct k; try exact H;
      (destruct (scan_all_f f rest) as [l0|] eqn:E; [|discriminate];
       rewrite (IH _ _ E f') by lia; exact H).
  - apply IH with (fuel' := f') in H; [exact H | lia].
Qed.

(* ---------------------------------------------------------------------------------------- *)
(* step count: the number of calls of Scan (scan1 iterations) made by scan_all, and the number
   of tokens delivered to the parser, are at most length s + 1 *)

Fixpoint scan_iters_f (fuel : nat) (s : string) : nat :=
  match fuel with
  | O => O
  | S f =>
    match scan1 s with
    | Skip rest => S (scan_iters_f f rest)
    | Tok k _ rest =>
      match k with
      | T_EOF | T_ILLEGAL => 1
      | _ => S (scan_iters_f f rest)
      end
    end
  end.
Definition scan_iters (s : string) : nat := scan_iters_f (S (slen s)) s.

Lemma scan_iters_f_bound : forall fuel s, (scan_iters_f fuel s <= slen s + 1)%nat.
Proof.
  induction fuel as [|f IH]; intros s; cbn [scan_iters_f]; [lia|].
  destruct (scan1_progress s) as [[lx He] | Hp].
  - rewrite He. lia.
  - destruct (scan1 s) as [k lx rest | rest]; cbn [res_rest] in Hp.
    + specialize (IH rest). destruct k; lia.
    + specialize (IH rest). lia.
Qed.

Theorem scan_iters_linear : forall s, (scan_iters s <= slen s + 1)%nat.
Proof. intros s. apply scan_iters_f_bound. Qed.

Lemma scan_tokens_le_iters : forall fuel s l, scan_all_f fuel s = Tokens l -> (length l <= scan_iters_f fuel s)%nat.
Proof.
  induction fuel as [|f IH]; intros s l H; [discriminate|].
  cbn [scan_all_f scan_iters_f] in *.
  destruct (scan1 s) as [k lx rest | rest].
  - destruct k; try (inversion H; subst; cbn; lia);
      (destruct (scan_all_f f rest) as [l0|] eqn:E; [|discriminate]; inversion H; subst; cbn [length];
       specialize (IH _ _ E); lia).
  - specialize (IH _ _ H). lia.
Qed.

Theorem scan_tokens_linear : forall s l, scan_all s = Tokens l -> (length l <= slen s + 1)%nat.
Proof.
  intros s l H. pose proof (scan_tokens_le_iters _ _ _ H). pose proof (scan_iters_linear s).
  unfold scan_iters in *. lia.
Qed.
