(* proofs/C14Decl.v — C14: per-declaration renamings of SOURCE programs.  `src_renamed p q`: q is p with
   every function (body, parameters, explicit provider) and every process body renamed by its own
   injective identifier map; types, labels, function names, process names and assumed names are kept.
   `typecheck_decl`: the checker accepts q iff it accepts p, and the annotated programs are related by
   C14Alpha.decl_renamed — so run_decl_alpha needs no premise about the checker's outputs. *)
From stdpp Require Import gmap strings.
Require Import Grits.Base Grits.ModeDefs Grits.Modes Grits.STypes Grits.Forms Grits.Subst Grits.Infer
               Grits.TcDeps Grits.Expand Grits.Tc Grits.TcTop Grits.Runtime.
Require Import Grits.proofs.TcInv Grits.proofs.TcTotal Grits.proofs.PermTc Grits.spec.Rename
               Grits.proofs.RenameTypes Grits.proofs.RenameSubst Grits.proofs.RenameTc Grits.proofs.RenameRun
               Grits.proofs.RenameSimT Grits.proofs.RenameAlpha Grits.proofs.C14Alpha Grits.proofs.TcDeclRename.

(* ---------------------------------------------------------------- results up to a relation *)
Definition trel {A} (R : A -> A -> Prop) (x x' : tcr A) : Prop :=
  match x, x' with
  | TOk a, TOk a' => R a a'
  | TOk _, _ | _, TOk _ => False
  | _, _ => True
  end.
Lemma trel_bind {A B} (R : A -> A -> Prop) (S : B -> B -> Prop) x x' k k' :
  trel R x x' -> (forall a a', R a a' -> trel S (k a) (k' a')) -> trel S (tbind x k) (tbind x' k').
Proof. destruct x, x'; cbn; intros H Hk; try contradiction; auto; destruct (k' _); auto; destruct (k _); auto. Qed.
Lemma trel_eq {A} (R : A -> A -> Prop) (h : A -> A) x x' : x' = tmap h x -> (forall a, R a (h a)) -> trel R x x'.
Proof. intros -> H. destruct x; cbn; auto. Qed.
Lemma trel_same {A} (R : A -> A -> Prop) x : (forall a, R a a) -> trel R x x.
Proof. destruct x; cbn; auto. Qed.

(* the raw-level ok predicates of RenameTc.v are trivial for the trivial name predicates *)
Notation T1 := (fun _ : string => True).
Lemma okr_triv : (forall t, okt T1 T1 anym False t) /\ (forall b, okbrs T1 T1 anym False b).
Proof. apply sty_brs_ind; intros; cbn [okt okbrs]; unfold anym; repeat split; auto; intros []. Qed.
Lemma okotr_triv t : okot T1 T1 anym False t.
Proof. destruct t; cbn; [apply okr_triv | exact I]. Qed.
Lemma okform_triv : (forall f, okform T1 T1 False f) /\ (forall b, okbranches T1 T1 False b).
Proof. apply form_branches_ind; intros; cbn [okform okbranches]; repeat split; auto using okotr_triv. Qed.
Lemma oknamesr_triv ns : oknamesr T1 T1 False ns.
Proof. apply List.Forall_forall. intros; apply okotr_triv. Qed.
Lemma okfunr_triv f : okfunr T1 T1 False f.
Proof. repeat split; [apply okotr_triv | apply oknamesr_triv | apply okform_triv]. Qed.
Lemma okprocr_triv q : okprocr T1 T1 False q.
Proof. split; [apply okotr_triv | apply okform_triv]. Qed.
Lemma okDr_triv D : okD T1 T1 anym False D.
Proof. intros d _. apply okr_triv. Qed.
Lemma hkey_crn c : forall s t s' t' : sty, okt T1 T1 pm False s -> okt T1 T1 pm False t -> okt T1 T1 pm False s' -> okt T1 T1 pm False t' ->
  (eq_key (rn_sty (crn c) s) (rn_sty (crn c) t) = eq_key (rn_sty (crn c) s') (rn_sty (crn c) t') <-> eq_key s t = eq_key s' t').
Proof. intros. rewrite !(proj1 (crn_sty c)). reflexivity. Qed.

Section Decl.
Variable D : tenv.

(* ---------- functions: the preliminary checks ---------- *)
Lemma prelim_one f : prelim_funs D [f] [] = tmap (fun o => [o]) (pre1 D f).
Proof. rewrite prelim_funs_cons. cbn [str_mem negb Tc.guard tbind prelim_funs]. destruct (pre1 D f); reflexivity. Qed.
Lemma pre1_rn c f : okc c -> pre1 D (rn_fundef (crn c) f) = tmap (rn_fundef (crn c)) (pre1 D f).
Proof.
  intros [Hi H0]. pose proof (prelim_funs_sim (crn c) Hi idinj idinj idinj D [f] []) as E.
  rewrite crn_tenv in E. cbn [map] in E. rewrite !prelim_one in E.
  destruct (pre1 D (rn_fundef (crn c) f)), (pre1 D f); cbn in E |- *; congruence.
Qed.

Lemma prelim_funs_rel : forall fs fs', Forall2 frel fs fs' -> forall seen,
  trel (Forall2 frel) (prelim_funs D fs seen) (prelim_funs D fs' seen).
Proof.
  induction 1 as [|f f' fs fs' (c & Hc & ->) _ IH]; intros seen; [cbn; constructor|].
  rewrite !prelim_funs_cons. cbn [rn_fundef fn_name crn rf].
  apply (trel_bind eq); [apply trel_same; auto|]. intros ? ? _.
  apply (trel_bind frel); [eapply trel_eq; [apply pre1_rn, Hc|]; intros fo; exists c; auto|].
  intros o o' Ho. apply (trel_bind (Forall2 frel)); [apply IH|]. intros r r' Hr. cbn. constructor; assumption.
Qed.

(* ---------- signatures ---------- *)
Definition sigrel (s0 s0' : fsig) : Prop := exists c, okc c /\ s0' = rn_fsig (crn c) s0.

Lemma make_sigma_rel : forall fs fs', Forall2 frel fs fs' -> trel (Forall2 sigrel) (make_sigma D fs) (make_sigma D fs').
Proof.
  induction 1 as [|f f' fs fs' (c & Hc & ->) _ IH]; [cbn; constructor|].
  cbn [make_sigma rn_fundef fn_type fn_name fn_params crn rf]. fold (crn c). rewrite crn_osty.
  apply (trel_bind eq); [apply trel_same; auto|]. intros t ? <-.
  apply (trel_bind (Forall2 sigrel)); [exact IH|]. intros r r' Hr. cbn. constructor; [|exact Hr].
  exists c. split; [exact Hc|]. unfold rn_fsig. cbn [fs_name fs_params fs_type crn rf]. fold (crn c). now rewrite crn_osty.
Qed.

Lemma sgrel_rn c c' s0 : sgrel (rn_fsig (crn c) s0) (rn_fsig (crn c') s0).
Proof.
  unfold sgrel, rn_fsig. cbn [fs_name fs_type fs_params crn rf]. split; [reflexivity|]. split; [now rewrite !crn_osty|].
  rewrite !map_map. apply map_ext. intros a. cbn [rn_name nty]. now rewrite !crn_osty.
Qed.
Lemma sig_lookup_rel (R : fsig -> fsig -> Prop) : (forall a b, R a b -> fs_name b = fs_name a) ->
  forall Sg Sg', Forall2 R Sg Sg' -> forall fn,
  match sig_lookup Sg fn, sig_lookup Sg' fn with Some a, Some b => R a b | None, None => True | _, _ => False end.
Proof.
  intros Hn. induction 1 as [|a b l l' Hab _ IH]; intros fn; cbn [sig_lookup]; [exact I|].
  specialize (IH fn). destruct (sig_lookup l fn), (sig_lookup l' fn); try contradiction; [exact IH|].
  rewrite (Hn _ _ Hab). destruct (String.eqb fn (fs_name a)); [exact Hab | exact I].
Qed.
Lemma sgeq_rn c Sg Sg' : Forall2 sigrel Sg Sg' -> sgeq (rn_sigma (crn c) Sg) Sg'.
Proof.
  intros H. unfold sgeq. apply (sig_lookup_rel sgrel); [intros a b (E & _); exact E|].
  unfold rn_sigma. induction H as [|a b l l' (c' & _ & ->) _ IH]; cbn [map]; constructor; [apply sgrel_rn | exact IH].
Qed.

(* ---------- functions: the bodies ---------- *)
Hypothesis HD : okD T1 T1 pm False D.

Lemma tc_body_rn c Sg Sg' g pty f : okc c -> oksigma T1 T1 False Sg -> Forall2 sigrel Sg Sg' ->
  okctx T1 T1 False g -> okot T1 T1 pm False pty ->
  tc_form D Sg' (kvmap c (rn_osty (crn c)) g) None (rn_osty (crn c) pty) (rn_form (crn c) f) =
  tmap (rn_form (crn c)) (tc_form D Sg g None pty f).
Proof.
  intros [Hi H0] HSg HS Hg Hp.
  rewrite <- (proj1 (tc_form_sg D _ _ (sgeq_rn c Sg Sg' HS))).
  pose proof (proj1 (tc_form_rn (crn c) Hi idinj idinj idinj T1 T1 False (hkey_crn c) D Sg HD HSg) f
                g None None (rn_osty (crn c) pty) pty I eq_refl Hg Hp (proj1 okform_triv f)) as E.
  rewrite crn_tenv in E. exact E.
Qed.

Lemma tc_funs_rel Sg Sg' : oksigma T1 T1 False Sg -> Forall2 sigrel Sg Sg' ->
  forall fs fs', Forall2 frel fs fs' -> Forall (okfun T1 T1 False) fs ->
  trel (Forall2 frel) (tc_funs D Sg fs) (tc_funs D Sg' fs').
Proof.
  intros HSg HS. induction 1 as [|f f' fs fs' (c & Hc & ->) _ IH]; intros Hok; [cbn; constructor|].
  inversion Hok as [|? ? (H1 & H2 & H3) H4]; subst.
  cbn [tc_funs rn_fundef fn_params fn_type fn_body fn_name fn_explicit].
  rewrite (make_ctx_rn (crn c) (proj1 Hc)). cbn [crn rc]. fold (crn c).
  rewrite (tc_body_rn c Sg Sg' _ _ _ Hc HSg HS (ok_make_ctx _ _ _ _ H2) H1).
  destruct (tc_form D Sg (make_ctx (fn_params f)) None (fn_type f) (fn_body f)) as [b| | |]; cbn [tmap tbind]; try (destruct (tc_funs D Sg fs); exact I).
  apply (trel_bind (Forall2 frel)); [apply IH, H4|]. intros r r' Hr. cbn. constructor; [|exact Hr].
  exists c. split; [exact Hc | reflexivity].
Qed.

(* ---------- processes ---------- *)
(* what the per-body maps keep: the identifiers KI of the process names and of the assumed names *)
Variable KI : list string.
Definition fixK (c : string -> string) : Prop := Forall (fun k => c k = k) KI.
Definition keysok {V} (m : list (string * V)) : Prop := Forall (fun kv => In (fst kv) KI) m.

Lemma fixK_in c k : fixK c -> In k KI -> c k = k.
Proof. unfold fixK. rewrite List.Forall_forall. auto. Qed.
Lemma alookup_fix {V} c (m : list (string * V)) x : okc c -> fixK c -> keysok m -> alookup (c x) m = alookup x m.
Proof.
  intros [Hi _] Hf. induction 1 as [|[k v] m Hk _ IH]; cbn [alookup]; [reflexivity|]. cbn [fst] in Hk.
  rewrite <- (fixK_in c k Hf Hk) at 1. rewrite (eqb_inj _ Hi), IH. reflexivity.
Qed.
Lemma alookup_key {V} (m : list (string * V)) x v : keysok m -> alookup x m = Some v -> In x KI.
Proof.
  induction 1 as [|[k w] m Hk _ IH]; cbn [alookup]; [discriminate|]. destruct (String.eqb_spec x k); [subst; auto | auto].
Qed.
Lemma keysok_aremove {V} x (m : list (string * V)) : keysok m -> keysok (aremove x m).
Proof. induction 1 as [|[k w] m Hk _ IH]; cbn [aremove]; [constructor|]. destruct (String.eqb x k); [exact IH | constructor; auto]. Qed.
Lemma keysok_aset {V} x (v : V) m : In x KI -> keysok m -> keysok (aset x v m).
Proof. intros Hx Hm. constructor; [exact Hx | now apply keysok_aremove]. Qed.
Lemma str_mem_fix c x l : okc c -> fixK c -> Forall (fun k => In k KI) l -> str_mem (c x) l = str_mem x l.
Proof.
  intros [Hi _] Hf. induction 1 as [|k l Hk _ IH]; cbn [str_mem]; [reflexivity|].
  rewrite <- (fixK_in c k Hf Hk) at 1. now rewrite (eqb_inj _ Hi), IH.
Qed.

Lemma use_free_names_fix c : okc c -> fixK c -> forall fns a pn, keysok a -> keysok pn ->
  use_free_names (map (rn_name (crn c)) fns) a pn = use_free_names fns a pn /\
  (forall a' pn', use_free_names fns a pn = TOk (a', pn') -> keysok a' /\ keysok pn').
Proof.
  intros Hc Hf. induction fns as [|fn fns IH]; intros a pn Ha Hp; cbn [map use_free_names].
  - split; [reflexivity|]. intros a' pn' E. inversion E; subst; auto.
  - cbn [rn_name ident crn rc]. rewrite !(alookup_fix c _ _ Hc Hf) by assumption.
    destruct (alookup (ident fn) a) as [[|]|] eqn:Ea.
    + rewrite (fixK_in c _ Hf (alookup_key _ _ _ Ha Ea)). apply IH; [apply keysok_aset; [exact (alookup_key _ _ _ Ha Ea) | exact Ha] | exact Hp].
    + split; [reflexivity | discriminate].
    + destruct (alookup (ident fn) pn) as [[|]|] eqn:Epn.
      * rewrite (fixK_in c _ Hf (alookup_key _ _ _ Hp Epn)). apply IH; [exact Ha | apply keysok_aset; [exact (alookup_key _ _ _ Hp Epn) | exact Hp]].
      * split; [reflexivity | discriminate].
      * split; [reflexivity | discriminate].
Qed.

Definition prl (pr pr' : procdef) : Prop :=
  exists c, okc c /\ fixK c /\ pr_providers pr' = pr_providers pr /\ pr_type pr' = pr_type pr /\ pr_body pr' = rn_form (crn c) (pr_body pr).
Definition provsK (pr : procdef) : Prop := Forall (fun n => In (ident n) KI) (pr_providers pr).

Lemma map_rn_fixed c l : fixK c -> Forall (fun n => In (ident n) KI) l -> map (rn_name (crn c)) l = l.
Proof. intros Hf. induction 1 as [|n l Hn _ IH]; cbn [map]; [reflexivity|]. now rewrite (rn_fixed c n (fixK_in c _ Hf Hn)), IH. Qed.

Lemma nfo_rn c pr : okc c -> fixK c -> provsK pr ->
  names_first_only (free_names (rn_form (crn c) (pr_body pr))) (pr_providers pr) =
  map (rn_name (crn c)) (names_first_only (free_names (pr_body pr)) (pr_providers pr)).
Proof.
  intros [Hi H0] Hf Hp. rewrite (free_names_rn1 (crn c) Hi).
  rewrite <- (map_rn_fixed c (pr_providers pr) Hf Hp) at 1. apply (names_first_only_rn (crn c) Hi).
Qed.

Lemma prelim_procs_types_rel : forall ps ps', Forall2 prl ps ps' -> Forall provsK ps -> forall a pn, keysok a -> keysok pn ->
  trel (fun x x' : list procdef * usemap => snd x' = snd x /\ Forall2 prl (fst x) (fst x'))
       (prelim_procs_types D ps a pn) (prelim_procs_types D ps' a pn).
Proof.
  induction 1 as [|q q' ps ps' (c & Hc & Hf & Ep & Et & Eb) _ IH]; intros HK a pn Ha Hp; [cbn; split; [reflexivity | constructor]|].
  inversion HK as [|? ? HKq HK']; subst. cbn [prelim_procs_types]. rewrite Ep, Et, Eb, (nfo_rn c q Hc Hf HKq).
  destruct (Tc.guard _ _) as [[]| | |]; cbn [tbind]; try exact I.
  destruct (add_missing_opt D (pr_type q)) as [pt| | |]; cbn [tbind]; try exact I.
  destruct (Tc.guard _ _) as [[]| | |]; cbn [tbind]; try exact I.
  destruct (Tc.guard _ _) as [[]| | |]; cbn [tbind]; try exact I.
  set (fns := names_first_only (free_names (pr_body q)) (pr_providers q)).
  destruct (use_free_names_fix c Hc Hf fns a pn Ha Hp) as [Eu Hk].
  rewrite Eu. clear Eu. destruct (use_free_names fns a pn) as [[a1 pn1]| | |]; cbn [tbind]; try exact I.
  destruct (Hk a1 pn1 eq_refl) as [Ha1 Hp1].
  apply (trel_bind (fun x x' : list procdef * usemap => snd x' = snd x /\ Forall2 prl (fst x) (fst x'))); [apply IH; assumption|].
  intros [r1 a2] [r1' a2'] [E1 E2]. cbn [fst snd] in *. subst a2'. cbn. split; [reflexivity|]. constructor; [|exact E2].
  exists c. cbn [pr_body pr_providers pr_type]. auto.
Qed.

Lemma prl_provs ps ps' : Forall2 prl ps ps' -> map pr_providers ps' = map pr_providers ps.
Proof. induction 1 as [|q q' l l' (c & _ & _ & E & _) _ IH]; cbn [map]; [reflexivity|]. now rewrite E, IH. Qed.
Lemma providers_unique_ext ps ps' : Forall2 prl ps ps' -> forall seen, providers_unique ps' seen = providers_unique ps seen.
Proof. induction 1 as [|q q' l l' (c & _ & _ & E & _) _ IH]; intros seen; cbn [providers_unique]; [reflexivity|]. now rewrite E, IH. Qed.
Lemma allp_ext ps ps' : Forall2 prl ps ps' ->
  flat_map (fun p => map ident (pr_providers p)) ps' = flat_map (fun p => map ident (pr_providers p)) ps.
Proof. induction 1 as [|q q' l l' (c & _ & _ & E & _) _ IH]; cbn [flat_map]; [reflexivity|]. now rewrite E, IH. Qed.
Lemma providers_not_self_ext ps ps' : Forall2 prl ps ps' -> providers_not_self ps' = providers_not_self ps.
Proof. unfold providers_not_self. induction 1 as [|q q' l l' (c & _ & _ & E & _) _ IH]; cbn [forallb]; [reflexivity|]. now rewrite E, IH. Qed.
Lemma provider_index_ext ps ps' x : Forall2 prl ps ps' -> provider_index ps' x = provider_index ps x.
Proof.
  intros H. unfold provider_index. generalize 0%nat (@None nat). induction H as [|q q' l l' (c & _ & _ & E & _) _ IH]; intros i acc; [reflexivity|].
  rewrite E. apply IH.
Qed.
Lemma provider_index_fix c ps x : okc c -> fixK c -> Forall provsK ps -> provider_index ps (c x) = provider_index ps x.
Proof.
  intros Hc Hf H. unfold provider_index. generalize 0%nat (@None nat). induction H as [|q l Hq _ IH]; intros i acc; [reflexivity|].
  rewrite (str_mem_fix c x _ Hc Hf); [apply IH|]. unfold provsK in Hq. clear -Hq. induction Hq; cbn; constructor; auto.
Qed.
Lemma proc_uses_rel ps ps' q q' : Forall2 prl ps ps' -> Forall provsK ps -> prl q q' -> provsK q -> proc_uses ps' q' = proc_uses ps q.
Proof.
  intros H HK (c & Hc & Hf & Ep & _ & Eb) Hq. unfold proc_uses. rewrite Ep, Eb, (nfo_rn c q Hc Hf Hq).
  induction (names_first_only (free_names (pr_body q)) (pr_providers q)) as [|fn l IH]; cbn [map flat_map]; [reflexivity|].
  cbn [rn_name ident crn rc]. now rewrite (provider_index_ext _ _ _ H), (provider_index_fix c ps _ Hc Hf HK), IH.
Qed.
Lemma procs_acyclic_ext ps ps' : Forall2 prl ps ps' -> Forall provsK ps -> procs_acyclic ps' = procs_acyclic ps.
Proof.
  intros H HK. unfold procs_acyclic.
  assert (El : length ps' = length ps) by (symmetry; eapply Forall2_length; eauto).
  assert (Eu : map (proc_uses ps') ps' = map (proc_uses ps) ps).
  { assert (G : forall l l', Forall2 prl l l' -> Forall provsK l -> map (proc_uses ps') l' = map (proc_uses ps) l).
    { induction 1 as [|q q' l l' Hq _ IH]; intros HKl; cbn [map]; [reflexivity|]. inversion HKl; subst.
      now rewrite (proc_uses_rel ps ps' q q' H HK Hq), IH. }
    now apply G. }
  now rewrite El, Eu.
Qed.

Lemma prelim_procs_rel ps ps' assumed : Forall2 prl ps ps' -> Forall provsK ps -> Forall (fun n => In (ident n) KI) assumed ->
  trel (fun x x' : list procdef * list name => snd x' = snd x /\ Forall2 prl (fst x) (fst x'))
       (prelim_procs D ps assumed) (prelim_procs D ps' assumed).
Proof.
  intros H HK HA. unfold prelim_procs.
  rewrite (providers_unique_ext _ _ H), (allp_ext _ _ H), (procs_acyclic_ext _ _ H HK), (providers_not_self_ext _ _ H).
  destruct (Tc.guard _ _) as [[]| | |]; cbn [tbind]; try exact I.
  destruct (Tc.guard _ _) as [[]| | |]; cbn [tbind]; try exact I.
  destruct (add_missing_names D assumed) as [as'| | |] eqn:Ea; cbn [tbind]; try exact I.
  destruct (Tc.guard _ _) as [[]| | |]; cbn [tbind]; try exact I.
  destruct (Tc.guard _ _) as [[]| | |]; cbn [tbind]; try exact I.
  destruct (Tc.guard _ _) as [[]| | |]; cbn [tbind]; try exact I.
  apply (trel_bind (fun x x' : list procdef * usemap => snd x' = snd x /\ Forall2 prl (fst x) (fst x'))).
  - apply prelim_procs_types_rel; auto.
    + unfold keysok. apply List.Forall_forall. intros kv Hkv. apply in_map_iff in Hkv. destruct Hkv as (n & <- & Hn). cbn [fst].
      pose proof (add_missing_names_shape D assumed as' Ea) as Es.
      assert (Hin : In (ident n) (map ident as')) by (apply in_map; exact Hn). rewrite Es in Hin.
      apply in_map_iff in Hin. destruct Hin as (n0 & <- & Hn0). rewrite List.Forall_forall in HA. auto.
    + unfold keysok. apply List.Forall_forall. intros kv Hkv. apply in_map_iff in Hkv. destruct Hkv as (x & <- & Hx). cbn [fst].
      apply in_flat_map in Hx. destruct Hx as (q & Hq & Hx). apply in_map_iff in Hx. destruct Hx as (n & <- & Hn).
      rewrite List.Forall_forall in HK. specialize (HK q Hq). unfold provsK in HK. rewrite List.Forall_forall in HK. auto.
  - intros [l rem] [l' rem'] [E1 E2]. cbn [fst snd] in *. subst rem'.
    destruct (Tc.guard _ _) as [[]| | |]; cbn [tbind]; try exact I.
    destruct (Tc.guard _ _) as [[]| | |]; cbn [tbind]; try exact I.
    destruct (Tc.guard _ _) as [[]| | |]; cbn [tbind]; try exact I.
    cbn. auto.
Qed.

(* ---------- processes: the bodies ---------- *)
Definition valsK (m : list (string * name)) : Prop := Forall (fun kv => In (ident (snd kv)) KI) m.
Lemma valsK_aremove x m : valsK m -> valsK (aremove x m).
Proof. induction 1 as [|[k w] m Hk _ IH]; cbn [aremove]; [constructor|]. destruct (String.eqb x k); [exact IH | constructor; auto]. Qed.
Lemma fold_aset_ok (l : list (string * name)) : forall m, keysok l -> valsK l -> keysok m -> valsK m ->
  keysok (fold_left (fun m kv => aset (fst kv) (snd kv) m) l m) /\ valsK (fold_left (fun m kv => aset (fst kv) (snd kv) m) l m).
Proof.
  induction l as [|[k v] l IH]; intros m Hk Hv Hm Hvm; cbn [fold_left]; [auto|]. inversion Hk; subst. inversion Hv; subst. cbn [fst snd] in *.
  apply IH; auto; [apply keysok_aset; auto | constructor; [assumption | apply valsK_aremove, Hvm]].
Qed.
Lemma available_ok all assumed : Forall provsK all -> Forall (fun n => In (ident n) KI) assumed ->
  keysok (available_names all assumed) /\ valsK (available_names all assumed).
Proof.
  intros HK HA. unfold available_names.
  set (provs := flat_map (fun p => map (fun n => (ident n, set_nty n (pr_type p))) (pr_providers p)) all).
  assert (Hp : keysok provs /\ valsK provs).
  { unfold provs. clear provs. induction HK as [|q l Hq _ IH]; cbn [flat_map]; [split; constructor|]. destruct IH as [I1 I2].
    split; apply Forall_app; split; auto; unfold provsK in Hq; clear -Hq; induction Hq; cbn [map]; constructor; auto. }
  destruct (fold_aset_ok provs [] (proj1 Hp) (proj2 Hp) (Forall_nil _) (Forall_nil _)) as [H1 H2].
  revert H1 H2. generalize (fold_left (fun m kv => aset (fst kv) (snd kv) m) provs []). intros m H1 H2.
  revert m H1 H2. induction HA as [|a l Ha _ IH]; intros m H1 H2; cbn [fold_left]; [auto|].
  apply IH; [apply keysok_aset; auto | constructor; [exact Ha | apply valsK_aremove, H2]].
Qed.
Lemma available_ext all all' assumed : Forall2 prl all all' -> available_names all' assumed = available_names all assumed.
Proof.
  intros H. unfold available_names. f_equal. f_equal.
  induction H as [|q q' l l' (c & _ & _ & E1 & E2 & _) _ IH]; cbn [flat_map]; [reflexivity|]. now rewrite E1, E2, IH.
Qed.

Lemma free_name_types_rel all all' assumed q q' : Forall2 prl all all' -> Forall provsK all -> Forall (fun n => In (ident n) KI) assumed ->
  prl q q' -> provsK q ->
  free_name_types q' all' assumed = free_name_types q all assumed /\ Forall (fun n => In (ident n) KI) (free_name_types q all assumed).
Proof.
  intros H HK HA (c & Hc & Hf & Ep & _ & Eb) Hq. unfold free_name_types. rewrite (available_ext _ _ _ H), Ep, Eb, (nfo_rn c q Hc Hf Hq).
  destruct (available_ok all assumed HK HA) as [Hk Hv].
  induction (names_first_only (free_names (pr_body q)) (pr_providers q)) as [|fn l [IH1 IH2]]; cbn [map flat_map]; [split; [reflexivity | constructor]|].
  cbn [rn_name ident crn rc]. rewrite (alookup_fix c _ _ Hc Hf Hk), IH1. split; [reflexivity|].
  apply Forall_app. split; [|exact IH2].
  destruct (alookup (ident fn) (available_names all assumed)) as [n|] eqn:E; [|constructor]. constructor; [|constructor].
  clear -Hv E. induction Hv as [|[k w] m Hw _ IH]; cbn [alookup] in E; [discriminate|]. destruct (String.eqb (ident fn) k); [inversion E; subst; exact Hw | auto].
Qed.

Lemma kvmap_fixed c ns : okc c -> fixK c -> Forall (fun n => In (ident n) KI) ns ->
  kvmap c (rn_osty (crn c)) (make_ctx ns) = make_ctx ns.
Proof. intros [Hi _] Hf Hn. pose proof (make_ctx_rn (crn c) Hi ns) as E. cbn [crn rc] in E. fold (crn c) in E. rewrite <- E. now rewrite (map_rn_fixed c ns Hf Hn). Qed.

Lemma tc_procs_rel Sg Sg' all all' assumed : oksigma T1 T1 False Sg -> Forall2 sigrel Sg Sg' ->
  Forall (okproc T1 T1 False) all -> oknames T1 T1 False assumed ->
  Forall2 prl all all' -> Forall provsK all -> Forall (fun n => In (ident n) KI) assumed ->
  forall ps ps', Forall2 prl ps ps' -> Forall (okproc T1 T1 False) ps -> Forall provsK ps ->
  trel (Forall2 prl) (tc_procs D Sg all assumed ps) (tc_procs D Sg' all' assumed ps').
Proof.
  intros HSg HS Hall Has H HK HA. induction 1 as [|q q' ps ps' Hq _ IH]; intros Hok HKp; [cbn; constructor|].
  inversion Hok as [|? ? (H1 & H2) H4]; subst. inversion HKp as [|? ? HKq HKp']; subst.
  destruct (free_name_types_rel all all' assumed q q' H HK HA Hq HKq) as [Ef Hfn].
  pose proof Hq as (c & Hc & Hf & Ep & Et & Eb).
  cbn [tc_procs]. rewrite Ef, Et, Eb, Ep.
  rewrite <- (kvmap_fixed c _ Hc Hf Hfn), <- (crn_osty c (pr_type q)).
  rewrite (tc_body_rn c Sg Sg' _ _ _ Hc HSg HS (ok_make_ctx _ _ _ _ (ok_free_name_types _ _ _ q all assumed Hall Has)) H1).
  rewrite (crn_osty c (pr_type q)), (kvmap_fixed c _ Hc Hf Hfn).
  destruct (tc_form D Sg (make_ctx (free_name_types q all assumed)) None (pr_type q) (pr_body q)) as [b| | |]; cbn [tmap tbind]; try (destruct (tc_procs D Sg all assumed ps); exact I).
  apply (trel_bind (Forall2 prl)); [apply IH; assumption|]. intros r r' Hr. cbn. constructor; [|exact Hr].
  exists c. cbn [pr_body pr_providers pr_type]. auto.
Qed.
End Decl.

(* ---------------------------------------------------------------- the whole program *)
Definition kept (p : program) : list name := concat (map pr_providers (p_procs p)) ++ p_assumed p.
Definition src_renamed (p q : program) : Prop :=
  p_types q = p_types p /\ p_assumed q = p_assumed p /\ Forall2 frel (p_funs p) (p_funs q) /\
  Forall2 (procrel (kept p)) (p_procs p) (p_procs q).

Lemma prelim_types_provs D : forall ps a pn ps1 a1, prelim_procs_types D ps a pn = TOk (ps1, a1) -> map pr_providers ps1 = map pr_providers ps.
Proof.
  induction ps as [|q ps IH]; intros a pn ps1 a1 E; cbn [prelim_procs_types] in E; [inversion E; reflexivity|].
  tinv E. inversion E; subst. cbn [map pr_providers]. f_equal. eapply IH; eauto.
Qed.
Lemma prelim_procs_provs D ps assumed ps1 a1 : prelim_procs D ps assumed = TOk (ps1, a1) -> map pr_providers ps1 = map pr_providers ps.
Proof. unfold prelim_procs. intros E. tinv E. inversion E; subst. eapply prelim_types_provs; eauto. Qed.
Lemma tc_procs_provs D Sg all assumed : forall ps ps2, tc_procs D Sg all assumed ps = TOk ps2 -> map pr_providers ps2 = map pr_providers ps.
Proof.
  induction ps as [|q ps IH]; intros ps2 E; cbn [tc_procs] in E; [inversion E; reflexivity|].
  tinv E. inversion E; subst. cbn [map pr_providers]. f_equal. eapply IH; eauto.
Qed.
Lemma provsK_ext KI l l' : map pr_providers l' = map pr_providers l -> Forall (provsK KI) l -> Forall (provsK KI) l'.
Proof.
  revert l'. induction l as [|q l IH]; intros [|q' l'] E H; cbn [map] in E; try discriminate; [constructor|].
  inversion E as [[E1 E2]]. inversion H; subst. constructor; [unfold provsK in *; now rewrite E1 | auto].
Qed.

Theorem tc_program_decl p q : src_renamed p q ->
  trel (fun p' q' => decl_renamed p' q' /\ p_assumed q' = p_assumed p') (tc_program p) (tc_program q).
Proof.
  intros (Et & Ea & Hfr & Hpr). unfold tc_program. rewrite Et, Ea. set (D := p_types p).
  set (KI := map ident (kept p)).
  assert (Hprl : Forall2 (prl KI) (p_procs p) (p_procs q)).
  { eapply Forall2_impl; [exact Hpr|]. intros pr pr' (c & Hc & Hf & H1 & H2 & H3). exists c. split; [exact Hc|]. split; [|auto].
    unfold fixK, KI. unfold fixes in Hf. clear -Hf. induction Hf; cbn; constructor; auto. }
  assert (HK : Forall (provsK KI) (p_procs p)).
  { apply List.Forall_forall. intros pr Hin. unfold provsK. apply List.Forall_forall. intros n Hn. unfold KI, kept.
    apply in_map. apply in_or_app. left. apply in_concat. exists (pr_providers pr). split; [apply in_map, Hin | exact Hn]. }
  assert (HA : Forall (fun n => In (ident n) KI) (p_assumed p)).
  { apply List.Forall_forall. intros n Hn. unfold KI, kept. apply in_map. apply in_or_app. right. exact Hn. }
  destruct (sanity_typedefs D) as [[|]| |] eqn:Es; cbn [lift tbind Tc.guard]; try exact I.
  pose proof (okD_raise T1 T1 False D (okDr_triv D) Es) as HD.
  pose proof (prelim_funs_rel D _ _ Hfr []) as R1.
  destruct (prelim_funs D (p_funs p) []) as [fs1| | |] eqn:E1, (prelim_funs D (p_funs q) []) as [fs1'| | |] eqn:E1'; cbn in R1; try contradiction; cbn [tbind]; try exact I.
  pose proof (ok_prelim_funs T1 T1 False D _ _ _ (proj2 (List.Forall_forall _ _) (fun f _ => okfunr_triv f)) E1) as Hok1.
  pose proof (prelim_procs_rel D KI _ _ (p_assumed p) Hprl HK HA) as R2.
  destruct (prelim_procs D (p_procs p) (p_assumed p)) as [[ps1 as1]| | |] eqn:E2, (prelim_procs D (p_procs q) (p_assumed p)) as [[ps1' as1']| | |] eqn:E2';
    cbn in R2; try contradiction; cbn [tbind]; try exact I.
  destruct R2 as [Eas R2]. cbn [fst snd] in Eas, R2. subst as1'.
  destruct (ok_prelim_procs T1 T1 False D _ _ _ _ (proj2 (List.Forall_forall _ _) (fun f _ => okprocr_triv f)) (oknamesr_triv _) E2) as [Hokp Hoka].
  pose proof (prelim_procs_provs D _ _ _ _ E2) as Epv.
  pose proof (provsK_ext KI _ _ Epv HK) as HK1.
  assert (HA1 : Forall (fun n => In (ident n) KI) as1).
  { unfold prelim_procs in E2. tinv E2. inversion E2; subst.
    match goal with Hm : add_missing_names D _ = TOk ?l |- Forall _ ?l => pose proof (add_missing_names_shape D _ _ Hm) as Es1 end.
    apply List.Forall_forall. intros n Hn. assert (Hin : In (ident n) (map ident as1)) by (apply in_map, Hn). rewrite Es1 in Hin.
    apply in_map_iff in Hin. destruct Hin as (n0 & <- & Hn0). rewrite List.Forall_forall in HA. auto. }
  pose proof (make_sigma_rel D _ _ R1) as R3.
  destruct (make_sigma D fs1) as [Sg| | |] eqn:E3, (make_sigma D fs1') as [Sg'| | |] eqn:E3'; cbn in R3; try contradiction; cbn [tbind]; try exact I.
  pose proof (ok_make_sigma T1 T1 False D _ _ HD Hok1 E3) as HSg.
  pose proof (tc_funs_rel D HD Sg Sg' HSg R3 _ _ R1 Hok1) as R4.
  destruct (tc_funs D Sg fs1) as [fs2| | |], (tc_funs D Sg' fs1') as [fs2'| | |]; cbn in R4; try contradiction; cbn [tbind]; try exact I.
  pose proof (tc_procs_rel D HD KI Sg Sg' ps1 ps1' as1 HSg R3 Hokp Hoka R2 HK1 HA1 _ _ R2 Hokp HK1) as R5.
  destruct (tc_procs D Sg ps1 as1 ps1) as [ps2| | |] eqn:E5, (tc_procs D Sg' ps1' as1 ps1') as [ps2'| | |]; cbn in R5; try contradiction; cbn [tbind]; try exact I.
  cbn [trel]. split; [|reflexivity]. unfold decl_renamed. cbn [p_types p_funs p_procs]. split; [reflexivity|]. split; [exact R4|].
  pose proof (tc_procs_provs D _ _ _ _ _ E5) as Epv2.
  eapply Forall2_impl; [exact R5|]. intros pr pr' (c & Hc & Hf & H1 & H2 & H3). exists c. split; [exact Hc|]. split; [|auto].
  unfold fixes. apply List.Forall_forall. intros n Hn. apply (fixK_in KI c _ Hf).
  apply in_concat in Hn. destruct Hn as (l & Hl & Hn). rewrite Epv2, Epv in Hl. apply in_map_iff in Hl. destruct Hl as (pr0 & <- & Hpr0).
  rewrite List.Forall_forall in HK. specialize (HK pr0 Hpr0). unfold provsK in HK. rewrite List.Forall_forall in HK. auto.
Qed.

(* the verdict, and the annotated outputs *)
Theorem typecheck_decl p q : src_renamed p q ->
  match typecheck p, typecheck q with
  | Accept p', Accept q' => decl_renamed p' q' /\ p_assumed q' = p_assumed p'
  | Accept _, _ | _, Accept _ => False
  | _, _ => True
  end.
Proof.
  intros H. pose proof (tc_program_decl p q H) as R. unfold typecheck.
  destruct (tc_program p), (tc_program q); cbn in R; try contradiction; auto.
Qed.

Corollary verdict_decl p q : src_renamed p q -> PermTc.accepts (typecheck q) = PermTc.accepts (typecheck p).
Proof. intros H. pose proof (typecheck_decl p q H) as R. destruct (typecheck p), (typecheck q); cbn in *; try contradiction; reflexivity. Qed.

(* verdict AND outcome for per-declaration renamings of sources: no premise about the checker's outputs *)
Theorem run_decl_src p q p' md pick fuel :
  src_renamed p q -> typecheck p = Accept p' -> RtTheorems.in_fragment p' ->
  SynOk.prog_syn_ok p = true -> SynOk.prog_syn_ok q = true -> RtTcSyn.raw_ok p = true -> RtTcSyn.raw_ok q = true ->
  DeterminismAll.all_src_b p = true -> DeterminismAll.all_src_b q = true ->
  exists q', typecheck q = Accept q' /\
    kind_of (run_program fuel pick md q') = kind_of (run_program fuel pick md p') /\
    labels (final_cfg (run_program fuel pick md q')) = labels (final_cfg (run_program fuel pick md p')) /\
    pids (final_cfg (run_program fuel pick md q')) = pids (final_cfg (run_program fuel pick md p')).
Proof.
  intros H Ha Hf PS PS' RS RS' Hall Hall'. pose proof (typecheck_decl p q H) as R. rewrite Ha in R.
  destruct (typecheck q) as [q'| | |] eqn:Ea'; try contradiction. destruct R as [Hd Eas].
  exists q'. split; [reflexivity|].
  apply (run_decl_alpha p q p' q' md pick fuel Ha Ea' Hf); auto. unfold RtTheorems.in_fragment in *. congruence.
Qed.
