(* proofs/AlphaFree.v — C14, general alpha-equivalence: FreeNames respects `AlphaEq.aeq` — the lists of
   free names of related bodies are related pointwise (the merge discipline of form.go compares by
   Name.Equal; the correspondence is a partial bijection, so duplicates are dropped at the same places).
   For closed correspondences ([]) the two lists are EQUAL: what DUP and the GC request read. *)
From stdpp Require Import gmap strings.
Require Import Grits.Base Grits.ModeDefs Grits.STypes Grits.Forms Grits.Subst Grits.Runtime.
Require Import Grits.spec.Alpha Grits.spec.AlphaEq Grits.proofs.RenameSimT Grits.proofs.AlphaSubst.

Lemma aeqn_is_self e a b : aeqn e a b -> is_self a = is_self b.
Proof.
  unfold aeqn. destruct (isvar a) eqn:Ea.
  - intros (Eb & _). destruct (isvar_facts a Ea) as (_ & -> & _). destruct (isvar_facts b Eb) as (_ & -> & _). reflexivity.
  - intros [<- _]. reflexivity.
Qed.

Lemma nonvar_equal_var a v : ident a = "" -> isvar v = true -> name_equal a v = false /\ name_equal v a = false.
Proof.
  intros Ia Hv. destruct (isvar_facts v Hv) as (V1 & _ & V3). unfold name_equal, initialized. rewrite V1, Ia.
  destruct (String.eqb_spec "" (ident v)) as [E|_]; [symmetry in E; contradiction|].
  destruct (String.eqb_spec (ident v) "") as [E|_]; [contradiction|].
  destruct (chan a); cbn; auto.
Qed.

Lemma name_equal_rel e a b a' b' : aeqn e a b -> aeqn e a' b' -> name_equal a a' = name_equal b b'.
Proof.
  unfold aeqn. destruct (isvar a) eqn:Ea, (isvar a') eqn:Ea'.
  - intros (Eb & _ & _ & Hv) (Eb' & _ & _ & Hv').
    destruct (isvar_facts a Ea) as (A1 & _). destruct (isvar_facts b Eb) as (B1 & _).
    destruct (isvar_facts a' Ea') as (A1' & _). destruct (isvar_facts b' Eb') as (B1' & _).
    rewrite !name_equal_binders by assumption.
    pose proof (var_rel_inj e _ _ _ _ Hv Hv') as I.
    destruct (String.eqb_spec (ident a) (ident a')), (String.eqb_spec (ident b) (ident b')); tauto.
  - intros (Eb & _) [<- Ia']. destruct (nonvar_equal_var a' a Ia' Ea) as [_ ->]. destruct (nonvar_equal_var a' b Ia' Eb) as [_ ->]. reflexivity.
  - intros [<- Ia] (Eb' & _). destruct (nonvar_equal_var a a' Ia Ea') as [-> _]. destruct (nonvar_equal_var a b' Ia Eb') as [-> _]. reflexivity.
  - intros [<- _] [<- _]. reflexivity.
Qed.

Lemma F2_append e a b l l' : aeqn e a b -> Forall2 (aeqn e) l l' -> Forall2 (aeqn e) (append_if_not_self a l) (append_if_not_self b l').
Proof.
  intros H Hl. unfold append_if_not_self. rewrite <- (aeqn_is_self e a b H). destruct (is_self a); [exact Hl|].
  apply Forall2_app; [exact Hl | constructor; [exact H | constructor]].
Qed.
Lemma F2_exists e l l' n n' : Forall2 (aeqn e) l l' -> aeqn e n n' -> name_exists l n = name_exists l' n'.
Proof.
  intros Hl Hn. unfold name_exists. induction Hl as [|a b l l' H _ IH]; cbn [existsb]; [reflexivity|].
  now rewrite (name_equal_rel e a b n n' H Hn), IH.
Qed.
Lemma F2_merge e : forall b b', Forall2 (aeqn e) b b' -> forall a a', Forall2 (aeqn e) a a' ->
  Forall2 (aeqn e) (merge_names a b) (merge_names a' b').
Proof.
  induction 1 as [|n n' b b' Hn _ IH]; intros a a' Ha; cbn [merge_names]; [exact Ha|].
  apply IH. rewrite (F2_exists e a a' n n' Ha Hn). destruct (name_exists a' n'); [exact Ha|].
  apply Forall2_app; [exact Ha | constructor; [exact Hn | constructor]].
Qed.
Lemma F2_remove e X Y l l' : bnd X Y -> Forall2 (aeqn (bind X Y e)) l l' ->
  Forall2 (aeqn e) (remove_bound l X) (remove_bound l' Y).
Proof.
  intros (B1 & B2 & _ & _ & B5 & B6). unfold remove_bound, bind.
  induction 1 as [|a b l l' H _ IH]; cbn [filter]; [constructor|].
  unfold aeqn in H. destruct (isvar a) eqn:Ea.
  - destruct H as (Eb & Hp & Ht & Hv). destruct (isvar_facts a Ea) as (A1 & _). destruct (isvar_facts b Eb) as (Bc & _).
    rewrite !name_equal_binders by assumption. cbn [var_rel] in Hv. destruct Hv as [[-> ->]|(N1 & N2 & Hv)].
    + rewrite !String.eqb_refl. cbn. exact IH.
    + destruct (String.eqb_spec (ident a) (ident X)); [contradiction|]. destruct (String.eqb_spec (ident b) (ident Y)); [contradiction|].
      cbn. constructor; [|exact IH]. unfold aeqn. rewrite Ea. auto.
  - destruct H as [<- Ia].
    assert (E1 : name_equal a X = false).
    { unfold name_equal, initialized. rewrite B1, Ia. rewrite andb_false_r. destruct (String.eqb_spec "" (ident X)) as [E|_]; [symmetry in E; contradiction | reflexivity]. }
    assert (E2 : name_equal a Y = false).
    { unfold name_equal, initialized. rewrite B2, Ia. rewrite andb_false_r. destruct (String.eqb_spec "" (ident Y)) as [E|_]; [symmetry in E; contradiction | reflexivity]. }
    rewrite E1, E2. cbn. constructor; [|exact IH]. unfold aeqn. rewrite Ea. auto.
Qed.
Lemma F2_fold e : forall args args', Forall2 (aeqn e) args args' -> forall acc acc', Forall2 (aeqn e) acc acc' ->
  Forall2 (aeqn e) (fold_left (fun acc n => append_if_not_self n acc) args acc) (fold_left (fun acc n => append_if_not_self n acc) args' acc').
Proof. induction 1; intros acc acc' Ha; cbn [fold_left]; [exact Ha|]. apply IHForall2. now apply F2_append. Qed.

Theorem aeq_free :
  (forall f g e, aeq e f g -> Forall2 (aeqn e) (free_names f) (free_names g)) /\
  (forall b b' e acc acc', aeq_brs e b b' -> Forall2 (aeqn e) acc acc' -> Forall2 (aeqn e) (free_names_brs acc b) (free_names_brs acc' b')).
Proof.
  apply form_branches_ind; intros.
  all: try match goal with Ha : aeq _ _ ?g |- _ => destruct g; cbn [aeq] in Ha; try contradiction end.
  all: try match goal with Ha : aeq_brs _ _ ?g |- _ => destruct g; cbn [aeq_brs] in Ha; try contradiction end.
  all: repeat match goal with H : _ /\ _ |- _ => destruct H end.
  all: cbn [free_names free_names_brs].
  all: repeat first [ assumption | apply Forall2_nil | apply F2_merge | apply F2_append
                    | (apply F2_remove; [assumption|]) | (apply F2_fold; [assumption|]) ]; eauto.
  - match goal with IH : forall b' e acc acc', _ |- _ => apply IH; [assumption|] end. apply F2_append; [assumption | constructor].
  - match goal with IH : forall b' e acc acc', aeq_brs e rest b' -> _ |- _ => apply IH; [assumption|] end.
    apply F2_merge; [|assumption]. apply F2_remove; [assumption|]. eauto.
Qed.

Lemma aeqn_nil_eq a b : aeqn [] a b -> a = b.
Proof.
  unfold aeqn. destruct (isvar a) eqn:Ea; [|tauto]. intros (Eb & Hp & Ht & Hv). cbn in Hv.
  destruct (isvar_facts a Ea) as (A1 & A2 & _). destruct (isvar_facts b Eb) as (B1 & B2 & _).
  destruct a, b; cbn in *; subst; reflexivity.
Qed.
Corollary aeq_free_closed f g : aeq [] f g -> free_names f = free_names g.
Proof.
  intros H. pose proof (proj1 aeq_free f g [] H) as G. induction G as [|a b l l' Hab _ IH]; [reflexivity|].
  now rewrite (aeqn_nil_eq a b Hab), IH.
Qed.
