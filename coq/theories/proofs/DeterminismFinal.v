(* DeterminismFinal.v — C03 in its final forms for PARSED programs: the source test all_src_b is a theorem
   for parsed accepted programs (a9: proofs/SrcAll.v all_src_parsed), so the premises are: the text
   parses, the program is accepted, it is closed.  For the non-polarized mode the class test
   plain_src_b (no forward, drop, split; one provider name per process) remains. *)
From stdpp Require Import gmap strings sorting.
Require Import Grits.Base Grits.ModeDefs Grits.Modes Grits.STypes Grits.Forms Grits.Expand Grits.Tc Grits.TcTop
               Grits.Runtime Grits.RuntimeFootprint Grits.proofs.RtTheorems Grits.proofs.RtTheoremsTc Grits.proofs.SrcAll.
Require Import Grits.proofs.RuntimeFacts Grits.proofs.Diamond Grits.proofs.Determinism Grits.proofs.AsyncSync
               Grits.proofs.InvAll Grits.proofs.DeterminismAll Grits.proofs.PlainNP Grits.proofs.DeterminismNP.

Theorem determinism_parsed_final txt p p' md pick1 pick2 f1 f2 t1 :
  parse_string txt = POk p -> typecheck p = Accept p' -> in_fragment p' -> is_np md = false ->
  exec_run f1 pick1 md (p_types p') (p_funs p') (init_config p') = RQuiescent t1 -> (f1 <= f2)%nat ->
  exists t2, exec_run f2 pick2 md (p_types p') (p_funs p') (init_config p') = RQuiescent t2 /\
             cfg_equiv t2 t1 /\ labels t2 ≡ₚ labels t1.
Proof. intros Hp Ha Hf. exact (determinism_all txt p p' md pick1 pick2 f1 f2 t1 Hp Ha Hf (all_src_parsed txt p p' Hp Ha)). Qed.

Theorem async_sync_agree_parsed_final txt p p' pick1 f1 t1 :
  parse_string txt = POk p -> typecheck p = Accept p' -> in_fragment p' ->
  exec_run f1 pick1 Sync (p_types p') (p_funs p') (init_config p') = RQuiescent t1 ->
  exists n, forall pick2 f2, (n < f2)%nat ->
    exists t2, exec_run f2 pick2 Async (p_types p') (p_funs p') (init_config p') = RQuiescent t2 /\ labels t2 ≡ₚ labels t1.
Proof. intros Hp Ha Hf. exact (async_sync_agree_all txt p p' pick1 f1 t1 Hp Ha Hf (all_src_parsed txt p p' Hp Ha)). Qed.

Lemma np_src_of_plain txt p p' : parse_string txt = POk p -> typecheck p = Accept p' -> plain_src_b p = true -> np_src_b p = true.
Proof. intros Hp Ha Hpl. unfold np_src_b. by rewrite (all_src_parsed txt p p' Hp Ha), Hpl. Qed.

Theorem determinism_np_plain_final txt p p' pick1 pick2 f1 f2 t1 :
  parse_string txt = POk p -> typecheck p = Accept p' -> in_fragment p' -> plain_src_b p = true ->
  exec_run f1 pick1 NP (p_types p') (p_funs p') (init_config p') = RQuiescent t1 -> (f1 <= f2)%nat ->
  exists t2, exec_run f2 pick2 NP (p_types p') (p_funs p') (init_config p') = RQuiescent t2 /\
             cfg_equiv t2 t1 /\ labels t2 ≡ₚ labels t1.
Proof.
  intros Hp Ha Hf Hpl. exact (determinism_np_plain txt p p' pick1 pick2 f1 f2 t1 Hp Ha Hf (np_src_of_plain txt p p' Hp Ha Hpl)).
Qed.

Theorem np_polarized_agree_plain_final txt p p' pick1 f1 t1 :
  parse_string txt = POk p -> typecheck p = Accept p' -> in_fragment p' -> plain_src_b p = true ->
  exec_run f1 pick1 NP (p_types p') (p_funs p') (init_config p') = RQuiescent t1 ->
  (forall pick2 f2, (f1 <= f2)%nat ->
     exists t2, exec_run f2 pick2 Sync (p_types p') (p_funs p') (init_config p') = RQuiescent t2 /\ labels t2 ≡ₚ labels t1) /\
  exists n, forall pick2 f2, (n < f2)%nat ->
    exists t2, exec_run f2 pick2 Async (p_types p') (p_funs p') (init_config p') = RQuiescent t2 /\ labels t2 ≡ₚ labels t1.
Proof.
  intros Hp Ha Hf Hpl. exact (np_polarized_agree_plain txt p p' pick1 f1 t1 Hp Ha Hf (np_src_of_plain txt p p' Hp Ha Hpl)).
Qed.
