(* proofs/ParsedUninit.v — the premise `uninit_prog` of C05 holds of everything the parser returns:
   it is one clause of RtTcSyn.raw_ok (no name carries a channel), proved of parser output in
   proofs/ParseRaw.v. *)
From stdpp Require Import gmap strings.
Require Import Grits.Base Grits.ModeDefs Grits.Modes Grits.STypes Grits.Forms Grits.Subst Grits.Expand
               Grits.Tc Grits.TcTop Grits.spec.Linear Grits.spec.Oracle Grits.proofs.RtTcSyn Grits.proofs.ParseRaw
               Grits.proofs.LinearTop Grits.proofs.OracleProofs.

Lemma nm_uninit rs n : nm_ok rs n = true -> uninit n = true.
Proof. intros H. unfold uninit. now rewrite (nm_ok_chan _ _ H). Qed.
Lemma bd_uninit x : bd_ok x = true -> uninit x = true.
Proof. intros H. unfold uninit. now rewrite (bd_ok_chan _ H). Qed.

Lemma syn_uninit :
  (forall f rs, syn_form rs f = true -> uninit_form f = true) /\
  (forall bs rs, syn_brs rs bs = true -> uninit_brs bs = true).
Proof.
  apply form_branches_ind; intros; cbn [syn_form syn_brs uninit_form uninit_brs] in *;
    repeat match goal with H : _ && _ = true |- _ => apply andb_prop in H; destruct H end;
    repeat match goal with
    | H : nm_ok _ ?n = true |- _ => apply nm_uninit in H
    | H : bd_ok ?n = true |- _ => apply bd_uninit in H
    end;
    repeat match goal with
    | IH : forall rs, syn_form rs ?k = true -> _, H : syn_form _ ?k = true |- _ => apply IH in H
    | IH : forall rs, syn_brs rs ?k = true -> _, H : syn_brs _ ?k = true |- _ => apply IH in H
    end;
    repeat match goal with H : ?a = true |- context [?a] => rewrite H end; auto.
  (* FCall *)
  match goal with H : forallb _ _ = true |- _ => rename H into Ha end.
  rewrite forallb_forall in *. intros n Hn. eapply nm_uninit. eauto.
Qed.

Lemma raw_ok_uninit p : raw_ok p = true -> uninit_prog p = true.
Proof.
  unfold raw_ok, uninit_prog. intros H. apply andb_prop in H. destruct H as (Hf & Hp).
  rewrite forallb_forall in Hf, Hp. apply andb_true_intro. split; apply forallb_forall.
  - intros fd Hin. specialize (Hf fd Hin). unfold fun_raw in Hf. apply andb_prop in Hf. destruct Hf as (_ & Hf).
    eapply (proj1 syn_uninit); eauto.
  - intros pd Hin. specialize (Hp pd Hin). unfold proc_raw in Hp. apply andb_prop in Hp. destruct Hp as (_ & Hp).
    eapply (proj1 syn_uninit); eauto.
Qed.

Theorem parsed_uninit s p : parse_string s = POk p -> uninit_prog p = true.
Proof. intros H. exact (raw_ok_uninit p (parse_raw_ok s p H)). Qed.

(* C05 for parsed programs: no premise besides parsing and acceptance *)
Theorem tc_linear_parsed s p p' : parse_string s = POk p -> typecheck p = Accept p' -> LinearProgram p.
Proof. intros Hs H. exact (tc_linear p p' (parsed_uninit s p Hs) H). Qed.
Theorem lin_oracle_agrees_parsed s p p' : parse_string s = POk p -> typecheck p = Accept p' -> linear_program_b p = true.
Proof. intros Hs H. exact (lin_oracle_agrees p p' (parsed_uninit s p Hs) H). Qed.
