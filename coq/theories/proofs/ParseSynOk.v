(* ParseSynOk.v — every program the parser returns satisfies spec/SynOk.prog_syn_ok: all type names
   and branch labels occurring in it are LABEL lexemes (EqualWF.ident_ok: non-empty runs of label
   characters other than "1"), and every choice type has at least one branch.
   Route: (1) proofs/ScanLabels.v: LABEL lexemes are ident_ok; (2) proofs/LRInvariant.v instantiated
   with G sym v = "v has the shape of sym, a token value at the terminal LABEL is ident_ok, and
   every type inside v is syn_ok" — one case analysis over the 75 semantic actions of Actions.v;
   (3) expandProcesses (Expand.expand) keeps it: substitution never touches type annotations,
   SetModalityTypeDef only fills in modes. *)
Require Import Grits.Base Grits.ModeDefs Grits.Modes Grits.STypes Grits.Forms Grits.Subst Grits.Infer
               Grits.Tokens Grits.Scan Grits.gen.LRTables Grits.gen.LRCert Grits.LR Grits.Actions Grits.Expand
               Grits.Equal Grits.EqualWF Grits.spec.SynOk
               Grits.proofs.ScanProofs Grits.proofs.ScanLabels
               Grits.proofs.LRCheck Grits.proofs.LRProof Grits.proofs.LRCertInst
               Grits.proofs.LRSound Grits.proofs.LRSoundInst Grits.proofs.LRInvariant Grits.proofs.ActionsTyped
               Grits.proofs.TeqMono.
Local Open Scope Z_scope.

(* ---------------------------------------------------------------- initial types *)
Fixpoint iopts_good_with (g : ity -> bool) (l : list (string * ity)) : bool :=
  match l with [] => true | (lb, a) :: r => ident_ok lb && g a && iopts_good_with g r end.
Fixpoint ity_good (t : ity) : bool :=
  match t with
  | IName x => ident_ok x
  | IUnit => true
  | ITensor a b | ILolli a b => ity_good a && ity_good b
  | IPlus bs | IWith bs =>
      negb (length bs =? 0)%nat &&
      (fix go (l : list (string * ity)) : bool :=
         match l with [] => true | (lb, a) :: r => ident_ok lb && ity_good a && go r end) bs
  | IUp _ _ a | IDown _ _ a => ity_good a
  end.
Definition iopts_good (l : list (string * ity)) : bool :=
  (fix go (l : list (string * ity)) : bool :=
     match l with [] => true | (lb, a) :: r => ident_ok lb && ity_good a && go r end) l.

Definition to_brs (m : mode) (l : list (string * ity)) : brs :=
  (fix go (l : list (string * ity)) : brs :=
     match l with [] => BNil | (lb, a) :: r => BCons lb (to_sty m a) (go r) end) l.

Lemma to_sty_syn : forall t m, ity_good t = true -> syn_ok (to_sty m t) = true.
Proof.
  fix IH 1. intros t m H. destruct t as [x | | a b | a b | bs | bs | f t0 a | f t0 a]; cbn [to_sty syn_ok ity_good] in *.
  - exact H.
  - reflexivity.
  - apply andb_true_iff in H. destruct H as [H1 H2]. rewrite (IH a m H1), (IH b m H2). reflexivity.
  - apply andb_true_iff in H. destruct H as [H1 H2]. rewrite (IH a m H1), (IH b m H2). reflexivity.
  - apply andb_true_iff in H. destruct H as [Hn Hg]. apply andb_true_iff. split.
    + destruct bs as [|[lb a] r]; [discriminate Hn | reflexivity].
    + clear Hn. induction bs as [|[lb a] r IHr]; [reflexivity|].
      cbn [syn_ok_brs]. apply andb_true_iff in Hg. destruct Hg as [Hg Hr]. apply andb_true_iff in Hg. destruct Hg as [Hl Ha].
      rewrite Hl, (IH a m Ha). exact (IHr Hr).
  - apply andb_true_iff in H. destruct H as [Hn Hg]. apply andb_true_iff. split.
    + destruct bs as [|[lb a] r]; [discriminate Hn | reflexivity].
    + clear Hn. induction bs as [|[lb a] r IHr]; [reflexivity|].
      cbn [syn_ok_brs]. apply andb_true_iff in Hg. destruct Hg as [Hg Hr]. apply andb_true_iff in Hg. destruct Hg as [Hl Ha].
      rewrite Hl, (IH a m Ha). exact (IHr Hr).
  - exact (IH a f H).
  - exact (IH a f H).
Qed.

Lemma convert_syn h t : ity_good t = true -> syn_ok (convert h t) = true.
Proof. intros H. unfold convert. destruct h; apply to_sty_syn; exact H. Qed.

(* ---------------------------------------------------------------- values *)
Definition stmt_good (s : stmt) : bool :=
  match s with
  | SProc provs ty body => forallb name_syn provs && opt_syn ty && form_syn body
  | SFun f => fun_syn f && match fn_explicit f with Some ep => name_syn ep | None => true end
  | SType _ t => syn_ok t
  | SAssume ns => forallb name_syn ns
  | SExec _ => true
  end.

Definition LABELZ : Z := lex1 (tok_code LABEL).

Definition good_b (sym : Z) (v : sval) : bool :=
  match v with
  | VTok s => if sym =? LABELZ then ident_ok s else true
  | VStmts l => forallb stmt_good l
  | VStmt s => stmt_good s
  | VForm f => form_syn f
  | VName n => name_syn n
  | VNames l => forallb name_syn l
  | VBranches b => branches_syn b
  | VSty t => syn_ok t
  | VIty t => ity_good t
  | VIopts o => negb (length o =? 0)%nat && iopts_good o
  | VPol _ | VUnit => true
  end.

Definition G (sym : Z) (v : sval) : Prop := shape_of v = sym_shape sym /\ good_b sym v = true.

Fixpoint goods (syms : list Z) (vals : list sval) : bool :=
  match syms, vals with
  | [], [] => true
  | s :: ss, v :: vs => good_b s v && goods ss vs
  | _, _ => false
  end.

Lemma Forall2_G syms vals : Forall2 G syms vals ->
  map shape_of vals = map sym_shape syms /\ goods syms vals = true.
Proof.
  induction 1 as [|s v ss vs [Hs Hg] _ [IH1 IH2]]; [split; reflexivity|].
  cbn. rewrite Hs, IH1, Hg, IH2. split; reflexivity.
Qed.

Lemma branches_syn_snoc bs l n k : branches_syn (br_snoc bs l n k) = branches_syn bs && (name_syn n && form_syn k).
Proof.
  induction bs as [|l' p' k' r IH]; cbn [br_snoc branches_syn].
  - rewrite andb_true_r. reflexivity.
  - rewrite IH. rewrite !andb_assoc. reflexivity.
Qed.

Lemma name_syn_set_pol n p : name_syn (set_pol n p) = name_syn n.
Proof. reflexivity. Qed.

Local Opaque ident_ok syn_ok convert mode_of_string.

Ltac split_ands :=
  repeat match goal with
         | H : _ && _ = true |- _ => apply andb_true_iff in H; destruct H
         | H : (if ?a =? ?b then _ else _) = true |- _ => progress (vm_compute (a =? b) in H)
         | H : true = true |- _ => clear H
         end.

(* every semantic action keeps G *)
Lemma reduce_good : forall p vals, 0 < p < 76 ->
  map shape_of vals = map sym_shape (g_rhs p) -> goods (g_rhs p) vals = true ->
  forall nv, reduce_action p vals = Some nv -> good_b (lhs p) nv = true.
Proof.
  intros p vals Hp Hs Hg nv Hnv. apply prod_range in Hp. cbn [seq map Z.of_nat Pos.of_succ_nat Pos.succ] in Hp.
  repeat (destruct Hp as [<- | Hp];
          [ match type of Hs with _ = map sym_shape (g_rhs ?q) =>
              let r := eval vm_compute in (map sym_shape (g_rhs q)) in
              change (map sym_shape (g_rhs q)) with r in Hs;
              let r2 := eval vm_compute in (g_rhs q) in
              change (g_rhs q) with r2 in Hg;
              let l := eval vm_compute in (lhs q) in
              change (lhs q) with l
            end;
            peel Hs; cbn [goods good_b] in Hg; split_ands;
            cbn in Hnv; inversion Hnv; subst nv; clear Hnv;
            cbn [good_b stmt_good]; unfold fun_syn, typed_name, pol_name, plain_name, self_name, name_syn;
            cbn [form_syn branches_syn forallb fun_syn proc_syn opt_syn name_syn nty typed_name pol_name plain_name self_name
                 fn_type fn_params fn_body fn_explicit ity_good iopts_good length Nat.eqb negb andb set_pol];
            cbn [stmt_good form_syn branches_syn forallb opt_syn nty];
            rewrite ?branches_syn_snoc;
            try match goal with |- syn_ok (convert _ _) = true => apply convert_syn end;
            unfold name_syn in *;
            repeat match goal with
                   | H : ?x = true |- context [?x] => rewrite H
                   end;
            cbn [andb negb]; try reflexivity; try assumption
          | ]).
  contradiction.
Qed.

Local Transparent ident_ok syn_ok convert mode_of_string.

Lemma G_reduce : forall p vals nv, 0 < p < lenZ tR2 -> Forall2 G (grhs p) vals ->
  reduce_action p vals = Some nv -> G (lhs p) nv.
Proof.
  intros p vals nv Hp HF Hra. rewrite tR2_len in Hp.
  destruct (Forall2_G _ _ HF) as [Hs Hg]. change (grhs p) with (g_rhs p) in Hs, Hg.
  destruct (reduce_typed p vals Hp Hs) as [nv' [Hra' [Hsh _]]].
  rewrite Hra in Hra'. inversion Hra'; subst nv'. split; [exact Hsh|].
  exact (reduce_good p vals Hp Hs Hg nv Hra).
Qed.

(* tokens: shape ShTok at a terminal; a LABEL lexeme is ident_ok *)
Lemma G_token : forall tv, label_tok_ok tv -> G (tokz tv) (tok_val tv).
Proof.
  intros [k lx] Hl. unfold G, tokz, tok_val. cbn [fst snd shape_of good_b]. split.
  - destruct k; reflexivity.
  - destruct (lex1 (tok_code k) =? LABELZ) eqn:E; [|reflexivity].
    apply Hl. cbn [fst]. destruct k; try reflexivity; discriminate E.
Qed.

(* the statement list returned by the LR parse is good *)
Theorem parse_statements_good : forall s l, parse_statements s = POk l -> forallb stmt_good l = true.
Proof.
  intros s l H. unfold parse_statements in H.
  destruct (scan_all s) as [toks|] eqn:Hs; [|discriminate].
  unfold parse_tokens in H.
  destruct (run sval tok_val reduce_action (lr_fuel (length toks)) [(0, VUnit)] toks) as [v | | p |] eqn:Hrun; try discriminate.
  destruct (has_illegal toks); [discriminate|].
  destruct v; try discriminate. inversion H; subst l0.
  assert (Hin : input_ok sval tok_val G toks).
  { unfold input_ok. eapply Forall_impl; [|exact (scan_all_labels _ _ Hs)]. intros tv. apply G_token. }
  destruct (parse_inv sval tok_val reduce_action G G_reduce _ _ _ _ Hin Hrun) as [_ Hg].
  exact Hg.
Qed.

(* ---------------------------------------------------------------- expandProcesses *)
Lemma name_syn_subst old new n : name_syn (name_subst old new n) = name_syn n.
Proof. unfold name_subst. destruct (_ && _); [reflexivity|]. destruct (_ && _); reflexivity. Qed.

Lemma forallb_name_syn_subst old new l : forallb name_syn (map (name_subst old new) l) = forallb name_syn l.
Proof. induction l as [|n l IH]; cbn; [reflexivity|]. rewrite name_syn_subst, IH. reflexivity. Qed.

Lemma subst_syn old new :
  (forall f, form_syn (subst old new f) = form_syn f) /\
  (forall b, branches_syn (subst_brs old new b) = branches_syn b).
Proof.
  apply form_branches_ind; intros; cbn [subst subst_brs form_syn branches_syn];
    rewrite ?name_syn_subst, ?forallb_name_syn_subst;
    repeat match goal with
           | |- context [if ?c then subst old new ?k else ?k] =>
             replace (form_syn (if c then subst old new k else k)) with (form_syn k) by (destruct c; auto)
           end;
    repeat match goal with H : _ = _ |- _ => rewrite H end; reflexivity.
Qed.

Lemma expand_fun_syn f : stmt_good (SFun f) = true -> fun_syn (expand_fun f) = true.
Proof.
  cbn [stmt_good]. intros H. apply andb_true_iff in H. destruct H as [H _]. unfold expand_fun.
  destruct (fn_explicit f); [|exact H]. unfold fun_syn in *. cbn [fn_type fn_params fn_body].
  rewrite (proj1 (subst_syn _ _)). exact H.
Qed.

Lemma forallb_snoc {A} (P : A -> bool) l x : forallb P (l ++ [x]) = forallb P l && P x.
Proof. rewrite forallb_app. cbn. rewrite andb_true_r. reflexivity. Qed.

Lemma expand1_syn : forall l procs assumed funs tys procs' assumed' funs' tys',
  forallb stmt_good l = true ->
  forallb proc_syn procs = true -> forallb name_syn assumed = true -> forallb fun_syn funs = true -> env_syn tys = true ->
  Expand.expand1 l procs assumed funs tys = POk (procs', assumed', funs', tys') ->
  forallb proc_syn procs' = true /\ forallb name_syn assumed' = true /\ forallb fun_syn funs' = true /\ env_syn tys' = true.
Proof.
  induction l as [|s r IH]; intros procs assumed funs tys procs' assumed' funs' tys' Hl Hp Ha Hf Ht H.
  - cbn in H. inversion H; subst. auto.
  - cbn [forallb] in Hl. apply andb_true_iff in Hl. destruct Hl as [Hs Hr]. cbn [Expand.expand1] in H.
    destruct s as [provs ty body | f | x t | ns | fname].
    + cbn [stmt_good] in Hs. apply andb_true_iff in Hs. destruct Hs as [Hs Hb]. apply andb_true_iff in Hs. destruct Hs as [Hpv Hty].
      assert (Hgo : forall pd, proc_syn pd = true ->
                Expand.expand1 r (procs ++ [pd]) assumed funs tys = POk (procs', assumed', funs', tys') ->
                forallb proc_syn procs' = true /\ forallb name_syn assumed' = true /\ forallb fun_syn funs' = true /\ env_syn tys' = true).
      { intros pd Hpd Hq. eapply IH; [exact Hr | | exact Ha | exact Hf | exact Ht | exact Hq].
        rewrite forallb_snoc, Hp, Hpd. reflexivity. }
      destruct provs as [|p [|q ps]].
      * (match type of H with context [if ?c then _ else _] => destruct c; [discriminate|] | _ => idtac end). eapply Hgo; [|exact H]. unfold proc_syn; cbn [pr_type pr_providers pr_body]; rewrite Hty, Hpv, Hb; reflexivity.
      * eapply Hgo; [|exact H]. unfold proc_syn; cbn [pr_type pr_providers pr_body]; rewrite (proj1 (subst_syn _ _)), Hty, Hpv, Hb; reflexivity.
      * (match type of H with context [if ?c then _ else _] => destruct c; [discriminate|] | _ => idtac end). eapply Hgo; [|exact H]. unfold proc_syn; cbn [pr_type pr_providers pr_body]; rewrite Hty, Hpv, Hb; reflexivity.
    + eapply IH; [exact Hr | exact Hp | exact Ha | | exact Ht | exact H].
      rewrite forallb_snoc, Hf, (expand_fun_syn f Hs). reflexivity.
    + eapply IH; [exact Hr | exact Hp | exact Ha | exact Hf | | exact H].
      unfold env_syn in *. rewrite forallb_snoc, Ht. cbn [td_body stmt_good] in *. rewrite Hs. reflexivity.
    + eapply IH; [exact Hr | exact Hp | | exact Hf | exact Ht | exact H].
      rewrite forallb_app, Ha. exact Hs.
    + eapply IH; [exact Hr | exact Hp | exact Ha | exact Hf | exact Ht | exact H].
Qed.

Lemma get_function_in : forall fs f n fd, get_function fs f n = Some fd -> In fd fs.
Proof.
  induction fs as [|d r IH]; intros f n fd H; cbn in H; [discriminate|].
  destruct (_ && _); [inversion H; subst; left; reflexivity | right; eapply IH; exact H].
Qed.

Lemma expand_exec_syn : forall l funs count procs procs',
  forallb fun_syn funs = true -> forallb proc_syn procs = true ->
  expand_exec l funs count procs = POk procs' -> forallb proc_syn procs' = true.
Proof.
  induction l as [|s r IH]; intros funs count procs procs' Hf Hp H.
  - cbn in H. inversion H; subst. exact Hp.
  - cbn [expand_exec] in H. destruct s as [provs ty body | f | x t | ns | fname];
      try (eapply IH; [exact Hf | exact Hp | exact H]).
    destruct (get_function funs fname 0) as [fd|] eqn:Eg; [|discriminate].
    eapply IH; [exact Hf | | exact H].
    rewrite forallb_snoc, Hp. unfold proc_syn. cbn [pr_type pr_providers pr_body form_syn forallb name_syn nty opt_syn andb].
    apply get_function_in in Eg. rewrite forallb_forall in Hf. specialize (Hf _ Eg). unfold fun_syn in Hf.
    apply andb_true_iff in Hf. destruct Hf as [Hf _]. apply andb_true_iff in Hf. destruct Hf as [Hf _]. rewrite Hf. reflexivity.
Qed.

Lemma infer_defs_bodies : forall D0 l r, infer_defs D0 l = Ok r -> map td_body r = map td_body l.
Proof.
  induction l as [|d l IH]; intros r H; cbn [infer_defs] in H.
  - inversion H; subst. reflexivity.
  - destruct (infer (infer_fuel D0 (td_body d)) D0 (td_body d) []) as [[m u]| |]; cbn [obind] in H; try discriminate.
    destruct (infer_defs D0 l) as [r'| |] eqn:E; cbn [obind] in H; try discriminate. inversion H; subst.
    cbn [map td_body]. f_equal. exact (IH r' eq_refl).
Qed.

Lemma env_syn_bodies D : env_syn D = forallb syn_ok (map td_body D).
Proof. unfold env_syn. induction D as [|d D IH]; cbn; [reflexivity | rewrite IH; reflexivity]. Qed.

Lemma set_modality_syn tys tys' : set_modality_typedefs tys = Ok tys' -> env_syn tys = true -> env_syn tys' = true.
Proof.
  unfold set_modality_typedefs. intros H Ht.
  destruct (infer_defs tys tys) as [D1| |] eqn:E; cbn [obind] in H; try discriminate. inversion H; subst.
  apply infer_defs_bodies in E. rewrite env_syn_bodies in *. rewrite <- E in Ht.
  rewrite map_map. cbn [td_body]. clear E H.
  assert (Hgen : forall D l, forallb syn_ok (map td_body l) = true ->
                 forallb syn_ok (map (fun d => assign D (td_mode d) (td_body d)) l) = true).
  { intros D l. induction l as [|d l IH]; cbn [map forallb]; [reflexivity|]. intros Hq.
    apply andb_true_iff in Hq. destruct Hq as [H1 H2]. rewrite (proj1 (assign_syn D)), H1. exact (IH H2). }
  apply Hgen. exact Ht.
Qed.

Theorem expand_syn : forall l p, forallb stmt_good l = true -> expand l = POk p -> prog_syn_ok p = true.
Proof.
  intros l p Hl H. unfold expand in H.
  destruct (Expand.expand1 l [] [] [] []) as [[[[procs assumed] funs] tys]| | |] eqn:E1; try discriminate.
  destruct (expand_exec l funs 0 procs) as [procs'| | |] eqn:E2; try discriminate.
  destruct (set_modality_typedefs tys) as [tys'| |] eqn:E3; try discriminate.
  inversion H; subst p.
  destruct (expand1_syn l [] [] [] [] _ _ _ _ Hl eq_refl eq_refl eq_refl eq_refl E1) as [Hp [Ha [Hf Ht]]].
  pose proof (expand_exec_syn _ _ _ _ _ Hf Hp E2) as Hp'.
  pose proof (set_modality_syn _ _ E3 Ht) as Ht'.
  unfold prog_syn_ok. cbn [p_types p_funs p_procs p_assumed]. rewrite Ht', Hf, Hp', Ha. reflexivity.
Qed.

(* the parser only produces programs whose types are syntactically well-formed *)
Theorem parse_syn_ok : forall s p, parse_string s = POk p -> prog_syn_ok p = true.
Proof.
  intros s p H. unfold parse_string in H.
  destruct (parse_statements s) as [l| | |] eqn:Hp; try discriminate.
  exact (expand_syn l p (parse_statements_good s l Hp) H).
Qed.
