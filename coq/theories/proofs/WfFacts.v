(* proofs/WfFacts.v — mode uniformity of well-formed types (what C06 needs from C10):
   a component of a well-formed type is well formed and has the mode the constructor dictates;
   unfolding a well-formed name keeps well-formedness and the mode.  The two facts about the type
   environment are section hypotheses here; Indep*.v discharge the first from sanity_typedefs and
   carry the second as the explicit premise `env_moded`. *)
Require Import Grits.Base Grits.ModeDefs Grits.Modes Grits.STypes Grits.Infer Grits.TcDeps.

Lemma mode_eqb_proper a b : proper a = true -> mode_eqb a b = true -> a = b.
Proof. destruct a, b; cbn; congruence. Qed.

Lemma down_proper a b : down a b = true -> proper a = true /\ proper b = true.
Proof. destruct a, b; cbn; auto; discriminate. Qed.
Lemma up_proper a b : up a b = true -> proper a = true /\ proper b = true.
Proof. destruct a, b; cbn; auto; discriminate. Qed.
Lemma down_refl a : proper a = true -> down a a = true.
Proof. destruct a; cbn; auto. Qed.
Lemma down_trans a b c : down a b = true -> down b c = true -> down a c = true.
Proof. destruct a, b, c; cbn; auto; discriminate. Qed.
(* a provider that shifts up from f to t offers, after the shift, at the weaker mode f *)
Lemma down_up a f t : up f t = true -> down a t = true -> down a f = true.
Proof. destruct a, f, t; cbn; auto; discriminate. Qed.

Section Wf.
Variable D : tenv.
Hypothesis env_wf : forall x d, tlookup D x = Some d -> check_wf D (td_body d) = true.
Hypothesis env_moded : forall x d, tlookup D x = Some d -> mode_of (td_body d) = td_mode d.

Lemma check_modes_head cur t : check_modes D cur t = true -> mode_of t = cur /\ proper cur = true.
Proof.
  destruct t; cbn; unfold mode_ok; intros H;
    repeat match goal with H : _ && _ = true |- _ => apply andb_prop in H; destruct H end.
  - destruct (tlookup D x); try discriminate.
    repeat match goal with H : _ && _ = true |- _ => apply andb_prop in H; destruct H end.
    assert (m = cur) by (apply mode_eqb_proper; auto). subst; auto.
  - assert (m = cur) by (apply mode_eqb_proper; auto). subst; auto.
  - assert (m = cur) by (apply mode_eqb_proper; auto). subst; auto.
  - assert (m = cur) by (apply mode_eqb_proper; auto). subst; auto.
  - assert (m = cur) by (apply mode_eqb_proper; auto). subst; auto.
  - assert (m = cur) by (apply mode_eqb_proper; auto). subst; auto.
  - assert (t = cur) by (apply mode_eqb_proper; auto). subst; auto.
  - assert (t = cur) by (apply mode_eqb_proper; auto). subst; auto.
Qed.

Lemma check_wf_intro t m : check_labels D t = true -> check_modes D m t = true -> check_wf D t = true.
Proof.
  intros Hl Hm. unfold check_wf. rewrite Hl. cbn. destruct (check_modes_head _ _ Hm) as (-> & _). exact Hm.
Qed.

Lemma wf_proper t : check_wf D t = true -> proper (mode_of t) = true.
Proof. unfold check_wf. intros H. apply andb_prop in H. destruct H as (_ & H). now apply check_modes_head in H. Qed.

Lemma comp_tensor a b m : check_wf D (TTensor a b m) = true ->
  check_wf D a = true /\ check_wf D b = true /\ mode_of a = m /\ mode_of b = m.
Proof.
  unfold check_wf at 1. cbn. intros H.
  repeat match goal with H : _ && _ = true |- _ => apply andb_prop in H; destruct H end.
  repeat split; try (eapply check_wf_intro; eauto); eapply check_modes_head; eauto.
Qed.
Lemma comp_lolli a b m : check_wf D (TLolli a b m) = true ->
  check_wf D a = true /\ check_wf D b = true /\ mode_of a = m /\ mode_of b = m.
Proof.
  unfold check_wf at 1. cbn. intros H.
  repeat match goal with H : _ && _ = true |- _ => apply andb_prop in H; destruct H end.
  repeat split; try (eapply check_wf_intro; eauto); eapply check_modes_head; eauto.
Qed.

Lemma comp_brs_aux m l bt : forall bs seen, check_labels_brs D seen bs = true -> check_modes_brs D m bs = true ->
  find_br l bs = Some bt -> check_wf D bt = true /\ mode_of bt = m.
Proof.
  induction bs as [|l' a r IH]; intros seen Hl Hm Hf; cbn in *; try discriminate.
  repeat match goal with H : _ && _ = true |- _ => apply andb_prop in H; destruct H end.
  destruct (String.eqb l l').
  - inversion Hf; subst. split; [eapply check_wf_intro; eauto|eapply check_modes_head; eauto].
  - eapply IH; eauto.
Qed.
Lemma comp_plus bs m l bt : check_wf D (TPlus bs m) = true -> find_br l bs = Some bt ->
  check_wf D bt = true /\ mode_of bt = m.
Proof.
  unfold check_wf at 1. cbn. intros H Hf.
  repeat match goal with H : _ && _ = true |- _ => apply andb_prop in H; destruct H end.
  eapply comp_brs_aux; eauto.
Qed.
Lemma comp_with bs m l bt : check_wf D (TWith bs m) = true -> find_br l bs = Some bt ->
  check_wf D bt = true /\ mode_of bt = m.
Proof.
  unfold check_wf at 1. cbn. intros H Hf.
  repeat match goal with H : _ && _ = true |- _ => apply andb_prop in H; destruct H end.
  eapply comp_brs_aux; eauto.
Qed.
Lemma comp_up f t a : check_wf D (TUp f t a) = true ->
  check_wf D a = true /\ mode_of a = f /\ up f t = true.
Proof.
  unfold check_wf at 1. cbn. intros H.
  repeat match goal with H : _ && _ = true |- _ => apply andb_prop in H; destruct H end.
  repeat split; auto; try (eapply check_wf_intro; eauto); eapply check_modes_head; eauto.
Qed.
Lemma comp_down f t a : check_wf D (TDown f t a) = true ->
  check_wf D a = true /\ mode_of a = f /\ down f t = true.
Proof.
  unfold check_wf at 1. cbn. intros H.
  repeat match goal with H : _ && _ = true |- _ => apply andb_prop in H; destruct H end.
  repeat split; auto; try (eapply check_wf_intro; eauto); eapply check_modes_head; eauto.
Qed.

(* unfolding a well-formed type: never "undefined", keeps well-formedness and the mode *)
Lemma unfold_f_wf fuel : forall t r, check_wf D t = true -> unfold_f fuel D t = Ok r ->
  exists t', r = Some t' /\ check_wf D t' = true /\ mode_of t' = mode_of t.
Proof.
  induction fuel as [|n IH]; intros t r Hw H; cbn in H; try discriminate.
  destruct t; try (inversion H; subst; eauto; fail).
  unfold check_wf in Hw. cbn in Hw. apply andb_prop in Hw. destruct Hw as (Hl & Hm).
  destruct (tlookup D x) as [d|] eqn:E; try discriminate.
  unfold mode_ok in Hm.
  repeat match goal with H : _ && _ = true |- _ => apply andb_prop in H; destruct H end.
  destruct (IH _ _ (env_wf _ _ E) H) as (t' & -> & Hw' & Hmode).
  exists t'. repeat split; auto. rewrite Hmode, (env_moded _ _ E). cbn.
  symmetry. apply mode_eqb_proper; auto.
Qed.

Definition wf_ty (t : option sty) : Prop := exists t0, t = Some t0 /\ check_wf D t0 = true.
Definition omode (t : option sty) : mode := match t with Some t0 => mode_of t0 | None => Unset end.

Lemma unfold_wf t r : wf_ty t -> match t with Some t0 => unfold D t0 = Ok r | None => False end ->
  wf_ty r /\ omode r = omode t.
Proof.
  intros (t0 & -> & Hw) H. unfold unfold in H. destruct (unfold_f_wf _ _ _ Hw H) as (t' & -> & Hw' & Hm).
  split; [exists t'; auto|exact Hm].
Qed.
End Wf.
