(* proofs/TcEqFuel.v — EqualType (TcDeps.eq_ty with its two-level fuel) always returns:
   eq_fuel suffices.  Discharges the premise equal_terminates_stmt of C09 for the CURRENT definition
   of TcDeps.eq_ty / eq_fuel / equal_type (if those are replaced by C08's, instantiate the premise with
   C08's theorem instead: proofs/TcTotal.v does not depend on this file).
   Argument: every pair compared is a pair of sub-terms of the universe U = sub-terms of the two
   initial types and of all definition bodies; an expansion happens only for a key that is not in the
   memo, and puts it there; the memo only grows; so along one recursion path at most |U|^2 expansions
   happen; between two expansions the sizes of the compared types strictly decrease. *)
Require Import Grits.Base Grits.ModeDefs Grits.Modes Grits.STypes Grits.Infer Grits.TcDeps Grits.proofs.TcEnv Grits.proofs.TcInferFuel.

Fixpoint subs (t : sty) : list sty :=
  t :: match t with
       | TTensor a b _ | TLolli a b _ => subs a ++ subs b
       | TPlus bs _ | TWith bs _ => subs_brs bs
       | TUp _ _ a | TDown _ _ a => subs a
       | _ => []
       end
with subs_brs (b : brs) : list sty :=
  match b with BNil => [] | BCons _ a r => subs a ++ subs_brs r end.

Lemma subs_len : (forall t, length (subs t) <= tsize t)%nat /\ (forall b, length (subs_brs b) <= bsize b)%nat.
Proof.
  apply sty_brs_ind; intros; cbn [subs subs_brs tsize bsize length]; try rewrite app_length; lia.
Qed.

Lemma subs_self : forall t, In t (subs t).
Proof. destruct t; cbn; auto. Qed.

Fixpoint brs_tys (b : brs) : list sty := match b with BNil => [] | BCons _ a r => a :: brs_tys r end.

(* the children of a node *)
Definition children_in (U : list sty) (a : sty) : Prop :=
  match a with
  | TTensor x y _ | TLolli x y _ => In x U /\ In y U
  | TPlus bs _ | TWith bs _ => forall c, In c (brs_tys bs) -> In c U
  | TUp _ _ x | TDown _ _ x => In x U
  | _ => True
  end.

Lemma children_mono : forall U V a, incl U V -> children_in U a -> children_in V a.
Proof.
  intros U V a H. destruct a; cbn; auto; try (intros [? ?]; split; auto); intros Hc c E; eauto.
Qed.

Lemma brs_tys_subs : forall bs c, In c (brs_tys bs) -> In c (subs_brs bs).
Proof.
  induction bs as [|l' a r IH]; cbn; intros c H; [destruct H|].
  apply in_or_app. destruct H as [E|H]; [subst; left; apply subs_self | right; eauto].
Qed.
Lemma find_br_tys : forall bs l c, find_br l bs = Some c -> In c (brs_tys bs).
Proof.
  induction bs as [|l' a r IH]; cbn; intros l c H; [discriminate|].
  destruct (String.eqb l l'); [inversion H; subst; left; auto | right; eauto].
Qed.
Lemma brs_tys_size : forall bs c, In c (brs_tys bs) -> (tsize c < bsize bs)%nat.
Proof.
  induction bs as [|l' a r IH]; cbn [brs_tys bsize]; intros c H; [destruct H|].
  destruct H as [E|H]; [subst; lia | specialize (IH _ H); lia].
Qed.

Lemma subs_closed :
  (forall t a, In a (subs t) -> children_in (subs t) a) /\
  (forall b a, In a (subs_brs b) -> children_in (subs_brs b) a).
Proof.
  apply sty_brs_ind.
  - intros x m a [E|[]]. subst. exact I.
  - intros m a [E|[]]. subst. exact I.
  - intros a IHa b IHb m c [E|H].
    + subst. cbn. split; right; apply in_or_app; [left | right]; apply subs_self.
    + cbn [subs]. apply in_app_or in H. destruct H as [H|H].
      * eapply children_mono; [|apply IHa; exact H]. intros z Hz. right. apply in_or_app. auto.
      * eapply children_mono; [|apply IHb; exact H]. intros z Hz. right. apply in_or_app. auto.
  - intros a IHa b IHb m c [E|H].
    + subst. cbn. split; right; apply in_or_app; [left | right]; apply subs_self.
    + cbn [subs]. apply in_app_or in H. destruct H as [H|H].
      * eapply children_mono; [|apply IHa; exact H]. intros z Hz. right. apply in_or_app. auto.
      * eapply children_mono; [|apply IHb; exact H]. intros z Hz. right. apply in_or_app. auto.
  - intros bs IH m c [E|H].
    + subst. cbn. intros c E. right. eapply brs_tys_subs; eauto.
    + eapply children_mono; [|apply IH; exact H]. intros z Hz. right. auto.
  - intros bs IH m c [E|H].
    + subst. cbn. intros c E. right. eapply brs_tys_subs; eauto.
    + eapply children_mono; [|apply IH; exact H]. intros z Hz. right. auto.
  - intros f t a IH c [E|H].
    + subst. cbn. right. apply subs_self.
    + eapply children_mono; [|apply IH; exact H]. intros z Hz. right. auto.
  - intros f t a IH c [E|H].
    + subst. cbn. right. apply subs_self.
    + eapply children_mono; [|apply IH; exact H]. intros z Hz. right. auto.
  - intros a [].
  - intros l a IHa r IHr c H. cbn [subs_brs] in *. apply in_app_or in H. destruct H as [H|H].
    + eapply children_mono; [|apply IHa; exact H]. intros z Hz. apply in_or_app. auto.
    + eapply children_mono; [|apply IHr; exact H]. intros z Hz. apply in_or_app. auto.
Qed.

Section Eq.
Variable D : tenv.
Variables s0 t0 : sty.

Definition bodies : list sty := flat_map (fun d => subs (td_body d)) D.
Definition U : list sty := subs s0 ++ subs t0 ++ bodies.

Lemma bodies_len : (length bodies <= env_size D)%nat.
Proof.
  unfold bodies. induction D as [|d r IH]; cbn [flat_map]; [cbn; lia|].
  change (env_size (d :: r)) with (tsize (td_body d) + env_size r)%nat.
  rewrite app_length. pose proof (proj1 subs_len (td_body d)). lia.
Qed.
Lemma U_len : (length U <= env_size D + tsize s0 + tsize t0)%nat.
Proof.
  unfold U. rewrite !app_length. pose proof (proj1 subs_len s0). pose proof (proj1 subs_len t0).
  pose proof bodies_len. lia.
Qed.

Lemma U_children : forall a, In a U -> children_in U a.
Proof.
  intros a H. unfold U in *. apply in_app_or in H. destruct H as [H|H].
  { eapply children_mono; [|apply (proj1 subs_closed); exact H]. intros z Hz. apply in_or_app; auto. }
  apply in_app_or in H. destruct H as [H|H].
  { eapply children_mono; [|apply (proj1 subs_closed); exact H]. intros z Hz. apply in_or_app; right; apply in_or_app; auto. }
  unfold bodies in H. apply in_flat_map in H. destruct H as (d & Hd & H).
  eapply children_mono; [|apply (proj1 subs_closed); exact H].
  intros z Hz. apply in_or_app; right; apply in_or_app; right. unfold bodies. apply in_flat_map. eauto.
Qed.
Lemma U_body : forall x d, tlookup D x = Some d -> In (td_body d) U.
Proof.
  intros x d H. destruct (tlookup_some _ _ _ H) as [Hd _].
  unfold U. apply in_or_app; right; apply in_or_app; right. unfold bodies. apply in_flat_map.
  exists d. split; auto. apply subs_self.
Qed.

(* the possible keys, and how many of them are not yet in the memo *)
Definition K : list string := flat_map (fun a => map (fun b => eq_key a b) U) U.
Definition unusedK (memo : list string) : nat := length (filter (fun y => negb (str_mem y memo)) K).

Lemma K_in : forall a b, In a U -> In b U -> In (eq_key a b) K.
Proof. intros a b Ha Hb. unfold K. apply in_flat_map. exists a. split; auto. apply in_map; auto. Qed.
Lemma K_len : length K = (length U * length U)%nat.
Proof.
  unfold K. generalize U at 2 3. induction l as [|a l IH]; cbn [flat_map length]; [reflexivity|].
  rewrite app_length, map_length, IH. lia.
Qed.

Lemma filter_le : forall (f g : string -> bool) l, (forall y, f y = true -> g y = true) ->
  (length (filter f l) <= length (filter g l))%nat.
Proof.
  intros f g l H. induction l as [|y l IH]; cbn; [lia|].
  destruct (f y) eqn:Ef; [rewrite (H _ Ef); cbn; lia | destruct (g y); cbn; lia].
Qed.
Lemma unusedK_mono : forall m1 m2, incl m1 m2 -> (unusedK m2 <= unusedK m1)%nat.
Proof.
  intros m1 m2 H. unfold unusedK. apply filter_le. intros y Hy.
  apply Bool.negb_true_iff in Hy. apply Bool.negb_true_iff.
  destruct (str_mem y m1) eqn:E; auto. apply str_mem_In in E. apply H in E. apply str_mem_In in E. congruence.
Qed.
Lemma unusedK_new : forall key memo, In key K -> str_mem key memo = false -> (unusedK (key :: memo) < unusedK memo)%nat.
Proof. intros key memo Hk Hm. unfold unusedK. apply filter_shrinks; auto. Qed.

(* the loop over the branches, as eq_ty writes it *)
Definition eq_brs_with (go : sty -> sty -> list string -> eres) (cs : brs) :=
  fix go_brs (bs : brs) (memo : list string) {struct bs} : eres :=
    match bs with
    | BNil => Ok (true, memo)
    | BCons l a r =>
      match find_br l cs with
      | None => Ok (false, memo)
      | Some a' =>
        do (r1, M1) <- go a a' memo;
        if r1 then go_brs r M1 else Ok (false, M1)
      end
    end.

Lemma eq_ty_unfold : forall k' n' s t memo, eq_ty (S k') D (S n') s t memo =
  let go := eq_ty (S k') D n' in
  if negb (same_ctor s t) && negb (is_name s) && negb (is_name t) then Ok (false, memo)
  else if is_name s || is_name t then
    let key := eq_key s t in
    if str_mem key memo then Ok (true, memo)
    else
      let expand (s' t' : sty) := eq_ty k' D (S (tsize s' + tsize t')) s' t' (key :: memo) in
      match s, t with
      | TName x m, TName y m' =>
        if String.eqb x y then Ok (mode_eqb m m', memo)
        else match tlookup D x, tlookup D y with
             | Some d1, Some d2 => expand (td_body d1) (td_body d2)
             | _, _ => Ok (false, memo)
             end
      | TName x _, _ =>
        match tlookup D x with
        | Some d1 => expand (td_body d1) t
        | None => Ok (false, memo)
        end
      | _, TName y _ =>
        match tlookup D y with
        | Some d2 => expand s (td_body d2)
        | None => Ok (false, memo)
        end
      | _, _ => Ok (false, memo)
      end
  else
    match s, t with
    | TUnit m, TUnit m' => Ok (mode_eqb m m', memo)
    | TTensor a b m, TTensor a' b' m' | TLolli a b m, TLolli a' b' m' =>
      if mode_eqb m m' then
        do (r1, M1) <- go a a' memo;
        if r1 then go b b' M1 else Ok (false, M1)
      else Ok (false, memo)
    | TPlus bs m, TPlus cs m' | TWith bs m, TWith cs m' =>
      if (brs_len bs =? brs_len cs)%nat then
        if mode_eqb m m' then eq_brs_with go cs bs memo else Ok (false, memo)
      else Ok (false, memo)
    | TUp f1 t1 a, TUp f2 t2 a' | TDown f1 t1 a, TDown f2 t2 a' =>
      if mode_eqb t1 t2 && mode_eqb f1 f2 then go a a' memo else Ok (false, memo)
    | _, _ => Ok (false, memo)
    end.
Proof. reflexivity. Qed.

Definition good (r : eres) (memo : list string) : Prop := exists b M, r = Ok (b, M) /\ incl memo M.

Lemma good_refl : forall b memo, good (Ok (b, memo)) memo.
Proof. intros. exists b, memo. split; [reflexivity | apply incl_refl]. Qed.
Lemma good_weaken : forall r memo memo', incl memo memo' -> good r memo' -> good r memo.
Proof. intros r memo memo' H (b & M & E & Hi). exists b, M. split; auto. eapply incl_tran; eauto. Qed.
Lemma good_bind : forall X (Y : list string -> eres) memo,
  good X memo -> (forall M1, incl memo M1 -> good (Y M1) M1) ->
  good (do (r1, M1) <- X; if r1 then Y M1 else Ok (false, M1)) memo.
Proof.
  intros X Y memo (b & M & E & Hi) HY. subst X. cbn [obind]. destruct b.
  - eapply good_weaken; [exact Hi | apply HY; exact Hi].
  - eapply good_weaken; [exact Hi | apply good_refl].
Qed.

Lemma brs_loop_ok : forall (go : sty -> sty -> list string -> eres) cs k B1 B2,
  (forall a a' memo, In a U -> In a' U -> (tsize a < B1)%nat -> (tsize a' < B2)%nat -> (unusedK memo < k)%nat ->
     good (go a a' memo) memo) ->
  (forall c, In c (brs_tys cs) -> In c U /\ (tsize c < B2)%nat) ->
  forall bs memo, (forall c, In c (brs_tys bs) -> In c U /\ (tsize c < B1)%nat) -> (unusedK memo < k)%nat ->
  good (eq_brs_with go cs bs memo) memo.
Proof.
  intros go cs k B1 B2 Hgo Hcs. induction bs as [|l a r IH]; intros memo Hbs Hk; cbn [eq_brs_with].
  - apply good_refl.
  - destruct (find_br l cs) as [a'|] eqn:Ef; [|apply good_refl].
    apply find_br_tys in Ef. destruct (Hcs _ Ef) as [Ha' Hs'].
    destruct (Hbs a (or_introl eq_refl)) as [Ha Hs].
    apply good_bind; [apply Hgo; auto|].
    intros M1 Hi. apply IH.
    + intros c Hc. apply Hbs. right; auto.
    + pose proof (unusedK_mono _ _ Hi). lia.
Qed.

Lemma eq_ty_total : forall k n s t memo, In s U -> In t U -> (unusedK memo < k)%nat -> (tsize s + tsize t < n)%nat ->
  good (eq_ty k D n s t memo) memo.
Proof.
  induction k as [|k' IHk]; [intros; lia|].
  assert (Hexp : forall s' t' key memo, In s' U -> In t' U -> In key K -> str_mem key memo = false ->
            (unusedK memo < S k')%nat -> good (eq_ty k' D (S (tsize s' + tsize t')) s' t' (key :: memo)) memo).
  { intros s' t' key memo Hs Ht Hkey Hm Hk. eapply good_weaken; [apply incl_tl, incl_refl|].
    apply IHk; auto. pose proof (unusedK_new _ _ Hkey Hm). lia. }
  induction n as [|n' IHn]; [intros; lia|].
  intros s t memo Hs Ht Hk Hn. rewrite eq_ty_unfold. cbv zeta.
  pose proof (U_children _ Hs) as Cs. pose proof (U_children _ Ht) as Ct.
  pose proof (K_in _ _ Hs Ht) as Hkey.
  destruct s, t; cbn [same_ctor is_name negb andb orb]; try apply good_refl;
    cbn [children_in] in Cs, Ct; cbn [tsize] in Hn;
    try (destruct (str_mem _ memo) eqn:Hm; [apply good_refl|]);
    repeat match goal with
    | |- good (if ?c then _ else _) _ => destruct c; try apply good_refl
    | |- good (match tlookup D ?x with _ => _ end) _ =>
        let E := fresh "E" in destruct (tlookup D x) eqn:E; [apply U_body in E|]; try apply good_refl
    end;
    try (apply Hexp; auto; fail).
  - (* tensor *) destruct Cs, Ct. apply good_bind; [apply IHn; auto; lia|].
    intros M1 Hi. apply IHn; auto; [pose proof (unusedK_mono _ _ Hi); lia | lia].
  - (* lolli *) destruct Cs, Ct. apply good_bind; [apply IHn; auto; lia|].
    intros M1 Hi. apply IHn; auto; [pose proof (unusedK_mono _ _ Hi); lia | lia].
  - (* plus *) eapply (brs_loop_ok _ _ (S k') (bsize bs) (bsize bs0)); auto.
    + intros a1 a2 mm Ha1 Ha2 H1 H2 H3. apply IHn; auto. lia.
    + intros c Hc. split; [auto | apply brs_tys_size; auto].
    + intros c Hc. split; [auto | apply brs_tys_size; auto].
  - (* with *) eapply (brs_loop_ok _ _ (S k') (bsize bs) (bsize bs0)); auto.
    + intros a1 a2 mm Ha1 Ha2 H1 H2 H3. apply IHn; auto. lia.
    + intros c Hc. split; [auto | apply brs_tys_size; auto].
    + intros c Hc. split; [auto | apply brs_tys_size; auto].
  - (* up *) apply IHn; auto. lia.
  - (* down *) apply IHn; auto. lia.
Qed.
End Eq.

(* EqualType always returns — no hypothesis on the environment or on the types *)
Theorem equal_type_total : forall D s t, exists b, equal_type D s t = Ok b.
Proof.
  intros D s t. unfold equal_type.
  destruct (eq_ty_total D s t (eq_fuel D s t) (S (tsize s + tsize t)) s t []) as (b & M & E & _).
  - unfold U. apply in_or_app. left. apply subs_self.
  - unfold U. apply in_or_app. right. apply in_or_app. left. apply subs_self.
  - unfold unusedK. cbn [str_mem negb].
    assert (Hf : forall l : list string, length (filter (fun _ => true) l) = length l).
    { induction l; cbn; auto. }
    rewrite Hf, K_len. pose proof (U_len D s t). unfold eq_fuel. nia.
  - lia.
  - rewrite E. cbn [obind]. eexists; reflexivity.
Qed.
