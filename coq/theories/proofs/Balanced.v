(* Balanced.v — uniform termination from BALANCED joins (random descent): if every peak c -> c1, c -> c2
   (at a state of the invariant) can be closed by the SAME number k of steps on both sides, up to an
   equivalence the steps respect, then from a state with one maximal run of n steps every run has at
   most n steps and extends to a maximal run of exactly n steps with an equivalent end.  The labels of
   the closing steps are free.  (Determinism.uniform is the case k = 1 with the labels swapped; the
   non-polarized mode needs this form: Control f t and an internal step of t close in two steps each
   when the step leads to a call, and the label of a control message changes along a rendezvous.) *)
From stdpp Require Import base relations.
Require Import Coq.Arith.PeanoNat Lia.

Section Balanced.
Context {St Ch : Type}.
Variable stp : St -> Ch -> option St.
Variable eqv : relation St.
Context `{!Equivalence eqv}.
Variable I : St -> Prop.
Hypothesis stp_eqv : forall c d a c', eqv c d -> stp c a = Some c' -> exists d', stp d a = Some d' /\ eqv c' d'.
Hypothesis I_stp : forall c a c', I c -> stp c a = Some c' -> I c'.

Inductive bsteps : nat -> St -> St -> Prop :=
| bs_O c : bsteps 0 c c
| bs_S n c a c' t : stp c a = Some c' -> bsteps n c' t -> bsteps (S n) c t.

Hypothesis bal : forall c a b c1 c2, I c -> stp c a = Some c1 -> stp c b = Some c2 ->
  exists k d1 d2, bsteps k c1 d1 /\ bsteps k c2 d2 /\ eqv d1 d2.

Definition bterminal (c : St) : Prop := forall a, stp c a = None.

Lemma bsteps_eqv n c t d : bsteps n c t -> eqv c d -> exists t', bsteps n d t' /\ eqv t t'.
Proof.
  intros H. revert d. induction H as [c|n c a c' t Hs Hn IH]; intros d Hd.
  - exists d. split; [constructor|done].
  - destruct (stp_eqv _ _ _ _ Hd Hs) as (d' & Hs' & Hd'). destruct (IH _ Hd') as (t' & Hn' & Ht').
    exists t'. split; [econstructor; eauto|done].
Qed.
Lemma bterminal_eqv c d : bterminal c -> eqv c d -> bterminal d.
Proof.
  intros Ht Hd a. destruct (stp d a) as [d'|] eqn:E; [|done].
  symmetry in Hd. destruct (stp_eqv _ _ _ _ Hd E) as (c' & Hc' & _). by rewrite Ht in Hc'.
Qed.
Lemma bsteps_trans n m a b c : bsteps n a b -> bsteps m b c -> bsteps (n + m) a c.
Proof. intros H. induction H; cbn; [done|]. intros. econstructor; eauto. Qed.
Lemma bsteps_I n c t : I c -> bsteps n c t -> I t.
Proof. intros HI H. induction H; eauto. Qed.

Theorem uniform_balanced n : forall c t, I c -> bsteps n c t -> bterminal t ->
  forall m c', bsteps m c c' -> (m <= n)%nat /\ exists t', bsteps (n - m) c' t' /\ eqv t' t.
Proof.
  induction n as [|n IH]; intros c t HI Hn Ht m c' Hm.
  - inversion Hn; subst. inversion Hm; subst.
    + split; [lia|]. eexists. split; [constructor|done].
    + match goal with H : stp _ _ = Some _ |- _ => by rewrite Ht in H end.
  - inversion Hn as [|n0 c0 a c1 t0 Hsa Hn1]; subst.
    inversion Hm as [|m' c0 b c2 t0 Hsb Hm2]; subst.
    { split; [lia|]. exists t. split; [|done]. replace (S n - 0)%nat with (S n) by lia. done. }
    destruct (bal _ _ _ _ _ HI Hsa Hsb) as (k & d1 & d2 & Hd1 & Hd2 & Hd).
    destruct (IH _ _ (I_stp _ _ _ HI Hsa) Hn1 Ht _ _ Hd1) as [Hle1 (t1 & Ht1 & He1)].
    destruct (bsteps_eqv _ _ _ _ Ht1 Hd) as (t2 & Ht2 & He2).
    assert (Hterm2 : bterminal t2).
    { eapply bterminal_eqv; [exact Ht|]. etrans; [symmetry; exact He1|exact He2]. }
    assert (Hn2 : bsteps n c2 t2).
    { replace n with (k + (n - k))%nat by lia. eapply bsteps_trans; eauto. }
    destruct (IH _ _ (I_stp _ _ _ HI Hsb) Hn2 Hterm2 _ _ Hm2) as [Hle (t' & Ht' & He)].
    split; [lia|]. exists t'. split; [by replace (S n - S m')%nat with (n - m')%nat by lia|].
    etrans; [exact He|]. etrans; [symmetry; exact He2|exact He1].
Qed.

Corollary balanced_runs_agree n m c t t' :
  I c -> bsteps n c t -> bterminal t -> bsteps m c t' -> bterminal t' -> n = m /\ eqv t' t.
Proof.
  intros HI Hn Ht Hm Ht'.
  destruct (uniform_balanced _ _ _ HI Hn Ht _ _ Hm) as [H1 (t1 & Hn1 & He1)].
  destruct (uniform_balanced _ _ _ HI Hm Ht' _ _ Hn) as [H2 _].
  split; [lia|]. replace (n - m)%nat with 0%nat in Hn1 by lia. by inversion Hn1; subst.
Qed.
End Balanced.

(* the same when the join may use that every run from the side of the terminating run is bounded (the
   number of call unfoldings before a process polls its control channel again is bounded that way) *)
Section BalancedBounded.
Context {St Ch : Type}.
Variable stp : St -> Ch -> option St.
Variable eqv : relation St.
Context `{!Equivalence eqv}.
Variable I : St -> Prop.
Hypothesis stp_eqv : forall c d a c', eqv c d -> stp c a = Some c' -> exists d', stp d a = Some d' /\ eqv c' d'.
Hypothesis I_stp : forall c a c', I c -> stp c a = Some c' -> I c'.
Notation bsteps := (bsteps stp).
Hypothesis balb : forall c a b c1 c2 N, I c -> stp c a = Some c1 -> stp c b = Some c2 ->
  (forall m c', bsteps m c1 c' -> (m <= N)%nat) ->
  exists k d1 d2, bsteps k c1 d1 /\ bsteps k c2 d2 /\ eqv d1 d2.

Theorem uniform_balanced_bounded n : forall c t, I c -> bsteps n c t -> bterminal stp t ->
  forall m c', bsteps m c c' -> (m <= n)%nat /\ exists t', bsteps (n - m) c' t' /\ eqv t' t.
Proof.
  induction n as [|n IH]; intros c t HI Hn Ht m c' Hm.
  - inversion Hn; subst. inversion Hm; subst.
    + split; [lia|]. eexists. split; [constructor|done].
    + match goal with H : stp _ _ = Some _ |- _ => by rewrite Ht in H end.
  - inversion Hn as [|n0 c0 a c1 t0 Hsa Hn1]; subst.
    inversion Hm as [|m' c0 b c2 t0 Hsb Hm2]; subst.
    { split; [lia|]. exists t. split; [|done]. replace (S n - 0)%nat with (S n) by lia. done. }
    assert (Hbound : forall m0 c0', bsteps m0 c1 c0' -> (m0 <= n)%nat).
    { intros m0 c0' H0. by destruct (IH _ _ (I_stp _ _ _ HI Hsa) Hn1 Ht _ _ H0). }
    destruct (balb _ _ _ _ _ n HI Hsa Hsb Hbound) as (k & d1 & d2 & Hd1 & Hd2 & Hd).
    destruct (IH _ _ (I_stp _ _ _ HI Hsa) Hn1 Ht _ _ Hd1) as [Hle1 (t1 & Ht1 & He1)].
    destruct (bsteps_eqv stp eqv stp_eqv _ _ _ _ Ht1 Hd) as (t2 & Ht2 & He2).
    assert (Hterm2 : bterminal stp t2).
    { eapply (bterminal_eqv stp eqv stp_eqv); [exact Ht|]. etrans; [symmetry; exact He1|exact He2]. }
    assert (Hn2 : bsteps n c2 t2).
    { replace n with (k + (n - k))%nat by lia. eapply bsteps_trans; eauto. }
    destruct (IH _ _ (I_stp _ _ _ HI Hsb) Hn2 Hterm2 _ _ Hm2) as [Hle (t' & Ht' & He)].
    split; [lia|]. exists t'. split; [by replace (S n - S m')%nat with (n - m')%nat by lia|].
    etrans; [exact He|]. etrans; [symmetry; exact He2|exact He1].
Qed.
End BalancedBounded.
