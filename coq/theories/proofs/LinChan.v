(* LinChan.v — paths and affinity under the substitution of a channel name for a channel name (the
   copies made by DUP): the keys of every path are renamed (pnames_subst_chan), so affinity in every
   scope is kept when the new channel does not occur in the term (affr_subst_chan); no typing is
   needed, only wfn (binders carry no channel, names with a channel are not self names). *)
From stdpp Require Import gmap strings.
Require Import Grits.Base Grits.ModeDefs Grits.Modes Grits.STypes Grits.Forms Grits.Subst Grits.TcDeps Grits.Expand
               Grits.Runtime Grits.RuntimeFootprint Grits.spec.RtTyping Grits.spec.Topo Grits.spec.Linear.
Require Import Grits.proofs.RtSubst Grits.proofs.TopoLin Grits.proofs.TopoStep Grits.proofs.TopoFinish Grits.proofs.DupSubst.

Definition renc (kold knew : cid) (q : key) : key :=
  match q with KC k => if decide (k = kold) then KC knew else q | KV _ => q end.

Section Renc.
Variables (old new : name) (kold knew : cid).
Hypothesis Ho : chan old = Some kold.
Hypothesis Hn : chan new = Some knew.
Notation rn := (renc kold knew).

Lemma uname_subst_chan sh n : uname sh (name_subst old new n) = map rn (uname sh n).
Proof.
  unfold name_subst, initialized. rewrite Ho. unfold uname at 2. destruct (chan n) as [kn|] eqn:En; simpl.
  - unfold cid_eqb. destruct (list_eq_dec Nat.eq_dec kn kold) as [->|Hne]; simpl.
    + unfold uname. simpl. rewrite Hn. by rewrite decide_True.
    + unfold uname. rewrite En. by rewrite decide_False.
  - unfold uname. rewrite En. destruct (prov_ref sh n); [done|]. done.
Qed.
Lemma pdes_subst_chan sh n : pdes sh (name_subst old new n) = pdes sh n.
Proof.
  unfold name_subst, initialized. rewrite Ho. destruct (chan n) as [kn|] eqn:En; simpl; [|done].
  unfold cid_eqb. destruct (list_eq_dec Nat.eq_dec kn kold); simpl; [|done].
  unfold pdes, initialized. simpl. by rewrite Hn, En.
Qed.
Lemma rmv_renc bs l : rmv bs (map rn l) = map rn (rmv bs l).
Proof.
  unfold rmv. induction l as [|q l IH]; simpl; [done|]. destruct q as [k|y]; simpl.
  - destruct (decide (k = kold)); simpl; by rewrite IH.
  - destruct (negb (binds bs y)); simpl; by rewrite IH.
Qed.
Lemma ne_renc L : ne (map (map rn) L) = map (map rn) (ne L).
Proof. by destruct L. Qed.
Lemma crossk_renc L1 L2 : crossk (map (map rn) L1) (map (map rn) L2) = map (map rn) (crossk L1 L2).
Proof.
  unfold crossk. induction L1 as [|a L1 IH]; simpl; [done|]. rewrite map_app, IH. f_equal.
  rewrite !map_map. apply map_ext. intros l. by rewrite map_app.
Qed.

Lemma bok_descend x : bok x = true -> name_equal x old = false.
Proof. intros H. eapply bok_not_equal; eauto. Qed.

Lemma pnames_subst_chan_mut :
  (forall f, wfn f = true -> forall sh, pnames sh (subst old new f) = map (map rn) (pnames sh f)) /\
  (forall b, wfn_brs b = true ->
     pnames_bp (subst_brs old new b) = map (map rn) (pnames_bp b) /\
     forall sh, pnames_bc sh (subst_brs old new b) = map (map rn) (pnames_bc sh b)).
Proof.
  apply form_branches_ind; simpl; intros;
    repeat match goal with H : _ && _ = true |- _ => apply andb_true_iff in H as [? ?] end;
    repeat match goal with H : bok ?x = true |- _ => rewrite (bok_descend x H) in *; clear H end;
    simpl; rewrite ?pdes_subst_chan, ?uname_subst_chan, ?map_app.
  - done.
  - destruct (pdes sh from); rewrite H by done; rewrite !map_map; apply map_ext; intros l; by rewrite ?map_app, ?rmv_renc.
  - done.
  - destruct (H ltac:(assumption)) as [Hp Hc]. destruct (pdes sh from).
    + by rewrite Hp, ne_renc.
    + rewrite Hc, ne_renc. rewrite !map_map. apply map_ext. intros l. by rewrite map_app.
  - rewrite H, H0 by done. rewrite <- crossk_renc. f_equal. rewrite !map_map. apply map_ext. intros l. by rewrite rmv_renc.
  - done.
  - rewrite H by done. rewrite !map_map. apply map_ext. intros l. by rewrite map_app.
  - done.
  - rewrite H by done. rewrite !map_map. apply map_ext. intros l. by rewrite map_app, rmv_renc.
  - f_equal. rewrite !flat_map_concat_map, map_map. rewrite concat_map, map_map. f_equal. apply map_ext. intros a. apply uname_subst_chan.
  - done.
  - destruct (pdes sh from); rewrite H by done; [done|]. rewrite !map_map. apply map_ext. intros l. by rewrite map_app, rmv_renc.
  - rewrite H by done. rewrite !map_map. apply map_ext. intros l. by rewrite map_app.
  - by rewrite H.
  - done.
  - destruct (H0 ltac:(assumption)) as [Hp Hc]. split.
    + by rewrite H, Hp.
    + intros sh. rewrite H, Hc by done. rewrite map_app, !map_map. f_equal. apply map_ext. intros l0. by rewrite rmv_renc.
Qed.
Lemma pnames_subst_chan f sh : wfn f = true -> pnames sh (subst old new f) = map (map rn) (pnames sh f).
Proof. intros Hw. by apply (proj1 pnames_subst_chan_mut). Qed.

Lemma NoDup_renc (l : list key) : ~ In (KC knew) l -> NoDup l -> NoDup (map rn l).
Proof.
  intros Hf Hnd. induction Hnd as [|q l Hq Hnd IH]; simpl; constructor.
  - intros Hin. apply in_map_iff in Hin as (q' & E & Hq'). apply Hq.
    assert (q' = q); [|by subst].
    destruct q as [k|y], q' as [k'|y']; simpl in E.
    + destruct (decide (k' = kold)) as [->|], (decide (k = kold)) as [->|]; try done.
      * injection E as <-. exfalso. apply Hf. by left.
      * injection E as ->. exfalso. apply Hf. right. done.
    + destruct (decide (k = kold)); discriminate.
    + destruct (decide (k' = kold)); discriminate.
    + done.
  - apply IH. intros H. apply Hf. by right.
Qed.

Lemma affr_subst_chan_mut :
  (forall f, wfn f = true -> ~ In knew (form_chans f) -> forall sh, affr sh f -> affr sh (subst old new f)) /\
  (forall b, wfn_brs b = true -> ~ In knew (brs_chans b) ->
     (affr_bp b -> affr_bp (subst_brs old new b)) /\ forall sh, affr_bc sh b -> affr_bc sh (subst_brs old new b)).
Proof.
  assert (Htop : forall f sh, wfn f = true -> ~ In knew (form_chans f) -> Forall (NoDup (A:=key)) (pnames sh f) ->
                 Forall (NoDup (A:=key)) (pnames sh (subst old new f))).
  { intros f sh Hw Hk Ha. rewrite pnames_subst_chan by done. rewrite Forall_forall in *. intros pi' Hpi'.
    apply in_map_iff in Hpi' as (pi & <- & Hpi). apply NoDup_renc; [|by apply Ha].
    intros Hin. apply Hk. eapply (proj1 path_chans_mut); eauto. }
  apply form_branches_ind.
  all: try (intros; match goal with |- affr ?sh (subst old new ?f) =>
         match goal with Hw : wfn f = true, Hk : ~ In knew (form_chans f), Ha : affr sh f |- _ =>
           split; [apply (Htop f sh Hw Hk); apply Ha|exact I] end end).
  - (* FRecv *) intros p c fr k IH Hw Hk sh Ha. split; [apply (Htop _ sh Hw Hk); apply Ha|].
    simpl in Hw, Hk, Ha |- *. repeat (apply andb_true_iff in Hw as [Hw ?]). rewrite (bok_descend p), (bok_descend c) by done. simpl.
    rewrite pdes_subst_chan. rewrite in_app_iff in Hk. destruct Ha as [_ Ha]. destruct (pdes sh fr); apply IH; tauto.
  - (* FCase *) intros fr bs IH Hw Hk sh Ha. split; [apply (Htop _ sh Hw Hk); apply Ha|].
    simpl in Hw, Hk, Ha |- *. apply andb_true_iff in Hw as [Hw1 Hw2]. rewrite in_app_iff in Hk.
    destruct (IH Hw2 ltac:(tauto)) as [IHp IHc]. rewrite pdes_subst_chan. destruct Ha as [_ Ha]. destruct (pdes sh fr); auto.
  - (* FNew *) intros x b IHb k IHk Hw Hk sh Ha. split; [apply (Htop _ sh Hw Hk); apply Ha|].
    simpl in Hw, Hk, Ha |- *. apply andb_true_iff in Hw as [Hw Hw3]. apply andb_true_iff in Hw as [Hw1 Hw2].
    rewrite (bok_descend x) by done. simpl. rewrite in_app_iff in Hk. destruct Ha as [_ [Ha1 Ha2]]. split; [apply IHb|apply IHk]; tauto.
  - (* FWait *) intros c k IH Hw Hk sh Ha. split; [apply (Htop _ sh Hw Hk); apply Ha|].
    simpl in Hw, Hk, Ha |- *. apply andb_true_iff in Hw as [Hw1 Hw2]. rewrite in_app_iff in Hk. apply IH; tauto.
  - (* FSplit *) intros x y fr k IH Hw Hk sh Ha. split; [apply (Htop _ sh Hw Hk); apply Ha|].
    simpl in Hw, Hk, Ha |- *. repeat (apply andb_true_iff in Hw as [Hw ?]). rewrite (bok_descend x), (bok_descend y) by done. simpl.
    rewrite in_app_iff in Hk. apply IH; tauto.
  - (* FShift *) intros x fr k IH Hw Hk sh Ha. split; [apply (Htop _ sh Hw Hk); apply Ha|].
    simpl in Hw, Hk, Ha |- *. repeat (apply andb_true_iff in Hw as [Hw ?]). rewrite (bok_descend x) by done. simpl.
    rewrite pdes_subst_chan. rewrite in_app_iff in Hk. destruct Ha as [_ Ha]. destruct (pdes sh fr); apply IH; tauto.
  - (* FDrop *) intros c k IH Hw Hk sh Ha. split; [apply (Htop _ sh Hw Hk); apply Ha|].
    simpl in Hw, Hk, Ha |- *. apply andb_true_iff in Hw as [Hw1 Hw2]. rewrite in_app_iff in Hk. apply IH; tauto.
  - (* FPrint *) intros l k IH Hw Hk sh Ha. split; [apply (Htop _ sh Hw Hk); apply Ha|].
    simpl in Hw, Hk, Ha |- *. apply IH; tauto.
  - (* BrNil *) intros _ _. split; intros; exact I.
  - (* BrCons *) intros l p k IHk r IHr Hw Hk. simpl in Hw, Hk. apply andb_true_iff in Hw as [Hw Hw3]. apply andb_true_iff in Hw as [Hw1 Hw2].
    rewrite in_app_iff in Hk. destruct (IHr Hw3 ltac:(tauto)) as [IHp IHc]. simpl. rewrite (bok_descend p) by done. simpl. split.
    + intros [Ha1 Ha2]. split; [apply IHk; tauto|by apply IHp].
    + intros sh [Ha1 Ha2]. split; [apply IHk; tauto|by apply IHc].
Qed.
Lemma affr_subst_chan f sh : wfn f = true -> ~ In knew (form_chans f) -> affr sh f -> affr sh (subst old new f).
Proof. intros Hw Hk. by apply (proj1 affr_subst_chan_mut). Qed.
End Renc.

(* ------------------------------------------------------------------ the column substitution of DUP keeps affinity *)
Definition colchans (rows : list (list name)) (i : nat) : list cid :=
  flat_map (fun row => match nth_error row i with Some c => name_chans c | None => [] end) rows.

Lemma affr_subst_col : forall fns rows b i,
  wfn b = true -> affr None b ->
  Forall (fun fn => is_Some (chan fn)) fns ->
  Forall (fun row => exists c, nth_error row i = Some c /\ is_self c = false /\ is_Some (chan c)) rows ->
  length rows = length fns ->
  NoDup (colchans rows i) -> (forall k, In k (colchans rows i) -> ~ In k (form_chans b)) ->
  affr None (subst_col fns rows i b) /\ wfn (subst_col fns rows i b) = true.
Proof.
  induction fns as [|fn fr IH]; intros rows b i Hw Ha Hfns Hrows Hlen Hnd Hfresh.
  - by destruct rows.
  - destruct rows as [|row rr]; [discriminate|]. simpl in Hlen. injection Hlen as Hlen. cbn [subst_col].
    inversion Hrows as [|? ? (c & Hc & Hs & [knew Hk]) Hrr]; subst. inversion Hfns as [|? ? [kold Hko] Hfr]; subst.
    rewrite Hc. unfold colchans in Hnd, Hfresh. cbn [flat_map] in Hnd, Hfresh. rewrite Hc in Hnd, Hfresh.
    unfold name_chans in Hnd, Hfresh. rewrite Hk in Hnd, Hfresh. cbn in Hnd, Hfresh. inversion Hnd as [|? ? Hnin Hnd']; subst.
    apply IH; auto.
    + by apply wfn_subst.
    + eapply affr_subst_chan; eauto.
    + intros k Hin Hk'. apply form_chans_subst in Hk' as [Hk'|Hk'].
      * apply (Hfresh k); [by right|done].
      * unfold name_chans in Hk'. rewrite Hk in Hk'. destruct Hk' as [<-|[]]. contradiction.
Qed.
