(* proofs/DeclPerm.v — C14 (verdict half): ProgOK is invariant under permutation of the function,
   process and assumed-name declarations (on the declarative judgement). *)
Require Import Grits.Base Grits.ModeDefs Grits.Modes Grits.STypes Grits.Forms Grits.Subst Grits.Infer
               Grits.TcDeps Grits.Expand Grits.Tc Grits.spec.Typing Grits.proofs.TcLemmas Grits.proofs.UseMap
               Grits.proofs.TypingSoundTop Grits.proofs.Acyclic.
Require Import Coq.Sorting.Permutation.

Lemma Forall2_perm {A B} (R : A -> B -> Prop) l1 l1' : Permutation l1 l1' -> forall l2, Forall2 R l1 l2 ->
  exists l2', Forall2 R l1' l2' /\ Permutation l2 l2'.
Proof.
  induction 1 as [|x l l' P IH|x y l|l l' l'' P1 IH1 P2 IH2]; intros l2 F.
  - inversion F; subst. exists []. auto.
  - inversion F as [|a b r r' Rab Fr]; subst. destruct (IH _ Fr) as [m [Fm Pm]]. exists (b :: m). auto.
  - inversion F as [|a b r r' Rab Fr]; subst. inversion Fr as [|a2 b2 r2 r2' Rab2 Fr2]; subst.
    exists (b2 :: b :: r2'). split; [auto|apply perm_swap].
  - destruct (IH1 _ F) as [m [Fm Pm]]. destruct (IH2 _ Fm) as [m' [Fm' Pm']]. exists m'. split; auto.
    eapply Permutation_trans; eauto.
Qed.

(* lookups in lists with unique keys do not depend on the order *)
Lemma alookup_notin {V} k (m : list (string * V)) : ~ In k (map fst m) -> alookup k m = None.
Proof.
  induction m as [|[k' v] m IH]; cbn; auto. intros N.
  destruct (String.eqb k k') eqn:E; [apply String.eqb_eq in E; subst; tauto|auto].
Qed.
Lemma alookup_perm {V} (m m' : list (string * V)) : Permutation m m' -> NoDup (map fst m) ->
  forall k, alookup k m = alookup k m'.
Proof.
  induction 1 as [|[k0 v0] l l' P IH|[k1 v1] [k2 v2] l|l l' l'' P1 IH1 P2 IH2]; intros N k; cbn; auto.
  - inversion N; subst. destruct (String.eqb k k0); auto.
  - cbn in N. inversion N as [|a b N1 N2]; subst.
    destruct (String.eqb k k2) eqn:E2, (String.eqb k k1) eqn:E1; auto.
    apply String.eqb_eq in E1, E2. subst. exfalso. apply N1. now left.
  - rewrite IH1; auto. apply IH2. eapply Permutation_NoDup; [|exact N]. now apply Permutation_map.
Qed.

Lemma alookup_fold {V} : forall (l : list (string * V)) acc k, NoDup (map fst l) ->
  alookup k (fold_left (fun m kv => aset (fst kv) (snd kv) m) l acc) =
  match alookup k l with Some v => Some v | None => alookup k acc end.
Proof.
  induction l as [|[k0 v0] l IH]; intros acc k N; cbn [fold_left]; auto.
  cbn in N. inversion N as [|a b N1 N2]; subst. rewrite IH; auto. cbn [alookup fst snd].
  destruct (String.eqb k k0) eqn:E.
  - apply String.eqb_eq in E. subst. rewrite (alookup_notin _ _ N1). apply alookup_aset_same.
  - destruct (alookup k l); auto. apply alookup_aset_other. now apply String.eqb_neq.
Qed.

(* the signature environment matters only through lookups *)
Lemma sig_lookup_notin Sg fn : ~ In fn (map fs_name Sg) -> sig_lookup Sg fn = None.
Proof.
  induction Sg as [|s S IH]; cbn; auto. intros N. rewrite IH; [|intros H; apply N; now right].
  destruct (String.eqb fn (fs_name s)) eqn:E; auto. apply String.eqb_eq in E. exfalso. apply N. now left.
Qed.
Lemma sig_lookup_perm Sg Sg' : Permutation Sg Sg' -> NoDup (map fs_name Sg) -> forall fn, sig_lookup Sg fn = sig_lookup Sg' fn.
Proof.
  induction 1 as [|s l l' P IH|s1 s2 l|l l' l'' P1 IH1 P2 IH2]; intros N fn; cbn; auto.
  - inversion N; subst. now rewrite IH.
  - cbn in N. inversion N as [|a b N1 N2]; subst. inversion N2 as [|a' b' N3 N4]; subst.
    destruct (sig_lookup l fn); auto.
    destruct (String.eqb fn (fs_name s1)) eqn:E1, (String.eqb fn (fs_name s2)) eqn:E2; auto.
    apply String.eqb_eq in E1, E2. exfalso. apply N1. left. congruence.
  - rewrite IH1; auto. apply IH2. eapply Permutation_NoDup; [|exact N]. now apply Permutation_map.
Qed.

Section SigmaExt.
Variable teq : tenv -> sty -> sty -> Prop.
Variable D : tenv.
Variables Sg Sg' : sigma.
Hypothesis Hext : forall fn, sig_lookup Sg fn = sig_lookup Sg' fn.

Theorem typed_sigma_ext_all :
  (forall g sh A f, Typed teq D Sg g sh A f -> Typed teq D Sg' g sh A f) /\
  (forall g bs b, TypedBrsR teq D Sg g bs b -> TypedBrsR teq D Sg' g bs b) /\
  (forall g sh A bs b, TypedBrsL teq D Sg g sh A bs b -> TypedBrsL teq D Sg' g sh A bs b).
Proof.
  apply Typed_mutind; intros;
    try match goal with H : sig_lookup Sg _ = Some _ |- _ => rewrite Hext in H end.
  - eapply T_TensorR; eauto.
  - eapply T_TensorL; eauto.
  - eapply T_LolliR; eauto.
  - eapply T_LolliL; eauto.
  - eapply T_PlusR; eauto.
  - eapply T_PlusL; eauto.
  - eapply T_WithR; eauto.
  - eapply T_WithL; eauto.
  - eapply T_OneR; eauto.
  - eapply T_OneL; eauto.
  - eapply T_DownR; eauto.
  - eapply T_DownL; eauto.
  - eapply T_UpR; eauto.
  - eapply T_UpL; eauto.
  - eapply T_Id; eauto.
  - eapply T_CutCall; eauto.
  - eapply T_CutAx; eauto.
  - eapply T_Call; eauto.
  - eapply T_CallSelf; eauto.
  - eapply T_Drop; eauto.
  - eapply T_Split; eauto.
  - eapply T_Print; eauto.
  - constructor.
  - econstructor; eauto.
  - constructor.
  - econstructor; eauto.
Qed.
End SigmaExt.

(* ---------------------------------------------------------------- top-level names *)
Definition provs_list (ps : list procdef) : list (string * name) :=
  flat_map (fun p => map (fun n => (ident n, set_nty n (pr_type p))) (pr_providers p)) ps.
Lemma provs_keys ps : map fst (provs_list ps) = all_providers ps.
Proof.
  unfold provs_list, all_providers. induction ps as [|p ps IH]; cbn; auto.
  rewrite map_app, IH, map_map. reflexivity.
Qed.
Lemma fold_names_as_kv (l : list name) (acc : list (string * name)) :
  fold_left (fun m a => aset (ident a) a m) l acc =
  fold_left (fun m kv => aset (fst kv) (snd kv) m) (map (fun a => (ident a, a)) l) acc.
Proof. revert acc. induction l as [|a l IH]; intros acc; cbn; auto. Qed.

Lemma top_names_lookup ps assumed k : NoDup (all_providers ps) -> NoDup (map ident assumed) ->
  alookup k (top_names ps assumed) =
  match alookup k (map (fun a => (ident a, a)) assumed) with
  | Some v => Some v
  | None => alookup k (provs_list ps)
  end.
Proof.
  intros NP NA. unfold top_names. fold (provs_list ps). rewrite fold_names_as_kv, alookup_fold.
  - destruct (alookup k (map (fun a => (ident a, a)) assumed)); auto.
    rewrite alookup_fold; [|now rewrite provs_keys]. cbn. now destruct (alookup k (provs_list ps)).
  - rewrite map_map. exact NA.
Qed.

Lemma top_names_perm ps ps' assumed assumed' : Permutation ps ps' -> Permutation assumed assumed' ->
  NoDup (all_providers ps) -> NoDup (map ident assumed) ->
  forall k, alookup k (top_names ps assumed) = alookup k (top_names ps' assumed').
Proof.
  intros Pp Pa NP NA k.
  assert (NP' : NoDup (all_providers ps')).
  { eapply Permutation_NoDup; [|exact NP]. unfold all_providers. now apply Permutation_flat_map. }
  assert (NA' : NoDup (map ident assumed')).
  { eapply Permutation_NoDup; [|exact NA]. now apply Permutation_map. }
  rewrite !top_names_lookup; auto.
  rewrite (alookup_perm (map (fun a => (ident a, a)) assumed) (map (fun a => (ident a, a)) assumed')).
  - rewrite (alookup_perm (provs_list ps) (provs_list ps')); auto.
    + unfold provs_list. now apply Permutation_flat_map.
    + now rewrite provs_keys.
  - now apply Permutation_map.
  - rewrite map_map. exact NA.
Qed.

Lemma proc_ctx_perm ps ps' assumed assumed' p : Permutation ps ps' -> Permutation assumed assumed' ->
  NoDup (all_providers ps) -> NoDup (map ident assumed) ->
  proc_ctx ps assumed p = proc_ctx ps' assumed' p.
Proof.
  intros Pp Pa NP NA. unfold proc_ctx. f_equal.
  induction (proc_uses p) as [|fn l IH]; cbn; auto.
  now rewrite IH, (top_names_perm ps ps' assumed assumed' Pp Pa NP NA).
Qed.

(* ---------------------------------------------------------------- programs *)
Definition decl_perm (p p' : program) : Prop :=
  p_types p' = p_types p /\ Permutation (p_funs p) (p_funs p') /\
  Permutation (p_procs p) (p_procs p') /\ Permutation (p_assumed p) (p_assumed p').

Lemma sig_of_names D fs Sg : Forall2 (sig_of D) fs Sg -> map fs_name Sg = map fn_name fs.
Proof. induction 1 as [|f s l l' [E _] _ IH]; cbn; auto. now rewrite E, IH. Qed.

Section Prog.
Variable teq : tenv -> sty -> sty -> Prop.

Lemma FunOK_ext D Sg Sg' f : (forall fn, sig_lookup Sg fn = sig_lookup Sg' fn) -> FunOK teq D Sg f -> FunOK teq D Sg' f.
Proof.
  intros E [N T [t [Ft [Wt [I Ty]]]]]. constructor; auto. exists t. repeat split; auto.
  eapply (proj1 (typed_sigma_ext_all teq D Sg Sg' E)); eauto.
Qed.

Theorem typing_perm_e pe pe' : decl_perm pe pe' -> ProgOKe teq pe -> ProgOKe teq pe'.
Proof.
  intros [ET [PF [PP PA]]] [SD NF [Sg [SO [FO PO]]] NA TA NP DJ U1 U2 U3 AC PN].
  destruct (Forall2_perm _ _ _ PF _ SO) as [Sg' [SO' PS]].
  assert (NS : NoDup (map fs_name Sg)) by (rewrite (sig_of_names _ _ _ SO); exact NF).
  pose proof (sig_lookup_perm _ _ PS NS) as EXT.
  assert (PU : Permutation (flat_map (fun p => map ident (proc_uses p)) (p_procs pe))
                           (flat_map (fun p => map ident (proc_uses p)) (p_procs pe')))
    by now apply Permutation_flat_map.
  assert (PPr : Permutation (all_providers (p_procs pe)) (all_providers (p_procs pe')))
    by (unfold all_providers; now apply Permutation_flat_map).
  assert (PAi : Permutation (map ident (p_assumed pe)) (map ident (p_assumed pe'))) by now apply Permutation_map.
  constructor; rewrite ?ET.
  - exact SD.
  - eapply Permutation_NoDup; [|exact NF]. now apply Permutation_map.
  - exists Sg'. repeat split; auto.
    + eapply Permutation_Forall; [exact PF|]. eapply Forall_impl; [|exact FO]. intros f. apply FunOK_ext, EXT.
    + eapply Permutation_Forall; [exact PP|]. eapply Forall_impl; [|exact PO].
      intros q [[t [Pt [Wt [C Ty]]]]]. constructor. exists t. repeat split; auto.
      rewrite <- (proc_ctx_perm _ _ _ _ q PP PA NP NA).
      eapply (proj1 (typed_sigma_ext_all teq _ Sg Sg' EXT)); eauto.
  - eapply Permutation_NoDup; eauto.
  - eapply Permutation_Forall; eauto.
  - eapply Permutation_NoDup; eauto.
  - intros x Hx Ha. apply (DJ x).
    + eapply Permutation_in; [apply Permutation_sym; exact PPr|exact Hx].
    + eapply Permutation_in; [apply Permutation_sym; exact PAi|exact Ha].
  - eapply Permutation_NoDup; eauto.
  - intros x Hx. destruct (U2 x) as [H|H].
    + eapply Permutation_in; [apply Permutation_sym; exact PU|exact Hx].
    + left. eapply Permutation_in; eauto.
    + right. eapply Permutation_in; eauto.
  - intros x Hx. eapply Permutation_in; [exact PU|]. apply U3.
    eapply Permutation_in; [apply Permutation_sym; exact PAi|exact Hx].
  - now rewrite (deps_acyclic_perm _ _ NP PP).
  - intros q n Hq Hn. apply (PN q n); auto. eapply Permutation_in; [apply Permutation_sym; exact PP|exact Hq].
Qed.

Theorem typing_perm p p' : decl_perm p p' -> ProgOK teq p -> ProgOK teq p'.
Proof.
  intros [ET [PF [PP PA]]] [pe [[ETe [EF [EP EA]]] OK]].
  destruct (Forall2_perm _ _ _ PF _ EF) as [fs' [EF' PF']].
  destruct (Forall2_perm _ _ _ PP _ EP) as [ps' [EP' PP']].
  destruct (Forall2_perm _ _ _ PA _ EA) as [as' [EA' PA']].
  exists {| p_procs := ps'; p_assumed := as'; p_funs := fs'; p_types := p_types pe |}. split.
  - repeat split; cbn; rewrite ?ET; auto.
  - eapply typing_perm_e; [|exact OK].
    split; [reflexivity|]. split; [exact PF'|]. split; [exact PP'|]. exact PA'.
Qed.

Lemma decl_perm_sym p p' : decl_perm p p' -> decl_perm p' p.
Proof. intros [E [A [B C]]]. repeat split; auto using Permutation_sym. Qed.

Corollary typing_perm_iff p p' : decl_perm p p' -> (ProgOK teq p <-> ProgOK teq p').
Proof. intros H. split; apply typing_perm; auto using decl_perm_sym. Qed.
End Prog.
