(* SaxSplit.v — C04, results half: CONTRACTION.  Programs with `split` (and `drop`), one provider name
   per declaration, Async mode, as a weak simulation into spec/Sax.v with its structural rules.
     * `<x,y> <- split b; k`      one Sax step s_split: the two-provider forward the interpreter spawns is
                                  the pending request split(c1,c2,b) (SaxRefine.pobj);
     * that forward posts a FWD request with its two providers (negative channel): zero Sax steps;
     * it receives a positive message, or a process waiting on its own channel adopts the two
       providers of the request: ONE Sax step s_copy — the process that now has two providers is read
       as the copies its DUP step creates (SaxRefine.proc_obj);
     * the DUP step itself: zero Sax steps (administrative). *)
From stdpp Require Import gmap strings.
Require Import Grits.Base Grits.ModeDefs Grits.Modes Grits.STypes Grits.Forms Grits.Subst Grits.TcDeps Grits.Expand
               Grits.Tc Grits.TcTop Grits.Runtime.
Require Import Grits.spec.RtTyping Grits.spec.Topo Grits.proofs.RuntimeFacts Grits.proofs.RtSafety Grits.proofs.InvAll.
Require Import Grits.spec.Sax Grits.proofs.Causality Grits.proofs.SaxRefine Grits.proofs.SaxInv Grits.proofs.SaxTyped
               Grits.proofs.SaxDrop.

(* ------------------------------------------------------------------ what DUP creates, for two providers *)
Definition col1 (self : pid) (nx : nat) (fns : list name) : list name :=
  imap (fun j fn => mkName (ident fn) false (pol fn) (nty fn) (Some (self ++ [(nx + 2 * j)%nat]))) fns.
Definition col2 (self : pid) (nx : nat) (fns : list name) : list name :=
  imap (fun j fn => mkName (ident fn) false (pol fn) (nty fn) (Some (self ++ [(nx + 2 * j + 1)%nat]))) fns.
Definition rows2 (ns1 ns2 : list name) : list (list name) := zip_with (fun a b => [a; b]) ns1 ns2.

Lemma fresh_matrix2 self : forall fns p,
  fresh_matrix self p fns 2 =
  (rows2 (col1 self (pr_next p) fns) (col2 self (pr_next p) fns),
   Proc (pr_provs p) (pr_body0 p) (pr_next p + 2 * length fns)).
Proof.
  induction fns as [|fn fns IH]; intros p; cbn.
  - destruct p. cbn. by rewrite Nat.add_0_r.
  - unfold fresh_chan. cbn. rewrite IH. cbn. unfold col1, col2, rows2. cbn. rewrite !Nat.add_0_r.
    f_equal; [|f_equal; lia]. f_equal; [repeat f_equal; lia|].
    f_equal; apply imap_ext; intros j x _; cbn; repeat f_equal; lia.
Qed.

Lemma subst_col_list0 fns : forall ns1 ns2 b,
  length ns1 = length fns -> length ns2 = length fns ->
  subst_col fns (rows2 ns1 ns2) 0 b = subst_list fns ns1 b.
Proof.
  induction fns as [|fn fns IH]; intros [|a ns1] [|b2 ns2] b H1 H2; cbn in *; try done. apply IH; lia.
Qed.
Lemma subst_col_list1 fns : forall ns1 ns2 b,
  length ns1 = length fns -> length ns2 = length fns ->
  subst_col fns (rows2 ns1 ns2) 1 b = subst_list fns ns2 b.
Proof.
  induction fns as [|fn fns IH]; intros [|a ns1] [|b2 ns2] b H1 H2; cbn in *; try done. apply IH; lia.
Qed.

Lemma fwds_splits fns : forall ns1 ns2,
  length ns1 = length fns -> length ns2 = length fns ->
  flat_map (fun s => pobj (sp_provs s) (sp_body s))
    (map (fun '(fn, row) => Spawn row (FFwd (mkName (ident fn) true None (nty fn) None) fn false))
         (combine fns (rows2 ns1 ns2))) = splits_of ns1 ns2 fns.
Proof.
  induction fns as [|fn fns IH]; intros [|a ns1] [|b2 ns2] H1 H2; cbn in *; try done.
  rewrite IH by lia. done.
Qed.

(* the objects a two-provider process is read as *)
Lemma dup_objs self n1 n2 c1 c2 body nx :
  chan n1 = Some c1 -> chan n2 = Some c2 -> is_fwd body = false ->
  let fns := free_names body in
  let ns1 := col1 self nx fns in let ns2 := col2 self nx fns in
  exists e, dup_effect self (Proc [n1; n2] body nx) = EOk e /\ e_after e = Finish /\ e_out e = [] /\ e_close e = [] /\
    e_newch e = flat_map cids_of (rows2 ns1 ns2) /\
    Forall (fun s => plain (sp_provs s) (sp_body s)) (e_spawn e) /\
    length (e_spawn e) = (2 + length fns)%nat /\
    spawn_objs (e_spawn e) =
      obj c1 (subst_list fns ns1 body) :: obj c2 (subst_list fns ns2 body) :: splits_of ns1 ns2 fns.
Proof.
  intros H1 H2 Hnf fns ns1 ns2. unfold dup_effect. cbn [pr_provs length Nat.eqb pr_body0].
  rewrite fresh_matrix2. cbn [pr_next].
  assert (length ns1 = length fns) as L1 by (unfold ns1, col1; by rewrite imap_length).
  assert (length ns2 = length fns) as L2 by (unfold ns2, col2; by rewrite imap_length).
  pose proof (subst_col_list0 fns ns1 ns2 body L1 L2) as E0. pose proof (subst_col_list1 fns ns1 ns2 body L1 L2) as E1.
  eexists. split; [reflexivity|]. cbn [e_after e_out e_close e_newch e_spawn]. split_and!; try done.
  - cbn. constructor; [left; eauto|]. constructor; [left; eauto|].
    apply Forall_forall. intros s Hs. apply in_map_iff in Hs as ([fn row] & <- & _). by right.
  - cbn. rewrite map_length, combine_length. unfold rows2. rewrite zip_with_length. fold fns. fold ns1 ns2. lia.
  - unfold spawn_objs. cbn [imap app flat_map sp_provs sp_body]. fold fns. unfold compose. cbn [imap].
    cbn [sp_provs sp_body]. fold ns1 ns2. rewrite E0, E1. unfold pobj at 1 2. rewrite H1, H2. cbn [app].
    f_equal. f_equal. apply (fwds_splits fns ns1 ns2 L1 L2).
Qed.

(* ------------------------------------------------------------------ the fresh names of DUP *)
Lemma col_cids self nx fns z : z ∈ names_cids (col1 self nx fns ++ col2 self nx fns) ->
  exists m, z = self ++ [m] /\ (nx <= m)%nat.
Proof.
  unfold names_cids. rewrite elem_of_flat_map. intros (n & Hn & Hz).
  apply elem_of_app in Hn as [Hn|Hn]; apply elem_of_lookup_imap in Hn as (j & fn & -> & _);
    unfold name_cids in Hz; cbn in Hz; apply elem_of_list_singleton in Hz as ->; eexists; split; [done|lia|done|lia].
Qed.

Lemma col_ok self nx fns :
  Forall (fun n => is_self n = false /\ is_Some (chan n)) (col1 self nx fns ++ col2 self nx fns).
Proof.
  apply Forall_app. split; apply Forall_forall; intros n Hn; apply elem_of_list_In, elem_of_lookup_imap in Hn as (j & fn & -> & _); cbn; eauto.
Qed.

Lemma names_cids_imap (g : nat -> nat) self (fns : list name) :
  names_cids (imap (fun j fn => mkName (ident fn) false (pol fn) (nty fn) (Some (self ++ [g j]))) fns) =
  map (fun j => self ++ [g j]) (seq 0 (length fns)).
Proof.
  revert g. induction fns as [|fn fns IH]; intros g; cbn; [done|]. unfold names_cids in *. cbn. f_equal.
  rewrite <- seq_shift, map_map. rewrite <- (IH (fun j => g (S j))). done.
Qed.

Lemma col_nodup self nx fns : NoDup (names_cids (col1 self nx fns ++ col2 self nx fns)).
Proof.
  rewrite names_cids_app. unfold col1, col2.
  rewrite (names_cids_imap (fun j => (nx + 2 * j)%nat)), (names_cids_imap (fun j => (nx + 2 * j + 1)%nat)).
  apply NoDup_ListNoDup, NoDup_app. split_and!.
  - apply NoDup_ListNoDup, FinFun.Injective_map_NoDup; [|apply seq_NoDup]. intros a b E. apply app_inv_head in E. injection E. lia.
  - intros z H1 H2. apply elem_of_list_In, in_map_iff in H1 as (a & <- & _). apply elem_of_list_In, in_map_iff in H2 as (b & E & _).
    apply app_inv_head in E. injection E. lia.
  - apply NoDup_ListNoDup, FinFun.Injective_map_NoDup; [|apply seq_NoDup]. intros a b E. apply app_inv_head in E. injection E. lia.
Qed.

Lemma rows2_cids self nx fns k : k ∈ flat_map cids_of (rows2 (col1 self nx fns) (col2 self nx fns)) ->
  exists m, k = self ++ [m] /\ (nx <= m)%nat.
Proof.
  intros Hk. apply (col_cids self nx fns). unfold names_cids. rewrite flat_map_app.
  apply elem_of_flat_map in Hk as (row & Hrow & Hk). unfold rows2 in Hrow.
  apply elem_of_lookup_zip_with in Hrow as (j & a & b & -> & Ha & Hb).
  unfold cids_of in Hk. cbn in Hk. rewrite app_nil_r in Hk. apply elem_of_app.
  apply elem_of_app in Hk as [Hk|Hk]; [left|right]; apply elem_of_flat_map; eexists; (split; [by eapply elem_of_list_lookup_2|]).
  - unfold name_cids. destruct (chan a); [done|by apply elem_of_nil in Hk].
  - unfold name_cids. destruct (chan b); [done|by apply elem_of_nil in Hk].
Qed.

(* ------------------------------------------------------------------ the rules, one by one *)
Section split_rules.
Context (D : tenv) (F : list fundef).

(* S5: the DUP step is administrative *)
Lemma refine_dup c self n1 n2 c1 c2 body nx e :
  procs c !! self = Some (Proc [n1; n2] body nx) -> chan n1 = Some c1 -> chan n2 = Some c2 -> is_fwd body = false ->
  ns_ok c -> dup_effect self (Proc [n1; n2] body nx) = EOk e ->
  α (apply_effect c self (Proc [n1; n2] body nx) e) ≡ₚ α c.
Proof.
  intros Hp H1 H2 Hnf Hns He. set (p := Proc [n1; n2] body nx) in *.
  destruct (dup_objs self n1 n2 c1 c2 body nx H1 H2 Hnf) as (e' & He' & Haf & Hout & Hcl & Hnew & Hpl & Hlen & Hobjs).
  fold p in He'. assert (e' = e) by congruence. subst e'.
  destruct e as [af ss nc cl o]. cbn in Haf, Hout, Hcl, Hnew. subst af o cl.
  rewrite (alpha_finish c self p ss nc Hp Hpl).
  - rewrite (alpha_lookup c self p Hp). apply Permutation_app; [|done].
    unfold proc_obj. unfold p at 1 2. cbn [pr_provs pr_body0].
    rewrite He. cbn [e_spawn]. by destruct body.
  - intros i Hi. eapply (ns_fresh_proc c self p _ Hns Hp). cbn. lia.
  - intros k Hk. rewrite Hnew in Hk. apply rows2_cids in Hk as (m & -> & Hm). by eapply (ns_fresh_chan c self p m Hns Hp).
Qed.

(* S3 / S4: a process ends up with the two providers of a contraction request: the rule copy *)
Lemma refine_copy c self p k st m n1 n2 c1 c2 P cl :
  procs c !! self = Some p -> chans c !! k = Some st -> ch_buf st = Some m ->
  chan n1 = Some c1 -> chan n2 = Some c2 -> is_fwd P = false ->
  [SSplit c1 c2 k; obj k P] ≡ₚ proc_obj self p ++ msg_obj k m ->
  (forall m', (pr_next p <= m')%nat -> (self ++ [m']) ∉ cfg_cids (α c)) ->
  sax_step F true (α c) []
    (α (apply_effect (put_msg c k st None) self p (Eff (Continue (Proc [n1; n2] P (pr_next p))) [] [] cl []))).
Proof.
  intros Hp Hk Hb H1 H2 Hnf HL Hfresh.
  destruct (dup_objs self n1 n2 c1 c2 P (pr_next p) H1 H2 Hnf) as (e & He & _ & _ & _ & _ & _ & _ & Hobjs).
  assert (α c ≡ₚ [SSplit c1 c2 k; obj k P] ++ procs_objs (delete self (procs c)) ++ chans_objs (delete k (chans c))) as Hc.
  { rewrite (alpha_lookup c self p Hp), (chans_objs_lookup _ k st Hk), HL. unfold chan_obj. rewrite Hb.
    rewrite <- !app_assoc. f_equiv. rewrite !app_assoc. f_equiv. apply Permutation_app_comm. }
  eapply sax_oneS; [exact Hc| |].
  - rewrite alpha_effect_simple. cbn [procs chans put_msg]. rewrite chans_objs_insert. cbn [chan_obj ch_buf app].
    unfold proc_obj at 1. cbn [pr_provs pr_body0]. rewrite He, Hobjs. destruct P; try done.
  - apply (s_copy _ c1 c2 k P (col1 self (pr_next p) (free_names P)) (col2 self (pr_next p) (free_names P))).
    + unfold col1. by rewrite imap_length.
    + unfold col2. by rewrite imap_length.
    + apply col_ok.
    + apply col_nodup.
    + intros z Hz. apply col_cids in Hz as (m' & -> & Hm'). intros Hin. apply (Hfresh m' Hm').
      unfold cfg_cids in *. rewrite Hc. exact Hin.
Qed.

(* S1: `<x,y> <- split b; k` *)
Lemma refine_split c self n a x y from k next b :
  procs c !! self = Some (Proc [n] (FSplit x y from k) next) -> chan n = Some a ->
  is_self from = false -> chan from = Some b -> ns_ok c ->
  (forall m', (next <= m')%nat -> (self ++ [m']) ∉ cfg_cids (α c)) ->
  let c1 := mkName (ident x) false (pol from) (nty from) (Some (self ++ [next])) in
  let c2 := mkName (ident y) false (pol from) (nty from) (Some (self ++ [S next])) in
  sax_step F true (α c) []
    (α (apply_effect c self (Proc [n] (FSplit x y from k) next)
          (Eff (Continue (set_body (Proc [n] (FSplit x y from k) (S (S next))) (subst y c2 (subst x c1 k))))
               [Spawn [c1; c2] (FFwd (mkName (ident from) true (pol from) (nty from) None) from false)]
               (cids_of [c1; c2]) [] []))).
Proof.
  intros Hp Hn Hfs Hb Hns Hfresh c1 c2.
  assert (α c ≡ₚ [SProc a (FSplit x y from k)] ++ procs_objs (delete self (procs c)) ++ chans_objs (chans c)) as Hc.
  { rewrite (alpha_lookup c self _ Hp). unfold proc_obj, pobj. cbn. by rewrite Hn. }
  eapply (sax_oneS F [SProc a (FSplit x y from k)]
            [obj a (subst y c2 (subst x c1 k)); SSplit (self ++ [next]) (self ++ [S next]) b]); [exact Hc| |].
  - unfold α, apply_effect. cbn.
    rewrite procs_objs_insert. rewrite delete_insert_ne by apply self_ne_snoc.
    rewrite procs_objs_insert_fresh.
    2:{ apply lookup_delete_None. right. eapply (ns_fresh_proc c self _ _ Hns Hp). cbn. lia. }
    rewrite chans_objs_new.
    2:{ rewrite lookup_insert_ne; [eapply (ns_fresh_chan c self _ _ Hns Hp); cbn; lia|].
        intros E. apply app_inv_head in E. injection E. lia. }
    rewrite chans_objs_new by (eapply (ns_fresh_chan c self _ _ Hns Hp); cbn; lia).
    unfold proc_obj, pobj. cbn. rewrite Hn, Hb. cbn. done.
  - apply (s_split _ a x y from k b c1 c2 (self ++ [next]) (self ++ [S next])); try done.
    + intros E. apply app_inv_head in E. injection E. lia.
    + intros Hin. apply (Hfresh next ltac:(lia)). unfold cfg_cids in *. by rewrite Hc.
    + intros Hin. apply (Hfresh (S next) ltac:(lia)). unfold cfg_cids in *. by rewrite Hc.
Qed.
End split_rules.

(* ------------------------------------------------------------------ the channels of the abstraction, all programs *)
Record SplitCfg (c : config) : Prop := {
  sc_procs : forall q pp, procs c !! q = Some pp -> (exists n, pr_provs pp = [n]) \/ (exists n1 n2, pr_provs pp = [n1; n2]);
  sc_msgs : forall k st m, chans c !! k = Some st -> ch_buf st = Some m -> m_rule m = RFWD ->
              (exists n, m_provs m = [n]) \/ (exists n1 n2, m_provs m = [n1; n2])
}.

Lemma form_cids_subst_list fns : forall ns b k,
  k ∈ form_cids (subst_list fns ns b) -> k ∈ form_cids b \/ k ∈ names_cids ns.
Proof.
  induction fns as [|fn fns IH]; intros [|n ns] b k; cbn; auto.
  intros H. apply IH in H as [H|H].
  - apply form_cids_subst in H as [H|H]; [by left|]. right. unfold names_cids. cbn. apply elem_of_app. by left.
  - right. unfold names_cids. cbn. apply elem_of_app. by right.
Qed.

Lemma splits_of_cids ns1 : forall ns2 fns x,
  x ∈ cfg_cids (splits_of ns1 ns2 fns) -> x ∈ names_cids (ns1 ++ ns2) \/ x ∈ names_cids fns.
Proof.
  induction ns1 as [|n1 ns1 IH]; intros [|n2 ns2] [|fn fns] x; cbn; try (intros H; by apply elem_of_nil in H).
  unfold cfg_cids. rewrite flat_map_app, elem_of_app. intros [H|H].
  - destruct (chan n1) as [z1|] eqn:E1; destruct (chan n2) as [z2|] eqn:E2; destruct (chan fn) as [z|] eqn:E; cbn in H;
      try (by apply elem_of_nil in H).
    unfold names_cids. cbn. rewrite flat_map_app. cbn.
    assert (name_cids n1 = [z1]) as -> by (unfold name_cids; by rewrite E1).
    assert (name_cids n2 = [z2]) as -> by (unfold name_cids; by rewrite E2).
    assert (name_cids fn = [z]) as -> by (unfold name_cids; by rewrite E).
    rewrite !elem_of_cons, elem_of_nil in H. rewrite !elem_of_app, !elem_of_cons. intuition.
  - apply IH in H as [H|H]; [left|right]; unfold names_cids in *; cbn.
    + rewrite flat_map_app in *. cbn. rewrite !elem_of_app in *. intuition.
    + apply elem_of_app. by right.
Qed.

Section cids_all.
Variable D : tenv.
Variable F : list fundef.
Variable teq : sty -> sty -> Prop.
Hypothesis Hteq : teq_laws D teq.
Hypothesis HF : funs_typed D F teq.

Lemma prov_in Δ n t d : prov_ty teq Δ n t -> chan n = Some d -> is_Some (Δ !! d).
Proof. intros (c0 & t' & Hc0 & Ht' & _) Hd. assert (c0 = d) by congruence. subst. eauto. Qed.

Lemma alpha_cids_all Δ c x :
  cfg_typed D F teq Δ c -> SplitCfg c -> x ∈ cfg_cids (α c) ->
  is_Some (chans c !! x) \/
  exists q pp m, procs c !! q = Some pp /\ length (pr_provs pp) = 2%nat /\ is_fwd (pr_body0 pp) = false /\
                 x = q ++ [m] /\ (pr_next pp <= m)%nat.
Proof.
  intros Hc Hsc. unfold cfg_cids, α. rewrite elem_of_flat_map. intros (o & Ho & Hx).
  apply elem_of_app in Ho as [Ho|Ho].
  - unfold procs_objs in Ho. apply elem_of_flat_map in Ho as ([q pr] & Hq & Ho). cbn in Ho.
    apply elem_of_map_to_list in Hq. destruct (ct_procs _ _ _ _ _ Hc q pr Hq) as (s & rs & _ & Hprov & Hty).
    destruct (sc_procs c Hsc q pr Hq) as [[n Hpv]|(n1 & n2 & Hpv)].
    + left. unfold proc_obj, pobj in Ho. rewrite Hpv in Ho. cbn in Ho.
      destruct (chan n) as [a|] eqn:Hn; [|by apply elem_of_nil in Ho]. apply elem_of_list_singleton in Ho as ->.
      apply (ct_dom _ _ _ _ _ Hc). rewrite Hpv in Hprov. apply Forall_cons_iff in Hprov as [Hp1 _].
      apply obj_cids_obj in Hx as [->|Hx]; [exact (prov_in _ _ _ _ Hp1 Hn)|by eapply typed_cids].
    + rewrite Hpv in Hprov. apply Forall_cons_iff in Hprov as [Hp1 Hprov]. apply Forall_cons_iff in Hprov as [Hp2 _].
      destruct pr as [provs body nx]. cbn in Hpv, Hty. subst provs.
      destruct (is_fwd body) eqn:Hfw.
      * (* a pending split *) left. destruct body; try done. unfold proc_obj, pobj in Ho. cbn in Ho.
        destruct droppable; [by apply elem_of_nil in Ho|].
        destruct (chan n1) as [z1|] eqn:E1; [|by apply elem_of_nil in Ho].
        destruct (chan n2) as [z2|] eqn:E2; [|by apply elem_of_nil in Ho].
        destruct (chan from) as [b|] eqn:Eb; [|by apply elem_of_nil in Ho].
        apply elem_of_list_singleton in Ho as ->. cbn in Hx. apply (ct_dom _ _ _ _ _ Hc).
        rewrite !elem_of_cons, elem_of_nil in Hx. destruct Hx as [->|[->|[->|[]]]]; [exact (prov_in _ _ _ _ Hp1 E1)|exact (prov_in _ _ _ _ Hp2 E2)|].
        eapply (proj1 (typed_names_mut D F teq Δ)); [exact Hty| |exact Eb]. cbn. apply elem_of_list_further, elem_of_list_here.
      * (* read as its copies *)
        destruct (chan n1) as [z1|] eqn:E1.
        2:{ exfalso. destruct Hp1 as (c0 & ? & Hc0 & _). congruence. }
        destruct (chan n2) as [z2|] eqn:E2.
        2:{ exfalso. destruct Hp2 as (c0 & ? & Hc0 & _). congruence. }
        destruct (dup_objs q n1 n2 z1 z2 body nx E1 E2 Hfw) as (e & He & _ & _ & _ & _ & _ & _ & Hobjs).
        assert (proc_obj q (Proc [n1; n2] body nx) = spawn_objs (e_spawn e)) as Hpo.
        { unfold proc_obj. cbn [pr_provs pr_body0]. rewrite He. by destruct body. }
        rewrite Hpo, Hobjs in Ho.
        assert (forall B ns, ns = col1 q nx (free_names body) \/ ns = col2 q nx (free_names body) ->
                  x ∈ form_cids (subst_list (free_names body) ns B) -> B = body ->
                  is_Some (chans c !! x) \/ exists m, x = q ++ [m] /\ (nx <= m)%nat) as Hbody.
        { intros B ns Hns Hxb ->. apply form_cids_subst_list in Hxb as [Hxb|Hxb].
          - left. apply (ct_dom _ _ _ _ _ Hc). by eapply typed_cids.
          - right. apply (col_cids q nx (free_names body)). rewrite names_cids_app. apply elem_of_app. destruct Hns as [->| ->]; auto. }
        assert (is_Some (chans c !! x) \/ exists m, x = q ++ [m] /\ (nx <= m)%nat) as [?|(m & -> & Hm)]; [|by left|right; exists q, (Proc [n1; n2] body nx), m; cbn; eauto 10].
        apply elem_of_cons in Ho as [->|Ho]; [|apply elem_of_cons in Ho as [->|Ho]].
        -- apply obj_cids_obj in Hx as [->|Hx]; [left; apply (ct_dom _ _ _ _ _ Hc); exact (prov_in _ _ _ _ Hp1 E1)|]. eapply (Hbody body (col1 q nx (free_names body))); [by left|exact Hx|done].
        -- apply obj_cids_obj in Hx as [->|Hx]; [left; apply (ct_dom _ _ _ _ _ Hc); exact (prov_in _ _ _ _ Hp2 E2)|]. eapply (Hbody body (col2 q nx (free_names body))); [by right|exact Hx|done].
        -- assert (x ∈ cfg_cids (splits_of (col1 q nx (free_names body)) (col2 q nx (free_names body)) (free_names body))) as Hxs.
           { unfold cfg_cids. apply elem_of_flat_map. eauto. }
           apply splits_of_cids in Hxs as [Hxs|Hxs]; [right; by apply (col_cids q nx (free_names body))|].
           left. apply (ct_dom _ _ _ _ _ Hc). unfold names_cids in Hxs. apply elem_of_flat_map in Hxs as (fn & Hfn & Hxf).
           apply elem_of_list_In in Hfn. destruct (free_names_closed D F teq Δ rs s body fn Hty Hfn) as [t Hct].
           unfold name_cids in Hxf. destruct (chan fn) eqn:Ef; [|by apply elem_of_nil in Hxf].
           apply elem_of_list_singleton in Hxf as ->. by eapply client_in.
  - left. unfold chans_objs in Ho. apply elem_of_flat_map in Ho as ([k st] & Hk & Ho). cbn in Ho.
    apply elem_of_map_to_list in Hk. unfold chan_obj in Ho. destruct (ch_buf st) as [m|] eqn:Hb; [|by apply elem_of_nil in Ho].
    pose proof (ct_msgs _ _ _ _ _ Hc k st m Hk Hb) as Hmt.
    assert (m_rule m = RFWD \/ m_rule m <> RFWD) as [Hr|Hr] by (destruct (m_rule m); auto; right; done).
    + destruct (sc_msgs c Hsc k st m Hk Hb Hr) as [[n Hpv]|(n1 & n2 & Hpv)].
      * destruct (msg_obj_typed_cids D teq Δ k m o x Hmt ltac:(eauto) Ho Hx) as [->|Hd]; [eauto|by apply (ct_dom _ _ _ _ _ Hc)].
      * unfold msg_obj in Ho. rewrite Hr, Hpv in Ho. destruct Hmt as (T & HT & Hm). rewrite Hr in Hm. destruct Hm as (_ & _ & Hall).
        rewrite Hpv in Hall. apply Forall_cons_iff in Hall as [Hp1 Hall]. apply Forall_cons_iff in Hall as [Hp2 _].
        destruct (chan n1) as [z1|] eqn:E1; [|by apply elem_of_nil in Ho]. destruct (chan n2) as [z2|] eqn:E2; [|by apply elem_of_nil in Ho].
        apply elem_of_list_singleton in Ho as ->. cbn in Hx. rewrite !elem_of_cons, elem_of_nil in Hx.
        destruct Hx as [->|[->|[->|[]]]]; [apply (ct_dom _ _ _ _ _ Hc); exact (prov_in _ _ _ _ Hp1 E1)|apply (ct_dom _ _ _ _ _ Hc); exact (prov_in _ _ _ _ Hp2 E2)|eauto].
    + destruct (msg_obj_typed_cids D teq Δ k m o x Hmt ltac:(done) Ho Hx) as [->|Hd]; [eauto|by apply (ct_dom _ _ _ _ _ Hc)].
Qed.

(* what the acting process is about to allocate is new for the whole abstraction *)
Lemma fresh_all Δ c self p m' :
  cfg_typed D F teq Δ c -> SplitCfg c -> ns_ok c -> procs c !! self = Some p ->
  ((exists n, pr_provs p = [n]) \/ is_fwd (pr_body0 p) = true) ->
  (pr_next p <= m')%nat -> (self ++ [m']) ∉ cfg_cids (α c).
Proof.
  intros Hc Hsc Hns Hp Hshape Hm Hin.
  apply (alpha_cids_all Δ c _ Hc Hsc) in Hin as [Hin|(q & pp & m & Hq & Hlen & Hnf & E & _)].
  - pose proof (ns_fresh_chan c self p m' Hns Hp Hm) as H0. destruct Hin as [x Hx].
    pose proof (eq_trans (eq_sym Hx) H0) as E. discriminate E.
  - apply app_inj_tail in E as [-> _]. assert (pp = p) by congruence. subst pp.
    destruct Hshape as [[n Hpv]|Hf]; [rewrite Hpv in Hlen; done|congruence].
Qed.
End cids_all.

(* ------------------------------------------------------------------ one step, all forms, provider lists of length <= 2 *)
Section split_step.
Variable D : tenv.
Variable F : list fundef.
Variable teq : sty -> sty -> Prop.
Hypothesis Hteq : teq_laws D teq.
Hypothesis HF : funs_typed D F teq.

Lemma multi_action n1 n2 body nx :
  is_fwd body = false ->
  match action_of Async D (Proc [n1; n2] body nx) with ADup | AErr _ | ANever => True | _ => False end.
Proof. intros Hf. destruct body; cbn; unfold send_on, recv_on, internal; cbn; repeat case_match; done. Qed.

(* a single-provider process whose head form is linear: linear rule, GC receipt, or adoption of two providers *)
Lemma lin_case2 Δ c self n a body next c' :
  cfg_typed D F teq Δ c -> Topo c -> ns_ok c -> SplitCfg c ->
  procs c !! self = Some (Proc [n] body next) -> chan n = Some a -> head_lin body ->
  step Async D F c (Run self) = SStep c' ->
  exists ls, sax_stepS01 F (α c) ls (α c') /\ labels c' = labels c ++ ls.
Proof.
  intros Hc Ht Hns Hsc Hp Hn Hlin Hstep.
  set (p := Proc [n] body next) in *.
  assert ((exists k st m, action_of Async D p = ARecv k /\ chans c !! k = Some st /\ ch_buf st = Some m /\
             (m_rule m = RGC \/ (m_rule m = RFWD /\ exists m1 m2, m_provs m = [m1; m2]))) \/
          (forall k st m, action_of Async D p = ARecv k -> chans c !! k = Some st -> ch_buf st = Some m ->
             m_rule m <> RGC /\ (m_rule m = RFWD -> exists n', m_provs m = [n']))) as [Hsp|Hng].
  { destruct (action_of Async D p) as [| |k0 m0|k0| |k0 pv|w] eqn:Hact; try (right; intros; congruence).
    destruct (chans c !! k0) as [st0|] eqn:Hk0; [|right; intros ? ? ? [= <-] ?; congruence].
    destruct (ch_buf st0) as [m1|] eqn:Hb0; [|right; intros ? ? ? [= <-] ? ?; congruence].
    destruct (m_rule m1) eqn:Hr.
    all: try (right; intros ? ? ? [= <-] ? ?; assert (st = st0) by congruence; subst; assert (m = m1) by congruence; subst;
              split; congruence).
    - destruct (sc_msgs c Hsc k0 st0 m1 Hk0 Hb0 Hr) as [[n' Hpv]|(m1' & m2' & Hpv)].
      + right. intros ? ? ? [= <-] ? ?. assert (st = st0) by congruence. subst. assert (m = m1) by congruence. subst.
        split; [congruence|eauto].
      + left. exists k0, st0, m1. split_and!; try done. right. eauto.
    - left. exists k0, st0, m1. split_and!; try done. by left. }
  - destruct Hsp as (k & st & m & Hact & Hk & Hb & Hrule).
    apply step_run_async_inv in Hstep as (p0 & Hp0 & Hstep). assert (p0 = p) by congruence. subst p0.
    rewrite Hact in Hstep. destruct Hstep as (st' & Hk' & Hst). assert (st' = st) by congruence. subst st'.
    rewrite Hb in Hst. destruct Hst as (e & He & ->).
    destruct Hrule as [Hrule|[Hrule (m1 & m2 & Hpv2)]].
    + (* GC: as in the weakening fragment *)
      destruct (gc_on_self D F teq Hteq HF Δ c self p k st m Hc Ht Hp Hact Hk Hb Hrule) as (n0 & Hpv & Hn0).
      unfold p in Hpv. cbn in Hpv. assert (n0 = n) by congruence. subst n0. assert (k = a) by congruence. subst k.
      assert (is_fwd body = false) as Hnf.
      { destruct body; try done. destruct droppable; [done|]. exfalso.
        unfold on_message in He. rewrite Hrule in He. cbn in He. done. }
      assert (e = let '(ss, cs, _) := droppable_fwds self p (free_names body) in Eff Finish ss cs [] []) as ->.
      { unfold on_message in He. rewrite Hrule in He. cbn in He.
        assert (match body with FFwd _ _ _ => true | _ => false end = false) as Hf by (by destruct body).
        rewrite Hf in He. cbn in He. destruct (droppable_fwds self p (free_names body)) as [[ss cs] p']. by simplify_eq. }
      destruct (droppable_fwds self p (free_names body)) as [[ss cs] p'] eqn:Hdf.
      destruct (ct_procs _ _ _ _ _ Hc self p Hp) as (s & rs & _ & _ & Hty). cbn in Hty.
      destruct (droppable_fwds_spec self _ _ _ _ _ Hdf) as (Hlen & Hcs & Hobjs & Hpl).
      { apply Forall_forall. intros x Hx. destruct (free_names_closed D F teq Δ rs s body x Hty Hx) as [t Hct].
        by eapply chan_ty_init. }
      exists []. split; [right|by rewrite labels_effect, labels_put].
      eapply (refine_finish F c self p a st m ss cs [SDrop a; SProc a body]); try done.
      * assert (length (free_names body) = length cs) as Hlc by (rewrite Hcs; by rewrite map_length, seq_length).
        rewrite Hcs at 1. f_equal. f_equal. exact Hlc.
      * unfold proc_obj, pobj, msg_obj. cbn. rewrite Hn, Hrule, (recv_form_obj D n body next a Hact Hnf a). apply Permutation_swap.
      * rewrite Hobjs. apply (s_gc _ a (SProc a body)). done.
    + (* a contraction request with two providers: the process adopts them (copy) *)
      pose proof (tres_typed_topo D F teq Hteq HF Δ c Hc Ht self p k st Hp Hact Hk) as Hres. rewrite Hb in Hres.
      destruct (Hres Hrule) as [Hsc' Hnf]. unfold self_chan, prov0, p in Hsc'. cbn in Hsc'. assert (k = a) by congruence. subst k.
      cbn in Hnf.
      assert (e = Eff (Continue (set_provs_body p (m_provs m) body)) [] [] (cids_of [n]) []) as ->.
      { unfold on_message in He. rewrite Hrule in He. cbn in He.
        assert (match body with FFwd _ _ _ => true | _ => false end = false) as Hf by (by destruct body).
        rewrite Hf in He. cbn in He. by simplify_eq. }
      destruct (ct_msgs _ _ _ _ _ Hc a st m Hk Hb) as (T & HT & Hm). rewrite Hrule in Hm. destruct Hm as (_ & _ & Hall).
      rewrite Hpv2 in Hall. apply Forall_cons_iff in Hall as [(z1 & ? & E1 & _) Hall]. apply Forall_cons_iff in Hall as [(z2 & ? & E2 & _) _].
      exists []. split; [right|by rewrite labels_effect, labels_put].
      unfold set_provs_body. rewrite Hpv2. cbn [pr_next p].
      eapply (refine_copy F c self p a st m m1 m2 z1 z2 body); try done.
      * unfold proc_obj, pobj, msg_obj. cbn. rewrite Hn, Hrule, Hpv2, E1, E2, (recv_form_obj D n body next a Hact Hnf a). apply Permutation_swap.
      * intros m' Hm'. eapply (fresh_all D F teq Δ c self p m' Hc Hsc Hns Hp); [left; cbn; eauto|done].
  - (* a linear rule *)
    destruct (refines_sax01_at D F c self c') as (ls & H01 & Hl); [|done|exists ls; split; [by apply sax_step01_S|done]].
    intros p0 Hp0. assert (p0 = p) by congruence. subst p0. split_and!.
    + cbn. eauto.
    + done.
    + intros _. split_and!.
      * eapply (fresh_all D F teq Δ c self p _ Hc Hsc Hns Hp); [left; cbn; eauto|done].
      * eapply (ns_fresh_chan c self p _ Hns Hp). lia.
      * eapply (ns_fresh_proc c self p _ Hns Hp). lia.
    + intros k st Hact Hk. pose proof (tres_typed_topo D F teq Hteq HF Δ c Hc Ht self p k st Hp Hact Hk) as Hres.
      destruct (ch_buf st) as [m|] eqn:Hb; [|done]. split; [|done].
      destruct (ct_msgs _ _ _ _ _ Hc k st m Hk Hb) as (T & HT & Hm).
      destruct (Hng k st m Hact Hk Hb) as [Hngc Hfw1].
      unfold msg_ok. destruct (m_rule m) eqn:Hrule; try done.
      * destruct Hm as (A & B & md & _ & _ & (c0 & t' & Hc0 & _)). eauto.
      * destruct Hm as (fm & tm & A & _ & (c0 & t' & Hc0 & _)). eauto.
      * destruct Hm as (bs & md & A & _ & _ & (c0 & t' & Hc0 & _)). eauto.
      * destruct (Hfw1 eq_refl) as [n' Hpv']. exists n'. split; [done|].
        destruct Hm as (_ & _ & Hall). rewrite Hpv' in Hall. apply Forall_cons_iff in Hall as [(c0 & t' & Hc0 & _) _]. eauto.
Qed.
End split_step.

Section split_step2.
Variable D : tenv.
Variable F : list fundef.
Variable teq : sty -> sty -> Prop.
Hypothesis Hteq : teq_laws D teq.
Hypothesis HF : funs_typed D F teq.

(* `<x,y> <- split from; k` *)
Lemma split_case Δ c self n a x y from k next c' :
  cfg_typed D F teq Δ c -> SplitCfg c -> ns_ok c ->
  procs c !! self = Some (Proc [n] (FSplit x y from k) next) -> chan n = Some a ->
  step Async D F c (Run self) = SStep c' ->
  exists ls, sax_stepS01 F (α c) ls (α c') /\ labels c' = labels c ++ ls.
Proof.
  intros Hc Hsc Hns Hp Hn Hstep.
  apply step_run_async_inv in Hstep as (p0 & Hp0 & Hstep). rewrite Hp in Hp0. simplify_eq.
  destruct (ct_procs _ _ _ _ _ Hc self _ Hp) as (s & rs & _ & _ & Hty). cbn in Hty.
  inversion Hty; subst.
  match goal with H : client_ty _ _ _ _ from _ |- _ => pose proof H as Hcl end.
  destruct (chan_ty_init teq Δ from _ Hcl) as [b Hb]. destruct Hcl as (Hfs & _).
  cbn in Hstep. rewrite Hfs in Hstep. cbn in Hstep.
  destruct Hstep as (e & He & ->). cbn in He. simplify_eq.
  exists []. split; [right|by rewrite labels_effect].
  eapply refine_split; try done.
  intros m' Hm'. eapply (fresh_all D F teq Δ c self _ m' Hc Hsc Hns Hp); [left; cbn; eauto|done].
Qed.

(* a process with two providers *)
Lemma two_case Δ c self n1 n2 body next c' :
  cfg_typed D F teq Δ c -> Topo c -> ns_ok c -> SplitCfg c -> DropUnref c ->
  procs c !! self = Some (Proc [n1; n2] body next) ->
  step Async D F c (Run self) = SStep c' ->
  exists ls, sax_stepS01 F (α c) ls (α c') /\ labels c' = labels c ++ ls.
Proof.
  intros Hc Ht Hns Hsc Hdu Hp Hstep. set (p := Proc [n1; n2] body next) in *.
  destruct (ct_procs _ _ _ _ _ Hc self p Hp) as (s & rs & _ & Hprov & Hty). cbn in Hprov, Hty.
  apply Forall_cons_iff in Hprov as [(c1 & ? & E1 & _) Hprov]. apply Forall_cons_iff in Hprov as [(c2 & ? & E2 & _) _].
  pose proof Hstep as Hstep0.
  apply step_run_async_inv in Hstep as (p0 & Hp0 & Hstep). assert (p0 = p) by congruence. subst p0.
  destruct (is_fwd body) eqn:Hfw.
  - (* the pending split *)
    destruct body; try done. destruct droppable.
    { exfalso. destruct (Hdu self p Hp eq_refl) as [Hlen _]. cbn in Hlen. done. }
    destruct (action_of Async D p) as [| |k m|k| |k pv|w] eqn:Hact; try done.
    + unfold p in Hact. cbn in Hact. repeat case_match; done.
    + unfold p in Hact. cbn in Hact. repeat case_match; done.
    + (* posts the request with its two providers: the same object *)
      assert (is_self to = true /\ chan from = Some k /\ m = Msg RFWD zero_name zero_name [n1; n2] "") as (Hto & Hfrom & ->).
      { unfold p in Hact. cbn in Hact. destruct (is_self to); [|done]. cbn in Hact.
        destruct (fwd_polarity D from) as [[| |]|?|?]; try done; destruct (chan from); by simplify_eq. }
      destruct Hstep as (st & Hk & Hb & ->). exists []. split; [|unfold labels; cbn; by rewrite app_nil_r].
      left. split; [done|]. symmetry. eapply refine_send; [exact Hp|exact Hk|exact Hb|].
      unfold proc_obj, pobj, msg_obj. cbn. by rewrite E1, E2, Hfrom.
    + (* receives a positive message: it is copied *)
      assert (is_self to = true /\ chan from = Some k) as (Hto & Hfrom).
      { unfold p in Hact. cbn in Hact. destruct (is_self to); [|done]. cbn in Hact.
        destruct (fwd_polarity D from) as [[| |]|?|?]; try done; destruct (chan from); by simplify_eq. }
      destruct Hstep as (st & Hk & Hst).
      destruct (ch_buf st) as [m|] eqn:Hb.
      2:{ exfalso. pose proof (topo_closed_unused Async D c eq_refl Ht self p k st Hp (or_introl Hact) Hk). congruence. }
      destruct Hst as (e & He & ->).
      pose proof (tres_typed_topo D F teq Hteq HF Δ c Hc Ht self p k st Hp Hact Hk) as Hres. rewrite Hb in Hres.
      exists []. split; [right|by rewrite labels_effect, labels_put, (on_message_out _ _ _ _ He)].
      assert (proc_obj self p = [SSplit c1 c2 k]) as Hpo by (unfold proc_obj, pobj, p; cbn; by rewrite E1, E2, Hfrom).
      unfold on_message in He. cbn in He. rewrite !andb_false_r in He.
      destruct (m_rule m) eqn:Hrule; try done.
      * simplify_eq. unfold no_eff, set_body. cbn [pr_provs pr_next].
        eapply (refine_copy F c self (Proc [n1; n2] (FFwd to from false) next) k st m n1 n2 c1 c2 (FSend to (m_c1 m) (m_c2 m))); try done.
        -- rewrite Hpo. unfold msg_obj. rewrite Hrule. cbn. by rewrite Hto.
        -- intros m' Hm'. eapply (fresh_all D F teq Δ c self (Proc [n1; n2] (FFwd to from false) next) m' Hc Hsc Hns Hp); [by right|done].
      * simplify_eq. unfold no_eff, set_body. cbn [pr_provs pr_next].
        eapply (refine_copy F c self (Proc [n1; n2] (FFwd to from false) next) k st m n1 n2 c1 c2 (FClose to)); try done.
        -- rewrite Hpo. unfold msg_obj. rewrite Hrule. cbn. by rewrite Hto.
        -- intros m' Hm'. eapply (fresh_all D F teq Δ c self (Proc [n1; n2] (FFwd to from false) next) m' Hc Hsc Hns Hp); [by right|done].
      * simplify_eq. unfold no_eff, set_body. cbn [pr_provs pr_next].
        eapply (refine_copy F c self (Proc [n1; n2] (FFwd to from false) next) k st m n1 n2 c1 c2 (FCast to (m_c1 m))); try done.
        -- rewrite Hpo. unfold msg_obj. rewrite Hrule. cbn. by rewrite Hto.
        -- intros m' Hm'. eapply (fresh_all D F teq Δ c self (Proc [n1; n2] (FFwd to from false) next) m' Hc Hsc Hns Hp); [by right|done].
      * simplify_eq. unfold no_eff, set_body. cbn [pr_provs pr_next].
        eapply (refine_copy F c self (Proc [n1; n2] (FFwd to from false) next) k st m n1 n2 c1 c2 (FSel to (m_label m) (m_c1 m))); try done.
        -- rewrite Hpo. unfold msg_obj. rewrite Hrule. cbn. by rewrite Hto.
        -- intros m' Hm'. eapply (fresh_all D F teq Δ c self (Proc [n1; n2] (FFwd to from false) next) m' Hc Hsc Hns Hp); [by right|done].
      * exfalso. destruct (Hres eq_refl) as [_ Hnf]. cbn in Hnf. done.
  - (* it duplicates itself: administrative *)
    pose proof (multi_action D n1 n2 body next Hfw) as Hma. fold p in Hma.
    destruct (action_of Async D p) as [| |k m|k| |k pv|w] eqn:Hact; try done.
    destruct Hstep as (e & He & ->).
    destruct (dup_objs self n1 n2 c1 c2 body next E1 E2 Hfw) as (e' & He' & _ & Hout & _).
    fold p in He'. assert (e' = e) by congruence. subst e'.
    exists []. split; [left; split; [done|]|by rewrite labels_effect, Hout].
    symmetry. by eapply refine_dup.
Qed.
End split_step2.

(* ------------------------------------------------------------------ provider lists stay of length one or two *)
Definition len12 (l : list name) : Prop := (exists n, l = [n]) \/ (exists n1 n2, l = [n1; n2]).
Definition eff_ok2 (e : effect) : Prop :=
  (forall p', e_after e = Continue p' -> len12 (pr_provs p')) /\ (forall s, In s (e_spawn e) -> len12 (sp_provs s)).

Lemma droppable_fwds_ok2 self cl p ss cs p' : droppable_fwds self p cl = (ss, cs, p') -> forall s, In s ss -> len12 (sp_provs s).
Proof. intros H s Hs. destruct (droppable_fwds_ok1 self cl p ss cs p' H s Hs) as [_ [n Hn]]. left. eauto. Qed.

Lemma on_message_ok2 self p m e :
  len12 (pr_provs p) -> (m_rule m = RFWD -> len12 (m_provs m)) -> on_message self p m = EOk e -> eff_ok2 e.
Proof.
  intros Hpv Hfw He. destruct p as [provs body next]. cbn in *.
  unfold on_message in He. cbn in He.
  destruct (m_rule m) eqn:Hrule; cbn in He.
  8:{ specialize (Hfw eq_refl).
      destruct body; cbn in He; simplify_eq; try (split; [intros p' [= <-]; cbn; done|intros s []]).
      destruct droppable; cbn in He.
      - destruct (droppable_fwds _ _ _) as [[ss cs] p'] eqn:Hdf. simplify_eq. split; [done|]. cbn. by eapply droppable_fwds_ok2.
      - destruct (m_provs m) as [|q r] eqn:Hq; [done|]. simplify_eq. split; [intros p' [= <-]; cbn; done|intros s []]. }
  all: destruct body; cbn in He; try discriminate.
  all: repeat match type of He with
       | context [if ?b then _ else _] => destruct b eqn:?; try discriminate
       | context [match find_branch ?l ?bs with _ => _ end] => destruct (find_branch l bs) as [[? ?]|] eqn:?; try discriminate
       | context [droppable_fwds ?a ?b ?c] => destruct (droppable_fwds a b c) as [[? ?] ?] eqn:?
       end.
  all: simplify_eq.
  all: split; [intros p' Hp'; cbn in Hp'; first [discriminate | (simplify_eq; cbn; first [done | left; eauto])]
              |intros s Hs; cbn in Hs; first [done | by eapply droppable_fwds_ok2]].
Qed.

Lemma internal_ok2 F self p e : len12 (pr_provs p) -> internal_effect Async F self p = EOk e -> eff_ok2 e.
Proof.
  intros Hpv He. destruct p as [provs body next]. cbn in *.
  destruct body; cbn in He; try discriminate.
  - simplify_eq. split; [intros p' [= <-]; done|]. intros s [<-|[]]. left. cbn. eauto.
  - simplify_eq. split; [intros p' [= <-]; done|]. intros s [<-|[]]. right. cbn. eauto.
  - destruct (call_body _ _ _) as [b|]; [|done]. simplify_eq. split; [intros p' [= <-]; done|intros s []].
  - simplify_eq. split; [intros p' [= <-]; done|]. intros s [<-|[]]. left. cbn. eauto.
  - simplify_eq. split; [intros p' [= <-]; done|intros s []].
Qed.

Lemma dup_ok2 self p e n1 n2 : pr_provs p = [n1; n2] -> dup_effect self p = EOk e -> eff_ok2 e.
Proof.
  intros Hpv He. destruct p as [provs body next]. cbn in Hpv. subst provs.
  unfold dup_effect in He. cbn [pr_provs length Nat.eqb pr_body0] in He. rewrite fresh_matrix2 in He. simplify_eq.
  split; [done|]. cbn. intros s [<-|[<-|Hs]]; [left; cbn; eauto|left; cbn; eauto|].
  apply in_map_iff in Hs as ([fn row] & <- & Hin). cbn. apply in_combine_r in Hin. unfold rows2 in Hin.
  apply elem_of_list_In, elem_of_lookup_zip_with in Hin as (j & a & b & -> & _). right. eauto.
Qed.

Theorem splitcfg_step D F c self c' :
  Topo c -> SplitCfg c -> step Async D F c (Run self) = SStep c' -> SplitCfg c'.
Proof.
  intros Ht Hsc Hstep. apply step_run_async_inv in Hstep as (p & Hp & Hstep).
  pose proof (sc_procs c Hsc self p Hp) as Hpv.
  assert (forall c1 e, procs c1 = procs c -> eff_ok2 e ->
            forall q pp, procs (apply_effect c1 self p e) !! q = Some pp -> len12 (pr_provs pp)) as Hprocs.
  { intros c1 e Hc1 [Hk Hs] q pp Hq. apply apply_effect_content in Hq as [(p' & Ha & -> & _)|[(s & Hin & -> & _)|Hq]]; [by apply Hk|by apply Hs|].
    rewrite Hc1 in Hq. by apply (sc_procs c Hsc q pp). }
  assert (forall c1 e, (forall k st m, chans c1 !! k = Some st -> ch_buf st = Some m -> m_rule m = RFWD -> len12 (m_provs m)) ->
            forall k st m, chans (apply_effect c1 self p e) !! k = Some st -> ch_buf st = Some m -> m_rule m = RFWD -> len12 (m_provs m)) as Hmsgs.
  { intros c1 e Hc1 k st m Hk Hb Hr.
    assert (buf (apply_effect c1 self p e) k = Some m) as Hbuf by (unfold buf, bufm; by rewrite Hk).
    apply apply_effect_buf in Hbuf. unfold buf, bufm in Hbuf. destruct (chans c1 !! k) as [st1|] eqn:Hk1; [|done]. eauto. }
  destruct (action_of Async D p) as [| |k m|k| |k pv|w] eqn:Hact; try done.
  - destruct Hstep as (e & He & ->). destruct Hpv as [[n Hn]|(n1 & n2 & Hn)].
    + exfalso. unfold dup_effect in He. rewrite Hn in He. done.
    + pose proof (dup_ok2 self p e n1 n2 Hn He) as Hok. split; [by apply Hprocs|]. apply Hmsgs. apply (sc_msgs c Hsc).
  - destruct Hstep as (e & He & ->). pose proof (internal_ok2 F self p e Hpv He) as Hok.
    split; [by apply Hprocs|]. apply Hmsgs. apply (sc_msgs c Hsc).
  - destruct Hstep as (st & Hk & Hb & ->). split; cbn.
    + intros q pp [_ Hq]%lookup_delete_Some. by apply (sc_procs c Hsc q pp).
    + intros k' st' m' [[<- <-]|[_ Hk']]%lookup_insert_Some Hb' Hr; [|by eapply (sc_msgs c Hsc)].
      cbn in Hb'. simplify_eq. by rewrite (send_fwd_provs D p k m' Hact Hr).
  - destruct Hstep as (st & Hk & Hst). destruct (ch_buf st) as [m|] eqn:Hb.
    + destruct Hst as (e & He & ->).
      pose proof (on_message_ok2 self p m e Hpv (sc_msgs c Hsc k st m Hk Hb) He) as Hok. split.
      * by apply Hprocs.
      * apply Hmsgs. intros k' st' m' Hk'. cbn in Hk'. apply lookup_insert_Some in Hk' as [[<- <-]|[_ Hk']]; [done|by apply (sc_msgs c Hsc k' st' m')].
    + pose proof (topo_closed_unused Async D c eq_refl Ht self p k st Hp (or_introl Hact) Hk). congruence.
Qed.

(* ------------------------------------------------------------------ one step; runs; programs *)
Require Import Grits.spec.SynOk Grits.proofs.RtInit Grits.proofs.RtTheorems Grits.proofs.RtStaticCheck Grits.proofs.RtTcSyn
               Grits.proofs.RtTcBisim Grits.proofs.ParseSynOk Grits.proofs.ParseRaw Grits.proofs.AsyncSync
               Grits.proofs.DeterminismAll Grits.proofs.SrcAll.

Section all_runs.
Variable D : tenv.
Variable F : list fundef.
Variable teq : sty -> sty -> Prop.
Hypothesis Hteq : teq_laws D teq.
Hypothesis HF : funs_typed D F teq.
Hypothesis HFa : TopoStep.funs_aff F.
Hypothesis HFn : nofd_funs F.

(* every Async step of a configuration whose provider lists have length one or two: zero or one step of
   Sax.v (structural rules included), same labels *)
Theorem refines_all_step c self c' :
  InvX D F teq c -> SplitCfg c -> step Async D F c (Run self) = SStep c' ->
  exists ls, sax_stepS01 F (α c) ls (α c') /\ labels c' = labels c ++ ls.
Proof.
  intros [[Δ Hc] Ht Hl Hns Hpv Hd Hnf] Hsc Hstep.
  destruct (procs c !! self) as [p|] eqn:Hp; [|by apply step_run_async_inv in Hstep as (p & Hp' & _); congruence].
  destruct (ct_procs _ _ _ _ _ Hc self p Hp) as (s & rs & _ & Hprov & _).
  destruct (sc_procs c Hsc self p Hp) as [[n Hpvn]|(n1 & n2 & Hpvn)].
  - rewrite Hpvn in Hprov. apply Forall_cons_iff in Hprov as [(a & t' & Hn & _) _].
    destruct p as [provs body next]. cbn in Hpvn. subst provs.
    destruct body; try (eapply (lin_case2 D F teq Hteq HF Δ c self n a); eauto; done).
    + destruct droppable.
      * eapply (dfwd_case D F teq Hteq HF Δ c self n a); eauto.
      * eapply (lin_case2 D F teq Hteq HF Δ c self n a); eauto. done.
    + eapply (split_case D F teq Δ c self n a); eauto.
    + eapply (drop_case D F teq Δ c self n a); eauto.
  - destruct p as [provs body next]. cbn in Hpvn. subst provs.
    eapply (two_case D F teq Hteq HF Δ c self n1 n2); eauto.
Qed.

Lemma refines_all_step_md md c ch c' :
  is_np md = false -> InvX D F teq c -> SplitCfg c -> (md = Sync -> bufs_empty c) -> step md D F c ch = SStep c' ->
  (exists ls, sax_steps F true (α c) ls (α c') /\ labels c' = labels c ++ ls) /\ SplitCfg c'.
Proof.
  intros Hnp HI Hsc Hb Hs.
  assert (forall c0 self c1, InvX D F teq c0 -> SplitCfg c0 -> step Async D F c0 (Run self) = SStep c1 ->
            (exists ls, sax_steps F true (α c0) ls (α c1) /\ labels c1 = labels c0 ++ ls) /\ SplitCfg c1) as Hone.
  { intros c0 self c1 HI0 Hsc0 Hs0. split.
    - destruct (refines_all_step c0 self c1 HI0 Hsc0 Hs0) as (ls & H1 & H2). exists ls. split; [by apply sax_stepS01_steps|done].
    - exact (splitcfg_step D F c0 self c1 (ix_topo _ _ _ _ HI0) Hsc0 Hs0). }
  destruct md; [| |done].
  - destruct (async_step_run D F c ch c' Hs) as [self ->]. by apply (Hone c self c').
  - destruct (sync_step_async D F c ch c' (Hb eq_refl) Hs) as [(p & -> & H1)|(s & r & c1 & -> & H1 & H2)].
    + by apply (Hone c p c').
    + destruct (Hone c s c1 HI Hsc H1) as [(l1 & Hs1 & Hl1) Hsc1].
      pose proof (invx_step_async D F teq Hteq HF HFa HFn c (Run s) c1 HI H1) as HI1.
      destruct (Hone c1 r c' HI1 Hsc1 H2) as [(l2 & Hs2 & Hl2) Hsc2]. split; [|done].
      exists (l1 ++ l2). split; [by eapply sax_steps_app|]. by rewrite Hl2, Hl1, app_assoc.
Qed.

Theorem refines_all_run_md md c tr c' :
  is_np md = false -> InvX D F teq c -> SplitCfg c -> (md = Sync -> bufs_empty c) -> steps md D F c tr c' ->
  exists ls, sax_steps F true (α c) ls (α c') /\ labels c' = labels c ++ ls.
Proof.
  intros Hnp HI Hsc Hb Hs. induction Hs as [c|c ch c1 tr c2 Hstep _ IH].
  - exists []. split; [by apply sax_refl|by rewrite app_nil_r].
  - destruct (refines_all_step_md md c ch c1 Hnp HI Hsc Hb Hstep) as [(l1 & Hs1 & Hl1) Hsc1].
    destruct (invx_step D F teq Hteq HF HFa HFn md c ch c1 Hnp HI Hb Hstep) as [HI1 Hb1].
    destruct (IH HI1 Hsc1 Hb1) as (l2 & Hs2 & Hl2).
    exists (l1 ++ l2). split; [by eapply sax_steps_app|]. by rewrite Hl2, Hl1, app_assoc.
Qed.
End all_runs.

(* one provider name per declaration (everything else allowed: drop, split, all the connectives) *)
Definition single_decls (p : program) : bool :=
  forallb (fun pr => match pr_providers pr with [_] => true | _ => false end) (p_procs p).

Lemma single_decls_init p : single_decls p = true -> SplitCfg (init_config p) /\
  forall q pr, procs (init_config p) !! q = Some pr -> exists n, pr_provs pr = [n].
Proof.
  unfold single_decls. rewrite forallb_forall. intros Hs.
  assert (forall q pr, procs (init_config p) !! q = Some pr -> exists n, pr_provs pr = [n]) as H1.
  { intros q pr' Hq. apply init_procs_lookup in Hq as (i & pr & Hpr & -> & Hpv & _).
    assert (In pr (p_procs p)) as Hin by (by eapply elem_of_list_In, elem_of_list_lookup_2).
    specialize (Hs pr Hin). cbn in Hs. destruct (pr_providers pr) as [|x [|y r]] eqn:Hprov; try done.
    rewrite Hpv. cbn. eauto. }
  split; [|done]. split.
  - intros q pr Hq. left. by apply (H1 q pr).
  - intros k st m Hk Hb. pose proof (bufs_empty_init p k st Hk). congruence.
Qed.

(* C04, results, for EVERY parsed accepted closed program with one provider name per declaration — with
   drop and split — in both polarized modes: the labels of every run are printed by an execution of
   spec/Sax.v (structural rules included) from the program's own SAX initial configuration *)
Theorem prints_admitted_all md txt p p' :
  is_np md = false ->
  parse_string txt = POk p -> typecheck p = Accept p' -> in_fragment p' -> single_decls p' = true ->
  forall fuel pick, exists C',
    sax_steps (p_funs p') true (sax_init p')
      (labels (res_config (exec_run fuel pick md (p_types p') (p_funs p') (init_config p')))) C'.
Proof.
  intros Hnp Hp Ha Hf Hsd fuel pick.
  pose proof (parse_syn_ok _ _ Hp) as PS. pose proof (parse_raw_ok _ _ Hp) as RS.
  destruct (init_invx p p' Ha Hf PS RS (all_src_parsed txt p p' Hp Ha)) as (HFa & HFn & HI).
  pose proof (tc_annotations_typed_rt p p' Ha PS RS Hf) as Hst.
  destruct (single_decls_init p' Hsd) as [Hsc Hsingle].
  rewrite <- (exec_trace_exec_run md (p_types p') (p_funs p') fuel pick (init_config p') []).
  destruct (exec_trace fuel pick md (p_types p') (p_funs p') (init_config p') []) as [r tr] eqn:Htr. cbn [fst].
  apply exec_trace_run in Htr as (es & _ & Hrun).
  destruct (refines_all_run_md _ _ _ (teq_rt_laws _) (proj1 Hst) HFa HFn md _ _ _ Hnp HI Hsc
              (fun _ => bufs_empty_init p') Hrun) as (ls & Hs & Hl).
  exists (α (res_config r)). rewrite Hl. change (labels (init_config p')) with (@nil string). cbn.
  eapply sax_steps_perm; [symmetry; by apply alpha_init|done].
Qed.

Definition c04_all_text (txt : string) : bool :=
  match parse_string txt with
  | POk p => match typecheck p with Accept p' => in_fragment_b p' && single_decls p' | _ => false end
  | _ => false
  end.

Theorem prints_admitted_all_text txt : c04_all_text txt = true ->
  exists p p', parse_string txt = POk p /\ typecheck p = Accept p' /\
  forall md, is_np md = false -> forall fuel pick, exists C',
    sax_steps (p_funs p') true (sax_init p')
      (labels (res_config (exec_run fuel pick md (p_types p') (p_funs p') (init_config p')))) C'.
Proof.
  unfold c04_all_text. destruct (parse_string txt) as [p| | |] eqn:Hp; try discriminate.
  destruct (typecheck p) as [p'| | |] eqn:Ha; try discriminate.
  intros [Hf Hc]%andb_prop. exists p, p'. split; [done|]. split; [done|]. intros md Hnp.
  apply (prints_admitted_all md txt p p' Hnp Hp Ha); [by apply in_fragment_b_sound|done].
Qed.

(* the first sentence of C04 for these programs: a terminating run's labels are printed by the reference
   semantics, and every schedule terminates with the same multiset (C03, DeterminismAll.determinism_all) *)
Theorem results_unique_admitted_all md txt p p' pick1 f1 t1 :
  is_np md = false ->
  parse_string txt = POk p -> typecheck p = Accept p' -> in_fragment p' -> single_decls p' = true ->
  exec_run f1 pick1 md (p_types p') (p_funs p') (init_config p') = RQuiescent t1 ->
  (exists C', sax_steps (p_funs p') true (sax_init p') (labels t1) C') /\
  (forall pick2 f2, (f1 <= f2)%nat ->
     exists t2, exec_run f2 pick2 md (p_types p') (p_funs p') (init_config p') = RQuiescent t2 /\ labels t2 ≡ₚ labels t1).
Proof.
  intros Hnp Hp Ha Hf Hsd Hrun. split.
  - destruct (prints_admitted_all md txt p p' Hnp Hp Ha Hf Hsd f1 pick1) as [C' HC]. rewrite Hrun in HC. eauto.
  - intros pick2 f2 Hle.
    destruct (determinism_all txt p p' md pick1 pick2 f1 f2 t1 Hp Ha Hf (all_src_parsed txt p p' Hp Ha) Hnp Hrun Hle)
      as (t2 & H2 & _ & Hperm). eauto.
Qed.
