(* proofs/WFProofs.v — C10: the model of SanityChecksTypeDefinitions accepts exactly the
   well-formed environments; the fuel of isContractive / Unfold suffices. *)
Require Import Grits.Base Grits.ModeDefs Grits.Modes Grits.STypes Grits.Infer Grits.WF Grits.Unfold.
Require Import Grits.spec.WFSpec.
Require Import Coq.Relations.Relation_Operators Coq.Relations.Operators_Properties.

(* ------------------------------------------------------------------ basics *)
Lemma str_mem_In k l : str_mem k l = true <-> In k l.
Proof.
  induction l as [|x r IH]; cbn.
  - split; [discriminate | tauto].
  - rewrite orb_true_iff, IH, String.eqb_eq. split; intros [H|H]; auto.
Qed.

Lemma str_mem_false k l : str_mem k l = false <-> ~ In k l.
Proof.
  rewrite <- str_mem_In. destruct (str_mem k l); split; congruence.
Qed.

Lemma tlookup_some D x d : tlookup D x = Some d -> In d D /\ td_name d = x.
Proof.
  induction D as [|d0 r IH]; cbn; [discriminate|].
  destruct (tlookup r x) as [d'|] eqn:E.
  - intros H; inversion H; subst. destruct (IH eq_refl); auto.
  - destruct (String.eqb x (td_name d0)) eqn:Eq; [|discriminate].
    intros H; inversion H; subst. apply String.eqb_eq in Eq. auto.
Qed.

Lemma tlookup_none D x : tlookup D x = None <-> ~ In x (names D).
Proof.
  induction D as [|d0 r IH]; cbn; [tauto|].
  destruct (tlookup r x) as [d'|] eqn:E.
  - split; [discriminate|]. intros H. exfalso. apply H. right.
    destruct (tlookup_some _ _ _ E) as [Hin Hn]. subst x. apply in_map. exact Hin.
  - destruct (String.eqb x (td_name d0)) eqn:Eq.
    + apply String.eqb_eq in Eq. split; [discriminate|]. intros H; exfalso; apply H; auto.
    + apply String.eqb_neq in Eq. split; [|reflexivity]. intros _ [H|H]; [congruence|].
      apply IH in H; auto.
Qed.

Lemma tlookup_defined D x : In x (names D) <-> exists d, tlookup D x = Some d.
Proof.
  destruct (tlookup D x) as [d|] eqn:E.
  - split; [eauto|]. intros _. destruct (tlookup_some _ _ _ E) as [Hin Hn]. subst. apply in_map; auto.
  - apply tlookup_none in E. split; [tauto|]. intros [d Hd]; discriminate.
Qed.

Lemma tlookup_nodup D d : NoDup (names D) -> In d D -> tlookup D (td_name d) = Some d.
Proof.
  induction D as [|d0 r IH]; cbn; [tauto|].
  intros Hnd [H|H]; inversion Hnd as [|? ? Hnotin Hnd']; subst.
  - assert (E : tlookup r (td_name d) = None) by (apply tlookup_none; exact Hnotin).
    rewrite E, String.eqb_refl. reflexivity.
  - rewrite (IH Hnd' H). reflexivity.
Qed.

Lemma tdefined_In D x : tdefined D x = true <-> In x (names D).
Proof.
  unfold tdefined. rewrite tlookup_defined. destruct (tlookup D x) as [d|] eqn:E.
  - split; intros; eauto.
  - split; intros H; [discriminate H | destruct H as [d H]; discriminate H].
Qed.

Lemma orelse_none a b : orelse a b = None <-> a = None /\ b = None.
Proof. destruct a; cbn; split; try tauto; try discriminate. Qed.

Lemma mode_present_none m : mode_present m = None <-> proper m = true.
Proof. destruct m; cbn; split; congruence. Qed.

Lemma mode_eqb_proper m k : proper m = true -> (mode_eqb m k = true <-> m = k).
Proof. destruct m; cbn; try discriminate; intros _; destruct k; split; congruence. Qed.

Lemma mode_eqb_refl_proper m : proper m = true -> mode_eqb m m = true.
Proof. intros H. apply mode_eqb_proper; auto. Qed.

(* ------------------------------------------------------------------ checkTypeLabels *)
Lemma check_labels_sound D :
  (forall t, check_labels D t = None -> LabelsOK D t) /\
  (forall bs seen, check_labels_brs D bs seen = None ->
     BrsLabelsOK D bs /\ NoDup (brs_labels bs) /\ (forall l, In l (brs_labels bs) -> ~ In l seen)).
Proof.
  apply sty_brs_ind; cbn; intros.
  - destruct (tdefined D x) eqn:E; [|discriminate]. constructor. apply tdefined_In; auto.
  - constructor.
  - apply orelse_none in H1 as [? ?]. constructor; auto.
  - apply orelse_none in H1 as [? ?]. constructor; auto.
  - destruct (H _ H0) as (? & ? & ?). constructor; auto.
  - destruct (H _ H0) as (? & ? & ?). constructor; auto.
  - constructor; auto.
  - constructor; auto.
  - repeat split; [constructor | constructor | tauto].
  - destruct (str_mem l seen) eqn:E; [discriminate|].
    apply orelse_none in H1 as [Ha Hr]. destruct (H0 _ Hr) as (Hb & Hnd & Hdis).
    apply str_mem_false in E.
    repeat split.
    + constructor; auto.
    + constructor; auto. intros Hin. apply (Hdis _ Hin). left; reflexivity.
    + intros l0 [<-|Hin]; auto. intros Hs. apply (Hdis _ Hin). right; exact Hs.
Qed.

Lemma check_labels_complete D :
  (forall t, LabelsOK D t -> check_labels D t = None) /\
  (forall bs, BrsLabelsOK D bs -> forall seen, NoDup (brs_labels bs) ->
     (forall l, In l (brs_labels bs) -> ~ In l seen) -> check_labels_brs D bs seen = None).
Proof.
  apply LabelsOK_mut; cbn; intros.
  - apply tdefined_In in i. rewrite i. reflexivity.
  - reflexivity.
  - rewrite H, H0. reflexivity.
  - rewrite H, H0. reflexivity.
  - apply H; auto.
  - apply H; auto.
  - auto.
  - auto.
  - reflexivity.
  - inversion H1; subst.
    assert (E : str_mem l seen = false) by (apply str_mem_false; apply H2; left; reflexivity).
    rewrite E, H. cbn. apply H0; auto.
    intros l' Hin [<-|Hs]; [auto|]. apply (H2 l'); [right; exact Hin | exact Hs].
Qed.

(* ------------------------------------------------------------------ checkTypeModalities *)
Lemma if_negb_none (b : bool) (e : wf_err) (r : option wf_err) :
  (if negb b then Some e else r) = None <-> b = true /\ r = None.
Proof. destruct b; cbn; split; try tauto; try discriminate. intros [H _]; discriminate. Qed.

Lemma check_modalities_sound D :
  (forall t cur, check_modalities D cur t = None -> ModesOK D cur t) /\
  (forall bs cur, check_modalities_brs D cur bs = None -> BrsModesOK D cur bs).
Proof.
  apply sty_brs_ind; cbn; intros.
  - apply orelse_none in H as [Hp H]. apply mode_present_none in Hp.
    destruct (tlookup D x) as [d|] eqn:E; [|discriminate].
    apply if_negb_none in H as [H1 H]. apply if_negb_none in H as [H2 _].
    apply (mode_eqb_proper _ _ Hp) in H1. apply (mode_eqb_proper _ _ Hp) in H2. subst cur.
    destruct (tlookup_some _ _ _ E). econstructor; eauto.
  - apply orelse_none in H as [Hp H]. apply mode_present_none in Hp.
    apply if_negb_none in H as [H1 _]. apply (mode_eqb_proper _ _ Hp) in H1. subst. constructor; auto.
  - apply orelse_none in H1 as [Hp H1]. apply mode_present_none in Hp.
    apply if_negb_none in H1 as [H2 H1]. apply (mode_eqb_proper _ _ Hp) in H2. subst.
    apply orelse_none in H1 as [? ?]. constructor; auto.
  - apply orelse_none in H1 as [Hp H1]. apply mode_present_none in Hp.
    apply if_negb_none in H1 as [H2 H1]. apply (mode_eqb_proper _ _ Hp) in H2. subst.
    apply orelse_none in H1 as [? ?]. constructor; auto.
  - apply orelse_none in H0 as [Hp H0]. apply mode_present_none in Hp.
    apply if_negb_none in H0 as [H2 H0]. apply (mode_eqb_proper _ _ Hp) in H2. subst.
    constructor; auto.
  - apply orelse_none in H0 as [Hp H0]. apply mode_present_none in Hp.
    apply if_negb_none in H0 as [H2 H0]. apply (mode_eqb_proper _ _ Hp) in H2. subst.
    constructor; auto.
  - apply orelse_none in H0 as [Hf H0]. apply orelse_none in H0 as [Ht H0].
    apply mode_present_none in Hf. apply mode_present_none in Ht.
    apply if_negb_none in H0 as [H2 H0]. apply (mode_eqb_proper _ _ Ht) in H2. subst.
    apply if_negb_none in H0 as [H3 H0]. constructor; auto.
  - apply orelse_none in H0 as [Hf H0]. apply orelse_none in H0 as [Ht H0].
    apply mode_present_none in Hf. apply mode_present_none in Ht.
    apply if_negb_none in H0 as [H2 H0]. apply (mode_eqb_proper _ _ Ht) in H2. subst.
    apply if_negb_none in H0 as [H3 H0]. constructor; auto.
  - constructor.
  - apply orelse_none in H1 as [? ?]. constructor; auto.
Qed.

Lemma check_modalities_complete D : NoDup (names D) ->
  (forall cur t, ModesOK D cur t -> check_modalities D cur t = None) /\
  (forall cur bs, BrsModesOK D cur bs -> check_modalities_brs D cur bs = None).
Proof.
  intros Hnd. apply ModesOK_mut; cbn; intros; auto.
  - subst. rewrite (tlookup_nodup _ _ Hnd i).
    apply mode_present_none in e. rewrite e. cbn.
    rewrite mode_eqb_refl_proper; auto. apply mode_present_none; auto.
  - pose proof (proj2 (mode_present_none m) e) as E. rewrite E. cbn. rewrite mode_eqb_refl_proper; auto.
  - pose proof (proj2 (mode_present_none m) e) as E. rewrite E. cbn. rewrite mode_eqb_refl_proper; auto.
    cbn. rewrite H, H0. reflexivity.
  - pose proof (proj2 (mode_present_none m) e) as E. rewrite E. cbn. rewrite mode_eqb_refl_proper; auto.
    cbn. rewrite H, H0. reflexivity.
  - pose proof (proj2 (mode_present_none m) e) as E. rewrite E. cbn. rewrite mode_eqb_refl_proper; auto.
  - pose proof (proj2 (mode_present_none m) e) as E. rewrite E. cbn. rewrite mode_eqb_refl_proper; auto.
  - rewrite (proj2 (mode_present_none f) e), (proj2 (mode_present_none t) e0). cbn.
    rewrite mode_eqb_refl_proper; auto. cbn. rewrite e1. cbn. auto.
  - rewrite (proj2 (mode_present_none f) e), (proj2 (mode_present_none t) e0). cbn.
    rewrite mode_eqb_refl_proper; auto. cbn. rewrite e1. cbn. auto.
  - rewrite H, H0. reflexivity.
Qed.

(* ------------------------------------------------------------------ CheckTypeWellFormedness *)
Lemma check_wf_sound D t : check_wf D t = None -> WellFormedType D t.
Proof.
  unfold check_wf. intros H. apply orelse_none in H as [H1 H2]. split.
  - apply check_labels_sound; auto.
  - apply check_modalities_sound; auto.
Qed.

Lemma check_wf_complete D t : NoDup (names D) -> WellFormedType D t -> check_wf D t = None.
Proof.
  intros Hnd [H1 H2]. unfold check_wf.
  rewrite (proj1 (check_labels_complete D) _ H1). cbn.
  apply (check_modalities_complete D Hnd); auto.
Qed.

Lemma sanity_types_sound D ts : sanity_types D ts = None -> Forall (WellFormedType D) ts.
Proof.
  induction ts as [|t r IH]; cbn; intros H; constructor.
  - apply orelse_none in H as [H _]. apply check_wf_sound; auto.
  - apply orelse_none in H as [_ H]. auto.
Qed.

Lemma sanity_types_complete D ts : NoDup (names D) -> Forall (WellFormedType D) ts -> sanity_types D ts = None.
Proof.
  intros Hnd H. induction H as [|t r Ht Hr IH]; cbn; auto.
  rewrite (check_wf_complete _ _ Hnd Ht). cbn. exact IH.
Qed.

(* ------------------------------------------------------------------ the three loops *)
Lemma dup_def_false l : forall seen,
  dup_def l seen = false <-> NoDup (names l) /\ (forall x, In x (names l) -> ~ In x seen).
Proof.
  induction l as [|d r IH]; cbn; intros seen.
  - split; [intros _; split; [constructor | tauto] | reflexivity].
  - destruct (str_mem (td_name d) seen) eqn:E.
    + split; [discriminate|]. intros [_ H]. apply str_mem_In in E. exfalso. apply (H (td_name d)); auto.
    + apply str_mem_false in E. rewrite IH. split.
      * intros [Hnd Hdis]. split.
        -- constructor; auto. intros Hin. apply (Hdis _ Hin). left; reflexivity.
        -- intros x [<-|Hin]; auto. intros Hs. apply (Hdis _ Hin). right; exact Hs.
      * intros [Hnd Hdis]. inversion Hnd as [|? ? Hnotin Hnd']; subst. split; auto.
        intros x Hin [<-|Hs]; [auto|]. apply (Hdis x); auto.
Qed.

Lemma wf_all_none D l : wf_all D l = None <->
  (forall d, In d l -> check_wf D (td_body d) = None /\ mode_eqb (mode_of (td_body d)) (td_mode d) = true).
Proof.
  induction l as [|d r IH]; cbn [wf_all In].
  - split; [tauto | reflexivity].
  - unfold defmode_check. rewrite orelse_none, orelse_none, IH, if_negb_none. split.
    + intros (H1 & (H2 & _) & H3) d' [<-|Hin]; auto.
    + intros H. repeat split; try apply H; auto.
Qed.

Lemma contractive_all_none D l :
  contractive_all D l = Ok None <->
  (forall d, In d l -> is_contractive (contractive_fuel D) D (td_body d) [] = Ok true /\ check_wf D (td_body d) = None).
Proof.
  induction l as [|d r IH]; cbn [contractive_all In].
  - split; [tauto | reflexivity].
  - destruct (is_contractive (contractive_fuel D) D (td_body d) []) as [c|s|s] eqn:Ec; cbn [obind].
    + destruct c; cbn [negb].
      * destruct (check_wf D (td_body d)) as [e|] eqn:Ew.
        -- split; [discriminate|]. intros H. destruct (H d (or_introl eq_refl)) as [_ H']. congruence.
        -- rewrite IH. split.
           ++ intros H d' [<-|Hin]; auto.
           ++ intros H d' Hin. apply H; auto.
      * split; [discriminate|]. intros H. destruct (H d (or_introl eq_refl)) as [H' _]. congruence.
    + split; [discriminate|]. intros H. destruct (H d (or_introl eq_refl)) as [H' _]. congruence.
    + split; [discriminate|]. intros H. destruct (H d (or_introl eq_refl)) as [H' _]. congruence.
Qed.

Lemma sanity_typedefs_ok D :
  sanity_typedefs D = Ok None <->
  NoDup (names D) /\
  (forall d, In d D -> check_wf D (td_body d) = None) /\
  (forall d, In d D -> mode_eqb (mode_of (td_body d)) (td_mode d) = true) /\
  (forall d, In d D -> is_contractive (contractive_fuel D) D (td_body d) [] = Ok true).
Proof.
  unfold sanity_typedefs. destruct (dup_def D []) eqn:Ed.
  - split; [discriminate|]. intros [Hnd _].
    assert (dup_def D [] = false) by (apply dup_def_false; split; auto). congruence.
  - apply dup_def_false in Ed as [Hnd _].
    destruct (wf_all D D) as [e|] eqn:Ew.
    + split; [discriminate|]. intros (_ & H & Hm & _).
      assert (wf_all D D = None) by (apply wf_all_none; intros d Hin; split; auto). congruence.
    + rewrite contractive_all_none. pose proof (proj1 (wf_all_none D D) Ew) as Hw. split.
      * intros H. repeat split; auto; intros d Hin; try apply Hw; auto. apply H; auto.
      * intros (_ & Hc & _ & H) d Hin. split; auto.
Qed.

(* ------------------------------------------------------------------ isContractive / Unfold *)
Lemma snaps_bound D snaps : NoDup snaps -> incl snaps (names D) -> length snaps <= length D.
Proof.
  intros H1 H2. pose proof (NoDup_incl_length H1 H2) as H. unfold names in H. rewrite map_length in H. exact H.
Qed.

(* the fuel handed in never runs out, whatever the environment *)
Lemma contractive_no_hang D : forall fuel t snaps,
  NoDup snaps -> incl snaps (names D) -> S (length D) <= fuel + length snaps ->
  forall s, is_contractive fuel D t snaps <> Hang s.
Proof.
  induction fuel as [|f IH]; intros t snaps Hnd Hincl Hlen s.
  - pose proof (snaps_bound _ _ Hnd Hincl). cbn in Hlen. lia.
  - destruct t; cbn; try discriminate.
    destruct (str_mem x snaps) eqn:E; [discriminate|].
    destruct (tlookup D x) as [d|] eqn:El; [|discriminate].
    apply IH.
    + constructor; auto. apply str_mem_false; auto.
    + intros z [<-|Hz]; auto. destruct (tlookup_some _ _ _ El) as [Hin <-]. apply in_map; auto.
    + cbn. lia.
Qed.

Lemma contractive_fuel_enough_lemma D t s : is_contractive (contractive_fuel D) D t [] <> Hang s.
Proof.
  apply contractive_no_hang; [constructor | intros z [] | unfold contractive_fuel; cbn; lia].
Qed.

(* auxiliary: the alias chain from t ends in a structural type *)
Inductive Resolves (D : tenv) : sty -> Prop :=
| R_struct t : is_name t = false -> Resolves D t
| R_name x m d : tlookup D x = Some d -> Resolves D (td_body d) -> Resolves D (TName x m).

Lemma contractive_true_resolves D : forall fuel t snaps,
  is_contractive fuel D t snaps = Ok true -> Resolves D t.
Proof.
  induction fuel as [|f IH]; intros t snaps; cbn; [discriminate|].
  destruct t; try (intros _; apply R_struct; reflexivity).
  destruct (str_mem x snaps); [discriminate|].
  destruct (tlookup D x) as [d|] eqn:El; [|discriminate].
  intros H. eapply R_name; eauto.
Qed.

Lemma clos_t_rt_ {A} (R : A -> A -> Prop) x y : clos_trans A R x y -> clos_refl_trans A R x y.
Proof.
  induction 1; [apply rt_step; auto | eapply rt_trans; eauto].
Qed.

Lemma clos_trans_first {A} (R : A -> A -> Prop) x y :
  clos_trans A R x y -> exists c, R x c /\ clos_refl_trans A R c y.
Proof.
  intros H. apply clos_trans_t1n in H. destruct H as [y H | y z H H'].
  - exists y. split; auto. apply rt_refl.
  - exists y. split; auto. apply clos_t_rt_. apply clos_t1n_trans; auto.
Qed.

Lemma alias_step_det D x y : NoDup (names D) -> alias_step D x y ->
  exists d m, tlookup D x = Some d /\ td_body d = TName y m.
Proof.
  intros Hnd H. destruct H as [d y m Hin Hb]. exists d, m. split; auto. apply tlookup_nodup; auto.
Qed.

Lemma resolves_no_cycle D : NoDup (names D) ->
  forall t, Resolves D t -> forall x m, t = TName x m -> ~ clos_trans string (alias_step D) x x.
Proof.
  intros Hnd t H. induction H as [t Hs | x0 m0 d El Hr IH]; intros x m Et Hc; subst.
  - discriminate.
  - inversion Et; subst x0 m0.
    destruct (clos_trans_first _ _ _ Hc) as (y & Hxy & Hyx).
    destruct (alias_step_det _ _ _ Hnd Hxy) as (d' & m' & El' & Hb).
    rewrite El in El'. inversion El'; subst d'.
    apply (IH y m' Hb). eapply clos_rt_t; [exact Hyx | apply t_step; exact Hxy].
Qed.

Lemma contractive_sound D : NoDup (names D) ->
  (forall d, In d D -> is_contractive (contractive_fuel D) D (td_body d) [] = Ok true) ->
  Contractive D.
Proof.
  intros Hnd H x Hc.
  destruct (clos_trans_first _ _ _ Hc) as (y & Hxy & Hyx).
  pose proof Hxy as Hxy'. destruct Hxy' as [d y m Hin Hb].
  pose proof (contractive_true_resolves _ _ _ _ (H d Hin)) as Hr. rewrite Hb in Hr.
  apply (resolves_no_cycle D Hnd _ Hr y m eq_refl).
  eapply clos_rt_t; [exact Hyx | apply t_step; exact Hxy].
Qed.

(* the chain lemma: with the names passed so far in `snaps`, the remaining fuel is enough, the
   contractivity test answers true and Unfold reaches a structural type *)
Lemma chain_ok D : NoDup (names D) -> Contractive D -> (forall d, In d D -> LabelsOK D (td_body d)) ->
  forall fuel snaps d, In d D ->
    NoDup snaps -> incl snaps (names D) ->
    (forall z, In z snaps -> clos_refl_trans string (alias_step D) z (td_name d)) ->
    S (length D) <= fuel + length snaps ->
    is_contractive fuel D (td_body d) snaps = Ok true /\
    exists T, unfold fuel D (td_body d) = Ok (Some T) /\ is_name T = false.
Proof.
  intros Hnd Hc Hl. induction fuel as [|f IH]; intros snaps d Hin Hnds Hincl Hpath Hlen.
  - pose proof (snaps_bound _ _ Hnds Hincl). cbn in Hlen. lia.
  - pose proof (Hl d Hin) as Hlab.
    destruct (td_body d) as [y m| | | | | | | ] eqn:Eb; cbn;
      try (split; [reflexivity | eexists; split; [reflexivity | reflexivity]]).
    assert (Hstep : alias_step D (td_name d) y) by (econstructor; eauto).
    assert (Hnot : ~ In y snaps).
    { intros Hy. apply (Hc y). eapply clos_rt_t; [apply Hpath; exact Hy | apply t_step; exact Hstep]. }
    inversion Hlab as [? ? Hdef| | | | | | |]; subst.
    apply tlookup_defined in Hdef as [d' El].
    destruct (tlookup_some _ _ _ El) as [Hin' Hn'].
    rewrite (proj2 (str_mem_false y snaps) Hnot), El.
    apply IH; auto.
    + constructor; auto.
    + intros z [<-|Hz]; auto. rewrite <- Hn'. apply in_map; auto.
    + intros z [<-|Hz]; rewrite Hn'; [apply rt_refl|].
      eapply rt_trans; [apply Hpath; exact Hz | apply rt_step; exact Hstep].
    + cbn. lia.
Qed.

(* ------------------------------------------------------------------ the theorems of C10 *)
Lemma modes_ok_proper D :
  (forall m t, ModesOK D m t -> proper m = true /\ mode_of t = m) /\ (forall m b, BrsModesOK D m b -> True).
Proof. apply ModesOK_mut; cbn; intros; auto. Qed.

Theorem wf_sound_proof D : sanity_typedefs D = Ok None -> WellFormed D.
Proof.
  intros H. apply sanity_typedefs_ok in H as (Hnd & Hw & Hm & Hc). constructor; auto.
  - intros d Hin. apply check_wf_sound; auto.
  - apply contractive_sound; auto.
  - intros d Hin. apply check_wf_sound; auto.
  - intros d Hin. destruct (check_wf_sound _ _ (Hw d Hin)) as [_ Hmo].
    destruct (proj1 (modes_ok_proper D) _ _ Hmo) as [Hp _].
    symmetry. apply (mode_eqb_proper _ _ Hp). apply Hm; auto.
Qed.

Theorem wf_complete_proof D : WellFormed D -> sanity_typedefs D = Ok None.
Proof.
  intros [Hnd Hl Hc Hm Hd]. apply sanity_typedefs_ok. repeat split; auto.
  - intros d Hin. apply check_wf_complete; auto. split; auto.
  - intros d Hin. destruct (proj1 (modes_ok_proper D) _ _ (Hm d Hin)) as [Hp _].
    apply (mode_eqb_proper _ _ Hp). symmetry. apply Hd; auto.
  - intros d Hin. apply (chain_ok D Hnd Hc Hl); auto.
    + constructor.
    + intros z [].
    + intros z [].
    + unfold contractive_fuel; cbn; lia.
Qed.

Theorem unfold_terminates_proof D : WellFormed D ->
  forall d, In d D -> forall m, exists T,
    unfold (unfold_fuel D) D (TName (td_name d) m) = Ok (Some T) /\ is_name T = false.
Proof.
  intros [Hnd Hl Hc Hm _] d Hin m. unfold unfold_fuel. cbn. rewrite (tlookup_nodup _ _ Hnd Hin).
  apply (chain_ok D Hnd Hc Hl (length D) [td_name d]); auto.
  - constructor; [intros [] | constructor].
  - intros z [<-|[]]. apply in_map; auto.
  - intros z [<-|[]]. apply rt_refl.
  - cbn. lia.
Qed.

(* annotation types (let / prc / assuming / typed cut): SanityChecksType *)
Theorem wf_types_sound_proof D ts : sanity_types D ts = None -> Forall (WellFormedType D) ts.
Proof. apply sanity_types_sound. Qed.

Theorem wf_types_complete_proof D ts :
  NoDup (names D) -> Forall (WellFormedType D) ts -> sanity_types D ts = None.
Proof. apply sanity_types_complete. Qed.
