(* TcShape.v — the typechecker returns its input with type annotations filled in: erasing the
   annotations (nty) of all names gives back the same term.  Everything the interpreter's linearity
   depends on (paths of client keys, the core fragment, channels) is invariant under erasure. *)
From stdpp Require Import gmap strings.
Require Import Grits.Base Grits.ModeDefs Grits.Modes Grits.STypes Grits.Forms Grits.Subst Grits.Infer
               Grits.TcDeps Grits.Expand Grits.Tc Grits.TcTop Grits.proofs.TcLemmas Grits.proofs.TcUnfold Grits.proofs.TypingSound.

Definition erase_name (n : name) : name := mkName (ident n) (is_self n) (pol n) None (chan n).

Fixpoint erase_form (f : form) : form :=
  let e := erase_name in
  match f with
  | FSend a b c => FSend (e a) (e b) (e c)
  | FRecv p c fr k => FRecv (e p) (e c) (e fr) (erase_form k)
  | FSel a l c => FSel (e a) l (e c)
  | FCase fr bs => FCase (e fr) (erase_brs bs)
  | FNew x b k => FNew (e x) (erase_form b) (erase_form k)
  | FClose c => FClose (e c)
  | FWait c k => FWait (e c) (erase_form k)
  | FFwd a b d => FFwd (e a) (e b) d
  | FSplit x y fr k => FSplit (e x) (e y) (e fr) (erase_form k)
  | FCall fn args _ => FCall fn (map e args) None
  | FCast a c => FCast (e a) (e c)
  | FShift x fr k => FShift (e x) (e fr) (erase_form k)
  | FDrop c k => FDrop (e c) (erase_form k)
  | FPrint l k => FPrint l (erase_form k)
  end
with erase_brs (b : branches) : branches :=
  match b with
  | BrNil => BrNil
  | BrCons l p k r => BrCons l (erase_name p) (erase_form k) (erase_brs r)
  end.

Lemma erase_set_nty n t : erase_name (set_nty n t) = erase_name n.
Proof. reflexivity. Qed.

Section Shape.
Variable D : tenv.
Variable Sg : sigma.

Ltac crunch H :=
  repeat first
    [ step H
    | match type of H with
      | type_mismatch ?t _ = TOk _ => destruct t; discriminate H
      | (if ?b then _ else _) = TOk _ => destruct b eqn:?; try discriminate H
      | (let '(_, _) := ?x in _) = TOk _ => destruct x eqn:?
      | match ?x with _ => _ end = TOk _ => destruct x eqn:?; try discriminate H
      end ].

Lemma tc_args_erase : forall args g params args' g',
  tc_args D g args params = TOk (args', g') -> map erase_name args' = map erase_name args.
Proof.
  induction args as [|a ar IH]; intros g params args' g' H; cbn [tc_args] in H.
  - by injection H as <- <-.
  - destruct params as [|p pr]; [discriminate|].
    crunch H. injection H as <- <-. simpl. f_equal. eapply IH; eauto.
Qed.

Lemma tc_form_erase_mut :
  (forall f g sh pty f', tc_form D Sg g sh pty f = TOk f' -> erase_form f' = erase_form f) /\
  (forall b, (forall g bs seen b' seen', tc_branches_provider D Sg g bs seen b = TOk (b', seen') -> erase_brs b' = erase_brs b) /\
             (forall g sh pty bs seen b' seen', tc_branches_client D Sg g sh pty bs seen b = TOk (b', seen') -> erase_brs b' = erase_brs b)).
Proof.
  apply form_branches_ind.
  all: intros.
  all: try match goal with
    | H : tc_form _ _ _ _ _ (FCase _ _) = TOk _ |- _ => rewrite tc_case_eq in H
    | H : tc_form _ _ _ _ _ (FNew _ ?b _) = TOk _ |- _ =>
        destruct (call_or_not b) as [(fn0 & ar0 & o0 & ->)|NC];
        [rewrite tc_new_call_eq in H; unfold tc_new_call in H
        |rewrite (tc_new_ax_eq _ _ _ _ _ _ _ _ NC) in H; unfold tc_new_ax in H]; cbv zeta in H
    | H : tc_form _ _ _ _ _ _ = TOk _ |- _ => cbn [tc_form] in H
    end.
  all: try match goal with H : _ = TOk _ |- _ => crunch H;
         try (injection H as <-; simpl; f_equal; eauto using tc_args_erase) end.
  - destruct H as [H1 _]. eauto.
  - destruct H as [_ H2]. eauto.
  - f_equal. eauto using tc_args_erase.
  - split; intros; cbn in *; match goal with H : TOk _ = TOk _ |- _ => by injection H as <- <- end.
  - rename H into IHk, H0 into IHr. split; intros * H2.
    + rewrite tc_brsR_cons in H2. crunch H2. injection H2 as <- <-. destruct IHr as [H1 _]. simpl. f_equal; eauto.
    + rewrite tc_brsL_cons in H2. crunch H2. injection H2 as <- <-. destruct IHr as [_ H1]. simpl. f_equal; eauto.
Qed.

Lemma tc_form_erase f g sh pty f' : tc_form D Sg g sh pty f = TOk f' -> erase_form f' = erase_form f.
Proof. apply tc_form_erase_mut. Qed.
End Shape.
