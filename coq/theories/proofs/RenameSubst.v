(* proofs/RenameSubst.v — C14: Name.Equal, Name.Substitute, Form.Substitute and FreeNames commute with
   a renaming whose channel-identifier map is injective and fixes "" (the identifier of self).
   `subst_rn` is the statement "substitution commutes with an injective identifier renaming"; it holds
   for ALL forms (no scoping hypothesis), and is what makes a program and its injectively renamed
   version run in lock step (proofs/RenameRun.v). *)
Require Import Grits.Base Grits.ModeDefs Grits.STypes Grits.Forms Grits.Subst
               Grits.spec.Rename Grits.proofs.RenameTypes.

Section S.
Variable r : renaming.
Hypothesis Hc : injective (rc r).
Hypothesis Hc0 : rc r "" = "".

Notation rN := (rn_name r).
Notation rF := (rn_form r).
Notation rB := (rn_branches r).

Lemma initialized_rn n : initialized (rN n) = initialized n.
Proof. reflexivity. Qed.

Lemma name_equal_rn a b : name_equal (rN a) (rN b) = name_equal a b.
Proof. unfold name_equal. rewrite !initialized_rn. cbn [rn_name ident chan]. now rewrite (eqb_inj _ Hc). Qed.

Lemma eqb_empty_rn x : String.eqb (rc r x) "" = String.eqb x "".
Proof. rewrite <- Hc0 at 1. apply (eqb_inj _ Hc). Qed.

Lemma name_subst_rn old new n : name_subst (rN old) (rN new) (rN n) = rN (name_subst old new n).
Proof.
  unfold name_subst. rewrite !initialized_rn. cbn [rn_name ident chan is_self pol nty].
  rewrite eqb_empty_rn, (eqb_inj _ Hc).
  destruct (initialized n && chan_eqb (chan n) (chan old)).
  - unfold rn_name; cbn. destruct (String.eqb (ident new) ""); reflexivity.
  - destruct (negb (initialized n) && negb (initialized old) && String.eqb (ident n) (ident old)); reflexivity.
Qed.

Lemma subst_rn old new :
  (forall f, subst (rN old) (rN new) (rF f) = rF (subst old new f)) /\
  (forall b, subst_brs (rN old) (rN new) (rB b) = rB (subst_brs old new b)).
Proof.
  apply form_branches_ind; intros; cbn [subst subst_brs rn_form rn_branches];
    rewrite ?name_subst_rn, ?name_equal_rn, ?H, ?H0;
    repeat match goal with |- context [if ?c then _ else _] => destruct c end;
    rewrite ?H, ?H0; try reflexivity.
  f_equal. rewrite !map_map. apply map_ext. intros a. apply name_subst_rn.
Qed.
Lemma subst_rn1 old new f : subst (rN old) (rN new) (rF f) = rF (subst old new f).
Proof. apply subst_rn. Qed.

(* ---------- free names ---------- *)
Lemma append_if_not_self_rn n l : append_if_not_self (rN n) (map rN l) = map rN (append_if_not_self n l).
Proof. unfold append_if_not_self. cbn [rn_name is_self]. destruct (is_self n); [reflexivity|]. now rewrite map_app. Qed.
Lemma remove_bound_rn l b : remove_bound (map rN l) (rN b) = map rN (remove_bound l b).
Proof.
  unfold remove_bound. induction l as [|n l IH]; cbn [map filter]; [reflexivity|].
  rewrite name_equal_rn. destruct (negb (name_equal n b)); cbn [map]; now rewrite IH.
Qed.
Lemma name_exists_rn l c : name_exists (map rN l) (rN c) = name_exists l c.
Proof. unfold name_exists. induction l as [|n l IH]; cbn [map existsb]; [reflexivity|]. now rewrite name_equal_rn, IH. Qed.
Lemma merge_names_rn a b : merge_names (map rN a) (map rN b) = map rN (merge_names a b).
Proof.
  revert a; induction b as [|n b IH]; intros a; cbn [map merge_names]; [reflexivity|].
  rewrite name_exists_rn. destruct (name_exists a n); [apply IH|].
  rewrite <- IH. now rewrite map_app.
Qed.
Lemma contained_in_rn n l : contained_in (rN n) (map rN l) = contained_in n l.
Proof. unfold contained_in. induction l as [|j l IH]; cbn [map existsb]; [reflexivity|]. now rewrite name_equal_rn, IH. Qed.

Lemma free_names_rn :
  (forall f, free_names (rF f) = map rN (free_names f)) /\
  (forall b acc, free_names_brs (map rN acc) (rB b) = map rN (free_names_brs acc b)).
Proof.
  apply form_branches_ind; intros; cbn [free_names free_names_brs rn_form rn_branches];
    rewrite ?H, ?H0;
    change (@nil name) with (map rN []);
    rewrite ?append_if_not_self_rn, ?remove_bound_rn, ?merge_names_rn, ?append_if_not_self_rn, ?merge_names_rn; try reflexivity.
  - (* case *) apply H.
  - (* call *) change (map rN (@nil name)) with (@nil name).
    enough (G : forall acc, fold_left (fun acc n => append_if_not_self n acc) (map rN args) (map rN acc) =
                            map rN (fold_left (fun acc n => append_if_not_self n acc) args acc)) by apply (G []).
    induction args as [|a args IH]; intros acc; cbn [map fold_left]; [reflexivity|].
    rewrite append_if_not_self_rn. apply IH.
  - (* branch *) apply H0.
Qed.
Lemma free_names_rn1 f : free_names (rF f) = map rN (free_names f).
Proof. apply free_names_rn. Qed.

Lemma has_continuation_rn f : has_continuation (rF f) = has_continuation f.
Proof. destruct f; reflexivity. Qed.
End S.
