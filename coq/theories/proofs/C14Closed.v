(* proofs/C14Closed.v — C14 without the key hypothesis: for programs all of whose types are
   syntactically what the parser produces (spec/SynOk.prog_syn_ok: names and labels are LABEL lexemes,
   choices non-empty), before and after the renaming, EqualType's printed memo keys of renamed types
   collide exactly when the original keys do (proofs/RenameKeys.v, from C15's print_injective), so
   verdict and outcome are invariant under every admissible renaming.
   The invariant threaded through the checker (RenameTc.v): every type that reaches EqualType has
   lexeme names/labels, non-empty choices and PROPER modes — the last because every type passes
   CheckTypeWellFormedness (sanity_typedefs / sanity_types / the check of a cut's annotation) before
   it is compared. *)
From stdpp Require Import gmap strings.
Require Import Grits.Base Grits.ModeDefs Grits.Modes Grits.STypes Grits.Forms Grits.Subst Grits.TcDeps Grits.Expand.
Require Import Grits.Tc Grits.TcTop Grits.Runtime Grits.EqualWF Grits.spec.SynOk.
Require Import Grits.spec.Rename Grits.proofs.RenameTypes Grits.proofs.RenameSubst Grits.proofs.RenameTc
               Grits.proofs.RenameExt Grits.proofs.RenameRun Grits.proofs.RenameKeys Grits.proofs.C14Main.

Section Syn.
Variable r : renaming.
Notation lT := (lexT r).
Notation lL := (lexL r).

Lemma syn_okt :
  (forall t, syn_ok t = true -> syn_ok (rn_sty r t) = true -> okt lT lL anym True t) /\
  (forall b, syn_ok_brs b = true -> syn_ok_brs (rn_brs r b) = true -> okbrs lT lL anym True b).
Proof.
  apply sty_brs_ind; intros; cbn [syn_ok syn_ok_brs rn_sty rn_brs okt okbrs] in *; unfold anym, lexT, lexL;
    rewrite ?(brs_len_rn r), ?andb_true_iff, ?negb_true_iff, ?Nat.eqb_neq in *;
    repeat match goal with H : _ /\ _ |- _ => destruct H end; repeat split; auto.
Qed.
Lemma syn_okot t : opt_syn t = true -> opt_syn (rn_osty r t) = true -> okot lT lL anym True t.
Proof. destruct t as [t|]; cbn; [apply syn_okt | auto]. Qed.
Lemma syn_oknames ns : forallb name_syn ns = true -> forallb name_syn (map (rn_name r) ns) = true -> oknamesr lT lL True ns.
Proof.
  unfold oknamesr. induction ns as [|n ns IH]; cbn [map forallb]; intros H1 H2; [constructor|].
  apply andb_prop in H1, H2. destruct H1, H2. constructor; [|apply IH; assumption]. apply syn_okot; assumption.
Qed.
Lemma syn_okform :
  (forall f, form_syn f = true -> form_syn (rn_form r f) = true -> okform lT lL True f) /\
  (forall b, branches_syn b = true -> branches_syn (rn_branches r b) = true -> okbranches lT lL True b).
Proof.
  apply form_branches_ind; intros; cbn [form_syn branches_syn rn_form rn_branches okform okbranches] in *;
    rewrite ?andb_true_iff in *; repeat match goal with H : _ /\ _ |- _ => destruct H end; repeat split; auto.
  apply syn_okot; assumption.
Qed.

Theorem syn_okprog p : prog_syn_ok p = true -> prog_syn_ok (rn_program r p) = true -> okprog lT lL True p.
Proof.
  unfold prog_syn_ok, okprog. cbn [rn_program p_types p_funs p_procs p_assumed]. rewrite !andb_true_iff.
  intros (((H1 & H2) & H3) & H4) (((G1 & G2) & G3) & G4). repeat split.
  - unfold env_syn, rn_tenv in *. rewrite forallb_forall in H1, G1. intros d Hd. apply syn_okt; [apply H1, Hd|].
    apply (G1 (rn_tdef r d)). apply in_map, Hd.
  - rewrite forallb_forall in H2, G2. apply Forall_forall. intros f Hf. specialize (H2 f Hf).
    specialize (G2 (rn_fundef r f) (in_map _ _ _ Hf)). unfold fun_syn in *. cbn [rn_fundef fn_type fn_params fn_body] in G2.
    rewrite !andb_true_iff in *. destruct H2 as ((? & ?) & ?), G2 as ((? & ?) & ?). repeat split.
    + apply syn_okot; assumption.
    + apply syn_oknames; assumption.
    + apply syn_okform; assumption.
  - rewrite forallb_forall in H3, G3. apply Forall_forall. intros q Hq. specialize (H3 q Hq).
    specialize (G3 (rn_procdef r q) (in_map _ _ _ Hq)). unfold proc_syn in *. cbn [rn_procdef pr_type pr_providers pr_body] in G3.
    rewrite !andb_true_iff in *. destruct H3 as ((? & ?) & ?), G3 as ((? & ?) & ?). split.
    + apply syn_okot; assumption.
    + apply syn_okform; assumption.
  - apply syn_oknames; assumption.
Qed.
End Syn.

(* ---------------------------------------------------------------- verdict, closed *)
Theorem verdict_invariant_closed_strong r p : admissible r p ->
  prog_syn_ok p = true -> prog_syn_ok (rn_program r p) = true ->
  exists r', ginjective r' /\ agree r' r (program_atoms p) /\ (forall x, rp r' x = rp r x) /\
             typecheck (rn_program r p) = rn_verdict r' (typecheck p).
Proof.
  intros Ha S1 S2. destruct (globalize_spec r p Ha) as ((Hc & Hc0 & Hf & Ht & Hl) & Ep & Hag).
  exists (globalize r p). split; [repeat split; assumption|]. split; [exact Hag|]. split; [reflexivity|].
  rewrite <- Ep in S2 |- *.
  apply (typecheck_rn (globalize r p) Hc Hc0 Hf Ht Hl (lexT (globalize r p)) (lexL (globalize r p)) True).
  - apply (key_faithful_lex (globalize r p) Ht Hl).
  - apply syn_okprog; assumption.
Qed.

Theorem verdict_invariant_closed r p : admissible r p ->
  prog_syn_ok p = true -> prog_syn_ok (rn_program r p) = true ->
  verdict_class (typecheck (rn_program r p)) = verdict_class (typecheck p).
Proof.
  intros Ha S1 S2. destruct (verdict_invariant_closed_strong r p Ha S1 S2) as (r' & _ & _ & _ & E).
  rewrite E. destruct (typecheck p); reflexivity.
Qed.

(* ---------------------------------------------------------------- outcome, closed *)
Theorem outcome_invariant_closed r p p' : admissible r p ->
  prog_syn_ok p = true -> prog_syn_ok (rn_program r p) = true -> typecheck p = Accept p' ->
  exists q', typecheck (rn_program r p) = Accept q' /\
    forall fuel pick md,
      kind_of (run_program fuel pick md q') = kind_of (run_program fuel pick md p') /\
      labels (final_cfg (run_program fuel pick md q')) = map (rp r) (labels (final_cfg (run_program fuel pick md p'))) /\
      live md (p_types q') (final_cfg (run_program fuel pick md q')) = live md (p_types p') (final_cfg (run_program fuel pick md p')).
Proof.
  intros Ha S1 S2 Hp. destruct (verdict_invariant_closed_strong r p Ha S1 S2) as (r' & (Hc & Hc0 & Hf & Ht & Hl) & _ & Hrp & E).
  rewrite Hp in E. cbn [rn_verdict] in E. exists (rn_program r' p'). split; [exact E|].
  intros fuel pick md.
  destruct (run_observables r' Hc Hc0 Hf Ht Hl fuel pick md p') as (H1 & H2 & H3 & _).
  split; [exact H1|]. split; [|exact H3]. rewrite H2. apply map_ext. exact Hrp.
Qed.
