(* SaxTyped.v — C04, results half, WITHOUT a premise about the configurations a run visits.
   The invariant of the core fragment proved by C01 / C03 (proofs/TopoStep.v `Inv` = cfg_typed + Topo
   + LinCfg + CoreCfg + ns_ok; proofs/TopoReach.v `inv_reachable`) implies the local invariant of the
   SAX refinement (proofs/SaxRefine.v `Inv`) at every reachable configuration:
     * `typed_names`        every channel occurring in a typed body is in Δ;
     * `tres_typed_topo`    the residue `SaxInv.tres`: a FWD request is typed at a NEGATIVE type, so the
                            typed receiver (`typed_action`) is the provider waiting on its own channel,
                            and it is not a forward (a forward on its own channel would refer to the
                            channel it provides: excluded by the rank of Topo); nobody receives from a
                            closed channel (`topo_closed_unused`);
     * `inv_sax_inv`        one initialised provider, head form in the fragment (CoreCfg), fresh
                            identifiers at a cut (ct_dom + ns_ok), well-formed buffered messages
                            (msg_typed + CoreCfg).
   Result: `prints_admitted_parsed` — for every parsed, accepted, closed program whose initial
   configuration passes the decidable check `init_linear`, every Async run prints a
   label sequence that spec/Sax.v prints from the program's own SAX initial configuration. *)
From stdpp Require Import gmap strings.
Require Import Grits.Base Grits.ModeDefs Grits.Modes Grits.STypes Grits.Forms Grits.Subst Grits.TcDeps Grits.Expand
               Grits.Tc Grits.TcTop Grits.Runtime.
Require Import Grits.spec.RtTyping Grits.spec.Topo Grits.spec.SynOk Grits.proofs.RuntimeFacts Grits.proofs.RtSafety
               Grits.proofs.RtInit Grits.proofs.RtTheorems Grits.proofs.AsyncSync Grits.proofs.TopoLin Grits.proofs.TopoStep
               Grits.proofs.TopoReach Grits.proofs.InitLinear Grits.proofs.RtTcSyn Grits.proofs.RtTcBisim
               Grits.proofs.RtTcSoundTop Grits.proofs.ParseSynOk Grits.proofs.ParseRaw Grits.proofs.RtStaticCheck.
Require Import Grits.spec.Sax Grits.proofs.Causality Grits.proofs.SaxRefine Grits.proofs.SaxInv.

(* a8's core fragment is the linear fragment of SaxRefine *)
Lemma core_lin_mut : (forall f, core_form f = lin_form f) /\ (forall b, core_brs b = lin_brs b).
Proof. apply form_branches_ind; intros; cbn; congruence. Qed.
Lemma core_lin f : core_form f = lin_form f.
Proof. apply core_lin_mut. Qed.

Section SaxTyped.
Variable D : tenv.
Variable F : list fundef.
Variable teq : sty -> sty -> Prop.
Hypothesis Hteq : teq_laws D teq.
Hypothesis HF : funs_typed D F teq.

(* ------------------------------------------------------------------ the channels of a typed body are typed *)
Definition names_in (Δ : gmap cid sty) (ns : list name) : Prop :=
  forall n k, n ∈ ns -> chan n = Some k -> is_Some (Δ !! k).

Lemma client_in Δ Γ sh n t k : client_ty teq Δ Γ sh n t -> chan n = Some k -> is_Some (Δ !! k).
Proof. intros (_ & _ & H) Hk. rewrite Hk in H. destruct H as (t' & H & _). eauto. Qed.
Lemma prov_name_in sh rs n k : prov_name sh rs n -> chan n = Some k -> False.
Proof. intros [H _] Hk. congruence. Qed.
Lemma binder_in n k : binder n -> chan n = Some k -> False.
Proof. intros [H _] Hk. congruence. Qed.

Lemma args_in Δ Γ sh args ps : args_ok teq Δ Γ sh args ps -> names_in Δ args.
Proof.
  induction 1 as [|a p args ps (t & _ & Hc) _ IH]; intros n k Hn Hk; [by apply elem_of_nil in Hn|].
  apply elem_of_cons in Hn as [->|Hn]; [by eapply client_in|by eapply IH].
Qed.

Ltac name_leaf :=
  match goal with
  | H : prov_name _ _ ?n, Hk : chan ?n = Some _ |- _ => by destruct (prov_name_in _ _ _ _ H Hk)
  | H : binder ?n, Hk : chan ?n = Some _ |- _ => by destruct (binder_in _ _ H Hk)
  | H : pbinder ?n, Hk : chan ?n = Some _ |- _ => by (unfold pbinder in H; congruence)
  | H : client_ty _ _ _ _ ?n _, Hk : chan ?n = Some _ |- _ => by eapply (client_in _ _ _ _ _ _ H Hk)
  end.

Lemma typed_names_mut Δ :
  (forall Γ sh rs s f, typed D F teq Δ Γ sh rs s f -> names_in Δ (form_names f)) /\
  (forall Γ rs bs b, typed_brs_p D F teq Δ Γ rs bs b -> names_in Δ (brs_names b)) /\
  (forall Γ sh rs s bs b, typed_brs_c D F teq Δ Γ sh rs s bs b -> names_in Δ (brs_names b)).
Proof.
  apply typed_mutind; intros; intros n0 k0 Hn Hk; cbn in Hn; split_in; try name_leaf.
  all: try match goal with IH : names_in _ ?l, H : _ ∈ ?l |- _ => by eapply IH end.
  - (* call *)
    match goal with H : _ \/ _ |- _ => destruct H as [[_ Ha]|(a0 & rest & -> & _ & Hp & Ha)] end.
    + by eapply args_in.
    + apply elem_of_cons in Hn as [->|Hn]; [by destruct (prov_name_in _ _ _ _ Hp Hk)|by eapply args_in].
Qed.

Lemma typed_cids Δ Γ sh rs s f k : typed D F teq Δ Γ sh rs s f -> k ∈ form_cids f -> is_Some (Δ !! k).
Proof.
  intros Ht Hk. unfold form_cids in Hk. apply elem_of_flat_map in Hk as (n & Hn & Hk).
  unfold name_cids in Hk. destruct (chan n) as [c|] eqn:Hc; [|by apply elem_of_nil in Hk].
  apply elem_of_list_singleton in Hk as ->. by eapply (proj1 (typed_names_mut Δ)).
Qed.

(* ------------------------------------------------------------------ the residue of the typing *)
Theorem tres_typed_topo Δ c : cfg_typed D F teq Δ c -> Topo c -> tres D c.
Proof.
  intros Hc Ht self p k st Hp Hact Hk.
  destruct (ch_buf st) as [m|] eqn:Hb.
  - intros Hr.
    pose proof (typed_action D F teq Hteq HF Δ p (ct_procs _ _ _ _ _ Hc self p Hp)) as Hv. rewrite Hact in Hv.
    inversion Hv as [|k' _ (T & HT & Hside) _| |]; subst.
    destruct (ct_msgs _ _ _ _ _ Hc k st m Hk Hb) as (T' & HT' & Hm). rewrite Hr in Hm. destruct Hm as (Hneg & _).
    assert (T' = T) by congruence. subst T'.
    destruct Hside as [[Hown _]|[_ Hpos]]; [|by destruct (pol_unique D T Hpos Hneg)].
    destruct Hown as (n & Hpv & Hn). split.
    + unfold self_chan, prov0. by rewrite Hpv.
    + destruct (pr_body0 p) eqn:Hbody; try done. exfalso.
      (* a forward that listens on the channel it provides *)
      assert (chan from = Some k) as Hfrom.
      { unfold action_of in Hact. rewrite Hbody in Hact. cbn in Hact.
        destruct (negb (is_self to)); [done|].
        destruct (fwd_polarity D from) as [[| |]|w|w]; try done; destruct (chan from); by simplify_eq. }
      destruct (topo_rank c Ht) as (rk & M & _ & Hlt).
      assert (rk k < rk k)%nat; [|lia].
      apply (Hlt (OProc self p) k k Hp).
      * cbn. rewrite Hpv. cbn. rewrite Hn. apply elem_of_list_here.
      * cbn. rewrite Hbody. cbn. apply elem_of_app. right. by apply name_chans_elem.
  - eapply (topo_closed_unused Async D c eq_refl Ht self p k st Hp); eauto.
Qed.

(* ------------------------------------------------------------------ the channels of the abstraction are typed or are buffers *)
Lemma msg_obj_typed_cids Δ k m o x :
  msg_typed D teq Δ k m -> (m_rule m = RFWD -> exists n, m_provs m = [n]) ->
  o ∈ msg_obj k m -> x ∈ obj_cids o -> x = k \/ is_Some (Δ !! x).
Proof.
  intros (T & HT & Hm) Hfw Ho Hx. unfold msg_obj in Ho.
  assert (forall n A y, chan_ty teq Δ n A -> y ∈ name_cids n -> is_Some (Δ !! y)) as Hct.
  { intros n A y Hn Hy. unfold name_cids in Hy. destruct (chan n) eqn:Hcn; [|by apply elem_of_nil in Hy].
    apply elem_of_list_singleton in Hy as ->. by eapply client_in. }
  assert (forall n A d, prov_ty teq Δ n A -> chan n = Some d -> is_Some (Δ !! d)) as Hpt.
  { intros n A d (c0 & t' & Hc0 & Ht' & _) Hd. assert (c0 = d) by congruence. subst. eauto. }
  destruct (m_rule m) eqn:Hrule; cbn in Ho.
  - destruct Hm as (A & B & md & _ & H1 & H2). apply elem_of_list_singleton in Ho as ->. cbn in Hx.
    rewrite elem_of_cons, !elem_of_app, elem_of_nil in Hx. destruct Hx as [->|[Hx|[Hx|[]]]]; eauto.
  - destruct Hm as (A & B & md & _ & H1 & H2). destruct (chan (m_c2 m)) as [d|] eqn:Hd; [|by apply elem_of_nil in Ho].
    apply elem_of_list_singleton in Ho as ->. cbn in Hx.
    rewrite !elem_of_cons, elem_of_app, elem_of_nil in Hx. destruct Hx as [->|[->|[Hx|[]]]]; eauto.
  - apply elem_of_list_singleton in Ho as ->. cbn in Hx. apply elem_of_list_singleton in Hx. auto.
  - destruct Hm as (fm & tm & A & _ & H1 & _). apply elem_of_list_singleton in Ho as ->. cbn in Hx.
    rewrite elem_of_cons, elem_of_app, elem_of_nil in Hx. destruct Hx as [->|[Hx|[]]]; eauto.
  - destruct Hm as (fm & tm & A & _ & H1). destruct (chan (m_c1 m)) as [d|] eqn:Hd; [|by apply elem_of_nil in Ho].
    apply elem_of_list_singleton in Ho as ->. cbn in Hx.
    rewrite !elem_of_cons, elem_of_nil in Hx. destruct Hx as [->|[->|[]]]; eauto.
  - destruct Hm as (bs & md & A & _ & _ & H1 & _). apply elem_of_list_singleton in Ho as ->. cbn in Hx.
    rewrite elem_of_cons, elem_of_app, elem_of_nil in Hx. destruct Hx as [->|[Hx|[]]]; eauto.
  - destruct Hm as (bs & md & A & _ & _ & H1). destruct (chan (m_c1 m)) as [d|] eqn:Hd; [|by apply elem_of_nil in Ho].
    apply elem_of_list_singleton in Ho as ->. cbn in Hx.
    rewrite !elem_of_cons, elem_of_nil in Hx. destruct Hx as [->|[->|[]]]; eauto.
  - destruct Hm as (_ & _ & Hall). destruct (Hfw eq_refl) as [n Hpv]. rewrite Hpv in Ho, Hall.
    destruct (chan n) as [a|] eqn:Ha; [|by apply elem_of_nil in Ho].
    apply elem_of_list_singleton in Ho as ->. cbn in Hx.
    rewrite !elem_of_cons, elem_of_nil in Hx. destruct Hx as [->|[->|[]]]; [|by auto].
    right. apply Forall_cons_iff in Hall as [H1 _]. eauto.
  - apply elem_of_list_singleton in Ho as ->. cbn in Hx. apply elem_of_list_singleton in Hx. auto.
Qed.

Lemma alpha_cids_typed_gen Δ c x :
  cfg_typed D F teq Δ c ->
  (forall k st m, chans c !! k = Some st -> ch_buf st = Some m -> m_rule m = RFWD -> exists n, m_provs m = [n]) ->
  (forall q pr, procs c !! q = Some pr -> exists n, pr_provs pr = [n]) ->
  x ∈ cfg_cids (α c) -> is_Some (chans c !! x).
Proof.
  intros Hc Hcc Hps. unfold cfg_cids, α. rewrite elem_of_flat_map. intros (o & Ho & Hx).
  apply elem_of_app in Ho as [Ho|Ho].
  - unfold procs_objs in Ho. apply elem_of_flat_map in Ho as ([q pr] & Hq & Ho). cbn in Ho.
    apply elem_of_map_to_list in Hq. destruct (ct_procs _ _ _ _ _ Hc q pr Hq) as (s & rs & _ & Hprov & Hty).
    destruct (Hps q pr Hq) as [n Hpv]. unfold proc_obj, pobj in Ho. rewrite Hpv in Ho. cbn in Ho.
    destruct (chan n) as [a|] eqn:Hn; [|by apply elem_of_nil in Ho]. apply elem_of_list_singleton in Ho as ->.
    apply (ct_dom _ _ _ _ _ Hc).
    apply obj_cids_obj in Hx as [->|Hx]; [|by eapply typed_cids].
    rewrite Hpv in Hprov. apply Forall_cons_iff in Hprov as [(c0 & t' & Hc0 & Ht' & _) _]. assert (c0 = a) by congruence. subst. eauto.
  - unfold chans_objs in Ho. apply elem_of_flat_map in Ho as ([k st] & Hk & Ho). cbn in Ho.
    apply elem_of_map_to_list in Hk. unfold chan_obj in Ho. destruct (ch_buf st) as [m|] eqn:Hb; [|by apply elem_of_nil in Ho].
    destruct (msg_obj_typed_cids Δ k m o x (ct_msgs _ _ _ _ _ Hc k st m Hk Hb) (Hcc k st m Hk Hb) Ho Hx) as [->|Hd]; [eauto|].
    by apply (ct_dom _ _ _ _ _ Hc).
Qed.

Lemma alpha_cids_typed Δ c x :
  cfg_typed D F teq Δ c -> CoreCfg c -> x ∈ cfg_cids (α c) -> is_Some (chans c !! x).
Proof.
  intros Hc Hcc. apply (alpha_cids_typed_gen Δ c x Hc).
  - intros k st m Hk Hb. by destruct (cc_msgs c Hcc k st m Hk Hb).
  - intros q pr Hq. by destruct (cc_procs c Hcc q pr Hq).
Qed.

Lemma core_head b : core_form b = true -> head_lin b.
Proof. rewrite core_lin. apply lin_head. Qed.

(* ------------------------------------------------------------------ the invariant of the core fragment gives the local invariant *)
Theorem inv_sax_inv c : TopoStep.Inv D F teq c -> SaxRefine.Inv D c.
Proof.
  intros [[Δ Hc] Ht Hl Hcc Hns] self p Hp.
  destruct (cc_procs c Hcc self p Hp) as [Hcore [n Hpv]].
  destruct (Hns self p Hp) as [Hnsp Hnsc].
  split_and!.
  - destruct (ct_procs _ _ _ _ _ Hc self p Hp) as (s & rs & _ & Hprov & _). rewrite Hpv in Hprov.
    apply Forall_cons_iff in Hprov as [(c0 & t' & Hc0 & _) _]. eauto.
  - by apply core_head.
  - intros _. split_and!.
    + intros Hin. apply (alpha_cids_typed Δ c _ Hc Hcc) in Hin. specialize (Hnsc _ Hin (pr_next p) [] eq_refl). lia.
    + destruct (chans c !! (self ++ [pr_next p])) eqn:Hk; [|done]. exfalso.
      assert (is_Some (chans c !! (self ++ [pr_next p]))) as Hin by eauto.
      specialize (Hnsc _ Hin (pr_next p) [] eq_refl). lia.
    + destruct (procs c !! (self ++ [(S (pr_next p) + 1)%nat])) eqn:Hq; [|done]. exfalso.
      assert (is_Some (procs c !! (self ++ [(S (pr_next p) + 1)%nat]))) as Hin by eauto.
      specialize (Hnsp _ Hin _ [] eq_refl). lia.
  - intros k st Hact Hk. pose proof (tres_typed_topo Δ c Hc Ht self p k st Hp Hact Hk) as Hres.
    destruct (ch_buf st) as [m|] eqn:Hb; [|done]. split; [|done].
    destruct (cc_msgs c Hcc k st m Hk Hb) as [Hgc Hfw].
    destruct (ct_msgs _ _ _ _ _ Hc k st m Hk Hb) as (T & HT & Hm).
    unfold msg_ok. destruct (m_rule m) eqn:Hrule; try done.
    + destruct Hm as (A & B & md & _ & _ & (c0 & t' & Hc0 & _)). eauto.
    + destruct Hm as (fm & tm & A & _ & (c0 & t' & Hc0 & _)). eauto.
    + destruct Hm as (bs & md & A & _ & _ & (c0 & t' & Hc0 & _)). eauto.
    + destruct (Hfw eq_refl) as [n' Hpv']. exists n'. split; [done|].
      destruct Hm as (_ & _ & Hall). rewrite Hpv' in Hall. apply Forall_cons_iff in Hall as [(c0 & t' & Hc0 & _) _]. eauto.
Qed.
End SaxTyped.

(* ------------------------------------------------------------------ runs *)
Section Runs.
Variable D : tenv.
Variable F : list fundef.
Variable teq : sty -> sty -> Prop.
Hypothesis Hteq : teq_laws D teq.
Hypothesis HF : funs_typed D F teq.
Hypothesis HFc : core_funs F.
Hypothesis HFa : funs_aff F.

Lemma steps_inv_steps_core c0 c tr c' :
  TopoStep.Inv D F teq c0 -> reachable D F Async c0 c -> steps Async D F c tr c' -> inv_steps D F c c'.
Proof.
  intros HI0 Hr Hs. induction Hs as [c|c ch c1 tr c2 Hstep _ IH]; [constructor|].
  econstructor; [|exact Hstep|].
  - apply (inv_sax_inv D F teq Hteq HF).
    by destruct (inv_reachable D F teq Hteq HF HFc HFa Async c0 c eq_refl HI0 ltac:(done) Hr).
  - apply IH. econstructor; eauto.
Qed.

(* from a configuration satisfying the invariant of the core fragment: every Async run is matched by
   an execution of the reference semantics with the same labels — no premise about the run *)
Theorem refines_sax_core c0 tr c :
  TopoStep.Inv D F teq c0 -> steps Async D F c0 tr c ->
  exists ls, sax_steps F false (α c0) ls (α c) /\ labels c = labels c0 ++ ls.
Proof.
  intros HI0 Hs. apply (refines_sax_run D F). eapply steps_inv_steps_core; eauto. constructor.
Qed.
End Runs.

(* ------------------------------------------------------------------ accepted programs *)
(* The premises: the program is accepted and closed (in_fragment: no assumed names); prog_syn_ok and
   raw_ok (the types and names are what the parser produces — computable, and THEOREMS for parsed
   programs: ParseSynOk.parse_syn_ok, ParseRaw.parse_raw_ok, so the parsed versions below do not carry them); init_linear (decidable, InitLinear.init_linear_b:
   function bodies and initial bodies in the core fragment and affine, one provider per process, the
   initial configuration a forest). *)
Theorem prints_admitted_tc p p' :
  typecheck p = Accept p' -> in_fragment p' -> prog_syn_ok p = true -> raw_ok p = true ->
  init_linear p' ->
  forall fuel pick, exists C',
    sax_steps (p_funs p') false (sax_init p')
      (labels (res_config (exec_run fuel pick Async (p_types p') (p_funs p') (init_config p')))) C'.
Proof.
  intros Ha Hf PS RS Hi fuel pick.
  pose proof (tc_annotations_typed_rt p p' Ha PS RS Hf) as Hst.
  pose proof Hi as (HFc & HFa & _).
  assert (TopoStep.Inv (p_types p') (p_funs p') (teq_rt (p_types p')) (init_config p')) as HI0.
  { destruct Hi as (_ & _ & Ht & Hl & Hc). split; try done.
    - exists (init_delta p'). apply initial_typed; [apply teq_rt_laws|exact Hst].
    - apply ns_ok_init. }
  rewrite <- (exec_trace_exec_run Async (p_types p') (p_funs p') fuel pick (init_config p') []).
  destruct (exec_trace fuel pick Async (p_types p') (p_funs p') (init_config p') []) as [r tr] eqn:Htr. cbn [fst].
  apply exec_trace_run in Htr as (es & _ & Hrun).
  destruct (refines_sax_core _ _ _ (teq_rt_laws _) (proj1 Hst) HFc HFa _ _ _ HI0 Hrun) as (ls & Hs & Hl).
  exists (α (res_config r)). rewrite Hl. change (labels (init_config p')) with (@nil string). cbn.
  eapply sax_steps_perm; [symmetry; apply alpha_init|done].
  intros q pr Hq. by destruct (cc_procs _ (inv_core _ _ _ _ HI0) q pr Hq).
Qed.

(* programs that come out of the parser: prog_syn_ok is a theorem *)
Theorem prints_admitted_parsed txt p p' :
  parse_string txt = POk p -> typecheck p = Accept p' -> in_fragment p' ->
  init_linear p' ->
  forall fuel pick, exists C',
    sax_steps (p_funs p') false (sax_init p')
      (labels (res_config (exec_run fuel pick Async (p_types p') (p_funs p') (init_config p')))) C'.
Proof. intros Hp Ha Hf. exact (prints_admitted_tc p p' Ha Hf (parse_syn_ok _ _ Hp) (parse_raw_ok _ _ Hp)). Qed.

(* the premises as one computable verdict on the program text (what the check module evaluates) *)
Definition c04_premises_text (txt : string) : bool :=
  match parse_string txt with
  | POk p =>
    match typecheck p with
    | Accept p' => in_fragment_b p' && init_linear_b p'
    | _ => false
    end
  | _ => false
  end.

Theorem prints_admitted_text txt : c04_premises_text txt = true ->
  exists p p', parse_string txt = POk p /\ typecheck p = Accept p' /\
  forall fuel pick, exists C',
    sax_steps (p_funs p') false (sax_init p')
      (labels (res_config (exec_run fuel pick Async (p_types p') (p_funs p') (init_config p')))) C'.
Proof.
  unfold c04_premises_text. destruct (parse_string txt) as [p| | |] eqn:Hp; try discriminate.
  destruct (typecheck p) as [p'| | |] eqn:Ha; try discriminate.
  intros [Hf Hi]%andb_prop. exists p, p'. split; [done|]. split; [done|].
  apply (prints_admitted_parsed txt p p' Hp Ha); [by apply in_fragment_b_sound|by apply init_linear_b_sound].
Qed.

(* SaxRefine.linear_program is inside a8's core fragment: its two conditions are the `core_funs` and
   `CoreCfg` components of init_linear (which asks, in addition, that bodies are affine and that the
   initial configuration is a forest) *)
Lemma linear_program_core p : linear_program p = true ->
  core_funs (p_funs p) /\ CoreCfg (init_config p).
Proof.
  unfold linear_program. intros [Hlp Hlf]%andb_prop. rewrite forallb_forall in Hlp, Hlf. split.
  - unfold core_funs. rewrite Forall_forall. intros fd Hfd. rewrite core_lin. by apply Hlf.
  - split.
    + intros q pr' Hq. apply init_procs_lookup in Hq as (i & pr & Hpr & -> & Hpv & Hbody & _).
      assert (In pr (p_procs p)) as Hin by (by eapply elem_of_list_In, elem_of_list_lookup_2).
      specialize (Hlp pr Hin). cbn in Hlp. destruct (pr_providers pr) as [|x [|y r]] eqn:Hprov; try done.
      split; [by rewrite core_lin, Hbody, close_body_lin|]. rewrite Hpv. cbn. eauto.
    + intros k st m Hk Hb. pose proof (bufs_empty_init p k st Hk). congruence.
Qed.

(* ------------------------------------------------------------------ the synchronous polarized mode *)
(* A synchronous step from a configuration with empty buffers is one asynchronous step, or — a
   rendezvous — the sender's asynchronous step followed by the receiver's
   (AsyncSync.sync_step_async); the invariant of the core fragment holds in between
   (TopoStep.inv_step_async).  So a Sync step is matched by at most two steps of Sax.v. *)
Section RunsMd.
Variable D : tenv.
Variable F : list fundef.
Variable teq : sty -> sty -> Prop.
Hypothesis Hteq : teq_laws D teq.
Hypothesis HF : funs_typed D F teq.
Hypothesis HFc : core_funs F.
Hypothesis HFa : funs_aff F.

Lemma refines_sax_step_md md c ch c' :
  is_np md = false -> TopoStep.Inv D F teq c -> (md = Sync -> bufs_empty c) -> step md D F c ch = SStep c' ->
  exists ls, sax_steps F false (α c) ls (α c') /\ labels c' = labels c ++ ls.
Proof.
  intros Hnp HI Hb Hs. destruct md; [| |done].
  - destruct (async_step_run D F c ch c' Hs) as [self ->].
    apply (refines_sax D F c self c'); [by apply (inv_sax_inv D F teq Hteq HF)|done].
  - destruct (sync_step_async D F c ch c' (Hb eq_refl) Hs) as [(p & -> & H1)|(s & r & c1 & -> & H1 & H2)].
    + apply (refines_sax D F c p c'); [by apply (inv_sax_inv D F teq Hteq HF)|done].
    + pose proof (inv_step_async D F teq Hteq HF c (Run s) c1 HFc HFa HI H1) as HI1.
      destruct (refines_sax D F c s c1 (inv_sax_inv D F teq Hteq HF c HI) H1) as (l1 & Hs1 & Hl1).
      destruct (refines_sax D F c1 r c' (inv_sax_inv D F teq Hteq HF c1 HI1) H2) as (l2 & Hs2 & Hl2).
      exists (l1 ++ l2). split; [by eapply sax_steps_app|]. by rewrite Hl2, Hl1, app_assoc.
Qed.

Theorem refines_sax_core_md md c0 tr c :
  is_np md = false -> TopoStep.Inv D F teq c0 -> (md = Sync -> bufs_empty c0) -> steps md D F c0 tr c ->
  exists ls, sax_steps F false (α c0) ls (α c) /\ labels c = labels c0 ++ ls.
Proof.
  intros Hnp HI Hb Hs. induction Hs as [c|c ch c1 tr c2 Hstep _ IH].
  - exists []. split; [by apply sax_refl|by rewrite app_nil_r].
  - destruct (refines_sax_step_md md c ch c1 Hnp HI Hb Hstep) as (l1 & Hs1 & Hl1).
    destruct (inv_step D F teq Hteq HF HFc HFa md c ch c1 Hnp HI Hb Hstep) as [HI1 Hb1].
    destruct (IH HI1 Hb1) as (l2 & Hs2 & Hl2).
    exists (l1 ++ l2). split; [by eapply sax_steps_app|]. by rewrite Hl2, Hl1, app_assoc.
Qed.
End RunsMd.

(* both polarized modes *)
Theorem prints_admitted_tc_md md p p' :
  is_np md = false ->
  typecheck p = Accept p' -> in_fragment p' -> prog_syn_ok p = true -> raw_ok p = true ->
  init_linear p' ->
  forall fuel pick, exists C',
    sax_steps (p_funs p') false (sax_init p')
      (labels (res_config (exec_run fuel pick md (p_types p') (p_funs p') (init_config p')))) C'.
Proof.
  intros Hnp Ha Hf PS RS Hi fuel pick.
  pose proof (tc_annotations_typed_rt p p' Ha PS RS Hf) as Hst.
  pose proof Hi as (HFc & HFa & _).
  assert (TopoStep.Inv (p_types p') (p_funs p') (teq_rt (p_types p')) (init_config p')) as HI0.
  { destruct Hi as (_ & _ & Ht & Hl & Hc). split; try done.
    - exists (init_delta p'). apply initial_typed; [apply teq_rt_laws|exact Hst].
    - apply ns_ok_init. }
  rewrite <- (exec_trace_exec_run md (p_types p') (p_funs p') fuel pick (init_config p') []).
  destruct (exec_trace fuel pick md (p_types p') (p_funs p') (init_config p') []) as [r tr] eqn:Htr. cbn [fst].
  apply exec_trace_run in Htr as (es & _ & Hrun).
  destruct (refines_sax_core_md _ _ _ (teq_rt_laws _) (proj1 Hst) HFc HFa md _ _ _ Hnp HI0
              (fun _ => bufs_empty_init p') Hrun) as (ls & Hs & Hl).
  exists (α (res_config r)). rewrite Hl. change (labels (init_config p')) with (@nil string). cbn.
  eapply sax_steps_perm; [symmetry; apply alpha_init|done].
  intros q pr Hq. by destruct (cc_procs _ (inv_core _ _ _ _ HI0) q pr Hq).
Qed.

Theorem prints_admitted_parsed_md md txt p p' :
  is_np md = false ->
  parse_string txt = POk p -> typecheck p = Accept p' -> in_fragment p' ->
  init_linear p' ->
  forall fuel pick, exists C',
    sax_steps (p_funs p') false (sax_init p')
      (labels (res_config (exec_run fuel pick md (p_types p') (p_funs p') (init_config p')))) C'.
Proof. intros Hnp Hp Ha Hf. exact (prints_admitted_tc_md md p p' Hnp Ha Hf (parse_syn_ok _ _ Hp) (parse_raw_ok _ _ Hp)). Qed.
