(* DeterminismTc.v — C03 for accepted closed programs with the premises `teq_ok` and
   `tc_annotations_typed` DISCHARGED (a9: proofs/RtTcBisim.v `teq_rt_laws`, proofs/RtTcSoundTop.v
   `tc_annotations_typed_rt`): per-program forms of the theorems of DeterminismTyped.v / TopoReach.v,
   then instantiated for accepted programs (premises prog_syn_ok, raw_ok: computable) and for
   PARSED programs (prog_syn_ok is a theorem: proofs/ParseSynOk.v). *)
From stdpp Require Import gmap strings sorting.
Require Import Grits.Base Grits.ModeDefs Grits.Modes Grits.STypes Grits.Forms Grits.Subst Grits.TcDeps Grits.Expand
               Grits.Tc Grits.TcTop Grits.spec.SynOk Grits.Runtime Grits.RuntimeFootprint
               Grits.spec.RtTyping Grits.spec.Topo Grits.proofs.RtSubst Grits.proofs.StepErrors Grits.proofs.RtSafety
               Grits.proofs.RtInit Grits.proofs.RtProgress Grits.proofs.RtTheorems Grits.proofs.RtStaticCheck
               Grits.proofs.RtTcSyn Grits.proofs.RtTcBisim Grits.proofs.ParseSynOk Grits.proofs.ParseRaw Grits.proofs.RtTheoremsTc.
Require Import Grits.proofs.RuntimeFacts Grits.proofs.Diamond Grits.proofs.Determinism Grits.proofs.AsyncSync
               Grits.proofs.DeterminismTyped Grits.proofs.TopoLin Grits.proofs.TopoStep Grits.proofs.TopoReach.

Section OneProgram.
Variable teq : sty -> sty -> Prop.
Variable p' : program.
Hypothesis Hlaws : teq_laws (p_types p') teq.
Hypothesis Hst : static_typed teq p'.

Let D := p_types p'.
Let F := p_funs p'.
Let HF : funs_typed D F teq := proj1 Hst.
Let Hinit : cfg_typed D F teq (init_delta p') (init_config p') := initial_typed teq p' Hlaws Hst.

(* every accepted closed program, with Topo along the runs as premise *)
Lemma determinism_one md pick1 pick2 f1 f2 t1 :
  topo_runs p' -> is_np md = false ->
  exec_run f1 pick1 md D F (init_config p') = RQuiescent t1 -> (f1 <= f2)%nat ->
  exists t2, exec_run f2 pick2 md D F (init_config p') = RQuiescent t2 /\ cfg_equiv t2 t1 /\ labels t2 ≡ₚ labels t1.
Proof.
  intros Ht Hnp.
  apply (determinism_typed_cfg D F teq Hlaws HF md Hnp (reachable D F md (init_config p'))).
  - intros c ch c' Hr Hs. eapply reach_step; eauto.
  - intros c Hr. exact (Ht md c Hnp Hr).
  - split; [apply reach_refl|]. split; [eauto|]. split; [exact (Ht md _ Hnp (reach_refl _ _ _ _))|].
    split; [apply ns_ok_init|intros _; apply bufs_empty_init].
Qed.

Lemma inv_init_one : init_linear p' -> Inv D F teq (init_config p').
Proof. intros (_ & _ & Ht & Hl & Hc). split; try done; [eauto|apply ns_ok_init]. Qed.

(* the core fragment: Topo along the runs is a theorem *)
Lemma topo_runs_core_one : init_linear p' -> topo_runs p'.
Proof.
  intros Hi md c Hnp Hr. pose proof Hi as (HFc & HFa & _).
  eapply (topo_reachable_core D F teq Hlaws HF HFc HFa md (init_config p')); eauto.
  - by apply inv_init_one.
  - intros _. apply bufs_empty_init.
Qed.

Lemma determinism_core_one md pick1 pick2 f1 f2 t1 :
  init_linear p' -> is_np md = false ->
  exec_run f1 pick1 md D F (init_config p') = RQuiescent t1 -> (f1 <= f2)%nat ->
  exists t2, exec_run f2 pick2 md D F (init_config p') = RQuiescent t2 /\ cfg_equiv t2 t1 /\ labels t2 ≡ₚ labels t1.
Proof. intros Hi. apply determinism_one. by apply topo_runs_core_one. Qed.

Lemma async_sync_one pick1 f1 t1 :
  topo_runs p' ->
  exec_run f1 pick1 Sync D F (init_config p') = RQuiescent t1 ->
  exists n, forall pick2 f2, (n < f2)%nat ->
    exists t2, exec_run f2 pick2 Async D F (init_config p') = RQuiescent t2 /\ labels t2 ≡ₚ labels t1.
Proof.
  intros Ht.
  set (I := RI D F teq Async (reachable D F Async (init_config p'))).
  assert (Rstep : forall c ch c', reachable D F Async (init_config p') c -> step Async D F c ch = SStep c' ->
                                  reachable D F Async (init_config p') c').
  { intros c0 ch0 c0' Hr Hs0. eapply reach_step; eauto. }
  assert (Rtopo : forall c, reachable D F Async (init_config p') c -> Topo c).
  { intros c0 Hr. exact (Ht Async c0 eq_refl Hr). }
  apply (async_sync_agree_partial D F I).
  - intros c ch c' HI Hs. exact (RI_step D F teq Hlaws HF Async eq_refl _ Rstep Rtopo c ch c' HI Hs).
  - intros c a b c1 c2 [_ H0]. by apply (typed_inv_compat D F teq Hlaws HF).
  - intros c a b w e c' [_ H0] He. by destruct (typed_inv_safe D F teq Hlaws HF Async c a w e eq_refl H0).
  - split; [apply reach_refl|]. split; [eauto|]. split; [exact (Ht Async _ eq_refl (reach_refl _ _ _ _))|].
    split; [apply ns_ok_init|discriminate].
  - apply ns_ok_init.
  - apply bufs_empty_init.
Qed.
End OneProgram.

(* ------------------------------------------------------------------ accepted programs *)
(* C03, every accepted closed program, both polarized modes.  Premises: the two computable conditions
   on the parsed program, and Topo along the runs *)
Theorem determinism_tc p p' md pick1 pick2 f1 f2 t1 :
  typecheck p = Accept p' -> in_fragment p' -> prog_syn_ok p = true -> raw_ok p = true ->
  topo_runs p' -> is_np md = false ->
  exec_run f1 pick1 md (p_types p') (p_funs p') (init_config p') = RQuiescent t1 -> (f1 <= f2)%nat ->
  exists t2, exec_run f2 pick2 md (p_types p') (p_funs p') (init_config p') = RQuiescent t2 /\
             cfg_equiv t2 t1 /\ labels t2 ≡ₚ labels t1.
Proof.
  intros Ha Hf PS RS. exact (determinism_one _ p' (teq_rt_laws _) (tc_annotations_typed_rt p p' Ha PS RS Hf) md pick1 pick2 f1 f2 t1).
Qed.

Theorem async_sync_agree_tc p p' pick1 f1 t1 :
  typecheck p = Accept p' -> in_fragment p' -> prog_syn_ok p = true -> raw_ok p = true ->
  topo_runs p' ->
  exec_run f1 pick1 Sync (p_types p') (p_funs p') (init_config p') = RQuiescent t1 ->
  exists n, forall pick2 f2, (n < f2)%nat ->
    exists t2, exec_run f2 pick2 Async (p_types p') (p_funs p') (init_config p') = RQuiescent t2 /\ labels t2 ≡ₚ labels t1.
Proof.
  intros Ha Hf PS RS. exact (async_sync_one _ p' (teq_rt_laws _) (tc_annotations_typed_rt p p' Ha PS RS Hf) pick1 f1 t1).
Qed.

(* the core fragment: init_linear instead of Topo along the runs *)
Theorem determinism_core_tc p p' md pick1 pick2 f1 f2 t1 :
  typecheck p = Accept p' -> in_fragment p' -> prog_syn_ok p = true -> raw_ok p = true ->
  init_linear p' -> is_np md = false ->
  exec_run f1 pick1 md (p_types p') (p_funs p') (init_config p') = RQuiescent t1 -> (f1 <= f2)%nat ->
  exists t2, exec_run f2 pick2 md (p_types p') (p_funs p') (init_config p') = RQuiescent t2 /\
             cfg_equiv t2 t1 /\ labels t2 ≡ₚ labels t1.
Proof.
  intros Ha Hf PS RS. exact (determinism_core_one _ p' (teq_rt_laws _) (tc_annotations_typed_rt p p' Ha PS RS Hf) md pick1 pick2 f1 f2 t1).
Qed.

Theorem topo_runs_core_tc p p' :
  typecheck p = Accept p' -> in_fragment p' -> prog_syn_ok p = true -> raw_ok p = true ->
  init_linear p' -> topo_runs p'.
Proof.
  intros Ha Hf PS RS. exact (topo_runs_core_one _ p' (teq_rt_laws _) (tc_annotations_typed_rt p p' Ha PS RS Hf)).
Qed.

(* ------------------------------------------------------------------ parsed programs (prog_syn_ok, raw_ok are theorems: ParseSynOk, ParseRaw):
   parse ok, accepted, closed, and init_linear (resp. topo_runs) are what is left *)
Theorem determinism_core_parsed txt p p' md pick1 pick2 f1 f2 t1 :
  parse_string txt = POk p -> typecheck p = Accept p' -> in_fragment p' ->
  init_linear p' -> is_np md = false ->
  exec_run f1 pick1 md (p_types p') (p_funs p') (init_config p') = RQuiescent t1 -> (f1 <= f2)%nat ->
  exists t2, exec_run f2 pick2 md (p_types p') (p_funs p') (init_config p') = RQuiescent t2 /\
             cfg_equiv t2 t1 /\ labels t2 ≡ₚ labels t1.
Proof. intros Hp Ha Hf. exact (determinism_core_tc p p' md pick1 pick2 f1 f2 t1 Ha Hf (parse_syn_ok _ _ Hp) (parse_raw_ok _ _ Hp)). Qed.

Theorem async_sync_agree_core_parsed txt p p' pick1 f1 t1 :
  parse_string txt = POk p -> typecheck p = Accept p' -> in_fragment p' ->
  init_linear p' ->
  exec_run f1 pick1 Sync (p_types p') (p_funs p') (init_config p') = RQuiescent t1 ->
  exists n, forall pick2 f2, (n < f2)%nat ->
    exists t2, exec_run f2 pick2 Async (p_types p') (p_funs p') (init_config p') = RQuiescent t2 /\ labels t2 ≡ₚ labels t1.
Proof.
  intros Hp Ha Hf Hi. pose proof (parse_raw_ok _ _ Hp) as RS.
  exact (async_sync_agree_tc p p' pick1 f1 t1 Ha Hf (parse_syn_ok _ _ Hp) RS (topo_runs_core_tc p p' Ha Hf (parse_syn_ok _ _ Hp) RS Hi)).
Qed.

Theorem determinism_parsed txt p p' md pick1 pick2 f1 f2 t1 :
  parse_string txt = POk p -> typecheck p = Accept p' -> in_fragment p' ->
  topo_runs p' -> is_np md = false ->
  exec_run f1 pick1 md (p_types p') (p_funs p') (init_config p') = RQuiescent t1 -> (f1 <= f2)%nat ->
  exists t2, exec_run f2 pick2 md (p_types p') (p_funs p') (init_config p') = RQuiescent t2 /\
             cfg_equiv t2 t1 /\ labels t2 ≡ₚ labels t1.
Proof. intros Hp Ha Hf. exact (determinism_tc p p' md pick1 pick2 f1 f2 t1 Ha Hf (parse_syn_ok _ _ Hp) (parse_raw_ok _ _ Hp)). Qed.

(* ------------------------------------------------------------------ a complete instance, nothing assumed *)
Require Import Grits.proofs.InitLinear.

(* the decidable premises of `determinism_core_parsed`, for a program text *)
Definition core_premises_text (txt : string) : bool :=
  match parse_string txt with
  | POk p => match typecheck p with
             | Accept p' => in_fragment_b p' && init_linear_b p'
             | _ => false
             end
  | _ => false
  end.

Theorem core_premises_sound txt : core_premises_text txt = true ->
  exists p p', parse_string txt = POk p /\ typecheck p = Accept p' /\
  forall md pick1 pick2 f1 f2 t1, is_np md = false ->
    exec_run f1 pick1 md (p_types p') (p_funs p') (init_config p') = RQuiescent t1 -> (f1 <= f2)%nat ->
    exists t2, exec_run f2 pick2 md (p_types p') (p_funs p') (init_config p') = RQuiescent t2 /\
               cfg_equiv t2 t1 /\ labels t2 ≡ₚ labels t1.
Proof.
  unfold core_premises_text. destruct (parse_string txt) as [p| | |] eqn:Ep; try discriminate.
  destruct (typecheck p) as [p'| | |] eqn:Et; try discriminate.
  rewrite !andb_true_iff. intros [Hf Hi]. apply in_fragment_b_sound in Hf. apply init_linear_b_sound in Hi.
  exists p, p'. split; [done|]. split; [done|]. intros md pick1 pick2 f1 f2 t1 Hnp.
  eapply determinism_core_parsed; eauto.
Qed.

(* a9's example: a server with a channel-passing protocol (lolli, tensor), cuts and a call.  Under
   EVERY scheduler oracle, asynchronous or synchronous, with fuel >= 200, it runs to completion and
   prints a permutation of what one computed run printed. *)
Example example_premises : core_premises_text example_text = true.
Proof. vm_compute. reflexivity. Qed.

Example example_every_schedule :
  exists p p', parse_string example_text = POk p /\ typecheck p = Accept p' /\
  forall pick f, (200 <= f)%nat ->
    exists t, exec_run f pick Async (p_types p') (p_funs p') (init_config p') = RQuiescent t /\
              labels t ≡ₚ ["served"; "done"].
Proof.
  destruct (core_premises_sound example_text example_premises) as (p & p' & Hp & Ht & Hdet).
  exists p, p'. split; [done|]. split; [done|]. intros pick f Hf.
  destruct (exec_run 200 (fun _ _ => 0%nat) Async (p_types p') (p_funs p') (init_config p')) as [t1| |] eqn:Er.
  - destruct (Hdet Async (fun _ _ => 0%nat) pick 200%nat f t1 eq_refl Er Hf) as (t2 & H2 & _ & Hl).
    exists t2. split; [done|]. rewrite Hl. clear Hdet H2 Hl t2.
    vm_compute in Hp. injection Hp as <-. vm_compute in Ht. injection Ht as <-.
    vm_compute in Er. injection Er as <-. vm_compute. reflexivity.
  - exfalso. clear Hdet. vm_compute in Hp. injection Hp as <-. vm_compute in Ht. injection Ht as <-.
    vm_compute in Er. discriminate.
  - exfalso. clear Hdet. vm_compute in Hp. injection Hp as <-. vm_compute in Ht. injection Ht as <-.
    vm_compute in Er. discriminate.
Qed.
