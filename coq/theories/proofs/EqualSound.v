(* EqualSound.v — soundness of the memoising equality algorithm: a successful run leaves a memo in
   which every entry is explained; the pairs justified from such a memo form a consistent
   relation.  The memo is keyed by printed strings: the only place where this matters is
   `key_inj` (the key determines the pair, on well-formed types), a hypothesis of the section
   ToBisim that proofs/EqualKey.v discharges from the injectivity of printing (C15). *)
Require Import Grits.Base Grits.ModeDefs Grits.Modes Grits.STypes Grits.Infer Grits.Print Grits.Equal Grits.EqualWF
               Grits.spec.TypEq Grits.proofs.TypEqFacts Grits.proofs.EqualWFFacts.

(* finite justification of a pair, relative to a set M of assumed (name-headed) pairs *)
Inductive J (M : list string) : sty -> sty -> Prop :=
| J_memo s t : In (memo_key s t) M -> J M s t
| J_same x m m' : J M (TName x m) (TName x m')
| J_unit m : J M (TUnit m) (TUnit m)
| J_tensor a b a' b' m : J M a a' -> J M b b' -> J M (TTensor a b m) (TTensor a' b' m)
| J_lolli a b a' b' m : J M a a' -> J M b b' -> J M (TLolli a b m) (TLolli a' b' m)
| J_plus bs cs m : brs_len bs = brs_len cs -> JB M cs bs -> J M (TPlus bs m) (TPlus cs m)
| J_with bs cs m : brs_len bs = brs_len cs -> JB M cs bs -> J M (TWith bs m) (TWith cs m)
| J_up f t a a' : J M a a' -> J M (TUp f t a) (TUp f t a')
| J_down f t a a' : J M a a' -> J M (TDown f t a) (TDown f t a')
with JB (M : list string) : brs -> brs -> Prop :=
| JB_nil cs : JB M cs BNil
| JB_cons cs l a a' r : find_br l cs = Some a' -> J M a a' -> JB M cs r -> JB M cs (BCons l a r).

Scheme J_ind2 := Induction for J Sort Prop
with JB_ind2 := Induction for JB Sort Prop.
Combined Scheme J_JB_ind from J_ind2, JB_ind2.

Lemma J_mono M M' : incl M M' ->
  (forall s t, J M s t -> J M' s t) /\ (forall cs bs, JB M cs bs -> JB M' cs bs).
Proof.
  intros Hi. apply J_JB_ind; intros; try (econstructor; eauto; fail).
Qed.

Definition explained (D : tenv) (M : list string) (k : string) : Prop :=
  exists s t, memo_key s t = k /\ WT D s /\ WT D t /\ (is_name s || is_name t = true) /\
    exists s' t', expand1 D s = Some s' /\ expand1 D t = Some t' /\ J M s' t'.

Definition good (D : tenv) (M M' : list string) (s t : sty) : Prop :=
  incl M M' /\ J M' s t /\ (forall k, In k M' -> ~ In k M -> explained D M' k).

Lemma explained_mono D M M' k : incl M M' -> explained D M k -> explained D M' k.
Proof.
  intros Hi (s & t & Hk & Hs & Ht & Hn & s' & t' & H1 & H2 & H3).
  exists s, t. repeat (split; [assumption|]). exists s', t'. repeat split; auto. eapply J_mono; eauto.
Qed.

Lemma In_dec_str (k : string) (M : list string) : In k M \/ ~ In k M.
Proof. destruct (str_mem k M) eqn:E; [left; apply str_mem_In; exact E | right; apply str_mem_notIn; exact E]. Qed.

Lemma good_refl D M s t : J M s t -> good D M M s t.
Proof. intros H. split; [apply incl_refl|]. split; [exact H|]. intros k H1 H2; contradiction. Qed.

(* composition of two successive good calls *)
Lemma good_seq D M M1 M' a a' :
  good D M M1 a a' ->
  incl M1 M' -> (forall k, In k M' -> ~ In k M1 -> explained D M' k) ->
  incl M M' /\ J M' a a' /\ (forall k, In k M' -> ~ In k M -> explained D M' k).
Proof.
  intros [Hi [Hj He]] Hi2 He2. split; [eapply incl_tran; eauto|]. split; [eapply J_mono; eauto|].
  intros k Hin Hnot. destruct (In_dec_str k M1) as [H1 | H1].
  - eapply explained_mono; [exact Hi2|]. apply He; assumption.
  - apply He2; assumption.
Qed.

Section Rec.
Variable D : tenv.
Variable rec : sty -> sty -> list string -> res.
Hypothesis Hrec : forall s t M M', WT D s -> WT D t -> rec s t M = Ok (true, M') -> good D M M' s t.

Lemma both_good a a' b b' M M' :
  WT D a -> WT D a' -> WT D b -> WT D b' ->
  both rec a a' b b' M = Ok (true, M') ->
  incl M M' /\ J M' a a' /\ J M' b b' /\ (forall k, In k M' -> ~ In k M -> explained D M' k).
Proof.
  intros Wa Wa' Wb Wb'. unfold both. destruct (rec a a' M) as [[[|] M1]| |] eqn:E1; try discriminate.
  intros E2. apply Hrec in E1; auto. apply Hrec in E2; auto. destruct E2 as [Hi2 [Hj2 He2]].
  destruct (good_seq D M M1 M' a a' E1 Hi2 He2) as [H1 [H2 H3]]. auto.
Qed.

Lemma branches_good cs : (forall c, In_br c cs -> WT D c) -> forall bs M M',
  (forall c, In_br c bs -> WT D c) ->
  branches rec bs cs M = Ok (true, M') ->
  incl M M' /\ JB M' cs bs /\ (forall k, In k M' -> ~ In k M -> explained D M' k).
Proof.
  intros Wcs. induction bs as [|l a r IH]; intros M M' Wbs H; cbn [branches] in H.
  - inversion H; subst. split; [apply incl_refl|]. split; [constructor|]. intros k H1 H2. contradiction.
  - destruct (find_br l cs) as [a'|] eqn:Ef; [|discriminate].
    destruct (rec a a' M) as [[[|] M1]| |] eqn:E1; try discriminate.
    apply Hrec in E1; [| apply Wbs; cbn; auto | apply Wcs; eapply find_br_In; eauto].
    apply IH in H; [|intros c Hc; apply Wbs; cbn; auto]. destruct H as [Hi2 [Hjb He2]].
    destruct (good_seq D M M1 M' a a' E1 Hi2 He2) as [H1 [H2 H3]].
    split; [exact H1|]. split; [|exact H3]. econstructor; eauto.
Qed.
End Rec.

Lemma same_label_inv s t : same_label s t = true -> exists x m m', s = TName x m /\ t = TName x m'.
Proof.
  destruct s, t; cbn; try discriminate. intros H. apply String.eqb_eq in H. subst. eauto.
Qed.

Ltac wtc :=
  match goal with
  | Ws : WT ?D ?s, Wt : WT ?D ?t |- WT ?D ?c =>
    first [ apply (WT_child D s c Ws); cbn; auto; fail | apply (WT_child D t c Wt); cbn; auto; fail ]
  end.

(* one call of innerEqualType preserves goodness *)
Section Step.
Variable D : tenv.
Hypothesis HD : wf_env D = true.
Variables rs re : sty -> sty -> list string -> res.
Hypothesis Hrs : forall s t M M', WT D s -> WT D t -> rs s t M = Ok (true, M') -> good D M M' s t.
Hypothesis Hre : forall s t M M', WT D s -> WT D t -> re s t M = Ok (true, M') -> good D M M' s t.

Lemma step_good s t M M' : WT D s -> WT D t -> step rs re D s t M = Ok (true, M') -> good D M M' s t.
Proof.
  intros Ws Wt H. unfold step in H.
  destruct (negb (same_ctor s t) && negb (is_name s) && negb (is_name t)); [discriminate|].
  destruct (is_name s || is_name t) eqn:En.
  - cbv zeta in H. destruct (str_mem (memo_key s t) M) eqn:Em.
    + inversion H; subst. apply good_refl. apply J_memo. apply str_mem_In. exact Em.
    + destruct (same_label s t) eqn:Es.
      * inversion H; subst. destruct (same_label_inv _ _ Es) as (x & m & m' & -> & ->).
        apply good_refl. apply J_same.
      * unfold expand_both in H.
        destruct (expand1 D s) as [s'|] eqn:E1; [|discriminate].
        destruct (expand1 D t) as [t'|] eqn:E2; [|discriminate].
        apply Hre in H; [| exact (WT_expand1 D HD s s' Ws E1) | exact (WT_expand1 D HD t t' Wt E2)].
        destruct H as [Hi [Hj He]].
        split; [intros k Hk; apply Hi; right; exact Hk|].
        split; [apply J_memo; apply Hi; left; reflexivity|].
        intros k Hin Hnot. destruct (String.eqb k (memo_key s t)) eqn:Ek.
        -- apply String.eqb_eq in Ek. subst k. exists s, t. repeat (split; [first [reflexivity | assumption]|]).
           exists s', t'. auto.
        -- apply He; [exact Hin|]. intros [Heq | Hin']; [|contradiction].
           subst k. rewrite String.eqb_refl in Ek. discriminate.
  - apply orb_false_iff in En. destruct En as [Ens Ent].
    destruct (WT_parts _ _ Ws) as (_ & Hms & Hps & _ & _ & _).
    destruct s as [x m|m|a b m|a b m|bs m|bs m|f g a|f g a]; try discriminate;
      destruct t as [x' m'|m'|a' b' m'|a' b' m'|cs m'|cs m'|f' g' a'|f' g' a']; try discriminate; cbn in Hps, Hms.
    + (* unit *) inversion H; subst. apply good_refl. rewrite (mode_eqb_proper _ _ Hps H1). apply J_unit.
    + (* tensor *) destruct (mode_eqb m m') eqn:Em; [|discriminate]. apply (mode_eqb_proper _ _ Hps) in Em; subst m'.
      apply (both_good D rs Hrs) in H; try wtc.
      destruct H as [H1 [H2 [H3 H4]]]. split; [exact H1|]. split; [apply J_tensor; assumption|exact H4].
    + destruct (mode_eqb m m') eqn:Em; [|discriminate]. apply (mode_eqb_proper _ _ Hps) in Em; subst m'.
      apply (both_good D rs Hrs) in H; try wtc.
      destruct H as [H1 [H2 [H3 H4]]]. split; [exact H1|]. split; [apply J_lolli; assumption|exact H4].
    + destruct (brs_len bs =? brs_len cs)%nat eqn:El; [|discriminate]. apply Nat.eqb_eq in El.
      destruct (mode_eqb m m') eqn:Em; [|discriminate]. apply (mode_eqb_proper _ _ Hps) in Em; subst m'.
      apply (branches_good D rs Hrs) in H; try (intros c Hc; wtc).
      destruct H as [H1 [H2 H3]]. split; [exact H1|]. split; [apply J_plus; assumption|exact H3].
    + destruct (brs_len bs =? brs_len cs)%nat eqn:El; [|discriminate]. apply Nat.eqb_eq in El.
      destruct (mode_eqb m m') eqn:Em; [|discriminate]. apply (mode_eqb_proper _ _ Hps) in Em; subst m'.
      apply (branches_good D rs Hrs) in H; try (intros c Hc; wtc).
      destruct H as [H1 [H2 H3]]. split; [exact H1|]. split; [apply J_with; assumption|exact H3].
    + apply andb_true_iff in Hms. destruct Hms as [Hms _]. apply andb_true_iff in Hms. destruct Hms as [Hpf _].
      destruct (mode_eqb g g') eqn:Eg; [|discriminate]. apply (mode_eqb_proper _ _ Hps) in Eg; subst g'.
      destruct (mode_eqb f f') eqn:Ef; [|discriminate]. apply (mode_eqb_proper _ _ Hpf) in Ef; subst f'.
      apply Hrs in H; try wtc.
      destruct H as [H1 [H2 H3]]. split; [exact H1|]. split; [apply J_up; assumption|exact H3].
    + apply andb_true_iff in Hms. destruct Hms as [Hms _]. apply andb_true_iff in Hms. destruct Hms as [Hpf _].
      destruct (mode_eqb g g') eqn:Eg; [|discriminate]. apply (mode_eqb_proper _ _ Hps) in Eg; subst g'.
      destruct (mode_eqb f f') eqn:Ef; [|discriminate]. apply (mode_eqb_proper _ _ Hpf) in Ef; subst f'.
      apply Hrs in H; try wtc.
      destruct H as [H1 [H2 H3]]. split; [exact H1|]. split; [apply J_down; assumption|exact H3].
Qed.
End Step.

Lemma eq_in_good D (HD : wf_env D = true) re
  (Hre : forall s t M M', WT D s -> WT D t -> re s t M = Ok (true, M') -> good D M M' s t) :
  forall n s t M M', WT D s -> WT D t -> eq_in re D n s t M = Ok (true, M') -> good D M M' s t.
Proof.
  induction n as [|n IH]; intros s t M M' Ws Wt H; [discriminate|].
  cbn [eq_in] in H. exact (step_good D HD (eq_in re D n) re IH Hre s t M M' Ws Wt H).
Qed.

Theorem eq_ty_good D (HD : wf_env D = true) :
  forall k n s t M M', WT D s -> WT D t -> eq_ty k D n s t M = Ok (true, M') -> good D M M' s t.
Proof.
  induction k as [|k IH]; intros n s t M M' Ws Wt H; [discriminate|].
  cbn [eq_ty] in H. refine (eq_in_good D HD _ _ n s t M M' Ws Wt H).
  intros s' t' M0 M1 Ws' Wt' H'. exact (IH _ _ _ _ _ Ws' Wt' H').
Qed.

(* ---------- from a self-explained memo to a consistent relation ---------- *)

Lemma nodup_str_NoDup l : nodup_str l = true -> NoDup l.
Proof.
  induction l as [|x r IH]; cbn; [constructor|]. rewrite andb_true_iff, negb_true_iff.
  intros [H1 H2]. constructor; [apply str_mem_notIn; exact H1 | auto].
Qed.
Lemma find_br_None l b : find_br l b = None <-> ~ In l (brs_labels b).
Proof.
  induction b as [|l' a r IH]; cbn; [tauto|]. destruct (String.eqb l l') eqn:E.
  - apply String.eqb_eq in E. subst. split; [discriminate | intros H; exfalso; apply H; auto].
  - apply String.eqb_neq in E. rewrite IH. split; [intros H [H'|H']; [congruence | auto] | auto].
Qed.
Lemma find_br_labels l b a : find_br l b = Some a -> In l (brs_labels b).
Proof.
  intros H. destruct (in_dec string_dec l (brs_labels b)) as [Hi|Hi]; [exact Hi|].
  apply find_br_None in Hi. congruence.
Qed.
Lemma brs_len_labels b : brs_len b = length (brs_labels b).
Proof. induction b; cbn; auto. Qed.

Lemma JB_find M cs bs : JB M cs bs -> forall l a, find_br l bs = Some a ->
  exists a', find_br l cs = Some a' /\ J M a a'.
Proof.
  induction 1 as [cs | cs l0 a0 a0' r Hf Hj Hr IH]; intros l a H; cbn in H; [discriminate|].
  destruct (String.eqb l l0) eqn:E.
  - apply String.eqb_eq in E. subst. inversion H; subst. eauto.
  - eauto.
Qed.
Lemma JB_labels M cs bs : JB M cs bs -> incl (brs_labels bs) (brs_labels cs).
Proof.
  induction 1 as [cs | cs l0 a0 a0' r Hf Hj Hr IH]; cbn; intros x Hx; [contradiction|].
  destruct Hx as [<- | Hx]; [eapply find_br_labels; eauto | auto].
Qed.
Lemma JB_sim M cs bs :
  brs_len bs = brs_len cs -> nodup_str (brs_labels bs) = true -> JB M cs bs -> brs_sim (J M) bs cs.
Proof.
  intros Hl Hn Hj. pose proof (JB_labels _ _ _ Hj) as Hi.
  assert (Hi' : incl (brs_labels cs) (brs_labels bs)).
  { apply NoDup_length_incl; [apply nodup_str_NoDup; exact Hn | rewrite <- !brs_len_labels; lia | exact Hi]. }
  split.
  - intros l. rewrite !find_br_None. split; intros H H'; apply H; auto.
  - intros l a a' E1 E2. destruct (JB_find _ _ _ Hj _ _ E1) as [a2 [E3 Hja]]. congruence.
Qed.

(* reflexivity of J on types with distinct branch labels *)
Lemma JB_weaken M l a cs bs : str_mem l (brs_labels bs) = false -> JB M cs bs -> JB M (BCons l a cs) bs.
Proof.
  induction bs as [|l' a' r IH]; intros Hn H; [constructor|].
  inversion H; subst. cbn in Hn. apply orb_false_iff in Hn. destruct Hn as [Hn1 Hn2].
  econstructor; eauto. cbn. rewrite String.eqb_sym, Hn1. assumption.
Qed.
Lemma J_refl M : (forall t, labels_ok t = true -> J M t t) /\
                 (forall b, nodup_str (brs_labels b) = true -> labels_ok_brs b = true -> JB M b b).
Proof.
  apply sty_brs_ind; cbn; intros; rewrite ?andb_true_iff in *.
  - apply J_same.
  - apply J_unit.
  - apply J_tensor; intuition.
  - apply J_lolli; intuition.
  - apply J_plus; intuition.
  - apply J_with; intuition.
  - apply J_up; intuition.
  - apply J_down; intuition.
  - constructor.
  - destruct H1 as [Hn1 Hn2]. destruct H2 as [Hw1 Hw2]. apply negb_true_iff in Hn1.
    econstructor.
    + cbn. rewrite String.eqb_refl. reflexivity.
    + auto.
    + apply JB_weaken; auto.
Qed.

Section ToBisim.
Variable D : tenv.
Hypothesis HD : wf_env D = true.
Variable M : list string.
Hypothesis Hexp : forall k, In k M -> explained D M k.
Hypothesis key_inj : forall s t s' t', WT D s -> WT D t -> WT D s' -> WT D t' ->
  memo_key s t = memo_key s' t' -> s = s' /\ t = t'.

Definition R (s t : sty) : Prop := J M s t /\ WT D s /\ WT D t.

Lemma R_brs bs cs m m' (ctor : brs -> mode -> sty)
  (Hc : forall b mm c, child (ctor b mm) c <-> In_br c b) :
  WT D (ctor bs m) -> WT D (ctor cs m') -> brs_sim (J M) bs cs -> brs_sim R bs cs.
Proof.
  intros Ws Wt [H1 H2]. split; [exact H1|]. intros l a a' E1 E2. split; [eauto|]. split.
  - eapply WT_child; [exact Ws|]. apply Hc. eapply find_br_In; eauto.
  - eapply WT_child; [exact Wt|]. apply Hc. eapply find_br_In; eauto.
Qed.

(* a structural J-step between well-formed non-name types yields the same head *)
Lemma J_struct_head s t : is_name s = false -> is_name t = false -> WT D s -> WT D t -> J M s t ->
  (forall k, In k M -> memo_key s t <> k) -> same_head R s t.
Proof.
  intros Hs Ht Ws Wt Hj Hnm.
  destruct (WT_parts _ _ Ws) as (_ & _ & _ & _ & Hl & _).
  inversion Hj; subst; cbn in Hs, Ht; try discriminate.
  - exfalso. eapply Hnm; eauto.
  - constructor.
  - constructor; (split; [assumption|]; split; wtc).
  - constructor; (split; [assumption|]; split; wtc).
  - constructor. cbn in Hl. apply andb_true_iff in Hl. destruct Hl as [Hl _].
    eapply (R_brs bs cs m m TPlus); eauto; [cbn; tauto|]. apply JB_sim; auto.
  - constructor. cbn in Hl. apply andb_true_iff in Hl. destruct Hl as [Hl _].
    eapply (R_brs bs cs m m TWith); eauto; [cbn; tauto|]. apply JB_sim; auto.
  - constructor; (split; [assumption|]; split; wtc).
  - constructor; (split; [assumption|]; split; wtc).
Qed.

Lemma explained_name k : In k M -> forall s t, WT D s -> WT D t -> memo_key s t = k ->
  (is_name s || is_name t = true) /\ exists s' t', expand1 D s = Some s' /\ expand1 D t = Some t' /\ J M s' t'.
Proof.
  intros Hin s t Ws Wt Hk. destruct (Hexp _ Hin) as (s0 & t0 & Hk0 & Ws0 & Wt0 & Hn & Hrest).
  destruct (key_inj s t s0 t0 Ws Wt Ws0 Wt0) as [-> ->]; [congruence|]. auto.
Qed.

Lemma expand_head_n s s' n h : expand1 D s = Some s' -> head_n D n s h ->
  exists n', head_n D n' s' h /\ (if is_name s then S n' = n else n' = n).
Proof.
  intros He Hh. destruct Hh as [t Ht | n x m d h Hl Hh].
  - assert (s' = t) by (destruct t; cbn in *; try discriminate; congruence). subst.
    exists 0. rewrite Ht. split; [constructor; assumption | reflexivity].
  - cbn in He. rewrite Hl in He. inversion He; subst. exists n. split; [assumption | reflexivity].
Qed.

Lemma head_n_mode n x m m' h : head_n D n (TName x m) h -> head_n D n (TName x m') h.
Proof. intros H. inversion H; subst; [cbn in *; discriminate | econstructor; eauto]. Qed.

Lemma J_heads : forall k s t n1 n2 h1 h2, n1 + n2 <= k ->
  head_n D n1 s h1 -> head_n D n2 t h2 -> WT D s -> WT D t -> J M s t -> same_head R h1 h2.
Proof.
  induction k as [|k IH]; intros s t n1 n2 h1 h2 Hle H1 H2 Ws Wt Hj.
  - assert (n1 = 0) by lia. assert (n2 = 0) by lia. subst.
    inversion H1; subst. inversion H2; subst.
    apply J_struct_head; auto.
    intros k Hin Hk. destruct (explained_name k Hin _ _ Ws Wt Hk) as [Hn _].
    rewrite H, H0 in Hn. discriminate.
  - destruct (In_dec_str (memo_key s t) M) as [Hin | Hnin].
    + (* assumed pair: explained by its expansion *)
      destruct (explained_name _ Hin _ _ Ws Wt eq_refl) as [Hn (s' & t' & E1 & E2 & Hj')].
      destruct (expand_head_n _ _ _ _ E1 H1) as [n1' [H1' Hc1]].
      destruct (expand_head_n _ _ _ _ E2 H2) as [n2' [H2' Hc2]].
      apply (IH s' t' n1' n2' h1 h2); auto.
      * destruct (is_name s), (is_name t); cbn in Hn; try discriminate; lia.
      * exact (WT_expand1 D HD s s' Ws E1).
      * exact (WT_expand1 D HD t t' Wt E2).
    + inversion Hj; subst.
      * contradiction.
      * (* the same name on both sides *)
        destruct (head_n_det _ _ _ _ (head_n_mode _ _ _ m' _ H1) _ _ H2); subst.
        assert (Wh : WT D h2) by (eapply head_n_WT; eauto).
        pose proof (head_n_nonname _ _ _ _ H2) as Hnn.
        destruct (WT_parts _ _ Wh) as (_ & _ & _ & _ & Hl & _).
        apply J_struct_head; auto; [apply J_refl; exact Hl|].
        intros k0 Hin Hk. destruct (explained_name k0 Hin _ _ Wh Wh Hk) as [Hn _].
        rewrite Hnn in Hn. discriminate.
      * inversion H1; subst. inversion H2; subst. apply J_struct_head; auto. intros k0 Hin Hk; subst; contradiction.
      * inversion H1; subst. inversion H2; subst. apply J_struct_head; auto. intros k0 Hin Hk; subst; contradiction.
      * inversion H1; subst. inversion H2; subst. apply J_struct_head; auto. intros k0 Hin Hk; subst; contradiction.
      * inversion H1; subst. inversion H2; subst. apply J_struct_head; auto. intros k0 Hin Hk; subst; contradiction.
      * inversion H1; subst. inversion H2; subst. apply J_struct_head; auto. intros k0 Hin Hk; subst; contradiction.
      * inversion H1; subst. inversion H2; subst. apply J_struct_head; auto. intros k0 Hin Hk; subst; contradiction.
      * inversion H1; subst. inversion H2; subst. apply J_struct_head; auto. intros k0 Hin Hk; subst; contradiction.
Qed.

Lemma R_consistent : Consistent D R.
Proof.
  intros s t [Hj [Ws Wt]]. destruct (WT_head D HD _ Ws) as [n1 [h1 H1]]. destruct (WT_head D HD _ Wt) as [n2 [h2 H2]].
  exists h1, h2. split; [eapply head_n_head; eauto|]. split; [eapply head_n_head; eauto|].
  eapply J_heads; eauto.
Qed.
End ToBisim.

Definition key_injective_on (D : tenv) : Prop :=
  forall s t s' t', WT D s -> WT D t -> WT D s' -> WT D t' -> memo_key s t = memo_key s' t' -> s = s' /\ t = t'.

Theorem eq_ty_sound D k n s t M' :
  wf_env D = true -> key_injective_on D -> WT D s -> WT D t ->
  eq_ty k D n s t [] = Ok (true, M') -> Bisim D s t.
Proof.
  intros HD Hk Ws Wt H. apply (eq_ty_good D HD) in H; auto. destruct H as [_ [Hj He]].
  exists (R D M'). split; [split; auto|]. apply R_consistent; auto.
Qed.
