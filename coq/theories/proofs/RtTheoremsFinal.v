(* RtTheoremsFinal.v — C01 (three modes) and C02 (polarized modes) for parsed, accepted, closed programs
   with NO further premise; the forest invariant in the non-polarized mode: proofs/InvNP.v,
   proofs/DeterminismNP.v (another contributor); polarized modes: the forest invariant Topo holds along every run (proofs/DeterminismAll.v
   `topo_runs_all`, for sources that pass `all_src_b`) and `all_src_b` holds of every parsed accepted
   program (proofs/SrcAll.v).  The statements with the premises spelled out are kept in
   proofs/RtTheoremsTc.v. *)
From stdpp Require Import gmap strings sorting.
Require Import Grits.Base Grits.ModeDefs Grits.Modes Grits.STypes Grits.Forms Grits.Subst Grits.TcDeps Grits.Expand
               Grits.Tc Grits.TcTop Grits.spec.SynOk
               Grits.Runtime Grits.spec.RtTyping Grits.spec.Topo Grits.proofs.RtSubst Grits.proofs.RtEffect
               Grits.proofs.StepErrors Grits.proofs.RtSafety Grits.proofs.RtInit Grits.proofs.RtProgress
               Grits.proofs.RtTheorems Grits.proofs.RtTcSyn Grits.proofs.RtTcBisim Grits.proofs.RtTheoremsTc
               Grits.proofs.DeterminismAll Grits.proofs.InvNP Grits.proofs.DeterminismNP Grits.proofs.SrcAll
               Grits.proofs.RtSafetyNP Grits.proofs.RtProgressNP Grits.proofs.AsyncSync.

(* with the source test as premise (any accepted closed program given as text) *)
Theorem safety_src_partial txt p p' md :
  parse_string txt = POk p -> typecheck p = Accept p' -> in_fragment p' -> all_src_b p = true ->
  is_np md = false ->
  forall fuel pick c who e,
    exec_run fuel pick md (p_types p') (p_funs p') (init_config p') <> RError c who e.
Proof.
  intros Hp Ha Hf Hall. exact (safety_parsed_partial txt p p' md Hp Ha Hf (topo_runs_all txt p p' Hp Ha Hf Hall)).
Qed.

(* the forest invariant along every run of a parsed accepted closed program *)
Theorem topo_runs_parsed txt p p' :
  parse_string txt = POk p -> typecheck p = Accept p' -> in_fragment p' -> topo_runs p'.
Proof. intros Hp Ha Hf. exact (topo_runs_all txt p p' Hp Ha Hf (all_src_parsed txt p p' Hp Ha)). Qed.

(* C01, polarized modes *)
Theorem safety_parsed txt p p' md :
  parse_string txt = POk p -> typecheck p = Accept p' -> in_fragment p' -> is_np md = false ->
  forall fuel pick c who e,
    exec_run fuel pick md (p_types p') (p_funs p') (init_config p') <> RError c who e.
Proof.
  intros Hp Ha Hf. exact (safety_parsed_partial txt p p' md Hp Ha Hf (topo_runs_parsed txt p p' Hp Ha Hf)).
Qed.

Theorem reachable_typed_parsed txt p p' md c :
  parse_string txt = POk p -> typecheck p = Accept p' -> in_fragment p' -> is_np md = false ->
  reachable (p_types p') (p_funs p') md (init_config p') c ->
  exists Δ, init_delta p' ⊆ Δ /\ cfg_typed (p_types p') (p_funs p') (teq_rt (p_types p')) Δ c /\ Topo c.
Proof.
  intros Hp Ha Hf Hnp Hr.
  destruct (reachable_typed_tc p p' md c Ha Hf (ParseSynOk.parse_syn_ok _ _ Hp) (ParseRaw.parse_raw_ok _ _ Hp)
              (topo_runs_parsed txt p p' Hp Ha Hf) Hnp Hr) as [Δ [H1 H2]].
  exists Δ. split; auto. split; auto. exact (topo_runs_parsed txt p p' Hp Ha Hf md c Hnp Hr).
Qed.

(* C02, asynchronous mode *)
Theorem progress_run_parsed txt p p' :
  parse_string txt = POk p -> typecheck p = Accept p' -> in_fragment p' ->
  forall fuel pick c,
    exec_run fuel pick Async (p_types p') (p_funs p') (init_config p') = RQuiescent c ->
    exists Δ : gmap cid sty,
    (forall self pr, procs c !! self = Some pr ->
       exists k st T, action_of Async (p_types p') pr = ARecv k /\ own_chan pr k /\
                      Δ !! k = Some T /\ pol_of_ty (p_types p') T Neg /\
                      chans c !! k = Some st /\ ch_buf st = None /\ ch_closed st = false) /\
    (forall k st m, chans c !! k = Some st -> ch_buf st = Some m -> is_pos_rule (m_rule m) = true) /\
    ((forall k, alive c k -> exists o, obj_in c o /\ k ∈ refs o) -> procs c = ∅).
Proof.
  intros Hp Ha Hf. exact (progress_run_parsed_partial txt p p' Hp Ha Hf (topo_runs_parsed txt p p' Hp Ha Hf)).
Qed.

(* C02, synchronous mode *)
Theorem progress_sync_run_parsed txt p p' :
  parse_string txt = POk p -> typecheck p = Accept p' -> in_fragment p' ->
  forall fuel pick c,
    exec_run fuel pick Sync (p_types p') (p_funs p') (init_config p') = RQuiescent c ->
    (forall self pr, procs c !! self = Some pr ->
       exists k, own_chan pr k /\
         (action_of Sync (p_types p') pr = ARecv k \/
          exists m, action_of Sync (p_types p') pr = ASend k m /\ is_pos_rule (m_rule m) = true)) /\
    ((forall k, (exists self pr, procs c !! self = Some pr /\ k ∈ cids_of (pr_provs pr)) ->
                exists o, obj_in c o /\ k ∈ refs o) -> procs c = ∅).
Proof.
  intros Hp Ha Hf. exact (progress_sync_run_parsed_partial txt p p' Hp Ha Hf (topo_runs_parsed txt p p' Hp Ha Hf)).
Qed.

(* the forest invariant along every run of the non-polarized mode *)
Theorem topo_runs_np_parsed txt p p' :
  parse_string txt = POk p -> typecheck p = Accept p' -> in_fragment p' -> topo_runs_np p'.
Proof. intros Hp Ha Hf. exact (topo_runs_np_all txt p p' Hp Ha Hf (all_src_parsed txt p p' Hp Ha)). Qed.

Theorem safety_np_parsed txt p p' :
  parse_string txt = POk p -> typecheck p = Accept p' -> in_fragment p' ->
  forall fuel pick c who e,
    exec_run fuel pick NP (p_types p') (p_funs p') (init_config p') <> RError c who e.
Proof. intros Hp Ha Hf. exact (safety_np_parsed_partial txt p p' Hp Ha Hf (topo_runs_np_parsed txt p p' Hp Ha Hf)). Qed.

(* C01, the statement aimed at (`safety_statement` of proofs/RtTheorems.v): the three execution modes *)
Theorem safety_all_modes_parsed txt p p' md :
  parse_string txt = POk p -> typecheck p = Accept p' -> in_fragment p' ->
  forall fuel pick c who e,
    exec_run fuel pick md (p_types p') (p_funs p') (init_config p') <> RError c who e.
Proof.
  intros Hp Ha Hf. destruct (is_np md) eqn:Hnp.
  - destruct md; try discriminate Hnp. exact (safety_np_parsed txt p p' Hp Ha Hf).
  - exact (safety_parsed txt p p' md Hp Ha Hf Hnp).
Qed.

(* every configuration reachable in the non-polarized mode is typed and satisfies Topo *)
Theorem reachable_typed_np_parsed txt p p' c :
  parse_string txt = POk p -> typecheck p = Accept p' -> in_fragment p' ->
  reachable (p_types p') (p_funs p') NP (init_config p') c ->
  (exists Δ, init_delta p' ⊆ Δ /\ cfg_typed (p_types p') (p_funs p') (teq_rt (p_types p')) Δ c) /\ Topo c.
Proof.
  intros Hp Ha Hf Hr. pose proof (topo_runs_np_parsed txt p p' Hp Ha Hf) as Ht.
  pose proof (tc_annotations_typed_parsed txt p p' Hp Ha Hf) as Hst.
  split; [|exact (Ht c Hr)].
  apply (RtSafetyNP.reachable_typed_np (p_types p') (p_funs p') (teq_rt (p_types p')) (teq_rt_laws _) (proj1 Hst)
           (init_delta p') (init_config p') c (initial_typed _ p' (teq_rt_laws _) Hst)); auto.
  intros c1 Hr1. apply RtSafetyNP.topo_closed_unused_np. exact (Ht c1 Hr1).
Qed.

(* ------------------------------------------------------------------ C02 in the non-polarized mode *)
Lemma enabled_nil_quiescent_np D F c : enabled NP D F c = [] -> quiescent NP D F c.
Proof.
  intros He ch.
  destruct (step NP D F c ch) eqn:Es; auto; exfalso.
  all: assert (Hin : In ch (enabled NP D F c)); [|rewrite He in Hin; contradiction].
  all: unfold enabled; apply filter_In; split; [|rewrite Es; auto].
  all: unfold candidates; destruct ch as [self|s r|f t].
  all: try (apply in_or_app; left; apply in_map;
            simpl in Es; destruct (procs c !! self) as [p|] eqn:Ep; [|discriminate];
            eapply pids_elem; eauto).
  all: apply in_or_app; right; simpl in Es.
  all: try (destruct (bool_decide (s = r)); try discriminate;
            destruct (procs c !! s) as [ps|] eqn:Eps; try discriminate;
            destruct (procs c !! r) as [pr|] eqn:Epr; try discriminate;
            apply in_or_app; left; apply in_flat_map; exists s; split; [eapply pids_elem; eauto|];
            apply in_map; eapply pids_elem; eauto).
  all: destruct (bool_decide (f = t)); try discriminate.
  all: destruct (procs c !! f) as [pf|] eqn:Epf; try discriminate.
  all: destruct (procs c !! t) as [pt|] eqn:Ept; try discriminate.
  all: apply in_or_app; right; apply in_flat_map; exists f; split; [eapply pids_elem; eauto|].
  all: apply in_map; eapply pids_elem; eauto.
Qed.

Section RunsNP.
Variable D : tenv.
Variable F : list fundef.
Variable teq : sty -> sty -> Prop.
Hypothesis Hteq : teq_laws D teq.
Hypothesis HF : funs_typed D F teq.

Lemma exec_run_quiescent_np fuel pick : forall Δ c cq,
  cfg_typed D F teq Δ c -> bufs_empty c -> (forall c', reachable D F NP c c' -> Topo c') ->
  exec_run fuel pick NP D F c = RQuiescent cq ->
  reachable D F NP c cq /\ quiescent NP D F cq /\ bufs_empty cq /\ exists Δ', cfg_typed D F teq Δ' cq.
Proof.
  induction fuel as [|fuel IH]; intros Δ c cq Hc Hbe Htopo; [simpl; discriminate|].
  rewrite (exec_run_S D F).
  destruct (enabled NP D F c) as [|e0 es] eqn:Een.
  - intros [= <-]. split; [apply reach_refl|]. split; [apply enabled_nil_quiescent_np; auto|eauto].
  - cbv zeta.
    set (ch := nth (pick (S fuel) (S (length es)) mod S (length es)) (e0 :: es) e0).
    assert (Hin : In ch (enabled NP D F c)).
    { rewrite Een. apply nth_In. change (length (e0 :: es)) with (S (length es)).
      apply Nat.mod_upper_bound. lia. }
    apply enabled_sound in Hin.
    destruct (step NP D F c ch) as [|c2|who' e'] eqn:Es; [contradiction| |discriminate].
    intros Hrun.
    assert (Hcl : closed_unused D NP c) by (apply topo_closed_unused_np, Htopo, reach_refl).
    destruct (preservation_np D F teq Hteq HF Δ c ch c2 Hc Hcl Es) as [Δ' [_ Hc2]].
    assert (Hstep : reachable D F NP c c2) by (eapply reach_step; [apply reach_refl|eauto]).
    destruct (IH Δ' c2 cq Hc2) as [Hr [Hq Ht]]; auto.
    + eapply np_step_bufs_empty; eauto.
    + intros c' Hc'. apply Htopo. eapply reachable_trans; eauto.
    + split; auto. eapply reachable_trans; eauto.
Qed.
End RunsNP.

(* what is left when a run of the non-polarized mode ends in quiescence: no forward; every survivor
   is blocked on its OWN provider channel, receiving, or offering a positive message nobody takes; if
   each of these channels has a client, nobody survives *)
Theorem progress_np_run_parsed txt p p' :
  parse_string txt = POk p -> typecheck p = Accept p' -> in_fragment p' ->
  forall fuel pick c,
    exec_run fuel pick NP (p_types p') (p_funs p') (init_config p') = RQuiescent c ->
    (forall self pr, procs c !! self = Some pr ->
       exists k, own_chan pr k /\
         (action_of NP (p_types p') pr = ARecv k \/
          exists m, action_of NP (p_types p') pr = ASend k m /\ is_pos_rule (m_rule m) = true)) /\
    ((forall k, (exists self pr, procs c !! self = Some pr /\ k ∈ cids_of (pr_provs pr)) ->
                exists o, obj_in c o /\ k ∈ refs o) -> procs c = ∅).
Proof.
  intros Hp Ha Hf fuel pick c Hrun.
  pose proof (tc_annotations_typed_parsed txt p p' Hp Ha Hf) as Hst.
  pose proof (topo_runs_np_parsed txt p p' Hp Ha Hf) as Ht.
  destruct (exec_run_quiescent_np (p_types p') (p_funs p') (teq_rt (p_types p')) (teq_rt_laws _) (proj1 Hst) fuel pick
              (init_delta p') (init_config p') c (initial_typed _ p' (teq_rt_laws _) Hst) (bufs_empty_init p') Ht Hrun)
    as (Hr & Hq & Hbe & Δ & Hc).
  exact (progress_np_partial (p_types p') (p_funs p') (teq_rt (p_types p')) (teq_rt_laws _) (proj1 Hst) Δ c Hc (Ht c Hr) Hbe Hq).
Qed.
