(* RtTheoremsFinal.v — C01 (three modes) and C02 (polarized modes) for parsed, accepted, closed programs
   with NO further premise; non-polarized mode: proofs/TopoNP.v; polarized modes: the forest invariant Topo holds along every run (proofs/DeterminismAll.v
   `topo_runs_all`, for sources that pass `all_src_b`) and `all_src_b` holds of every parsed accepted
   program (proofs/SrcAll.v).  The statements with the premises spelled out are kept in
   proofs/RtTheoremsTc.v. *)
From stdpp Require Import gmap strings sorting.
Require Import Grits.Base Grits.ModeDefs Grits.Modes Grits.STypes Grits.Forms Grits.Subst Grits.TcDeps Grits.Expand
               Grits.Tc Grits.TcTop Grits.spec.SynOk
               Grits.Runtime Grits.spec.RtTyping Grits.spec.Topo Grits.proofs.RtSubst Grits.proofs.RtEffect
               Grits.proofs.StepErrors Grits.proofs.RtSafety Grits.proofs.RtInit Grits.proofs.RtProgress
               Grits.proofs.RtTheorems Grits.proofs.RtTcSyn Grits.proofs.RtTcBisim Grits.proofs.RtTheoremsTc
               Grits.proofs.DeterminismAll Grits.proofs.SrcAll Grits.proofs.TopoNP.

(* with the source test as premise (any accepted closed program given as text) *)
Theorem safety_src_partial txt p p' md :
  parse_string txt = POk p -> typecheck p = Accept p' -> in_fragment p' -> all_src_b p = true ->
  is_np md = false ->
  forall fuel pick c who e,
    exec_run fuel pick md (p_types p') (p_funs p') (init_config p') <> RError c who e.
Proof.
  intros Hp Ha Hf Hall. exact (safety_parsed_partial txt p p' md Hp Ha Hf (topo_runs_all txt p p' Hp Ha Hf Hall)).
Qed.

(* the forest invariant along every run of a parsed accepted closed program *)
Theorem topo_runs_parsed txt p p' :
  parse_string txt = POk p -> typecheck p = Accept p' -> in_fragment p' -> topo_runs p'.
Proof. intros Hp Ha Hf. exact (topo_runs_all txt p p' Hp Ha Hf (all_src_parsed txt p p' Hp Ha)). Qed.

(* C01, polarized modes *)
Theorem safety_parsed txt p p' md :
  parse_string txt = POk p -> typecheck p = Accept p' -> in_fragment p' -> is_np md = false ->
  forall fuel pick c who e,
    exec_run fuel pick md (p_types p') (p_funs p') (init_config p') <> RError c who e.
Proof.
  intros Hp Ha Hf. exact (safety_parsed_partial txt p p' md Hp Ha Hf (topo_runs_parsed txt p p' Hp Ha Hf)).
Qed.

Theorem reachable_typed_parsed txt p p' md c :
  parse_string txt = POk p -> typecheck p = Accept p' -> in_fragment p' -> is_np md = false ->
  reachable (p_types p') (p_funs p') md (init_config p') c ->
  exists Δ, init_delta p' ⊆ Δ /\ cfg_typed (p_types p') (p_funs p') (teq_rt (p_types p')) Δ c /\ Topo c.
Proof.
  intros Hp Ha Hf Hnp Hr.
  destruct (reachable_typed_tc p p' md c Ha Hf (ParseSynOk.parse_syn_ok _ _ Hp) (ParseRaw.parse_raw_ok _ _ Hp)
              (topo_runs_parsed txt p p' Hp Ha Hf) Hnp Hr) as [Δ [H1 H2]].
  exists Δ. split; auto. split; auto. exact (topo_runs_parsed txt p p' Hp Ha Hf md c Hnp Hr).
Qed.

(* C02, asynchronous mode *)
Theorem progress_run_parsed txt p p' :
  parse_string txt = POk p -> typecheck p = Accept p' -> in_fragment p' ->
  forall fuel pick c,
    exec_run fuel pick Async (p_types p') (p_funs p') (init_config p') = RQuiescent c ->
    exists Δ : gmap cid sty,
    (forall self pr, procs c !! self = Some pr ->
       exists k st T, action_of Async (p_types p') pr = ARecv k /\ own_chan pr k /\
                      Δ !! k = Some T /\ pol_of_ty (p_types p') T Neg /\
                      chans c !! k = Some st /\ ch_buf st = None /\ ch_closed st = false) /\
    (forall k st m, chans c !! k = Some st -> ch_buf st = Some m -> is_pos_rule (m_rule m) = true) /\
    ((forall k, alive c k -> exists o, obj_in c o /\ k ∈ refs o) -> procs c = ∅).
Proof.
  intros Hp Ha Hf. exact (progress_run_parsed_partial txt p p' Hp Ha Hf (topo_runs_parsed txt p p' Hp Ha Hf)).
Qed.

(* C02, synchronous mode *)
Theorem progress_sync_run_parsed txt p p' :
  parse_string txt = POk p -> typecheck p = Accept p' -> in_fragment p' ->
  forall fuel pick c,
    exec_run fuel pick Sync (p_types p') (p_funs p') (init_config p') = RQuiescent c ->
    (forall self pr, procs c !! self = Some pr ->
       exists k, own_chan pr k /\
         (action_of Sync (p_types p') pr = ARecv k \/
          exists m, action_of Sync (p_types p') pr = ASend k m /\ is_pos_rule (m_rule m) = true)) /\
    ((forall k, (exists self pr, procs c !! self = Some pr /\ k ∈ cids_of (pr_provs pr)) ->
                exists o, obj_in c o /\ k ∈ refs o) -> procs c = ∅).
Proof.
  intros Hp Ha Hf. exact (progress_sync_run_parsed_partial txt p p' Hp Ha Hf (topo_runs_parsed txt p p' Hp Ha Hf)).
Qed.

(* C01, the statement aimed at (`safety_statement` of proofs/RtTheorems.v): the three execution modes *)
Theorem safety_all_modes_parsed txt p p' md :
  parse_string txt = POk p -> typecheck p = Accept p' -> in_fragment p' ->
  forall fuel pick c who e,
    exec_run fuel pick md (p_types p') (p_funs p') (init_config p') <> RError c who e.
Proof.
  intros Hp Ha Hf. destruct (is_np md) eqn:Hnp.
  - destruct md; try discriminate Hnp. exact (safety_np_parsed txt p p' Hp Ha Hf).
  - exact (safety_parsed txt p p' md Hp Ha Hf Hnp).
Qed.

(* every configuration reachable in the non-polarized mode is typed and satisfies Topo *)
Theorem reachable_typed_np_parsed txt p p' c :
  parse_string txt = POk p -> typecheck p = Accept p' -> in_fragment p' ->
  reachable (p_types p') (p_funs p') NP (init_config p') c ->
  (exists Δ, init_delta p' ⊆ Δ /\ cfg_typed (p_types p') (p_funs p') (teq_rt (p_types p')) Δ c) /\ Topo c.
Proof.
  intros Hp Ha Hf Hr. pose proof (topo_runs_np_parsed txt p p' Hp Ha Hf) as Ht.
  pose proof (tc_annotations_typed_parsed txt p p' Hp Ha Hf) as Hst.
  split; [|exact (Ht c Hr)].
  apply (RtSafetyNP.reachable_typed_np (p_types p') (p_funs p') (teq_rt (p_types p')) (teq_rt_laws _) (proj1 Hst)
           (init_delta p') (init_config p') c (initial_typed _ p' (teq_rt_laws _) Hst)); auto.
  intros c1 Hr1. apply RtSafetyNP.topo_closed_unused_np. exact (Ht c1 Hr1).
Qed.
