(* ParseSound.v — C12 assembled: a text is accepted only if, in its entirety, it is a sentence of
   the grammar recovered from the tables; no byte is ignored other than whitespace and comments. *)
Require Import Grits.Base Grits.ModeDefs Grits.Modes Grits.STypes Grits.Forms Grits.Tokens Grits.Scan
               Grits.gen.LRTables Grits.gen.LRCert Grits.LR Grits.Actions Grits.Expand
               Grits.spec.ScanSpec Grits.spec.Grammar
               Grits.proofs.ScanProofs Grits.proofs.ScanCover Grits.proofs.LRCheck Grits.proofs.LRProof
               Grits.proofs.LRCertInst Grits.proofs.LRSound Grits.proofs.LRSoundInst.
Local Open Scope Z_scope.

(* the grammar recovered from the current tables *)
Definition g_rhs : Z -> list Z := rhs tRhs.
Definition Derives : Z -> list Z -> Prop := Der lhs g_rhs.

(* LR soundness for the current tables, any value algebra: the accept action is taken on `$end`
   only, `$end` is never shifted, and the tokens shifted before form a sentence *)
Theorem lr_sound : forall (V : Type) (tv : tk * string -> V) (ra : Z -> list V -> option V) fuel (v0 v : V) toks,
  run V tv ra fuel [(0, v0)] toks = LRAccept v ->
  exists w rest, toks = w ++ rest /\ lookahead rest = tEofCode /\ Derives START (map tokz w) /\
                 Forall (fun t => tokz t <> tEofCode) w.
Proof. intros V tv ra fuel v0 v toks. exact (lr_sound tE wIn wTop certC tRhs cert_ok sound_ok V tv ra fuel v0 v toks). Qed.

(* real token kinds never translate to `$end`; the two code-0 kinds do *)
Lemma tokz_real k lx : code0 k = false -> tokz (k, lx) <> tEofCode.
Proof.
  intros Hk. destruct (HC_parts tE wIn wTop certC cert_ok) as [_ [_ [_ [_ [_ [_ [_ [_ H]]]]]]]].
  rewrite forallb_forall in H. specialize (H k (all_tk_complete k)).
  unfold tokz. cbn [fst]. destruct k; try discriminate; cbn in H;
    (destruct (lex1 _ =? tEofCode) eqn:E; [discriminate | apply Z.eqb_neq; exact E]).
Qed.
Lemma tokz_code0 k lx : code0 k = true -> tokz (k, lx) = tEofCode.
Proof.
  intros Hk. destruct (HC_parts tE wIn wTop certC cert_ok) as [_ [_ [_ [_ [_ [_ [_ [H _]]]]]]]].
  unfold tokz. cbn [fst]. destruct k; try discriminate; exact H.
Qed.

Lemma split_unique {A} (P : A -> Prop) : forall init w last rest,
  init ++ [last] = w ++ rest -> Forall P init -> Forall P w -> ~ P last ->
  (rest = [] \/ exists r rs, rest = r :: rs /\ ~ P r) -> w = init /\ rest = [last].
Proof.
  induction init as [|a init IH]; intros w last rest Heq Hi Hw Hl Hr.
  - destruct w as [|x w]; cbn in Heq.
    + split; [reflexivity | symmetry; exact Heq].
    + inversion Heq; subst. inversion Hw; subst. contradiction.
  - destruct w as [|x w]; cbn in Heq.
    + destruct Hr as [-> | [r [rs [-> Hnr]]]]; [discriminate|].
      inversion Heq; subst. inversion Hi; subst. contradiction.
    + inversion Heq; subst. inversion Hi; inversion Hw; subst.
      destruct (IH w last rest H1 H3 H7 Hl Hr) as [-> ->]. split; reflexivity.
Qed.

(* everything an accepted text is made of *)
Definition accepted_text (s : string) (l : list stmt) : Prop :=
  exists (items : list item) (init : list (tk * string)) (lx : string),
    scan_items s = Some (items, "") /\                      (* nothing left unscanned *)
    s = items_cover items "" /\                             (* the spans, end to end, are the text *)
    items_ok items "" /\                                    (* each span: trivia or a spelling of its token *)
    items_tokens items = init ++ [(T_EOF, lx)] /\           (* one EOF, at the end *)
    Forall (fun t => code0 (fst t) = false) init /\         (* no ILLEGAL token *)
    Derives START (map tokz init) /\                        (* ALL tokens of the text form a sentence *)
    exists fuel, parse_tokens sval VUnit tok_val reduce_action fuel (init ++ [(T_EOF, lx)]) = LRAccept (VStmts l).

Theorem accept_consumes_all : forall s l, parse_statements s = POk l -> accepted_text s l.
Proof.
  intros s l H. unfold parse_statements in H.
  destruct (scan_items_tokens s) as [items [u [Hsi Hsa]]].
  rewrite Hsa in H. set (toks := items_tokens items) in *.
  destruct (parse_tokens sval VUnit tok_val reduce_action (lr_fuel (length toks)) toks) as [v | | p |] eqn:Hrun; try discriminate.
  destruct (has_illegal toks) eqn:Hill; [discriminate|].
  destruct v; try discriminate. inversion H; subst l0. clear H.
  destruct (scan_all_shape _ _ _ Hsa) as [init [k [lx [Hshape [Hk Hinit]]]]].
  fold toks in Hshape.
  (* the final token is EOF, not ILLEGAL *)
  assert (Hkeof : k = T_EOF).
  { destruct k; try discriminate; [reflexivity|]. exfalso.
    unfold has_illegal in Hill. rewrite Hshape, existsb_app in Hill. cbn in Hill.
    rewrite orb_true_r in Hill. discriminate. }
  subst k.
  unfold parse_tokens in Hrun.
  destruct (lr_sound _ _ _ _ _ _ _ Hrun) as [w [rest [Hsplit [Hla [Hder Hw]]]]].
  rewrite Hshape in Hsplit.
  assert (Huniq : w = init /\ rest = [(T_EOF, lx)]).
  { apply (split_unique (fun t => tokz t <> tEofCode)); try assumption.
    - eapply Forall_impl; [|exact Hinit]. intros [k0 lx0] Hk0. apply tokz_real. exact Hk0.
    - intros Hne. apply Hne. apply tokz_code0. reflexivity.
    - destruct rest as [|[k0 lx0] rs]; [left; reflexivity|]. right. exists (k0, lx0), rs. split; [reflexivity|].
      intros Hne. apply Hne. exact Hla. }
  destruct Huniq as [-> ->].
  assert (Hu : u = "").
  { eapply (scan_items_eof_rest _ _ _ _ Hsi); [exact Hshape | exact Hinit]. }
  subst u. destruct (scan_covers _ _ _ Hsi) as [Hc Hok].
  exists items, init, lx. repeat split; try assumption.
  exists (lr_fuel (length toks)). unfold parse_tokens. rewrite <- Hshape. exact Hrun.
Qed.

(* acceptance implies that the scanner met no illegal character *)
Theorem no_illegal_accept : forall s l, parse_statements s = POk l ->
  exists toks, scan_all s = Tokens toks /\ Forall (fun t => fst t <> T_ILLEGAL) toks.
Proof.
  intros s l H. destruct (accept_consumes_all s l H) as [items [init [lx [Hsi [_ [_ [Ht [Hreal _]]]]]]]].
  destruct (scan_items_tokens s) as [items' [u' [Hsi' Hsa]]]. rewrite Hsi in Hsi'. inversion Hsi'; subst items' u'.
  exists (items_tokens items). split; [exact Hsa|]. rewrite Ht. apply Forall_app. split.
  - eapply Forall_impl; [|exact Hreal]. intros [k lx0] Hk Heq. cbn [fst] in *. subst k. discriminate.
  - constructor; [cbn; discriminate | constructor].
Qed.

(* the grammar recovered from the current tables is the reference grammar (spec/RefGrammar.v) *)
Require Import Grits.spec.RefGrammar.
Lemma grammar_is_reference : tR1 = ref_lhs_tab /\ tRhs = ref_rhs_tab.
Proof. split; vm_compute; reflexivity. Qed.
