(* HostGlobalsProofs.v — C19 with package-level state in the host: if the table of uses extracted
   from the Go source has no mutating row outside init-time code, a host whose runs may read and
   (as far as the table permits) update a store of package-level variables is isolated; the premise
   is discharged by GlobalsProofs.globals_immutable over the table regenerated on every run.
   And the premise is needed: with one UWrite row (the memo of seeded change C19-1) there is a
   pipeline that behaves like the model in every fresh process and is not isolated. *)
From stdpp Require Import gmap.
Require Import Grits.Base Grits.Expand Grits.TcTop Grits.Runtime Grits.Host Grits.proofs.HostProofs.
Require Import Grits.GlobalsDefs Grits.gen.Globals Grits.GlobalsDiscipline Grits.proofs.GlobalsProofs Grits.HostGlobals.

Section Generic.
Context {V : Type}.
Variable tbl : list guse.
(* the premise, in the form the table theorem delivers it *)
Hypothesis Himm : forall u, In u tbl -> init_context u = false -> is_mutation (u_kind u) = false.

Lemma never_may_mutate v f : ~ may_mutate tbl v f.
Proof.
  intros (u & Hin & _ & _ & Hm & Hi). rewrite (Himm u Hin Hi) in Hm. discriminate.
Qed.

(* a permitted computation leaves the store as it found it *)
Lemma permitted_store_unchanged {A} (p : gprog V A) (st : gstore V) :
  permitted tbl p -> snd (gexec st p) = st.
Proof.
  revert st. induction p as [a | v f k IH | v f x k IH]; intros st Hp; cbn in *.
  - reflexivity.
  - apply IH. apply Hp.
  - destruct Hp as [Hm _]. destruct (never_may_mutate v f Hm).
Qed.

Variable pick : nat -> nat -> nat.
Variable fuel : nat.
Variable pipe : string -> gprog V (outcome1 * list leftover).
Variable left : list nat -> gprog V unit.
Variable st0 : gstore V.                                  (* the store after package initialisation *)
Hypothesis Hpipe : forall s, permitted tbl (pipe s).
Hypothesis Hleft : forall w, permitted tbl (left w).
(* from the initial store the pipeline is the model (what the correspondence suites check, one fresh process per program) *)
Hypothesis Hagree : forall s, fst (gexec st0 (pipe s)) = run_alone pick fuel s.

Lemma ghost_run_eq who h s :
  ghost_run pipe left who (h, st0) s =
  (fst (host_run pick fuel who h s), (snd (host_run pick fuel who h s), st0)).
Proof.
  unfold ghost_run, host_run.
  rewrite (permitted_store_unchanged (left who) st0 (Hleft who)).
  pose proof (Hagree s) as Ha. pose proof (permitted_store_unchanged (pipe s) st0 (Hpipe s)) as Hs.
  destruct (gexec st0 (pipe s)) as [[o ls] st2]. cbn in Ha, Hs. subst st2. rewrite <- Ha. reflexivity.
Qed.

(* the host with package-level state coincides with the host of Host.v, and its store never changes *)
Theorem ghost_runs_eq h hist :
  ghost_runs pipe left (h, st0) hist =
  (fst (host_runs pick fuel h hist), (snd (host_runs pick fuel h hist), st0)).
Proof.
  revert h. induction hist as [|[who s] r IH]; intros h; [reflexivity|].
  cbn [ghost_runs host_runs]. rewrite ghost_run_eq.
  destruct (host_run pick fuel who h s) as [o h1]. cbn [fst snd].
  rewrite IH. destruct (host_runs pick fuel h1 r) as [os h2]. reflexivity.
Qed.

Theorem isolated_globals_generic h hist i ws :
  nth_error hist i = Some ws ->
  nth_error (fst (ghost_runs pipe left (h, st0) hist)) i = Some (fst (host_run pick fuel [] fresh_host (snd ws))).
Proof.
  intros H. rewrite ghost_runs_eq. cbn [fst]. apply isolated. exact H.
Qed.

Theorem ghost_output h hist :
  h_output (fst (snd (ghost_runs pipe left (h, st0) hist))) =
  h_output h ++ concat (map (fun ws => printed (outcome_alone pick fuel (snd ws))) hist).
Proof. rewrite ghost_runs_eq. cbn [fst snd]. apply host_output. Qed.

Theorem ghost_store_unchanged h hist : snd (snd (ghost_runs pipe left (h, st0) hist)) = st0.
Proof. rewrite ghost_runs_eq. reflexivity. Qed.
End Generic.

(* the statement with the table theorem as its explicit premise: any table of uses *)
Theorem isolated_if_table_immutable {V : Type} (tbl : list guse) :
  table_immutable tbl = true ->
  forall pick fuel (pipe : string -> gprog V (outcome1 * list leftover)) (left : list nat -> gprog V unit) (st0 : gstore V),
  (forall s, permitted tbl (pipe s)) -> (forall w, permitted tbl (left w)) ->
  (forall s, fst (gexec st0 (pipe s)) = run_alone pick fuel s) ->
  forall h hist i ws, nth_error hist i = Some ws ->
  nth_error (fst (ghost_runs pipe left (h, st0) hist)) i = Some (fst (host_run pick fuel [] fresh_host (snd ws))).
Proof.
  intros Ht pick fuel pipe left st0 Hp Hl Ha h hist i ws H.
  exact (isolated_globals_generic tbl (table_immutable_no_mutation tbl Ht) pick fuel pipe left st0 Hp Hl Ha h hist i ws H).
Qed.

(* ... and for the table of the code as it is now: the premise is discharged by computation *)
Theorem isolated_globals {V : Type} :
  forall pick fuel (pipe : string -> gprog V (outcome1 * list leftover)) (left : list nat -> gprog V unit) (st0 : gstore V),
  (forall s, permitted pipeline_uses (pipe s)) -> (forall w, permitted pipeline_uses (left w)) ->
  (forall s, fst (gexec st0 (pipe s)) = run_alone pick fuel s) ->
  forall h hist i ws, nth_error hist i = Some ws ->
  nth_error (fst (ghost_runs pipe left (h, st0) hist)) i = Some (fst (host_run pick fuel [] fresh_host (snd ws))).
Proof. exact (isolated_if_table_immutable pipeline_uses pipeline_table_immutable). Qed.

Theorem globals_store_never_changes {V : Type} :
  forall pick fuel (pipe : string -> gprog V (outcome1 * list leftover)) (left : list nat -> gprog V unit) (st0 : gstore V),
  (forall s, permitted pipeline_uses (pipe s)) -> (forall w, permitted pipeline_uses (left w)) ->
  (forall s, fst (gexec st0 (pipe s)) = run_alone pick fuel s) ->
  forall h hist,
  ghost_runs pipe left (h, st0) hist = (fst (host_runs pick fuel h hist), (snd (host_runs pick fuel h hist), st0)).
Proof.
  intros pick fuel pipe left st0 Hp Hl Ha h hist.
  exact (ghost_runs_eq pipeline_uses (table_immutable_no_mutation _ pipeline_table_immutable) pick fuel pipe left st0 Hp Hl Ha h hist).
Qed.

(* ---------------------------------------------------------------------------------------------
   The premise is necessary.  A table with ONE mutating row (the memo `knownEqualTypes` that seeded
   change C19-1 adds to types.EqualType) admits a pipeline that (a) is permitted by the table,
   (b) behaves exactly like the model in every fresh process, and (c) is not isolated: the second
   run of the same accepted program is rejected. *)
Definition memo_tbl : list guse :=
  [mkGuse "types" "knownEqualTypes" "types" "EqualType" UWrite false 1;
   mkGuse "types" "knownEqualTypes" "types" "innerEqualType" URead false 1].
Definition memo_v : gid := ("types", "knownEqualTypes").

Definition memo_pipe (pick : nat -> nat -> nat) (fuel : nat) (s : string) : gprog nat (outcome1 * list leftover) :=
  GGet memo_v ("types", "innerEqualType")
       (fun x => match x with
                 | O => GSet memo_v ("types", "EqualType") 1 (GRet (run_alone pick fuel s))
                 | S _ => GRet (OReject, [])
                 end).

Lemma memo_pipe_permitted pick fuel s : permitted memo_tbl (memo_pipe pick fuel s).
Proof.
  cbn. intros [|x]; cbn; [|exact I]. split; [|exact I].
  exists (mkGuse "types" "knownEqualTypes" "types" "EqualType" UWrite false 1).
  repeat split. left. reflexivity.
Qed.

Lemma memo_pipe_agrees pick fuel s : fst (gexec (fun _ => 0) (memo_pipe pick fuel s)) = run_alone pick fuel s.
Proof. reflexivity. Qed.

Example memo_table_not_immutable : table_immutable memo_tbl = false.
Proof. vm_compute. reflexivity. Qed.

Example isolation_needs_immutable_globals :
  let pick := fun _ _ => 0 in
  let prog := "prc[a] : 1 = print one; close self" in
  fst (ghost_runs (memo_pipe pick 1000) (fun _ => GRet tt) (fresh_host, fun _ => 0) [([], prog); ([], prog)])
  = [ORan ["one"]; OReject]
  /\ fst (host_run pick 1000 [] fresh_host prog) = ORan ["one"].
Proof. vm_compute. split; reflexivity. Qed.

Lemma memo_counterexample :
  table_immutable memo_tbl = false /\
  (forall pick fuel s, permitted memo_tbl (memo_pipe pick fuel s)) /\
  (forall pick fuel s, fst (gexec (fun _ => 0) (memo_pipe pick fuel s)) = run_alone pick fuel s) /\
  let pick := fun _ _ => 0 in
  let prog := "prc[a] : 1 = print one; close self" in
  fst (ghost_runs (memo_pipe pick 1000) (fun _ => GRet tt) (fresh_host, fun _ => 0) [([], prog); ([], prog)])
  = [ORan ["one"]; OReject]
  /\ fst (host_run pick 1000 [] fresh_host prog) = ORan ["one"].
Proof.
  split; [exact memo_table_not_immutable|]. split; [exact memo_pipe_permitted|]. split; [exact memo_pipe_agrees|].
  exact isolation_needs_immutable_globals.
Qed.
