(* ParseTotal.v — C11 assembled: the scanner and the LR driver of the model never run out of
   fuel, with fuel linear in the length of the text. *)
Require Import Grits.Base Grits.ModeDefs Grits.Modes Grits.STypes Grits.Forms Grits.Infer Grits.Tokens Grits.Scan
               Grits.gen.LRTables Grits.gen.LRCert Grits.LR Grits.Actions Grits.Expand
               Grits.proofs.ScanProofs Grits.proofs.LRCheck Grits.proofs.LRProof Grits.proofs.LRCertInst.
Local Open Scope Z_scope.

(* instance of the generic theorem for the tables of the current parser.y.go, any value algebra *)
Theorem lr_terminates_inst : forall (V : Type) (tok_val : tk * string -> V) (ra : Z -> list V -> option V)
    (v0 : V) (toks : list (tk * string)) (fuel : nat),
  certC * Z.of_nat (length toks) + nthZ wTop 0 + 1 <= Z.of_nat fuel ->
  run V tok_val ra fuel [(0, v0)] toks <> LROutOfFuel.
Proof. intros. eapply (lr_terminates tE wIn wTop certC cert_ok); eassumption. Qed.

(* the fuel handed in by Expand.parse_statements suffices *)
Theorem lr_fuel_enough : forall toks,
  parse_tokens sval VUnit tok_val reduce_action (lr_fuel (length toks)) toks <> LROutOfFuel.
Proof.
  intros toks. unfold parse_tokens. apply lr_terminates_inst.
  pose proof cert_small as H. apply andb_true_iff in H. destruct H as [H1 H2].
  apply Z.leb_le in H1, H2. unfold lr_fuel.
  rewrite Nat2Z.inj_mul, Nat2Z.inj_add. change (Z.of_nat 64) with 64. change (Z.of_nat 2) with 2.
  assert (0 <= Z.of_nat (length toks)) by lia. nia.
Qed.

(* C11, parser front end: scanning + LR parsing of ANY byte string stops with statements or an
   error; the two fuels are  S (length s)  and  64 * (#tokens + 2) <= 64 * (length s + 3) *)
Theorem parse_statements_no_hang : forall s w, parse_statements s <> PHang w.
Proof.
  intros s w. unfold parse_statements.
  destruct (scan_total_tokens s) as [toks ->].
  pose proof (lr_fuel_enough toks) as Hf.
  destruct (parse_tokens sval VUnit tok_val reduce_action (lr_fuel (length toks)) toks); try discriminate.
  - destruct (has_illegal toks); [discriminate|]. destruct v; discriminate.
  - congruence.
Qed.

Theorem parse_fuel_linear : forall s toks, scan_all s = Tokens toks ->
  (lr_fuel (length toks) <= 64 * (String.length s + 3))%nat.
Proof. intros s toks H. apply scan_tokens_linear in H. unfold lr_fuel. lia. Qed.

(* parse_string = parse_statements ; expand.  expand is structural except for mode inference
   (set_modality_typedefs), whose own fuel theorem belongs to C16: a hang of parse_string can only
   come from there. *)
Theorem parse_string_hang_only_in_infer : forall s w, parse_string s = PHang w ->
  exists l procs assumed funs tys, parse_statements s = POk l /\
    expand1 l [] [] [] [] = POk (procs, assumed, funs, tys) /\ set_modality_typedefs tys = Hang w.
Proof.
  intros s w H. unfold parse_string in H.
  destruct (parse_statements s) as [l| | |] eqn:Hp; try discriminate.
  2: { exfalso. eapply parse_statements_no_hang; eauto. }
  unfold expand in H.
  assert (He1 : forall l a b c d w, expand1 l a b c d <> PHang w /\ expand1 l a b c d <> PPanic w).
  { clear. induction l as [|st r IH]; intros a b c d w; cbn [expand1]; [split; discriminate|].
    destruct st as [provs ty body | f | x t | ns | fname]; try apply IH.
    destruct provs as [|p [|q ps]]; try apply IH;
      (destruct (existsb _ _); [split; discriminate | apply IH]). }
  assert (He2 : forall l f n p w, expand_exec l f n p <> PHang w /\ expand_exec l f n p <> PPanic w).
  { clear. induction l as [|st r IH]; intros f n p w; cbn [expand_exec]; [split; discriminate|].
    destruct st as [provs ty body | f0 | x t | ns | fname]; try apply IH.
    destruct (get_function f fname 0); [apply IH | split; discriminate]. }
  destruct (expand1 l [] [] [] []) as [[[[procs assumed] funs] tys]| w1 | w1 | w1] eqn:E1; try discriminate.
  - destruct (expand_exec l funs 0 procs) as [procs'| w2 | w2 | w2] eqn:E2; try discriminate.
    + destruct (set_modality_typedefs tys) eqn:E3; try discriminate.
      inversion H; subst. exists l, procs, assumed, funs, tys. repeat split; assumption.
    + exfalso. inversion H; subst. exact (proj1 (He2 _ _ _ _ _) E2).
  - exfalso. inversion H; subst. exact (proj1 (He1 _ _ _ _ _ _) E1).
Qed.

(* ---- the two facts about the tables that justify modelling choices of LR.v ---- *)
(* stack invariant of the instance *)
Definition lr_inv {V} (stk : list (Z * V)) : Prop := is_path tE (map fst stk).

Lemma lr_inv_init {V} (v0 : V) : lr_inv [(0, v0)].
Proof. reflexivity. Qed.

Lemma lr_inv_step {V} (tv : tk * string -> V) ra stk inp stk' inp' :
  lr_inv stk -> step V tv ra stk inp = StCont V stk' inp' -> lr_inv stk'.
Proof. intros H Hs. exact (step_path tE wIn wTop certC cert_ok V tv ra _ _ _ _ H Hs). Qed.

(* (1) no state that can be on the stack shifts the `error` token: goyacc's error recovery pops the
   whole stack and returns 1, which is what LR.step's StReject models *)
Theorem error_recovery_aborts : forall V (stk : list (Z * V)), lr_inv stk ->
  Forall (fun s => err_shift s = false) (map fst stk).
Proof. intros V stk H. exact (no_error_shift_on_stack tE wIn wTop certC cert_ok V stk H). Qed.

(* (2) every table access made by action / goto / R2 on a reachable configuration is inside its
   table: nthZ's default value is never used, the Go code cannot panic with an index error here *)
Theorem table_indices_in_range : forall V (stk : list (Z * V)) inp st v rest,
  lr_inv stk -> stk = (st, v) :: rest ->
  action_c st (lookahead inp) = Some (action st (lookahead inp)) /\
  match action st (lookahead inp) with
  | AReduce p =>
    (exists k, nth_c tR2 p = Some k /\ 0 <= k) /\
    match skipn (rlen p) stk with
    | (s0, _) :: _ => goto_c s0 p = Some (goto s0 p)
    | [] => True
    end
  | _ => True
  end.
Proof. intros V stk inp st v rest H E. exact (step_in_range tE wIn wTop certC cert_ok V stk inp st v rest H E). Qed.
