(* ParsedVerdict.v — C07 for parsed programs: the premise prog_syn_ok of the bisimilarity instance of
   the verdict theorems holds of every program the parser returns (proofs/ParseSynOk.v), so for
   parsed programs the theorems are closed. *)
Require Import Grits.Base Grits.STypes Grits.Forms Grits.TcDeps Grits.Tc Grits.TcTop Grits.spec.Typing
               Grits.proofs.TypingVerdict Grits.spec.SynOk Grits.proofs.TypingBisim Grits.proofs.ParseSynOk.

Theorem verdict_bisim_parsed : forall s p, Expand.parse_string s = Expand.POk p -> (accepts p <-> ProgOK teq_bisim p).
Proof. intros s p H. apply tc_verdict_bisim. exact (parse_syn_ok s p H). Qed.

Theorem sound_bisim_parsed : forall s p p', Expand.parse_string s = Expand.POk p -> typecheck p = Accept p' -> ProgOK teq_bisim p.
Proof. intros s p p' H. apply tc_sound_bisim. exact (parse_syn_ok s p H). Qed.

Theorem complete_bisim_parsed : forall s p, Expand.parse_string s = Expand.POk p -> ProgOK teq_bisim p -> exists p', typecheck p = Accept p'.
Proof. intros s p H. apply tc_complete_bisim. exact (parse_syn_ok s p H). Qed.

Theorem well_typed_not_rejected_bisim_parsed : forall s p, Expand.parse_string s = Expand.POk p -> ProgOK teq_bisim p ->
  typecheck p <> Reject /\ (forall w, typecheck p <> RejectInternal w) /\ (forall w, typecheck p <> Diverge w).
Proof. intros s p H. apply well_typed_not_rejected_bisim. exact (parse_syn_ok s p H). Qed.
