(* proofs/TcLemmas.v — lemmas shared by the soundness / completeness proofs of C07:
   association lists, well-formedness of types under sub-terms and unfolding, unfold <-> head,
   the panicking shift tests. *)
Require Import Grits.Base Grits.ModeDefs Grits.Modes Grits.STypes Grits.Forms Grits.Subst Grits.Infer
               Grits.TcDeps Grits.Tc Grits.spec.Typing.

Ltac andbs := repeat match goal with H : _ && _ = true |- _ => apply andb_true_iff in H; destruct H end.

(* ---------------------------------------------------------------- strings *)
Lemma str_mem_In k l : str_mem k l = true <-> In k l.
Proof.
  induction l as [|x r IH]; cbn; [split; [discriminate|tauto]|].
  rewrite orb_true_iff, IH, String.eqb_eq. split; intros [H|H]; auto.
Qed.
Lemma str_mem_false k l : str_mem k l = false <-> ~ In k l.
Proof. rewrite <- str_mem_In. destruct (str_mem k l); split; congruence. Qed.

Lemma has_dup_NoDup l : has_dup l = false <-> NoDup l.
Proof.
  induction l as [|x r IH]; cbn.
  - split; [constructor|reflexivity].
  - rewrite orb_false_iff, IH, str_mem_false. split.
    + intros [H1 H2]. now constructor.
    + intros H. inversion H; subst. auto.
Qed.

(* ---------------------------------------------------------------- association lists *)
Lemma alookup_In {V} k (m : list (string * V)) v : alookup k m = Some v -> In (k, v) m.
Proof.
  induction m as [|[k' v'] r IH]; cbn; [discriminate|].
  destruct (String.eqb k k') eqn:E.
  - apply String.eqb_eq in E. subst. intros H. inversion H. now left.
  - intros H. right. auto.
Qed.
Lemma aremove_In {V} k (m : list (string * V)) kv : In kv (aremove k m) -> In kv m.
Proof.
  induction m as [|[k' v'] r IH]; cbn; [tauto|].
  destruct (String.eqb k k'); cbn; intros H; [right; auto|]. destruct H; [now left|right; auto].
Qed.
Lemma aremove_Forall {V} (P : string * V -> Prop) k m : Forall P m -> Forall P (aremove k m).
Proof. rewrite !Forall_forall. intros H kv Hin. apply H. eapply aremove_In; eauto. Qed.
Lemma aset_Forall {V} (P : string * V -> Prop) k v m : P (k, v) -> Forall P m -> Forall P (aset k v m).
Proof. intros. unfold aset. constructor; auto using aremove_Forall. Qed.
Lemma aremove_idem {V} k (m : list (string * V)) : aremove k (aremove k m) = aremove k m.
Proof.
  induction m as [|[k' v'] r IH]; cbn; [reflexivity|].
  destruct (String.eqb k k') eqn:E; cbn; [assumption|]. rewrite E. now rewrite IH.
Qed.
Lemma aset_aset {V} k (v v' : V) m : aset k v (aset k v' m) = aset k v m.
Proof. unfold aset. cbn. rewrite String.eqb_refl. now rewrite aremove_idem. Qed.
Lemma amem_false {V} k (m : list (string * V)) : amem k m = false <-> alookup k m = None.
Proof. unfold amem. destruct (alookup k m); split; congruence. Qed.
Lemma amem_true {V} k (m : list (string * V)) : amem k m = true <-> exists v, alookup k m = Some v.
Proof. unfold amem. destruct (alookup k m); split; try congruence; eauto. intros [v H]. discriminate. Qed.

(* ---------------------------------------------------------------- modes *)
Lemma mode_ok_eqb m c : mode_ok m = true -> mode_eqb m c = true -> m = c.
Proof. destruct m, c; cbn; congruence. Qed.
Lemma mode_eqb_refl_proper m : mode_eqb m m = true.
Proof. destruct m; reflexivity. Qed.
Lemma down_proper a b : down a b = true -> proper a = true /\ proper b = true.
Proof. destruct a, b; cbn; auto; discriminate. Qed.
Lemma up_proper a b : up a b = true -> proper a = true /\ proper b = true.
Proof. destruct a, b; cbn; auto; discriminate. Qed.
Lemma down_o_true a b : down_o a b = Ok true <-> down a b = true.
Proof.
  unfold down_o. split.
  - destruct (proper a && proper b); congruence.
  - intros H. destruct (down_proper _ _ H) as [-> ->]. cbn. congruence.
Qed.
Lemma up_o_true a b : up_o a b = Ok true <-> up a b = true.
Proof.
  unfold up_o. split.
  - destruct (proper a && proper b); congruence.
  - intros H. destruct (up_proper _ _ H) as [-> ->]. cbn. congruence.
Qed.

(* ---------------------------------------------------------------- tlookup *)
Lemma tlookup_In D x d : tlookup D x = Some d -> In d D /\ td_name d = x.
Proof.
  induction D as [|e r IH]; cbn; [discriminate|].
  destruct (tlookup r x) eqn:E.
  - intros H. inversion H; subst. destruct (IH eq_refl). auto.
  - destruct (String.eqb x (td_name e)) eqn:E2; [|discriminate].
    intros H. inversion H; subst. apply String.eqb_eq in E2. auto.
Qed.

(* ---------------------------------------------------------------- well-formed types *)
Lemma check_modes_mode_of D : (forall t cur, check_modes D cur t = true -> mode_of t = cur)
                             /\ (forall b : brs, True).
Proof.
  split; [|trivial]. intros t cur H. destruct t; cbn in H |- *;
    repeat (apply andb_true_iff in H; destruct H as [H ?]); eauto using mode_ok_eqb.
  - destruct (tlookup D x); [|discriminate]. apply andb_true_iff in H0. destruct H0. eauto using mode_ok_eqb.
Qed.
Lemma check_modes_self D t cur : check_modes D cur t = true -> check_modes D (mode_of t) t = true.
Proof. intros H. pose proof (proj1 (check_modes_mode_of D) _ _ H) as E. now rewrite E. Qed.

Lemma wf_intro D t cur : check_labels D t = true -> check_modes D cur t = true -> check_wf D t = true.
Proof. intros H1 H2. unfold check_wf. rewrite H1. cbn. eapply check_modes_self; eauto. Qed.

Lemma wf_tensor D a b m : check_wf D (TTensor a b m) = true -> check_wf D a = true /\ check_wf D b = true.
Proof. unfold check_wf. cbn. intros H. andbs. split; eapply wf_intro; eauto. Qed.
Lemma wf_lolli D a b m : check_wf D (TLolli a b m) = true -> check_wf D a = true /\ check_wf D b = true.
Proof. unfold check_wf. cbn. intros H. andbs. split; eapply wf_intro; eauto. Qed.
Lemma wf_up D f t a : check_wf D (TUp f t a) = true -> check_wf D a = true.
Proof. unfold check_wf. cbn. intros H. andbs. eapply wf_intro; eauto. Qed.
Lemma wf_down D f t a : check_wf D (TDown f t a) = true -> check_wf D a = true.
Proof. unfold check_wf. cbn. intros H. andbs. eapply wf_intro; eauto. Qed.

Lemma check_labels_brs_find D : forall bs seen l a, check_labels_brs D seen bs = true -> find_br l bs = Some a ->
  check_labels D a = true.
Proof.
  induction bs as [|l' a' r IH]; cbn; intros seen l a H F; [discriminate|].
  repeat (apply andb_true_iff in H; destruct H as [H ?]).
  destruct (String.eqb l l'); [inversion F; subst; auto|eauto].
Qed.
Lemma check_modes_brs_find D cur : forall bs l a, check_modes_brs D cur bs = true -> find_br l bs = Some a ->
  check_modes D cur a = true.
Proof.
  induction bs as [|l' a' r IH]; cbn; intros l a H F; [discriminate|].
  apply andb_true_iff in H. destruct H.
  destruct (String.eqb l l'); [inversion F; subst; auto|eauto].
Qed.
Lemma wf_plus D bs m l a : check_wf D (TPlus bs m) = true -> find_br l bs = Some a -> check_wf D a = true.
Proof.
  unfold check_wf. cbn. intros H F. andbs.
  eapply wf_intro; eauto using check_labels_brs_find, check_modes_brs_find.
Qed.
Lemma wf_with D bs m l a : check_wf D (TWith bs m) = true -> find_br l bs = Some a -> check_wf D a = true.
Proof.
  unfold check_wf. cbn. intros H F. andbs.
  eapply wf_intro; eauto using check_labels_brs_find, check_modes_brs_find.
Qed.

Lemma check_labels_brs_nodup D : forall bs seen, check_labels_brs D seen bs = true ->
  NoDup (brs_labels bs) /\ forall l, In l (brs_labels bs) -> ~ In l seen.
Proof.
  induction bs as [|l a r IH]; cbn; intros seen H.
  - split; [constructor|tauto].
  - repeat (apply andb_true_iff in H; destruct H as [H ?]).
    apply negb_true_iff, str_mem_false in H. destruct (IH _ H0) as [N1 N2]. split.
    + constructor; auto. intros Hin. apply (N2 _ Hin). now left.
    + intros l' [<-|Hin]; auto. intros Hs. apply (N2 _ Hin). now right.
Qed.
Lemma wf_plus_nodup D bs m : check_wf D (TPlus bs m) = true -> NoDup (brs_labels bs).
Proof.
  unfold check_wf. cbn. intros H. apply andb_true_iff in H. destruct H as [H _].
  now apply check_labels_brs_nodup in H.
Qed.
Lemma wf_with_nodup D bs m : check_wf D (TWith bs m) = true -> NoDup (brs_labels bs).
Proof.
  unfold check_wf. cbn. intros H. apply andb_true_iff in H. destruct H as [H _].
  now apply check_labels_brs_nodup in H.
Qed.
Lemma find_br_Some_In l bs a : find_br l bs = Some a -> In l (brs_labels bs).
Proof.
  induction bs as [|l' a' r IH]; cbn; [discriminate|].
  destruct (String.eqb l l') eqn:E; [apply String.eqb_eq in E; auto|auto].
Qed.
Lemma find_br_In_Some l bs : In l (brs_labels bs) -> exists a, find_br l bs = Some a.
Proof.
  induction bs as [|l' a' r IH]; cbn; [tauto|].
  destruct (String.eqb l l') eqn:E; [eauto|]. intros [->|H]; [now rewrite String.eqb_refl in E|auto].
Qed.
Lemma brs_len_labels bs : brs_len bs = length (brs_labels bs).
Proof. induction bs; cbn; auto. Qed.

(* the environment: every definition has a well-formed body *)
Definition wf_env (D : tenv) : Prop := forall x d, tlookup D x = Some d -> check_wf D (td_body d) = true.

Lemma sanity_wf_env D : sanity_typedefs D = Ok true -> wf_env D.
Proof.
  unfold sanity_typedefs. destruct (has_dup (map td_name D)); [discriminate|].
  destruct (forallb (fun d => check_wf D (td_body d) && mode_eqb (mode_of (td_body d)) (td_mode d)) D) eqn:E;
    cbn; [|discriminate].
  intros _ x d H. apply tlookup_In in H. destruct H as [H _].
  rewrite forallb_forall in E. apply E in H. apply andb_true_iff in H. tauto.
Qed.

Lemma head_wf D t h : wf_env D -> head D t h -> check_wf D t = true -> check_wf D h = true.
Proof. intros E H. induction H; intros W; auto. apply IHhead. eapply E; eauto. Qed.
Lemma head_nonname D t h : head D t h -> is_name h = false.
Proof. induction 1; auto. Qed.
Lemma head_det D t h : head D t h -> forall h', head D t h' -> h = h'.
Proof.
  induction 1 as [h N | x m d h E P IH]; intros h' H'.
  - inversion H' as [h0 N0 | x0 m0 d0 h0 E0 P0]; subst; auto. discriminate.
  - inversion H' as [h0 N0 | x0 m0 d0 h0 E0 P0]; subst; [discriminate|].
    rewrite E in E0. inversion E0; subst. auto.
Qed.
Lemma head_idem D h : is_name h = false -> forall h', head D h h' -> h' = h.
Proof. intros N h' H. inversion H; subst; auto. discriminate. Qed.

(* ---------------------------------------------------------------- unfold <-> head *)
Lemma unfold_f_head D : forall fuel t h, unfold_f fuel D t = Ok (Some h) -> head D t h.
Proof.
  induction fuel as [|f IH]; cbn; intros t h H; [discriminate|].
  destruct t; try (inversion H; subst; constructor; reflexivity).
  destruct (tlookup D x) eqn:E; [|discriminate]. econstructor; eauto.
Qed.

Inductive head_path (D : tenv) : sty -> list string -> sty -> Prop :=
| hp_here h : is_name h = false -> head_path D h [] h
| hp_step x m d l h : tlookup D x = Some d -> head_path D (td_body d) l h -> head_path D (TName x m) (x :: l) h.

Lemma head_has_path D t h : head D t h -> exists l, head_path D t l h.
Proof. induction 1 as [h N|x m d h E _ [l IH]]; [exists []; now constructor|exists (x :: l); econstructor; eauto]. Qed.
Lemma head_path_det D t l h : head_path D t l h -> forall l' h', head_path D t l' h' -> l = l' /\ h = h'.
Proof.
  induction 1 as [h N | x m d l h E P IH]; intros l' h' H'.
  - inversion H' as [h0 N0 | x0 m0 d0 l0 h0 E0 P0]; subst; auto. discriminate.
  - inversion H' as [h0 N0 | x0 m0 d0 l0 h0 E0 P0]; subst; [discriminate|].
    rewrite E in E0. inversion E0; subst. destruct (IH _ _ P0). subst. auto.
Qed.
Lemma head_path_suffix D : forall l1 t x l2 h, head_path D t (l1 ++ x :: l2) h ->
  exists m, head_path D (TName x m) (x :: l2) h.
Proof.
  induction l1 as [|y l1 IH]; cbn; intros t x l2 h H.
  - inversion H as [h0 N0 | x0 m0 d0 l0 h0 E0 P0]; subst. exists m0. assumption.
  - inversion H as [h0 N0 | x0 m0 d0 l0 h0 E0 P0]; subst. eauto.
Qed.
Lemma head_path_nodup D t l h : head_path D t l h -> NoDup l.
Proof.
  induction 1 as [h N | x m d l h E P IH]; constructor; auto.
  intros Hin. apply in_split in Hin. destruct Hin as [l1 [l2 ->]].
  destruct (head_path_suffix _ _ _ _ _ _ P) as [m' H'].
  inversion H' as [h0 N0 | x0 m0 d0 l0 h0 E0 P0]; subst. rewrite E in E0. inversion E0; subst.
  destruct (head_path_det _ _ _ _ P _ _ P0) as [EE _].
  apply (f_equal (@length string)) in EE. rewrite app_length in EE. cbn in EE. lia.
Qed.
Lemma head_path_incl D t l h : head_path D t l h -> incl l (map td_name D).
Proof.
  induction 1; [intros ? []|].
  intros y [<-|Hy]; auto. apply tlookup_In in H. destruct H as [H <-]. now apply in_map.
Qed.
Lemma head_path_unfold D t l h : head_path D t l h -> forall fuel, (length l < fuel)%nat -> unfold_f fuel D t = Ok (Some h).
Proof.
  induction 1; intros fuel L.
  - destruct fuel; [lia|]. cbn. destruct h; try reflexivity. discriminate.
  - destruct fuel; [cbn in L; lia|]. cbn. rewrite H. apply IHhead_path. cbn in L. lia.
Qed.

Theorem unfold_spec D t h : unfold D t = Ok (Some h) <-> head D t h.
Proof.
  split; [apply unfold_f_head|].
  intros H. destruct (head_has_path _ _ _ H) as [l P].
  apply (head_path_unfold _ _ _ _ P).
  pose proof (NoDup_incl_length (head_path_nodup _ _ _ _ P) (head_path_incl _ _ _ _ P)) as L.
  rewrite map_length in L. lia.
Qed.

Lemma unfold_nonname D h : is_name h = false -> unfold D h = Ok (Some h).
Proof. intros N. apply unfold_spec. now constructor. Qed.

(* ---------------------------------------------------------------- contexts *)
Definition wf_entry (D : tenv) (kv : string * option sty) : Prop :=
  exists s, snd kv = Some s /\ check_wf D s = true.
Definition wf_ctx (D : tenv) (g : ctx) : Prop := Forall (wf_entry D) g.

Lemma wf_ctx_lookup D g x t : wf_ctx D g -> alookup x g = Some t -> exists s, t = Some s /\ check_wf D s = true.
Proof. intros W H. apply alookup_In in H. unfold wf_ctx in W. rewrite Forall_forall in W. apply (W _ H). Qed.
Lemma wf_ctx_remove D g x : wf_ctx D g -> wf_ctx D (aremove x g).
Proof. apply aremove_Forall. Qed.
Lemma wf_ctx_set D g x s : wf_ctx D g -> check_wf D s = true -> wf_ctx D (aset x (Some s) g).
Proof. intros. apply aset_Forall; auto. exists s. auto. Qed.

Lemma is_provider_sym n sh :
  (is_self n || match sh with Some s => String.eqb (ident s) (ident n) | None => false end) = is_provider n sh.
Proof. unfold is_provider. destruct sh; auto. now rewrite String.eqb_sym. Qed.
