(* RtTheorems.v — C01 and C02 for whole runs of accepted closed programs: every form, the two
   polarized modes.  The three Section hypotheses are the interfaces to the other parts of the
   development (they are discharged there or remain open — see lib/manifest.d/C01.json):

     teq_ok                : the type equality of spec/TypEq.v satisfies `teq_laws` on the type
                             environment of every accepted program;
     tc_annotations_typed  : the annotated program the checker returns is typed in the run-time
                             judgement (`static_typed`: function table and process bodies);
     topo_reachable        : every configuration reachable from the initial one satisfies `Topo`
                             (the untyped linearity invariant: `initial_topo` + `topo_step`). *)
From stdpp Require Import gmap strings.
Require Import Grits.Base Grits.ModeDefs Grits.Modes Grits.STypes Grits.Forms Grits.Subst Grits.TcDeps Grits.Expand
               Grits.Tc Grits.TcTop
               Grits.Runtime Grits.spec.RtTyping Grits.spec.Topo Grits.proofs.RtSubst Grits.proofs.RtEffect
               Grits.proofs.StepErrors Grits.proofs.RtSafety Grits.proofs.RtInit Grits.proofs.RtProgress.

(* ------------------------------------------------------------------ the programs covered *)
(* every accepted CLOSED program (no assumed names): all forms, any number of provider names *)
Definition in_fragment (p : program) : Prop := p_assumed p = [].

(* ------------------------------------------------------------------ runs *)
Lemma enabled_sound md D F c ch : In ch (enabled md D F c) -> step md D F c ch <> SNotEnabled.
Proof.
  unfold enabled. intros H. apply filter_In in H. destruct H as [_ H].
  destruct (step md D F c ch); auto; discriminate.
Qed.

Lemma pids_elem c self p : procs c !! self = Some p -> In self (pids c).
Proof.
  intros Ep. unfold pids. apply elem_of_list_In. apply elem_of_list_fmap. exists (self, p). split; auto.
  apply elem_of_map_to_list. auto.
Qed.

Lemma enabled_nil_quiescent md D F c : is_np md = false -> enabled md D F c = [] -> quiescent md D F c.
Proof.
  intros Hnp He ch.
  destruct (step md D F c ch) eqn:Es; auto; exfalso.
  all: assert (Hin : In ch (enabled md D F c));
    [|rewrite He in Hin; contradiction].
  all: unfold enabled; apply filter_In; split; [|rewrite Es; auto].
  all: unfold candidates; destruct ch as [self|s r|f t].
  all: try (simpl in Es; rewrite Hnp in Es; simpl in Es; discriminate).
  all: try (apply in_or_app; left; apply in_map;
            simpl in Es; destruct (procs c !! self) as [p|] eqn:Ep; [|discriminate];
            eapply pids_elem; eauto).
  all: destruct md; try discriminate; simpl in Es.
  all: destruct (bool_decide (s = r)); try discriminate.
  all: destruct (procs c !! s) as [ps|] eqn:Eps; try discriminate.
  all: destruct (procs c !! r) as [pr|] eqn:Epr; try discriminate.
  all: apply in_or_app; right; apply in_flat_map; exists s; split; [eapply pids_elem; eauto|].
  all: apply in_map; eapply pids_elem; eauto.
Qed.

Section Runs.
Variable D : tenv.
Variable F : list fundef.
Variable teq : sty -> sty -> Prop.
Hypothesis Hteq : teq_laws D teq.
Hypothesis HF : funs_typed D F teq.

Lemma reachable_trans md c0 c1 c2 : reachable D F md c0 c1 -> reachable D F md c1 c2 -> reachable D F md c0 c2.
Proof. intros H1 H2. induction H2; auto. eapply reach_step; eauto. Qed.

(* a run that ends in quiescence ends in a reachable, typed, quiescent configuration *)
Lemma exec_run_quiescent md fuel pick : is_np md = false -> forall Δ c cq,
  cfg_typed D F teq Δ c -> (forall c', reachable D F md c c' -> Topo c') ->
  exec_run fuel pick md D F c = RQuiescent cq ->
  reachable D F md c cq /\ quiescent md D F cq /\ exists Δ', cfg_typed D F teq Δ' cq.
Proof.
  intros Hnp. induction fuel as [|fuel IH]; intros Δ c cq Hc Htopo; [simpl; discriminate|].
  rewrite (exec_run_S D F).
  destruct (enabled md D F c) as [|e0 es] eqn:Een.
  - intros [= <-]. split; [apply reach_refl|]. split; [apply enabled_nil_quiescent; auto|eauto].
  - cbv zeta.
    set (ch := nth (pick (S fuel) (S (length es)) mod S (length es)) (e0 :: es) e0).
    assert (Hin : In ch (enabled md D F c)).
    { rewrite Een. apply nth_In. change (length (e0 :: es)) with (S (length es)).
      apply Nat.mod_upper_bound. lia. }
    apply enabled_sound in Hin.
    destruct (step md D F c ch) as [|c2|who' e'] eqn:Es; [contradiction| |discriminate].
    intros Hrun.
    assert (Hcl : closed_unused D md c).
    { intros self p k st. eapply topo_closed_unused; eauto. apply Htopo. apply reach_refl. }
    destruct (preservation_md D F teq Hteq HF md Δ c ch c2 Hnp Hc Hcl Es) as [Δ' [_ Hc2]].
    assert (Hstep : reachable D F md c c2) by (eapply reach_step; [apply reach_refl|eauto]).
    destruct (IH Δ' c2 cq Hc2) as [Hr [Hq Ht]]; auto.
    + intros c' Hc'. apply Htopo. eapply reachable_trans; eauto.
    + split; auto. eapply reachable_trans; eauto.
Qed.
End Runs.

(* ------------------------------------------------------------------ accepted programs *)
Section Accepted.
(* type equality, relative to a type environment *)
Variable teqD : tenv -> sty -> sty -> Prop.

Hypothesis teq_ok : forall p p', typecheck p = Accept p' -> teq_laws (p_types p') (teqD (p_types p')).

Hypothesis tc_annotations_typed : forall p p',
  typecheck p = Accept p' -> in_fragment p' -> static_typed (teqD (p_types p')) p'.

Hypothesis topo_reachable : forall p p' md c,
  typecheck p = Accept p' -> in_fragment p' -> is_np md = false ->
  reachable (p_types p') (p_funs p') md (init_config p') c -> Topo c.

Theorem initial_typed_accepted p p' :
  typecheck p = Accept p' -> in_fragment p' ->
  cfg_typed (p_types p') (p_funs p') (teqD (p_types p')) (init_delta p') (init_config p').
Proof. intros Ha Hf. apply initial_typed; [exact (teq_ok p p' Ha)|exact (tc_annotations_typed p p' Ha Hf)]. Qed.

(* C01, fragment, the two polarized modes (asynchronous, synchronous): no schedule leads to a
   run-time error *)
Theorem safety_partial p p' md :
  typecheck p = Accept p' -> in_fragment p' -> is_np md = false ->
  forall fuel pick c who e,
    exec_run fuel pick md (p_types p') (p_funs p') (init_config p') <> RError c who e.
Proof.
  intros Ha Hf Hnp fuel pick c who e.
  pose proof (tc_annotations_typed p p' Ha Hf) as [HF Hprocs].
  apply (exec_run_safe (p_types p') (p_funs p') (teqD (p_types p')) (teq_ok p p' Ha) HF md fuel pick Hnp
           (init_delta p') (init_config p') (initial_typed_accepted p p' Ha Hf)).
  intros c' Hr self pr k st. eapply topo_closed_unused; [exact Hnp|exact (topo_reachable p p' md c' Ha Hf Hnp Hr)].
Qed.

(* every reachable configuration is typed (for some extension of the initial channel typing) *)
Theorem reachable_typed p p' md c :
  typecheck p = Accept p' -> in_fragment p' -> is_np md = false ->
  reachable (p_types p') (p_funs p') md (init_config p') c ->
  exists Δ, init_delta p' ⊆ Δ /\ cfg_typed (p_types p') (p_funs p') (teqD (p_types p')) Δ c.
Proof.
  intros Ha Hf Hnp Hr. pose proof (tc_annotations_typed p p' Ha Hf) as [HF Hprocs].
  induction Hr as [|c1 ch c2 Hr IH Hs].
  - exists (init_delta p'). split; auto. apply (initial_typed_accepted p p' Ha Hf).
  - destruct IH as [Δ [Hsub Hc]].
    assert (Hcl : closed_unused (p_types p') md c1).
    { intros self pr k st. eapply topo_closed_unused; [exact Hnp|exact (topo_reachable p p' md c1 Ha Hf Hnp Hr)]. }
    destruct (preservation_md _ _ _ (teq_ok p p' Ha) HF md Δ c1 ch c2 Hnp Hc Hcl Hs) as [Δ' [Hsub' Hc']].
    exists Δ'. split; auto. etrans; eauto.
Qed.

(* C02, fragment, asynchronous mode: what is left when a run ends in quiescence *)
Theorem progress_run_partial p p' :
  typecheck p = Accept p' -> in_fragment p' ->
  forall fuel pick c,
    exec_run fuel pick Async (p_types p') (p_funs p') (init_config p') = RQuiescent c ->
    exists Δ : gmap cid sty,
    (forall self pr, procs c !! self = Some pr ->
       exists k st T, action_of Async (p_types p') pr = ARecv k /\ own_chan pr k /\
                      Δ !! k = Some T /\ pol_of_ty (p_types p') T Neg /\
                      chans c !! k = Some st /\ ch_buf st = None /\ ch_closed st = false) /\
    (forall k st m, chans c !! k = Some st -> ch_buf st = Some m -> is_pos_rule (m_rule m) = true) /\
    ((forall k, alive c k -> exists o, obj_in c o /\ k ∈ refs o) -> procs c = ∅).
Proof.
  intros Ha Hf fuel pick c Hrun.
  pose proof (tc_annotations_typed p p' Ha Hf) as [HF Hprocs].
  destruct (exec_run_quiescent _ _ _ (teq_ok p p' Ha) HF Async fuel pick eq_refl _ _ _
              (initial_typed_accepted p p' Ha Hf) (fun c' Hc' => topo_reachable p p' Async c' Ha Hf eq_refl Hc') Hrun)
    as [Hr [Hq [Δ Hc]]].
  exists Δ. exact (progress_partial _ _ _ (teq_ok p p' Ha) HF Δ c Hc
                     (topo_reachable p p' Async c Ha Hf eq_refl Hr) Hq).
Qed.

(* nothing is ever buffered in a synchronous run *)
Lemma sync_reachable_buffers p' c :
  reachable (p_types p') (p_funs p') Sync (init_config p') c -> buffers_empty c.
Proof.
  induction 1 as [|c1 ch c2 Hr IH Hs]; [apply init_buffers_empty|]. eapply sync_step_buffers; eauto.
Qed.

(* C02, fragment, synchronous mode: the survivors offer a result on, or wait for a client of, their
   own provider channel; if each of these channels has a client nobody survives *)
Theorem progress_sync_run_partial p p' :
  typecheck p = Accept p' -> in_fragment p' ->
  forall fuel pick c,
    exec_run fuel pick Sync (p_types p') (p_funs p') (init_config p') = RQuiescent c ->
    (forall self pr, procs c !! self = Some pr ->
       exists k, own_chan pr k /\
         (action_of Sync (p_types p') pr = ARecv k \/
          exists m, action_of Sync (p_types p') pr = ASend k m /\ is_pos_rule (m_rule m) = true)) /\
    ((forall k, (exists self pr, procs c !! self = Some pr /\ k ∈ cids_of (pr_provs pr)) ->
                exists o, obj_in c o /\ k ∈ refs o) -> procs c = ∅).
Proof.
  intros Ha Hf fuel pick c Hrun.
  pose proof (tc_annotations_typed p p' Ha Hf) as [HF Hprocs].
  destruct (exec_run_quiescent _ _ _ (teq_ok p p' Ha) HF Sync fuel pick eq_refl _ _ _
              (initial_typed_accepted p p' Ha Hf) (fun c' Hc' => topo_reachable p p' Sync c' Ha Hf eq_refl Hc') Hrun)
    as [Hr [Hq [Δ Hc]]].
  exact (progress_sync_partial _ _ _ (teq_ok p p' Ha) HF Δ c Hc
           (topo_reachable p p' Sync c Ha Hf eq_refl Hr) (sync_reachable_buffers p' c Hr) Hq).
Qed.

End Accepted.

(* ------------------------------------------------------------------ the full statements aimed at (NOT proved here) *)
(* C01 for every accepted closed program, the three execution modes, every schedule *)
Definition safety_statement : Prop :=
  forall p p', typecheck p = Accept p' -> p_assumed p' = [] ->
  forall md fuel pick c who e,
    exec_run fuel pick md (p_types p') (p_funs p') (init_config p') <> RError c who e.

(* C02 for every accepted closed program: asynchronous runs leave only poised providers (and unconsumed
   results); the synchronous statement is `progress_sync_statement` of proofs/RtProgress.v *)
Definition progress_statement : Prop :=
  forall p p', typecheck p = Accept p' -> p_assumed p' = [] ->
  forall fuel pick c,
    exec_run fuel pick Async (p_types p') (p_funs p') (init_config p') = RQuiescent c ->
    (forall self pr, procs c !! self = Some pr ->
       exists k, action_of Async (p_types p') pr = ARecv k /\ own_chan pr k) /\
    ((forall k, alive c k -> exists o, obj_in c o /\ k ∈ refs o) -> procs c = ∅).

(* ------------------------------------------------------------------ a concrete accepted program of the fragment (non-vacuity) *)
Definition example_text : string :=
"type A = lin 1 -* (1 * 1)
let srv() : A = <x, y> <- recv self; u : lin 1 <- new close self; print served; send y<x, u>
prc[a] : lin 1 = s : A <- new srv(); v : lin 1 <- new close self; r : lin 1 * 1 <- new send s<v, self>; <p, q> <- recv r; wait p; wait q; print done; close self".

(* weakening: dropping s reclaims its provider and the process that only it depended on *)
Definition example_drop_text : string :=
"type A = aff 1 -* 1
let srv() : A = c : aff 1 <- new close self; <x, y> <- recv self; wait x; wait c; close y
prc[a] : aff 1 = s : A <- new srv(); u : aff 1 <- new close self; drop u; drop s; print dropped; close self".

(* contraction: the forward spawned by split has two providers; the message it relays makes it
   duplicate itself (DUP) *)
Definition example_split_text : string :=
"prc[a] : rep 1 = print made; close self
prc[b] : rep 1 = <x, y> <- split a; wait x; wait y; print done; close self".

(* (number of processes left, labels printed, ended in quiescence without error) *)
Definition run_text (txt : string) (md : exec_mode) (pick : nat -> nat -> nat) : option (nat * list string * bool) :=
  match parse_string txt with
  | POk p =>
    match typecheck p with
    | Accept p' =>
      match exec_run 200 pick md (p_types p') (p_funs p') (init_config p') with
      | RQuiescent c => Some (size (procs c), labels c, true)
      | RError c _ _ => Some (size (procs c), labels c, false)
      | ROutOfFuel c => None
      end
    | _ => None
    end
  | _ => None
  end.
Definition run_example := run_text example_text.
Definition run_example_drop := run_text example_drop_text.
Definition run_example_split := run_text example_split_text.

Definition text_in_fragment (txt : string) : Prop :=
  match parse_string txt with
  | POk p => match typecheck p with Accept p' => in_fragment p' | _ => False end
  | _ => False
  end.
Definition example_in_fragment : Prop := text_in_fragment example_text.
Definition example_drop_in_fragment : Prop := text_in_fragment example_drop_text.
Definition example_split_in_fragment : Prop := text_in_fragment example_split_text.
