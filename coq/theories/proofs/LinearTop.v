(* proofs/LinearTop.v — C05 at the level of bodies and programs: tc_form_linear, tc_linear. *)
Require Import Grits.Base Grits.ModeDefs Grits.Modes Grits.STypes Grits.Forms Grits.Subst Grits.Infer
               Grits.TcDeps Grits.Expand Grits.Tc Grits.TcTop Grits.spec.Linear Grits.proofs.TcInv Grits.proofs.LinearProofs.

Lemma amem_cons {V} z k (v : V) r : amem z ((k, v) :: r) = String.eqb z k || amem z r.
Proof. unfold amem. cbn. destruct (String.eqb z k); reflexivity. Qed.

Lemma same_keys (g : ctx) : same (map fst g) g.
Proof. intros z. induction g as [|[k v] r IH]; cbn; auto. now rewrite amem_cons, IH. Qed.

Theorem tc_form_linear D Sg g sh pty f f' :
  uninit_form f = true -> shf g (shid sh) -> tc_form D Sg g sh pty f = TOk f' ->
  LinearNames (map fst g) (shid sh) f.
Proof.
  intros Hu Hf H. destruct (proj1 (tc_linear_main D Sg) _ _ _ _ _ Hu Hf H) as (I1 & I2 & I3).
  pose proof (same_keys g) as Hs.
  split; [|split; [|split]]; auto.
  - intros x Hx. rewrite Hs in Hx. specialize (I1 x). now rewrite (ind_true _ _ Hx) in I1.
  - intros x Hx. rewrite Hs in Hx. specialize (I1 x). now rewrite (ind_false _ _ Hx) in I1.
Qed.

(* LinearNames depends on the scope only as a set *)
Lemma binders_fresh_ext :
  (forall f l1 l2 sh, (forall z, str_mem z l1 = str_mem z l2) -> binders_fresh l1 sh f -> binders_fresh l2 sh f) /\
  (forall bs, (forall l1 l2, (forall z, str_mem z l1 = str_mem z l2) -> binders_fresh_bp l1 bs -> binders_fresh_bp l2 bs) /\
              (forall l1 l2 sh, (forall z, str_mem z l1 = str_mem z l2) -> binders_fresh_bc l1 sh bs -> binders_fresh_bc l2 sh bs)).
Proof.
  assert (Hrem : forall l1 l2 x, (forall z, str_mem z l1 = str_mem z l2) -> forall z, str_mem z (remove x l1) = str_mem z (remove x l2)).
  { intros. now rewrite !str_mem_remove, H. }
  assert (Hcons : forall l1 l2 x, (forall z, str_mem z l1 = str_mem z l2) -> forall z, str_mem z (x :: l1) = str_mem z (x :: l2)).
  { intros. cbn. now rewrite H. }
  assert (Hfil : forall l1 l2 p, (forall z, str_mem z l1 = str_mem z l2) -> forall z, str_mem z (filter p l1) = str_mem z (filter p l2)).
  { intros. now rewrite !str_mem_filter, H. }
  apply form_branches_ind; try (intros; exact I).
  - intros p c fr k IH l1 l2 sh He. cbn [binders_fresh]. unfold fresh. destruct (prov_ref sh fr).
    + rewrite !He. intros (A & B & C & E). repeat split; auto. eapply IH; [|exact E]. auto.
    + rewrite !(Hrem l1 l2 _ He). intros (A & B & C & E & F & G). repeat split; auto. eapply IH; [|exact G]. auto.
  - intros fr bs [IHp IHc] l1 l2 sh He. cbn [binders_fresh]. destruct (prov_ref sh fr).
    + apply IHp; auto.
    + apply IHc; auto.
  - intros y b IHb k IHk l1 l2 sh He. cbn [binders_fresh]. unfold fresh. rewrite !(Hfil l1 l2 _ He).
    intros (A & B & C & E). repeat split; auto.
    + eapply IHb; [|exact C]. auto.
    + eapply IHk; [|exact E]. auto.
  - intros c k IH l1 l2 sh He. cbn [binders_fresh]. apply IH; auto.
  - intros a b fr k IH l1 l2 sh He. cbn [binders_fresh]. unfold fresh. rewrite !(Hrem l1 l2 _ He).
    intros (A & B & C & E & F & G). repeat split; auto. eapply IH; [|exact G]. auto.
  - intros y fr k IH l1 l2 sh He. cbn [binders_fresh]. unfold fresh. destruct (prov_ref sh fr).
    + rewrite !He. intros (A & B). split; auto. eapply IH; [|exact B]. auto.
    + rewrite !(Hrem l1 l2 _ He). intros (A & B & C). repeat split; auto. eapply IH; [|exact C]. auto.
  - intros c k IH l1 l2 sh He. cbn [binders_fresh]. apply IH; auto.
  - intros l k IH l1 l2 sh He. cbn [binders_fresh]. apply IH; auto.
  - split; intros; exact I.
  - intros l p k IHk r [IHp IHc]. split.
    + intros l1 l2 He. cbn [binders_fresh_bp]. unfold fresh. rewrite He. intros (A & B & C). repeat split; auto.
      * eapply IHk; [|exact B]; auto.
      * eapply IHp; [|exact C]; auto.
    + intros l1 l2 sh He. cbn [binders_fresh_bc]. unfold fresh. rewrite He. intros (A & B & C & E). repeat split; auto.
      * eapply IHk; [|exact C]; auto.
      * eapply IHc; [|exact E]; auto.
Qed.

Lemma LinearNames_ext l1 l2 sh f : (forall z, str_mem z l1 = str_mem z l2) -> LinearNames l1 sh f -> LinearNames l2 sh f.
Proof.
  intros He (A & B & C & E). split; [|split; [|split]]; auto.
  - intros x Hx. apply A. now rewrite He.
  - intros x Hx. apply B. now rewrite He.
  - eapply (proj1 binders_fresh_ext); eauto.
Qed.


Lemma str_mem_app z a b : str_mem z (a ++ b) = str_mem z a || str_mem z b.
Proof. induction a; cbn; auto. rewrite IHa. now rewrite orb_assoc. Qed.

Lemma fold_aset_mem {A V} (key : A -> string) (val : A -> V) l : forall acc z,
  amem z (fold_left (fun m a => aset (key a) (val a) m) l acc) = str_mem z (map key l) || amem z acc.
Proof.
  induction l as [|a r IH]; intros acc z; cbn; auto.
  rewrite IH, amem_aset. destruct (String.eqb z (key a)), (str_mem z (map key r)); reflexivity.
Qed.
Lemma fold_aset_val {A V} (key : A -> string) (val : A -> V) (P : string -> V -> Prop) l :
  forall acc, (forall a, In a l -> P (key a) (val a)) -> (forall k v, alookup k acc = Some v -> P k v) ->
  forall k v, alookup k (fold_left (fun m a => aset (key a) (val a) m) l acc) = Some v -> P k v.
Proof.
  induction l as [|a r IH]; intros acc HP Hacc k v; cbn; auto.
  apply IH; [intros; apply HP; now right|]. intros k' v'. rewrite alookup_aset. destruct (String.eqb_spec k' (key a)); subst.
  - intros E; inversion E; subst; apply HP; now left.
  - apply Hacc.
Qed.

Lemma make_ctx_mem ns z : amem z (make_ctx ns) = str_mem z (map ident ns).
Proof. unfold make_ctx. rewrite (fold_aset_mem ident nty). cbn. apply orb_false_r. Qed.

Lemma add_missing_names_ident D ns : forall ns', add_missing_names D ns = TOk ns' -> map ident ns' = map ident ns.
Proof.
  induction ns as [|n r IH]; intros ns' H; cbn in H.
  - inversion H; auto.
  - tinv H. inversion H; subst. cbn. f_equal. auto.
Qed.

Definition fshape (a b : fundef) : Prop := fn_body b = fn_body a /\ map ident (fn_params b) = map ident (fn_params a).
Lemma prelim_funs_shape D l : forall seen fs, prelim_funs D l seen = TOk fs -> Forall2 fshape l fs.
Proof.
  induction l as [|f r IH]; intros seen fs H; cbn in H.
  - inversion H; constructor.
  - tinv H. inversion H; subst. constructor; eauto. split; cbn; auto.
    eapply add_missing_names_ident; eauto.
Qed.
Lemma tc_funs_all D Sg fs : forall r, tc_funs D Sg fs = TOk r ->
  Forall (fun f => exists b, tc_form D Sg (make_ctx (fn_params f)) None (fn_type f) (fn_body f) = TOk b) fs.
Proof.
  induction fs as [|f r IH]; intros res H; cbn in H; [constructor|].
  tinv H. constructor; eauto.
Qed.

Definition pshape (a b : procdef) : Prop := pr_body b = pr_body a /\ pr_providers b = pr_providers a.
Lemma prelim_procs_types_shape D l : forall a b l' a', prelim_procs_types D l a b = TOk (l', a') ->
  Forall2 pshape l l' /\ Forall (fun pd => 1 < length (pr_providers pd) -> contractable_type D (pr_type pd)) l.
Proof.
  induction l as [|p r IH]; intros a b l' a' H; cbn [prelim_procs_types] in H.
  - inversion H; split; constructor.
  - tinv H. inversion H; subst.
    match goal with Hr : prelim_procs_types D r _ _ = TOk _ |- _ => destruct (IH _ _ _ _ Hr) as (I1 & I2) end.
    split; constructor; auto.
    + split; reflexivity.
    + intros Hlen. repeat match goal with G : guard _ _ = TOk _ |- _ => apply guard_ok in G end.
      apply Nat.ltb_lt in Hlen.
      match goal with G : negb ((1 <? _)%nat && _) = true |- _ => rewrite Hlen in G; cbn in G end.
      unfold contractable_type. unfold add_missing_opt in *.
      destruct (pr_type p) as [t0|]; [|match goal with E : TOk None = TOk ?x |- _ => inversion E; subst; discriminate end].
      match goal with E : tbind (lift (add_missing D t0)) _ = TOk _ |- _ => tinv E; inversion E; subst end.
      match goal with E : lift _ = TOk _ |- _ => apply lift_ok in E end.
      eexists _, _. repeat split; eauto.
      match goal with G : negb (negb ?c) = true |- _ => destruct c; auto; discriminate end.
Qed.

Lemma prelim_procs_shape D procs assumed ps assumed' :
  prelim_procs D procs assumed = TOk (ps, assumed') ->
  Forall2 pshape procs ps /\ map ident assumed' = map ident assumed /\
  Forall (fun pd => 1 < length (pr_providers pd) -> contractable_type D (pr_type pd)) procs.
Proof.
  unfold prelim_procs. intros H. tinv H. inversion H; subst.
  match goal with Hr : prelim_procs_types D _ _ _ = TOk _ |- _ => destruct (prelim_procs_types_shape _ _ _ _ _ _ Hr) as (I1 & I2) end.
  repeat split; auto. eapply add_missing_names_ident; eauto.
Qed.

Lemma tc_procs_all D Sg all assumed ps : forall r, tc_procs D Sg all assumed ps = TOk r ->
  Forall (fun p => exists b, tc_form D Sg (make_ctx (free_name_types p all assumed)) None (pr_type p) (pr_body p) = TOk b) ps.
Proof.
  induction ps as [|p r IH]; intros res H; cbn in H; [constructor|].
  tinv H. constructor; eauto.
Qed.

Lemma Forall2_In_l {A B} (R : A -> B -> Prop) l l' a : Forall2 R l l' -> In a l -> exists b, In b l' /\ R a b.
Proof.
  induction 1; cbn; intros Hin; [contradiction|]. destruct Hin as [<-|Hin].
  - eexists; split; [left; reflexivity|auto].
  - destruct (IHForall2 Hin) as (b & Hb & HR). exists b; split; auto.
Qed.

Lemma flat_map_providers procs ps : Forall2 pshape procs ps ->
  flat_map (fun p => map ident (pr_providers p)) ps = flat_map (fun p => map ident (pr_providers p)) procs.
Proof. induction 1; cbn; auto. destruct H as (_ & ->). now rewrite IHForall2. Qed.

Lemma available_names_mem ps assumed z :
  amem z (available_names ps assumed) =
  str_mem z (flat_map (fun p => map ident (pr_providers p)) ps ++ map ident assumed).
Proof.
  unfold available_names.
  rewrite (fold_aset_mem ident (fun a => a)).
  rewrite (fold_aset_mem fst snd). cbn. rewrite orb_false_r, str_mem_app, orb_comm. f_equal. f_equal.
  induction ps as [|p r IH]; cbn; auto. rewrite map_app, IH. f_equal.
  rewrite map_map. reflexivity.
Qed.
Lemma available_names_val ps assumed k v : alookup k (available_names ps assumed) = Some v -> ident v = k.
Proof.
  unfold available_names.
  apply (fold_aset_val ident (fun a => a) (fun k v => ident v = k)); auto.
  apply (fold_aset_val fst snd (fun k v => ident v = k)).
  - intros [k' v'] Hin. cbn. apply in_flat_map in Hin. destruct Hin as (p & _ & Hin).
    apply in_map_iff in Hin. destruct Hin as (n & E & _). inversion E; subst. reflexivity.
  - cbn. discriminate.
Qed.

Lemma free_name_types_idents pd all assumed :
  map ident (free_name_types pd all assumed) =
  map ident (filter (fun n => negb (str_mem (ident n) (map ident (pr_providers pd))) && amem (ident n) (available_names all assumed))
                    (free_names (pr_body pd))).
Proof.
  unfold free_name_types, names_first_only.
  induction (free_names (pr_body pd)) as [|n r IH]; cbn; auto.
  destruct (negb (str_mem (ident n) (map ident (pr_providers pd)))); cbn; auto.
  unfold amem at 1. destruct (alookup (ident n) (available_names all assumed)) eqn:E; cbn; auto.
  rewrite (available_names_val _ _ _ _ E). now rewrite IH.
Qed.

Theorem tc_linear p p' : uninit_prog p = true -> typecheck p = Accept p' -> LinearProgram p.
Proof.
  unfold typecheck. intros Hu H. destruct (tc_program p) as [q| | |] eqn:Hp; try discriminate. clear H.
  unfold tc_program in Hp. tinv Hp.
  unfold uninit_prog in Hu. apply andb_prop in Hu. destruct Hu as (Huf & Hup).
  rewrite forallb_forall in Huf, Hup.
  match goal with Hf : prelim_funs _ _ _ = TOk _ |- _ => pose proof (prelim_funs_shape _ _ _ _ Hf) as Sf end.
  match goal with Hf : prelim_procs _ _ _ = TOk _ |- _ => destruct (prelim_procs_shape _ _ _ _ _ Hf) as (Sp & Sa & Sc) end.
  match goal with Hf : tc_funs _ _ _ = TOk _ |- _ => pose proof (tc_funs_all _ _ _ _ Hf) as Af end.
  match goal with Hf : tc_procs _ _ _ _ _ = TOk _ |- _ => pose proof (tc_procs_all _ _ _ _ _ _ Hf) as Ap end.
  rewrite Forall_forall in Af, Ap, Sc.
  split; [|split].
  - intros fd Hin. destruct (Forall2_In_l _ _ _ _ Sf Hin) as (fd' & Hin' & Hb & Hps).
    destruct (Af _ Hin') as (b & Hb').
    rewrite Hb in Hb'. apply tc_form_linear in Hb'; [|now apply Huf|exact I].
    eapply LinearNames_ext; [|exact Hb']. intros z. cbn [shid option_map].
    rewrite (same_keys (make_ctx (fn_params fd')) z), make_ctx_mem. unfold fun_scope. now rewrite Hps.
  - intros pd Hin. destruct (Forall2_In_l _ _ _ _ Sp Hin) as (pd' & Hin' & Hb & Hps).
    destruct (Ap _ Hin') as (b & Hb').
    rewrite Hb in Hb'. apply tc_form_linear in Hb'; [|now apply Hup|exact I].
    eapply LinearNames_ext; [|exact Hb']. intros z. cbn [shid option_map].
    rewrite (same_keys _ z), make_ctx_mem, free_name_types_idents. unfold proc_scope.
    rewrite Hb, Hps. f_equal. f_equal. apply filter_ext. intros n. f_equal.
    rewrite available_names_mem. unfold declared. rewrite (flat_map_providers _ _ Sp), Sa. reflexivity.
  - intros pd Hin. now apply Sc.
Qed.
