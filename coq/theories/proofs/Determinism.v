(* Determinism.v — from the diamond (Diamond.v) to determinism of the observable outcome (C03), by
   the standard argument: a relation with the one-step diamond property (up to an equivalence
   that every step respects) is uniformly terminating — if ONE maximal run from c has n steps,
   then every run from c has at most n steps and can be completed to a maximal run of exactly n
   steps, ending in an equivalent configuration.  Instantiated with `step md D F` (any mode; the
   hypotheses are about the mode chosen), `cfg_equiv`, and an invariant `I` that provides the
   side condition of the diamond. *)
From stdpp Require Import gmap strings sorting.
Require Import Grits.Base Grits.ModeDefs Grits.Modes Grits.STypes Grits.Forms Grits.Subst Grits.TcDeps Grits.Expand.
Require Import Grits.Runtime Grits.RuntimeFootprint Grits.proofs.RuntimeFacts Grits.proofs.Diamond.

(* ------------------------------------------------------------------ abstract confluence *)
Section Confluence.
Context {St Ch : Type} `{EqDecision Ch}.
Variable stp : St -> Ch -> option St.
Variable eqv : relation St.
Context `{!Equivalence eqv}.
Variable I : St -> Prop.
Hypothesis stp_eqv : forall c d a c', eqv c d -> stp c a = Some c' -> exists d', stp d a = Some d' /\ eqv c' d'.
Hypothesis I_stp : forall c a c', I c -> stp c a = Some c' -> I c'.
Hypothesis diam : forall c a b c1 c2, I c -> a <> b -> stp c a = Some c1 -> stp c b = Some c2 ->
  exists d1 d2, stp c1 b = Some d1 /\ stp c2 a = Some d2 /\ eqv d1 d2.

Inductive nsteps : nat -> St -> St -> Prop :=
| ns_O c : nsteps 0 c c
| ns_S n c a c' t : stp c a = Some c' -> nsteps n c' t -> nsteps (S n) c t.

Definition terminal (c : St) : Prop := forall a, stp c a = None.

Lemma nsteps_eqv n c t d : nsteps n c t -> eqv c d -> exists t', nsteps n d t' /\ eqv t t'.
Proof.
  intros H. revert d. induction H as [c|n c a c' t Hs Hn IH]; intros d Hd.
  - exists d. split; [constructor|done].
  - destruct (stp_eqv _ _ _ _ Hd Hs) as (d' & Hs' & Hd'). destruct (IH _ Hd') as (t' & Hn' & Ht').
    exists t'. split; [econstructor; eauto|done].
Qed.

Lemma terminal_eqv c d : terminal c -> eqv c d -> terminal d.
Proof.
  intros Ht Hd a. destruct (stp d a) as [d'|] eqn:E; [|done].
  symmetry in Hd. destruct (stp_eqv _ _ _ _ Hd E) as (c' & Hc' & _). by rewrite Ht in Hc'.
Qed.

Theorem uniform n : forall c t, I c -> nsteps n c t -> terminal t ->
  forall m c', nsteps m c c' -> (m <= n)%nat /\ exists t', nsteps (n - m) c' t' /\ eqv t' t.
Proof.
  induction n as [|n IH]; intros c t HI Hn Ht m c' Hm.
  - inversion Hn; subst. inversion Hm; subst.
    + split; [lia|]. eexists. split; [constructor|done].
    + match goal with H : stp _ _ = Some _ |- _ => by rewrite Ht in H end.
  - inversion Hn as [|n0 c0 a c1 t0 Hsa Hn1]; subst.
    inversion Hm as [|m' c0 b c2 t0 Hsb Hm2]; subst.
    { split; [lia|]. exists t. split; [|done]. replace (S n - 0)%nat with (S n) by lia. done. }
    destruct (decide (a = b)) as [<-|Hab].
    { rewrite Hsa in Hsb. injection Hsb as <-.
      destruct (IH _ _ (I_stp _ _ _ HI Hsa) Hn1 Ht _ _ Hm2) as [Hle (t' & Ht' & He)].
      split; [lia|]. exists t'. split; [|done]. by replace (S n - S m')%nat with (n - m')%nat by lia. }
    destruct (diam _ _ _ _ _ HI Hab Hsa Hsb) as (d1 & d2 & Hd1 & Hd2 & Hd).
    assert (H1 : nsteps 1 c1 d1) by (econstructor; [exact Hd1|constructor]).
    destruct (IH _ _ (I_stp _ _ _ HI Hsa) Hn1 Ht _ _ H1) as [Hle1 (t1 & Ht1 & He1)].
    destruct (nsteps_eqv _ _ _ _ Ht1 Hd) as (t2 & Ht2 & He2).
    assert (Hterm2 : terminal t2).
    { eapply terminal_eqv; [exact Ht|]. etrans; [symmetry; exact He1|exact He2]. }
    assert (Hn2 : nsteps n c2 t2).
    { replace n with (S (n - 1)) by lia. econstructor; [exact Hd2|exact Ht2]. }
    destruct (IH _ _ (I_stp _ _ _ HI Hsb) Hn2 Hterm2 _ _ Hm2) as [Hle (t' & Ht' & He)].
    split; [lia|]. exists t'. split; [by replace (S n - S m')%nat with (n - m')%nat by lia|].
    etrans; [exact He|]. etrans; [symmetry; exact He2|exact He1].
Qed.

(* all maximal runs have the same length and equivalent ends *)
Corollary maximal_runs_agree n m c t t' :
  I c -> nsteps n c t -> terminal t -> nsteps m c t' -> terminal t' -> n = m /\ eqv t' t.
Proof.
  intros HI Hn Ht Hm Ht'.
  destruct (uniform _ _ _ HI Hn Ht _ _ Hm) as [H1 (t1 & Hn1 & He1)].
  destruct (uniform _ _ _ HI Hm Ht' _ _ Hn) as [H2 _].
  split; [lia|]. replace (n - m)%nat with 0%nat in Hn1 by lia. by inversion Hn1; subst.
Qed.
End Confluence.

(* ------------------------------------------------------------------ steps respect cfg_equiv *)
Global Instance choice_eq_dec : EqDecision choice.
Proof. solve_decision. Defined.

Lemma move_of_equiv md D F c d ch : cfg_equiv c d -> move_of md D F d ch = move_of md D F c ch.
Proof. intros (Hp & Hc & _). apply move_of_ext; intros; by rewrite ?Hp, ?Hc. Qed.

Lemma apply_move_equiv c d mv : cfg_equiv c d -> cfg_equiv (apply_move c mv) (apply_move d mv).
Proof.
  intros (Hp & Hc & Ho). split; [|split].
  - apply map_eq. intros r. by rewrite !procs_apply_move_lookup, Hp.
  - apply map_eq. intros k. by rewrite !chans_apply_move, Hc.
  - rewrite !out_apply_move. by apply Permutation_app_head.
Qed.

Lemma step_equiv md D F c d ch :
  cfg_equiv c d ->
  match step md D F c ch with
  | SNotEnabled => step md D F d ch = SNotEnabled
  | SError w e => step md D F d ch = SError w e
  | SStep c' => exists d', step md D F d ch = SStep d' /\ cfg_equiv c' d'
  end.
Proof.
  intros He. rewrite !step_move, (move_of_equiv md D F c d ch He).
  destruct (move_of md D F c ch) as [| |mv]; cbn; try done.
  eexists. split; [done|]. by apply apply_move_equiv.
Qed.

(* ------------------------------------------------------------------ candidates and enabled choices *)
Lemma elem_of_pids c p : p ∈ pids c <-> is_Some (procs c !! p).
Proof.
  unfold pids. rewrite elem_of_list_fmap. split.
  - intros ([q pp] & -> & H). apply elem_of_map_to_list in H. by eexists.
  - intros [pp H]. exists (p, pp). split; [done|]. by apply elem_of_map_to_list.
Qed.

Lemma step_candidate md D F c ch : step md D F c ch ≠ SNotEnabled -> In ch (candidates md c).
Proof.
  unfold candidates. intros H. apply in_or_app. destruct ch as [p|s r|f t]; cbn [step] in H.
  - left. apply in_map. apply elem_of_list_In, elem_of_pids. destruct (procs c !! p); [by eexists|done].
  - right. destruct md; [done| |].
    + destruct (bool_decide (s = r)); [done|].
      destruct (procs c !! s) eqn:Es; [|done]. destruct (procs c !! r) eqn:Er; [|done].
      apply in_flat_map. exists s. split; [apply elem_of_list_In, elem_of_pids; by eexists|].
      apply in_map. apply elem_of_list_In, elem_of_pids; by eexists.
    + apply in_or_app. left. destruct (bool_decide (s = r)); [done|].
      destruct (procs c !! s) eqn:Es; [|done]. destruct (procs c !! r) eqn:Er; [|done].
      apply in_flat_map. exists s. split; [apply elem_of_list_In, elem_of_pids; by eexists|].
      apply in_map. apply elem_of_list_In, elem_of_pids; by eexists.
  - right. destruct md; cbn in H; [done|done|]. apply in_or_app. right.
    destruct (bool_decide (f = t)); [done|].
    destruct (procs c !! f) eqn:Ef; [|done]. destruct (procs c !! t) eqn:Et; [|done].
    apply in_flat_map. exists f. split; [apply elem_of_list_In, elem_of_pids; by eexists|].
    apply in_map. apply elem_of_list_In, elem_of_pids; by eexists.
Qed.

Lemma enabled_spec md D F c ch : In ch (enabled md D F c) <-> step md D F c ch ≠ SNotEnabled.
Proof.
  unfold enabled. rewrite filter_In. split.
  - intros [_ H]. by destruct (step md D F c ch).
  - intros H. split; [by eapply step_candidate|]. by destruct (step md D F c ch).
Qed.

Lemma enabled_nil_quiescent md D F c : enabled md D F c = [] <-> quiescent md D F c.
Proof.
  split.
  - intros E ch. destruct (step md D F c ch) eqn:Es; [done| |];
      (assert (In ch (enabled md D F c)) as Hin by (apply enabled_spec; congruence); by rewrite E in Hin).
  - intros Hq. destruct (enabled md D F c) as [|ch l] eqn:E; [done|].
    assert (In ch (enabled md D F c)) as Hin by (rewrite E; by left).
    apply enabled_spec in Hin. by destruct Hin.
Qed.

(* ------------------------------------------------------------------ determinism *)
Section Determinism.
Variables (md : exec_mode) (D : tenv) (F : list fundef).
(* The invariant.  What has to be provided (see the comment at `determinism_partial`): *)
Variable I : config -> Prop.
Hypothesis I_step : forall c ch c', I c -> step md D F c ch = SStep c' -> I c'.
Hypothesis I_compat : forall c a b c1 c2, I c -> a ≠ b ->
  step md D F c a = SStep c1 -> step md D F c b = SStep c2 -> indep md D c a b.
(* a run-time error of one choice is not cured by a step of another choice (in particular: there
   are no run-time errors at all, which is C01) *)
Hypothesis I_err : forall c a b w e c', I c -> step md D F c a = SError w e -> step md D F c b = SStep c' ->
  exists w' e', step md D F c' a = SError w' e'.

Definition stp (c : config) (ch : choice) : option config :=
  match step md D F c ch with SStep c' => Some c' | _ => None end.
Definition J (c : config) : Prop := I c /\ ns_ok c.

Lemma stp_Some c ch c' : stp c ch = Some c' <-> step md D F c ch = SStep c'.
Proof. unfold stp. destruct (step md D F c ch); split; congruence. Qed.

Lemma stp_eqv c d a c' : cfg_equiv c d -> stp c a = Some c' -> exists d', stp d a = Some d' /\ cfg_equiv c' d'.
Proof.
  intros He H. apply stp_Some in H. pose proof (step_equiv md D F c d a He) as Hs. rewrite H in Hs.
  destruct Hs as (d' & Hd & He'). exists d'. split; [by apply stp_Some|done].
Qed.

Lemma J_stp c a c' : J c -> stp c a = Some c' -> J c'.
Proof. intros [HI Hns] H. apply stp_Some in H. split; [by eapply I_step|by eapply ns_ok_step]. Qed.

Lemma J_diam c a b c1 c2 : J c -> a ≠ b -> stp c a = Some c1 -> stp c b = Some c2 ->
  exists d1 d2, stp c1 b = Some d1 /\ stp c2 a = Some d2 /\ cfg_equiv d1 d2.
Proof.
  intros [HI Hns] Hab Ha Hb. apply stp_Some in Ha, Hb.
  destruct (diamond md D F c a b c1 c2 Hns (I_compat _ _ _ _ _ HI Hab Ha Hb) Ha Hb) as (d1 & d2 & H1 & H2 & He).
  exists d1, d2. split; [by apply stp_Some|]. split; [by apply stp_Some|done].
Qed.

Notation run_steps := (nsteps stp).
Notation term := (terminal stp).

Lemma quiescent_terminal c : quiescent md D F c -> term c.
Proof. intros Hq a. unfold stp. by rewrite Hq. Qed.

Lemma quiescent_equiv c d : cfg_equiv c d -> quiescent md D F c -> quiescent md D F d.
Proof. intros He Hq ch. pose proof (step_equiv md D F c d ch He) as H. by rewrite Hq in H. Qed.

(* errors persist along step sequences, so a configuration from which quiescence is reachable
   has no erroneous choice *)
Lemma error_persists n c t a w e :
  I c -> run_steps n c t -> step md D F c a = SError w e -> exists w' e', step md D F t a = SError w' e'.
Proof.
  intros HI H. revert w e HI. induction H as [c|n c b c' t Hs Hn IH]; intros w e HI Ha; [eauto|].
  apply stp_Some in Hs. destruct (I_err _ _ _ _ _ _ HI Ha Hs) as (w' & e' & Ha'). eapply IH; eauto.
Qed.

Lemma no_error_before_quiescence n c t a w e :
  I c -> run_steps n c t -> quiescent md D F t -> step md D F c a ≠ SError w e.
Proof.
  intros HI Hn Hq Ha. destruct (error_persists _ _ _ _ _ _ HI Hn Ha) as (w' & e' & H). by rewrite Hq in H.
Qed.

Lemma run_steps_J n c t : J c -> run_steps n c t -> J t.
Proof. intros HJ H. induction H; [done|]. eauto using J_stp. Qed.

(* a run of the interpreter that ends quiescent is a maximal sequence of steps *)
Lemma exec_run_sound pick fuel c t :
  exec_run fuel pick md D F c = RQuiescent t ->
  exists n, (n < fuel)%nat /\ run_steps n c t /\ quiescent md D F t.
Proof.
  revert c. induction fuel as [|f IH]; intros c; cbn [exec_run]; [discriminate|].
  destruct (enabled md D F c) as [|e0 es] eqn:E.
  - intros [= <-]. exists 0%nat. split; [lia|]. split; [constructor|]. by apply enabled_nil_quiescent.
  - set (ch := nth _ _ _).
    assert (Hin : In ch (enabled md D F c)).
    { rewrite E. apply nth_In. cbn [length]. apply Nat.mod_upper_bound. lia. }
    apply enabled_spec in Hin. destruct (step md D F c ch) as [|c'|] eqn:Es; [done| |discriminate].
    intros H. apply IH in H as (n & Hn & Hr & Hq). exists (S n). split; [lia|]. split; [|done].
    econstructor; [|exact Hr]. by apply stp_Some.
Qed.

(* under the invariant, every run of the interpreter with enough fuel ends quiescent, in a
   configuration equivalent to the end of any given maximal step sequence *)
Lemma exec_run_complete pick fuel : forall n c t,
  J c -> run_steps n c t -> quiescent md D F t -> (n < fuel)%nat ->
  exists t', exec_run fuel pick md D F c = RQuiescent t' /\ cfg_equiv t' t.
Proof.
  induction fuel as [|f IH]; intros n c t HJ Hn Hq Hf; [lia|]. pose proof (quiescent_terminal _ Hq) as Ht. cbn [exec_run].
  destruct (enabled md D F c) as [|e0 es] eqn:E.
  - exists c. split; [done|]. apply enabled_nil_quiescent in E.
    inversion Hn as [|n0 c0 a c1 t0 Hs _]; subst; [done|]. apply stp_Some in Hs. by rewrite E in Hs.
  - set (ch := nth _ _ _).
    assert (Hin : In ch (enabled md D F c)).
    { rewrite E. apply nth_In. cbn [length]. apply Nat.mod_upper_bound. lia. }
    apply enabled_spec in Hin. destruct (step md D F c ch) as [|c'|who e] eqn:Es; [done| |].
    + assert (Hs : stp c ch = Some c') by (by apply stp_Some).
      assert (H1 : run_steps 1 c c') by (econstructor; [exact Hs|constructor]).
      destruct (uniform stp cfg_equiv J stp_eqv J_stp J_diam n c t HJ Hn Ht 1%nat c' H1) as [Hle (t1 & Ht1 & He1)].
      assert (Hq1 : quiescent md D F t1).
      { eapply quiescent_equiv; [|exact Hq]. by symmetry. }
      destruct (IH (n - 1)%nat c' t1 (J_stp _ _ _ HJ Hs) Ht1 Hq1 ltac:(lia)) as (t' & Hr & He).
      exists t'. split; [done|]. by etrans.
    + destruct HJ as [HI _]. by destruct (no_error_before_quiescence _ _ _ _ _ _ HI Hn Hq Es).
Qed.

(* ---- C03, partial: REMAINING HYPOTHESES are the three Section hypotheses on the invariant I:
   * I_step   — I is preserved by every step of the mode considered;
   * I_compat — in an I-configuration any two different enabled choices are independent
                (`indep`: no common mover, disjoint footprints, the providers they close exist).
                This is the content of "Topo + Dual" of DESIGN.md: Topo gives at most one
                sender-to-be and one receiver-to-be per channel, Dual excludes that provider and
                client of a channel both want to send; a sender and a receiver on the same
                channel are never both enabled in asynchronous mode
                (`Diamond.async_send_recv_exclusive`) and are ONE choice (`Rendezvous`) in
                synchronous mode;
   * I_err    — a run-time error of one choice is not cured by a step of another choice.  This
                holds trivially when I-configurations have no run-time errors (C01, type safety:
                `determinism_partial_safe` below); without C01 it follows from the same kind of
                independence as I_compat (`Diamond.error_stable`), and then the theorem also says
                that WHETHER a program dies with an error does not depend on the schedule.
   `ns_ok` (namespace hygiene) is NOT a hypothesis for runs from `init_config`: it is proved
   (`ns_ok_init`, `ns_ok_step`).  Conclusion: if ONE run of the interpreter (any oracle `pick1`)
   reaches quiescence, then EVERY run (any oracle `pick2`, at least as much fuel) reaches
   quiescence, in a configuration with the same process table, the same channel table and an
   output that is a permutation — so the multiset of printed labels is the same, and so is
   "runs to completion".  `maximal_runs_same_length` adds: all maximal runs have the same
   number of steps. *)
Theorem determinism_partial c pick1 pick2 f1 f2 t1 :
  I c -> ns_ok c -> exec_run f1 pick1 md D F c = RQuiescent t1 -> (f1 <= f2)%nat ->
  exists t2, exec_run f2 pick2 md D F c = RQuiescent t2 /\ cfg_equiv t2 t1 /\ labels t2 ≡ₚ labels t1.
Proof.
  intros HI Hns H1 Hf. apply exec_run_sound in H1 as (n & Hn & Hr & Hq).
  destruct (exec_run_complete pick2 f2 n c t1 (conj HI Hns) Hr Hq ltac:(lia)) as (t2 & H2 & He).
  exists t2. split; [done|]. split; [done|]. by apply cfg_equiv_labels.
Qed.

Theorem maximal_runs_same_length c n m t t' :
  I c -> ns_ok c -> run_steps n c t -> quiescent md D F t -> run_steps m c t' -> quiescent md D F t' ->
  n = m /\ cfg_equiv t' t.
Proof.
  intros HI Hns Hn Hq Hm Hq'.
  eapply (maximal_runs_agree stp cfg_equiv J stp_eqv J_stp J_diam); eauto using quiescent_terminal. by split.
Qed.

(* no run is longer than a maximal one: a program that can run to completion cannot diverge *)
Theorem no_longer_run c n m t c' :
  I c -> ns_ok c -> run_steps n c t -> quiescent md D F t -> run_steps m c c' -> (m <= n)%nat.
Proof.
  intros HI Hns Hn Hq Hm.
  by destruct (uniform stp cfg_equiv J stp_eqv J_stp J_diam n c t (conj HI Hns) Hn (quiescent_terminal _ Hq) m c' Hm).
Qed.

(* a run that ends in a run-time error: the erroneous configuration is reachable *)
Lemma exec_run_error_sound pick fuel c t who e :
  exec_run fuel pick md D F c = RError t who e ->
  exists n ch, run_steps n c t /\ step md D F t ch = SError who e.
Proof.
  revert c. induction fuel as [|f IH]; intros c; cbn [exec_run]; [discriminate|].
  destruct (enabled md D F c) as [|e0 es] eqn:E; [discriminate|].
  set (ch := nth _ _ _). destruct (step md D F c ch) as [|c'|who' e'] eqn:Es; [discriminate| |].
  - intros H. apply IH in H as (n & ch' & Hr & He). exists (S n), ch'. split; [|done].
    econstructor; [|exact Hr]. by apply stp_Some.
  - intros [= <- <- <-]. exists 0%nat, ch. split; [constructor|done].
Qed.

(* whether a program dies with a run-time error does not depend on the schedule either: if one run
   ends in an error, no run reaches quiescence *)
Theorem error_excludes_completion c pick1 pick2 f1 f2 t1 who e t2 :
  I c -> ns_ok c -> exec_run f1 pick1 md D F c = RError t1 who e ->
  exec_run f2 pick2 md D F c = RQuiescent t2 -> False.
Proof.
  intros HI Hns H1 H2. apply exec_run_error_sound in H1 as (m & ch & Hm & He).
  apply exec_run_sound in H2 as (n & _ & Hn & Hq).
  destruct (uniform stp cfg_equiv J stp_eqv J_stp J_diam n c t2 (conj HI Hns) Hn (quiescent_terminal _ Hq) m t1 Hm)
    as [_ (t' & Ht' & He')].
  assert (Hq' : quiescent md D F t') by (eapply quiescent_equiv; [|exact Hq]; by symmetry).
  destruct (run_steps_J _ _ _ (conj HI Hns) Hm) as [HI1 _].
  exact (no_error_before_quiescence _ _ _ _ _ _ HI1 Ht' Hq' He).
Qed.

Corollary determinism_partial_init p pick1 pick2 f1 f2 t1 :
  I (init_config p) -> exec_run f1 pick1 md D F (init_config p) = RQuiescent t1 -> (f1 <= f2)%nat ->
  exists t2, exec_run f2 pick2 md D F (init_config p) = RQuiescent t2 /\ cfg_equiv t2 t1 /\ labels t2 ≡ₚ labels t1.
Proof. intros HI. apply determinism_partial; [done|apply ns_ok_init]. Qed.
End Determinism.

(* the same with "no run-time errors" (C01) in place of error persistence *)
Theorem determinism_partial_safe (md : exec_mode) (D : tenv) (F : list fundef) (I : config -> Prop) :
  (forall c ch c', I c -> step md D F c ch = SStep c' -> I c') ->
  (forall c a b c1 c2, I c -> a ≠ b -> step md D F c a = SStep c1 -> step md D F c b = SStep c2 -> indep md D c a b) ->
  (forall c ch who e, I c -> step md D F c ch ≠ SError who e) ->
  forall c pick1 pick2 f1 f2 t1,
    I c -> ns_ok c -> exec_run f1 pick1 md D F c = RQuiescent t1 -> (f1 <= f2)%nat ->
    exists t2, exec_run f2 pick2 md D F c = RQuiescent t2 /\ cfg_equiv t2 t1 /\ labels t2 ≡ₚ labels t1.
Proof.
  intros H1 H2 H3. apply determinism_partial; [done|done|].
  intros c a b w e c' HI Ha. by destruct (H3 _ _ _ _ HI Ha).
Qed.

(* ------------------------------------------------------------------ the full statements aimed at *)
Require Import Grits.TcTop.

(* C03, first sentence, for the two polarized modes: for every accepted program, if one run (one
   scheduler oracle) runs to completion then every run does, and prints the same multiset. *)
Definition determinism_statement : Prop :=
  forall (p p' : program) (md : exec_mode), md = Async \/ md = Sync -> typecheck p = Accept p' ->
  forall pick1 pick2 f1 f2 t1,
    exec_run f1 pick1 md (p_types p') (p_funs p') (init_config p') = RQuiescent t1 -> (f1 <= f2)%nat ->
    exists t2, exec_run f2 pick2 md (p_types p') (p_funs p') (init_config p') = RQuiescent t2 /\
               labels t2 ≡ₚ labels t1.

(* ... and across the two polarized modes *)
Definition async_sync_agree_statement : Prop :=
  forall (p p' : program), typecheck p = Accept p' ->
  forall pick1 pick2 f1 t1,
    exec_run f1 pick1 Sync (p_types p') (p_funs p') (init_config p') = RQuiescent t1 ->
    exists f2 t2, exec_run f2 pick2 Async (p_types p') (p_funs p') (init_config p') = RQuiescent t2 /\
                  labels t2 ≡ₚ labels t1.

(* `determinism_partial` gives `determinism_statement` for every program for which an invariant
   with the three properties exists: *)
Theorem determinism_statement_from_invariant (p' : program) (md : exec_mode) (I : config -> Prop) :
  (forall c ch c', I c -> step md (p_types p') (p_funs p') c ch = SStep c' -> I c') ->
  (forall c a b c1 c2, I c -> a ≠ b -> step md (p_types p') (p_funs p') c a = SStep c1 ->
     step md (p_types p') (p_funs p') c b = SStep c2 -> indep md (p_types p') c a b) ->
  (forall c a b w e c', I c -> step md (p_types p') (p_funs p') c a = SError w e ->
     step md (p_types p') (p_funs p') c b = SStep c' -> exists w' e', step md (p_types p') (p_funs p') c' a = SError w' e') ->
  I (init_config p') ->
  forall pick1 pick2 f1 f2 t1,
    exec_run f1 pick1 md (p_types p') (p_funs p') (init_config p') = RQuiescent t1 -> (f1 <= f2)%nat ->
    exists t2, exec_run f2 pick2 md (p_types p') (p_funs p') (init_config p') = RQuiescent t2 /\
               labels t2 ≡ₚ labels t1.
Proof.
  intros H1 H2 H3 HI pick1 pick2 f1 f2 t1 Hr Hf.
  destruct (determinism_partial_init md _ _ I H1 H2 H3 p' pick1 pick2 f1 f2 t1 HI Hr Hf) as (t2 & Hr2 & _ & Hl).
  eauto.
Qed.
