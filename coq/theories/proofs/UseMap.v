(* proofs/UseMap.v — the use-once bookkeeping of TcTop.use_free_names (two maps name -> may-still-be-
   used) against its declarative reading: the names used are distinct and each was available. *)
Require Import Grits.Base Grits.ModeDefs Grits.Modes Grits.STypes Grits.Forms Grits.Subst Grits.Infer
               Grits.TcDeps Grits.Expand Grits.Tc Grits.TcTop Grits.proofs.TcLemmas.

Lemma alookup_aremove {V} k k' (m : list (string * V)) :
  alookup k' (aremove k m) = if String.eqb k' k then None else alookup k' m.
Proof.
  induction m as [|[k0 v0] r IH]; cbn.
  - now destruct (String.eqb k' k).
  - destruct (String.eqb k k0) eqn:E.
    + apply String.eqb_eq in E. subst k0. rewrite IH. destruct (String.eqb k' k); reflexivity.
    + cbn. rewrite IH. destruct (String.eqb k' k0) eqn:E2; auto.
      apply String.eqb_eq in E2. subst k0. rewrite String.eqb_sym in E. now rewrite E.
Qed.
Lemma alookup_aset {V} k k' (v : V) m :
  alookup k' (aset k v m) = if String.eqb k' k then Some v else alookup k' m.
Proof. unfold aset. cbn. rewrite alookup_aremove. destruct (String.eqb k' k); reflexivity. Qed.
Lemma alookup_aset_same {V} k (v : V) m : alookup k (aset k v m) = Some v.
Proof. rewrite alookup_aset. now rewrite String.eqb_refl. Qed.
Lemma alookup_aset_other {V} k k' (v : V) m : k' <> k -> alookup k' (aset k v m) = alookup k' m.
Proof. intros N. rewrite alookup_aset. apply String.eqb_neq in N. now rewrite N. Qed.

Lemma aremove_keys {V} k (m : list (string * V)) x : In x (map fst (aremove k m)) -> In x (map fst m) /\ x <> k.
Proof.
  induction m as [|[k0 v0] r IH]; cbn; [tauto|].
  destruct (String.eqb k k0) eqn:E; cbn.
  - intros H. destruct (IH H). auto.
  - intros [<-|H]; [|destruct (IH H); auto]. split; auto. apply String.eqb_neq in E. congruence.
Qed.
Lemma aremove_nodup {V} k (m : list (string * V)) : NoDup (map fst m) -> NoDup (map fst (aremove k m)).
Proof.
  induction m as [|[k0 v0] r IH]; cbn; intros N; [constructor|].
  inversion N; subst. destruct (String.eqb k k0); cbn; auto.
  constructor; auto. intros H. apply aremove_keys in H. tauto.
Qed.
Lemma aset_nodup {V} k (v : V) m : NoDup (map fst m) -> NoDup (map fst (aset k v m)).
Proof.
  intros N. unfold aset. cbn. constructor; [|now apply aremove_nodup].
  intros H. apply aremove_keys in H. tauto.
Qed.
Lemma In_alookup {V} k (v : V) m : NoDup (map fst m) -> In (k, v) m -> alookup k m = Some v.
Proof.
  induction m as [|[k0 v0] r IH]; cbn; intros N H; [tauto|]. inversion N; subst.
  destruct H as [H|H].
  - inversion H; subst. now rewrite String.eqb_refl.
  - destruct (String.eqb k k0) eqn:E; auto. apply String.eqb_eq in E. subst k0.
    exfalso. apply H2. change k with (fst (k, v)). now apply in_map.
Qed.

Lemma alookup_const_in (l : list string) k : In k l -> alookup k (map (fun x => (x, true)) l) = Some true.
Proof.
  induction l as [|x r IH]; cbn; [tauto|]. intros H.
  destruct (String.eqb k x) eqn:E; auto. apply String.eqb_neq in E. destruct H; [congruence|auto].
Qed.
Lemma alookup_const_notin (l : list string) k : ~ In k l -> alookup k (map (fun x => (x, true)) l) = None.
Proof.
  induction l as [|x r IH]; cbn; auto. intros H.
  destruct (String.eqb k x) eqn:E; [apply String.eqb_eq in E; subst; tauto|auto].
Qed.

(* a name may still be used: as an assumed name, else as a process name *)
Definition avail (A P : usemap) (k : string) : Prop :=
  alookup k A = Some true \/ (alookup k A = None /\ alookup k P = Some true).

Definition uses_ok (A P A' P' : usemap) (L : list string) : Prop :=
  NoDup L /\
  (forall k, In k L -> avail A P k) /\
  (forall k, In k L -> ~ avail A' P' k) /\
  (forall k, ~ In k L -> alookup k A' = alookup k A /\ alookup k P' = alookup k P) /\
  (forall k, alookup k A' = None <-> alookup k A = None).

Lemma uses_ok_nil A P : uses_ok A P A P [].
Proof. repeat split; cbn; auto; try tauto; try constructor. Qed.

Lemma uses_ok_avail_mono A P A' P' L k : uses_ok A P A' P' L -> avail A' P' k -> avail A P k.
Proof.
  intros [N [H1 [H2 [H3 H4]]]] Av. destruct (in_dec string_dec k L) as [I|I].
  - destruct (H2 _ I Av).
  - destruct (H3 _ I) as [E1 E2]. unfold avail in *. rewrite E1, E2 in Av. exact Av.
Qed.

Lemma uses_ok_app A P A1 P1 A2 P2 L1 L2 :
  uses_ok A P A1 P1 L1 -> uses_ok A1 P1 A2 P2 L2 -> uses_ok A P A2 P2 (L1 ++ L2).
Proof.
  intros U1 U2. pose proof U1 as [N1 [a1 [b1 [c1 d1]]]]. pose proof U2 as [N2 [a2 [b2 [c2 d2]]]].
  repeat split.
  - clear - N1 N2 b1 a2. induction L1 as [|x r IH]; cbn; auto.
    inversion N1; subst. constructor.
    + rewrite in_app_iff. intros [H|H]; [tauto|]. apply (b1 x); [now left|auto].
    + apply IH; auto. intros k Hk. apply b1. now right.
  - intros k Hk. apply in_app_iff in Hk. destruct Hk as [Hk|Hk]; auto.
    eapply uses_ok_avail_mono; eauto.
  - intros k Hk Av. apply in_app_iff in Hk. destruct Hk as [Hk|Hk]; [|exact (b2 _ Hk Av)].
    apply (b1 _ Hk). eapply uses_ok_avail_mono; eauto.
  - rewrite in_app_iff in H. destruct (c2 k) as [-> _]; [tauto|]. destruct (c1 k) as [-> _]; tauto.
  - rewrite in_app_iff in H. destruct (c2 k) as [_ ->]; [tauto|]. destruct (c1 k) as [_ ->]; tauto.
  - intros H. apply d1, d2, H.
  - intros H. apply d2, d1, H.
Qed.

Lemma uses_ok_assumed A P k : alookup k A = Some true -> uses_ok A P (aset k false A) P [k].
Proof.
  intros E. repeat split.
  - constructor; [tauto|constructor].
  - intros k' [<-|[]]. now left.
  - intros k' [<-|[]] [Av|[Av _]]; rewrite alookup_aset_same in Av; discriminate.
  - rewrite alookup_aset_other; auto. intros ->. apply H. now left.
  - rewrite alookup_aset. destruct (String.eqb k0 k) eqn:E2; [discriminate|auto].
  - rewrite alookup_aset. destruct (String.eqb k0 k) eqn:E2; auto.
    apply String.eqb_eq in E2. subst. congruence.
Qed.
Lemma uses_ok_process A P k : alookup k A = None -> alookup k P = Some true -> uses_ok A P A (aset k false P) [k].
Proof.
  intros E1 E2. repeat split; auto.
  - constructor; [tauto|constructor].
  - intros k' [<-|[]]. now right.
  - intros k' [<-|[]] [Av|[_ Av]]; [congruence|]. rewrite alookup_aset_same in Av. discriminate.
  - rewrite alookup_aset_other; auto. intros ->. apply H. now left.
Qed.

Lemma use_free_names_sound : forall fns A P A' P',
  use_free_names fns A P = TOk (A', P') -> uses_ok A P A' P' (map ident fns).
Proof.
  induction fns as [|fn r IH]; intros A P A' P' H; cbn [use_free_names] in H.
  - inversion H; subst. apply uses_ok_nil.
  - cbn [map]. change (ident fn :: map ident r) with ([ident fn] ++ map ident r).
    destruct (alookup (ident fn) A) as [[|]|] eqn:EA.
    + eapply uses_ok_app; [apply uses_ok_assumed; eauto|apply IH; exact H].
    + discriminate H.
    + destruct (alookup (ident fn) P) as [[|]|] eqn:EP; try discriminate H.
      eapply uses_ok_app; [apply uses_ok_process; eauto|apply IH; exact H].
Qed.

Lemma use_free_names_complete : forall fns A P,
  NoDup (map ident fns) -> (forall k, In k (map ident fns) -> avail A P k) ->
  exists A' P', use_free_names fns A P = TOk (A', P').
Proof.
  induction fns as [|fn r IH]; intros A P N Av; cbn [use_free_names].
  - eauto.
  - cbn [map] in N, Av. inversion N as [|x l Nx Nr]; subst.
    assert (Hne : forall k, In k (map ident r) -> k <> ident fn) by (intros k Hk ->; tauto).
    destruct (Av (ident fn) (or_introl eq_refl)) as [E|[E1 E2]].
    + rewrite E. apply IH; auto. intros k Hk. destruct (Av k (or_intror Hk)) as [Q|[Q1 Q2]]; [left|right].
      * rewrite alookup_aset_other; auto.
      * rewrite alookup_aset_other; auto.
    + rewrite E1, E2. apply IH; auto. intros k Hk. destruct (Av k (or_intror Hk)) as [Q|[Q1 Q2]]; [left|right]; auto.
      rewrite alookup_aset_other; auto.
Qed.

(* keys stay unique *)
Lemma use_free_names_nodup : forall fns A P A' P', NoDup (map fst A) ->
  use_free_names fns A P = TOk (A', P') -> NoDup (map fst A').
Proof.
  induction fns as [|fn r IH]; intros A P A' P' N H; cbn [use_free_names] in H.
  - inversion H; subst. auto.
  - destruct (alookup (ident fn) A) as [[|]|] eqn:EA.
    + eapply IH; [|exact H]. now apply aset_nodup.
    + discriminate H.
    + destruct (alookup (ident fn) P) as [[|]|] eqn:EP; try discriminate H. eapply IH; eauto.
Qed.
